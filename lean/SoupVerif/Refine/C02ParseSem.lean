/-
  C02 from the selector TEXT, stage 3 (helpers): from what the parser's builder receives to what the matcher
  decides.

  `C09Compile.denote` computes the compiled selector from the token values by applying, item after item,
  `Item.apply` to the `_Selector` builder `SelB`.  Here:

    * `NthExt rs b b'` — the builder `b'` is `b` with the records `rs` inserted somewhere into its `nth` list;
      every builder operation, hence every `Item.apply` (`NthExt.item`), preserves this relation;
    * `AddsNth B it rs` / `AddsNthL B mids rs` — the item(s) only append the records `rs`
      (`addsNth_nth`, `addsNth_nthOf` for `:nth-…(x [of S])` with `rs = [nthRecord …]`;
      `addsNth_kw` for `:first-child` & co. with `rs = kw.forms.map kwRecord`);
    * `matchSel_freeze_ext` — through `freeze` and `matchSel`: the inserted records are one more conjunct
      `matchNths c l e rs` (the matcher's per-compound test is a conjunction over the fields);
    * `denote_selV` — the compiled form of a comma-free complex selector `first (comb compound)* comb SUBJECT`
      as a function of its subject compound; `matchList_insertL` — **the compiled selector with the items
      among those of its subject compound matches iff the compiled selector without them matches and all
      their records match**; `denote_congrL` — items adding the same records compile identically;
    * `matchNth_designates` — `match_nth` on ANY record `(a, var, b, of_type, last, S)`:
      pre-check ∧ `Designates (a, var, b) position` (both readings of `var`, from `C02Site`);
    * `default_shape`, `matchList_default`, `counted_default`, `position_default`, `matchNth_default` —
      `CSS_NTH_OF_S_DEFAULT` (`*|*`, shape lemma by `rfl` against `Generated/Builtins.lean`) matches every
      element, so it counts exactly what the empty `of S` list counts;
    * `matchNth_one`, `nthRecord_one`, `nthRecord_one_ofType` — `:nth-…(x)` with `x` of CSS value `0n+1`
      against the keyword records.
-/
import SoupVerif.Properties.C09Compile
import SoupVerif.Properties.C02Site
import SoupVerif.Refine.C02ParseAnB
namespace SoupVerif
namespace Refine
namespace C02Parse
open SoupVerif.Parser Refine.Compile
open C09Compile (Item Compound SelListV AttrV denote finishTop finishNested foldRest applyItems)

/-- `b'` is the builder `b` with the records `rs` inserted somewhere into its `nth` list. -/
def NthExt (rs : List NthSel) (b b' : SelB) : Prop :=
  ∃ t a bb c n1 n2 e f g h i j k,
    b = .mk t a bb c (n1 ++ n2) e f g h i j k ∧ b' = .mk t a bb c (n1 ++ (rs ++ n2)) e f g h i j k

variable {rs : List NthSel} {b b' : SelB}

theorem NthExt.base (rs : List NthSel) (b : SelB) : NthExt rs b (b.addNth rs) := by
  obtain ⟨t, a, bb, c, d, e, f, g, h, i, j, k⟩ := b
  exact ⟨t, a, bb, c, d, [], e, f, g, h, i, j, k, by simp, by simp [SelB.addNth]⟩

theorem NthExt.setTag (x : SelTag) (h : NthExt rs b b') : NthExt rs (b.setTag x) (b'.setTag x) := by
  obtain ⟨t, a, bb, c, n1, n2, e, f, g, h, i, j, k, rfl, rfl⟩ := h
  exact ⟨_, _, _, _, n1, n2, _, _, _, _, _, _, _, rfl, rfl⟩
theorem NthExt.addId (x : Str) (h : NthExt rs b b') : NthExt rs (b.addId x) (b'.addId x) := by
  obtain ⟨t, a, bb, c, n1, n2, e, f, g, h, i, j, k, rfl, rfl⟩ := h
  exact ⟨_, _, _, _, n1, n2, _, _, _, _, _, _, _, rfl, rfl⟩
theorem NthExt.addClass (x : Str) (h : NthExt rs b b') : NthExt rs (b.addClass x) (b'.addClass x) := by
  obtain ⟨t, a, bb, c, n1, n2, e, f, g, h, i, j, k, rfl, rfl⟩ := h
  exact ⟨_, _, _, _, n1, n2, _, _, _, _, _, _, _, rfl, rfl⟩
theorem NthExt.addAttr (x : AttrSel) (h : NthExt rs b b') : NthExt rs (b.addAttr x) (b'.addAttr x) := by
  obtain ⟨t, a, bb, c, n1, n2, e, f, g, h, i, j, k, rfl, rfl⟩ := h
  exact ⟨_, _, _, _, n1, n2, _, _, _, _, _, _, _, rfl, rfl⟩
theorem NthExt.addSub (x : SelList) (h : NthExt rs b b') : NthExt rs (b.addSub x) (b'.addSub x) := by
  obtain ⟨t, a, bb, c, n1, n2, e, f, g, h, i, j, k, rfl, rfl⟩ := h
  exact ⟨_, _, _, _, n1, n2, _, _, _, _, _, _, _, rfl, rfl⟩
theorem NthExt.orFlags (x : Nat) (h : NthExt rs b b') : NthExt rs (b.orFlags x) (b'.orFlags x) := by
  obtain ⟨t, a, bb, c, n1, n2, e, f, g, h, i, j, k, rfl, rfl⟩ := h
  exact ⟨_, _, _, _, n1, n2, _, _, _, _, _, _, _, rfl, rfl⟩
theorem NthExt.setNoMatch (h : NthExt rs b b') : NthExt rs b.setNoMatch b'.setNoMatch := by
  obtain ⟨t, a, bb, c, n1, n2, e, f, g, h, i, j, k, rfl, rfl⟩ := h
  exact ⟨_, _, _, _, n1, n2, _, _, _, _, _, _, _, rfl, rfl⟩
theorem NthExt.addRelations (x : List SelB) (h : NthExt rs b b') :
    NthExt rs (b.addRelations x) (b'.addRelations x) := by
  obtain ⟨t, a, bb, c, n1, n2, e, f, g, h, i, j, k, rfl, rfl⟩ := h
  exact ⟨_, _, _, _, n1, n2, _, _, _, _, _, _, _, rfl, rfl⟩
theorem NthExt.addNth (x : List NthSel) (h : NthExt rs b b') : NthExt rs (b.addNth x) (b'.addNth x) := by
  obtain ⟨t, a, bb, c, n1, n2, e, f, g, h, i, j, k, rfl, rfl⟩ := h
  exact ⟨t, a, bb, c, n1, n2 ++ x, e, f, g, h, i, j, k, by simp [SelB.addNth], by simp [SelB.addNth]⟩

theorem NthExt.tag (h : NthExt rs b b') : b'.tag = b.tag := by
  obtain ⟨t, a, bb, c, n1, n2, e, f, g, h, i, j, k, rfl, rfl⟩ := h
  rfl

theorem NthExt.attrBuild (attr op value : Str) (cs : Option Str) (h : NthExt rs b b') :
    NthExt rs (attrBuild b attr op value cs) (attrBuild b' attr op value cs) := by
  unfold Compile.attrBuild
  cases cs with
  | some c0 =>
    simp only []
    split
    · exact h.addSub _
    · exact h.addAttr _
  | none =>
    by_cases ht : lower attr == "type".toStr
    · simp only [ht, if_true]
      split
      · exact h.addSub _
      · exact h.addAttr _
    · simp only [ht]
      split
      · exact h.addSub _
      · exact h.addAttr _

theorem NthExt.ite (c : Prop) [Decidable c] {x x' y y' : SelB} (h1 : NthExt rs x x') (h2 : NthExt rs y y') :
    NthExt rs (if c then x else y) (if c then x' else y') := by
  split <;> assumption

theorem NthExt.plainPseudo (B : Builtins) (n : Str) (h : NthExt rs b b') :
    NthExt rs (plainPseudo B n b) (plainPseudo B n b') := by
  unfold Compile.plainPseudo
  apply NthExt.ite
  · unfold applySimplePseudo
    simp only []
    repeat' apply NthExt.ite
    all_goals first
      | exact h.orFlags _
      | exact h.addSub _
      | exact h.addNth _
      | exact h
  · exact h.setNoMatch

theorem NthExt.dirBuild (ltr : Bool) (h : NthExt rs b b') : NthExt rs (dirBuild ltr b) (dirBuild ltr b') :=
  h.addSub _

theorem NthExt.nthBuild (B : Builtins) (n c : Str) (o : Option SelList) (h : NthExt rs b b') :
    NthExt rs (nthBuild B n c o b) (nthBuild B n c o b') := by
  unfold Compile.nthBuild
  simp only []
  repeat' apply NthExt.ite
  all_goals first
    | exact h.addNth _
    | exact h

theorem NthExt.item (B : Builtins) (it : Item) (h : NthExt rs b b') :
    NthExt rs (it.apply B b) (it.apply B b') := by
  cases it with
  | id v => simp only [Item.apply]; exact h.addId v
  | cls v => simp only [Item.apply]; exact h.addClass v
  | attr a =>
    simp only [Item.apply, AttrV.apply]
    split
    · exact h.attrBuild _ _ _ _
    · exact h.attrBuild _ _ _ _
  | pseudo n => simp only [Item.apply]; exact h.plainPseudo B n
  | fn n l => simp only [Item.apply]; exact h.addSub _
  | nth n c => simp only [Item.apply]; exact h.nthBuild B n c none
  | nthOf n c l => simp only [Item.apply]; exact h.nthBuild B n c _
  | dir ltr => simp only [Item.apply]; exact h.dirBuild ltr

theorem NthExt.items (B : Builtins) : ∀ (items : List Item) {b b' : SelB}, NthExt rs b b' →
    NthExt rs (applyItems B items b) (applyItems B items b')
  | [], _, _, h => by simpa only [applyItems] using h
  | it :: rest, _, _, h => by
    simp only [applyItems]
    exact NthExt.items B rest (h.item B it)

theorem applyItems_append (B : Builtins) : ∀ (l₁ l₂ : List Item) (b : SelB),
    applyItems B (l₁ ++ l₂) b = applyItems B l₂ (applyItems B l₁ b)
  | [], l₂, b => by simp only [List.nil_append, applyItems]
  | it :: l₁, l₂, b => by
    simp only [List.cons_append, applyItems]
    exact applyItems_append B l₁ l₂ _

/-- An item that only appends the records `rs` to the builder's `nth` list. -/
def AddsNth (B : Builtins) (it : Item) (rs : List NthSel) : Prop := ∀ b, it.apply B b = b.addNth rs

/-- Inserting such an item anywhere among the items of a compound inserts its records. -/
theorem NthExt.insert (B : Builtins) (it : Item) (h : AddsNth B it rs) (pre post : List Item) (b : SelB) :
    NthExt rs (applyItems B (pre ++ post) b) (applyItems B (pre ++ it :: post) b) := by
  rw [applyItems_append, applyItems_append]
  simp only [applyItems]
  rw [h]
  exact NthExt.items B post (NthExt.base rs _)

/-! ### Through `freeze` and the matcher -/

theorem matchNths_append (c : Ctx) (l : Loc) (e : Elem) : ∀ (x y : List NthSel),
    matchNths c l e (x ++ y) = (matchNths c l e x && matchNths c l e y)
  | [], y => by simp [matchNths]
  | n :: x, y => by
    rw [List.cons_append, matchNths, matchNths, matchNths_append c l e x y, Bool.and_assoc]

theorem matchSel_null (c : Ctx) (l : Loc) (e : Elem) : matchSel c l e .null = false := by
  unfold matchSel; rfl

/-- The records inserted into the builder are one more conjunct for the matcher. -/
theorem matchSel_freeze_ext (h : NthExt rs b b') (c : Ctx) (l : Loc) (e : Elem) :
    matchSel c l e b'.freeze = (matchSel c l e b.freeze && matchNths c l e rs) := by
  obtain ⟨t, a, bb, cc, n1, n2, ee, f, g, hh, i, j, k, rfl, rfl⟩ := h
  simp only [SelB.freeze, SelB.size]
  cases k with
  | true => simp [SelB.freezeF, matchSel_null]
  | false =>
    simp only [SelB.freezeF, Bool.false_eq_true, if_false]
    conv => lhs; unfold matchSel
    conv => rhs; unfold matchSel
    rw [matchNths_append, matchNths_append, matchNths_append]
    cases matchNths c l e rs <;> cases matchNths c l e n1 <;> cases matchNths c l e n2 <;> simp

/-! ### `denote` of a single compound -/

/-- The implied `*` of a top-level compound without type selector. -/
def fixTag (b : SelB) : SelB := if b.tag.isNone then b.setTag ⟨[42], none⟩ else b

theorem addRelations_nil (b : SelB) : b.addRelations [] = b := by
  cases b; simp [SelB.addRelations]

theorem denote_single (B : Builtins) (cp : Compound) :
    denote B (.mk cp []) = .mk [(fixTag (cp.buildOn B SelB.empty)).freeze] false false := by
  simp only [denote, SelListV.loopState, foldRest, finishTop, List.nil_append, addRelations_nil,
    List.map_cons, List.map_nil, fixTag]
  rfl

theorem NthExt.fixTag (h : NthExt rs b b') : NthExt rs (fixTag b) (fixTag b') := by
  unfold C02Parse.fixTag
  rw [h.tag]
  exact NthExt.ite _ (h.setTag _) h

/-- **One more item, one more conjunct.**  If the item `it` only appends the records `rs`, the compiled
    compound with `it` among its items matches exactly when the compiled compound without `it` matches
    and all of `rs` match. -/
theorem matchList_insert (B : Builtins) (it : Item) (h : AddsNth B it rs) (tag : Option Str)
    (pre post : List Item) (c : Ctx) (l : Loc) (e : Elem) :
    matchList c l e (denote B (.mk (.mk tag (pre ++ it :: post)) [])) =
      (matchList c l e (denote B (.mk (.mk tag (pre ++ post)) [])) && matchNths c l e rs) := by
  rw [denote_single, denote_single, SatCore.matchList_single, SatCore.matchList_single]
  apply matchSel_freeze_ext
  simp only [Compound.buildOn]
  exact (NthExt.insert B it h pre post _).fixTag

/-! ### Several adjacent items -/

/-- Consecutive items that together only append the records `rs`. -/
def AddsNthL (B : Builtins) (mids : List Item) (rs : List NthSel) : Prop :=
  ∀ b, applyItems B mids b = b.addNth rs

theorem addNth_addNth (b : SelB) (x y : List NthSel) : (b.addNth x).addNth y = b.addNth (x ++ y) := by
  cases b; simp [SelB.addNth]

theorem addNth_nil (b : SelB) : b.addNth [] = b := by
  cases b; simp [SelB.addNth]

theorem AddsNthL.nil (B : Builtins) : AddsNthL B [] [] := by
  intro b; simp only [applyItems, addNth_nil]

theorem AddsNthL.cons {B : Builtins} {it : Item} {mids : List Item} {r rs' : List NthSel}
    (h : AddsNth B it r) (h' : AddsNthL B mids rs') : AddsNthL B (it :: mids) (r ++ rs') := by
  intro b
  simp only [applyItems]
  rw [h, h', addNth_addNth]

theorem AddsNthL.single {B : Builtins} {it : Item} {r : List NthSel} (h : AddsNth B it r) :
    AddsNthL B [it] r := by
  have := AddsNthL.cons h (AddsNthL.nil B)
  simpa using this

theorem NthExt.insertL (B : Builtins) (mids : List Item) (h : AddsNthL B mids rs) (pre post : List Item)
    (b : SelB) : NthExt rs (applyItems B (pre ++ post) b) (applyItems B (pre ++ mids ++ post) b) := by
  rw [applyItems_append, applyItems_append, applyItems_append, h]
  exact NthExt.items B post (NthExt.base rs _)

/-! ### Complex selectors: the subject compound behind `first (comb compound)* comb` -/

/-- What stands in front of the subject compound of a complex selector: nothing, or
    `first (comb compound)* comb` (values). -/
abbrev CtxV := Option (Compound × List (Nat × Compound) × Nat)

/-- The complex selector with subject compound `subj`. -/
def selV (cx : CtxV) (subj : Compound) : SelListV :=
  match cx with
  | none => .mk subj []
  | some (first, rest₀, cb) => .mk first (rest₀ ++ [(cb, subj)])

/-- No comma among the combinators: a single complex selector. -/
def NoCommaV (cx : CtxV) : Prop :=
  match cx with
  | none => True
  | some (_, rest₀, cb) => (∀ p ∈ rest₀, p.1 ≠ 44) ∧ cb ≠ 44

theorem combStep_nc (c : Nat) (ip : Bool) (st : LS) (hc : c ≠ 44) :
    (combStep c ip st).selectors = st.selectors ∧ (combStep c ip st).isHtml = st.isHtml := by
  have : (c == 44) = false := by simpa using hc
  unfold combStep
  simp [this]

theorem foldRest_nc (B : Builtins) (ip : Bool) : ∀ (l : List (Nat × Compound)) (st : LS),
    (∀ p ∈ l, p.1 ≠ 44) →
    (foldRest B ip l st).selectors = st.selectors ∧ (foldRest B ip l st).isHtml = st.isHtml
  | [], st, _ => by simp only [foldRest, and_self]
  | x :: rest, st, h => by
    simp only [foldRest]
    obtain ⟨h1, h2⟩ := foldRest_nc B ip rest
      { combStep x.1 ip st with sel := x.2.buildOn B SelB.empty, hasSelector := true }
      (fun p hp => h p (by simp [hp]))
    obtain ⟨h3, h4⟩ := combStep_nc x.1 ip st (h x (by simp))
    exact ⟨h1.trans h3, h2.trans h4⟩

theorem foldRest_snoc (B : Builtins) (ip : Bool) : ∀ (l : List (Nat × Compound)) (x : Nat × Compound) (st : LS),
    foldRest B ip (l ++ [x]) st =
      { combStep x.1 ip (foldRest B ip l st) with sel := x.2.buildOn B SelB.empty, hasSelector := true }
  | [], x, st => by simp only [List.nil_append, foldRest]
  | y :: l, x, st => by
    simp only [List.cons_append, foldRest]
    exact foldRest_snoc B ip l x _

/-- The compiled form of a comma-free complex selector, as a function of its subject compound. -/
theorem denote_selV (B : Builtins) (cx : CtxV) (hnc : NoCommaV cx) :
    ∃ R : List SelB, ∀ subj : Compound,
      denote B (selV cx subj) = .mk [((fixTag (subj.buildOn B SelB.empty)).addRelations R).freeze] false false := by
  cases cx with
  | none =>
    refine ⟨[], fun subj => ?_⟩
    rw [selV, denote_single, addRelations_nil]
  | some q =>
    obtain ⟨first, rest₀, cb⟩ := q
    obtain ⟨h1, h2⟩ := hnc
    let st0 : LS := { sel := first.buildOn B SelB.empty, hasSelector := true }
    refine ⟨(combStep cb false (foldRest B false rest₀ st0)).relations, fun subj => ?_⟩
    obtain ⟨h3, h4⟩ := foldRest_nc B false rest₀ st0 h1
    obtain ⟨h5, h6⟩ := combStep_nc cb false (foldRest B false rest₀ st0) h2
    simp only [selV, denote, SelListV.loopState, foldRest_snoc, finishTop]
    rw [h5, h6, h3, h4]
    rfl

/-- **Several adjacent items, in the subject compound of a comma-free complex selector.**  If the items
    `mids` only append the records `rs`, the compiled selector with `mids` among the items of its subject
    compound matches exactly when the compiled selector without them matches and all of `rs` match. -/
theorem matchList_insertL (B : Builtins) (cx : CtxV) (hnc : NoCommaV cx) (mids : List Item)
    (h : AddsNthL B mids rs) (tag : Option Str) (pre post : List Item) (c : Ctx) (l : Loc) (e : Elem) :
    matchList c l e (denote B (selV cx (.mk tag (pre ++ mids ++ post)))) =
      (matchList c l e (denote B (selV cx (.mk tag (pre ++ post)))) && matchNths c l e rs) := by
  obtain ⟨R, hR⟩ := denote_selV B cx hnc
  rw [hR, hR, SatCore.matchList_single, SatCore.matchList_single]
  apply matchSel_freeze_ext
  simp only [Compound.buildOn]
  exact ((NthExt.insertL B mids h pre post _).fixTag).addRelations R

/-- Items that add the same records compile to the same structure. -/
theorem denote_congrL (B : Builtins) (cx : CtxV) (mids mids' : List Item) (h : AddsNthL B mids rs)
    (h' : AddsNthL B mids' rs) (tag : Option Str) (pre post : List Item) :
    denote B (selV cx (.mk tag (pre ++ mids ++ post))) = denote B (selV cx (.mk tag (pre ++ mids' ++ post))) := by
  have e : Compound.buildOn B (.mk tag (pre ++ mids ++ post)) = Compound.buildOn B (.mk tag (pre ++ mids' ++ post)) := by
    funext b
    simp only [Compound.buildOn]
    rw [applyItems_append, applyItems_append, applyItems_append, applyItems_append, h, h']
  cases cx with
  | none => simp only [selV, denote, SelListV.loopState, e]
  | some q =>
    obtain ⟨first, rest₀, cb⟩ := q
    simp only [selV, denote, SelListV.loopState, foldRest_snoc, e]

/-! ### The items that add nth records -/

/-- The four functional nth pseudo-classes. -/
inductive NthName where
  | child | lastChild | ofType | lastOfType
  deriving DecidableEq, Repr

/-- The lower-cased name with its colon, as `parse_pseudo_nth` compares it. -/
def NthName.text : NthName → Str
  | .child => ":nth-child".toStr
  | .lastChild => ":nth-last-child".toStr
  | .ofType => ":nth-of-type".toStr
  | .lastOfType => ":nth-last-of-type".toStr

/-- Only siblings of the element's own type are counted. -/
def NthName.isOfType : NthName → Bool
  | .ofType => true | .lastOfType => true | _ => false

/-- Counted from the end. -/
def NthName.isLast : NthName → Bool
  | .lastChild => true | .lastOfType => true | _ => false

theorem nthName_of_ok {n : Str} (h : nthTypeName n ∨ nthChildName n) : ∃ k : NthName, n = k.text := by
  rcases h with (h | h) | (h | h)
  · exact ⟨.ofType, h⟩
  · exact ⟨.lastOfType, h⟩
  · exact ⟨.child, h⟩
  · exact ⟨.lastChild, h⟩

set_option linter.unusedSimpArgs false in
theorem nthChildName_iff (k : NthName) : nthChildName k.text ↔ k.isOfType = false := by
  cases k <;> simp +decide [nthChildName, NthName.text, NthName.isOfType]

/-- The `of S` list of the record: empty for the `-of-type` forms; for the `-child` forms the compiled `S`,
    or `CSS_NTH_OF_S_DEFAULT` (`*|*`) when there is no `of S`. -/
def nthSels (B : Builtins) (k : NthName) (ofSel : Option SelList) : SelList :=
  if k.isOfType then .mk [] false false else ofSel.getD B.nthOfSDefault

/-- The record `parse_pseudo_nth` builds, from the canonical An+B text. -/
def nthRecord (B : Builtins) (k : NthName) (canon : Str) (ofSel : Option SelList) : NthSel :=
  let anb := parseAnB ⟨pyFoldEnv, Gen.lexicon, B, []⟩ canon
  .mk anb.1 anb.2.1 anb.2.2 k.isOfType k.isLast (nthSels B k ofSel)

theorem nthBuild_eq (B : Builtins) (k : NthName) (canon : Str) (ofSel : Option SelList) (b : SelB) :
    nthBuild B k.text canon ofSel b = b.addNth [nthRecord B k canon ofSel] := by
  have e1 : (":nth-child".toStr == ":nth-of-type".toStr) = false := by decide
  have e2 : (":nth-child".toStr == ":nth-last-of-type".toStr) = false := by decide
  have e3 : (":nth-last-child".toStr == ":nth-of-type".toStr) = false := by decide
  have e4 : (":nth-last-child".toStr == ":nth-last-of-type".toStr) = false := by decide
  have e5 : (":nth-last-child".toStr == ":nth-child".toStr) = false := by decide
  have e6 : (":nth-last-of-type".toStr == ":nth-of-type".toStr) = false := by decide
  cases k <;>
    simp [Compile.nthBuild, NthName.text, nthRecord, nthSels, NthName.isOfType, NthName.isLast, nthOf,
      e1, e2, e3, e4, e5, e6]

theorem addsNth_nth (B : Builtins) (k : NthName) (canon : Str) :
    AddsNth B (.nth k.text canon) [nthRecord B k canon none] := by
  intro b
  simp only [Item.apply]
  exact nthBuild_eq B k canon none b

theorem addsNth_nthOf (B : Builtins) (k : NthName) (canon : Str) (l : SelListV) :
    AddsNth B (.nthOf k.text canon l) [nthRecord B k canon (some (finishNested false (l.loopState B true)))] := by
  intro b
  simp only [Item.apply]
  exact nthBuild_eq B k canon _ b

/-! ### The keyword forms -/

/-- `:first-child` & co. -/
inductive Keyword where
  | firstChild | lastChild | onlyChild | firstOfType | lastOfType | onlyOfType
  deriving DecidableEq, Repr

def Keyword.text : Keyword → Str
  | .firstChild => ":first-child".toStr
  | .lastChild => ":last-child".toStr
  | .onlyChild => ":only-child".toStr
  | .firstOfType => ":first-of-type".toStr
  | .lastOfType => ":last-of-type".toStr
  | .onlyOfType => ":only-of-type".toStr

/-- The functional forms a keyword abbreviates: `:nth-child(1)`, `:nth-last-child(1)`, both, … -/
def Keyword.forms : Keyword → List NthName
  | .firstChild => [.child]
  | .lastChild => [.lastChild]
  | .onlyChild => [.child, .lastChild]
  | .firstOfType => [.ofType]
  | .lastOfType => [.lastOfType]
  | .onlyOfType => [.ofType, .lastOfType]

/-- The record `parse_pseudo_class` appends for a keyword: `SelectorNth(1, False, 0, of_type, last,
    SelectorList())`. -/
def kwRecord (k : NthName) : NthSel := .mk 1 false 0 k.isOfType k.isLast (.mk [] false false)

theorem plainPseudo_kw (B : Builtins) (kw : Keyword) (b : SelB) :
    plainPseudo B kw.text b = b.addNth (kw.forms.map kwRecord) := by
  cases kw <;> rfl

theorem addsNth_kw (B : Builtins) (kw : Keyword) : AddsNth B (.pseudo kw.text) (kw.forms.map kwRecord) := by
  intro b
  simp only [Item.apply]
  exact plainPseudo_kw B kw b

theorem kw_plainName (kw : Keyword) : C09Compile.plainName kw.text := by
  cases kw <;> exact Or.inl (by decide)

/-! ### The matcher on one record -/

open C02Site

theorem matchNths_single (c : Ctx) (l : Loc) (e : Elem) (r : NthSel) :
    matchNths c l e [r] = matchNth c l e r := by
  simp [matchNths]

theorem matchNths_pair (c : Ctx) (l : Loc) (e : Elem) (r r' : NthSel) :
    matchNths c l e [r, r'] = (matchNth c l e r && matchNth c l e r') := by
  simp [matchNths]

/-- `match_nth` on any record, both readings of `var` at once (`C02Site.matchNth_iff`,
    `C02Site.matchNth_const_iff`). -/
theorem matchNth_designates (c : Ctx) (l : Loc) (e : Elem) (he : l.elem? = some e) (a : Int) (var : Bool)
    (b : Int) (ofType last : Bool) (sels : SelList) :
    matchNth c l e (.mk a var b ofType last sels) = true ↔
      preCheck c l e sels = true ∧ Designates (a, var, b) (position c l e ofType last sels) := by
  cases var with
  | true => rw [matchNth_iff c l e he]; simp [Designates]
  | false => rw [matchNth_const_iff c l e he]; simp [Designates]

/-! ### `CSS_NTH_OF_S_DEFAULT` (`*|*`) counts every element -/

/-- Shape of the regenerated built-in list (`css_parser.CSS_NTH_OF_S_DEFAULT`, compiled from `*|*`). -/
theorem default_shape : Gen.builtinsRec.nthOfSDefault =
    .mk [.mk (some ⟨[42], some [42]⟩) [] [] [] [] [] (.mk [] false false) .none [] [] 0] false false := rfl

theorem matchList_default (c : Ctx) (l : Loc) (e : Elem) :
    matchList c l e Gen.builtinsRec.nthOfSDefault = true := by
  rw [default_shape, SatCore.matchList_single]
  unfold matchSel
  simp [matchTag, matchNamespace, matchTagname, hasFlag, matchNths, matchAttributes, SelList.nonEmpty,
    SelList.sels, SEL_DEFINED, SEL_ROOT, SEL_SCOPE, SEL_PLACEHOLDER_SHOWN, SEL_EMPTY, RANGES, SEL_IN_RANGE,
    SEL_OUT_OF_RANGE, SEL_DEFAULT, SEL_INDETERMINATE, DIR_FLAGS, SEL_DIR_LTR, SEL_DIR_RTL]
  exact Or.inr (fun _ => by decide)

theorem preCheck_default (c : Ctx) (l : Loc) (e : Elem) :
    preCheck c l e Gen.builtinsRec.nthOfSDefault = true := by
  simp [preCheck, matchList_default]

theorem preCheck_empty (c : Ctx) (l : Loc) (e : Elem) : preCheck c l e (.mk [] false false) = true := by
  simp [preCheck, SelList.nonEmpty, SelList.sels]

theorem counted_default (c : Ctx) (e : Elem) (ofType : Bool) :
    counted c e ofType Gen.builtinsRec.nthOfSDefault = counted c e ofType (.mk [] false false) := by
  funext ch
  unfold counted
  cases ch.elem? with
  | none => rfl
  | some ce => simp [matchList_default, SelList.nonEmpty, SelList.sels]

theorem position_default (c : Ctx) (l : Loc) (e : Elem) (ofType last : Bool) :
    position c l e ofType last Gen.builtinsRec.nthOfSDefault =
      position c l e ofType last (.mk [] false false) := by
  unfold position
  rw [counted_default]

/-- The `*|*` default and the empty `of S` list give the same answer, for every record. -/
theorem matchNth_default (c : Ctx) (l : Loc) (e : Elem) (a : Int) (var : Bool) (b : Int) (ofType last : Bool) :
    matchNth c l e (.mk a var b ofType last Gen.builtinsRec.nthOfSDefault) =
      matchNth c l e (.mk a var b ofType last (.mk [] false false)) := by
  rw [matchNth_eq, matchNth_eq, preCheck_default, preCheck_empty, counted_default]

/-! ### `:nth-…(1)` against the keyword record -/

theorem preCheck_nthSels (c : Ctx) (l : Loc) (e : Elem) (k : NthName) :
    preCheck c l e (nthSels Gen.builtinsRec k none) = true := by
  unfold nthSels; split
  · exact preCheck_empty c l e
  · exact preCheck_default c l e

theorem position_nthSels (c : Ctx) (l : Loc) (e : Elem) (k : NthName) :
    position c l e k.isOfType k.isLast (nthSels Gen.builtinsRec k none) =
      position c l e k.isOfType k.isLast (.mk [] false false) := by
  unfold nthSels; split
  · rfl
  · exact position_default c l e _ _

/-- With soupsieve's built-in lists, the record of `:nth-…(x)` for any accepted spelling `x` of the value
    `0n+1` (`1`, `+1`, `01`, `0n+1`, `-0n + 1`, …) and the record of the keyword form give the same answer on
    every element. -/
theorem matchNth_one (c : Ctx) (l : Loc) (e : Elem) (he : l.elem? = some e) (k : NthName) (x : SAnB)
    (hx : x.ok) (h1 : anbValue x = (0, 1)) :
    matchNth c l e (nthRecord Gen.builtinsRec k x.canon none) = matchNth c l e (kwRecord k) := by
  rw [Bool.eq_iff_iff, nthRecord, matchNth_designates c l e he, parse_anb_value Gen.builtinsRec [] x hx,
    kwRecord, matchNth_const_iff c l e he, preCheck_nthSels, preCheck_empty, position_nthSels, h1]
  simp only [true_and, Int.zero_mul, Int.zero_add]
  exact ⟨fun ⟨_, h⟩ => h, fun h => ⟨0, h⟩⟩

/-- For a bare integer of value 1 (`1`, `+1`, `001`, …) the record is literally `(1, False, 0, …)`; for the
    `-of-type` names that is the keyword's record, for the `-child` names it differs from it in the `of S`
    field only (`CSS_NTH_OF_S_DEFAULT` instead of the empty list). -/
theorem nthRecord_one (B : Builtins) (k : NthName) (x : SAnB) (hx : x.ok) (hn : hasN x = false)
    (h1 : anbValue x = (0, 1)) :
    nthRecord B k x.canon none = .mk 1 false 0 k.isOfType k.isLast (nthSels B k none) := by
  have h := parseAnB_canon_eq B [] x hx
  rw [hn, h1] at h
  simp only [Bool.false_eq_true, if_false] at h
  simp only [nthRecord]
  rw [show parseAnB ⟨pyFoldEnv, Gen.lexicon, B, []⟩ x.canon = (1, false, 0) from h]

theorem nthRecord_one_ofType (B : Builtins) (k : NthName) (hk : k.isOfType = true) (x : SAnB) (hx : x.ok)
    (hn : hasN x = false) (h1 : anbValue x = (0, 1)) :
    nthRecord B k x.canon none = kwRecord k := by
  rw [nthRecord_one B k x hx hn h1, kwRecord, nthSels, hk]
  rfl

end C02Parse
end Refine
end SoupVerif

#print axioms SoupVerif.Refine.C02Parse.matchSel_freeze_ext
#print axioms SoupVerif.Refine.C02Parse.matchList_insertL
#print axioms SoupVerif.Refine.C02Parse.denote_congrL
#print axioms SoupVerif.Refine.C02Parse.matchNth_designates
#print axioms SoupVerif.Refine.C02Parse.matchNth_default
#print axioms SoupVerif.Refine.C02Parse.matchNth_one
#print axioms SoupVerif.Refine.C02Parse.nthRecord_one_ofType
