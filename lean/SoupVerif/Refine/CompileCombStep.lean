/-
  What `selector_iter` and the parser loop do at a combinator (`,` `+` `>` `~` with gaps around it, or
  the descendant combinator: a gap with whitespace).
-/
import SoupVerif.Refine.CompileComb
import SoupVerif.Refine.CompileStep
namespace SoupVerif
namespace Refine
namespace Compile
open Rx RxBasic SoupVerif.Parser ParserProgress Escape Spelling
open Wsc (wsEnd gapEnd)

/-- First characters of a `combine` token: whitespace, `/`, or a combinator character. -/
def combStart (x : Nat) : Bool := isCssWs x || x == 47 || isComb x

theorem combStart_lt {x : Nat} (h : combStart x = true) : x < 128 := by
  simp only [combStart, isCssWs, isComb, Bool.or_eq_true, beq_iff_eq] at h
  omega

theorem skip_comb : ∀ k ∈ keys foldSpecials, combStart k = true →
    ((Gen.lexicon.tokens.drop 1).take 10).all (fun t => !slotFirst k t) = true := by decide +kernel

def combTok (i j : Nat) (caps : Caps) : Token :=
  { name := "combine", rx := ⟨"combine", Gen.tok_combine, Gen.tok_combine_groups⟩, start := i, stop := j,
    caps := caps }

variable (B : Builtins) (s : Str)

/-- `selector_iter` at a position where a `combine` token matches: `pseudo_close` fails because what
    follows the gap is not `)`, the other tokens fail on their first character. -/
theorem nextToken_combine {i x j : Nat} {caps : Caps} (hx : s[i]? = some x) (hcs : combStart x = true)
    (hne : skipWSC (s.drop i) ≠ []) (h41 : (skipWSC (s.drop i)).head? ≠ some 41)
    (hm : matchAt pyFoldEnv Gen.tok_combine s i = some (j, caps)) :
    nextToken (penv B s) i = .ok (some (combTok i j caps)) := by
  have hlt := Wsc.getElem?_lt hx
  unfold nextToken
  have h1 : ¬ (i + 1 > (penv B s).pattern.length) := by show ¬ (i + 1 > s.length); omega
  rw [if_neg h1]
  have h2 : (matchAt (penv B s).env (penv B s).L.reWsEnd (penv B s).pattern i).isSome = false := by
    show (matchAt pyFoldEnv Gen.cp_RE_WS_END s i).isSome = false
    rw [Wsc.ws_end_isSome pyFoldEnv s i (by omega)]
    simpa using hne
  rw [h2]
  simp only [Bool.false_eq_true, if_false]
  have hpc : matchAt pyFoldEnv Gen.tok_pseudo_close s i = none := by
    rw [Wsc.pseudo_close_at Wsc.caseFree_pyFold s i (by omega), if_neg h41]
  have hk : keyOf s[i]? = x := by
    rw [hx]; show (if x < 128 then x else _) = x
    rw [if_pos (combStart_lt hcs)]
  have hmt : matchToken (penv B s) i (penv B s).L.tokens = some (combTok i j caps) := by
    show matchToken (penv B s) i
      ((⟨"pseudo_close", Gen.tok_pseudo_close, Gen.tok_pseudo_close_groups⟩, false) ::
        Gen.lexicon.tokens.drop 1) = _
    rw [matchToken]
    simp only [Bool.false_eq_true, if_false]
    have hpc' : matchAt (penv B s).env Gen.tok_pseudo_close (penv B s).pattern i = none := hpc
    rw [hpc']
    simp only
    rw [matchToken_skip B s i 10 _ (by
      rw [hk]
      exact skip_comb x (by rw [← hk]; exact key_mem_keys _ _) hcs)]
    show matchToken (penv B s) i [(⟨"combine", Gen.tok_combine, Gen.tok_combine_groups⟩, false)] = _
    simp only [matchToken, Bool.false_eq_true, if_false, hm]
    rfl
  rw [hmt]

/-! ### The parser at a combinator -/

/-- `parse_combinator` when a compound has been read: `,` closes the complex selector, the other
    combinators move the compound into `relations`. -/
def combStep (c : Nat) (isPseudo : Bool) (st : LS) : LS :=
  let sel := if st.sel.tag.isNone && !isPseudo then st.sel.setTag ⟨[42], none⟩ else st.sel
  if c == 44 then
    { st with selectors := st.selectors ++ [sel.addRelations st.relations], relations := [],
              sel := .empty, hasSelector := false }
  else
    { st with relations := [(sel.addRelations st.relations).setRelType (combRel c)],
              sel := .empty, hasSelector := false }

theorem parseCombinator_eq (P : PEnv) (t : Token) (st : LS) (ip ifg : Bool) (idx : Nat)
    (hs : st.hasSelector = true) :
    parseCombinator P t st ip ifg idx = .ok (combStep (combinatorOf P t) ip st) := by
  unfold parseCombinator combStep
  simp only [hs, Bool.not_true, Bool.false_eq_true, if_false]
  split <;> rfl

section Loop
variable (env : CharEnv) (L : Lexicon) (pattern : Str) (fuel flags : Nat) (st : LS) (t : Token)

theorem parseLoop_combine (h : nextToken ⟨env, L, B, pattern⟩ st.pos = .ok (some t))
    (hk : t.name = "combine") (hrel : ((flags &&& FLG_RELATIVE) != 0) = false)
    (hs : st.hasSelector = true) :
    parseLoop env L B pattern (fuel + 1) flags st =
      parseLoop env L B pattern fuel flags
        { combStep (combinatorOf ⟨env, L, B, pattern⟩ t) ((flags &&& FLG_PSEUDO) != 0)
            { st with pos := t.stop } with index := t.stop } := by
  rw [parseLoop]
  simp only [h, hk, hrel]
  have := parseCombinator_eq ⟨env, L, B, pattern⟩ t { st with pos := t.stop }
    ((flags &&& FLG_PSEUDO) != 0) ((flags &&& FLG_FORGIVE) != 0) st.index hs
  simp [this]

end Loop

theorem combinatorOf_char {i j e c : Nat} (hsl : slice s e (e + 1) = [c]) (hc : isComb c = true) :
    combinatorOf (penv B s) (combTok i j [(1, e, e + 1)]) = c := by
  have hg : (combTok i j [(1, e, e + 1)]).group (penv B s) "relation" = some [c] := by
    simp [Token.group, Parser.group, combTok, Gen.tok_combine_groups, capSpan, hsl]
  unfold combinatorOf
  rw [hg]
  simp only [isComb, Bool.or_eq_true, beq_iff_eq] at hc
  rcases hc with ((h | h) | h) | h <;> subst h <;> rfl

theorem combinatorOf_ws {i j p p' : Nat} (hw : wsEnd s p = some p') :
    combinatorOf (penv B s) (combTok i j [(1, p, p')]) = 32 := by
  have hg : (combTok i j [(1, p, p')]).group (penv B s) "relation" = some (slice s p p') := by
    simp [Token.group, Parser.group, combTok, Gen.tok_combine_groups, capSpan]
  unfold combinatorOf
  rw [hg]
  have : (slice s p p').find? (fun c => !isPySpace c) = none := by
    rw [List.find?_eq_none]
    intro x hx
    simp [wsEnd_slice hw x hx]
  simp only [this]

/-! ### Steps -/

theorem gap_head {g : Str} (hg : isGap g) : ∀ y ∈ g.head?, isCssWs y = true ∨ y = 47 := by
  cases g with
  | nil => intro y hy; simp at hy
  | cons c cs =>
    intro y hy
    simp only [List.head?_cons, Option.mem_def, Option.some.injEq] at hy
    subst hy
    by_cases hw : isCssWs c = true
    · exact Or.inl hw
    · by_cases h47 : c = 47
      · exact Or.inr h47
      · exfalso
        have : noGapStart (c :: cs) = true := by simp [noGapStart, hw, h47]
        have := SpellingLemmas.skipWSC_of_noGapStart _ this
        unfold isGap at hg
        rw [hg] at this; cases this

theorem combStep_frame (c : Nat) (ip : Bool) (st : LS) (p idx : Nat) :
    { combStep c ip { st with pos := p } with index := idx } =
      { combStep c ip st with pos := p, index := idx } := by
  by_cases h : (c == 44) = true <;> simp [combStep, h]

variable (fuel flags : Nat) (st : LS)

/-- `g₁ c g₂` with `c` one of `,` `+` `>` `~`. -/
theorem step_comb {c : Nat} {g₁ g₂ R : Str} (hd : s.drop st.pos = g₁ ++ c :: (g₂ ++ R))
    (hg₁ : isGap g₁) (hg₂ : isGap g₂) (hcomb : isComb c = true) (hR : noGapStart R = true)
    (hrel : ((flags &&& FLG_RELATIVE) != 0) = false) (hs : st.hasSelector = true) :
    ∃ p idx, s.drop p = R ∧
      parseLoop pyFoldEnv Gen.lexicon B s (fuel + 1) flags st =
        parseLoop pyFoldEnv Gen.lexicon B s fuel flags
          { combStep c ((flags &&& FLG_PSEUDO) != 0) st with pos := p, index := idx } := by
  obtain ⟨e, stop, hm, hsl, hstop, _⟩ :=
    combine_matchAt_comb Wsc.caseFree_pyFold Ident.identFold_py s st.pos c g₁ g₂ R hd hg₁ hg₂ hcomb hR
  have hcng : noGapStart (c :: (g₂ ++ R)) = true := by
    simp only [isComb, Bool.or_eq_true, beq_iff_eq] at hcomb
    rcases hcomb with ((h | h) | h) | h <;> subst h <;> simp [noGapStart, isCssWs]
  have hsk : skipWSC (s.drop st.pos) = c :: (g₂ ++ R) := by
    rw [hd, C09.skipWSC_append g₁ _ hg₁ hcng]
  obtain ⟨x, hx, hcs⟩ : ∃ x, s[st.pos]? = some x ∧ combStart x = true := by
    cases g₁ with
    | nil =>
      exact ⟨c, getElem?_of_drop_cons (by rw [hd]; rfl), by simp [combStart, hcomb]⟩
    | cons y ys =>
      refine ⟨y, getElem?_of_drop_cons (by rw [hd]; rfl), ?_⟩
      rcases gap_head hg₁ y (by simp) with h | h
      · simp [combStart, h]
      · simp [combStart, h]
  have hnt := nextToken_combine B s hx hcs (by rw [hsk]; simp)
    (by rw [hsk]; simp only [List.head?_cons]; intro h; cases h; simp [isComb] at hcomb) hm
  refine ⟨stop, stop, hstop, ?_⟩
  rw [parseLoop_combine B _ _ _ _ _ _ _ hnt rfl hrel hs,
    combinatorOf_char B s hsl hcomb]
  exact congrArg _ (combStep_frame _ _ _ _ _)

/-- The descendant combinator: a gap with a whitespace unit. -/
theorem step_desc {g R : Str} (hd : s.drop st.pos = g ++ R) (hg : DescGap g)
    (hR : noGapStart R = true) (hRne : R ≠ []) (hRc : ∀ c ∈ R.head?, isComb c = false)
    (hR41 : R.head? ≠ some 41)
    (hrel : ((flags &&& FLG_RELATIVE) != 0) = false) (hs : st.hasSelector = true) :
    ∃ p idx, s.drop p = R ∧
      parseLoop pyFoldEnv Gen.lexicon B s (fuel + 1) flags st =
        parseLoop pyFoldEnv Gen.lexicon B s fuel flags
          { combStep 32 ((flags &&& FLG_PSEUDO) != 0) st with pos := p, index := idx } := by
  obtain ⟨p, p', hm, hw⟩ :=
    combine_matchAt_desc Wsc.caseFree_pyFold Ident.identFold_py s st.pos g R hd hg hR hRc
  have hsk : skipWSC (s.drop st.pos) = R := by rw [hd, C09.skipWSC_append g R hg.isGap hR]
  obtain ⟨x, hx, hcs⟩ : ∃ x, s[st.pos]? = some x ∧ combStart x = true := by
    cases g with
    | nil => exact absurd rfl hg.ne_nil
    | cons y ys =>
      refine ⟨y, getElem?_of_drop_cons (by rw [hd]; rfl), ?_⟩
      rcases gap_head hg.isGap y (by simp) with h | h
      · simp [combStart, h]
      · simp [combStart, h]
  have hnt := nextToken_combine B s hx hcs (by rw [hsk]; exact hRne) (by rw [hsk]; exact hR41) hm
  refine ⟨st.pos + g.length, st.pos + g.length, drop_add_of_drop_append hd, ?_⟩
  rw [parseLoop_combine B _ _ _ _ _ _ _ hnt rfl hrel hs, combinatorOf_ws B s hw]
  exact congrArg _ (combStep_frame _ _ _ _ _)

end Compile
end Refine
end SoupVerif

#print axioms SoupVerif.Refine.Compile.nextToken_combine
#print axioms SoupVerif.Refine.Compile.step_comb
#print axioms SoupVerif.Refine.Compile.step_desc
