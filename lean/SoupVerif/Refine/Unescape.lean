/-
  Refinement: the hand-written scanners `Escape.cssUnescape` (identifier mode) and
  `Spelling.unescapeString` (string mode) compute exactly what the regex-engine model computes,
  `Parser.cssUnescape`, on the regular expressions `RE_CSS_ESC` / `RE_CSS_STR_ESC` regenerated
  from the source.
-/
import SoupVerif.Refine.UnescapeBase
import SoupVerif.Model.Parser
import SoupVerif.Spec.Spelling
import SoupVerif.Generated.Lexicon
namespace SoupVerif
namespace Refine
open Rx RxBasic Escape Spelling

/-! ### Shapes of the regenerated regular expressions -/

theorem esc_shape : Gen.cp_RE_CSS_ESC = .alt [rxG1 (.alt [rxWS, rxComment]), rxG2, rxG3] := rfl

theorem str_esc_shape : Gen.cp_RE_CSS_STR_ESC = .alt [rxG1 rxWS, rxG2, rxG3, rxG4] := rfl

theorem lexicon_esc : Gen.lexicon.reCssEsc = Gen.cp_RE_CSS_ESC := rfl
theorem lexicon_str_esc : Gen.lexicon.reCssStrEsc = Gen.cp_RE_CSS_STR_ESC := rfl

/-! ### Positions and suffixes -/

theorem wsAt_eq (s : Str) (j : Nat) : wsAt s j = wsLen (s.drop j) := by
  unfold wsAt
  cases h : s[j]? with
  | none =>
    rw [List.drop_eq_nil_of_le (by simpa using h)]; rfl
  | some c =>
    rw [drop_of_getElem? h]
    simp only [wsLen, List.head?_drop]

/-- Length of the `NEWLINE` unit at the head of a list. -/
def nlLen (l : Str) : Nat :=
  match l with
  | [] => 0
  | c :: cs => if c == 13 && cs.head? == some 10 then 2 else if isNL c then 1 else 0

theorem nlAt_eq (s : Str) (j : Nat) : nlAt s j = nlLen (s.drop j) := by
  unfold nlAt
  cases h : s[j]? with
  | none =>
    rw [List.drop_eq_nil_of_le (by simpa using h)]; rfl
  | some c =>
    rw [drop_of_getElem? h]
    simp only [nlLen, List.head?_drop]

/-! ### First match of `RE_CSS_ESC` at a position -/

def rxEsc : Rx := .alt [rxG1 (.alt [rxWS, rxComment]), rxG2, rxG3]
def rxStrEsc : Rx := .alt [rxG1 rxWS, rxG2, rxG3, rxG4]

theorem runs_rxEsc (env : CharEnv) (s : Str) (i : Nat) :
    runs env s rxEsc i [] = runs env s (rxG1 (.alt [rxWS, rxComment])) i [] ++
      (runs env s rxG2 i [] ++ (runs env s rxG3 i [] ++ [])) := by
  unfold rxEsc
  rw [runs_alt, runsAlt_cons, runsAlt_cons, runsAlt_cons, runsAlt_nil]

theorem runs_rxStrEsc (env : CharEnv) (s : Str) (i : Nat) :
    runs env s rxStrEsc i [] = runs env s (rxG1 rxWS) i [] ++
      (runs env s rxG2 i [] ++ (runs env s rxG3 i [] ++ (runs env s rxG4 i [] ++ []))) := by
  unfold rxStrEsc
  rw [runs_alt, runsAlt_cons, runsAlt_cons, runsAlt_cons, runsAlt_cons, runsAlt_nil]

section
variable {env : CharEnv} (h : GoodEnv env) (s : Str) (i : Nat)
include h

theorem esc_noBackslash (h0 : s[i]? ≠ some 92) : matchAt env rxEsc s i = none := by
  unfold matchAt
  rw [runs_rxEsc]
  unfold rxG1 rxG2 rxG3
  rw [runs_group_L92_nil h s _ _ _ _ h0, runs_group_L92_nil h s _ _ _ _ h0,
    runs_group_L92_nil h s _ _ _ _ h0]
  rfl

theorem str_noBackslash (h0 : s[i]? ≠ some 92) : matchAt env rxStrEsc s i = none := by
  unfold matchAt
  rw [runs_rxStrEsc]
  unfold rxG1 rxG2 rxG3 rxG4
  rw [runs_group_L92_nil h s _ _ _ _ h0, runs_group_L92_nil h s _ _ _ _ h0,
    runs_group_L92_nil h s _ _ _ _ h0, runs_group_L92_nil h s _ _ _ _ h0]
  rfl

theorem esc_atEnd (h0 : s[i]? = some 92) (h1 : s[i + 1]? = none) :
    matchAt env rxEsc s i = some (i + 1, [(3, i, i + 1)]) := by
  have hlen : i + 1 = s.length := by
    have := lt_of_getElem?_some h0
    have : s.length ≤ i + 1 := by simpa using h1
    omega
  unfold matchAt
  rw [runs_rxEsc, runs_G1_nil h s _ i [] (by intro d hd; rw [h1] at hd; cases hd), runs_G2 h s i h0,
    runs_G3 h s i h0, h1, if_pos hlen]
  rfl

theorem str_atEnd (h0 : s[i]? = some 92) (h1 : s[i + 1]? = none) :
    matchAt env rxStrEsc s i = some (i + 1, [(3, i, i + 1)]) := by
  have hlen : i + 1 = s.length := by
    have := lt_of_getElem?_some h0
    have : s.length ≤ i + 1 := by simpa using h1
    omega
  unfold matchAt
  rw [runs_rxStrEsc, runs_G1_nil h s _ i [] (by intro d hd; rw [h1] at hd; cases hd), runs_G2 h s i h0,
    runs_G3 h s i h0, h1, if_pos hlen]
  rfl

theorem esc_hex (d : Nat) (h0 : s[i]? = some 92) (h1 : s[i + 1]? = some d) (hd : isHex d = true)
    (hc : wsLen (s.drop (i + 1 + hexRun 6 (s.drop (i + 1)))) = 0 →
      commentAt (s.drop (i + 1 + hexRun 6 (s.drop (i + 1)))) = false) :
    matchAt env rxEsc s i =
      some (i + 1 + hexRun 6 (s.drop (i + 1)) + wsLen (s.drop (i + 1 + hexRun 6 (s.drop (i + 1)))),
        [(1, i, i + 1 + hexRun 6 (s.drop (i + 1)) + wsLen (s.drop (i + 1 + hexRun 6 (s.drop (i + 1)))))]) := by
  unfold matchAt
  rw [runs_rxEsc]
  apply head?_append_some
  apply head_G1 h s _ i d _ h0 h1 hd
  rw [runs_alt, runsAlt_cons, runsAlt_cons, runsAlt_nil, runs_WS h, wsAt_eq]
  by_cases hw : wsLen (s.drop (i + 1 + hexRun 6 (s.drop (i + 1)))) = 0
  · rw [if_pos hw, runs_comment_nil h s _ _ (hc hw), hw]
    rfl
  · rw [if_neg hw]; rfl

theorem str_hex (d : Nat) (h0 : s[i]? = some 92) (h1 : s[i + 1]? = some d) (hd : isHex d = true) :
    matchAt env rxStrEsc s i =
      some (i + 1 + hexRun 6 (s.drop (i + 1)) + wsLen (s.drop (i + 1 + hexRun 6 (s.drop (i + 1)))),
        [(1, i, i + 1 + hexRun 6 (s.drop (i + 1)) + wsLen (s.drop (i + 1 + hexRun 6 (s.drop (i + 1)))))]) := by
  unfold matchAt
  rw [runs_rxStrEsc]
  apply head?_append_some
  apply head_G1 h s _ i d _ h0 h1 hd
  rw [runs_WS h, wsAt_eq]
  by_cases hw : wsLen (s.drop (i + 1 + hexRun 6 (s.drop (i + 1)))) = 0
  · rw [if_pos hw, hw]
    rfl
  · rw [if_neg hw]; rfl

theorem esc_newline (d : Nat) (h0 : s[i]? = some 92) (h1 : s[i + 1]? = some d) (hd : isHex d = false)
    (hn : isNL d = true) : matchAt env rxEsc s i = none := by
  have hlen : ¬ i + 1 = s.length := by
    have := lt_of_getElem?_some h1; omega
  unfold matchAt
  rw [runs_rxEsc, runs_G1_nil h s _ i [] (by intro d' hd'; rw [h1] at hd'; cases hd'; exact hd),
    runs_G2 h s i h0, runs_G3 h s i h0, h1, if_neg hlen]
  simp [hn]

theorem str_newline (d : Nat) (h0 : s[i]? = some 92) (h1 : s[i + 1]? = some d) (hd : isHex d = false)
    (hn : isNL d = true) :
    matchAt env rxStrEsc s i =
      some (i + 1 + nlLen (s.drop (i + 1)), [(4, i, i + 1 + nlLen (s.drop (i + 1)))]) := by
  have hlen : ¬ i + 1 = s.length := by
    have := lt_of_getElem?_some h1; omega
  have hnl : ¬ nlLen (s.drop (i + 1)) = 0 := by
    rw [drop_of_getElem? h1]
    simp only [nlLen, hn, if_true]
    split <;> omega
  unfold matchAt
  rw [runs_rxStrEsc, runs_G1_nil h s _ i [] (by intro d' hd'; rw [h1] at hd'; cases hd'; exact hd),
    runs_G2 h s i h0, runs_G3 h s i h0, runs_G4 h s i h0, h1, if_neg hlen, nlAt_eq, if_neg hnl]
  simp [hn]

theorem esc_char (d : Nat) (h0 : s[i]? = some 92) (h1 : s[i + 1]? = some d) (hd : isHex d = false)
    (hn : isNL d = false) : matchAt env rxEsc s i = some (i + 2, [(2, i, i + 2)]) := by
  unfold matchAt
  rw [runs_rxEsc, runs_G1_nil h s _ i [] (by intro d' hd'; rw [h1] at hd'; cases hd'; exact hd),
    runs_G2 h s i h0, h1]
  simp [hn]

theorem str_char (d : Nat) (h0 : s[i]? = some 92) (h1 : s[i + 1]? = some d) (hd : isHex d = false)
    (hn : isNL d = false) : matchAt env rxStrEsc s i = some (i + 2, [(2, i, i + 2)]) := by
  unfold matchAt
  rw [runs_rxStrEsc, runs_G1_nil h s _ i [] (by intro d' hd'; rw [h1] at hd'; cases hd'; exact hd),
    runs_G2 h s i h0, h1]
  simp [hn]

end

/-! ### The replacement function -/

/-- `replace(m)` of `css_unescape`, from the captures. -/
def repl (content : Str) (caps : Caps) : Str :=
  match Rx.capSpan caps 1 with
  | some (a, b) =>
    if b > a then
      let cp := Parser.hexPrefixVal (Parser.slice content (a + 1) b)
      let cp := if cp == 0 || cp > 0x10FFFF then 0xFFFD else cp
      [cp]
    else []
  | none =>
    match Rx.capSpan caps 2 with
    | some (a, b) => Parser.slice content (a + 1) b
    | none =>
      match Rx.capSpan caps 3 with
      | some _ => [0xFFFD]
      | none => []

theorem cssUnescape_def (env : CharEnv) (L : Parser.Lexicon) (content : Str) (string : Bool) :
    Parser.cssUnescape env L content string =
      Parser.subWith env (if string then L.reCssStrEsc else L.reCssEsc) (repl content) content := rfl

theorem isSome_hexVal (c : Nat) : (Parser.hexVal c).isSome = isHex c := by
  unfold Parser.hexVal isHex
  split
  · simp_all
  · split
    · simp_all
    · split <;> simp_all

theorem getD_hexVal (c : Nat) (hc : isHex c = true) : (Parser.hexVal c).getD 0 = hexDigitVal c := by
  unfold Parser.hexVal hexDigitVal
  unfold isHex at hc
  simp only [Bool.or_eq_true, Bool.and_eq_true, decide_eq_true_eq] at hc
  split
  · rename_i h1
    simp only [Bool.and_eq_true, decide_eq_true_eq] at h1
    rw [if_pos (by omega)]; rfl
  · rename_i h1
    simp only [Bool.and_eq_true, decide_eq_true_eq] at h1
    split
    · rename_i h2
      simp only [Bool.and_eq_true, decide_eq_true_eq] at h2
      rw [if_neg (by omega), if_neg (by omega)]; rfl
    · rename_i h2
      simp only [Bool.and_eq_true, decide_eq_true_eq] at h2
      split
      · rename_i h3
        simp only [Bool.and_eq_true, decide_eq_true_eq] at h3
        rw [if_neg (by omega), if_pos (by omega)]; rfl
      · rename_i h3
        simp only [Bool.and_eq_true, decide_eq_true_eq] at h3
        omega

theorem foldl_hex (l : Str) (hl : ∀ x ∈ l, isHex x = true) : ∀ acc,
    l.foldl (fun a c => a * 16 + (Parser.hexVal c).getD 0) acc =
      l.foldl (fun a c => a * 16 + hexDigitVal c) acc := by
  induction l with
  | nil => intro acc; rfl
  | cons c cs ih =>
    intro acc
    rw [List.foldl_cons, List.foldl_cons, getD_hexVal c (hl c (List.mem_cons_self ..))]
    exact ih (fun x hx => hl x (List.mem_cons_of_mem _ hx)) _

theorem take_hexRun_all : ∀ (n : Nat) (l : Str), ∀ x ∈ l.take (hexRun n l), isHex x = true
  | 0, l => by simp [hexRun]
  | n + 1, [] => by simp [hexRun]
  | n + 1, c :: cs => by
    intro x hx
    rw [hexRun] at hx
    cases hc : isHex c with
    | false => rw [hc] at hx; simp at hx
    | true =>
      rw [hc] at hx
      simp only [if_true, List.take_succ_cons, List.mem_cons] at hx
      rcases hx with rfl | hx
      · exact hc
      · exact take_hexRun_all n cs x hx

theorem takeWhile_ws (t : Str) : (t.take (wsLen t)).takeWhile isHex = [] := by
  cases t with
  | nil => rfl
  | cons c cs =>
    simp only [wsLen]
    split
    · rename_i hc
      have : c = 13 := by
        rw [Bool.and_eq_true] at hc; simpa using hc.1
      subst this
      simp [isHex]
    · split
      · rename_i hw
        have : isHex c = false := by
          unfold isCssWs at hw
          unfold isHex
          simp only [Bool.or_eq_true, beq_iff_eq] at hw
          rw [Bool.eq_false_iff]
          simp only [ne_eq, Bool.or_eq_true, Bool.and_eq_true, decide_eq_true_eq]
          omega
        simp [this]
      · rfl

/-- `int(m.group(1)[1:], 16)`: the digits of the hex run, whatever whitespace follows them. -/
theorem hexPrefix_take (cs : Str) :
    Parser.hexPrefixVal (cs.take (hexRun 6 cs + wsLen (cs.drop (hexRun 6 cs)))) =
      Escape.hexVal (cs.take (hexRun 6 cs)) := by
  unfold Parser.hexPrefixVal Escape.hexVal
  have hf : (fun c => (Parser.hexVal c).isSome) = isHex := by
    funext c; exact isSome_hexVal c
  rw [hf, List.take_add, List.takeWhile_append_of_pos (take_hexRun_all 6 cs), takeWhile_ws,
    List.append_nil]
  exact foldl_hex _ (take_hexRun_all 6 cs) 0

theorem repl_g1 (s : Str) (i e : Nat) (he : e > i) :
    repl s [(1, i, e)] = [fixCp (Parser.hexPrefixVal (Parser.slice s (i + 1) e))] := by
  simp [repl, capSpan, he, fixCp]

theorem repl_g2 (s : Str) (i e : Nat) : repl s [(2, i, e)] = Parser.slice s (i + 1) e := by
  simp [repl, capSpan]

theorem repl_g3 (s : Str) (i e : Nat) : repl s [(3, i, e)] = [0xFFFD] := by
  simp [repl, capSpan]

theorem repl_g4 (s : Str) (i e : Nat) : repl s [(4, i, e)] = [] := by
  simp [repl, capSpan]

/-! ### The substitution loop -/

section
variable {env : CharEnv} {r : Rx} {f : Caps → Str} {s : Str}

theorem go_match {fuel i j : Nat} {caps : Caps} (hi : i ≤ s.length)
    (hm : matchAt env r s i = some (j, caps)) (hj : j > i) :
    Parser.subWith.go env r f s (fuel + 1) i = f caps ++ Parser.subWith.go env r f s fuel j := by
  rw [Parser.subWith.go]
  simp [hm, hj, Nat.not_lt.mpr hi]

theorem go_none_some {fuel i c : Nat} (hm : matchAt env r s i = none) (hx : s[i]? = some c) :
    Parser.subWith.go env r f s (fuel + 1) i = c :: Parser.subWith.go env r f s fuel (i + 1) := by
  have hi := lt_of_getElem?_some hx
  rw [Parser.subWith.go]
  simp [hm, hx, Nat.not_lt.mpr (Nat.le_of_lt hi)]

theorem go_none_none {fuel i : Nat} (hm : matchAt env r s i = none) (hx : s[i]? = none) :
    Parser.subWith.go env r f s (fuel + 1) i = [] := by
  rw [Parser.subWith.go]
  simp [hm, hx]

end

/-! ### The hand-written scanners, one step -/

theorem cssUnescapeAux_drop : ∀ (k : Nat) (l : Str), cssUnescapeAux k l = cssUnescapeAux 0 (l.drop k)
  | 0, l => by simp
  | k + 1, [] => by simp [cssUnescapeAux]
  | k + 1, c :: cs => by
    rw [cssUnescapeAux, List.drop_succ_cons]; exact cssUnescapeAux_drop k cs

theorem raisesAux_drop : ∀ (k : Nat) (l : Str),
    cssUnescapeRaisesAux k l = cssUnescapeRaisesAux 0 (l.drop k)
  | 0, l => by simp
  | k + 1, [] => by simp [cssUnescapeRaisesAux]
  | k + 1, c :: cs => by
    rw [cssUnescapeRaisesAux, List.drop_succ_cons]; exact raisesAux_drop k cs

theorem unescapeStringAux_drop : ∀ (k : Nat) (l : Str),
    unescapeStringAux k l = unescapeStringAux 0 (l.drop k)
  | 0, l => by simp
  | k + 1, [] => by simp [unescapeStringAux]
  | k + 1, c :: cs => by
    rw [unescapeStringAux, List.drop_succ_cons]; exact unescapeStringAux_drop k cs

theorem hexRun_le : ∀ (n : Nat) (l : Str), hexRun n l ≤ l.length
  | 0, l => by simp [hexRun]
  | n + 1, [] => by simp [hexRun]
  | n + 1, c :: cs => by
    rw [hexRun]; split
    · have := hexRun_le n cs; simp; omega
    · simp

theorem wsLen_le (l : Str) : wsLen l ≤ l.length := by
  cases l with
  | nil => simp [wsLen]
  | cons c cs =>
    simp only [wsLen]
    split
    · rename_i hc
      rw [Bool.and_eq_true] at hc
      cases cs with
      | nil => simp at hc
      | cons _ _ => simp
    · split <;> simp

theorem nlLen_le (l : Str) : nlLen l ≤ l.length := by
  cases l with
  | nil => simp [nlLen]
  | cons c cs =>
    simp only [nlLen]
    split
    · rename_i hc
      rw [Bool.and_eq_true] at hc
      cases cs with
      | nil => simp at hc
      | cons _ _ => simp
    · split <;> simp

theorem aux_hex (cs : Str) (d : Nat) (hh : cs.head? = some d) (hx : isHex d = true) :
    cssUnescapeAux 0 (92 :: cs) = fixCp (Escape.hexVal (cs.take (hexRun 6 cs))) ::
      cssUnescapeAux 0 (cs.drop (hexRun 6 cs + wsLen (cs.drop (hexRun 6 cs)))) := by
  cases cs with
  | nil => cases hh
  | cons d' ds =>
    have : d' = d := by simpa using hh
    subst this
    rw [← cssUnescapeAux_drop]
    simp [cssUnescapeAux, hx]

theorem raises_hex (cs : Str) (d : Nat) (hh : cs.head? = some d) (hx : isHex d = true) :
    cssUnescapeRaisesAux 0 (92 :: cs) =
      ((wsLen (cs.drop (hexRun 6 cs)) == 0 && commentAt (cs.drop (hexRun 6 cs))) ||
        cssUnescapeRaisesAux 0 (cs.drop (hexRun 6 cs + wsLen (cs.drop (hexRun 6 cs))))) := by
  cases cs with
  | nil => cases hh
  | cons d' ds =>
    have : d' = d := by simpa using hh
    subst this
    rw [← raisesAux_drop]
    simp [cssUnescapeRaisesAux, hx]

theorem str_aux_hex (cs : Str) (d : Nat) (hh : cs.head? = some d) (hx : isHex d = true) :
    unescapeStringAux 0 (92 :: cs) = fixCp (Escape.hexVal (cs.take (hexRun 6 cs))) ::
      unescapeStringAux 0 (cs.drop (hexRun 6 cs + wsLen (cs.drop (hexRun 6 cs)))) := by
  cases cs with
  | nil => cases hh
  | cons d' ds =>
    have : d' = d := by simpa using hh
    subst this
    rw [← unescapeStringAux_drop]
    simp [unescapeStringAux, hx]

theorem aux_nl (cs : Str) (d : Nat) (hh : cs.head? = some d) (hx : isHex d = false)
    (hn : isNL d = true) : cssUnescapeAux 0 (92 :: cs) = 92 :: cssUnescapeAux 0 cs := by
  cases cs with
  | nil => cases hh
  | cons d' ds =>
    have : d' = d := by simpa using hh
    subst this
    unfold isNL at hn
    rw [cssUnescapeAux]
    simp only [hx, hn]
    simp

theorem raises_nl (cs : Str) (d : Nat) (hh : cs.head? = some d) (hx : isHex d = false)
    (hn : isNL d = true) : cssUnescapeRaisesAux 0 (92 :: cs) = cssUnescapeRaisesAux 0 cs := by
  cases cs with
  | nil => cases hh
  | cons d' ds =>
    have : d' = d := by simpa using hh
    subst this
    unfold isNL at hn
    rw [cssUnescapeRaisesAux]
    simp only [hx, hn]
    simp

theorem aux_char (cs : Str) (d : Nat) (hh : cs.head? = some d) (hx : isHex d = false)
    (hn : isNL d = false) : cssUnescapeAux 0 (92 :: cs) = d :: cssUnescapeAux 0 (cs.drop 1) := by
  cases cs with
  | nil => cases hh
  | cons d' ds =>
    have : d' = d := by simpa using hh
    subst this
    unfold isNL at hn
    rw [cssUnescapeAux]
    simp only [hx, hn]
    simp [cssUnescapeAux]

theorem raises_char (cs : Str) (d : Nat) (hh : cs.head? = some d) (hx : isHex d = false)
    (hn : isNL d = false) :
    cssUnescapeRaisesAux 0 (92 :: cs) = cssUnescapeRaisesAux 0 (cs.drop 1) := by
  cases cs with
  | nil => cases hh
  | cons d' ds =>
    have : d' = d := by simpa using hh
    subst this
    unfold isNL at hn
    rw [cssUnescapeRaisesAux]
    simp only [hx, hn]
    simp [cssUnescapeRaisesAux]

theorem str_aux_nl (cs : Str) (d : Nat) (hh : cs.head? = some d) (hx : isHex d = false)
    (hn : isNL d = true) : unescapeStringAux 0 (92 :: cs) = unescapeStringAux 0 (cs.drop (nlLen cs)) := by
  cases cs with
  | nil => cases hh
  | cons d' ds =>
    have : d' = d := by simpa using hh
    subst this
    have hn' := hn
    unfold isNL at hn'
    by_cases hb : (d' == 13 && ds.head? == some 10) = true
    · have e : unescapeStringAux 0 (92 :: d' :: ds) = unescapeStringAux 2 (d' :: ds) := by
        conv => lhs; rw [unescapeStringAux]
        simp only [hx, hb]; simp
      rw [e, unescapeStringAux_drop 2]
      simp only [nlLen, hb, if_true]
    · have hb' : (d' == 13 && ds.head? == some 10) = false := by simpa using hb
      have e : unescapeStringAux 0 (92 :: d' :: ds) = unescapeStringAux 1 (d' :: ds) := by
        conv => lhs; rw [unescapeStringAux]
        simp only [hx, hb', hn']; simp
      rw [e, unescapeStringAux_drop 1]
      simp only [nlLen, hb', hn, if_true]
      simp

theorem str_aux_char (cs : Str) (d : Nat) (hh : cs.head? = some d) (hx : isHex d = false)
    (hn : isNL d = false) : unescapeStringAux 0 (92 :: cs) = d :: unescapeStringAux 0 (cs.drop 1) := by
  cases cs with
  | nil => cases hh
  | cons d' ds =>
    have : d' = d := by simpa using hh
    subst this
    unfold isNL at hn
    rw [Bool.or_eq_false_iff, Bool.or_eq_false_iff] at hn
    obtain ⟨⟨h10, h13⟩, h12⟩ := hn
    rw [unescapeStringAux]
    simp only [hx, h10, h13, h12]
    simp [unescapeStringAux]

/-! ### Aligning the two loops -/

theorem slice_eq (s : Str) (a n : Nat) : Parser.slice s a (a + n) = (s.drop a).take n := by
  unfold Parser.slice; rw [show a + n - a = n by omega]

theorem go_esc {env : CharEnv} (h : GoodEnv env) (s : Str) : ∀ (fuel i : Nat), i ≤ s.length →
    s.length + 1 - i ≤ fuel → cssUnescapeRaisesAux 0 (s.drop i) = false →
    Parser.subWith.go env rxEsc (repl s) s fuel i = cssUnescapeAux 0 (s.drop i)
  | 0, i, hi, hf, _ => by omega
  | fuel + 1, i, hi, hf, hr => by
    cases h0 : s[i]? with
    | none =>
      rw [go_none_none (esc_noBackslash h s i (by rw [h0]; simp)) h0,
        List.drop_eq_nil_of_le (by simpa using h0)]
      rfl
    | some c =>
      have hlt := lt_of_getElem?_some h0
      have hd0 := drop_of_getElem? h0
      rw [hd0] at hr ⊢
      by_cases hc : c = 92
      · subst hc
        cases h1 : s[i + 1]? with
        | none =>
          have hnil : s.drop (i + 1) = [] := List.drop_eq_nil_of_le (by simpa using h1)
          rw [go_match hi (esc_atEnd h s i h0 h1) (by omega), repl_g3,
            go_esc h s fuel (i + 1) (by omega) (by omega) (by rw [hnil]; rfl), hnil]
          rfl
        | some d =>
          have hlt1 := lt_of_getElem?_some h1
          have hh : (s.drop (i + 1)).head? = some d := by rw [List.head?_drop]; exact h1
          cases hx : isHex d with
          | true =>
            rw [raises_hex _ d hh hx, Bool.or_eq_false_iff] at hr
            obtain ⟨hr1, hr2⟩ := hr
            rw [aux_hex _ d hh hx]
            have hk := hexRun_le 6 (s.drop (i + 1))
            have hw := wsLen_le ((s.drop (i + 1)).drop (hexRun 6 (s.drop (i + 1))))
            have hpre := hexPrefix_take (s.drop (i + 1))
            rw [List.drop_drop] at hr1 hr2 hw hpre ⊢
            rw [List.drop_drop] at hr2 ⊢
            simp only [List.length_drop] at hk hw
            have hm := esc_hex h s i d h0 h1 hx (by
              intro hw0
              rw [hw0] at hr1
              simpa using hr1)
            rw [go_match hi hm (by omega), repl_g1 _ _ _ (by omega),
              go_esc h s fuel _ (by omega) (by omega) (by
                rw [← hr2]; congr 2; omega)]
            rw [show i + 1 + hexRun 6 (s.drop (i + 1)) +
                wsLen (s.drop (i + 1 + hexRun 6 (s.drop (i + 1)))) =
              (i + 1) + (hexRun 6 (s.drop (i + 1)) +
                wsLen (s.drop (i + 1 + hexRun 6 (s.drop (i + 1))))) by omega, slice_eq, hpre]
            rfl
          | false =>
            cases hn : isNL d with
            | true =>
              rw [raises_nl _ d hh hx hn] at hr
              rw [aux_nl _ d hh hx hn, go_none_some (esc_newline h s i d h0 h1 hx hn) h0,
                go_esc h s fuel (i + 1) (by omega) (by omega) hr]
            | false =>
              rw [raises_char _ d hh hx hn, List.drop_drop] at hr
              rw [aux_char _ d hh hx hn, List.drop_drop,
                go_match hi (esc_char h s i d h0 h1 hx hn) (by omega), repl_g2,
                go_esc h s fuel (i + 2) (by omega) (by omega) hr,
                show i + 2 = (i + 1) + 1 by omega, slice_eq, drop_of_getElem? h1]
              rfl
      · have hne : s[i]? ≠ some 92 := by rw [h0]; intro e; exact hc (Option.some.inj e)
        have hb : (c != 92) = true := by simpa using hc
        rw [go_none_some (esc_noBackslash h s i hne) h0]
        have e1 : cssUnescapeAux 0 (c :: s.drop (i + 1)) = c :: cssUnescapeAux 0 (s.drop (i + 1)) := by
          cases s.drop (i + 1) <;> simp [cssUnescapeAux, hb]
        have e2 : cssUnescapeRaisesAux 0 (c :: s.drop (i + 1)) =
            cssUnescapeRaisesAux 0 (s.drop (i + 1)) := by
          cases s.drop (i + 1) <;> simp [cssUnescapeRaisesAux, hb]
        rw [e2] at hr
        rw [e1, go_esc h s fuel (i + 1) (by omega) (by omega) hr]

theorem go_str {env : CharEnv} (h : GoodEnv env) (s : Str) : ∀ (fuel i : Nat), i ≤ s.length →
    s.length + 1 - i ≤ fuel →
    Parser.subWith.go env rxStrEsc (repl s) s fuel i = unescapeStringAux 0 (s.drop i)
  | 0, i, hi, hf => by omega
  | fuel + 1, i, hi, hf => by
    cases h0 : s[i]? with
    | none =>
      rw [go_none_none (str_noBackslash h s i (by rw [h0]; simp)) h0,
        List.drop_eq_nil_of_le (by simpa using h0)]
      rfl
    | some c =>
      have hlt := lt_of_getElem?_some h0
      have hd0 := drop_of_getElem? h0
      rw [hd0]
      by_cases hc : c = 92
      · subst hc
        cases h1 : s[i + 1]? with
        | none =>
          have hnil : s.drop (i + 1) = [] := List.drop_eq_nil_of_le (by simpa using h1)
          rw [go_match hi (str_atEnd h s i h0 h1) (by omega), repl_g3,
            go_str h s fuel (i + 1) (by omega) (by omega), hnil]
          rfl
        | some d =>
          have hlt1 := lt_of_getElem?_some h1
          have hh : (s.drop (i + 1)).head? = some d := by rw [List.head?_drop]; exact h1
          cases hx : isHex d with
          | true =>
            rw [str_aux_hex _ d hh hx]
            have hk := hexRun_le 6 (s.drop (i + 1))
            have hw := wsLen_le ((s.drop (i + 1)).drop (hexRun 6 (s.drop (i + 1))))
            have hpre := hexPrefix_take (s.drop (i + 1))
            rw [List.drop_drop] at hw hpre ⊢
            rw [List.drop_drop]
            simp only [List.length_drop] at hk hw
            have hm := str_hex h s i d h0 h1 hx
            rw [go_match hi hm (by omega), repl_g1 _ _ _ (by omega),
              go_str h s fuel _ (by omega) (by omega)]
            rw [show i + 1 + hexRun 6 (s.drop (i + 1)) +
                wsLen (s.drop (i + 1 + hexRun 6 (s.drop (i + 1)))) =
              (i + 1) + (hexRun 6 (s.drop (i + 1)) +
                wsLen (s.drop (i + 1 + hexRun 6 (s.drop (i + 1))))) by omega, slice_eq, hpre]
            rfl
          | false =>
            cases hn : isNL d with
            | true =>
              have hl := nlLen_le (s.drop (i + 1))
              simp only [List.length_drop] at hl
              rw [str_aux_nl _ d hh hx hn, List.drop_drop,
                go_match hi (str_newline h s i d h0 h1 hx hn) (by omega), repl_g4,
                go_str h s fuel _ (by omega) (by omega)]
              rfl
            | false =>
              rw [str_aux_char _ d hh hx hn, List.drop_drop,
                go_match hi (str_char h s i d h0 h1 hx hn) (by omega), repl_g2,
                go_str h s fuel (i + 2) (by omega) (by omega),
                show i + 2 = (i + 1) + 1 by omega, slice_eq, drop_of_getElem? h1]
              rfl
      · have hne : s[i]? ≠ some 92 := by rw [h0]; intro e; exact hc (Option.some.inj e)
        have hb : (c != 92) = true := by simpa using hc
        rw [go_none_some (str_noBackslash h s i hne) h0]
        have e1 : unescapeStringAux 0 (c :: s.drop (i + 1)) =
            c :: unescapeStringAux 0 (s.drop (i + 1)) := by
          cases s.drop (i + 1) <;> simp [unescapeStringAux, hb]
        rw [e1, go_str h s fuel (i + 1) (by omega) (by omega)]

/-! ### Main theorems -/

/-- Identifier mode, any environment whose case folding is ASCII lower-casing plus
    identifications of non-ASCII code points with letters from `g` on. -/
theorem cssUnescape_refines {env : CharEnv} (h : GoodEnv env) (s : Str)
    (hr : Escape.cssUnescapeRaises s = false) :
    Parser.cssUnescape env Gen.lexicon s false = Escape.cssUnescape s := by
  rw [cssUnescape_def]
  simp only [Bool.false_eq_true, if_false]
  rw [lexicon_esc, esc_shape]
  have := go_esc h s (s.length + 1) 0 (by omega) (by omega) hr
  exact this

/-- String mode: no guard. -/
theorem unescapeString_refines {env : CharEnv} (h : GoodEnv env) (s : Str) :
    Parser.cssUnescape env Gen.lexicon s true = Spelling.unescapeString s := by
  rw [cssUnescape_def]
  simp only [if_true]
  rw [lexicon_str_esc, str_esc_shape]
  have := go_str h s (s.length + 1) 0 (by omega) (by omega)
  exact this

/-- `css_unescape(s)` as run by the engine model on the regenerated `RE_CSS_ESC`, under Python's
    IGNORECASE folding, is the hand-written `Escape.cssUnescape s` wherever Python does not raise. -/
theorem cssUnescape_pyFold (s : Str) (hr : Escape.cssUnescapeRaises s = false) :
    Parser.cssUnescape pyFoldEnv Gen.lexicon s (string := false) = Escape.cssUnescape s :=
  cssUnescape_refines goodEnv_py s hr

theorem cssUnescape_ascii (s : Str) (hr : Escape.cssUnescapeRaises s = false) :
    Parser.cssUnescape asciiEnv Gen.lexicon s (string := false) = Escape.cssUnescape s :=
  cssUnescape_refines goodEnv_ascii s hr

/-- `css_unescape(s, True)` on the regenerated `RE_CSS_STR_ESC` is `Spelling.unescapeString s`,
    for every `s`. -/
theorem unescapeString_pyFold (s : Str) :
    Parser.cssUnescape pyFoldEnv Gen.lexicon s (string := true) = Spelling.unescapeString s :=
  unescapeString_refines goodEnv_py s

theorem unescapeString_ascii (s : Str) :
    Parser.cssUnescape asciiEnv Gen.lexicon s (string := true) = Spelling.unescapeString s :=
  unescapeString_refines goodEnv_ascii s

/-! ### The guard of identifier mode cannot be dropped

  `\61/**/x`: the engine lets `WSC?` swallow the comment into group 1 (CPython then raises
  `ValueError` in `int('61/**/', 16)`; `Parser.cssUnescape` reads the leading digits and goes on
  after the comment), the hand scanner `Escape.cssUnescape` does not model `COMMENTS` there. -/

example : Escape.cssUnescapeRaises [92, 54, 49, 47, 42, 42, 47, 120] = true := by decide
example : Parser.cssUnescape pyFoldEnv Gen.lexicon [92, 54, 49, 47, 42, 42, 47, 120] false = [97, 120] := by
  decide
example : Escape.cssUnescape [92, 54, 49, 47, 42, 42, 47, 120] = [97, 47, 42, 42, 47, 120] := by decide

end Refine
end SoupVerif

#print axioms SoupVerif.Refine.cssUnescape_refines
#print axioms SoupVerif.Refine.unescapeString_refines
#print axioms SoupVerif.Refine.cssUnescape_pyFold
#print axioms SoupVerif.Refine.cssUnescape_ascii
#print axioms SoupVerif.Refine.unescapeString_pyFold
#print axioms SoupVerif.Refine.unescapeString_ascii
