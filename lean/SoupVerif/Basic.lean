def hello := "world"
