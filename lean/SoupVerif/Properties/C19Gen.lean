/-
  C19, source-translated: `CSSMatch.match_empty` and `CSSMatch.match_contains` as REGENERATED from the text of
  soupsieve/css_match.py by gen/gen_py_textfn.py (`Generated/PyTextFn.lean`) are, for ALL arguments, the hand-written
  matcher model (`matchEmpty`, `matchContains` of Model/Match.lean) the theorems of Properties/C19.lean are about.

  Instantiation of the callees (parameters of the generated definitions):
    `children tags no_iframe`   the model's `Ctx.contents l no_iframe`, filtered to elements when `tags`
                                (`get_children` / `get_contents`);
    `is_tag`, `is_content_string`   `Loc.isTag`, `Node.isContentString` of the focus;
    `search r child`            the regex-engine model on the `Rx` regenerated from the source constant
                                (`RE_NOT_EMPTY`), truthiness of the match object;
    `own`, `texts`              the fields of `ContainsSel`;  `str_in`  `isInfix` (Python `a in b` on `str`);
    `get_text ni`, `get_own_text ni`   `Ctx.text l ni`, `Ctx.ownText l ni`.
  A generated definition with another signature (e.g. `is_html` reaching `match_empty`'s iterable) does not fit
  these statements: the build fails, which the pipeline reports as a violation.
-/
import SoupVerif.Properties.C19Rx
import SoupVerif.Generated.PyTextFn
namespace SoupVerif
namespace C19Gen
open PyFlagLoop

/-! ### `for … break` loops over one flag -/

/-- `for x in xs: if p(x): flag = False; break` -/
theorem forBreak_clear {α : Type} (step : Bool → α → Bool × Bool) (p : α → Bool)
    (h : ∀ s x, step s x = if p x then (false, true) else (s, false)) (s : Bool) (xs : List α) :
    forBreak step s xs = (s && !xs.any p) := by
  induction xs generalizing s with
  | nil => simp [forBreak]
  | cons x xs ih =>
    simp only [forBreak, h]
    cases hp : p x <;> simp [ih, hp]

/-- `for x in xs: if p(x): flag = True; break` -/
theorem forBreak_set {α : Type} (step : Bool → α → Bool × Bool) (p : α → Bool)
    (h : ∀ s x, step s x = if p x then (true, true) else (s, false)) (s : Bool) (xs : List α) :
    forBreak step s xs = (s || xs.any p) := by
  induction xs generalizing s with
  | nil => simp [forBreak]
  | cons x xs ih =>
    simp only [forBreak, h]
    cases hp : p x <;> simp [ih, hp]

/-- A loop that, started with the flag down, raises it and breaks exactly at the first `q`. -/
theorem forBreak_any {α : Type} (step : Bool → α → Bool × Bool) (q : α → Bool)
    (h : ∀ x, step false x = (q x, q x)) (xs : List α) :
    forBreak step false xs = xs.any q := by
  induction xs with
  | nil => simp [forBreak]
  | cons x xs ih =>
    simp only [forBreak, h]
    cases hq : q x <;> simp [ih, hq]

/-- A loop without `break` that lowers the flag at every element failing `q`. -/
theorem forBreak_all {α : Type} (step : Bool → α → Bool × Bool) (q : α → Bool)
    (h : ∀ s x, step s x = (s && q x, false)) (s : Bool) (xs : List α) :
    forBreak step s xs = (s && xs.all q) := by
  induction xs generalizing s with
  | nil => simp [forBreak]
  | cons x xs ih =>
    simp only [forBreak, h, Bool.false_eq_true, if_false, ih, List.all_cons, Bool.and_assoc]

/-! ### `match_empty` -/

/-- The generated loop body: a child that is an element, or a content string in which `RE_NOT_EMPTY.search`
    finds something, lowers the flag and ends the loop; any other node leaves it. -/
theorem gen_emptyStep_eq {α : Type} (is_tag ics : α → Bool) (search : Rx → α → Bool) (s : Bool) (x : α) :
    Gen.PyTextFn.emptyStep is_tag ics search s x =
      if (is_tag x || (ics x && search Gen.cm_RE_NOT_EMPTY x)) then (false, true) else (s, false) := by
  unfold Gen.PyTextFn.emptyStep
  cases is_tag x <;> cases ics x <;> cases search Gen.cm_RE_NOT_EMPTY x <;> simp

/-- `get_children(el, tags, no_iframe)` / `get_contents(el, no_iframe)` on the model. -/
def modelChildren (c : Ctx) (l : Loc) (tags noIframe : Bool) : List Loc :=
  (c.contents l noIframe).filter fun ch => !tags || ch.isTag

/-- `RE_<X>.search(child)` as a truth value, in the engine model. -/
def modelSearch (env : CharEnv) (r : Rx) (ch : Loc) : Bool := (Rx.search env r ch.focus.strVal).isSome

/-- **`match_empty` as translated from the source = the hand model `matchEmpty`**, for every context and location. -/
theorem gen_matchEmpty_eq (env : CharEnv) (c : Ctx) (l : Loc) :
    Gen.PyTextFn.matchEmpty (modelChildren c l) c.isHtml Loc.isTag (fun ch => ch.focus.isContentString) (modelSearch env) =
      matchEmpty l := by
  unfold Gen.PyTextFn.matchEmpty
  simp only
  rw [forBreak_clear _ _ (gen_emptyStep_eq _ _ _)]
  unfold matchEmpty modelChildren Ctx.contents modelSearch
  simp [C19Rx.text_test_rx]

/-- `empty_iff` about the regenerated definition. -/
theorem gen_empty_iff (env : CharEnv) (c : Ctx) (l : Loc) :
    Gen.PyTextFn.matchEmpty (modelChildren c l) c.isHtml Loc.isTag (fun ch => ch.focus.isContentString) (modelSearch env) =
      Spec.isEmptyElem l.focus := by
  rw [gen_matchEmpty_eq, C19.empty_iff]

theorem gen_empty_iff_prop (env : CharEnv) (c : Ctx) (l : Loc) :
    Gen.PyTextFn.matchEmpty (modelChildren c l) c.isHtml Loc.isTag (fun ch => ch.focus.isContentString) (modelSearch env) = true ↔
      Spec.IsEmptyElem l.focus := by
  rw [gen_matchEmpty_eq, C19.empty_iff_prop]

/-! ### `match_contains` -/

/-- The decision for one `SelectorContains` record: some text of the list inside ONE own string (`own`), or inside
    the joined text content. -/
def containsOne (own : Bool) (texts : List Str) (content : Str) (ownContent : List Str) : Bool :=
  texts.any fun t => if own then ownContent.any (fun piece => isInfix t piece) else isInfix t content

/-- The generated body of the outer loop: never breaks, lowers `match` exactly when the record finds nothing. -/
theorem gen_containsStep_eq {ρ : Type} (own : ρ → Bool) (texts : ρ → List Str) (content : Str)
    (ownContent : List Str) (s : Bool) (x : ρ) :
    Gen.PyTextFn.containsStep own texts isInfix content ownContent s x =
      (s && containsOne (own x) (texts x) content ownContent, false) := by
  have hin : ∀ (t : Str) (s : Bool),
      forBreak (fun (s : Bool) x2 => if isInfix t x2 = true then (true, true) else (s, false)) s ownContent =
        (s || ownContent.any (fun piece => isInfix t piece)) :=
    fun t s => forBreak_set _ _ (fun _ _ => rfl) s ownContent
  unfold Gen.PyTextFn.containsStep
  simp only [hin]
  rw [forBreak_any _ (fun t => if own x then ownContent.any (fun piece => isInfix t piece) else isInfix t content)]
  · unfold containsOne
    cases s <;> cases (texts x).any _ <;> simp
  · intro t
    cases own x
    · cases isInfix t content <;> simp
    · simp only [Bool.false_or, if_true]
      cases ownContent.any (fun piece => isInfix t piece) <;> simp

/-- **`match_contains` as translated from the source = the hand model `matchContains`**, for every context,
    location and list of records. -/
theorem gen_matchContains_eq (c : Ctx) (l : Loc) (cs : List ContainsSel) :
    Gen.PyTextFn.matchContains c.isHtml ContainsSel.own ContainsSel.text isInfix (c.text l) (c.ownText l) cs =
      matchContains c l cs := by
  unfold Gen.PyTextFn.matchContains
  simp only
  rw [forBreak_all _ _ (gen_containsStep_eq _ _ _ _)]
  unfold matchContains containsOne
  simp only [Bool.true_and]
  congr 1
  funext cl
  cases cl.own <;> simp

/-- The regenerated function on the spec: every record against the content of its own kind. -/
theorem gen_matchContains_all (c : Ctx) (l : Loc) (cs : List ContainsSel) :
    Gen.PyTextFn.matchContains c.isHtml ContainsSel.own ContainsSel.text isInfix (c.text l) (c.ownText l) cs =
      cs.all fun cl =>
        if cl.own then Spec.containsOwn (TextLemmas.cutOf c c.isHtml) cl.text l.focus
        else Spec.contains (TextLemmas.cutOf c c.isHtml) cl.text l.focus := by
  rw [gen_matchContains_eq, C19.matchContains_all]

/-- `contains_iff` about the regenerated definition. -/
theorem gen_contains_iff (c : Ctx) (l : Loc) (ts : List Str) :
    Gen.PyTextFn.matchContains c.isHtml ContainsSel.own ContainsSel.text isInfix (c.text l) (c.ownText l) [⟨ts, false⟩] = true ↔
      Spec.Contains (TextLemmas.cutOf c c.isHtml) ts l.focus := by
  rw [gen_matchContains_eq, C19.contains_iff_prop]

theorem gen_containsOwn_iff (c : Ctx) (l : Loc) (ts : List Str) :
    Gen.PyTextFn.matchContains c.isHtml ContainsSel.own ContainsSel.text isInfix (c.text l) (c.ownText l) [⟨ts, true⟩] = true ↔
      Spec.ContainsOwn (TextLemmas.cutOf c c.isHtml) ts l.focus := by
  rw [gen_matchContains_eq, C19.containsOwn_iff_prop]

/-- Mixed `:-soup-contains-own(a):-soup-contains(b)`, either order: each list against its own content (the two
    caches of the source stay apart). -/
theorem gen_matchContains_mixed (c : Ctx) (l : Loc) (a b : List Str) :
    Gen.PyTextFn.matchContains c.isHtml ContainsSel.own ContainsSel.text isInfix (c.text l) (c.ownText l) [⟨a, true⟩, ⟨b, false⟩] =
      (Spec.containsOwn (TextLemmas.cutOf c c.isHtml) a l.focus && Spec.contains (TextLemmas.cutOf c c.isHtml) b l.focus) ∧
    Gen.PyTextFn.matchContains c.isHtml ContainsSel.own ContainsSel.text isInfix (c.text l) (c.ownText l) [⟨b, false⟩, ⟨a, true⟩] =
      (Spec.contains (TextLemmas.cutOf c c.isHtml) b l.focus && Spec.containsOwn (TextLemmas.cutOf c c.isHtml) a l.focus) := by
  rw [gen_matchContains_eq, gen_matchContains_eq]
  exact C19.matchContains_mixed c l a b

end C19Gen
end SoupVerif
