/-
  C18 / C17 — the decision part of `CSSMatch.match_range`, TRANSLATED from the Python source on every run
  (`gen/gen_py_loops.py` → `Generated/PyLoops.lean`, `Gen.PyLoops.rangeDecision`), is proved equal, for all
  arguments, to the decision of the hand-written matcher model (`matchRangeE` in `Model/Match.lean`), which is
  what `C18.range_def`, `C18.range_time_wrap`, … and the C17 theorems on `:in-range` / `:out-of-range` are about.

  * `rangeDecision_eq_hand`   generated decision = `handDecision` (the tail of `matchRangeE`, as a function of
                              the parsed values) for every `itype mn mx value inRange`;
  * `matchRangeE_gen`         `matchRangeE` = its effectful prefix (the four attribute reads, with the attribute
                              names the translator read from the source) followed by the generated decision;
  * `range_def_gen`, `range_def_gen_parsed`, `range_time_wrap_gen`, `range_missing_value_gen`
                              the C18 range theorems restated about the generated definition.

  An edit of `match_range` changes `Generated/PyLoops.lean`; if it changes the decision on any argument,
  `rangeDecision_eq_hand` no longer checks.
-/
import SoupVerif.Generated.PyLoops
import SoupVerif.Properties.C18Range

namespace SoupVerif
namespace C18
open Inputs

/-- The decision of the hand model: everything `matchRangeE` does after its `parseValueE` calls, as a function
    of the parsed values (`matchRangeE_hand` below: this IS the tail of `matchRangeE`). -/
def handDecision (itype : Str) (mn mx value : Option PVal) (inRange : Bool) : Bool :=
  if mn.isNone && mx.isNone then false else
  let outOfRange : Bool :=
    match value with
    | none => false
    | some v =>
      let lowBad := match mn with | some m => Inputs.ltP v m | none => false
      let highBad := match mx with | some m => Inputs.ltP m v | none => false
      if itype == "time".toStr then
        match mn, mx with
        | some m1, some m2 =>
          if Inputs.ltP m2 m1 then Inputs.ltP v m1 && Inputs.ltP m2 v   -- reversed range
          else lowBad || highBad
        | _, _ => lowBad || highBad
      else if ["date", "datetime-local", "month", "week", "number", "range"].any (fun t => t.toStr == itype) then
        lowBad || highBad
      else false
  if inRange then !outOfRange else outOfRange

theorem six_eq (itype : Str) :
    Gen.PyLoops.strIn itype ["date".toStr, "datetime-local".toStr, "month".toStr, "week".toStr, "number".toStr, "range".toStr]
      = ["date", "datetime-local", "month", "week", "number", "range"].any (fun t => t.toStr == itype) := by
  simp only [Gen.PyLoops.strIn, List.any_cons, List.any_nil, Bool.or_false]
  simp only [Bool.beq_comm (a := itype)]

theorem time_not_six (itype : Str) (h : (itype == "time".toStr) = true) :
    (["date", "datetime-local", "month", "week", "number", "range"].any (fun t => t.toStr == itype)) = false := by
  have : itype = "time".toStr := by simpa using h
  subst this; decide

theorem rangeDecision_eq_hand (itype : Str) (mn mx v : Option PVal) (inRange : Bool) :
    Gen.PyLoops.rangeDecision itype mn mx v inRange = handDecision itype mn mx v inRange := by
  unfold Gen.PyLoops.rangeDecision handDecision
  rw [six_eq]
  have hx := time_not_six itype
  generalize (["date", "datetime-local", "month", "week", "number", "range"].any (fun t => t.toStr == itype)) = b6 at *
  generalize (itype == "time".toStr) = bt at *
  cases v with
  | none => cases mn <;> cases mx <;> cases inRange <;> cases b6 <;> cases bt <;> simp_all
  | some x =>
    cases mn with
    | none =>
      cases mx with
      | none => simp
      | some b =>
        cases inRange <;> cases b6 <;> cases bt <;> simp_all [Gen.PyLoops.vlt]
    | some a =>
      cases mx with
      | none =>
        cases inRange <;> cases b6 <;> cases bt <;> simp_all [Gen.PyLoops.vlt]
      | some b =>
        cases inRange <;> cases b6 <;> cases bt <;> simp_all [Gen.PyLoops.vlt] <;>
          (generalize ltP x a = p; generalize ltP b x = q; generalize ltP b a = r
           cases p <;> cases q <;> cases r <;> rfl)

/-- The flag test `condition & ct.SEL_IN_RANGE` with the mask read from css_types.py. -/
theorem flag_eq (cond : Nat) :
    hasFlag cond SEL_IN_RANGE = ((cond &&& Gen.PyLoops.rangeFlagMask) != 0) := rfl

theorem rangeDecisionCond_eq_hand (itype : Str) (mn mx v : Option PVal) (cond : Nat) :
    Gen.PyLoops.rangeDecisionCond itype mn mx v cond =
      handDecision itype mn mx v (hasFlag cond SEL_IN_RANGE) := by
  rw [Gen.PyLoops.rangeDecisionCond, ← flag_eq, rangeDecision_eq_hand]

/-- Neither bound parses: `False` whatever the value and the condition (the early return). -/
theorem rangeDecision_no_bounds (itype : Str) (v : Option PVal) (inRange : Bool) :
    Gen.PyLoops.rangeDecision itype none none v inRange = false := by
  rw [rangeDecision_eq_hand]; rfl

/-- `matchRangeE` is its effectful prefix followed by `handDecision`. -/
theorem matchRangeE_hand (c : Ctx) (e : Elem) (cond : Nat) :
    matchRangeE c e cond = (do
      let itype ← lowerE ((c.attrByName e "type".toStr).getD (.str []))
      let mn ← parseValueE itype (c.attrByName e "min".toStr)
      let mx ← parseValueE itype (c.attrByName e "max".toStr)
      if mn.isNone && mx.isNone then return false
      let value ← parseValueE itype (c.attrByName e "value".toStr)
      return handDecision itype mn mx value (hasFlag cond SEL_IN_RANGE)) := by
  unfold matchRangeE handDecision
  cases lowerE ((c.attrByName e "type".toStr).getD (.str [])) with
  | error x => rfl
  | ok itype =>
    simp only [bind, Except.bind]
    cases parseValueE itype (c.attrByName e "min".toStr) with
    | error x => rfl
    | ok mn =>
      cases parseValueE itype (c.attrByName e "max".toStr) with
      | error x => rfl
      | ok mx =>
        cases hb : (mn.isNone && mx.isNone)
        · cases parseValueE itype (c.attrByName e "value".toStr) with
          | error x => simp only [hb, Bool.false_eq_true, if_false]
          | ok value => simp only [hb, Bool.false_eq_true, if_false]; rfl
        · simp [hb]

/-- **The matcher model's `match_range` is the attribute reads followed by the decision translated from the
    source**: the four attribute names, the flag mask and the whole decision come from `Generated/PyLoops.lean`. -/
theorem matchRangeE_gen (c : Ctx) (e : Elem) (cond : Nat) :
    matchRangeE c e cond = (do
      let itype ← lowerE ((c.attrByName e Gen.PyLoops.rangeAttrType).getD (.str []))
      let mn ← parseValueE itype (c.attrByName e Gen.PyLoops.rangeAttrMin)
      let mx ← parseValueE itype (c.attrByName e Gen.PyLoops.rangeAttrMax)
      if mn.isNone && mx.isNone then return Gen.PyLoops.rangeDecisionCond itype mn mx none cond
      let value ← parseValueE itype (c.attrByName e Gen.PyLoops.rangeAttrValue)
      return Gen.PyLoops.rangeDecisionCond itype mn mx value cond) := by
  rw [matchRangeE_hand]
  simp only [show Gen.PyLoops.rangeAttrType = "type".toStr from rfl,
    show Gen.PyLoops.rangeAttrMin = "min".toStr from rfl,
    show Gen.PyLoops.rangeAttrMax = "max".toStr from rfl,
    show Gen.PyLoops.rangeAttrValue = "value".toStr from rfl, rangeDecisionCond_eq_hand]
  cases lowerE ((c.attrByName e "type".toStr).getD (.str [])) with
  | error x => rfl
  | ok itype =>
    simp only [bind, Except.bind]
    cases parseValueE itype (c.attrByName e "min".toStr) with
    | error x => rfl
    | ok mn =>
      cases parseValueE itype (c.attrByName e "max".toStr) with
      | error x => rfl
      | ok mx =>
        cases hb : (mn.isNone && mx.isNone)
        · simp [hb]
        · simp [handDecision, hb]

/-- Hypothesis form (as `range_def`): when none of the four reads raises, the answer of `matchRangeE` is the
    generated decision on the four parsed values. -/
theorem matchRangeE_gen_ok (c : Ctx) (e : Elem) (cond : Nat) (itype : Str) (mn mx v : Option PVal)
    (hT : lowerE ((c.attrByName e Gen.PyLoops.rangeAttrType).getD (.str [])) = .ok itype)
    (hmn : parseValueE itype (c.attrByName e Gen.PyLoops.rangeAttrMin) = .ok mn)
    (hmx : parseValueE itype (c.attrByName e Gen.PyLoops.rangeAttrMax) = .ok mx)
    (hv : parseValueE itype (c.attrByName e Gen.PyLoops.rangeAttrValue) = .ok v) :
    matchRangeE c e cond = .ok (Gen.PyLoops.rangeDecisionCond itype mn mx v cond) := by
  rw [matchRangeE_gen]
  simp only [hT, hmn, hmx, hv, bind, Except.bind, pure, Except.pure]
  cases hb : (mn.isNone && mx.isNone)
  · rfl
  · have h1 : mn = none := by cases mn <;> simp_all
    have h2 : mx = none := by cases mx <;> simp_all
    subst h1 h2
    simp [Gen.PyLoops.rangeDecisionCond, rangeDecision_no_bounds]

/-! ## The C18 range theorems, about the generated decision -/

/-- `range_def` about the generated definition: `False` when neither bound parses; otherwise `:out-of-range`
    (`inRange = false`) holds exactly when the value is out of range in the sense of `Spec.OutOfRange`
    (wrap-around for `type=time` only) and `:in-range` is its negation.  `hk`: a parsed value exists only for
    `time` and the six linearly ordered types (`parseValue_some_known`; discharged in `range_def_gen_parsed`). -/
theorem range_def_gen (itype : Str) (mn mx v : Option PVal) (inRange : Bool)
    (hk : ∀ x, v = some x → (itype == "time".toStr) = true ∨
      (["date", "datetime-local", "month", "week", "number", "range"].any
        fun k => k.toStr == itype) = true) :
    Gen.PyLoops.rangeDecision itype mn mx v inRange = true ↔
      (mn.isSome ∨ mx.isSome) ∧
        (if inRange = true then ¬ Spec.OutOfRange ltV (itype = "time".toStr) mn mx v
         else Spec.OutOfRange ltV (itype = "time".toStr) mn mx v) := by
  rw [rangeDecision_eq_hand]
  unfold handDecision
  cases v with
  | none =>
    cases mn <;> cases mx <;> cases inRange <;> simp [Spec.OutOfRange]
  | some x =>
    have hk' := hk x rfl
    by_cases ht : (itype == "time".toStr) = true
    · have ht' : itype = "time".toStr := by simpa using ht
      cases mn with
      | none =>
        cases mx <;> cases inRange <;> simp [Spec.OutOfRange, ht, ltV]
      | some a =>
        cases mx with
        | none => cases inRange <;> simp [Spec.OutOfRange, ht, ltV]
        | some b =>
          by_cases hw : ltP b a = true
          · cases inRange <;> cases h1 : ltP x a <;> cases h2 : ltP b x <;>
              simp [Spec.OutOfRange, ht', ltV, hw, h1, h2]
          · cases inRange <;> cases h1 : ltP x a <;> cases h2 : ltP b x <;>
              simp [Spec.OutOfRange, ht', ltV, hw, h1, h2]
    · have hl := hk'.resolve_left ht
      have ht' : ¬ itype = "time".toStr := by simpa using ht
      cases mn <;> cases mx <;> cases inRange <;>
        simp [Spec.OutOfRange, ht, ht', ltV, hl]

/-- The same for the values `Inputs.parseValue` produces from three attribute strings (absent attribute = `none`). -/
theorem range_def_gen_parsed (itype : Str) (smn smx sv : Option Str) (inRange : Bool) :
    let mn := smn.bind (Inputs.parseValue itype)
    let mx := smx.bind (Inputs.parseValue itype)
    let v := sv.bind (Inputs.parseValue itype)
    Gen.PyLoops.rangeDecision itype mn mx v inRange = true ↔
      (mn.isSome ∨ mx.isSome) ∧
        (if inRange = true then ¬ Spec.OutOfRange ltV (itype = "time".toStr) mn mx v
         else Spec.OutOfRange ltV (itype = "time".toStr) mn mx v) := by
  intro mn mx v
  apply range_def_gen
  intro x hx
  cases sv with
  | none => exact absurd hx (by simp [v])
  | some s => exact parseValue_some_known itype s x hx

/-- An invalid or missing value is never out of range, and is in range as soon as a bound parses. -/
theorem range_missing_value_gen (itype : Str) (mn mx : Option PVal) (inRange : Bool) :
    Gen.PyLoops.rangeDecision itype mn mx none inRange = (inRange && (mn.isSome || mx.isSome)) := by
  rw [rangeDecision_eq_hand]
  cases mn <;> cases mx <;> cases inRange <;> rfl

/-- `range_time_wrap` about the generated definition: times of day with the minimum later than the maximum —
    `:out-of-range` exactly strictly between the maximum and the minimum (minutes since midnight),
    `:in-range` otherwise. -/
theorem range_time_wrap_gen (h1 i1 h2 i2 h i : Nat) (b1 : i1 ≤ 59) (b2 : i2 ≤ 59) (b : i ≤ 59)
    (hw : h2 * 60 + i2 < h1 * 60 + i1) (inRange : Bool) :
    Gen.PyLoops.rangeDecision "time".toStr
        (some (.ints [h1, i1])) (some (.ints [h2, i2])) (some (.ints [h, i])) inRange = true ↔
      (if inRange = true then ¬ (h2 * 60 + i2 < h * 60 + i ∧ h * 60 + i < h1 * 60 + i1)
       else (h2 * 60 + i2 < h * 60 + i ∧ h * 60 + i < h1 * 60 + i1)) := by
  rw [range_def_gen _ _ _ _ _ (fun _ _ => Or.inl rfl),
    range_time_wrap h1 i1 h2 i2 h i b1 b2 b hw]
  simp

/-- `range_time_plain` about the generated definition: minimum not later than the maximum — the ordinary interval. -/
theorem range_time_plain_gen (h1 i1 h2 i2 h i : Nat) (b1 : i1 ≤ 59) (b2 : i2 ≤ 59) (b : i ≤ 59)
    (hw : ¬ h2 * 60 + i2 < h1 * 60 + i1) (inRange : Bool) :
    Gen.PyLoops.rangeDecision "time".toStr
        (some (.ints [h1, i1])) (some (.ints [h2, i2])) (some (.ints [h, i])) inRange = true ↔
      (if inRange = true then ¬ (h * 60 + i < h1 * 60 + i1 ∨ h2 * 60 + i2 < h * 60 + i)
       else (h * 60 + i < h1 * 60 + i1 ∨ h2 * 60 + i2 < h * 60 + i)) := by
  rw [range_def_gen _ _ _ _ _ (fun _ _ => Or.inl rfl),
    range_time_plain h1 i1 h2 i2 h i b1 b2 b hw]
  simp

/-! ## Non-vacuity (kernel evaluation of the generated definition) -/

-- 23:00–02:00 wraps: 01:30 is in range, 12:00 is out of range; a date range never wraps
example : Gen.PyLoops.rangeDecision "time".toStr (some (.ints [23, 0])) (some (.ints [2, 0])) (some (.ints [1, 30])) true = true := by decide
example : Gen.PyLoops.rangeDecision "time".toStr (some (.ints [23, 0])) (some (.ints [2, 0])) (some (.ints [12, 0])) false = true := by decide
example : Gen.PyLoops.rangeDecision "date".toStr (some (.ints [2020, 1, 1])) none (some (.ints [2019, 12, 31])) false = true := by decide
example : Gen.PyLoops.rangeDecision "text".toStr (some (.ints [5])) none (some (.ints [1])) false = false := by decide
example : Gen.PyLoops.rangeDecisionCond "week".toStr none (some (.ints [2020, 10])) none 0x80 = true := by decide

end C18
end SoupVerif
