/-
  C06 (also used by C09 / C20) — the token dispatch, the flag prologue and the flag epilogue of
  `CSSParser.parse_selectors`, TIED TO THE SOURCE TEXT by translation + proof.

  `gen/gen_py_parsedisp.py` reads `parse_selectors` from css_parser.py with `ast` on every run and emits
  `Generated/PyParseDisp.lean`:
    `Gen.PyParseDisp.switches`   — the prologue `is_x = bool(flags & FLG_X)`          (switch, mask), source order
    `Gen.PyParseDisp.finalFlags` — the epilogue `if is_x: selectors[-1].flags = SEL_X` (switch, value), source order
    `Gen.PyParseDisp.dispatch`   — the `if key == … / elif key in (…)` chain           (keys, `ParseDisp.Action`)
  (everything else in the function is compared with templates by the translator, which fails closed).

  What is proved here about the hand-written model (`Model/Parser.lean` `parseSelectors` / `parseLoop`,
  `Model/ParserStep.lean` `stepOf` / `finalSels`, the objects of C06.lean, C09Compile.lean, C20Parse.lean):

  (a) `dispatch_keys`, `dispatch_keys_nodup`: the keys of the generated chain are exactly the token names of the
      regenerated lexicon `Gen.lexicon` (plain tokens and the sub-patterns of the special pseudo-class slot), each
      once: every token has exactly one branch and no branch is dead.  `token_name_mem`: every token the model
      tokenizer yields carries one of these names; `every_token_has_branch`.
  (b) `dispatch_agrees`: for EVERY string `key`, the generated chain selects the action the model performs,
      `actionOf Gen.PyParseDisp.dispatch key = modelAction key` (including: no branch ↦ no branch).
      `stepOf_eq_runAction`: the model's step function IS `runAction (modelAction tok.name)` — it factors through
      the dispatch table; `stepOf_gen`, `parseLoop_gen`: hence through the GENERATED table.
  (c) `switches_masks`, `finalFlags_values`: the generated tables carry the masks / values of `Generated/Tables.lean`,
      which are the ones the model uses (`tables_eq_model`); `switchOf_model`: each generated switch is the test the
      model makes; `finalSels_gen`: the model's epilogue is the generated table applied in source order, for all flags;
      `applyFinal_last` / `finalSels_result`: the resulting flag of the last selector for every combination of
      switches — the LAST row whose switch is on wins (`resultFlag_gen` spells the priority out).
      `parseSelectors_gen`: `parseSelectors` restated with the generated tables.
-/
import SoupVerif.Generated.PyParseDisp
import SoupVerif.Generated.Lexicon
import SoupVerif.Generated.Tables
import SoupVerif.Lemmas.ParserProgress.Step
namespace SoupVerif
namespace C06GenDispatch
open Rx SoupVerif.Parser SoupVerif.ParserProgress SoupVerif.ParseDisp

/-! ## (a) keys = token names of the regenerated lexicon -/

/-- The names a token of lexicon `L` can carry: the plain slots and the sub-patterns of the special slot. -/
def tokenNames (L : Lexicon) : List String :=
  (L.tokens.filter (fun e => !e.2)).map (·.1.name) ++ L.special.map (·.2.name)

theorem matchToken_name_mem (P : PEnv) (i : Nat) (t : Token) :
    ∀ l : List (TokenRx × Bool), matchToken P i l = some t →
      t.name ∈ (l.filter (fun e => !e.2)).map (·.1.name) ++ P.L.special.map (·.2.name) := by
  intro l
  induction l with
  | nil => intro h; simp [matchToken] at h
  | cons hd tl ih =>
    obtain ⟨r, sp⟩ := hd
    intro h
    have tl_sub : ∀ x, x ∈ (tl.filter (fun e => !e.2)).map (·.1.name) ++ P.L.special.map (·.2.name) →
        x ∈ (((r, sp) :: tl).filter (fun e => !e.2)).map (·.1.name) ++ P.L.special.map (·.2.name) := by
      intro x hx
      rcases List.mem_append.mp hx with hx | hx
      · refine List.mem_append_left _ ?_
        cases sp <;> simp [List.filter] <;> simp at hx <;> first | exact hx | exact Or.inr hx
      · exact List.mem_append_right _ hx
    unfold matchToken at h
    cases sp with
    | true =>
      simp only [if_true] at h
      split at h
      · split at h
        · rename_i nmS sub hfind
          split at h
          · simp only [Option.some.injEq] at h
            subst h
            refine List.mem_append_right _ ?_
            exact List.mem_map.mpr ⟨_, List.mem_of_find?_eq_some hfind, rfl⟩
          · exact tl_sub _ (ih h)
        · exact tl_sub _ (ih h)
      · exact tl_sub _ (ih h)
    | false =>
      simp only [Bool.false_eq_true, if_false] at h
      split at h
      · simp only [Option.some.injEq] at h
        subst h
        refine List.mem_append_left _ ?_
        simp [List.filter]
      · exact tl_sub _ (ih h)

/-- Every token the model tokenizer yields carries one of the lexicon's token names. -/
theorem token_name_mem (P : PEnv) (i : Nat) (t : Token) (h : nextToken P i = .ok (some t)) :
    t.name ∈ tokenNames P.L := by
  unfold nextToken at h
  split at h
  · cases h
  · split at h
    · cases h
    · split at h
      · rename_i t' hm
        have ht : t' = t := by cases h; rfl
        subst ht
        exact matchToken_name_mem P i t' _ hm
      · cases h

/-- The keys of the chain in the source are exactly the token names of the regenerated lexicon. -/
theorem dispatch_keys (k : String) :
    k ∈ keysOf Gen.PyParseDisp.dispatch ↔ k ∈ tokenNames Gen.lexicon := by
  have h1 : ∀ k ∈ keysOf Gen.PyParseDisp.dispatch, k ∈ tokenNames Gen.lexicon := by decide
  have h2 : ∀ k ∈ tokenNames Gen.lexicon, k ∈ keysOf Gen.PyParseDisp.dispatch := by decide
  exact ⟨h1 k, h2 k⟩

/-- … each exactly once: no key is shadowed by an earlier branch (no dead branch). -/
theorem dispatch_keys_nodup : (keysOf Gen.PyParseDisp.dispatch).Nodup := by decide

theorem actionOf_isSome_iff (table : List (List String × Action)) (key : String) :
    (actionOf table key).isSome ↔ key ∈ keysOf table := by
  unfold actionOf keysOf
  rw [Option.isSome_map, List.find?_isSome]
  simp only [List.mem_flatMap, List.contains_iff_mem]

theorem actionOf_eq_none_iff (table : List (List String × Action)) (key : String) :
    actionOf table key = none ↔ key ∉ keysOf table := by
  rw [← actionOf_isSome_iff]
  cases actionOf table key <;> simp

/-- Every token the tokenizer can yield (with the regenerated lexicon) has a branch in the source. -/
theorem every_token_has_branch (env : CharEnv) (B : Builtins) (pattern : Str) (i : Nat) (t : Token)
    (h : nextToken ⟨env, Gen.lexicon, B, pattern⟩ i = .ok (some t)) :
    (actionOf Gen.PyParseDisp.dispatch t.name).isSome := by
  rw [actionOf_isSome_iff, dispatch_keys]
  exact token_name_mem _ i t h

/-! ## (b) the generated chain selects what the model's step function does -/

theorem modelAction_none_of_not_mem (key : String) (h : key ∉ modelKeys) : modelAction key = none := by
  simp only [modelKeys, List.mem_cons, List.not_mem_nil, or_false, not_or] at h
  obtain ⟨h1, h2, h3, h4, h5, h6, h7, h8, h9, h10, h11, h12, h13, h14, h15, h16⟩ := h
  unfold modelAction
  simp [h1, h2, h3, h4, h5, h6, h7, h8, h9, h10, h11, h12, h13, h14, h15, h16]

/-- For every string: the branch the source takes for token `key` is the one the model takes. -/
theorem dispatch_agrees (key : String) : actionOf Gen.PyParseDisp.dispatch key = modelAction key := by
  have hin : ∀ k ∈ modelKeys, actionOf Gen.PyParseDisp.dispatch k = modelAction k := by decide
  have hsub : ∀ k ∈ keysOf Gen.PyParseDisp.dispatch, k ∈ modelKeys := by decide
  by_cases hk : key ∈ modelKeys
  · exact hin key hk
  · rw [modelAction_none_of_not_mem key hk, actionOf_eq_none_iff]
    exact fun h => hk (hsub key h)

theorem modelKeys_eq_tokenNames (k : String) : k ∈ modelKeys ↔ k ∈ tokenNames Gen.lexicon := by
  have h1 : ∀ k ∈ modelKeys, k ∈ tokenNames Gen.lexicon := by decide
  have h2 : ∀ k ∈ tokenNames Gen.lexicon, k ∈ modelKeys := by decide
  exact ⟨h1 k, h2 k⟩

macro "act_step" : tactic =>
  `(tactic| (rw [apply_ite (runAction _ _ _ _ _ _ _)]; refine ite_congr rfl (fun _ => ?_) (fun _ => ?_)))

/-- The model's step function factors through the dispatch table: one loop iteration is the meaning
    (`runAction`) of the action `modelAction` names for the token's key. -/
theorem stepOf_eq_runAction (env : CharEnv) (L : Lexicon) (B : Builtins) (pattern : Str) (flags : Nat) (s : LS) :
    stepOf env L B pattern flags s =
      match nextToken ⟨env, L, B, pattern⟩ s.pos with
      | .error e => .done (.error e)
      | .ok none => .done (.ok s)
      | .ok (some t) => runAction env L B pattern flags { s with pos := t.stop } t (modelAction t.name) := by
  unfold stepOf
  simp only []
  generalize nextToken ⟨env, L, B, pattern⟩ s.pos = nt
  rcases nt with e | (_ | t)
  · rfl
  · rfl
  · simp only [modelAction]
    act_step
    · simp [runAction, notImplementedKind, Offset.eval, *]
    act_step
    · rfl
    act_step
    · rfl
    act_step
    · rfl
    act_step
    · rename_i h1 _ _ _ _
      simp [runAction, notImplementedKind, Offset.eval, h1]
    act_step
    · rfl
    act_step
    · rfl
    act_step
    · rfl
    act_step
    · rfl
    act_step
    · rfl
    act_step
    · simp only [runAction, runCombinator]
      by_cases hr : ((flags &&& FLG_RELATIVE) != 0) = true
      · simp only [hr, if_true, Bool.true_and, beq_self_eq_true]
        generalize parseHasCombinator _ _ _ _ = r
        rcases r with e | s' <;> rfl
      · simp only [hr, if_false, Bool.false_and, Bool.not_false, Bool.true_and, beq_self_eq_true, Bool.false_eq_true, if_true]
        generalize parseCombinator _ _ _ _ _ _ = r
        rcases r with e | s' <;> rfl
    act_step
    · rfl
    act_step
    · rfl
    act_step
    · rfl
    · rfl

/-- … hence through the GENERATED table: one iteration of the model's loop is the meaning of the branch the
    SOURCE takes for this token. -/
theorem stepOf_gen (env : CharEnv) (L : Lexicon) (B : Builtins) (pattern : Str) (flags : Nat) (s : LS) :
    stepOf env L B pattern flags s =
      match nextToken ⟨env, L, B, pattern⟩ s.pos with
      | .error e => .done (.error e)
      | .ok none => .done (.ok s)
      | .ok (some t) =>
        runAction env L B pattern flags { s with pos := t.stop } t (actionOf Gen.PyParseDisp.dispatch t.name) := by
  rw [stepOf_eq_runAction]
  simp only [dispatch_agrees]

/-- The loop of the model (the object of C06 / C09Compile / C20Parse), restated over the generated chain. -/
theorem parseLoop_gen (env : CharEnv) (L : Lexicon) (B : Builtins) (pattern : Str) (fuel flags : Nat) (s : LS) :
    parseLoop env L B pattern (fuel + 1) flags s =
      match nextToken ⟨env, L, B, pattern⟩ s.pos with
      | .error e => .error e
      | .ok none => .ok s
      | .ok (some t) =>
        runStep (fun p => parseSelectors env L B p fuel) (parseLoop env L B pattern fuel flags)
          (runAction env L B pattern flags { s with pos := t.stop } t (actionOf Gen.PyParseDisp.dispatch t.name)) := by
  rw [parseLoop_succ, stepOf_gen]
  generalize nextToken ⟨env, L, B, pattern⟩ s.pos = nt
  rcases nt with e | (_ | t) <;> rfl

/-! ## (c) the flag prologue and epilogue -/

/-- The masks / values `gen_tables.py` reads from the live modules are the ones the model uses. -/
theorem tables_eq_model :
    Gen.FLG_OPEN = Parser.FLG_OPEN ∧ Gen.FLG_PSEUDO = Parser.FLG_PSEUDO ∧ Gen.FLG_RELATIVE = Parser.FLG_RELATIVE ∧
    Gen.FLG_NOT = Parser.FLG_NOT ∧ Gen.FLG_HTML = Parser.FLG_HTML ∧ Gen.FLG_DEFAULT = Parser.FLG_DEFAULT ∧
    Gen.FLG_INDETERMINATE = Parser.FLG_INDETERMINATE ∧ Gen.FLG_IN_RANGE = Parser.FLG_IN_RANGE ∧
    Gen.FLG_OUT_OF_RANGE = Parser.FLG_OUT_OF_RANGE ∧ Gen.FLG_PLACEHOLDER_SHOWN = Parser.FLG_PLACEHOLDER_SHOWN ∧
    Gen.FLG_FORGIVE = Parser.FLG_FORGIVE ∧
    Gen.gen_SEL_DEFAULT = SEL_DEFAULT ∧ Gen.gen_SEL_INDETERMINATE = SEL_INDETERMINATE ∧
    Gen.gen_SEL_IN_RANGE = SEL_IN_RANGE ∧ Gen.gen_SEL_OUT_OF_RANGE = SEL_OUT_OF_RANGE ∧
    Gen.gen_SEL_PLACEHOLDER_SHOWN = SEL_PLACEHOLDER_SHOWN ∧ Gen.gen_SEL_SCOPE = SEL_SCOPE := by decide

/-- The prologue of the source: each switch tests the mask of the same name, in this order. -/
theorem switches_masks : Gen.PyParseDisp.switches =
    [("is_open", Gen.FLG_OPEN), ("is_pseudo", Gen.FLG_PSEUDO), ("is_relative", Gen.FLG_RELATIVE), ("is_not", Gen.FLG_NOT),
     ("is_html", Gen.FLG_HTML), ("is_default", Gen.FLG_DEFAULT), ("is_indeterminate", Gen.FLG_INDETERMINATE),
     ("is_in_range", Gen.FLG_IN_RANGE), ("is_out_of_range", Gen.FLG_OUT_OF_RANGE),
     ("is_placeholder_shown", Gen.FLG_PLACEHOLDER_SHOWN), ("is_forgive", Gen.FLG_FORGIVE)] := by decide

/-- The epilogue of the source: which `SEL_` value each switch assigns, in this order. -/
theorem finalFlags_values : Gen.PyParseDisp.finalFlags =
    [("is_default", Gen.gen_SEL_DEFAULT), ("is_indeterminate", Gen.gen_SEL_INDETERMINATE), ("is_in_range", Gen.gen_SEL_IN_RANGE),
     ("is_out_of_range", Gen.gen_SEL_OUT_OF_RANGE), ("is_placeholder_shown", Gen.gen_SEL_PLACEHOLDER_SHOWN)] := by decide

/-- The flag the `amp` branch of the source sets is the model's. -/
theorem amp_sets_scope : actionOf Gen.PyParseDisp.dispatch "amp" = some (.setScope Gen.gen_SEL_SCOPE) := by decide

/-- Each switch of the source is the test the model makes (`has FLG_X` in `parseSelectors` / `parseLoop`). -/
theorem switchOf_model (flags : Nat) :
    let sw := switchOf Gen.PyParseDisp.switches flags
    sw "is_open" = ((flags &&& Parser.FLG_OPEN) != 0) ∧ sw "is_pseudo" = ((flags &&& Parser.FLG_PSEUDO) != 0) ∧
    sw "is_relative" = ((flags &&& Parser.FLG_RELATIVE) != 0) ∧ sw "is_not" = ((flags &&& Parser.FLG_NOT) != 0) ∧
    sw "is_html" = ((flags &&& Parser.FLG_HTML) != 0) ∧ sw "is_default" = ((flags &&& Parser.FLG_DEFAULT) != 0) ∧
    sw "is_indeterminate" = ((flags &&& Parser.FLG_INDETERMINATE) != 0) ∧
    sw "is_in_range" = ((flags &&& Parser.FLG_IN_RANGE) != 0) ∧
    sw "is_out_of_range" = ((flags &&& Parser.FLG_OUT_OF_RANGE) != 0) ∧
    sw "is_placeholder_shown" = ((flags &&& Parser.FLG_PLACEHOLDER_SHOWN) != 0) ∧
    sw "is_forgive" = ((flags &&& Parser.FLG_FORGIVE) != 0) := by
  refine ⟨?_, ?_, ?_, ?_, ?_, ?_, ?_, ?_, ?_, ?_, ?_⟩ <;> rfl

/-- The model's epilogue is the generated table applied in source order — for ALL flags (every combination of
    switches) and all selector lists. -/
theorem finalSels_gen (flags : Nat) (sels : List SelB) :
    finalSels flags sels =
      applyFinal Gen.PyParseDisp.finalFlags (switchOf Gen.PyParseDisp.switches flags) sels := by
  obtain ⟨-, -, -, -, -, h1, h2, h3, h4, h5, -⟩ := switchOf_model flags
  simp only [applyFinal, Gen.PyParseDisp.finalFlags, List.foldl_cons, List.foldl_nil, h1, h2, h3, h4, h5]
  rfl

/-- The flag a table assigns: the value of the LAST row whose switch is on (later assignments overwrite). -/
def resultFlag (final : List (String × Nat)) (sw : String → Bool) : Option Nat :=
  ((final.filter (fun e => sw e.1)).getLast?).map (·.2)

theorem modifyLast_snoc (init : List SelB) (x : SelB) (f : SelB → SelB) :
    modifyLast (init ++ [x]) f = init ++ [f x] := by
  simp [modifyLast, List.reverse_append]

theorem setFlags_setFlags (a b : Nat) (x : SelB) : (x.setFlags a).setFlags b = x.setFlags b := by
  cases x; rfl

theorem resultFlag_cons (e : String × Nat) (rest : List (String × Nat)) (sw : String → Bool) :
    resultFlag (e :: rest) sw =
      match resultFlag rest sw with
      | some v => some v
      | none => if sw e.1 then some e.2 else none := by
  unfold resultFlag
  rw [List.filter_cons]
  generalize rest.filter (fun e => sw e.1) = F
  by_cases he : sw e.1 = true
  · rw [if_pos he]
    cases F with
    | nil => simp [he]
    | cons y ys =>
      rw [List.getLast?_cons_cons]
      cases hz : (y :: ys).getLast? with
      | none => simp at hz
      | some z => rfl
  · rw [if_neg he]
    cases F.getLast? <;> simp [he]

/-- The resulting flag of the last selector, for any table, any combination of switches. -/
theorem applyFinal_last (final : List (String × Nat)) (sw : String → Bool) (init : List SelB) (x : SelB) :
    applyFinal final sw (init ++ [x]) =
      init ++ [match resultFlag final sw with
               | some v => x.setFlags v
               | none => x] := by
  induction final generalizing x with
  | nil => simp [applyFinal, resultFlag]
  | cons e rest ih =>
    have hstep : applyFinal (e :: rest) sw (init ++ [x]) =
        applyFinal rest sw (init ++ [if sw e.1 then x.setFlags e.2 else x]) := by
      simp only [applyFinal, List.foldl_cons]
      by_cases he : sw e.1 = true
      · simp only [he, if_true, modifyLast_snoc]
      · simp only [he, if_false, Bool.false_eq_true]
    rw [hstep, ih, resultFlag_cons]
    cases resultFlag rest sw with
    | some v =>
      by_cases he : sw e.1 = true
      · simp only [he, if_true, setFlags_setFlags]
      · simp only [he, if_false, Bool.false_eq_true]
    | none =>
      by_cases he : sw e.1 = true
      · simp only [he, if_true]
      · simp only [he, if_false, Bool.false_eq_true]

/-- The priority the source order of the epilogue gives, spelled out: the last statement wins. -/
theorem resultFlag_gen (sw : String → Bool) :
    resultFlag Gen.PyParseDisp.finalFlags sw =
      if sw "is_placeholder_shown" then some SEL_PLACEHOLDER_SHOWN
      else if sw "is_out_of_range" then some SEL_OUT_OF_RANGE
      else if sw "is_in_range" then some SEL_IN_RANGE
      else if sw "is_indeterminate" then some SEL_INDETERMINATE
      else if sw "is_default" then some SEL_DEFAULT
      else none := by
  simp only [resultFlag, Gen.PyParseDisp.finalFlags, List.filter_cons, List.filter_nil]
  generalize sw "is_placeholder_shown" = b5
  generalize sw "is_out_of_range" = b4
  generalize sw "is_in_range" = b3
  generalize sw "is_indeterminate" = b2
  generalize sw "is_default" = b1
  cases b1 <;> cases b2 <;> cases b3 <;> cases b4 <;> cases b5 <;> rfl

/-- The model's epilogue on a non-empty list, for every combination of switches. -/
theorem finalSels_result (flags : Nat) (init : List SelB) (x : SelB) :
    finalSels flags (init ++ [x]) =
      init ++ [match resultFlag Gen.PyParseDisp.finalFlags (switchOf Gen.PyParseDisp.switches flags) with
               | some v => x.setFlags v
               | none => x] := by
  rw [finalSels_gen, applyFinal_last]

/-- `parseSelectors` (the object of C06 / C09Compile / C20Parse) with its epilogue restated over the generated tables. -/
theorem parseSelectors_gen (env : CharEnv) (L : Lexicon) (B : Builtins) (pattern : Str)
    (fuel pos index flags : Nat) (custom : Custom) :
    let sw := switchOf Gen.PyParseDisp.switches flags
    parseSelectors env L B pattern (fuel + 1) pos index flags custom =
      match parseLoop env L B pattern fuel flags (initLS pos index flags custom) with
      | .error e => .error e
      | .ok s =>
        let P : PEnv := ⟨env, L, B, pattern⟩
        if sw "is_open" && !s.closed then .error (P.err .unclosedPseudo s.index)
        else
          let s' := cleanupLS flags s
          if !s'.hasSelector then .error (P.err .expectedSelector s'.index)
          else .ok (.mk ((applyFinal Gen.PyParseDisp.finalFlags sw s'.selectors).map SelB.freeze) (sw "is_not") s'.isHtml,
                    s'.pos, s'.custom) := by
  intro sw
  obtain ⟨h1, -, -, h4, -, -, -, -, -, -, -⟩ := switchOf_model flags
  rw [parseSelectors_succ]
  cases parseLoop env L B pattern fuel flags (initLS pos index flags custom) with
  | error e => rfl
  | ok s =>
    simp only [finishSel, finalSels_gen]
    rw [show sw "is_open" = ((flags &&& Parser.FLG_OPEN) != 0) from h1,
        show sw "is_not" = ((flags &&& Parser.FLG_NOT) != 0) from h4]

end C06GenDispatch
end SoupVerif
