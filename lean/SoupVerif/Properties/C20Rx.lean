/-
  C20 at the level of the regular expressions of the SOURCE.

  `Properties/C20.lean` proves line / column / context of `get_pattern_context` and termination and
  round trip of the debug pretty-printer for hand-written scanners (`Context.splitLines`, the fifteen token
  scanners of `Model/Pretty.lean`).  `Refine/Context.lean` and `Refine/Pretty.lean` prove, for ALL strings and
  positions, that these scanners are exactly `finditer` / `match` of the regex-engine model on the
  expressions REGENERATED from `util.py` and `pretty.py` (`Gen.util_RE_PATTERN_LINE_SPLIT`,
  `Gen.pretty_RE_*`).  Composed here: the C20 statements about the regexes the code compiles.
-/
import SoupVerif.Properties.C20
import SoupVerif.Refine.Context
import SoupVerif.Refine.Pretty
namespace SoupVerif
namespace C20Rx
open Context

/-- `get_pattern_context` with the line matches computed by `finditer` of the engine on the regenerated
    `RE_PATTERN_LINE_SPLIT`. -/
def getPatternContextRx (env : CharEnv) (pattern : Str) (index : Nat) : Str × Nat × Nat :=
  let ms := Refine.Context.withLast 0 (Refine.Context.finditer env Gen.util_RE_PATTERN_LINE_SPLIT pattern)
  let st := ms.foldl (Context.step pattern index) LoopState.init
  (st.text.flatten, st.line, st.col)

theorem getPatternContextRx_eq (env : CharEnv) (p : Str) (i : Nat) :
    getPatternContextRx env p i = getPatternContext p i := by
  unfold getPatternContextRx getPatternContext
  rw [← Refine.Context.splitLines_eq_withLast_finditer env p]

/-- line = 1 + number of line breaks (`\n`, `\r\n`, `\r`) that end at or before the offset. -/
theorem ctx_line_rx (env : CharEnv) (p : Str) (i : Nat) (hi : i ≤ p.length) :
    (getPatternContextRx env p i).2.1 = 1 + Spec.Ctx.breaksBefore p i := by
  rw [getPatternContextRx_eq]; exact C20.ctx_line p i hi

/-- column = offset within that line + 1. -/
theorem ctx_col_rx (env : CharEnv) (p : Str) (i : Nat) (hi : i ≤ p.length) :
    (getPatternContextRx env p i).2.2 = i - Spec.Ctx.lineStart p i + 1 := by
  rw [getPatternContextRx_eq]; exact C20.ctx_col p i hi

/-- the context reproduces the pattern's lines with the caret under that column. -/
theorem ctx_text_rx (env : CharEnv) (p : Str) (i : Nat) (hi : i ≤ p.length) :
    (getPatternContextRx env p i).1 = Spec.Ctx.expectedContext p i := by
  rw [getPatternContextRx_eq]; exact C20.ctx_text p i hi

/-- The token dispatch of `pretty()` — `for k, v in TOKENS.items(): m = v.match(sel, index)` — run with the
    engine on the regenerated regexes, in dictionary order, is the model's `firstMatch` (the driver's
    instance: Python's IGNORECASE folding and Unicode `\d`). -/
theorem pretty_dispatch_rx (s : Str) (i : Nat) :
    Pretty.firstMatch Pretty.pyEnv s i =
      PrettyRefine.tokenTable.findSome?
        (fun kr => (Rx.matchAt PrettyRefine.pyFoldEnvNd kr.2 s i).map (fun r => (kr.1, r.1))) :=
  PrettyRefine.firstMatch_refine_py s i

example : getPatternContextRx asciiEnv "a,\r\n,b".toStr 4 = getPatternContext "a,\r\n,b".toStr 4 := by
  decide +kernel

end C20Rx
end SoupVerif
