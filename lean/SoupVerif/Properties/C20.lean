/-
  C20  Error positions and the debug pretty-printer.

  Part A  `util.get_pattern_context` (line / col / context of every `SelectorSyntaxError`)
    Model : `Context.splitLines`, `Context.step`, `Context.getPatternContext`  (Model/Context.lean)
    Spec  : `Spec.Ctx.breakEnds`, `breaksBefore` (and the direct recursion `breaksBeforeRec`),
            `lineStart`, `lines`, `numLines`, `inCrLf`, `render`, `expectedContext`
                                                                              (Spec/Context.lean)
    All theorems hold for EVERY pattern `p : Str` and EVERY offset `i ≤ p.length`, the offset at
    the very end included (`ctx_end_offset`).

    The one place where the code is NOT "caret under column `col`" is stated in the theorems,
    not hidden: when `i` points at the `\n` of a `\r\n` pair, the offset still belongs to the
    line which that pair ends (`ctx_crlf`: same line as the `\r`, column one more), and the
    caret stands ONE COLUMN TO THE LEFT of column `col` (`ctx_text`, `ctx_caret`: the
    `- (if inCrLf p i then 1 else 0)` term).

  Part B  `pretty.pretty`
    Model : `Pretty.PrettyEnv`, the fifteen scanners, `Pretty.tokens`, `Pretty.firstMatch`,
            `Pretty.tokenOutput`, `Pretty.prettyLoop`, `Pretty.pretty`        (Model/Pretty.lean)
    Spec  : `Spec.stripWs`                                                    (Spec/Pretty.lean)
    `prettyLoop` is defined by well-founded recursion on `len(sel) - index` without fuel; that
    the definition is accepted IS the termination proof, its content is `pretty_tokens_advance`
    / `pretty_measure_decreases`; `pretty_terminates` states the loop equations that the total
    function satisfies.  `pretty_roundtrip` holds for every environment in which the two
    characters the printer inserts (space, newline) are `\s`.

  Nothing in this file is partial.
-/
import SoupVerif.Lemmas.Context
import SoupVerif.Lemmas.Pretty
namespace SoupVerif
namespace C20
open Context Pretty Spec Spec.Ctx CtxLemmas PrettyLemmas

/-! ## Part A: line, column -/

/-- The reported line is one more than the number of line-break units (`\r\n` as one unit, lone
    `\n`, lone `\r`) that end at or before the offset. -/
theorem ctx_line (p : Str) (i : Nat) (hi : i ≤ p.length) :
    (getPatternContext p i).2.1 = 1 + breaksBefore p i := by
  by_cases hb : breakEnds p = []
  · rw [gpc_single p i hb]; simp [breaksBefore, hb]
  · rw [gpc_multi p i hi hb]

/-- `breaksBefore` (a count over the list of break-unit end offsets) is the direct left-to-right
    recursive count. -/
theorem breaksBefore_rec (p : Str) (i : Nat) : breaksBefore p i = breaksBeforeRec p i :=
  breaksBefore_eq_rec p i

/-- `ctx_line` with the direct recursive count. -/
theorem ctx_line_rec (p : Str) (i : Nat) (hi : i ≤ p.length) :
    (getPatternContext p i).2.1 = 1 + breaksBeforeRec p i := by
  rw [ctx_line p i hi, breaksBefore_eq_rec]

/-- The reported column is the offset within the line, plus one. -/
theorem ctx_col (p : Str) (i : Nat) (hi : i ≤ p.length) :
    (getPatternContext p i).2.2 = i - lineStart p i + 1 := by
  by_cases hb : breakEnds p = []
  · rw [gpc_single p i hb]; simp [lineStart, hb]
  · rw [gpc_multi p i hi hb]

/-- The subtraction in `ctx_col` does not truncate: the line starts at or before the offset. -/
theorem ctx_lineStart_le (p : Str) (i : Nat) : lineStart p i ≤ i := lineStart_le p i

/-- Line start plus (column - 1) is the offset: line/column identify a position in the pattern. -/
theorem ctx_position (p : Str) (i : Nat) (hi : i ≤ p.length) :
    lineStart p i + ((getPatternContext p i).2.2 - 1) = i ∧ i ≤ p.length := by
  have := lineStart_le p i
  rw [ctx_col p i hi]; omega

theorem ctx_col_pos (p : Str) (i : Nat) (hi : i ≤ p.length) :
    1 ≤ (getPatternContext p i).2.2 := by
  rw [ctx_col p i hi]; omega

theorem ctx_line_pos (p : Str) (i : Nat) (hi : i ≤ p.length) :
    1 ≤ (getPatternContext p i).2.1 := by
  rw [ctx_line p i hi]; omega

/-- The reported line is one of the pattern's lines. -/
theorem ctx_line_le (p : Str) (i : Nat) (hi : i ≤ p.length) :
    (getPatternContext p i).2.1 ≤ numLines p := by
  rw [ctx_line p i hi, numLines_eq, breaksBefore]
  have := List.length_filter_le (· ≤ i) (breakEnds p)
  omega

/-- What happens when the offset points at the `\n` of a `\r\n` pair: that pair ends at `i + 1`,
    no break unit ends at `i`, so the offset is on the SAME line as the `\r` before it, one
    column further. -/
theorem ctx_crlf (p : Str) (i : Nat) (hi : i ≤ p.length) (hc : inCrLf p i = true) :
    i ∉ breakEnds p ∧ i + 1 ∈ breakEnds p ∧
    (getPatternContext p i).2.1 = (getPatternContext p (i - 1)).2.1 ∧
    (getPatternContext p i).2.2 = (getPatternContext p (i - 1)).2.2 + 1 := by
  rw [← inner_splitLines] at hc
  have hpos := (splitLines_chain p).inner_pos hc
  obtain ⟨h1, h2⟩ := (splitLines_chain p).inner_ends hc
  have hf := filter_le_pred h1
  have hls : lineStart p i = lineStart p (i - 1) := by unfold lineStart; rw [hf]
  have hle := lineStart_le p (i - 1)
  refine ⟨h1, h2, ?_, ?_⟩
  · rw [ctx_line p i hi, ctx_line p (i - 1) (by omega)]
    unfold breaksBefore; rw [hf]
  · rw [ctx_col p i hi, ctx_col p (i - 1) (by omega), hls]; omega

/-! ## Part A: the context block -/

/-- The context is the block the property describes (`Spec.Ctx.expectedContext`): the pattern's
    lines without their line-break units, joined by `\n`; the line of the offset prefixed by
    `--> ` and every other line by four spaces (no prefix at all when the pattern has a single
    line); after the marked line one extra line of spaces and `^`.  The caret stands after
    `4 + col - 1` spaces (`col - 1` in the single-line case), i.e. under column `col` of the
    marked line -- EXCEPT when the offset points at the `\n` of a `\r\n` pair, where it stands
    one column to the left (`4 + col - 1 - 1` spaces). -/
theorem ctx_text (p : Str) (i : Nat) (hi : i ≤ p.length) :
    (getPatternContext p i).1 = expectedContext p i := by
  unfold expectedContext
  by_cases hb : breakEnds p = []
  · have h1 : numLines p = 1 := by rw [numLines_eq, hb]; rfl
    rw [gpc_single p i hb]
    simp [h1, lineStart, hb]
  · have h1 : numLines p ≠ 1 := by
      rw [numLines_eq]
      cases h : breakEnds p with
      | nil => exact absurd h hb
      | cons a b => simp
    rw [gpc_multi p i hi hb]
    simp only [h1, if_false]
    have e : ∀ x : Nat, 4 + (i - lineStart p i + 1) - 1 - x = i - lineStart p i + 1 + 3 - x := by
      intro x; omega
    rw [e]

/-- `ctx_text` spelled out, single-line pattern (no line break at all): the pattern, a newline,
    `col - 1` spaces, `^`; line 1. -/
theorem ctx_single (p : Str) (i : Nat) (hb : breakEnds p = []) :
    getPatternContext p i = (p ++ [10] ++ caretLine i, 1, i + 1) :=
  gpc_single p i hb

/-- `ctx_text` spelled out, pattern with a line break: the marked line is line number
    `breaksBefore p i` (0-based) of `lines p`, and the caret line has `4 + col - 1` spaces, one
    less at the `\n` of a `\r\n` pair. -/
theorem ctx_caret (p : Str) (i : Nat) (hi : i ≤ p.length) (hb : breakEnds p ≠ []) :
    getPatternContext p i =
      (joinWith [10] (render
          (caretLine (4 + (i - lineStart p i + 1) - 1 - (if inCrLf p i then 1 else 0)))
          (breaksBefore p i) (lines p)),
        1 + breaksBefore p i, i - lineStart p i + 1) := by
  rw [gpc_multi p i hi hb]
  have e : ∀ x : Nat, 4 + (i - lineStart p i + 1) - 1 - x = i - lineStart p i + 1 + 3 - x := by
    intro x; omega
  rw [e]

/-- The marked line exists: `render` marks line `breaksBefore p i`, which is `< numLines p`. -/
theorem ctx_marked_exists (p : Str) (i : Nat) : breaksBefore p i < (lines p).length := by
  have := numLines_eq p
  unfold numLines at this
  rw [this, breaksBefore]
  have := List.length_filter_le (· ≤ i) (breakEnds p)
  omega

/-- The offset at the very end of the pattern (the defect: it used to give line 1, column 1 and
    no caret).  It is on the LAST line, its column is the length of the last line plus one, it is
    never inside a `\r\n` pair, and the context is the regular block with the caret under that
    column. -/
theorem ctx_end_offset (p : Str) :
    getPatternContext p p.length =
      (expectedContext p p.length, numLines p, p.length - lineStart p p.length + 1) ∧
    inCrLf p p.length = false := by
  have hi : p.length ≤ p.length := Nat.le_refl _
  have hbb : breaksBefore p p.length = (breakEnds p).length := by
    unfold breaksBefore
    rw [List.filter_eq_self.mpr]
    intro x hx
    simpa using (splitLines_chain p).ends_le x hx
  refine ⟨?_, by simp [inCrLf]⟩
  have h1 := ctx_text p p.length hi
  have h2 := ctx_line p p.length hi
  have h3 := ctx_col p p.length hi
  rw [hbb, Nat.add_comm, ← numLines_eq] at h2
  rw [← h1, ← h2, ← h3]

/-! ### Part A: concrete instances (non-vacuity) -/

/-- `get_pattern_context('ab\ncd', 5)`: end of a two-line pattern -> line 2, column 3,
    caret under column 3 of `--> cd`. -/
example : getPatternContext [97, 98, 10, 99, 100] 5 =
    ([32, 32, 32, 32, 97, 98, 10, 45, 45, 62, 32, 99, 100, 10, 32, 32, 32, 32, 32, 32, 94],
      2, 3) := by decide
example : breaksBefore [97, 98, 10, 99, 100] 5 = 1 ∧ lineStart [97, 98, 10, 99, 100] 5 = 3 ∧
    numLines [97, 98, 10, 99, 100] = 2 ∧
    expectedContext [97, 98, 10, 99, 100] 5 =
      [32, 32, 32, 32, 97, 98, 10, 45, 45, 62, 32, 99, 100, 10, 32, 32, 32, 32, 32, 32, 94] := by
  decide
/-- End offset right after a trailing line break: the (empty) last line is marked. -/
example : getPatternContext [97, 10] 2 =
    ([32, 32, 32, 32, 97, 10, 45, 45, 62, 32, 10, 32, 32, 32, 32, 94], 2, 1) := by decide
/-- `ab\r\ncd`, offset 3 = the `\n` of the pair: still line 1, column 4, caret one to the left
    (under column 3, i.e. after `4 + 4 - 1 - 1 = 6` spaces); offset 2 = the `\r`: column 3. -/
example : inCrLf [97, 98, 13, 10, 99, 100] 3 = true ∧
    getPatternContext [97, 98, 13, 10, 99, 100] 3 =
      ([45, 45, 62, 32, 97, 98, 10, 32, 32, 32, 32, 32, 32, 94, 10, 32, 32, 32, 32, 99, 100],
        1, 4) ∧
    getPatternContext [97, 98, 13, 10, 99, 100] 2 =
      ([45, 45, 62, 32, 97, 98, 10, 32, 32, 32, 32, 32, 32, 94, 10, 32, 32, 32, 32, 99, 100],
        1, 3) := by decide
/-- Lone `\r` is a line break of its own; single-line pattern and empty pattern. -/
example : getPatternContext [97, 13, 98] 2 =
    ([32, 32, 32, 32, 97, 10, 45, 45, 62, 32, 98, 10, 32, 32, 32, 32, 94], 2, 1) := by decide
example : getPatternContext [97, 98, 99] 3 = ([97, 98, 99, 10, 32, 32, 32, 94], 1, 4) := by decide
example : getPatternContext [] 0 = ([10, 94], 1, 1) := by decide
example : breakEnds [97, 13, 10, 13, 10, 10, 13] = [3, 5, 6, 7] ∧
    lines [97, 13, 10, 13, 10, 10, 13] = [[97], [], [], [], []] ∧
    splitLines [97, 13, 10, 13] = [(0, 1, 3), (3, 3, 4), (4, 4, 4)] := by decide

/-! ## Part B: termination -/

/-- Every one of the fifteen token regexes consumes at least one character. -/
theorem pretty_tokens_advance (env : PrettyEnv) :
    ∀ tok ∈ tokens, ∀ (s : Str) (i j : Nat), tok.scan env s i = some j → i < j :=
  tokens_advance env

/-- The measure `len(sel) - index` of the `while` loop strictly decreases in every iteration:
    by a token match (first part) and by the pass-through branch (second part). -/
theorem pretty_measure_decreases (env : PrettyEnv) (s : Str) (i : Nat) (h : i < s.length) :
    (∀ name j, firstMatch env s i = some (name, j) → s.length - j < s.length - i) ∧
    s.length - (i + 1) < s.length - i := by
  refine ⟨fun name j hm => ?_, by omega⟩
  have := firstMatch_advance hm
  omega

/-- `prettyLoop` is a total function (accepted by well-founded recursion on
    `len(sel) - index`, no fuel) that satisfies the equations of the Python loop: stop when
    `index > end`; on a token match append the token's piece and continue at `m.end(0)` with the
    new indent; otherwise copy one character and continue at `index + 1`. -/
theorem pretty_terminates (env : PrettyEnv) (s : Str) (i : Nat) (indent : Int) :
    (¬ i < s.length → prettyLoop env s i indent = []) ∧
    (∀ name j, i < s.length → firstMatch env s i = some (name, j) →
      prettyLoop env s i indent =
        (tokenOutput name (Pretty.slice s i j) indent).1 ++
          prettyLoop env s j (tokenOutput name (Pretty.slice s i j) indent).2) ∧
    (∀ h : i < s.length, firstMatch env s i = none →
      prettyLoop env s i indent = s[i] :: prettyLoop env s (i + 1) indent) :=
  ⟨prettyLoop_done env s i indent,
   fun name j h hm => prettyLoop_tok env s i indent name j h hm,
   fun h hm => prettyLoop_fallback env s i indent h hm⟩

/-! ## Part B: the output is the input up to whitespace -/

/-- Per token: the piece appended to `output` and the consumed text `sel[index:m.end(0)]` are
    equal once whitespace is deleted. -/
theorem pretty_piece_ws (env : PrettyEnv)
    (hws : env.isSpace 32 = true ∧ env.isSpace 10 = true)
    (s : Str) (i : Nat) (name : TokKind) (j : Nat) (indent : Int)
    (hm : firstMatch env s i = some (name, j)) :
    stripWs env (tokenOutput name (Pretty.slice s i j) indent).1
      = stripWs env (Pretty.slice s i j) :=
  firstMatch_ws hws.1 hws.2 indent hm

/-- Deleting whitespace from `pretty(sel)` gives `sel` with its whitespace deleted, for every
    string `sel` (in particular for the `repr` of every compiled selector) and every environment
    whose `\s` contains the two characters the printer inserts. -/
theorem pretty_roundtrip (env : PrettyEnv) (s : Str)
    (hws : env.isSpace 32 = true ∧ env.isSpace 10 = true) :
    stripWs env (pretty env s) = stripWs env s := by
  have := prettyLoop_ws hws.1 hws.2 s 0 0
  simpa [pretty] using this

/-! ### Part B: concrete instances (non-vacuity) -/

/-- The hypothesis of `pretty_roundtrip` holds for both shipped environments. -/
example : (asciiEnv.isSpace 32 = true ∧ asciiEnv.isSpace 10 = true) ∧
    (pyEnv.isSpace 32 = true ∧ pyEnv.isSpace 10 = true) := by decide

/-- Some token matches (`pretty_tokens_advance` is not vacuous), in dictionary order. -/
example : firstMatch asciiEnv [97, 98, 40, 49, 44, 32, 120, 41] 0 = some (.cls, 3) ∧
    firstMatch asciiEnv [97, 98, 40, 49, 44, 32, 120, 41] 3 = some (.int, 4) ∧
    firstMatch asciiEnv [97, 98, 40, 49, 44, 32, 120, 41] 4 = some (.sep, 6) ∧
    firstMatch asciiEnv [97, 98, 40, 49, 44, 32, 120, 41] 6 = none ∧
    firstMatch asciiEnv [97, 98, 40, 49, 44, 32, 120, 41] 7 = some (.tend, 8) := by decide

/-- `pretty('ab(1, x)') == 'ab(\n    1,\n    x)'`: a class token, an int, a separator, the
    pass-through branch (`x` alone is no token) and a closing token. -/
theorem pretty_example :
    pretty asciiEnv [97, 98, 40, 49, 44, 32, 120, 41] =
      [97, 98, 40, 10, 32, 32, 32, 32, 49, 44, 10, 32, 32, 32, 32, 120, 41] := by
  unfold pretty
  rw [prettyLoop_tok _ _ 0 _ .cls 3 (by decide) (by decide)]
  rw [prettyLoop_tok _ _ 3 _ .int 4 (by decide) (by decide)]
  rw [prettyLoop_tok _ _ 4 _ .sep 6 (by decide) (by decide)]
  rw [prettyLoop_fallback _ _ 6 _ (by decide) (by decide)]
  rw [prettyLoop_tok _ _ 7 _ .tend 8 (by decide) (by decide)]
  rw [prettyLoop_done _ _ 8 _ (by decide)]
  decide

example : stripWs asciiEnv [97, 98, 40, 10, 32, 32, 32, 32, 49, 44, 10, 32, 32, 32, 32, 120, 41]
    = stripWs asciiEnv [97, 98, 40, 49, 44, 32, 120, 41] := by decide

end C20
end SoupVerif
