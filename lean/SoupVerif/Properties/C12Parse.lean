/-
  C12, tied to the PARSER by proof: namespace selectors from the selector TEXT.

  `Properties/C12.lean` proves what the matcher model does with an IR tag / attribute record that carries a
  prefix.  `Properties/C09Compile2.lean` proves which IR the parser model builds from the text of a selector
  in any spelling (`compile_eq_denote2_plain`).  This file composes the two for the compounds

      ( ns|E | *|E | |E | E )?  ( [ns|a …] | [*|a …] | [|a …] | [a …] )*        E a name or `*`,  … = (op value flag)?

  (at least one of the parts present), in EVERY spelling (escapes in identifiers, either kind of quotes or a
  bare identifier for the value, gaps and comments inside the brackets and around the compound, any letter
  case of the flag):

    * `matchText c text l`    the text → parser → matcher composition on one element (`SoupSieve.match` is
                              `matchTextApi`);
    * `compound_text`         the general theorem: the parser accepts, and the matcher accepts the element `e`
                              iff `e` is not the document object ∧ `TagCond` ∧ every attribute selector
                              `AttrHolds`;
    * `type_text`, `ns_type_text` (`ns|E`), `any_type_text` (`*|E`), `none_type_text` (`|E`),
      `bare_type_text` (`E`), `any_universal_text` (`*|*`);
    * `attr_text`, `attr_ns_text` (`[ns|a …]`, `ns ↦ u ≠ ''`), `attr_ns_unmapped_text`, `attr_ns_empty_text`
      (`ns ↦ ''`), `attr_any_text` (`[*|a …]`), `attr_none_text` (`[|a …]`), `attr_bare_text` (`[a …]`),
      `attr_no_ns_support_text` (documents without namespace support), each with an optional type selector
      in front and with or without a value test.

  The right-hand sides mention the tree (`uri c e` = the element's namespace URI, `e.name`, the attributes'
  `kns` / `kname` / `key` / `val`), the caller's map (`c.nsGet`) and the VALUES of the selector (prefix value,
  name value, `testOf`: operator, value, flag) — never the prefix text of the document, never the spelling.

  HOW.  `Refine/NsParseBase.lean`: `compile_one` (`compile_eq_denote2_plain` on a one-compound list;
  `denote_one` computes `denote`), `applyAttr_mkB` (`parse_attribute_selector` with a prefix builds
  `Css.compileAttr ns name test`), `denote_tag_ns` / `denote_attr_ns` (`denote` on the one-compound lists, as
  stand-alone statements), `matchEl_mkB`, `partsOk_attr` (the matcher
  on it is `Css.satAttr`, through `C01Attr.attrPattern_sem` for the value test).  Here: `applyItems_attrs`
  (`denote` of a compound with any number of attribute selectors), then the C12 theorems:
  `matchNamespace_iff` (`ns_default`, `ns_none`, `ns_any`, `ns_prefix`), `values_eq_designated`
  (`attr_no_ns_support_values`, `attr_bare_values`, `attr_any_values`, `attr_ns_unmapped_values`,
  `attr_ns_empty_values`, `attr_ns_values`), `satAttr_iff`.

  Hypotheses, all explicit: the side conditions of `C09Compile2` (`….ok g₂`, gaps, no NUL in the text);
  `hfold`: a case-INSENSITIVE value test (flag `i`, or the `type` attribute of a non-XML document) needs a
  matcher environment that folds ASCII (`c.env.fold = lowerCp`, true of the driver's `asciiEnv`);
  per form: namespace support, what the map says about the prefix VALUE.

  Things the statements make visible (all confirmed on the real library):
    * an attribute selector WITHOUT a type selector carries the implied `*`, which is subject to the default
      namespace (`TagCond c e none`): `[a]` under a map with a `''` entry matches only elements in that
      namespace;
    * the prefix is compared by VALUE: `\*|E` is `*|E` (an identifier spelling of `*`), hence the
      hypothesis `valueOf f ≠ "*"` of the `ns|…` forms;
    * `[ns|a!=v]` with an unmapped `ns` holds of every element (no attribute is designated).
  No mismatch between what `denote` builds and what the C12 theorems expect was found.
-/
import SoupVerif.Refine.NsParseBase
import SoupVerif.Properties.C12
namespace SoupVerif
namespace C12Parse
open SoupVerif.Parser Refine.Compile Spelling
open C09Compile (AttrV SAttr SAttrOp opText STag)
open C09Compile2 (STagN SItem SCompound itemsOK renderItems itemsValue applyItems applyAttr Item)
open Css (AttrTest AttrOp CaseFlag Parts addSimple)
open C01Parse (mkB implB implTag)
open NsParse

def opOf (op : Str) : AttrOp :=
  if op = [33, 61] then .ne else if op = [94, 61] then .pre else if op = [36, 61] then .suf
  else if op = [42, 61] then .sub else if op = [126, 61] then .word else if op = [124, 61] then .dash
  else .eq

def flagOf : Option Nat → CaseFlag
  | some c => if c = 105 then .i else if c = 115 then .s else .none
  | none => .none

def testOf (a : AttrV) : Option AttrTest := a.body.map fun b => ⟨opOf b.1, b.2.1, flagOf b.2.2⟩

theorem value_attrV (a : SAttr) (r : Str) (hok : a.ok r) :
    a.value = attrV (valueOf a.name) (testOf a.value) := by
  obtain ⟨g0, name, body, g4⟩ := a
  cases body with
  | none => rfl
  | some b =>
    obtain ⟨g1, op, g2, v, fl⟩ := b
    obtain ⟨_, _, _, _, _, hop, _, hfl⟩ := hok
    have h1 : (C01Parse.flagV (flagOf (fl.map fun x => lowerCp x.2))) = fl.map fun x => lowerCp x.2 := by
      cases fl with
      | none => rfl
      | some gf =>
        obtain ⟨g3, f⟩ := gf
        have := (hfl g3 f rfl).2
        simp only [isFlag, Bool.or_eq_true, beq_iff_eq] at this
        rcases this with ((rfl | rfl) | rfl) | rfl <;> rfl
    have h2 : (opOf (opText op)).text = opText op := by
      cases op with
      | none => rfl
      | some x =>
        have := hop x rfl
        simp only [isCmp, Bool.or_eq_true, beq_iff_eq] at this
        rcases this with ((((rfl | rfl) | rfl) | rfl) | rfl) | rfl <;> decide
    simp only [SAttr.value, attrV, testOf, Option.map_some, h1, h2]

/-- Prefix value (`[]` when there is no prefix or the prefix is empty), name and test of an attribute
    selector; `none` for the other simple selectors. -/
def attrOf : SItem → Option (Str × Str × Option AttrTest)
  | .attr a => some ([], valueOf a.name, testOf a.value)
  | .attrNs ns a => some (ns.value, valueOf a.name, testOf a.value)
  | _ => none

def attrsOf (items : List SItem) : List (Str × Str × Option AttrTest) := items.filterMap attrOf

def addAttrs (p : Parts) (ss : List (Str × Str × Option AttrTest)) : Parts :=
  ss.foldl (fun p s => addSimple p (.attr s.1 s.2.1 s.2.2)) p

theorem applyItems_attrs (B : Builtins) (tag : Option SelTag) (r : Str) : ∀ (items : List SItem) (p : Parts),
    itemsOK items r → (∀ it ∈ items, (attrOf it).isSome = true) →
    applyItems B (itemsValue items) (mkB p tag [] .none) = mkB (addAttrs p (attrsOf items)) tag [] .none
  | [], p, _, _ => by simp [itemsValue, applyItems, attrsOf, addAttrs]
  | it :: rest, p, hok, hall => by
    rw [itemsOK] at hok
    have ih := fun p => applyItems_attrs B tag r rest p hok.2 (fun i hi => hall i (by simp [hi]))
    have hit := hall it (by simp)
    cases it with
    | attr a =>
      have hv := value_attrV a _ (by simpa [SItem.ok] using hok.1)
      rw [itemsValue, SItem.value, applyItems, Item.apply, hv, applyAttr_mkB, ih]
      simp [attrsOf, attrOf, addAttrs]
    | attrNs ns a =>
      have hv := value_attrV a _ (by have := hok.1; rw [SItem.ok] at this; exact this.1)
      rw [itemsValue, SItem.value, applyItems, Item.apply, hv, applyAttr_mkB, ih]
      simp [attrsOf, attrOf, addAttrs]
    | _ => simp [attrOf] at hit

theorem addAttrs_flags : ∀ (ss : List (Str × Str × Option AttrTest)) (p : Parts), (addAttrs p ss).flags = p.flags
  | [], _ => rfl
  | s :: rest, p => by
    rw [addAttrs, List.foldl_cons]
    exact (addAttrs_flags rest _).trans (addSimple_attr_flags p _ _ _)

/-- Some comparison of the list is case-insensitive in this document. -/
def needsFold (c : Ctx) (ss : List (Str × Str × Option AttrTest)) : Prop :=
  ∃ s ∈ ss, ∃ t, s.2.2 = some t ∧ Css.caseInsensitive c s.2.1 t.flag = true

theorem partsOk_addAttrs (c : Ctx) (l : Loc) (e : Elem) : ∀ (ss : List (Str × Str × Option AttrTest)) (p : Parts),
    (needsFold c ss → c.env.fold = lowerCp) →
    SatCore.partsOk c l e (addAttrs p ss) =
      (SatCore.partsOk c l e p && ss.all fun s => Css.satAttr c e s.1 s.2.1 s.2.2)
  | [], p, _ => by simp [addAttrs]
  | s :: rest, p, hfold => by
    rw [addAttrs, List.foldl_cons]
    have ih := partsOk_addAttrs c l e rest (addSimple p (.attr s.1 s.2.1 s.2.2))
      (fun ⟨x, hx, h⟩ => hfold ⟨x, by simp [hx], h⟩)
    rw [addAttrs] at ih
    rw [ih, partsOk_attr c l e p s.1 s.2.1 s.2.2
      (fun t ht hci => hfold ⟨s, by simp, t, ht, hci⟩), List.all_cons, Bool.and_assoc]

/-- **The parser and the matcher on the text of a compound made of an optional type selector (with or
    without a namespace prefix) and attribute selectors (with or without prefix, with or without a value
    test).** -/
theorem compound_compile_match (B : Builtins) (c : Ctx) (l : Loc) (e : Elem) (kids : List Node)
    (hf : l.focus = .elem e kids) (tag : Option STagN) (items : List SItem) (g₁ g₂ : Str)
    (hg₁ : isGap g₁) (hg₂ : isGap g₂) (hok : (SCompound.mk tag items).ok g₂)
    (hne : (SCompound.mk tag items).isEmpty = false)
    (hall : ∀ it ∈ items, (attrOf it).isSome = true)
    (h0 : ∀ x ∈ g₁ ++ (SCompound.mk tag items).render ++ g₂, x ≠ 0)
    (hfold : needsFold c (attrsOf items) → c.env.fold = lowerCp) :
    ∃ sl, Parser.compile pyFoldEnv Gen.lexicon B (g₁ ++ (SCompound.mk tag items).render ++ g₂) [] 0 = .ok sl ∧
      matchEl c sl l = (!e.isDoc && (matchTag c e (implTag false (tag.map STagN.value)) &&
        (attrsOf items).all fun s => Css.satAttr c e s.1 s.2.1 s.2.2)) := by
  have htbl : (SCompound.mk tag items).tbl [] := by
    rw [SCompound.tbl]
    clear hok hne h0 hfold
    induction items with
    | nil => simp [C09Compile2.itemsTbl]
    | cons it rest ih =>
      rw [C09Compile2.itemsTbl]
      refine ⟨?_, ih (fun i hi => hall i (by simp [hi]))⟩
      have := hall it (by simp)
      cases it <;> simp [attrOf] at this <;> simp [SItem.tbl]
  refine ⟨_, compile_one B g₁ g₂ _ hg₁ hg₂ hok hne htbl h0, ?_⟩
  have hb : (SCompound.mk tag items).value.buildOn B SelB.empty =
      mkB (addAttrs {} (attrsOf items)) (tag.map STagN.value) [] .none := by
    simp only [SCompound.value, C09Compile2.Compound.buildOn]
    have hok' : itemsOK items g₂ := by simp only [SCompound.ok] at hok; exact hok.2
    cases tag with
    | none => exact applyItems_attrs B none g₂ items {} hok' hall
    | some t => exact applyItems_attrs B (some t.value) g₂ items {} hok' hall
  rw [hb, C01Parse.implB_mkB, matchEl_mkB c l e kids hf _ _ (by rw [addAttrs_flags]; decide),
    partsOk_addAttrs c l e _ _ hfold, SatParts.partsOk_init, Bool.true_and]

/-! ## The C12 reading of the two conjuncts -/

open C12 (uri NameEq inNs inAnyNs) in
section
open Names

/-- The name test of a type selector with the name VALUE `n`: the universal selector, or the element's
    local name under the case rule of the document kind. -/
def NameCond (c : Ctx) (e : Elem) (n : Str) : Prop := n = "*".toStr ∨ NameEq c n e.name

theorem matchTagname_iff (c : Ctx) (e : Elem) (t : SelTag) :
    matchTagname c e t = true ↔ NameCond c e t.name := by
  unfold matchTagname NameCond C12.NameEq Ctx.tagName
  cases hx : c.isXml
  · simp only [Bool.not_false, if_true, Bool.or_eq_true, beq_iff_eq, star_toStr, lower_eq_star,
      Bool.false_eq_true, if_false]
    exact Or.comm
  · simp only [Bool.not_true, Bool.false_eq_true, if_false, Bool.or_eq_true, beq_iff_eq, star_toStr, if_true]
    exact Or.comm

/-- The namespace test of a type selector whose prefix VALUE is `pfx` (`none`: no prefix written), in terms
    of URIs: the element's (`uri c e`) and the ones the caller's map gives. -/
def NsCond (c : Ctx) (e : Elem) : Option Str → Prop
  | none => c.nsGet [] = none ∨ c.nsGet [] = some (uri c e)
  | some p =>
    if p = [] then uri c e = []
    else if p = "*".toStr then True
    else ∃ u, c.nsGet p = some u ∧ uri c e = u

theorem matchNamespace_iff (c : Ctx) (e : Elem) (t : SelTag) :
    matchNamespace c e t = true ↔ NsCond c e t.pfx := by
  obtain ⟨n, pfx⟩ := t
  cases pfx with
  | none => exact C12.ns_default c e n
  | some p =>
    by_cases hp : p = []
    · subst hp; simpa [NsCond] using C12.ns_none c e n
    · by_cases hs : p = "*".toStr
      · subst hs; simp only [NsCond, hp, if_false, if_true, C12.ns_any]
      · rw [C12.ns_prefix c e n p hp hs]; simp only [NsCond, hp, hs, if_false]

/-- What a compound says about the element's type: nothing but the default namespace (the implied `*`)
    when no type selector is written. -/
def TagCond (c : Ctx) (e : Elem) : Option SelTag → Prop
  | none => NsCond c e none
  | some t => NsCond c e t.pfx ∧ NameCond c e t.name

theorem matchTag_implTag_iff (c : Ctx) (e : Elem) (t : Option SelTag) :
    matchTag c e (implTag false t) = true ↔ TagCond c e t := by
  cases t with
  | none =>
    show matchTag c e (some ⟨[42], none⟩) = true ↔ _
    rw [C12.tag_some, Bool.and_eq_true, matchNamespace_iff, matchTagname_iff]
    simp [TagCond, NameCond]
  | some t =>
    show matchTag c e (some t) = true ↔ _
    rw [C12.tag_some, Bool.and_eq_true, matchNamespace_iff, matchTagname_iff]
    rfl

/-- **Which attributes `[p|a]` designates**, `p` the prefix VALUE (`[]` for `[a]` and `[|a]`), in terms of the
    attribute's namespace URI / local name / key and the URI the caller's map gives for `p`:
      * documents without namespace support: the whole key, ASCII case-insensitively, whatever `p`;
      * `p = ''`: the whole key (case rule of the document kind);
      * `p = '*'`: an attribute without namespace whose key is `a`, or one in any namespace whose local
        name is `a`;
      * `p ↦ u ≠ ''`: namespace URI `u` and local name `a`;  `p ↦ ''`: as `p = ''`;  `p` unmapped: none. -/
def designates (c : Ctx) (p a : Str) (x : Attr) : Bool :=
  if c.supportsNamespaces = false then lower a == lower x.key
  else if p = [] then nameEq c a x.key
  else if p = "*".toStr then inAnyNs c a x
  else match c.nsGet p with
    | none => false
    | some u => if u = [] then nameEq c a x.key else inNs c a u x

theorem values_eq_designated (c : Ctx) (e : Elem) (a p : Str) :
    matchAttributeValues c e a p = (e.attrs.filter (designates c p a)).map fun x => normalizeValue x.val := by
  cases h : c.supportsNamespaces with
  | false =>
    have hd : designates c p a = fun x => lower a == lower x.key := by
      funext x; simp only [designates, h, if_true]
    rw [C12.attr_no_ns_support_values c e a p h, hd]
  | true =>
    by_cases hp : p = []
    · have hd : designates c p a = fun x => nameEq c a x.key := by
        funext x; simp only [designates, h, hp, if_true, if_false, reduceCtorEq]
      subst hp; rw [C12.attr_bare_values c e a h, hd]
    · by_cases hs : p = "*".toStr
      · have hd : designates c p a = inAnyNs c a := by
          funext x; subst hs; simp only [designates, h, star_ne_nil, if_true, if_false, reduceCtorEq]
        rw [hd]; subst hs; rw [C12.attr_any_values c e a h]
      · cases hm : c.nsGet p with
        | none =>
          have hd : designates c p a = fun _ => false := by
            funext x; simp only [designates, h, hp, hs, hm, if_false, reduceCtorEq]
          rw [C12.attr_ns_unmapped_values c e a p h hp hs hm, hd]; simp
        | some u =>
          by_cases hu : u = []
          · have hd : designates c p a = fun x => nameEq c a x.key := by
              funext x; simp only [designates, h, hp, hs, hm, hu, if_true, if_false, reduceCtorEq]
            subst hu; rw [C12.attr_ns_empty_values c e a p h hp hs hm, hd]
          · have hd : designates c p a = inNs c a u := by
              funext x; simp only [designates, h, hp, hs, hm, hu, if_false, reduceCtorEq]
            rw [C12.attr_ns_values c e a p u h hp hs hm hu, hd]

/-- The value test of `[… a op v flag]` on one attribute (`Spec/CssValue.lean`; for `!=` this is the `=`
    test, negated one level up). -/
def Passes (c : Ctx) (a : Str) (t : AttrTest) (x : Attr) : Prop :=
  Css.valTest t.op t.value (Css.caseInsensitive c a t.flag) (nvalJoin (normalizeValue x.val)) = true

/-- An attribute selector with name `a` and test `test` holds of `e`, `D` being the attributes its prefix and
    name designate: SOME designated attribute (passes the test); for `!=`: NO designated attribute has the
    value. -/
def AttrHolds (c : Ctx) (e : Elem) (a : Str) (test : Option AttrTest) (D : Attr → Prop) : Prop :=
  match test with
  | none => ∃ x ∈ e.attrs, D x
  | some t =>
    if t.op = AttrOp.ne then ¬ ∃ x ∈ e.attrs, D x ∧ Passes c a t x
    else ∃ x ∈ e.attrs, D x ∧ Passes c a t x

theorem AttrHolds_congr (c : Ctx) (e : Elem) (a : Str) (test : Option AttrTest) (D D' : Attr → Prop)
    (h : ∀ x, D x ↔ D' x) : AttrHolds c e a test D ↔ AttrHolds c e a test D' := by
  have : D = D' := funext fun x => propext (h x)
  rw [this]

theorem satAttr_iff (c : Ctx) (e : Elem) (p a : Str) (test : Option AttrTest) :
    Css.satAttr c e p a test = true ↔ AttrHolds c e a test (fun x => designates c p a x = true) := by
  unfold Css.satAttr AttrHolds
  rw [values_eq_designated]
  cases test with
  | none => simp
  | some t =>
    by_cases hop : t.op = AttrOp.ne
    · simp [hop, Passes]
    · have : (t.op == AttrOp.ne) = false := by simpa using hop
      simp [hop, this, Passes]

end

/-! ## Text in, verdict out -/

/-- The text → parser → matcher composition on ONE element (the driver's end-to-end service with a `match`
    query; `SoupSieve.match` is `matchText (mkCtx …)`): compile the pattern text with the parser model (no
    custom selectors, flags 0, Python's IGNORECASE folding, the regenerated lexicon and built-in lists) and
    run `CSSMatch.match` with the result. -/
def matchText (c : Ctx) (pattern : Str) (l : Loc) : Except Parser.Err Bool :=
  match Parser.compile pyFoldEnv Gen.lexicon Gen.builtinsRec pattern [] 0 with
  | .ok sl => .ok (matchEl c sl l)
  | .error e => .error e

/-- `SoupSieve.match(tag)` on the pattern text, with the caller's namespace map `ns`. -/
def matchTextApi (E : Env) (isXml : Bool) (ns : List (Str × Str)) (pattern : Str) (tag : Loc) :
    Except Parser.Err Bool :=
  matchText (mkCtx E isXml ns tag) pattern tag

theorem matchTextApi_eq (E : Env) (isXml : Bool) (ns : List (Str × Str)) (pattern : Str) (tag : Loc) :
    matchTextApi E isXml ns pattern tag =
      match Parser.compile pyFoldEnv Gen.lexicon Gen.builtinsRec pattern [] 0 with
      | .ok sl => .ok (matchTagApi E isXml ns sl tag)
      | .error e => .error e := rfl

/-- **C12 on selector TEXT, general form.**  A compound made of an optional type selector (`E`, `*`, with
    prefix `ns|`, `*|`, `|` or none) and any number of attribute selectors (`[a]`, `[ns|a]`, `[*|a]`, `[|a]`,
    with or without `op value flag`), in ANY spelling, between two gaps: the parser model accepts the text,
    and the matcher model run on the result accepts the element `e` exactly when `e` is not the document
    object, its type passes (`TagCond`: URIs and local name) and every attribute selector holds
    (`AttrHolds` over the attributes `designates` selects by URI / local name / key). -/
theorem compound_text (c : Ctx) (l : Loc) (e : Elem) (kids : List Node)
    (hf : l.focus = .elem e kids) (tag : Option STagN) (items : List SItem) (g₁ g₂ : Str)
    (hg₁ : isGap g₁) (hg₂ : isGap g₂) (hok : (SCompound.mk tag items).ok g₂)
    (hne : (SCompound.mk tag items).isEmpty = false)
    (hall : ∀ it ∈ items, (attrOf it).isSome = true)
    (h0 : ∀ x ∈ g₁ ++ (SCompound.mk tag items).render ++ g₂, x ≠ 0)
    (hfold : needsFold c (attrsOf items) → c.env.fold = lowerCp) :
    ∃ b, matchText c (g₁ ++ (SCompound.mk tag items).render ++ g₂) l = .ok b ∧
      (b = true ↔ e.isDoc = false ∧ TagCond c e (tag.map STagN.value) ∧
        ∀ s ∈ attrsOf items, AttrHolds c e s.2.1 s.2.2 (fun x => designates c s.1 s.2.1 x = true)) := by
  obtain ⟨sl, h1, h2⟩ := compound_compile_match Gen.builtinsRec c l e kids hf tag items g₁ g₂ hg₁ hg₂ hok hne
    hall h0 hfold
  refine ⟨matchEl c sl l, by rw [matchText, h1], ?_⟩
  rw [h2, Bool.and_eq_true, Bool.and_eq_true, matchTag_implTag_iff, List.all_eq_true]
  simp only [Bool.not_eq_true', satAttr_iff]

/-! ## Type selectors: `ns|E`, `*|E`, `|E`, `E` (`E` a name or `*`) -/

theorem nameCond_star (c : Ctx) (e : Elem) : NameCond c e STag.star.value := Or.inl (by decide)

theorem nameCond_name (c : Ctx) (e : Elem) (n : Str) (hn : n ≠ "*".toStr) :
    NameCond c e n ↔ C12.NameEq c n e.name := by
  unfold NameCond
  exact ⟨fun h => h.resolve_left hn, Or.inr⟩

theorem forms_value_ne_nil {f : C09Compile.Forms} {r : Str} (h : C09Compile.identOK f r) : valueOf f ≠ [] := by
  obtain ⟨_, hh, _⟩ := h
  cases f with
  | nil => simp [headOk] at hh
  | cons x xs => simp [valueOf]

/-- **A type selector, any prefix form, any spelling**: the element is not the document object, its
    namespace URI passes `NsCond` for the prefix VALUE and its local name passes `NameCond` for the name
    VALUE. -/
theorem type_text (c : Ctx) (l : Loc) (e : Elem) (kids : List Node) (hf : l.focus = .elem e kids)
    (x : STagN) (g₁ g₂ : Str) (hg₁ : isGap g₁) (hg₂ : isGap g₂) (hok : x.ok g₂)
    (h0 : ∀ y ∈ g₁ ++ x.render ++ g₂, y ≠ 0) :
    ∃ b, matchText c (g₁ ++ x.render ++ g₂) l = .ok b ∧
      (b = true ↔ e.isDoc = false ∧ NsCond c e x.value.pfx ∧ NameCond c e x.value.name) := by
  have hr : (SCompound.mk (some x) []).render = x.render := by simp [SCompound.render, renderItems]
  obtain ⟨b, h1, h2⟩ := compound_text c l e kids hf (some x) [] g₁ g₂ hg₁ hg₂
    (by simp only [SCompound.ok, renderItems, itemsOK, List.nil_append, and_true]; exact hok)
    (by simp [SCompound.isEmpty]) (by simp) (by rw [hr]; exact h0) (by rintro ⟨s, hs, _⟩; simp [attrsOf] at hs)
  rw [hr] at h1
  refine ⟨b, h1, h2.trans ?_⟩
  simp [attrsOf, TagCond]

/-- **`ns|E`** (`ns` an identifier in any spelling whose VALUE `p` is not `*`; `E` a name or `*`):
    `p` is mapped, the element's namespace URI equals the URI the map gives for `p`, and the local name is
    `E`. -/
theorem ns_type_text (c : Ctx) (l : Loc) (e : Elem) (kids : List Node) (hf : l.focus = .elem e kids)
    (f : C09Compile.Forms) (t : STag) (hs : valueOf f ≠ "*".toStr) (g₁ g₂ : Str) (hg₁ : isGap g₁)
    (hg₂ : isGap g₂) (hok : (STagN.mk (some (.name f)) t).ok g₂)
    (h0 : ∀ y ∈ g₁ ++ (STagN.mk (some (.name f)) t).render ++ g₂, y ≠ 0) :
    ∃ b, matchText c (g₁ ++ (renderIdentWith f ++ 124 :: t.render) ++ g₂) l = .ok b ∧
      (b = true ↔ e.isDoc = false ∧ (∃ u, c.nsGet (valueOf f) = some u ∧ C12.uri c e = u) ∧
        NameCond c e t.value) := by
  obtain ⟨b, h1, h2⟩ := type_text c l e kids hf _ g₁ g₂ hg₁ hg₂ hok h0
  refine ⟨b, h1, h2.trans ?_⟩
  have hp : valueOf f ≠ [] := forms_value_ne_nil hok.2
  simp only [STagN.value, Option.map_some, SNs.value, NsCond, hp, hs, if_false]

/-- **`*|E`**: any namespace or none; only the local name is tested. -/
theorem any_type_text (c : Ctx) (l : Loc) (e : Elem) (kids : List Node) (hf : l.focus = .elem e kids)
    (t : STag) (g₁ g₂ : Str) (hg₁ : isGap g₁) (hg₂ : isGap g₂) (hok : (STagN.mk (some .star) t).ok g₂)
    (h0 : ∀ y ∈ g₁ ++ (STagN.mk (some .star) t).render ++ g₂, y ≠ 0) :
    ∃ b, matchText c (g₁ ++ (42 :: 124 :: t.render) ++ g₂) l = .ok b ∧
      (b = true ↔ e.isDoc = false ∧ NameCond c e t.value) := by
  obtain ⟨b, h1, h2⟩ := type_text c l e kids hf _ g₁ g₂ hg₁ hg₂ hok h0
  refine ⟨b, h1, h2.trans ?_⟩
  simp [STagN.value, SNs.value, NsCond]

/-- **`|E`**: the element has no namespace (its URI is empty). -/
theorem none_type_text (c : Ctx) (l : Loc) (e : Elem) (kids : List Node) (hf : l.focus = .elem e kids)
    (t : STag) (g₁ g₂ : Str) (hg₁ : isGap g₁) (hg₂ : isGap g₂) (hok : (STagN.mk (some .empty) t).ok g₂)
    (h0 : ∀ y ∈ g₁ ++ (STagN.mk (some .empty) t).render ++ g₂, y ≠ 0) :
    ∃ b, matchText c (g₁ ++ (124 :: t.render) ++ g₂) l = .ok b ∧
      (b = true ↔ e.isDoc = false ∧ C12.uri c e = [] ∧ NameCond c e t.value) := by
  obtain ⟨b, h1, h2⟩ := type_text c l e kids hf _ g₁ g₂ hg₁ hg₂ hok h0
  refine ⟨b, h1, h2.trans ?_⟩
  simp [STagN.value, SNs.value, NsCond]

/-- **`E`** (no prefix): any namespace — unless the map has a default (`''`) entry, then the element's URI is
    that one. -/
theorem bare_type_text (c : Ctx) (l : Loc) (e : Elem) (kids : List Node) (hf : l.focus = .elem e kids)
    (t : STag) (g₁ g₂ : Str) (hg₁ : isGap g₁) (hg₂ : isGap g₂) (hok : (STagN.mk none t).ok g₂)
    (h0 : ∀ y ∈ g₁ ++ (STagN.mk none t).render ++ g₂, y ≠ 0) :
    ∃ b, matchText c (g₁ ++ t.render ++ g₂) l = .ok b ∧
      (b = true ↔ e.isDoc = false ∧ (c.nsGet [] = none ∨ c.nsGet [] = some (C12.uri c e)) ∧
        NameCond c e t.value) := by
  obtain ⟨b, h1, h2⟩ := type_text c l e kids hf _ g₁ g₂ hg₁ hg₂ hok h0
  exact ⟨b, h1, h2⟩

/-- **`*|*`**: every element (the document object aside). -/
theorem any_universal_text (c : Ctx) (l : Loc) (e : Elem) (kids : List Node) (hf : l.focus = .elem e kids)
    (g₁ g₂ : Str) (hg₁ : isGap g₁) (hg₂ : isGap g₂) (h0 : ∀ y ∈ g₁ ++ "*|*".toStr ++ g₂, y ≠ 0) :
    ∃ b, matchText c (g₁ ++ "*|*".toStr ++ g₂) l = .ok b ∧ (b = true ↔ e.isDoc = false) := by
  obtain ⟨b, h1, h2⟩ := any_type_text c l e kids hf .star g₁ g₂ hg₁ hg₂ ⟨trivial, trivial⟩ h0
  exact ⟨b, h1, h2.trans (by simp [nameCond_star])⟩

/-! ## Attribute selectors: `[ns|a]`, `[*|a]`, `[|a]`, `[a]`, with or without `op value flag` -/

/-- `[ gap (prefix `|`)? name … ]` as a simple selector of the grammar. -/
def attrItem : Option SNs → SAttr → SItem
  | none, a => .attr a
  | some n, a => .attrNs n a

/-- The prefix VALUE the matcher receives (`[a]` and `[|a]`: the empty string). -/
def pfxValue : Option SNs → Str
  | none => []
  | some n => n.value

theorem attrOf_attrItem (ns : Option SNs) (a : SAttr) :
    attrOf (attrItem ns a) = some (pfxValue ns, valueOf a.name, testOf a.value) := by
  cases ns <;> rfl

/-- **An attribute selector, any prefix form, with or without a value test, any spelling** (optionally
    behind a type selector `tag`; without one the implied `*` subjects the element to the default
    namespace, `TagCond … none`): `D` being a description of the attributes that the prefix VALUE and the
    name VALUE designate. -/
theorem attr_text (c : Ctx) (l : Loc) (e : Elem) (kids : List Node) (hf : l.focus = .elem e kids)
    (tag : Option STagN) (ns : Option SNs) (a : SAttr) (g₁ g₂ : Str) (hg₁ : isGap g₁) (hg₂ : isGap g₂)
    (hok : (SCompound.mk tag [attrItem ns a]).ok g₂)
    (h0 : ∀ y ∈ g₁ ++ (SCompound.mk tag [attrItem ns a]).render ++ g₂, y ≠ 0)
    (hfold : ∀ t, testOf a.value = some t → Css.caseInsensitive c (valueOf a.name) t.flag = true →
      c.env.fold = lowerCp)
    (D : Attr → Prop) (hD : ∀ x, designates c (pfxValue ns) (valueOf a.name) x = true ↔ D x) :
    ∃ b, matchText c (g₁ ++ (SCompound.mk tag [attrItem ns a]).render ++ g₂) l = .ok b ∧
      (b = true ↔ e.isDoc = false ∧ TagCond c e (tag.map STagN.value) ∧
        AttrHolds c e (valueOf a.name) (testOf a.value) D) := by
  obtain ⟨b, h1, h2⟩ := compound_text c l e kids hf tag [attrItem ns a] g₁ g₂ hg₁ hg₂ hok
    (by cases tag <;> simp [SCompound.isEmpty])
    (by intro it hit; simp only [List.mem_singleton] at hit; subst hit; rw [attrOf_attrItem]; rfl) h0
    (by
      rintro ⟨s, hs, t, ht, hci⟩
      simp only [attrsOf, List.filterMap_cons, attrOf_attrItem, List.filterMap_nil, List.mem_singleton] at hs
      subst hs
      exact hfold t ht hci)
  refine ⟨b, h1, h2.trans ?_⟩
  simp only [attrsOf, List.filterMap_cons, attrOf_attrItem, List.filterMap_nil, List.mem_singleton,
    forall_eq]
  rw [AttrHolds_congr c e _ _ _ D hD]

section
open C12 (NameEq)
variable (c : Ctx) (p a : Str) (x : Attr)

theorem designates_no_ns (h : c.supportsNamespaces = false) :
    designates c p a x = true ↔ lower a = lower x.key := by
  simp only [designates, h, if_true, beq_iff_eq]

theorem designates_bare (h : c.supportsNamespaces = true) :
    designates c [] a x = true ↔ NameEq c a x.key := by
  simp only [designates, h, if_true, if_false, reduceCtorEq, C12.nameEq_true_iff]

theorem designates_any (h : c.supportsNamespaces = true) :
    designates c "*".toStr a x = true ↔
      (x.kns = none ∧ NameEq c a x.key) ∨ (x.kns.isSome = true ∧ ∃ nm, x.kname = some nm ∧ NameEq c a nm) := by
  simp only [designates, h, Names.star_ne_nil, if_true, if_false, reduceCtorEq, C12.inAnyNs_iff]

theorem designates_unmapped (h : c.supportsNamespaces = true) (hp : p ≠ []) (hs : p ≠ "*".toStr)
    (hm : c.nsGet p = none) : designates c p a x = true ↔ False := by
  simp only [designates, h, hp, hs, hm, if_false, reduceCtorEq]

theorem designates_ns_empty (h : c.supportsNamespaces = true) (hp : p ≠ []) (hs : p ≠ "*".toStr)
    (hm : c.nsGet p = some []) : designates c p a x = true ↔ NameEq c a x.key := by
  simp only [designates, h, hp, hs, hm, if_true, if_false, reduceCtorEq, C12.nameEq_true_iff]

theorem designates_ns (u : Str) (h : c.supportsNamespaces = true) (hp : p ≠ []) (hs : p ≠ "*".toStr)
    (hm : c.nsGet p = some u) (hu : u ≠ []) :
    designates c p a x = true ↔ x.kns = some u ∧ ∃ nm, x.kname = some nm ∧ NameEq c a nm := by
  simp only [designates, h, hp, hs, hm, hu, if_false, reduceCtorEq, C12.inNs_iff]
end

/-! ### The forms, one by one.  `tag` is an optional type selector in front (`none`: the attribute selector
  alone, e.g. `[ns|a=v]`; then `TagCond c e none` is the default-namespace condition of the implied `*`).
  The right-hand sides mention the tree (`e.attrs`: namespace URI `kns`, local name `kname`, key, value),
  the caller's map (`c.nsGet`) and the VALUES of the selector only. -/

/-- **`[ns|a]`, `[ns|a op v flag]`**, `ns` an identifier whose VALUE `p` (not `*`) the map sends to a non-empty URI `u`,
    in a document with namespace support: SOME attribute with namespace URI `u` and local name `a` (passes the test).  -/
theorem attr_ns_text (c : Ctx) (l : Loc) (e : Elem) (kids : List Node) (hf : l.focus = .elem e kids)
    (tag : Option STagN) (f : C09Compile.Forms) (a : SAttr) (g₁ g₂ : Str) (hg₁ : isGap g₁) (hg₂ : isGap g₂)
    (hok : (SCompound.mk tag [attrItem (some (.name f)) a]).ok g₂)
    (h0 : ∀ y ∈ g₁ ++ (SCompound.mk tag [attrItem (some (.name f)) a]).render ++ g₂, y ≠ 0)
    (hfold : ∀ t, testOf a.value = some t → Css.caseInsensitive c (valueOf a.name) t.flag = true →
      c.env.fold = lowerCp)
    (h : c.supportsNamespaces = true) (hs : valueOf f ≠ "*".toStr) (u : Str)
    (hm : c.nsGet (valueOf f) = some u) (hu : u ≠ []) :
    ∃ b, matchText c (g₁ ++ (SCompound.mk tag [attrItem (some (.name f)) a]).render ++ g₂) l = .ok b ∧
      (b = true ↔ e.isDoc = false ∧ TagCond c e (tag.map STagN.value) ∧
        AttrHolds c e (valueOf a.name) (testOf a.value) (fun x => x.kns = some u ∧ ∃ nm, x.kname = some nm ∧ C12.NameEq c (valueOf a.name) nm)) :=
  attr_text c l e kids hf tag (some (.name f)) a g₁ g₂ hg₁ hg₂ hok h0 hfold _ (fun x => designates_ns c _ _ x u h (forms_value_ne_nil (by simp only [SCompound.ok, itemsOK, renderItems, attrItem, SItem.ok] at hok; exact hok.2.1.2)) hs hm hu)

/-- **`[ns|a …]`, `ns` not in the map**: no attribute is designated (so the selector fails — and `[ns|a!=v]` holds).  -/
theorem attr_ns_unmapped_text (c : Ctx) (l : Loc) (e : Elem) (kids : List Node) (hf : l.focus = .elem e kids)
    (tag : Option STagN) (f : C09Compile.Forms) (a : SAttr) (g₁ g₂ : Str) (hg₁ : isGap g₁) (hg₂ : isGap g₂)
    (hok : (SCompound.mk tag [attrItem (some (.name f)) a]).ok g₂)
    (h0 : ∀ y ∈ g₁ ++ (SCompound.mk tag [attrItem (some (.name f)) a]).render ++ g₂, y ≠ 0)
    (hfold : ∀ t, testOf a.value = some t → Css.caseInsensitive c (valueOf a.name) t.flag = true →
      c.env.fold = lowerCp)
    (h : c.supportsNamespaces = true) (hs : valueOf f ≠ "*".toStr) (hm : c.nsGet (valueOf f) = none) :
    ∃ b, matchText c (g₁ ++ (SCompound.mk tag [attrItem (some (.name f)) a]).render ++ g₂) l = .ok b ∧
      (b = true ↔ e.isDoc = false ∧ TagCond c e (tag.map STagN.value) ∧
        AttrHolds c e (valueOf a.name) (testOf a.value) (fun _ => False)) :=
  attr_text c l e kids hf tag (some (.name f)) a g₁ g₂ hg₁ hg₂ hok h0 hfold _ (fun x => designates_unmapped c _ _ x h (forms_value_ne_nil (by simp only [SCompound.ok, itemsOK, renderItems, attrItem, SItem.ok] at hok; exact hok.2.1.2)) hs hm)

/-- **`[ns|a …]`, `ns ↦ ''`** (fix 3a64a82): as `[a …]` — the attribute whose whole key is `a`.  -/
theorem attr_ns_empty_text (c : Ctx) (l : Loc) (e : Elem) (kids : List Node) (hf : l.focus = .elem e kids)
    (tag : Option STagN) (f : C09Compile.Forms) (a : SAttr) (g₁ g₂ : Str) (hg₁ : isGap g₁) (hg₂ : isGap g₂)
    (hok : (SCompound.mk tag [attrItem (some (.name f)) a]).ok g₂)
    (h0 : ∀ y ∈ g₁ ++ (SCompound.mk tag [attrItem (some (.name f)) a]).render ++ g₂, y ≠ 0)
    (hfold : ∀ t, testOf a.value = some t → Css.caseInsensitive c (valueOf a.name) t.flag = true →
      c.env.fold = lowerCp)
    (h : c.supportsNamespaces = true) (hs : valueOf f ≠ "*".toStr) (hm : c.nsGet (valueOf f) = some []) :
    ∃ b, matchText c (g₁ ++ (SCompound.mk tag [attrItem (some (.name f)) a]).render ++ g₂) l = .ok b ∧
      (b = true ↔ e.isDoc = false ∧ TagCond c e (tag.map STagN.value) ∧
        AttrHolds c e (valueOf a.name) (testOf a.value) (fun x => C12.NameEq c (valueOf a.name) x.key)) :=
  attr_text c l e kids hf tag (some (.name f)) a g₁ g₂ hg₁ hg₂ hok h0 hfold _ (fun x => designates_ns_empty c _ _ x h (forms_value_ne_nil (by simp only [SCompound.ok, itemsOK, renderItems, attrItem, SItem.ok] at hok; exact hok.2.1.2)) hs hm)

/-- **`[*|a]`, `[*|a op v flag]`**: SOME attribute with local name `a` in any namespace, or with key `a` in no namespace
    (passes the test) — whatever the map says about a prefix `*`.  -/
theorem attr_any_text (c : Ctx) (l : Loc) (e : Elem) (kids : List Node) (hf : l.focus = .elem e kids)
    (tag : Option STagN) (a : SAttr) (g₁ g₂ : Str) (hg₁ : isGap g₁) (hg₂ : isGap g₂)
    (hok : (SCompound.mk tag [attrItem (some .star) a]).ok g₂)
    (h0 : ∀ y ∈ g₁ ++ (SCompound.mk tag [attrItem (some .star) a]).render ++ g₂, y ≠ 0)
    (hfold : ∀ t, testOf a.value = some t → Css.caseInsensitive c (valueOf a.name) t.flag = true →
      c.env.fold = lowerCp)
    (h : c.supportsNamespaces = true) :
    ∃ b, matchText c (g₁ ++ (SCompound.mk tag [attrItem (some .star) a]).render ++ g₂) l = .ok b ∧
      (b = true ↔ e.isDoc = false ∧ TagCond c e (tag.map STagN.value) ∧
        AttrHolds c e (valueOf a.name) (testOf a.value) (fun x => (x.kns = none ∧ C12.NameEq c (valueOf a.name) x.key) ∨
          (x.kns.isSome = true ∧ ∃ nm, x.kname = some nm ∧ C12.NameEq c (valueOf a.name) nm))) :=
  attr_text c l e kids hf tag (some .star) a g₁ g₂ hg₁ hg₂ hok h0 hfold _ (fun x => designates_any c _ x h)

/-- **`[|a]`, `[|a op v flag]`**: the attribute whose WHOLE key is `a` (the value of `[|a]` is that of `[a]`).  -/
theorem attr_none_text (c : Ctx) (l : Loc) (e : Elem) (kids : List Node) (hf : l.focus = .elem e kids)
    (tag : Option STagN) (a : SAttr) (g₁ g₂ : Str) (hg₁ : isGap g₁) (hg₂ : isGap g₂)
    (hok : (SCompound.mk tag [attrItem (some .empty) a]).ok g₂)
    (h0 : ∀ y ∈ g₁ ++ (SCompound.mk tag [attrItem (some .empty) a]).render ++ g₂, y ≠ 0)
    (hfold : ∀ t, testOf a.value = some t → Css.caseInsensitive c (valueOf a.name) t.flag = true →
      c.env.fold = lowerCp)
    (h : c.supportsNamespaces = true) :
    ∃ b, matchText c (g₁ ++ (SCompound.mk tag [attrItem (some .empty) a]).render ++ g₂) l = .ok b ∧
      (b = true ↔ e.isDoc = false ∧ TagCond c e (tag.map STagN.value) ∧
        AttrHolds c e (valueOf a.name) (testOf a.value) (fun x => C12.NameEq c (valueOf a.name) x.key)) :=
  attr_text c l e kids hf tag (some .empty) a g₁ g₂ hg₁ hg₂ hok h0 hfold _ (fun x => designates_bare c _ x h)

/-- **`[a]`, `[a op v flag]`**: the attribute whose WHOLE key is `a`.  -/
theorem attr_bare_text (c : Ctx) (l : Loc) (e : Elem) (kids : List Node) (hf : l.focus = .elem e kids)
    (tag : Option STagN) (a : SAttr) (g₁ g₂ : Str) (hg₁ : isGap g₁) (hg₂ : isGap g₂)
    (hok : (SCompound.mk tag [attrItem none a]).ok g₂)
    (h0 : ∀ y ∈ g₁ ++ (SCompound.mk tag [attrItem none a]).render ++ g₂, y ≠ 0)
    (hfold : ∀ t, testOf a.value = some t → Css.caseInsensitive c (valueOf a.name) t.flag = true →
      c.env.fold = lowerCp)
    (h : c.supportsNamespaces = true) :
    ∃ b, matchText c (g₁ ++ (SCompound.mk tag [attrItem none a]).render ++ g₂) l = .ok b ∧
      (b = true ↔ e.isDoc = false ∧ TagCond c e (tag.map STagN.value) ∧
        AttrHolds c e (valueOf a.name) (testOf a.value) (fun x => C12.NameEq c (valueOf a.name) x.key)) :=
  attr_text c l e kids hf tag none a g₁ g₂ hg₁ hg₂ hok h0 hfold _ (fun x => designates_bare c _ x h)

/-- **Documents without namespace support** (HTML parsed by `html.parser` / `lxml`): every form, whatever the prefix,
    compares the whole key ASCII case-insensitively.  -/
theorem attr_no_ns_support_text (c : Ctx) (l : Loc) (e : Elem) (kids : List Node) (hf : l.focus = .elem e kids)
    (tag : Option STagN) (ns : Option SNs) (a : SAttr) (g₁ g₂ : Str) (hg₁ : isGap g₁) (hg₂ : isGap g₂)
    (hok : (SCompound.mk tag [attrItem ns a]).ok g₂)
    (h0 : ∀ y ∈ g₁ ++ (SCompound.mk tag [attrItem ns a]).render ++ g₂, y ≠ 0)
    (hfold : ∀ t, testOf a.value = some t → Css.caseInsensitive c (valueOf a.name) t.flag = true →
      c.env.fold = lowerCp)
    (h : c.supportsNamespaces = false) :
    ∃ b, matchText c (g₁ ++ (SCompound.mk tag [attrItem ns a]).render ++ g₂) l = .ok b ∧
      (b = true ↔ e.isDoc = false ∧ TagCond c e (tag.map STagN.value) ∧
        AttrHolds c e (valueOf a.name) (testOf a.value) (fun x => lower (valueOf a.name) = lower x.key)) :=
  attr_text c l e kids hf tag ns a g₁ g₂ hg₁ hg₂ hok h0 hfold _ (fun x => designates_no_ns c _ _ x h)

/-! ## Reading off a verdict -/

theorem ok_true_of {x : Except Parser.Err Bool} {P : Prop} (h : ∃ b, x = .ok b ∧ (b = true ↔ P)) (hp : P) :
    x = .ok true := by
  obtain ⟨b, h1, h2⟩ := h
  rw [h1, h2.mpr hp]

theorem ok_false_of {x : Except Parser.Err Bool} {P : Prop} (h : ∃ b, x = .ok b ∧ (b = true ↔ P)) (hp : ¬ P) :
    x = .ok false := by
  obtain ⟨b, h1, h2⟩ := h
  cases b with
  | false => exact h1
  | true => exact absurd (h2.mp rfl) hp

/-! ## Non-vacuity: concrete texts on a small tree (contexts and attributes of `Properties/C12.lean`) -/

namespace Examples
open C12 (cxml cxmlDefault cxmlEmpty chtml circle xhref plainHref u1 u2)

def lits (s : String) : C09Compile.Forms := s.toStr.map fun c => (c, EscForm.lit)

/-- An element `<s:circle xmlns:s="u1" x:href="v" href="w">` (document prefixes `s`, `x`), alone. -/
def el : Elem := circle (some "s".toStr) (some u1) [xhref "x:href" u1, plainHref]
def loc : Loc := ⟨.elem el [], []⟩

/-- the prefix `svg`, written `s\76 g` -/
def svgF : C09Compile.Forms := [(115, .lit), (118, .hex 2 [] (some .space)), (103, .lit)]

/-- `/**/s\76 g|circle ` under the map `{svg: u1, *: u2}`: instance of `ns_type_text`; the document's own prefix
    is `s`, only the URIs are compared. -/
example : matchText cxml "/**/s\\76 g|circle ".toStr loc = .ok true :=
  ok_true_of (ns_type_text cxml loc el [] rfl svgF (.name (lits "circle")) (by decide) "/**/".toStr " ".toStr
    (by decide) (by decide) (by simp only [STagN.ok, STag.ok, SNs.ok, C09Compile.identOK]; decide) (by decide))
    ⟨rfl, ⟨u1, by decide, by decide⟩, Or.inr (by unfold C12.NameEq; decide)⟩

/-- `|circle`: the element is in the namespace `u1`, so it fails (`none_type_text`). -/
example : matchText cxml "|circle".toStr loc = .ok false :=
  ok_false_of (none_type_text cxml loc el [] rfl (.name (lits "circle")) [] [] (by decide) (by decide)
    (by simp only [STagN.ok, STag.ok, SNs.ok, C09Compile.identOK]; decide) (by decide))
    (by rintro ⟨_, h, _⟩; revert h; decide)

/-- `circle` under a default namespace `u1` (`bare_type_text`) … -/
example : matchText cxmlDefault "circle".toStr loc = .ok true :=
  ok_true_of (bare_type_text cxmlDefault loc el [] rfl (.name (lits "circle")) [] [] (by decide) (by decide)
    (by simp only [STagN.ok, STag.ok, C09Compile.identOK]; decide) (by decide))
    ⟨rfl, Or.inr (by decide), Or.inr (by unfold C12.NameEq; decide)⟩

/-- … and the same element in the namespace `u2`: not in the default namespace. -/
example : matchText cxmlDefault "circle".toStr ⟨.elem (circle none (some u2) []) [], []⟩ = .ok false :=
  ok_false_of (bare_type_text cxmlDefault _ _ [] rfl (.name (lits "circle")) [] [] (by decide) (by decide)
    (by simp only [STagN.ok, STag.ok, C09Compile.identOK]; decide) (by decide))
    (by rintro ⟨_, h, _⟩; revert h; decide)

/-- `*|*` -/
example : matchText cxml " *|* ".toStr loc = .ok true :=
  ok_true_of (any_universal_text cxml loc el [] rfl [32] [32] (by decide) (by decide) (by decide)) rfl

/-- `[ *|href = 'w' ]` -/
def anyHref : SAttr := ⟨[32], lits "href", some ⟨[32], none, [32], .str 39 [.ch 119 .lit], none⟩, [32]⟩

theorem anyHref_ok (ns : Option SNs) (hns : ∀ n, ns = some n → n = .star ∨ n = .empty ∨ n = .name (lits "svg") ∨
    n = .name (lits "nope")) : (SCompound.mk none [attrItem ns anyHref]).ok [] := by
  cases ns with
  | none =>
    simp +decide [SCompound.ok, itemsOK, renderItems, attrItem, SItem.ok, anyHref, SAttr.ok, C09Compile.identOK,
      C09Compile.SValue.ok]
  | some n =>
    rcases hns n rfl with rfl | rfl | rfl | rfl <;>
      simp +decide [SCompound.ok, itemsOK, renderItems, attrItem, SItem.ok, anyHref, SAttr.ok,
        C09Compile.identOK, C09Compile.SValue.ok, SNs.ok]

theorem plainHref_mem : plainHref ∈ el.attrs := by simp [el, circle]

theorem passes_w : Passes cxml (valueOf anyHref.name) ⟨.eq, "w".toStr, .none⟩ plainHref := by
  unfold Passes; decide

/-- `[ *|href = 'w' ]`: the SECOND attribute with local name `href` (the one in no namespace) passes — instance
    of `attr_any_text`; the map's entry for `*` plays no part. -/
example : matchText cxml "[ *|href = 'w' ]".toStr loc = .ok true :=
  ok_true_of (attr_any_text cxml loc el [] rfl none anyHref [] [] (by decide) (by decide)
    (anyHref_ok _ (by simp)) (by decide) (fun _ _ _ => rfl) rfl)
    ⟨rfl, Or.inl (by decide), plainHref, plainHref_mem, Or.inl ⟨rfl, by unfold C12.NameEq; decide⟩, passes_w⟩

/-- `[ svg|href = 'w' ]`: the attribute in the namespace `u1` has the value `v` — fails (`attr_ns_text`). -/
example : matchText cxml "[ svg|href = 'w' ]".toStr loc = .ok false :=
  ok_false_of (attr_ns_text cxml loc el [] rfl none (lits "svg") anyHref [] [] (by decide) (by decide)
    (anyHref_ok _ (by simp)) (by decide) (fun _ _ _ => rfl) rfl (by decide) u1 (by decide) (by decide))
    (by
      rintro ⟨_, _, x, hx, ⟨hk, _⟩, hp⟩
      simp only [el, circle, List.mem_cons, List.not_mem_nil, or_false] at hx
      rcases hx with rfl | rfl
      · revert hp; unfold Passes; decide
      · revert hk; decide)

/-- `[ nope|href = 'w' ]`, `nope` unmapped: fails (`attr_ns_unmapped_text`). -/
example : matchText cxml "[ nope|href = 'w' ]".toStr loc = .ok false :=
  ok_false_of (attr_ns_unmapped_text cxml loc el [] rfl none (lits "nope") anyHref [] [] (by decide) (by decide)
    (anyHref_ok _ (by simp)) (by decide) (fun _ _ _ => rfl) rfl (by decide) (by decide))
    (by rintro ⟨_, _, x, _, hf, _⟩; exact hf)

/-- `[ href = 'w' ]` and `[ |href = 'w' ]`: the attribute whose whole key is `href`. -/
example : matchText cxml "[ href = 'w' ]".toStr loc = .ok true ∧ matchText cxml "[ |href = 'w' ]".toStr loc = .ok true :=
  ⟨ok_true_of (attr_bare_text cxml loc el [] rfl none anyHref [] [] (by decide) (by decide)
      (anyHref_ok _ (by simp)) (by decide) (fun _ _ _ => rfl) rfl)
      ⟨rfl, Or.inl (by decide), plainHref, plainHref_mem, by unfold C12.NameEq; decide, passes_w⟩,
   ok_true_of (attr_none_text cxml loc el [] rfl none anyHref [] [] (by decide) (by decide)
      (anyHref_ok _ (by simp)) (by decide) (fun _ _ _ => rfl) rfl)
      ⟨rfl, Or.inl (by decide), plainHref, plainHref_mem, by unfold C12.NameEq; decide, passes_w⟩⟩

def isOk (x : Except Parser.Err Bool) (b : Bool) : Bool :=
  match x with
  | .ok b' => b == b'
  | .error _ => false

-- the model evaluated directly on the same texts (and a few more), as a cross-check of the statements
#guard isOk (matchText cxml "/**/s\\76 g|circle ".toStr loc) true
#guard isOk (matchText cxml "[ *|href = 'w' ]".toStr loc) true
#guard isOk (matchText cxml "[ svg|href = 'w' ]".toStr loc) false
#guard isOk (matchText cxml "[svg|href=v]".toStr loc) true
#guard isOk (matchText cxml "[nope|href!=w]".toStr loc) true        -- `AttrHolds … (fun _ => False)` for `!=`
#guard isOk (matchText cxml "[x\\:href]".toStr loc) true            -- whole key
#guard isOk (matchText cxmlEmpty "[n|href=w]".toStr loc) true       -- `n ↦ ''`
#guard isOk (matchText cxml "\\*|circle".toStr ⟨.elem (circle none (some u2) []) [], []⟩) true   -- value `*`

end Examples

#print axioms compound_compile_match
#print axioms compound_text
#print axioms type_text
#print axioms ns_type_text
#print axioms any_type_text
#print axioms none_type_text
#print axioms bare_type_text
#print axioms any_universal_text
#print axioms attr_text
#print axioms attr_ns_text
#print axioms attr_ns_unmapped_text
#print axioms attr_ns_empty_text
#print axioms attr_any_text
#print axioms attr_none_text
#print axioms attr_bare_text
#print axioms attr_no_ns_support_text

end C12Parse
end SoupVerif
