/-
  `CSSMatch.match_root` as REGENERATED from the text of soupsieve/css_match.py by gen/gen_py_textfn.py
  (`Generated/PyTextFn.lean`: `rootCond*`, `rootBody*`, `matchRoot`) is, for ALL contexts and locations, the hand-written
  matcher model `matchRoot` (Model/Match.lean) -- given fuel for the two sibling walks.

  Instantiation: `is_root` = `Ctx.isRoot c`, `is_tag` / `is_content_string` / `is_cdata` = the node tests of the focus,
  `strip s` = `hasNonPySpace` of the string (`sibling.strip()` is non-empty), `get_previous` / `get_next` = the nearest
  previous / next sibling of the zipper (`prevOf`, `nextOf`: head of `Loc.prevSiblings` / `Loc.nextSiblings`).
-/
import SoupVerif.Generated.PyTextFn
import SoupVerif.Model.Match
namespace SoupVerif
namespace C19GenRoot
open PyApiLoop

/-- `el.previous_sibling` / `el.next_sibling` on the zipper. -/
def prevOf (l : Loc) : Option Loc := l.prevSiblings.head?
def nextOf (l : Loc) : Option Loc := l.nextSiblings.head?

theorem prevSiblings_prev (l y : Loc) (h : prevOf l = some y) : y.prevSiblings = l.prevSiblings.tail := by
  unfold prevOf Loc.prevSiblings at h
  unfold Loc.prevSiblings
  cases hu : l.up with
  | nil => rw [hu] at h; simp at h
  | cons f rest =>
    rw [hu] at h
    simp only at h ⊢
    cases hl : f.left with
    | nil => rw [hl] at h; simp [Loc.prevSiblingsAux] at h
    | cons p left =>
      rw [hl] at h
      simp only [Loc.prevSiblingsAux, List.head?_cons, Option.some.injEq] at h
      subst h
      simp [Loc.prevSiblingsAux]

theorem nextSiblings_next (l y : Loc) (h : nextOf l = some y) : y.nextSiblings = l.nextSiblings.tail := by
  unfold nextOf Loc.nextSiblings at h
  unfold Loc.nextSiblings
  cases hu : l.up with
  | nil => rw [hu] at h; simp at h
  | cons f rest =>
    rw [hu] at h
    simp only at h ⊢
    cases hl : f.right with
    | nil => rw [hl] at h; simp [Loc.nextSiblingsAux] at h
    | cons p right =>
      rw [hl] at h
      simp only [Loc.nextSiblingsAux, List.head?_cons, Option.some.injEq] at h
      subst h
      simp [Loc.nextSiblingsAux]

/-! ### A cursor walk: `while flag and cur is not None: if test(cur): flag = False else: cur = nav(cur)` -/

theorem walk_down {α : Type} (cond : Bool × Option α → Bool) (body : Bool × Option α → Option (Bool × Option α))
    (hcond : ∀ s, cond s = (s.1 && s.2.isSome)) (fuel : Nat) (cur : Option α) :
    whileOpt cond body fuel (false, cur) = some (false, cur) := by
  cases fuel <;> simp [whileOpt, hcond]

theorem walk_eq {α : Type} (cond : Bool × Option α → Bool) (body : Bool × Option α → Option (Bool × Option α))
    (test : α → Bool) (nav : α → Option α) (seq : α → List α)
    (hcond : ∀ s, cond s = (s.1 && s.2.isSome))
    (hbody : ∀ f x, body (f, some x) = if test x then some (false, some x) else some (f, nav x))
    (hnav : ∀ x, nav x = (seq x).head?)
    (hseq : ∀ x y, nav x = some y → seq y = (seq x).tail) :
    ∀ (rest : List α) (fuel : Nat) (cur : Option α),
      rest = (match cur with | none => [] | some y => y :: seq y) → rest.length ≤ fuel →
      (whileOpt cond body fuel (true, cur)).map (·.1) = some (!rest.any test) := by
  intro rest
  induction rest with
  | nil =>
    intro fuel cur h _
    cases cur with
    | none => cases fuel <;> simp [whileOpt, hcond]
    | some y => simp at h
  | cons y ys ih =>
    intro fuel cur h hlen
    cases cur with
    | none => simp at h
    | some y' =>
      simp only [List.cons.injEq] at h
      obtain ⟨hy, hys⟩ := h
      subst hy
      cases fuel with
      | zero => simp at hlen
      | succ f =>
        simp only [whileOpt, hcond, Bool.true_and, Option.isSome_some, if_true, hbody]
        cases ht : test y with
        | true =>
          simp [walk_down cond body hcond, ht]
        | false =>
          simp only [Bool.false_eq_true, if_false, Option.bind_some, List.any_cons, ht, Bool.false_or]
          apply ih f (nav y)
          · have h1 := hnav y
            rw [← hys] at h1
            cases hys' : ys with
            | nil => rw [hys'] at h1; simp at h1; rw [h1]
            | cons z zs =>
              rw [hys'] at h1
              simp only [List.head?_cons] at h1
              rw [h1]
              simp only [List.cons.injEq, true_and]
              have := hseq y z h1
              rw [← hys, hys'] at this
              simpa using this.symm
          · simp only [List.length_cons] at hlen
            omega

/-! ### The generated pieces -/

theorem gen_rootCond0 {α : Type} (s : Bool × Option α) : Gen.PyTextFn.rootCond0 s = (s.1 && s.2.isSome) := rfl
theorem gen_rootCond1 {α : Type} (s : Bool × Option α) : Gen.PyTextFn.rootCond1 s = (s.1 && s.2.isSome) := rfl

/-- The body of the first walk: a sibling that is an element, a content string with something left after
    `strip()`, or a CDATA section lowers the flag; any other sibling moves the cursor to ITS previous sibling. -/
theorem gen_rootBody0 {α : Type} (is_root is_tag ics strip is_cdata : α → Bool) (gp gn : α → Option α) (f : Bool) (x : α) :
    Gen.PyTextFn.rootBody0 is_root is_tag ics strip is_cdata gp gn (f, some x) =
      if (is_tag x || (ics x && strip x) || is_cdata x) then some (false, some x) else some (f, gp x) := by
  unfold Gen.PyTextFn.rootBody0
  simp only [bind, Option.bind, pure]
  cases is_tag x <;> cases ics x <;> cases strip x <;> cases is_cdata x <;> rfl

/-- The body of the second walk: the same test, the cursor moves to the NEXT sibling. -/
theorem gen_rootBody1 {α : Type} (is_root is_tag ics strip is_cdata : α → Bool) (gp gn : α → Option α) (f : Bool) (x : α) :
    Gen.PyTextFn.rootBody1 is_root is_tag ics strip is_cdata gp gn (f, some x) =
      if (is_tag x || (ics x && strip x) || is_cdata x) then some (false, some x) else some (f, gn x) := by
  unfold Gen.PyTextFn.rootBody1
  simp only [bind, Option.bind, pure]
  cases is_tag x <;> cases ics x <;> cases strip x <;> cases is_cdata x <;> rfl

/-- **`match_root` as translated from the source = the hand model `matchRoot`**, for every context and location,
    whenever the fuel covers the number of siblings on either side. -/
theorem gen_matchRoot_eq (c : Ctx) (l : Loc) (fuel : Nat)
    (hp : l.prevSiblings.length ≤ fuel) (hn : l.nextSiblings.length ≤ fuel) :
    Gen.PyTextFn.matchRoot c.isRoot Loc.isTag (fun s => s.focus.isContentString)
        (fun s => hasNonPySpace s.focus.strVal) (fun s => s.focus.isCData) prevOf nextOf l fuel =
      some (matchRoot c l) := by
  have hw0 := walk_eq _ _ _ prevOf Loc.prevSiblings gen_rootCond0
    (gen_rootBody0 c.isRoot Loc.isTag (fun s => s.focus.isContentString)
      (fun s => hasNonPySpace s.focus.strVal) (fun s => s.focus.isCData) prevOf nextOf)
    (fun _ => rfl) prevSiblings_prev l.prevSiblings fuel (prevOf l)
    (by unfold prevOf; cases h : l.prevSiblings with
        | nil => rfl
        | cons y ys => simp only [List.head?_cons, List.cons.injEq, true_and]
                       have := prevSiblings_prev l y (by unfold prevOf; rw [h]; rfl)
                       rw [h] at this; simpa using this.symm) hp
  have hw1 := walk_eq _ _ _ nextOf Loc.nextSiblings gen_rootCond1
    (gen_rootBody1 c.isRoot Loc.isTag (fun s => s.focus.isContentString)
      (fun s => hasNonPySpace s.focus.strVal) (fun s => s.focus.isCData) prevOf nextOf)
    (fun _ => rfl) nextSiblings_next l.nextSiblings fuel (nextOf l)
    (by unfold nextOf; cases h : l.nextSiblings with
        | nil => rfl
        | cons y ys => simp only [List.head?_cons, List.cons.injEq, true_and]
                       have := nextSiblings_next l y (by unfold nextOf; rw [h]; rfl)
                       rw [h] at this; simpa using this.symm) hn
  rw [Option.map_eq_some_iff] at hw0 hw1
  obtain ⟨s0, hs0, hs01⟩ := hw0
  obtain ⟨s1, hs1, hs11⟩ := hw1
  unfold Gen.PyTextFn.matchRoot matchRoot
  cases hr : c.isRoot l with
  | false => simp
  | true =>
    simp only [if_true, hs0, hs01, Option.bind_some, bind, pure]
    have hb : ∀ n : Loc, (n.isTag || (n.focus.isContentString && hasNonPySpace n.focus.strVal) || n.focus.isCData) = blocksRoot n.focus := by
      intro n; rfl
    simp only [hb] at hs01 hs11 ⊢
    cases hA : l.prevSiblings.any (fun s => blocksRoot s.focus) with
    | true => simp
    | false =>
      simp only [Bool.not_false, if_true, hs1, hs11, Option.bind_some]
      simp

/-- Enough fuel always exists: the number of siblings. -/
theorem gen_matchRoot_total (c : Ctx) (l : Loc) :
    Gen.PyTextFn.matchRoot c.isRoot Loc.isTag (fun s => s.focus.isContentString)
        (fun s => hasNonPySpace s.focus.strVal) (fun s => s.focus.isCData) prevOf nextOf l
        (l.prevSiblings.length + l.nextSiblings.length) = some (matchRoot c l) :=
  gen_matchRoot_eq c l _ (by omega) (by omega)

/-- What the regenerated `match_root` decides: the element is the root (of the document or of an iframe) and no
    sibling on either side is an element, a content string that is not blank for `str.strip`, or CDATA. -/
theorem gen_matchRoot_iff (c : Ctx) (l : Loc) :
    Gen.PyTextFn.matchRoot c.isRoot Loc.isTag (fun s => s.focus.isContentString)
        (fun s => hasNonPySpace s.focus.strVal) (fun s => s.focus.isCData) prevOf nextOf l
        (l.prevSiblings.length + l.nextSiblings.length) = some true ↔
      c.isRoot l = true ∧ (∀ s ∈ l.prevSiblings, blocksRoot s.focus = false) ∧
        (∀ s ∈ l.nextSiblings, blocksRoot s.focus = false) := by
  rw [gen_matchRoot_total]
  unfold matchRoot
  simp [List.any_eq_false, and_assoc]

end C19GenRoot
end SoupVerif
