/-
  C10  `escape(s)` round-trips through the selector grammar.

  "For every string s, escape(s) is consumed by the selector parser as one identifier whose value
   is s with NUL replaced by U+FFFD ... Escaping never raises and never produces text that alters
   the surrounding selector."

  Model  : `Escape.escape`, `Escape.scanIdent` (the token regex `IDENTIFIER`),
           `Escape.scanPrefixed` (`\#IDENTIFIER`, `\.IDENTIFIER`), `Escape.cssUnescape`,
           `Escape.cssUnescapeRaises`, `Escape.nulToFFFD`               (Model/Escape.lean)
  Lemmas : Lemmas/Escape.lean

  Quantifier.  Strings are `List Nat`; every theorem below holds for EVERY list of naturals, so in
  particular for every Python `str` (controls, C1 controls, lone surrogates, astral characters,
  in every position).  No `c < 0x110000` hypothesis is needed anywhere: `escape` hex-escapes only
  code points below 0x80, everything from U+0080 up is copied and is an identifier character.
  `escape_scan_codepoints` / `unescape_escape_codepoints` restate the two main theorems with that
  hypothesis for readers who want the Python domain spelled out.

  The empty string is the one excluded point: `escape "" = ""` and the grammar has no empty
  identifier (`escape_empty`, `scan_empty`); it is recorded separately as a known finding.

  "Never raises": `escape` is a total function of the model (every clause of the Python is a
  comparison, an `append` or an f-string on an `int`), and `unescape_never_raises` shows the one
  way `css_unescape` can raise (`ValueError` from `int(..., 16)` when a hex escape is directly
  followed by a comment) does not occur on `escape` output.
-/
import SoupVerif.Lemmas.Escape
namespace SoupVerif
namespace C10
open Escape EscapeLemmas

/-! ### `escape s` is one identifier -/

/-- `IDENTIFIER` matches `escape s ++ r` at position 0, consumes exactly `escape s`, and leaves `r`,
    whenever `r` does not itself begin with an identifier character or a backslash. -/
theorem escape_scan (s r : Str) (hs : s ≠ []) (hr : ¬ continuesIdent r) :
    scanIdent (escape s ++ r) = some (escape s, r) :=
  scanIdent_escape s r hs (by simpa using hr)

/-- The same with the Python domain of `escape` spelled out. -/
theorem escape_scan_codepoints (s r : Str) (hs : s ≠ []) (_hcp : ∀ c ∈ s, c < 0x110000)
    (hr : ¬ continuesIdent r) : scanIdent (escape s ++ r) = some (escape s, r) :=
  escape_scan s r hs hr

/-- `escape s` alone is one whole identifier. -/
theorem escape_scan_whole (s : Str) (hs : s ≠ []) : scanIdent (escape s) = some (escape s, []) := by
  simpa using escape_scan s [] hs (by decide)

/-- Unconditional form: whatever text `r` follows, the match is `escape s` followed by what the
    identifier loop consumes from `r` ALONE.  So no piece of `escape s` (in particular a final
    hex escape, whose terminating space `escape` always emits) reaches into the following text,
    and the following text cannot change how `escape s` is read. -/
theorem escape_inert (s r : Str) (hs : s ≠ []) :
    scanIdent (escape s ++ r) = some (escape s ++ (scanCont 0 r).1, (scanCont 0 r).2) :=
  scanIdent_escape_append s r hs

/-- What lies beyond the identifier boundary does not influence the identifier that is read. -/
theorem escape_inert_prefix (s r₁ r₂ : Str) (hs : s ≠ []) (h₁ : ¬ continuesIdent r₁)
    (h₂ : ¬ continuesIdent r₂) :
    (scanIdent (escape s ++ r₁)).map Prod.fst = (scanIdent (escape s ++ r₂)).map Prod.fst := by
  rw [escape_scan s r₁ hs h₁, escape_scan s r₂ hs h₂]; rfl

/-- Every character that can follow an identifier in a selector stops the scan: the closing
    bracket / parenthesis, whitespace, `,`, `.`, `#`, `:`, `[`, the combinators, the attribute
    operators, quotes, `(`, `/` (a comment), `|`, `*`, `&`, `%`, `;`, `{`, `}`, `@`. -/
theorem delimiters_stop :
    ∀ d ∈ [93, 41, 32, 9, 10, 12, 13, 44, 46, 35, 58, 91, 62, 43, 126, 61, 33, 94, 36, 42, 124,
           34, 39, 40, 47, 38, 37, 59, 123, 125, 64],
      ∀ t : Str, continuesIdent (d :: t) = false := by
  intro d hd t
  simp only [List.mem_cons, List.not_mem_nil, or_false] at hd
  rcases hd with h | h | h | h | h | h | h | h | h | h | h | h | h | h | h | h | h | h | h | h | h |
    h | h | h | h | h | h | h | h | h | h <;> subst h <;> rfl

/-- The id token `#IDENTIFIER` on `'#' + escape(s)` consumes exactly that. -/
theorem escape_scan_id (s r : Str) (hs : s ≠ []) (hr : ¬ continuesIdent r) :
    scanPrefixed 35 (35 :: escape s ++ r) = some (35 :: escape s, r) := by
  simp [scanPrefixed, escape_scan s r hs hr]

/-- The class token `.IDENTIFIER` on `'.' + escape(s)` consumes exactly that. -/
theorem escape_scan_class (s r : Str) (hs : s ≠ []) (hr : ¬ continuesIdent r) :
    scanPrefixed 46 (46 :: escape s ++ r) = some (46 :: escape s, r) := by
  simp [scanPrefixed, escape_scan s r hs hr]

/-! ### Its value is `s` -/

/-- `css_unescape(escape(s))` is `s` with NUL replaced by U+FFFD. -/
theorem unescape_escape (s : Str) : cssUnescape (escape s) = nulToFFFD s :=
  cssUnescape_escape s

/-- The same with the Python domain of `escape` spelled out. -/
theorem unescape_escape_codepoints (s : Str) (_hcp : ∀ c ∈ s, c < 0x110000) :
    cssUnescape (escape s) = nulToFFFD s :=
  unescape_escape s

/-- `css_unescape` decodes `escape s` independently of what follows it. -/
theorem unescape_escape_append (s t : Str) :
    cssUnescape (escape s ++ t) = nulToFFFD s ++ cssUnescape t :=
  cssUnescape_escape_append s t

/-- `css_unescape` does not raise on `escape s`, nor on `escape s` followed by any text on which
    it does not raise by itself. -/
theorem unescape_never_raises (s : Str) : cssUnescapeRaises (escape s) = false :=
  cssUnescapeRaises_escape s

theorem unescape_raises_append (s t : Str) :
    cssUnescapeRaises (escape s ++ t) = cssUnescapeRaises t :=
  cssUnescapeRaises_escape_append s t

/-- The round trip in one statement: the parser's identifier token on `escape s ++ r` exists,
    leaves `r`, and the value the parser computes from the token text (`css_unescape`) is `s`
    with NUL replaced by U+FFFD. -/
theorem ident_value (s r : Str) (hs : s ≠ []) (hr : ¬ continuesIdent r) :
    ∃ m, scanIdent (escape s ++ r) = some (m, r) ∧ cssUnescape m = nulToFFFD s ∧
      cssUnescapeRaises m = false :=
  ⟨escape s, escape_scan s r hs hr, unescape_escape s, unescape_never_raises s⟩

/-- Distinct strings get distinct escapes, except that NUL and U+FFFD are identified. -/
theorem escape_injective_mod_nul (s t : Str) (h : escape s = escape t) :
    nulToFFFD s = nulToFFFD t := by
  rw [← unescape_escape s, ← unescape_escape t, h]

/-! ### What `escape` emits -/

/-- `escape s` never contains NUL. -/
theorem escape_chars_ok (s : Str) : ∀ c ∈ escape s, c ≠ 0 :=
  fun c hc => (escape_safe s c hc).1

/-- `escape s` never contains a raw newline, form feed or carriage return (the characters that
    would end a backslash escape or a quoted string in the surrounding selector). -/
theorem escape_no_newline (s : Str) : ∀ c ∈ escape s, c ≠ 10 ∧ c ≠ 12 ∧ c ≠ 13 :=
  fun c hc => (escape_safe s c hc).2

/-- The NUL replacement `CSSParser.__init__` applies to the whole pattern leaves `escape s` as is. -/
theorem escape_nul_stable (s : Str) : nulToFFFD (escape s) = escape s := by
  unfold nulToFFFD
  conv => rhs; rw [← List.map_id (escape s)]
  apply List.map_congr_left
  intro c hc
  have := escape_chars_ok s c hc
  simp [this]

/-- Non-empty input gives non-empty output. -/
theorem escape_nonempty (s : Str) (hs : s ≠ []) : escape s ≠ [] :=
  escape_ne_nil s hs

/-! ### The excluded point -/

/-- `escape('') == ''` ... -/
theorem escape_empty : escape [] = [] := by decide

/-- ... which is not an identifier, and neither is `''` followed by a delimiter. -/
theorem scan_empty : scanIdent [] = none ∧ scanIdent [93] = none ∧ scanIdent [32, 97] = none := by
  decide

/-! ### Hex digits (used by the above; of independent interest for `f'{codepoint:x}'`) -/

theorem hex_roundtrip (n : Nat) : hexVal (hexDigits n) = n := hexVal_hexDigits n

theorem hex_codepoint_length (n : Nat) (h : n < 0x110000) :
    0 < (hexDigits n).length ∧ (hexDigits n).length ≤ 6 :=
  ⟨hexDigits_length_pos n, hexDigits_length_le_six n (by omega)⟩

/-! ### Non-vacuity: concrete values, checked by evaluation in the kernel -/

-- escape('-') == '\\-'
example : escape [45] = [92, 45] := by decide
-- escape('-1') == '-\\31 '
example : escape [45, 49] = [45, 92, 51, 49, 32] := by decide
-- escape('--') == '--'
example : escape [45, 45] = [45, 45] := by decide
-- escape('1a') == '\\31 a'
example : escape [49, 97] = [92, 51, 49, 32, 97] := by decide
-- escape('a1') == 'a1'
example : escape [97, 49] = [97, 49] := by decide
-- escape('a b') == 'a\\ b'
example : escape [97, 32, 98] = [97, 92, 32, 98] := by decide
-- escape('\x00') == '\ufffd'
example : escape [0] = [0xFFFD] := by decide
-- escape('\x01') == '\\1 ',  escape('\x1f') == '\\1f ',  escape('\x7f') == '\\7f '
example : escape [1] = [92, 49, 32] := by decide
example : escape [0x1F] = [92, 49, 102, 32] := by decide
example : escape [0x7F] = [92, 55, 102, 32] := by decide
-- newline, form feed, carriage return are hex-escaped: '\\a ', '\\c ', '\\d '
example : escape [10, 12, 13] = [92, 97, 32, 92, 99, 32, 92, 100, 32] := by decide
-- C1 controls, lone surrogates and astral characters are copied
example : escape [0x80] = [0x80] := by decide
example : escape [0x9F] = [0x9F] := by decide
example : escape [0xD800] = [0xD800] := by decide
example : escape [0xDFFF, 0xD800] = [0xDFFF, 0xD800] := by decide
example : escape [0x10FFFF] = [0x10FFFF] := by decide
-- escape('a\\b') == 'a\\\\b'
example : escape [97, 92, 98] = [97, 92, 92, 98] := by decide
-- escape('a]b') == 'a\\]b';  escape('#.:') == '\\#\\.\\:'
example : escape [97, 93, 98] = [97, 92, 93, 98] := by decide
example : escape [35, 46, 58] = [92, 35, 92, 46, 92, 58] := by decide

-- the scanner on these, followed by `]`
example : scanIdent ([92, 45] ++ [93]) = some ([92, 45], [93]) := by decide
example : scanIdent ([45, 92, 51, 49, 32] ++ [93]) = some ([45, 92, 51, 49, 32], [93]) := by decide
example : scanIdent ([92, 51, 49, 32, 97] ++ [93]) = some ([92, 51, 49, 32, 97], [93]) := by decide
example : scanIdent ([97, 92, 32, 98] ++ [32, 99]) = some ([97, 92, 32, 98], [32, 99]) := by decide
example : scanIdent [0xFFFD] = some ([0xFFFD], []) := by decide
example : scanIdent [0xD800, 41] = some ([0xD800], [41]) := by decide
example : scanIdent [0x10FFFF, 0x80, 44] = some ([0x10FFFF, 0x80], [44]) := by decide
-- the scanner is not trivially accepting: raw controls, a leading digit, `-` alone, `-1` fail
example : scanIdent [1] = none := by decide
example : scanIdent [49, 97] = none := by decide
example : scanIdent [45] = none := by decide
example : scanIdent [45, 49] = none := by decide
example : scanIdent [92, 10, 97] = none := by decide
-- ... and it stops at unescaped delimiters: 'a b' is the identifier 'a' and the rest ' b'
example : scanIdent [97, 32, 98] = some ([97], [32, 98]) := by decide
-- the trailing space of a hex escape belongs to it; without it the next hex digit would be eaten:
-- '\\31 a' is "1a" but '\\31a' is U+031A
example : cssUnescape [92, 51, 49, 32, 97] = [49, 97] := by decide
example : cssUnescape [92, 51, 49, 97] = [0x31A] := by decide
-- faithfulness corners of the grammar that `escape` never produces
example : scanIdent [92] = some ([92], []) := by decide                       -- `\` `$`
example : scanIdent [92, 10] = none := by decide                               -- `\Z` is not before a final "\n"
example : scanIdent [92, 49, 13, 10, 97] = some ([92, 49, 13, 10, 97], []) := by decide  -- CRLF one unit
example : scanIdent [92, 49, 13, 13, 97] = some ([92, 49, 13], [13, 97]) := by decide
example : scanIdent [92, 49, 50, 51, 52, 53, 54, 55] = some ([92, 49, 50, 51, 52, 53, 54, 55], []) := by
  decide                                                                      -- six digits, then `7`
example : scanIdent [45, 45] = some ([45, 45], []) := by decide

-- css_unescape
example : cssUnescape [92, 45] = [45] := by decide
example : cssUnescape [45, 92, 51, 49, 32] = [45, 49] := by decide
example : cssUnescape [97, 92, 32, 98] = [97, 32, 98] := by decide
example : cssUnescape [97, 92, 92, 98] = [97, 92, 98] := by decide
example : cssUnescape (escape [0]) = [0xFFFD] := by decide
example : cssUnescape (escape [0x7F, 0x80, 0xD800, 0x10FFFF]) = [0x7F, 0x80, 0xD800, 0x10FFFF] := by
  decide
example : cssUnescape [92, 48, 32] = [0xFFFD] := by decide                    -- `\0 ` → U+FFFD
example : cssUnescape [92, 49, 49, 48, 48, 48, 48] = [0xFFFD] := by decide    -- `\110000` → U+FFFD
example : cssUnescape [92] = [0xFFFD] := by decide
example : cssUnescape [92, 10] = [92, 10] := by decide
example : cssUnescape [92, 10, 97] = [92, 10, 97] := by decide
-- the ValueError corner: '\\31/**/' raises in Python, '\\31 /**/' does not
example : cssUnescapeRaises [92, 51, 49, 47, 42, 42, 47] = true := by decide
example : cssUnescapeRaises [92, 51, 49, 32, 47, 42, 42, 47] = false := by decide

-- the delimiter list really satisfies the side condition of `escape_scan`, and identifier
-- characters / backslash really do not
example : continuesIdent [] = false := by decide
example : continuesIdent [93] = false := by decide
example : continuesIdent [97] = true := by decide
example : continuesIdent [92, 93] = true := by decide

end C10
end SoupVerif
