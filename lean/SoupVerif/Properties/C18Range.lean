/-
  C18, second part — `match_range`: valid values are compared in calendar/numeric order, time
  ranges whose min exceeds max wrap around midnight, and an invalid or missing value is never
  out of range.

  Model: `matchRangeE` in `SoupVerif.Model.Match` (transcription of `CSSMatch.match_range`).
  Spec : `Spec.OutOfRange` in `SoupVerif.Spec.Calendar`.
  (Kept apart from `Properties/C18.lean` so that the calendar theorems do not depend on the
  matcher model.)
-/
import SoupVerif.Model.Match
import SoupVerif.Properties.C18

namespace SoupVerif
namespace C18
open Inputs

/-- The strict order the matcher uses on parsed values. -/
def ltV (a b : PVal) : Prop := Inputs.ltP a b = true

/-- Every `type` for which `parseValue` can produce a value is `time` or one of the six
    linearly ordered types of `match_range`. -/
theorem parseValue_some_known (t s : Str) (v : PVal) (h : Inputs.parseValue t s = some v) :
    (t == "time".toStr) = true ∨
      (["date", "datetime-local", "month", "week", "number", "range"].any
        fun k => k.toStr == t) = true := by
  by_cases h1 : (t == "time".toStr) = true
  · exact Or.inl h1
  · by_cases h2 : (["date", "datetime-local", "month", "week", "number", "range"].any
        fun k => k.toStr == t) = true
    · exact Or.inr h2
    · exfalso
      have hn : Inputs.parseValue t s = none := by
        apply parse_other_type
        intro k hk hkt
        subst hkt
        simp only [List.mem_cons, List.not_mem_nil, or_false] at hk
        rcases hk with rfl | rfl | rfl | rfl | rfl | rfl | rfl
        all_goals first | exact h1 (by decide) | exact h2 (by decide)
      rw [hn] at h; cases h

theorem parseValueE_some_known (t : Str) (x : Option NVal) (v : PVal)
    (h : parseValueE t x = .ok (some v)) :
    (t == "time".toStr) = true ∨
      (["date", "datetime-local", "month", "week", "number", "range"].any
        fun k => k.toStr == t) = true := by
  unfold parseValueE at h
  split at h
  · cases h
  · rename_i s
    exact parseValue_some_known t s v (by injection h)
  · split at h <;> cases h

/-- `match_range`, whenever none of the attribute reads raises: the answer is `false` when
    neither `min` nor `max` is valid; otherwise `:out-of-range` holds exactly when the value is
    out of range in the sense of `Spec.OutOfRange` (with wrap-around for `type=time` only), and
    `:in-range` is its negation. -/
theorem range_def (c : Ctx) (e : Elem) (cond : Nat) (itype : Str) (mn mx v : Option PVal)
    (hT : lowerE ((c.attrByName e "type".toStr).getD (.str [])) = .ok itype)
    (hmn : parseValueE itype (c.attrByName e "min".toStr) = .ok mn)
    (hmx : parseValueE itype (c.attrByName e "max".toStr) = .ok mx)
    (hv : parseValueE itype (c.attrByName e "value".toStr) = .ok v) :
    ∃ b, matchRangeE c e cond = .ok b ∧
      (b = true ↔ (mn.isSome ∨ mx.isSome) ∧
        (if hasFlag cond SEL_IN_RANGE then
          ¬ Spec.OutOfRange ltV (itype = "time".toStr) mn mx v
         else Spec.OutOfRange ltV (itype = "time".toStr) mn mx v)) := by
  have hk : ∀ x, v = some x → (itype == "time".toStr) = true ∨
      (["date", "datetime-local", "month", "week", "number", "range"].any
        fun k => k.toStr == itype) = true := by
    intro x hx; subst hx; exact parseValueE_some_known _ _ _ hv
  unfold matchRangeE
  simp only [hT, hmn, hmx, hv, bind, Except.bind, pure, Except.pure]
  cases v with
  | none =>
    cases mn <;> cases mx <;> cases hasFlag cond SEL_IN_RANGE <;>
      simp [Spec.OutOfRange]
  | some x =>
    have hk' := hk x rfl
    by_cases ht : (itype == "time".toStr) = true
    · have ht' : itype = "time".toStr := by simpa using ht
      cases mn with
      | none =>
        cases mx <;> cases hasFlag cond SEL_IN_RANGE <;>
          simp [Spec.OutOfRange, ht, ltV]
      | some a =>
        cases mx with
        | none => cases hasFlag cond SEL_IN_RANGE <;> simp [Spec.OutOfRange, ht, ltV]
        | some b =>
          by_cases hw : ltP b a = true
          · cases hasFlag cond SEL_IN_RANGE <;> cases h1 : ltP x a <;> cases h2 : ltP b x <;>
              simp [Spec.OutOfRange, ht', ltV, hw, h1, h2]
          · cases hasFlag cond SEL_IN_RANGE <;> cases h1 : ltP x a <;> cases h2 : ltP b x <;>
              simp [Spec.OutOfRange, ht', ltV, hw, h1, h2]
    · have hl := hk'.resolve_left ht
      have ht' : ¬ itype = "time".toStr := by simpa using ht
      cases mn <;> cases mx <;> cases hasFlag cond SEL_IN_RANGE <;>
        simp [Spec.OutOfRange, ht, ht', ltV, hl]

/-- `match_range` never raises when the four attributes are absent or plain strings (for every
    year, below 1000 and above 9999 included: the week count is arithmetic). -/
theorem range_total (c : Ctx) (e : Elem) (cond : Nat)
    (hstr : ∀ k l, c.attrByName e k ≠ some (.list l)) :
    ∃ b, matchRangeE c e cond = .ok b := by
  have hT : ∃ itype, lowerE ((c.attrByName e "type".toStr).getD (.str [])) = .ok itype := by
    cases h0 : c.attrByName e "type".toStr with
    | none => exact ⟨_, rfl⟩
    | some x =>
      cases x with
      | str s => exact ⟨_, rfl⟩
      | list l => exact absurd h0 (hstr _ _)
  obtain ⟨itype, hT⟩ := hT
  have hP : ∀ k, ∃ r, parseValueE itype (c.attrByName e k) = .ok r := by
    intro k
    cases h0 : c.attrByName e k with
    | none => exact ⟨_, rfl⟩
    | some x =>
      cases x with
      | str s => exact ⟨_, rfl⟩
      | list l => exact absurd h0 (hstr _ _)
  obtain ⟨mn, hmn⟩ := hP "min".toStr
  obtain ⟨mx, hmx⟩ := hP "max".toStr
  obtain ⟨v, hv⟩ := hP "value".toStr
  obtain ⟨b, hb, -⟩ := range_def c e cond itype mn mx v hT hmn hmx hv
  exact ⟨b, hb⟩

/-- An invalid or missing `value` is never out of range (and is in range as soon as there is a
    valid `min` or `max`). -/
theorem range_missing_value (c : Ctx) (e : Elem) (cond : Nat) (itype : Str) (mn mx : Option PVal)
    (hT : lowerE ((c.attrByName e "type".toStr).getD (.str [])) = .ok itype)
    (hmn : parseValueE itype (c.attrByName e "min".toStr) = .ok mn)
    (hmx : parseValueE itype (c.attrByName e "max".toStr) = .ok mx)
    (hv : parseValueE itype (c.attrByName e "value".toStr) = .ok none) :
    matchRangeE c e cond =
      .ok (hasFlag cond SEL_IN_RANGE && (mn.isSome || mx.isSome)) := by
  obtain ⟨b, hb, hiff⟩ := range_def c e cond itype mn mx none hT hmn hmx hv
  rw [hb]
  congr 1
  cases b <;> cases hf : hasFlag cond SEL_IN_RANGE <;> cases mn <;> cases mx <;>
    simp_all [Spec.OutOfRange]

/-- No valid `min` and no valid `max`: neither `:in-range` nor `:out-of-range` matches. -/
theorem range_no_bounds (c : Ctx) (e : Elem) (cond : Nat) (itype : Str) (v : Option PVal)
    (hT : lowerE ((c.attrByName e "type".toStr).getD (.str [])) = .ok itype)
    (hmn : parseValueE itype (c.attrByName e "min".toStr) = .ok none)
    (hmx : parseValueE itype (c.attrByName e "max".toStr) = .ok none)
    (hv : parseValueE itype (c.attrByName e "value".toStr) = .ok v) :
    matchRangeE c e cond = .ok false := by
  obtain ⟨b, hb, hiff⟩ := range_def c e cond itype none none v hT hmn hmx hv
  rw [hb]; cases b
  · rfl
  · simp at hiff

/-- Times of day, minimum later than maximum: the range wraps around midnight, and a valid time
    is out of range exactly when it lies strictly after the maximum and strictly before the
    minimum (in minutes since midnight). -/
theorem range_time_wrap (h1 i1 h2 i2 h i : Nat) (b1 : i1 ≤ 59) (b2 : i2 ≤ 59) (b : i ≤ 59)
    (hw : h2 * 60 + i2 < h1 * 60 + i1) :
    Spec.OutOfRange ltV ("time".toStr = "time".toStr)
        (some (.ints [h1, i1])) (some (.ints [h2, i2])) (some (.ints [h, i])) ↔
      (h2 * 60 + i2 < h * 60 + i ∧ h * 60 + i < h1 * 60 + i1) := by
  have e1 := order_time_mono h2 i2 h1 i1 b2 b1
  have e2 := order_time_mono h2 i2 h i b2 b
  have e3 := order_time_mono h i h1 i1 b b1
  have hw' : Inputs.ltInts [h2, i2] [h1, i1] = true := e1.2 hw
  simp [Spec.OutOfRange, ltV, ltP_ints, hw', e2, e3]

/-- Times of day, minimum not later than maximum: the ordinary interval. -/
theorem range_time_plain (h1 i1 h2 i2 h i : Nat) (b1 : i1 ≤ 59) (b2 : i2 ≤ 59) (b : i ≤ 59)
    (hw : ¬ h2 * 60 + i2 < h1 * 60 + i1) :
    Spec.OutOfRange ltV ("time".toStr = "time".toStr)
        (some (.ints [h1, i1])) (some (.ints [h2, i2])) (some (.ints [h, i])) ↔
      (h * 60 + i < h1 * 60 + i1 ∨ h2 * 60 + i2 < h * 60 + i) := by
  have e1 := order_time_mono h2 i2 h1 i1 b2 b1
  have e2 := order_time_mono h2 i2 h i b2 b
  have e3 := order_time_mono h i h1 i1 b b1
  have hw' : ¬ Inputs.ltInts [h2, i2] [h1, i1] = true := fun hh => hw (e1.1 hh)
  simp [Spec.OutOfRange, ltV, ltP_ints, hw', e2, e3]

/-- Dates never wrap: out of range is "before the minimum day or after the maximum day". -/
theorem range_date (y1 m1 d1 y2 m2 d2 y m d : Nat) (itype : Str) (hne : itype ≠ "time".toStr)
    (v1 : Spec.validDate y1 m1 d1) (v2 : Spec.validDate y2 m2 d2) (v : Spec.validDate y m d) :
    Spec.OutOfRange ltV (itype = "time".toStr)
        (some (.ints [y1, m1, d1])) (some (.ints [y2, m2, d2])) (some (.ints [y, m, d])) ↔
      (Spec.dayNumber y m d < Spec.dayNumber y1 m1 d1 ∨
        Spec.dayNumber y2 m2 d2 < Spec.dayNumber y m d) := by
  simp [Spec.OutOfRange, ltV, ltP_ints, hne,
    order_date_mono _ _ _ _ _ _ v v1, order_date_mono _ _ _ _ _ _ v2 v]

/-! ## Non-vacuity -/

-- 23:00–02:00 wraps: 01:30 and 23:30 are in range, 12:00 is out of range
example : ¬ Spec.OutOfRange ltV ("time".toStr = "time".toStr)
    (some (.ints [23, 0])) (some (.ints [2, 0])) (some (.ints [1, 30])) := by
  rw [range_time_wrap _ _ _ _ _ _ (by decide) (by decide) (by decide) (by decide)]; decide
example : Spec.OutOfRange ltV ("time".toStr = "time".toStr)
    (some (.ints [23, 0])) (some (.ints [2, 0])) (some (.ints [12, 0])) := by
  rw [range_time_wrap _ _ _ _ _ _ (by decide) (by decide) (by decide) (by decide)]; decide
example : ¬ Spec.OutOfRange ltV ("time".toStr = "time".toStr)
    (some (PVal.ints [23, 0])) (some (.ints [2, 0])) none := by
  simp [Spec.OutOfRange]

end C18
end SoupVerif
