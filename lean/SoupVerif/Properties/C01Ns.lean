/-
  C01 — the default namespace.

  CSS: under a default namespace EVERY compound selector without a type selector is restricted to
  that namespace (except the subject compound directly inside `:is/:where/:not`):
  `Css.satCss` = `sat ∘ explicitNs`.
  soupsieve: only the last compound of a top-level complex selector gets the implied `*`:
  `Css.satTop` = `sat ∘ withImplied` (proved equal to the matcher in `Properties/C01Sat`).

  Theorem: the two agree whenever no default namespace is declared (`c.nsGet [] = none`, i.e. the
  `namespaces` mapping has no `''` key).  Counter-example with a default namespace: `.a > .b`.
-/
import SoupVerif.Spec.CssNs
import SoupVerif.Properties.C01Sat
namespace SoupVerif
namespace C01Ns
open Css

/-- Without a default namespace the universal selector `*` (no prefix) holds of every element. -/
theorem satType_implied (c : Ctx) (hns : c.nsGet [] = none) (e : Elem) :
    satType c e (some ⟨.default, none⟩) = true := by
  simp only [satType, matchTag, TypeSel.toSelTag, NsSpec.toPfx, Option.getD_none, matchNamespace,
    hns, matchTagname, Bool.true_and]
  cases c.isXml <;> simp [lower, lowerCp]

set_option linter.unusedSectionVars false

section
variable (c : Ctx) (hns : c.nsGet [] = none)
include hns

mutual
theorem simple_ns : ∀ (s : Simple) (l : Loc) (e : Elem),
    satSimple c l e s.explicitNs = satSimple c l e s
  | .neg L, l, e => by simp only [Simple.explicitNs, satSimple, subjects_ns L l]
  | .is L, l, e => by simp only [Simple.explicitNs, satSimple, subjects_ns L l]
  | .has L, l, e => by simp only [Simple.explicitNs, satSimple, rels_ns L l]
  | .id _, _, _ => rfl
  | .cls _, _, _ => rfl
  | .attr _ _ _, _, _ => rfl
  | .root, _, _ => rfl
  | .empty, _, _ => rfl
  | .firstChild, _, _ => rfl
  | .lastChild, _, _ => rfl
  | .onlyChild, _, _ => rfl
  | .firstOfType, _, _ => rfl
  | .lastOfType, _, _ => rfl
  | .onlyOfType, _, _ => rfl
theorem parts_ns : ∀ (ps : List Simple) (l : Loc) (e : Elem),
    satParts c l e (explicitParts ps) = satParts c l e ps
  | [], _, _ => rfl
  | s :: rest, l, e => by
    simp only [explicitParts, satParts, simple_ns s l e, parts_ns rest l e]
theorem compound_ns : ∀ (cp : Compound) (b : Bool) (l : Loc),
    satCompound c l (cp.explicitNs b) = satCompound c l cp
  | .mk tag parts, b, l => by
    simp only [Compound.explicitNs, satCompound]
    cases hf : l.focus with
    | str k s => rfl
    | elem e kids =>
      simp only [parts_ns parts l e]
      congr 1
      cases tag with
      | some t => rfl
      | none =>
        cases b with
        | false => rfl
        | true =>
          show satType c e (some ⟨.default, none⟩) = satType c e none
          rw [satType_implied c hns e]; rfl
theorem complex_ns : ∀ (x : Complex) (b : Bool) (l : Loc),
    sat c l (x.explicitNs b) = sat c l x
  | .one cp, b, l => by simp only [Complex.explicitNs, sat, compound_ns cp b l]
  | .comb L k R, b, l => by
    simp only [Complex.explicitNs, sat, compound_ns R b l]
    congr 2
    funext t
    exact complex_ns L true t
theorem subjects_ns : ∀ (L : List Complex) (l : Loc),
    satAny c l (explicitSubjects L) = satAny c l L
  | [], _ => rfl
  | x :: rest, l => by
    simp only [explicitSubjects, satAny, complex_ns x false l, subjects_ns rest l]
theorem rels_ns : ∀ (L : List RelSel) (l : Loc),
    satHasAny c l (explicitRels L) = satHasAny c l L
  | [], _ => rfl
  | r :: rest, l => by
    simp only [explicitRels, satHasAny, rel_ns r l, rels_ns rest l]
theorem rel_ns : ∀ (r : RelSel) (l : Loc), satRel c l r.explicitNs = satRel c l r
  | .mk k x, l => by
    simp only [RelSel.explicitNs, satRel]
    congr 1
    funext t
    exact fwd_ns x true (fun _ => true) t
theorem fwd_ns : ∀ (x : Complex) (b : Bool) (done : Loc → Bool) (t : Loc),
    satFwd c (x.explicitNs b) done t = satFwd c x done t
  | .one cp, b, done, t => by simp only [Complex.explicitNs, satFwd, compound_ns cp b t]
  | .comb L k R, b, done, t => by
    simp only [Complex.explicitNs, satFwd]
    have : (fun u => (rightOf k u).any (fun v => satCompound c v (R.explicitNs b) && done v)) =
        (fun u => (rightOf k u).any (fun v => satCompound c v R && done v)) := by
      funext u; congr 1; funext v; rw [compound_ns R b v]
    rw [this]
    exact fwd_ns L true _ t
end

/-- **Without a default namespace, soupsieve's placement of the implied `*` is immaterial:**
    the meaning CSS gives (`satCss`: every compound) equals the one soupsieve implements
    (`satTop`: last compound only), and both equal the bare meaning. -/
theorem satCss_eq_satTop (x : Complex) (l : Loc) : satCss c l x = satTop c l x := by
  unfold satCss satTop
  rw [complex_ns c hns x true l]
  cases x with
  | one cp =>
    cases cp with
    | mk tag parts =>
      cases tag with
      | some t => rfl
      | none =>
        simp only [Complex.withImplied, Compound.withImplied, sat, satCompound]
        cases l.focus with
        | str k s => rfl
        | elem e kids =>
          simp only [satType_implied c hns]
          simp [satType]
  | comb L k R =>
    cases R with
    | mk tag parts =>
      cases tag with
      | some t => rfl
      | none =>
        simp only [Complex.withImplied, Compound.withImplied, sat, satCompound]
        cases l.focus with
        | str k s => rfl
        | elem e kids =>
          simp only [satType_implied c hns]
          simp [satType]

end

/-- `select` against the CSS meaning, when no default namespace is declared. -/
theorem select_exact_css (c : Ctx) (hifr : c.iframeRestrict = false) (hns : c.nsGet [] = none)
    (L : List Complex) (hwf : ∀ x ∈ L, x.wf = true)
    (hfold : (∀ x ∈ L, x.caseSensitiveIn c = true) ∨ c.env.fold = lowerCp)
    (tag : Loc) (hroot : (∀ x ∈ L, x.noRoot = true) ∨ SatRoot.RootAgrees c tag.top)
    (limit : Int) (hlim : limit < 1) :
    selectIn c (compileList L) tag limit =
      (descendantElems tag).filter (fun l => !l.isDoc && L.any (satCss c l)) := by
  rw [C01Sat.select_exact c hifr L hwf hfold tag hroot limit hlim]
  unfold selectSpec
  congr 1
  funext l
  congr 2
  funext x
  exact (satCss_eq_satTop c hns x l).symm

/-! ### With a default namespace they differ: `.a > .b` -/

namespace Example
open C01Sat.Examples

def nsE (n ns : String) (attrs : List Attr := []) : Elem := ⟨false, n.toStr, none, some ns.toStr, attrs⟩

/-- `<r xmlns="u"><x xmlns="v" class="a"><y xmlns="u" class="b"/></x></r>` -/
def tree : Node :=
  .elem docE [.elem (nsE "r" "u") [.elem (nsE "x" "v" [sattr "class" "a"]) [
    .elem (nsE "y" "u" [sattr "class" "b"]) []]]]
def top : Loc := ⟨tree, []⟩
def ctx : Ctx := mkCtx E0 true [([], "u".toStr)] top

/-- `.a > .b` -/
def x : Complex := .comb (.one (.mk none [.cls "a".toStr])) .child (.mk none [.cls "b".toStr])

example : ctx.nsGet [] = some "u".toStr := by decide
-- soupsieve (model and specification of what it implements): `y` is selected …
example : (selectIn ctx (compileList [x]) top 0).map Loc.pos = [[0, 0, 0]] := by decide
example : (selectSpec ctx [x] top).map Loc.pos = [[0, 0, 0]] := by decide
-- … CSS: `.a` is `*.a` in the default namespace `u`, `x` is in `v`: nothing is selected.
example : ((descendantElems top).filter (fun l => !l.isDoc && [x].any (satCss ctx l))).map Loc.pos = [] := by
  decide

end Example

end C01Ns
end SoupVerif
