/-
  C01 — the default namespace.

  CSS (`Css.satCss`, reading (a)-(c) of `Spec/CssNs.lean`): under a default namespace every
  compound selector without a type selector is restricted to that namespace, except the subject
  compound directly inside `:is/:where/:not` (and, when `hasExempt`, inside `:has`).
  soupsieve after repair ccd8955 (`Css.satTop` = `sat ∘ withImplied`, proved equal to the matcher
  in `Properties/C01Sat`): every compound of a top-level complex selector gets the implied `*`;
  inside pseudo-class arguments none does.

  Theorems (for both readings of `:has`):
    * `satCss_eq_satTop` : the two agree when no default namespace is declared
      (`c.nsGet [] = none`: the `namespaces` mapping has no `''` key), OR — whatever the
      namespaces — when `x.nsAgree`: every compound inside a pseudo-class argument that CSS
      subjects to the default namespace carries an explicit type / universal selector.  In
      particular every selector without `:is/:not/:has` arguments (`.a > .b` …) now agrees.
    * what remains different, with a default namespace, by `decide`: `:is(.a > .b)` (the
      non-subject compound `.a` of an argument), and — reading `hasExempt = false` only —
      `r:has(> .a)`.
-/
import SoupVerif.Spec.CssNs
import SoupVerif.Properties.C01Sat
namespace SoupVerif
namespace C01Ns
open Css

/-- Without a default namespace the universal selector `*` (no prefix) holds of every element. -/
theorem satType_implied (c : Ctx) (hns : c.nsGet [] = none) (e : Elem) :
    satType c e (some ⟨.default, none⟩) = true := by
  simp only [satType, matchTag, TypeSel.toSelTag, NsSpec.toPfx, Option.getD_none, matchNamespace,
    hns, matchTagname, Bool.true_and]
  cases c.isXml <;> simp [lower, lowerCp]

set_option linter.unusedSectionVars false

/-! ### No default namespace: every placement of the implied `*` is immaterial -/

section
variable (h : Bool) (c : Ctx) (hns : c.nsGet [] = none)
include hns

mutual
theorem simple_ns : ∀ (s : Simple) (l : Loc) (e : Elem),
    satSimple c l e (s.explicitNs h) = satSimple c l e s
  | .neg L, l, e => by simp only [Simple.explicitNs, satSimple, subjects_ns L l]
  | .is L, l, e => by simp only [Simple.explicitNs, satSimple, subjects_ns L l]
  | .has L, l, e => by simp only [Simple.explicitNs, satSimple, rels_ns L l]
  | .id _, _, _ => rfl
  | .cls _, _, _ => rfl
  | .attr _ _ _, _, _ => rfl
  | .root, _, _ => rfl
  | .empty, _, _ => rfl
  | .firstChild, _, _ => rfl
  | .lastChild, _, _ => rfl
  | .onlyChild, _, _ => rfl
  | .firstOfType, _, _ => rfl
  | .lastOfType, _, _ => rfl
  | .onlyOfType, _, _ => rfl
theorem parts_ns : ∀ (ps : List Simple) (l : Loc) (e : Elem),
    satParts c l e (explicitParts h ps) = satParts c l e ps
  | [], _, _ => rfl
  | s :: rest, l, e => by
    simp only [explicitParts, satParts, simple_ns s l e, parts_ns rest l e]
theorem compound_ns : ∀ (cp : Compound) (b : Bool) (l : Loc),
    satCompound c l (cp.explicitNs h b) = satCompound c l cp
  | .mk tag parts, b, l => by
    simp only [Compound.explicitNs, satCompound]
    cases hf : l.focus with
    | str k s => rfl
    | elem e kids =>
      simp only [parts_ns parts l e]
      congr 1
      cases tag with
      | some t => rfl
      | none =>
        cases b with
        | false => rfl
        | true =>
          show satType c e (some ⟨.default, none⟩) = satType c e none
          rw [satType_implied c hns e]; rfl
theorem complex_ns : ∀ (x : Complex) (b : Bool) (l : Loc),
    sat c l (x.explicitNs h b) = sat c l x
  | .one cp, b, l => by simp only [Complex.explicitNs, sat, compound_ns cp b l]
  | .comb L k R, b, l => by
    simp only [Complex.explicitNs, sat, compound_ns R b l]
    congr 2
    funext t
    exact complex_ns L true t
theorem subjects_ns : ∀ (L : List Complex) (l : Loc),
    satAny c l (explicitSubjects h L) = satAny c l L
  | [], _ => rfl
  | x :: rest, l => by
    simp only [explicitSubjects, satAny, complex_ns x false l, subjects_ns rest l]
theorem rels_ns : ∀ (L : List RelSel) (l : Loc),
    satHasAny c l (explicitRels h L) = satHasAny c l L
  | [], _ => rfl
  | r :: rest, l => by
    simp only [explicitRels, satHasAny, rel_ns r l, rels_ns rest l]
theorem rel_ns : ∀ (r : RelSel) (l : Loc), satRel c l (r.explicitNs h) = satRel c l r
  | .mk k x, l => by
    simp only [RelSel.explicitNs, satRel]
    congr 1
    funext t
    exact fwd_ns x (!h) (fun _ => true) t
theorem fwd_ns : ∀ (x : Complex) (b : Bool) (done : Loc → Bool) (t : Loc),
    satFwd c (x.explicitNs h b) done t = satFwd c x done t
  | .one cp, b, done, t => by simp only [Complex.explicitNs, satFwd, compound_ns cp b t]
  | .comb L k R, b, done, t => by
    simp only [Complex.explicitNs, satFwd]
    have : (fun u => (rightOf k u).any (fun v => satCompound c v (R.explicitNs h b) && done v)) =
        (fun u => (rightOf k u).any (fun v => satCompound c v R && done v)) := by
      funext u; congr 1; funext v; rw [compound_ns R b v]
    rw [this]
    exact fwd_ns L true _ t
end

omit h in
theorem compound_withImplied_ns (cp : Compound) (l : Loc) :
    satCompound c l cp.withImplied = satCompound c l cp := by
  cases cp with
  | mk tag parts =>
    cases tag with
    | some t => rfl
    | none =>
      simp only [Compound.withImplied, satCompound]
      cases l.focus with
      | str k s => rfl
      | elem e kids =>
        simp only [satType_implied c hns]
        simp [satType]

omit h in
theorem withImplied_ns : ∀ (x : Complex) (l : Loc), sat c l x.withImplied = sat c l x
  | .one cp, l => by simp only [Complex.withImplied, sat, compound_withImplied_ns c hns cp l]
  | .comb L k R, l => by
    simp only [Complex.withImplied, sat, compound_withImplied_ns c hns R l]
    congr 2
    funext t
    exact withImplied_ns L t

end

/-! ### Any namespaces: when the pseudo-class arguments are explicit, the selectors coincide -/

section
variable (h : Bool)

mutual
theorem simple_id : ∀ (s : Simple), s.nsAgree h = true → s.explicitNs h = s
  | .neg L, ha => by simp only [Simple.explicitNs, subjects_id L ha]
  | .is L, ha => by simp only [Simple.explicitNs, subjects_id L ha]
  | .has L, ha => by simp only [Simple.explicitNs, rels_id L ha]
  | .id _, _ => rfl
  | .cls _, _ => rfl
  | .attr _ _ _, _ => rfl
  | .root, _ => rfl
  | .empty, _ => rfl
  | .firstChild, _ => rfl
  | .lastChild, _ => rfl
  | .onlyChild, _ => rfl
  | .firstOfType, _ => rfl
  | .lastOfType, _ => rfl
  | .onlyOfType, _ => rfl
theorem parts_id : ∀ (ps : List Simple), agreeParts h ps = true → explicitParts h ps = ps
  | [], _ => rfl
  | s :: rest, ha => by
    simp only [agreeParts, Bool.and_eq_true] at ha
    simp only [explicitParts, simple_id s ha.1, parts_id rest ha.2]
theorem compound_id : ∀ (cp : Compound) (b : Bool), cp.nsAgreeIn h b = true → cp.explicitNs h b = cp
  | .mk tag parts, b, ha => by
    simp only [Compound.nsAgreeIn, Bool.and_eq_true] at ha
    simp only [Compound.explicitNs, parts_id parts ha.2]
    cases tag with
    | some t => rfl
    | none =>
      cases b with
      | false => rfl
      | true => simp at ha
theorem complex_id : ∀ (x : Complex) (b : Bool), x.nsAgreeIn h b = true → x.explicitNs h b = x
  | .one cp, b, ha => by simp only [Complex.explicitNs, compound_id cp b ha]
  | .comb L k R, b, ha => by
    simp only [Complex.nsAgreeIn, Bool.and_eq_true] at ha
    simp only [Complex.explicitNs, complex_id L true ha.1, compound_id R b ha.2]
theorem subjects_id : ∀ (L : List Complex), agreeSubjects h L = true → explicitSubjects h L = L
  | [], _ => rfl
  | x :: rest, ha => by
    simp only [agreeSubjects, Bool.and_eq_true] at ha
    simp only [explicitSubjects, complex_id x false ha.1, subjects_id rest ha.2]
theorem rels_id : ∀ (L : List RelSel), agreeRels h L = true → explicitRels h L = L
  | [], _ => rfl
  | r :: rest, ha => by
    simp only [agreeRels, Bool.and_eq_true] at ha
    simp only [explicitRels, rel_id r ha.1, rels_id rest ha.2]
theorem rel_id : ∀ (r : RelSel), r.nsAgree h = true → r.explicitNs h = r
  | .mk k x, ha => by simp only [RelSel.explicitNs, complex_id x (!h) ha]
end

theorem compound_top (cp : Compound) (ha : cp.nsAgreeTop h = true) :
    cp.explicitNs h true = cp.withImplied := by
  cases cp with
  | mk tag parts =>
    simp only [Compound.explicitNs, parts_id h parts ha]
    cases tag <;> rfl

/-- Under `nsAgree` the CSS placement of the implied `*` and the parser's are the same selector. -/
theorem complex_top : ∀ (x : Complex), x.nsAgree h = true → x.explicitNs h true = x.withImplied
  | .one cp, ha => by simp only [Complex.explicitNs, Complex.withImplied, compound_top h cp ha]
  | .comb L k R, ha => by
    simp only [Complex.nsAgree, Bool.and_eq_true] at ha
    simp only [Complex.explicitNs, Complex.withImplied, complex_top L ha.1, compound_top h R ha.2]

end

/-- **CSS reading = what soupsieve implements**, for both readings of `:has`, when no default
    namespace is declared or the pseudo-class arguments carry explicit type selectors where CSS
    would imply one. -/
theorem satCss_eq_satTop (h : Bool) (c : Ctx) (x : Complex)
    (hyp : c.nsGet [] = none ∨ x.nsAgree h = true) (l : Loc) :
    satCss h c l x = satTop c l x := by
  unfold satCss satTop
  rcases hyp with hns | ha
  · rw [complex_ns h c hns x true l, withImplied_ns c hns x l]
  · rw [complex_top h x ha]

/-- `select` against the CSS meaning. -/
theorem select_exact_css (h : Bool) (c : Ctx) (hifr : c.iframeRestrict = false)
    (L : List Complex) (hns : c.nsGet [] = none ∨ ∀ x ∈ L, x.nsAgree h = true)
    (hwf : ∀ x ∈ L, x.wf = true)
    (hfold : (∀ x ∈ L, x.caseSensitiveIn c = true) ∨ c.env.fold = lowerCp)
    (tag : Loc) (hroot : (∀ x ∈ L, x.noRoot = true) ∨ SatRoot.RootAgrees c tag.top)
    (limit : Int) (hlim : limit < 1) :
    selectIn c (compileList L) tag limit =
      (descendantElems tag).filter (fun l => !l.isDoc && L.any (satCss h c l)) := by
  rw [C01Sat.select_exact c hifr L hwf hfold tag hroot limit hlim]
  unfold selectSpec
  congr 1
  funext l
  congr 1
  apply SatCore.any_congr_mem
  intro x hx
  exact (satCss_eq_satTop h c x (hns.elim Or.inl (fun ha => Or.inr (ha x hx))) l).symm

/-! ### With a default namespace -/

namespace Example
open C01Sat.Examples

def nsE (n ns : String) (attrs : List Attr := []) : Elem := ⟨false, n.toStr, none, some ns.toStr, attrs⟩

/-- `<r xmlns="u"><x xmlns="v" class="a"><y xmlns="u" class="b"/></x></r>` -/
def tree : Node :=
  .elem docE [.elem (nsE "r" "u") [.elem (nsE "x" "v" [sattr "class" "a"]) [
    .elem (nsE "y" "u" [sattr "class" "b"]) []]]]
def top : Loc := ⟨tree, []⟩
def ctx : Ctx := mkCtx E0 true [([], "u".toStr)] top

def cssSelect (h : Bool) (L : List Complex) : List (List Nat) :=
  ((descendantElems top).filter (fun l => !l.isDoc && L.any (satCss h ctx l))).map Loc.pos

example : ctx.nsGet [] = some "u".toStr := by decide

/-- `.a > .b` — the former counter-example: `.a` is `*.a` in the default namespace `u`, `x` is in
    `v`, nothing is selected; the matcher now agrees. -/
def x : Complex := .comb (.one (.mk none [.cls "a".toStr])) .child (.mk none [.cls "b".toStr])
example : x.nsAgree false = true ∧ x.nsAgree true = true := by decide
example : (selectIn ctx (compileList [x]) top 0).map Loc.pos = [] := by decide
example : (selectSpec ctx [x] top).map Loc.pos = [] := by decide
example : cssSelect false [x] = [] ∧ cssSelect true [x] = [] := by decide
example (l : Loc) : satCss false ctx l x = satTop ctx l x :=
  satCss_eq_satTop false ctx x (Or.inr (by decide)) l

/-- `:is(.a > .b)` — what remains: the non-subject compound `.a` of a pseudo-class argument gets no
    implied `*` from the parser; CSS restricts it to the default namespace. -/
def y : Complex :=
  .one (.mk none [.is [.comb (.one (.mk none [.cls "a".toStr])) .child (.mk none [.cls "b".toStr])]])
example : y.nsAgree false = false ∧ y.nsAgree true = false := by decide
example : (selectIn ctx (compileList [y]) top 0).map Loc.pos = [[0, 0, 0]] := by decide
example : (selectSpec ctx [y] top).map Loc.pos = [[0, 0, 0]] := by decide
example : cssSelect false [y] = [] ∧ cssSelect true [y] = [] := by decide
/-- … and writing the universal selector explicitly restores agreement: `:is(*.a > .b)`. -/
def y' : Complex :=
  .one (.mk none [.is [.comb (.one (.mk (some ⟨.default, none⟩) [.cls "a".toStr])) .child
    (.mk none [.cls "b".toStr])]])
example : y'.nsAgree false = true := by decide
example : (selectIn ctx (compileList [y']) top 0).map Loc.pos = [] := by decide
example : cssSelect false [y'] = [] := by decide

/-- `r:has(> .a)` — differs only under the reading in which `:has()` arguments have no exemption. -/
def z : Complex :=
  .one (.mk (some ⟨.default, some "r".toStr⟩) [.has [.mk .child (.one (.mk none [.cls "a".toStr]))]])
example : z.nsAgree false = false ∧ z.nsAgree true = true := by decide
example : (selectIn ctx (compileList [z]) top 0).map Loc.pos = [[0]] := by decide
example : cssSelect false [z] = [] ∧ cssSelect true [z] = [[0]] := by decide

end Example

end C01Ns
end SoupVerif
