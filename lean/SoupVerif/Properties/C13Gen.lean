/-
  C13 — `CSSMatch.extended_language_filter`, TRANSLATED from the Python source on every run
  (`gen/gen_py_loops.py` → `Generated/PyLoops.lean`: `langSplit` = the str / list prefix with the two regex
  substitutions on the regexes regenerated from the source, `langInit` = the other statements before the loop,
  `langCond` / `langStep` = header and body of the `while` loop, `langResult` = the final return, `langRun` = the
  whole function over the fuel-bounded iterator `PyLoop.whileLoop` of `Model/PyLoop.lean`), is proved equal to the
  hand-written model `Lang.extendedFilter` (`Model/Lang.lean`) for ALL range and tag strings:

  * `loop_spec`                 the loop ends within the fuel and leaves the flag `Lang.filterLoop` computes;
  * `runOn_eq_filterCore`       prefix + loop + return on non-empty subtag lists = `Lang.filterCore`
                                (no `IndexError` escapes, the fuel `len(ranges) + len(subtags) + 2` suffices);
  * `langRun_eq_filterCore`     the whole function, for every model `low` of `str.lower()`;
  * `langRun_eq_extendedFilter` with `low := lower` (how `Model/Lang.lean` models `.lower()`): `= Lang.extendedFilter wildStripRx`;
  * `langRun_eq_c13`            the main C13 theorem (RFC 4647 extended filtering + the two edge rules, `Spec.c13Match`)
                                about the translated program;
  * `langStep_mono`             indices are integers (`Int`, Python indexing incl. negative indices is modelled by
                                `PyLoop.getItem`); they never decrease, hence stay ≥ 1 in the loop: the only `IndexError`
                                is `sindex ≥ len(subtags)`.
-/
import SoupVerif.Generated.PyLoops
import SoupVerif.Properties.C13Rx

namespace SoupVerif
namespace C13Gen
open LangLemmas Gen.PyLoops

theorem getItem_nat {α : Type} (l : List α) (i : Nat) (h : i < l.length) :
    PyLoop.getItem l (i : Int) = .ok l[i] := by
  unfold PyLoop.getItem
  have h1 : ¬ ((i : Int) < 0) := by omega
  simp [h1, h]

theorem getItem_len {α : Type} (l : List α) (i : Nat) (h : l.length ≤ i) :
    PyLoop.getItem l (i : Int) = .error .indexError := by
  unfold PyLoop.getItem
  have h1 : ¬ ((i : Int) < 0) := by omega
  simp [h1, h]

theorem whileLoop_done {σ : Type} (cond : σ → Bool) (body : σ → Except PyLoop.Exc σ) (fuel : Nat) (st : σ)
    (h : cond st = false) : PyLoop.whileLoop cond body fuel st = .ok (some st) := by
  cases fuel <;> simp [PyLoop.whileLoop, h]

theorem whileLoop_step {σ : Type} (cond : σ → Bool) (body : σ → Except PyLoop.Exc σ) (fuel : Nat) (st st' : σ)
    (h : cond st = true) (hb : body st = .ok st') :
    PyLoop.whileLoop cond body (fuel + 1) st = PyLoop.whileLoop cond body fuel st' := by
  simp [PyLoop.whileLoop, h, hb]

theorem len_eq_one (n : Nat) : (((n : Int)) == 1) = (n == 1) := by
  rw [Bool.eq_iff_iff]; simp only [beq_iff_eq]; omega

theorem langCond_false (ranges subtags : List Str) (a b : Int) :
    langCond ranges subtags ⟨a, b, false⟩ = false := by
  simp [langCond]

theorem langCond_true (ranges subtags : List Str) (i : Nat) (b : Int) :
    langCond ranges subtags ⟨(i : Int), b, true⟩ = decide (i < ranges.length) := by
  simp [langCond]

/-- The loop, started in a state whose flag is still set, ends (within the fuel) with the flag the hand model's
    `filterLoop` computes on the remaining ranges and subtags. -/
theorem loop_spec (ranges subtags : List Str) :
    ∀ (fuel i j : Nat), i ≤ ranges.length → j ≤ subtags.length → subtags.length - j + 1 ≤ fuel →
      ∃ st', PyLoop.whileLoop (langCond ranges subtags) (langStep ranges subtags) fuel ⟨(i : Int), (j : Int), true⟩
          = .ok (some st') ∧
        st'.matched = Lang.filterLoop (ranges.drop i) (subtags.drop j) := by
  intro fuel
  induction fuel with
  | zero => intro i j _ _ hf; omega
  | succ n ih =>
    intro i j hi hj hf
    by_cases hlt : i < ranges.length
    · -- the body runs
      have hr : PyLoop.getItem ranges (i : Int) = .ok ranges[i] := getItem_nat ranges i hlt
      have hdr : ranges.drop i = ranges[i] :: ranges.drop (i + 1) := List.drop_eq_getElem_cons hlt
      have hc : langCond ranges subtags ⟨(i : Int), (j : Int), true⟩ = true := by
        rw [langCond_true]; simpa using hlt
      by_cases hjlt : j < subtags.length
      · have hs : PyLoop.getItem subtags (j : Int) = .ok subtags[j] := getItem_nat subtags j hjlt
        have hds : subtags.drop j = subtags[j] :: subtags.drop (j + 1) := List.drop_eq_getElem_cons hjlt
        have e1 : ((i : Int) + 1) = ((i + 1 : Nat) : Int) := by omega
        have e2 : ((j : Int) + 1) = ((j + 1 : Nat) : Int) := by omega
        rw [hdr, hds, filterLoop_cons_cons]
        by_cases h1 : (ranges[i]).isEmpty = true
        · have hb : langStep ranges subtags ⟨(i : Int), (j : Int), true⟩ = .ok ⟨(i : Int), (j : Int), false⟩ := by
            simp [langStep, hr, hs, h1]
          rw [whileLoop_step _ _ _ _ _ hc hb, whileLoop_done _ _ _ _ (langCond_false _ _ _ _)]
          exact ⟨_, rfl, by simp [h1]⟩
        · by_cases h2 : (subtags[j] == ranges[i]) = true
          · have hb : langStep ranges subtags ⟨(i : Int), (j : Int), true⟩ =
                .ok ⟨(i : Int) + 1, (j : Int) + 1, true⟩ := by
              simp [langStep, hr, hs, h1, h2]
            rw [e1, e2] at hb
            rw [whileLoop_step _ _ _ _ _ hc hb]
            obtain ⟨st', h3, h4⟩ := ih (i + 1) (j + 1) (by omega) (by omega) (by omega)
            exact ⟨st', h3, by simp [h1, h2, h4]⟩
          · by_cases h3 : (subtags[j].length == 1) = true
            · have hb : langStep ranges subtags ⟨(i : Int), (j : Int), true⟩ = .ok ⟨(i : Int), (j : Int), false⟩ := by
                simp [langStep, hr, hs, h1, h2, len_eq_one, h3]
              rw [whileLoop_step _ _ _ _ _ hc hb, whileLoop_done _ _ _ _ (langCond_false _ _ _ _)]
              exact ⟨_, rfl, by simp [h1, h2, h3]⟩
            · have hb : langStep ranges subtags ⟨(i : Int), (j : Int), true⟩ =
                  .ok ⟨(i : Int), (j : Int) + 1, true⟩ := by
                simp [langStep, hr, hs, h1, h2, len_eq_one, h3]
              rw [e2] at hb
              rw [whileLoop_step _ _ _ _ _ hc hb]
              obtain ⟨st', h5, h6⟩ := ih i (j + 1) hi (by omega) (by omega)
              rw [hdr] at h6
              exact ⟨st', h5, by simp [h1, h2, h3, h6]⟩
      · -- IndexError: out of subtags
        have hj' : j = subtags.length := by omega
        have hs : PyLoop.getItem subtags (j : Int) = .error .indexError := getItem_len subtags j (by omega)
        have hb : langStep ranges subtags ⟨(i : Int), (j : Int), true⟩ = .ok ⟨(i : Int), (j : Int), false⟩ := by
          simp [langStep, hr, hs]
        rw [whileLoop_step _ _ _ _ _ hc hb, whileLoop_done _ _ _ _ (langCond_false _ _ _ _)]
        refine ⟨_, rfl, ?_⟩
        rw [hdr, hj', List.drop_length, filterLoop_cons_nil]
    · -- out of ranges: the loop has ended
      have hi' : i = ranges.length := by omega
      have hc : langCond ranges subtags ⟨(i : Int), (j : Int), true⟩ = false := by
        rw [langCond_true]; simpa using hlt
      rw [whileLoop_done _ _ _ _ hc]
      refine ⟨_, rfl, ?_⟩
      rw [hi', List.drop_length, filterLoop_nil]

/-- `langRun` after the string-level prefix, as a function of the two subtag lists (the same term). -/
def runOn (ranges subtags : List Str) : Except PyLoop.Exc (Option Bool) :=
  match langInit ranges subtags with
  | .error e => .error e
  | .ok (.inl b) => .ok (some b)
  | .ok (.inr st) =>
    match PyLoop.whileLoop (langCond ranges subtags) (langStep ranges subtags) (ranges.length + subtags.length + 2) st with
    | .error e => .error e
    | .ok none => .ok none
    | .ok (some st) => .ok (some (langResult st))

theorem langRun_eq_runOn (low : Str → Str) (range tag : Str) :
    langRun low range tag = runOn (langSplit low range tag).1 (langSplit low range tag).2 := rfl

theorem len_cons_eq_one (x : Str) (xs : List Str) : ((((x :: xs).length : Nat) : Int) == 1) = xs.isEmpty := by
  rw [len_eq_one]; cases xs <;> simp

/-- On non-empty subtag lists (all `str.split` produces) the translated program neither raises nor runs out of
    fuel, and returns what the hand model `Lang.filterCore` returns. -/
theorem runOn_eq_filterCore (r : Str) (rs : List Str) (s : Str) (ss : List Str) :
    runOn (r :: rs) (s :: ss) = .ok (some (Lang.filterCore (r :: rs) (s :: ss))) := by
  have g1 : PyLoop.getItem (r :: rs) 0 = .ok r := getItem_nat (r :: rs) 0 (by simp)
  have g2 : PyLoop.getItem (s :: ss) 0 = .ok s := getItem_nat (s :: ss) 0 (by simp)
  unfold runOn Lang.filterCore
  by_cases h0 : (rs.isEmpty && r.isEmpty) = true
  · -- the early return
    have hi : langInit (r :: rs) (s :: ss) = .ok (.inl (ss.isEmpty && r == s)) := by
      simp only [langInit, g1, g2, Int.ofNat_eq_natCast, len_cons_eq_one]
      simp [h0]
    simp [hi, h0]
  · by_cases h1 : ((r != "*".toStr && r != s) || (r == "*".toStr && ss.isEmpty && s.isEmpty)) = true
    · -- the primary subtag does not match: the loop is not entered
      have hi : langInit (r :: rs) (s :: ss) = .ok (.inr ⟨1, 1, false⟩) := by
        simp only [langInit, g1, g2, Int.ofNat_eq_natCast, len_cons_eq_one]
        simp [h0, h1]
      simp only [hi, whileLoop_done _ _ _ _ (langCond_false _ _ _ _)]
      simp [h0, h1, langResult]
    · have hi : langInit (r :: rs) (s :: ss) = .ok (.inr ⟨((1 : Nat) : Int), ((1 : Nat) : Int), true⟩) := by
        simp only [langInit, g1, g2, Int.ofNat_eq_natCast, len_cons_eq_one]
        simp [h0, h1]
      obtain ⟨st', h3, h4⟩ := loop_spec (r :: rs) (s :: ss) ((r :: rs).length + (s :: ss).length + 2) 1 1
        (by simp) (by simp) (by simp; omega)
      simp only [hi, h3]
      simp [h0, h1, langResult, h4]

/-- The string-level prefix: the regex substitutions are `wildStripRx` (the regex-engine model on the two
    regexes regenerated from the source), then `.lower()` and `.split('-')`. -/
theorem langSplit_eq (low : Str → Str) (range tag : Str) :
    langSplit low range tag = (splitOn 45 (low (wildStripRx range)), splitOn 45 (low tag)) := by
  -- syntactic after unfolding (no evaluation of the regex engine: a changed prefix fails at once)
  simp only [langSplit, wildStripRx, show ("-".toStr : Str) = [45] from by decide,
    show ("".toStr : Str) = [] from by decide]

/-- **`extended_language_filter` translated from the source = the hand model**, for every `str.lower` model `low`
    and all strings: no exception, fuel never exhausted. -/
theorem langRun_eq_filterCore (low : Str → Str) (range tag : Str) :
    langRun low range tag =
      .ok (some (Lang.filterCore (splitOn 45 (low (wildStripRx range))) (splitOn 45 (low tag)))) := by
  rw [langRun_eq_runOn, langSplit_eq]
  obtain ⟨r, rs, hr⟩ := splitOn_exists (low (wildStripRx range))
  obtain ⟨s, ss, hs⟩ := splitOn_exists (low tag)
  simp only [hr, hs]
  exact runOn_eq_filterCore r rs s ss

/-- With `str.lower()` modelled as the hand model models it (`lower`): the translated program is
    `Lang.extendedFilter` on the regex-level wildcard strip. -/
theorem langRun_eq_extendedFilter (range tag : Str) :
    langRun lower range tag = .ok (some (Lang.extendedFilter wildStripRx range tag)) :=
  langRun_eq_filterCore lower range tag

/-- The main C13 theorem about the translated program: RFC 4647 extended filtering with the property's two edge
    rules (`Spec.c13Match`) on the lower-cased subtag lists, for every range text without an empty subtag after
    the first and every tag text. -/
theorem langRun_eq_c13 (range tag : Str) (hne : ∀ x ∈ (splitOn 45 range).tail, x ≠ []) :
    langRun lower range tag =
      .ok (some (Spec.c13Match ((splitOn 45 range).map lower) ((splitOn 45 tag).map lower))) := by
  rw [langRun_eq_extendedFilter, C13Rx.extendedFilter_rx_eq_c13 range tag hne]

/-- Case-insensitivity of the translated program. -/
theorem langRun_case_insensitive (r r' t t' : Str) (hr : lower r = lower r') (ht : lower t = lower t') :
    langRun lower r t = langRun lower r' t' := by
  rw [langRun_eq_extendedFilter, langRun_eq_extendedFilter, C13Rx.filter_rx_case_insensitive r r' t t' hr ht]

/-! ### The indices never go negative (so `subtags[sindex]` raises exactly when `sindex ≥ len(subtags)`) -/

/-- One iteration keeps both indices non-negative and never decreases them. -/
theorem langStep_mono (ranges subtags : List Str) (st st' : LState)
    (h : langStep ranges subtags st = .ok st') :
    st.rindex ≤ st'.rindex ∧ st.sindex ≤ st'.sindex := by
  unfold langStep at h
  dsimp only at h
  repeat' split at h
  all_goals (cases h; try (constructor <;> (try dsimp only) <;> omega))

/-- The loop is entered with both indices equal to 1. -/
theorem langInit_state (ranges subtags : List Str) (st : LState)
    (h : langInit ranges subtags = .ok (.inr st)) : st.rindex = 1 ∧ st.sindex = 1 := by
  unfold langInit at h
  dsimp only at h
  repeat' split at h
  all_goals (cases h; try (constructor <;> rfl))

/-- For a non-negative index, `l[i]` raises exactly when `i ≥ len(l)`. -/
theorem getItem_error_iff {α : Type} (l : List α) (i : Int) (h : 0 ≤ i) :
    PyLoop.getItem l i = .error .indexError ↔ (l.length : Int) ≤ i := by
  obtain ⟨n, rfl⟩ := Int.eq_ofNat_of_zero_le h
  by_cases hn : n < l.length
  · rw [getItem_nat l n hn]; constructor
    · intro hh; cases hh
    · intro hh; omega
  · rw [getItem_len l n (by omega)]; constructor
    · intro _; omega
    · intro _; rfl

/-! ### Non-vacuity (kernel evaluation of the translated program) -/

/-- the answer of a run: `some b` = returned `b`; `none` = raised or out of fuel -/
def answer : Except PyLoop.Exc (Option Bool) → Option Bool
  | .ok (some b) => some b
  | _ => none

example : answer (langRun lower "de-*-DE".toStr "de-Latn-de".toStr) = some true := by decide +kernel
example : answer (langRun lower "de-de".toStr "de-x-de".toStr) = some false := by decide +kernel
example : answer (langRun lower "*".toStr "".toStr) = some false := by decide +kernel
example : answer (langRun lower "".toStr "".toStr) = some true := by decide +kernel
example : answer (langRun lower "*-ch".toStr "de-latn-ch".toStr) = some true := by decide +kernel
-- the iterator reports an exhausted fuel (never the case for `langRun`, by `langRun_eq_filterCore`)
example : PyLoop.whileLoop (fun n : Nat => decide (n < 5)) (fun n => .ok (n + 1)) 3 0 = .ok none := by rfl
example : PyLoop.whileLoop (fun n : Nat => decide (n < 5)) (fun n => .ok (n + 1)) 5 0 = .ok (some 5) := by rfl
-- Python indexing
example : PyLoop.getItem [10, 20, 30] (-1) = .ok 30 ∧ PyLoop.getItem [10, 20, 30] 3 = .error .indexError ∧
    PyLoop.getItem [10, 20, 30] (-4) = .error .indexError := ⟨by rfl, by rfl, by rfl⟩

end C13Gen
end SoupVerif
