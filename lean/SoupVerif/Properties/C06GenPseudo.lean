/-
  C06 / C09 / C17 — the dispatch of `CSSParser.parse_pseudo_class` on the pseudo-class NAME, tied to the
  source text by translation + proof.

  `gen/gen_py_parsedisp.py` reads `parse_pseudo_class` from css_parser.py with `ast` on every run: the frame
  (`complex_pseudo`, the six `PSEUDO_*` table tests in their order, the two raises, `return has_selector, is_html`)
  is compared with a template (fail closed); the `if pseudo == ':root' … elif pseudo in (':link', ':any-link') …`
  chain of the `PSEUDO_SIMPLE` branch is emitted as
  `Gen.PyParseDisp.pseudoNames : List (List String × ParseDisp.PseudoAction)` in source order.

  Proved here about the hand model (`Parser.applySimplePseudo`, and `Refine.Compile.plainPseudo`, the function
  `C09Compile.denote`, `C17Parse`, `C02Parse`, `C05Parse` reason with):

  * `pseudoNames_keys`, `pseudoNames_nodup`: the names of the chain are exactly the regenerated `PSEUDO_SIMPLE`
    table, each once: every simple pseudo-class has a branch, no branch is dead (`every_simple_has_branch`).
  * `pseudo_dispatch_agrees`: for EVERY string, the branch the source takes is the one the model takes.
  * `applySimplePseudo_eq_runPseudo` / `applySimplePseudo_gen`: the model function factors through the table /
    through the GENERATED table.
  * `plainPseudo_gen`: `plainPseudo B n b` is the generated table guarded by the regenerated `PSEUDO_SIMPLE`.
  * `builtinOf_gen`: the module-level names the branches append are the regenerated lists of `Generated/Builtins.lean`.
  * `state_keyword_gen`: C17's `plainPseudo_state` restated over the generated table.
-/
import SoupVerif.Generated.PyParseDisp
import SoupVerif.Generated.Lexicon
import SoupVerif.Generated.Tables
import SoupVerif.Refine.CompilePseudo
import SoupVerif.Refine.C17ParseBase
namespace SoupVerif
namespace C06GenPseudo
open Rx SoupVerif.Parser SoupVerif.ParseDisp SoupVerif.Refine.Compile

/-- The names of the chain are exactly the regenerated `PSEUDO_SIMPLE`. -/
theorem pseudoNames_keys (n : Str) :
    n ∈ (pseudoKeysOf Gen.PyParseDisp.pseudoNames).map String.toStr ↔ n ∈ Gen.PSEUDO_SIMPLE := by
  have h1 : ∀ n ∈ (pseudoKeysOf Gen.PyParseDisp.pseudoNames).map String.toStr, n ∈ Gen.PSEUDO_SIMPLE := by decide
  have h2 : ∀ n ∈ Gen.PSEUDO_SIMPLE, n ∈ (pseudoKeysOf Gen.PyParseDisp.pseudoNames).map String.toStr := by decide
  exact ⟨h1 n, h2 n⟩

/-- … each once: no name is shadowed by an earlier branch. -/
theorem pseudoNames_nodup : ((pseudoKeysOf Gen.PyParseDisp.pseudoNames).map String.toStr).Nodup := by decide

theorem pseudoActionOf_isSome_iff (table : List (List String × PseudoAction)) (name : Str) :
    (pseudoActionOf table name).isSome ↔ name ∈ (pseudoKeysOf table).map String.toStr := by
  unfold pseudoActionOf pseudoKeysOf
  rw [Option.isSome_map, List.find?_isSome]
  simp only [List.mem_map, List.mem_flatMap, List.any_eq_true, beq_iff_eq]
  constructor
  · rintro ⟨e, he, k, hk, rfl⟩
    exact ⟨k, ⟨e, he, hk⟩, rfl⟩
  · rintro ⟨k, ⟨e, he, hk⟩, rfl⟩
    exact ⟨e, he, k, hk, rfl⟩

theorem pseudoActionOf_eq_none_iff (table : List (List String × PseudoAction)) (name : Str) :
    pseudoActionOf table name = none ↔ name ∉ (pseudoKeysOf table).map String.toStr := by
  rw [← pseudoActionOf_isSome_iff]
  cases pseudoActionOf table name <;> simp

/-- Every simple pseudo-class name has a branch in the source. -/
theorem every_simple_has_branch (n : Str) (h : n ∈ Gen.PSEUDO_SIMPLE) :
    (pseudoActionOf Gen.PyParseDisp.pseudoNames n).isSome := by
  rw [pseudoActionOf_isSome_iff, pseudoNames_keys]; exact h

theorem modelPseudoAction_none_of_not_mem (name : Str) (h : name ∉ modelPseudoKeys.map String.toStr) :
    modelPseudoAction name = none := by
  simp only [modelPseudoKeys, List.map_cons, List.map_nil, List.mem_cons, List.not_mem_nil, or_false, not_or] at h
  obtain ⟨h1, h2, h3, h4, h5, h6, h7, h8, h9, h10, h11, h12, h13, h14, h15, h16, h17, h18, h19, h20, h21, h22, h23, h24⟩ := h
  simp only [modelPseudoAction, beq_iff_eq, Bool.or_eq_true, h1, h2, h3, h4, h5, h6, h7, h8, h9, h10, h11, h12, h13, h14,
    h15, h16, h17, h18, h19, h20, h21, h22, h23, h24, or_self, if_false]

/-- For every string: the branch the source takes for the name is the one the model takes. -/
theorem pseudo_dispatch_agrees (name : Str) :
    pseudoActionOf Gen.PyParseDisp.pseudoNames name = modelPseudoAction name := by
  have hin : ∀ n ∈ modelPseudoKeys.map String.toStr,
      pseudoActionOf Gen.PyParseDisp.pseudoNames n = modelPseudoAction n := by decide
  have hsub : ∀ n ∈ (pseudoKeysOf Gen.PyParseDisp.pseudoNames).map String.toStr,
      n ∈ modelPseudoKeys.map String.toStr := by decide
  by_cases hk : name ∈ modelPseudoKeys.map String.toStr
  · exact hin name hk
  · rw [modelPseudoAction_none_of_not_mem name hk, pseudoActionOf_eq_none_iff]
    exact fun h => hk (hsub name h)

theorem runPseudo_ite (B : Builtins) (c : Prop) [Decidable c] (x y : Option PseudoAction) (sel : SelB) :
    runPseudo B (if c then x else y) sel = if c then runPseudo B x sel else runPseudo B y sel := by
  split <;> rfl

macro "ps_step" : tactic =>
  `(tactic| (rw [runPseudo_ite]; refine ite_congr rfl (fun _ => ?_) (fun _ => ?_)))

/-- The model's name dispatch factors through the table. -/
theorem applySimplePseudo_eq_runPseudo (P : PEnv) (pseudo : Str) (sel : SelB) :
    applySimplePseudo P pseudo sel = runPseudo P.B (modelPseudoAction pseudo) sel := by
  unfold applySimplePseudo modelPseudoAction
  simp only []
  iterate 23 (ps_step; · rfl)
  rfl

/-- … hence through the GENERATED table. -/
theorem applySimplePseudo_gen (P : PEnv) (pseudo : Str) (sel : SelB) :
    applySimplePseudo P pseudo sel = runPseudo P.B (pseudoActionOf Gen.PyParseDisp.pseudoNames pseudo) sel := by
  rw [applySimplePseudo_eq_runPseudo, pseudo_dispatch_agrees]

/-- `plainPseudo` (what `C09Compile.denote` / `C17Parse` / `C02Parse` use for `:name`) over the generated tables. -/
theorem plainPseudo_gen (B : Builtins) (n : Str) (b : SelB) :
    plainPseudo B n b =
      if inList Gen.PSEUDO_SIMPLE n then runPseudo B (pseudoActionOf Gen.PyParseDisp.pseudoNames n) b
      else b.setNoMatch := by
  unfold plainPseudo
  rw [applySimplePseudo_gen]
  rfl

/-- The names the branches append are the regenerated pre-compiled lists. -/
theorem builtinOf_gen :
    builtinOf Gen.builtinsRec "CSS_LINK" = some Gen.CSS_LINK ∧ builtinOf Gen.builtinsRec "CSS_CHECKED" = some Gen.CSS_CHECKED ∧
    builtinOf Gen.builtinsRec "CSS_DEFAULT" = some Gen.CSS_DEFAULT ∧
    builtinOf Gen.builtinsRec "CSS_INDETERMINATE" = some Gen.CSS_INDETERMINATE ∧
    builtinOf Gen.builtinsRec "CSS_DISABLED" = some Gen.CSS_DISABLED ∧ builtinOf Gen.builtinsRec "CSS_ENABLED" = some Gen.CSS_ENABLED ∧
    builtinOf Gen.builtinsRec "CSS_REQUIRED" = some Gen.CSS_REQUIRED ∧ builtinOf Gen.builtinsRec "CSS_OPTIONAL" = some Gen.CSS_OPTIONAL ∧
    builtinOf Gen.builtinsRec "CSS_READ_ONLY" = some Gen.CSS_READ_ONLY ∧
    builtinOf Gen.builtinsRec "CSS_READ_WRITE" = some Gen.CSS_READ_WRITE ∧
    builtinOf Gen.builtinsRec "CSS_IN_RANGE" = some Gen.CSS_IN_RANGE ∧
    builtinOf Gen.builtinsRec "CSS_OUT_OF_RANGE" = some Gen.CSS_OUT_OF_RANGE ∧
    builtinOf Gen.builtinsRec "CSS_PLACEHOLDER_SHOWN" = some Gen.CSS_PLACEHOLDER_SHOWN :=
  ⟨rfl, rfl, rfl, rfl, rfl, rfl, rfl, rfl, rfl, rfl, rfl, rfl, rfl⟩

/-- Every `appendBuiltin` of the generated table names a list the model has. -/
theorem builtins_known : ∀ e ∈ Gen.PyParseDisp.pseudoNames, ∀ n, e.2 = .appendBuiltin n →
    (builtinOf Gen.builtinsRec n).isSome := by
  have h : (Gen.PyParseDisp.pseudoNames.all fun e => match e.2 with
      | .appendBuiltin n => (builtinOf Gen.builtinsRec n).isSome
      | _ => true) = true := by decide
  intro e he n hn
  have := List.all_eq_true.mp h e he
  rw [hn] at this
  exact this

/-- The flags the `orFlag` / `appendFlagList` branches use are the regenerated `SEL_` values. -/
theorem pseudo_flags_gen :
    pseudoActionOf Gen.PyParseDisp.pseudoNames ":root".toStr = some (.orFlag Gen.gen_SEL_ROOT) ∧
    pseudoActionOf Gen.PyParseDisp.pseudoNames ":scope".toStr = some (.orFlag Gen.gen_SEL_SCOPE) ∧
    pseudoActionOf Gen.PyParseDisp.pseudoNames ":empty".toStr = some (.orFlag Gen.gen_SEL_EMPTY) ∧
    pseudoActionOf Gen.PyParseDisp.pseudoNames ":defined".toStr = some (.appendFlagList Gen.gen_SEL_DEFINED false true) := by
  decide

open Refine.C17Parse in
/-- C17's `plainPseudo_state` over the generated table: a state keyword appends its pre-compiled list. -/
theorem state_keyword_gen (B : Builtins) (K : StateKw) (b : SelB) :
    runPseudo B (pseudoActionOf Gen.PyParseDisp.pseudoNames (58 :: K.name)) b = b.addSub (K.pick B) := by
  have h := plainPseudo_gen B (58 :: K.name) b
  rw [plainPseudo_state] at h
  have hin : inList Gen.PSEUDO_SIMPLE (58 :: K.name) = true := by cases K <;> decide
  rw [hin, if_pos rfl] at h
  exact h.symm

end C06GenPseudo
end SoupVerif
