/-
  C01 — select() returns exactly the elements CSS designates.
  (first group of theorems: what may be an element, a parent, an ancestor)
-/
import SoupVerif.Model.Api
import SoupVerif.Lemmas.List
namespace SoupVerif.C01
open SoupVerif

/-- `select` only ever returns element descendants of the call target, in document order:
    the result is a sublist of the pre-order list of descendants. -/
theorem select_sublist (c : Ctx) (sel : SelList) (tag : Loc) (limit : Int) :
    (selectIn c sel tag limit).Sublist (c.tagDescendants tag false) := by
  unfold selectIn
  split
  · exact List.filter_sublist
  · exact (List.take_sublist _ _).trans List.filter_sublist

/-- Everything `select` returns matches, is an element and is not the document object. -/
theorem select_sound (c : Ctx) (sel : SelList) (tag : Loc) (limit : Int) (l : Loc)
    (h : l ∈ selectIn c sel tag limit) : matchEl c sel l = true ∧ l.isTag = true ∧ l.isDoc = false := by
  have hm : matchEl c sel l = true := by
    unfold selectIn at h
    split at h
    · exact (List.mem_filter.mp h).2
    · exact (List.mem_filter.mp ((List.take_sublist _ _).subset h)).2
  refine ⟨hm, ?_, ?_⟩
  · unfold matchEl at hm; unfold Loc.isTag Node.isTag; split at hm <;> simp_all
  · unfold matchEl at hm; unfold Loc.isDoc; split at hm <;> simp_all

/-- With no limit, `select` is complete: every matching element descendant is returned. -/
theorem select_complete (c : Ctx) (sel : SelList) (tag : Loc) (limit : Int) (hl : limit < 1) (l : Loc)
    (hd : l ∈ c.tagDescendants tag false) (hm : matchEl c sel l = true) : l ∈ selectIn c sel tag limit := by
  unfold selectIn; simp [hl, List.mem_filter, hd, hm]

/-- The document object is never an element for the child combinator. -/
theorem doc_never_parent (c : Ctx) (l p : Loc) (on : Loc → Bool)
    (hp : c.parent l c.iframeRestrict = some p) (hdoc : p.isDoc = true) :
    relationWalk c l .child on = false := by
  simp [relationWalk, hp, hdoc]

/-- ... nor for the descendant combinator: the ancestor walk stops below the document object. -/
theorem doc_never_ancestor (c : Ctx) (l : Loc) (on : Loc → Bool) :
    relationWalk c l .desc on = true →
      ∃ p ∈ c.ancestors l c.iframeRestrict, p.isDoc = false ∧ on p = true := by
  intro h
  simp only [relationWalk, List.any_eq_true] at h
  obtain ⟨p, hp, hon⟩ := h
  refine ⟨p, (List.takeWhile_sublist _).subset hp, ?_, hon⟩
  have := mem_takeWhile_p _ _ _ hp
  simpa using this

/-- `match` refuses the document object and every non-element. -/
theorem match_refuses_doc (c : Ctx) (sel : SelList) (l : Loc) (h : l.isDoc = true) : matchEl c sel l = false := by
  unfold Loc.isDoc at h; unfold matchEl; split <;> simp_all

theorem match_refuses_strings (c : Ctx) (sel : SelList) (l : Loc) (h : l.isTag = false) : matchEl c sel l = false := by
  unfold Loc.isTag Node.isTag at h; unfold matchEl; split <;> simp_all

end SoupVerif.C01
