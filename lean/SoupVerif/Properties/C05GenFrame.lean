/-
  C05 — the FRAME of `CSSMatch.match_selectors` (context switch of an HTML-only list, its restore, the
  `is_not` / `is_html` logic), translated from the source (`Generated/PyMatchSel.lean`, `frame` and
  `loop`) and proved equal to the model's `matchList` in `Properties/C01GenMatch.lean`
  (`gen_frame_eq_matchList`).  Here: the C05 theorems restated about the regenerated function.

  `genMatchList c l e L` is the verdict, `genCtxAfter c l e L` the context (`self.namespaces`,
  `self.iframe_restrict`) the regenerated function leaves behind; both are `Option`s (`none`: the
  interpreter of `Model/MatchChecks.lean` has no verdict), and every statement below says `some …`.
-/
import SoupVerif.Properties.C01GenMatch
import SoupVerif.Properties.C05
namespace SoupVerif.C05GenFrame
open SoupVerif SoupVerif.PyMatchSel SoupVerif.C01GenMatch

variable (c : Ctx) (l : Loc) (e : Elem)

/-- **The frame restores `self`**: whatever the list (HTML-only or not, negated or not, admissible in
    this document or not), the regenerated `match_selectors` returns with the `namespaces` /
    `iframe_restrict` it was entered with.  (Seeded change C05-g moves the restoring block inside the
    `if not is_html or self.is_html:` block: then `frame.inGuardPost` is non-empty, `frame.post` is empty,
    and this is false for an HTML-only list in a non-HTML document.) -/
theorem gen_frame_restores (L : SelList) : genCtxAfter c l e L = some c :=
  genCtxAfter_eq c l e L

/-- The restoring block stands after the loop block, not inside it (as a fact about the generated term;
    `gen_frame_restores` is the semantic reason it matters). -/
theorem gen_frame_restore_placement :
    Gen.PyMatchSel.frame.inGuardPost = [] ∧ Gen.PyMatchSel.frame.post ≠ [] := by decide

/-- An HTML-only list is evaluated under `{'html': NS_XHTML}` / `iframe_restrict = True`, only in an
    HTML document (`matchList_html_ctx` for the regenerated function). -/
theorem gen_html_ctx (A : List Sel) (n : Bool) :
    genMatchList c l e (.mk A n true) =
      some (if c.isHtml then
        (!A.isEmpty &&
          (matchAny { c with namespaces := [("html".toStr, NS_XHTML)], iframeRestrict := true } l e A != n))
       else false) := by
  rw [genMatchList_eq, C05.matchList_html_ctx]

/-- A list that is not HTML-only is evaluated under the caller's context. -/
theorem gen_plain_ctx (A : List Sel) (n : Bool) :
    genMatchList c l e (.mk A n false) = some (!A.isEmpty && (matchAny c l e A != n)) := by
  rw [genMatchList_eq, C05.matchList_plain_ctx]

/-- `ctx_restored` for the regenerated function: running it on `L` and then the remaining sub-lists
    UNDER THE CONTEXT IT LEAVES BEHIND is the conjunction under the original context. -/
theorem gen_ctx_restored (L : SelList) (rest : List SelList) :
    (do let r ← genMatchList c l e L
        let c' ← genCtxAfter c l e L
        pure (r && matchSubs c' l e rest)) = some (matchSubs c l e (L :: rest)) := by
  rw [genMatchList_eq, genCtxAfter_eq, C05.ctx_restored]
  rfl

/-- The empty list of alternatives matches nothing, also when negated (`match = False` is only
    overwritten inside the loop). -/
theorem gen_empty_list (n h : Bool) : genMatchList c l e (.mk [] n h) = some false := by
  rw [genMatchList_eq, C05.empty_list]

/-- An HTML-only list never matches in a non-HTML document, negated or not. -/
theorem gen_html_only_never_in_xml (A : List Sel) (n : Bool) (hx : c.isHtml = false) :
    genMatchList c l e (.mk A n true) = some false := by
  rw [genMatchList_eq, C05.html_only_never_in_xml c l e A n true rfl hx]

/-- `A, B` matches exactly where `A` or `B` does. -/
theorem gen_list_union (A B : List Sel) (h : Bool) :
    genMatchList c l e (.mk (A ++ B) false h) =
      (do let a ← genMatchList c l e (.mk A false h)
          let b ← genMatchList c l e (.mk B false h)
          pure (a || b)) := by
  simp only [genMatchList_eq, C05.list_union]
  rfl

/-- `:not(A)` is the complement of `:is(A)` (non-empty list, admissible in this document). -/
theorem gen_not_compl (A : List Sel) (h : Bool) (hA : A ≠ []) (hg : (!h || c.isHtml) = true) :
    genMatchList c l e (.mk A true h) = (genMatchList c l e (.mk A false h)).map (!·) := by
  simp only [genMatchList_eq, C05.not_compl_html c l e A h hA hg]
  rfl

/-- The order of the alternatives is irrelevant ("first matching alternative wins" is unobservable). -/
theorem gen_list_perm {A B : List Sel} (hp : List.Perm A B) (n h : Bool) :
    genMatchList c l e (.mk A n h) = genMatchList c l e (.mk B n h) := by
  simp only [genMatchList_eq, C05.list_perm c l e hp]

/-- The matcher never accepts `SelectorNull` (the `isinstance` test of the loop body). -/
theorem gen_null_only (n h : Bool) :
    genMatchList c l e (.mk [.null] n h) = some ((!h || c.isHtml) && n) := by
  rw [genMatchList_eq, C05.null_only]

end SoupVerif.C05GenFrame
