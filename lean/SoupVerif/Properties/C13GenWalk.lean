/-
  C13 — `CSSMatch.match_lang`, the parts TRANSLATED from the Python source on every run
  (`gen/gen_py_langwalk.py` → `Generated/PyLangWalk.lean`), proved equal to the hand-written model
  (`Model/Match.lean`: `langAttr`, `matchLang`) for ALL arguments.

  (IV) the final test `if found_lang is not None: for patterns in langs: match = False; for pattern in patterns:
       if self.extended_language_filter(…): match = True; if not match: break` / `return match`
       (`Gen.PyLangWalk.langsTest`, a flag program over `PyFlagLoop.forBreak`):
    * `langsTest_eq`            = `found ≠ None ∧ langs ≠ () ∧ langs.all (·.any (filter · found))`
                                  — EVERY `:lang()` of the compound must have SOME accepting range;
                                  with an EMPTY `langs` the flag stays `False` (the model's `List.all` would say
                                  `true`; `match_selectors` only calls `match_lang` for a non-empty `selector.lang`,
                                  as does the model's `matchSel`);
    * `matchLang_eq_langsTest`  the model's `matchLang c l langs` (non-empty `langs`) IS the translated flag program on
                                  the language `langOf` determines;
    * `gen_matchLang_one`       `C13Parse.matchLang_one` (what `C13Parse.lang_text` uses) about the translated program;
    * `gen_matchLang_langRun`   with the filter itself the translated `extended_language_filter` (`C13Gen`).

  (I) the per-attribute decision of the ancestor walk (`Gen.PyLangWalk.langAttrTest`, over the dynamic values `PV` —
      Python truthiness, `err` where CPython raises) and the attribute loop (`Gen.PyLangWalk.langScan`):
    * `langAttrTest_eq`         the decision never raises and is the model's condition: without namespace support or
                                  on an element in the XHTML namespace the KEY `lang` (lower-cased unless XML),
                                  otherwise the attribute in the XML namespace with local name `lang`
                                  (a key without local name — `attr is None` — is not lower-cased and does not match);
    * `langScan_eq`             the loop `for k, v in self.iter_attributes(parent): … found_lang = v; break` from
                                  `found_lang = None` = the model's `langAttr c e`: the FIRST such attribute, and an
                                  EMPTY value is a found language (`some (.str [])`: the loop test of the walk is
                                  `found_lang is None`, not truthiness);
    * `langNoIframe_eq`         the step of the walk passes `no_iframe = self.is_html` (the model's `c.ancestors l c.isHtml`);
    * `walk_spec`, `langWalkRun_eq`   the `while found_lang is None:` loop (`Gen.PyLangWalk.langWalkBody` over the locals
                                  `found_lang`, `parent`, `last`, `root`; `PyLangWalk.whileBreak`, fuel-bounded) ends within
                                  depth + 1 iterations and leaves the `found_lang` / `last` of the model's
                                  `langWalk c (l :: c.ancestors l c.isHtml)`; when nothing is found `root = parent = last`;
    * `langOf_eq_walk`          the model's `langOf` = the walk's `found_lang`, else (HTML only) the `<meta>` scan from `last`
                                  (the scan (III) and the cache (II) are NOT translated).
-/
import SoupVerif.Generated.PyLangWalk
import SoupVerif.Properties.C13Parse
import SoupVerif.Properties.C13Gen
namespace SoupVerif.C13GenWalk
open SoupVerif SoupVerif.PyMatchSel SoupVerif.PyAttrName SoupVerif.PyLangWalk SoupVerif.PyFlagLoop LangLemmas

set_option linter.unusedSimpArgs false

/-! ### (IV) the final test -/

/-- a loop whose body only ever SETS the flag (no `break`) -/
theorem forBreak_set {α : Type} (f : Bool → α → Bool × Bool) (p : α → Bool)
    (hf : ∀ m x, f m x = (m || p x, false)) (m : Bool) (xs : List α) :
    forBreak f m xs = (m || xs.any p) := by
  induction xs generalizing m with
  | nil => simp [forBreak]
  | cons x xs ih => simp [forBreak, hf, ih, Bool.or_assoc]

/-- a loop whose body recomputes the flag and breaks when it is `False` -/
theorem forBreak_all {α : Type} (g : Bool → α → Bool × Bool) (q : α → Bool)
    (hg : ∀ m x, g m x = (q x, !q x)) (m : Bool) (xs : List α) :
    forBreak g m xs = if xs.isEmpty then m else xs.all q := by
  induction xs generalizing m with
  | nil => simp [forBreak]
  | cons x xs ih =>
    simp only [forBreak, hg, ih]
    cases hq : q x <;> cases xs <;> simp [hq]

/-- The translated flag program in closed form. -/
theorem langsTest_eq {τ : Type} (filter : Str → τ → Bool) (found : Option τ) (langs : List (List Str)) :
    Gen.PyLangWalk.langsTest filter found langs =
      match found with
      | none => false
      | some v => !langs.isEmpty && langs.all (fun ps => ps.any (fun p => filter p v)) := by
  unfold Gen.PyLangWalk.langsTest
  cases found with
  | none => rfl
  | some v =>
    simp only []
    rw [forBreak_all _ (fun ps => ps.any (fun p => filter p v))]
    · cases langs <;> simp
    · intro m ps
      rw [forBreak_set _ (fun p => filter p v)]
      · cases h : ps.any (fun p => filter p v) <;> simp [h]
      · intro m x; cases h : filter x v <;> simp [h]

theorem langsTest_nil {τ : Type} (filter : Str → τ → Bool) (found : Option τ) :
    Gen.PyLangWalk.langsTest filter found [] = false := by
  rw [langsTest_eq]; cases found <;> simp

/-- `match_lang` of the model IS the translated flag program, run on the language the model determines (`langOf`;
    a list value joined with spaces as `matchLang` does) with the model's filter. -/
theorem matchLang_eq_langsTest (c : Ctx) (l : Loc) (langs : List LangSel) (hne : langs ≠ []) :
    matchLang c l langs =
      Gen.PyLangWalk.langsTest (fun p t => Lang.extendedFilter c.wildStrip p t) ((langOf c l).map nvalJoin)
        (langs.map (·.languages)) := by
  rw [langsTest_eq]
  unfold matchLang
  cases h : langOf c l with
  | none => simp
  | some v =>
    cases langs with
    | nil => exact absurd rfl hne
    | cons a as => cases v <;> simp [nvalJoin, List.all_map, Function.comp_def]

/-- `C13Parse.matchLang_one` about the translated program: one `:lang(v1, …)`. -/
theorem gen_matchLang_one (c : Ctx) (l : Loc) (vs : List Str) :
    Gen.PyLangWalk.langsTest (fun p t => Lang.extendedFilter c.wildStrip p t) ((langOf c l).map nvalJoin) [vs]
        = true ↔
      ∃ v, langOf c l = some v ∧ ∃ r ∈ vs, Lang.extendedFilter c.wildStrip r (nvalJoin v) = true := by
  have := matchLang_eq_langsTest c l [⟨vs⟩] (by simp)
  simp only [List.map] at this
  rw [← this, C13Parse.matchLang_one]

/-- … with the filter the TRANSLATED `extended_language_filter` (`Generated/PyLoops.lean`, `C13Gen`), for a matcher
    whose wildcard strip is the regex-level one. -/
theorem gen_matchLang_langRun (c : Ctx) (hw : c.wildStrip = wildStripRx) (l : Loc) (langs : List LangSel)
    (hne : langs ≠ []) :
    matchLang c l langs =
      Gen.PyLangWalk.langsTest
        (fun p t => match Gen.PyLoops.langRun lower p t with | .ok (some b) => b | _ => false)
        ((langOf c l).map nvalJoin) (langs.map (·.languages)) := by
  rw [matchLang_eq_langsTest c l langs hne, hw]
  congr 1
  funext p t
  rw [C13Gen.langRun_eq_extendedFilter]

/-! ### (I) the attribute decision and the attribute loop of the walk -/

@[local simp] theorem not_bool (b : Bool) : pyNot (.bool b) = .bool (!b) := by cases b <;> rfl
@[local simp] theorem and_bool (a b : Bool) : pyAnd (.bool a) (.bool b) = .bool (a && b) := by
  cases a <;> simp [pyAnd, PV.truthy]
@[local simp] theorem or_bool (a b : Bool) : pyOr (.bool a) (.bool b) = .bool (a || b) := by
  cases a <;> simp [pyOr, PV.truthy]
@[local simp] theorem eq_str (a b : Str) : pyEq (.str a) (.str b) = .bool (a == b) := by
  by_cases h : a = b <;> simp [pyEq, PV.isErr, h]
@[local simp] theorem eq_none_str (b : Str) : pyEq .none (.str b) = .bool false := by
  simp [pyEq, PV.isErr]
@[local simp] theorem lower_str (a : Str) : pyLower (.str a) = .str (lower a) := rfl
@[local simp] theorem ite_bool (b : Bool) (x y : PV) : PV.ite (.bool b) x y = if b then x else y := by
  cases b <;> simp [PV.ite, PV.truthy]
@[local simp] theorem isXml_bool (c : Ctx) : pyIsXml c = .bool c.isXml := rfl
@[local simp] theorem isNotNone_str (u : Str) : pyIsNotNone (.str u) = .bool true := rfl
@[local simp] theorem isNotNone_none : pyIsNotNone .none = .bool false := rfl

/-- the model's condition of `langAttr` on one attribute -/
def langCond (c : Ctx) (e : Elem) (a : Attr) : Bool :=
  let hasNs := c.supportsNamespaces
  let hasHtmlNs := (match e.ns with | some n => !n.isEmpty && n == NS_XHTML | none => false)
  ((!hasNs || hasHtmlNs) && (if !c.isXml then lower a.key else a.key) == "lang".toStr) ||
    (hasNs && !hasHtmlNs && a.kns == some NS_XML &&
      (match a.kname with
       | some nm => (if !c.isXml then lower nm else nm) == "lang".toStr
       | none => false))

theorem langAttr_eq_find (c : Ctx) (e : Elem) :
    langAttr c e = (e.attrs.find? (langCond c e)).map (fun a => normalizeValue a.val) := rfl

/-- The translated decision never raises and is the model's. -/
theorem langAttrTest_eq (c : Ctx) (e : Elem) (a : Attr) :
    Gen.PyLangWalk.langAttrTest c (Gen.PyLangWalk.langHasNs c) (pyHasHtmlNs e) (pyKey a) (pySplitNamespace a) =
      .bool (langCond c e a) := by
  obtain ⟨key, kns, kname, val⟩ := a
  unfold Gen.PyLangWalk.langAttrTest Gen.PyLangWalk.langHasNs langCond
  simp only [pyKey, pySplitNamespace, pySupportsNs, pyHasHtmlNs]
  have hl : "lang".toStr = [108, 97, 110, 103] := by decide
  have hx : NS_XML = [104, 116, 116, 112, 58, 47, 47, 119, 119, 119, 46, 119, 51, 46, 111, 114, 103, 47, 88, 77, 76, 47, 49, 57, 57, 56, 47, 110, 97, 109, 101, 115, 112, 97, 99, 101] := by decide
  rw [hl, hx]
  cases hns : e.ns with
  | none =>
    cases c.supportsNamespaces <;> cases hxml : c.isXml <;> cases kns <;> cases kname <;>
      simp [PV.ofOptStr, hxml]
  | some n =>
    simp only []
    generalize (!n.isEmpty && n == NS_XHTML) = hh
    cases c.supportsNamespaces <;> cases hh <;> cases hxml : c.isXml <;> cases kns <;> cases kname <;>
      simp [PV.ofOptStr, hxml]

/-- The translated attribute loop = the model's `langAttr`. -/
theorem langScan_eq (c : Ctx) (e : Elem) : Gen.PyLangWalk.langScan c e none = langAttr c e := by
  rw [langAttr_eq_find]
  unfold Gen.PyLangWalk.langScan pyIterAttributes
  simp only [langAttrTest_eq, PV.truthy]
  generalize e.attrs = as
  induction as with
  | nil => simp [forBreak]
  | cons a as ih =>
    simp only [forBreak, List.find?]
    cases h : langCond c e a <;> simp [h, ih]

/-- An attribute with an EMPTY value that passes the decision is the found language (the walk stops there). -/
theorem langScan_empty_value (c : Ctx) (e : Elem) (a : Attr) (rest : List Attr) (he : e.attrs = a :: rest)
    (h : langCond c e a = true) : Gen.PyLangWalk.langScan c e none = some (normalizeValue a.val) := by
  rw [langScan_eq, langAttr_eq_find, he]; simp [List.find?, h]

/-- The step of the walk: `self.get_parent(parent, no_iframe=self.is_html)`. -/
theorem langNoIframe_eq (c : Ctx) : Gen.PyLangWalk.langNoIframe c = .bool c.isHtml := rfl

end SoupVerif.C13GenWalk

/-! ### (I) the walk loop -/
namespace SoupVerif.C13GenWalk
open SoupVerif SoupVerif.PyMatchSel SoupVerif.PyAttrName SoupVerif.PyLangWalk SoupVerif.PyFlagLoop

theorem ancestors_unfold (c : Ctx) (l : Loc) (b : Bool) :
    c.ancestors l b = match c.parent l b with
      | none => []
      | some p => p :: c.ancestors p b := by
  unfold Ctx.ancestors Ctx.parent Loc.ancestors Loc.parent?
  cases h : l.up with
  | nil => simp [Loc.ancestorsAux, Ctx.ancestorsCut]
  | cons f rest =>
    simp only [Loc.ancestorsAux, Ctx.ancestorsCut]
    split <;> simp_all

theorem parent_depth (c : Ctx) (l p : Loc) (b : Bool) (h : c.parent l b = some p) :
    p.up.length + 1 = l.up.length := by
  unfold Ctx.parent Loc.parent? at h
  cases hu : l.up with
  | nil => simp [hu] at h
  | cons f rest =>
    simp only [hu] at h
    split at h
    · simp at h
    · simp at h; subst h; simp

theorem langScanAt_eq (c : Ctx) (l : Loc) :
    Gen.PyLangWalk.langScanAt c l none = match l.elem? with | some e => langAttr c e | none => none := by
  unfold Gen.PyLangWalk.langScanAt
  cases l.elem? <;> simp [langScan_eq]

/-- **The translated walk = the model's `langWalk`.**  From any element (any `last` / `root` so far), with fuel
    ≥ depth + 1, the loop ends, and `found_lang` / `last` are what `langWalk c (l :: c.ancestors l c.isHtml)` computes:
    the first explicit language on the element and its ancestors (`get_parent(·, no_iframe=self.is_html)`), and the
    last node visited. When nothing is found, `root` and `parent` are that last node too. -/
theorem walk_spec (c : Ctx) : ∀ (fuel : Nat) (l : Loc) (last root : Option Loc) (l0 : Loc), l.up.length + 1 ≤ fuel →
    ∃ s, whileBreak Gen.PyLangWalk.langWalkCond (Gen.PyLangWalk.langWalkBody c) fuel ⟨none, l, last, root⟩ = some s ∧
      s.found = (langWalk c (l :: c.ancestors l c.isHtml) l0).1 ∧
      s.last = some (langWalk c (l :: c.ancestors l c.isHtml) l0).2 ∧
      (s.found = none → s.root = s.last ∧ some s.parent = s.last) := by
  intro fuel
  induction fuel with
  | zero => intro l _ _ _ h; omega
  | succ n ih =>
    intro l last root l0 hf
    have hc : Gen.PyLangWalk.langWalkCond ⟨none, l, last, root⟩ = true := rfl
    rw [whileBreak, if_pos hc]
    simp only [Gen.PyLangWalk.langWalkBody, langScanAt_eq, pyGetParent, langNoIframe_eq, PV.truthy]
    rw [ancestors_unfold]
    cases hp : c.parent l c.isHtml with
    | none =>
      simp only [if_true]
      refine ⟨_, rfl, ?_, ?_, ?_⟩
      · cases he : l.elem? with
        | none => simp [langWalk, he]
        | some e => cases ha : langAttr c e <;> simp [langWalk, he, ha]
      · cases he : l.elem? with
        | none => simp [langWalk, he]
        | some e => cases ha : langAttr c e <;> simp [langWalk, he, ha]
      · intro _; exact ⟨rfl, rfl⟩
    | some p =>
      simp only [Bool.false_eq_true, if_false]
      have hd := parent_depth c l p _ hp
      cases hfd : (match l.elem? with | some e => langAttr c e | none => none) with
      | some v =>
        -- found here: the next loop test fails
        refine ⟨⟨some v, p, some l, root⟩, ?_, ?_, ?_, ?_⟩
        · cases n <;> simp [whileBreak, Gen.PyLangWalk.langWalkCond]
        · cases he : l.elem? with
          | none => simp [he] at hfd
          | some e => simp [he] at hfd; simp [langWalk, he, hfd]
        · cases he : l.elem? with
          | none => simp [he] at hfd
          | some e => simp [he] at hfd; simp [langWalk, he, hfd]
        · intro h; simp at h
      | none =>
        obtain ⟨s, hs, h1, h2, h3⟩ := ih p (some l) root l (by omega)
        refine ⟨s, hs, ?_, ?_, h3⟩
        · rw [h1]
          cases he : l.elem? with
          | none => simp [langWalk, he]
          | some e => simp [he] at hfd; simp [langWalk, he, hfd]
        · rw [h2]
          cases he : l.elem? with
          | none => simp [langWalk, he]
          | some e => simp [he] at hfd; simp [langWalk, he, hfd]

/-- `match_lang`'s walk from `el`: enough fuel is the depth of `el` plus one; the result is the model's. -/
theorem langWalkRun_eq (c : Ctx) (l : Loc) :
    ∃ s, Gen.PyLangWalk.langWalkRun c (l.up.length + 1) l = some s ∧
      (s.found, s.last) = ((langWalk c (l :: c.ancestors l c.isHtml) l).1,
                           some (langWalk c (l :: c.ancestors l c.isHtml) l).2) := by
  obtain ⟨s, hs, h1, h2, _⟩ := walk_spec c (l.up.length + 1) l none c.root l (Nat.le_refl _)
  exact ⟨s, hs, by rw [h1, h2]⟩

/-- … hence the language the model determines (`langOf`) is the walk's `found_lang`, else (HTML) the `<meta>` scan
    from the walk's `last`. -/
theorem langOf_eq_walk (c : Ctx) (l : Loc) :
    ∃ s last, Gen.PyLangWalk.langWalkRun c (l.up.length + 1) l = some s ∧ s.last = some last ∧
      langOf c l = match s.found with
        | some v => some v
        | none => if c.isHtml then metaLang c last else none := by
  obtain ⟨s, hs, h⟩ := langWalkRun_eq c l
  simp only [Prod.mk.injEq] at h
  refine ⟨s, _, hs, h.2, ?_⟩
  unfold langOf
  rw [h.1]
  generalize langWalk c (l :: c.ancestors l c.isHtml) l = r
  obtain ⟨a, b⟩ := r
  rfl

end SoupVerif.C13GenWalk
