/-
  C10 about the Lean term TRANSLATED from the source text of `css_parser.escape`.

  `Properties/C10.lean` proves the round trip for the hand-written model `Escape.escape`.  `gen/gen_py_strings.py`
  translates the body of the Python function (its if/elif chain, its special case, its local assignments) into
  `Gen.PyStrings.escapeStep` / `Gen.PyStrings.escape` on every run.  Proved here, FOR EVERY string (every list of
  naturals): the translated function IS the hand model (`gen_escape_eq`).  So every C10 theorem holds of what the
  code says now, and an edit of a constant, a comparison, the order of the branches or of what a branch appends
  changes `Generated/PyStrings.lean` and breaks a proof obligation of this file (or, if it leaves the translated
  subset, makes the translator fail).

  The proofs unfold only the two generated definitions by their (fixed) names; they do not mention the names of
  their binders, which follow the names of the Python locals.
-/
import SoupVerif.Properties.C10
import SoupVerif.Generated.PyStrings
namespace SoupVerif
namespace C10Gen
open Escape PyStrings

/-- The translated chain appends, for every position, flag and code point, exactly what the hand model's
    `escapeChar` appends (`lead` is the Python sub-condition `index == 0 or (start_dash and index == 1)`). -/
theorem gen_escapeStep_emit (i : Nat) (sd : Bool) (c : Nat) :
    (Gen.PyStrings.escapeStep i sd c).emit c = escapeChar (i == 0 || (sd && i == 1)) c := by
  simp only [Gen.PyStrings.escapeStep, escapeChar]
  repeat' split
  all_goals simp_all [EscKind.emit]
  all_goals omega

/-- The fixed loop frame run on the translated chain is the hand model's loop, from every start index. -/
theorem gen_escapeLoop_eq (sd : Bool) (s : Str) (i : Nat) :
    escapeLoopFrom (fun j c => Gen.PyStrings.escapeStep j sd c) i s = escapeGo sd i s := by
  induction s generalizing i with
  | nil => simp [escapeLoopFrom, escapeGo]
  | cons c cs ih => simp [escapeLoopFrom, escapeGo, gen_escapeStep_emit, ih]

/-- **The tie.**  The function translated from the current source is the hand-written model, on every string. -/
theorem gen_escape_eq (s : Str) : Gen.PyStrings.escape s = Escape.escape s := by
  unfold Gen.PyStrings.escape Escape.escape
  have hsd : (decide (s.length > 0) && s[0]? == some 0x2D) = startDash s := by
    cases s <;> simp [startDash]
  simp only [hsd, escapeLoop, gen_escapeLoop_eq]
  by_cases h : (s.length == 1 && startDash s) = true <;> simp [h]

/-! ### The C10 theorems, about the translated function -/

/-- `css_unescape(escape(s))` is `s` with NUL replaced by U+FFFD. -/
theorem unescape_escape (s : Str) : cssUnescape (Gen.PyStrings.escape s) = nulToFFFD s := by
  rw [gen_escape_eq]; exact C10.unescape_escape s

/-- `IDENTIFIER` matches `escape s ++ r` at position 0, consumes exactly `escape s` and leaves `r`, whenever `r`
    does not itself begin with an identifier character or a backslash. -/
theorem escape_scan (s r : Str) (hs : s ≠ []) (hr : ¬ continuesIdent r) :
    scanIdent (Gen.PyStrings.escape s ++ r) = some (Gen.PyStrings.escape s, r) := by
  rw [gen_escape_eq]; exact C10.escape_scan s r hs hr

/-- Whatever follows, no piece of `escape s` reaches into the following text. -/
theorem escape_inert (s r : Str) (hs : s ≠ []) :
    scanIdent (Gen.PyStrings.escape s ++ r) =
      some (Gen.PyStrings.escape s ++ (scanCont 0 r).1, (scanCont 0 r).2) := by
  rw [gen_escape_eq]; exact C10.escape_inert s r hs

/-- `escape s` never contains a raw newline, form feed or carriage return. -/
theorem escape_no_newline (s : Str) : ∀ c ∈ Gen.PyStrings.escape s, c ≠ 10 ∧ c ≠ 12 ∧ c ≠ 13 := by
  rw [gen_escape_eq]; exact C10.escape_no_newline s

/-- `escape s` never contains NUL. -/
theorem escape_chars_ok (s : Str) : ∀ c ∈ Gen.PyStrings.escape s, c ≠ 0 := by
  rw [gen_escape_eq]; exact C10.escape_chars_ok s

/-- `css_unescape` does not raise on `escape s`. -/
theorem unescape_never_raises (s : Str) : cssUnescapeRaises (Gen.PyStrings.escape s) = false := by
  rw [gen_escape_eq]; exact C10.unescape_never_raises s

/-- The round trip in one statement, for the translated function. -/
theorem ident_value (s r : Str) (hs : s ≠ []) (hr : ¬ continuesIdent r) :
    ∃ m, scanIdent (Gen.PyStrings.escape s ++ r) = some (m, r) ∧ cssUnescape m = nulToFFFD s ∧
      cssUnescapeRaises m = false := by
  rw [gen_escape_eq]; exact C10.ident_value s r hs hr

/-! ### Non-vacuity: the translated term evaluates (kernel) to what Python returns -/

example : Gen.PyStrings.escape [45] = [92, 45] := by decide                           -- escape('-') == '\\-'
example : Gen.PyStrings.escape [45, 49] = [45, 92, 51, 49, 32] := by decide           -- escape('-1') == '-\\31 '
example : Gen.PyStrings.escape [49, 97] = [92, 51, 49, 32, 97] := by decide           -- escape('1a') == '\\31 a'
example : Gen.PyStrings.escape [97, 49] = [97, 49] := by decide                       -- escape('a1') == 'a1'
example : Gen.PyStrings.escape [0, 0x7F, 32] = [0xFFFD, 92, 55, 102, 32, 92, 32] := by decide
example : Gen.PyStrings.escape [0x80, 0xD800, 0x10FFFF] = [0x80, 0xD800, 0x10FFFF] := by decide
example : Gen.PyStrings.escape [] = [] := by decide

end C10Gen
end SoupVerif
