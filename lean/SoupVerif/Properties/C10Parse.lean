/-
  C10, from the selector TEXT: `'#' + escape(s)`, `'.' + escape(s)`, `'[a=' + escape(s) + ']'` through the
  parser model and the matcher model.

  "For every string s, escape(s) is consumed by the selector parser as one identifier whose value is s with NUL
   replaced by U+FFFD: '#' + escape(s) selects exactly the elements whose id is that value, '.' + escape(s) those
   carrying that class, and '[a=' + escape(s) + ']' those whose attribute equals it."

  `Properties/C10.lean` / `C10Rx.lean` prove the scanner / regex level facts about `escape`.  This file proves the
  sentence itself, by composing
    * `Refine/C10ParseBase.lean`: `escForms s`, the spelling `escape` uses, as a `Forms` of `C09Compile`'s grammar;
    * `Properties/C09Compile2.lean` (`compile_eq_denote2_plain`: the parser model on the text of a selector list
      in any admissible spelling is `denote` of the values), through `NsParse.compile_one`;
    * the matcher lemmas of C01 (`SatParts`, `SatLeaf`) and the C12 reading of type / attribute selectors
      (`C12Parse.TagCond`, `designates`);
    * `Properties/C01Parse.lean` (`select_text_exact`) for `select`.

  MAIN THEOREMS
    1. `escape_forms`            `renderIdentWith (escForms s) = escape s`, `valueOf (escForms s) = nulToFFFD s`,
                                 `identOK (escForms s) r` for EVERY continuation `r`  (`s ≠ []`);
       `escForms_ok_iff`         … and `s ≠ []` is exactly what is needed.
    2. `compound_simple_text`    parser + matcher on a compound `tag? (#id | .class | [attr…] | [ns|attr…])*` in any
                                 spelling (generalises `C12Parse.compound_text`, attribute selectors only);
       `item_in_compound_text`   the same with one item singled out;
       `escape_id_text`, `escape_class_text`, `escape_attr_text`
                                 `E… #<escape s> …`, `E… .<escape s> …`, `E… [ a op <escape s> flag ] …` with an
                                 arbitrary type selector in front and arbitrary such items around;
       `hash_escape_text`, `dot_escape_text`, `attr_eq_escape_text`
                                 exactly the three texts of the sentence, on one element;
       `select_hash_escape`, `select_dot_escape`, `select_attr_eq_escape`
                                 … and what `select` returns for them: exactly the elements the CSS reading
                                 designates for `#v`, `.v`, `[a="v"]`, `v = nulToFFFD s`;
       `compile_escape_id_general`, `compile_escape_class_general`, `compile_escape_value_general`
                                 the general form: a selector list of the full grammar of `C09Compile2` with
                                 `escForms s` in an id / class / attribute-value slot of any top-level compound:
                                 the text shows `escape s`, the compiled structure is `denote` of the values with
                                 `nulToFFFD s` in that slot.  (For a slot nested inside `:not(…)` etc. apply
                                 `compile_eq_denote2_plain` with `render_id_escForms` … `ok_id_escForms`.)
    3. `escape_empty_not_ident`  `escape "" = ""`, and `#`, `.`, `[a=]` are syntax errors of the parser model
                                 (the recorded finding `escape('')`).

  THE GUARD ON THE CONTINUATION.  None for `#…` and `.…` beyond the grammar's own (what follows must not continue
  an identifier: `SafeStart`, true of `.`, `#`, `[`, `:`, a gap, a combinator, `)`, the end).  `escape` ends every
  hex escape with a space, and `validForms` accepts any continuation after a terminated hex escape, so
  `identOK (escForms s) r` holds for ALL `r`.  For `[a op <escape s> flag]` the guard is
  `¬ continuesIdent (flagText flag ++ (g4 ++ 93 :: r))` (`escAttr_ok_iff`): met without a flag
  (`guard_noflag`: a gap or `]` follows) and with a flag behind a non-empty gap (`guard_flag`).

  Hypotheses, all explicit: `s ≠ []`; the side conditions of `C09Compile2` for the REST of the text (gaps, the
  other items, no NUL outside `escape s` — `escape s` itself never contains NUL); a case-insensitive attribute
  comparison needs an ASCII-folding matcher environment.

  No discrepancy between `escape`'s output and the grammar was found for `s ≠ []`.
-/
import SoupVerif.Refine.C10ParseBase
import SoupVerif.Properties.C01Parse
namespace SoupVerif
namespace C10Parse
open Escape Spelling SoupVerif.Parser Refine.Compile
open C09Compile (Forms identOK AttrV SAttr SAttrOp SValue opText flagText STag SComb)
open C09Compile2 (STagN SItem SCompound SSelList itemsOK renderItems itemsValue restValue renderRest denote Item
  Compound SelListV)
open Css (AttrTest AttrOp CaseFlag Parts addSimple compileParts Simple satSimple idOf hasClass foldCase)
open C01Parse (mkB implB implTag)
open C12Parse (matchText TagCond AttrHolds designates Passes testOf opOf flagOf)

/-! ## 1. `escape`'s output is one of the spellings `C09Compile` quantifies over -/

/-- **The bridge.**  For `s ≠ ""`, the text `escape s` is the rendering of the forms `escForms s`, these forms
    spell `s` with NUL replaced by U+FFFD, and they are an admissible identifier in front of EVERY text `r`. -/
theorem escape_forms (s : Str) (hs : s ≠ []) :
    renderIdentWith (escForms s) = escape s ∧ valueOf (escForms s) = nulToFFFD s ∧
      ∀ r, identOK (escForms s) r :=
  ⟨escForms_render s, escForms_value s, escForms_ok s hs⟩

/-- … and only for `s ≠ ""`: the empty list of forms is not an identifier. -/
theorem escForms_ok_iff (s r : Str) : identOK (escForms s) r ↔ s ≠ [] := by
  refine ⟨?_, fun hs => escForms_ok s hs r⟩
  rintro ⟨_, hh, _⟩ rfl
  revert hh; decide

/-- `escape s` contains no NUL (so the parser's NUL replacement leaves the text alone). -/
theorem escape_noNul (s : Str) : ∀ x ∈ escape s, x ≠ 0 := C10.escape_chars_ok s

/-! ## 2a. Compounds of `#id`, `.class` and attribute selectors: parser and matcher -/

theorem leaf_of_mem (c : Ctx) (items : List SItem) (r : Str) (hok : itemsOK items r)
    (hfold : ∀ ns name t, Simple.attr ns name (some t) ∈ simplesOf items →
      Css.caseInsensitive c name t.flag = true → c.env.fold = lowerCp) :
    ∀ sm ∈ simplesOf items, LeafOK c sm := by
  intro sm hsm
  have hsm' := hsm
  rw [simplesOf, List.mem_filterMap] at hsm'
  obtain ⟨it, _, hit⟩ := hsm'
  cases it <;> simp only [simpleOf, Option.some.injEq, reduceCtorEq] at hit
  · subst hit; exact simplesOf_id_ne_nil r items hok _ hsm
  · subst hit; trivial
  · subst hit; intro t ht hci; rw [ht] at hsm; exact hfold _ _ t hsm hci
  · subst hit; intro t ht hci; rw [ht] at hsm; exact hfold _ _ t hsm hci

theorem tbl_of_simple (tag : Option STagN) : ∀ (items : List SItem),
    (∀ it ∈ items, (simpleOf it).isSome = true) → (SCompound.mk tag items).tbl [] := by
  intro items hall
  rw [SCompound.tbl]
  induction items with
  | nil => simp [C09Compile2.itemsTbl]
  | cons it rest ih =>
    rw [C09Compile2.itemsTbl]
    refine ⟨?_, ih (fun i hi => hall i (by simp [hi]))⟩
    have := hall it (by simp)
    cases it <;> simp [simpleOf] at this <;> simp [SItem.tbl]

/-- **Parser and matcher on the text of a compound** made of an optional type selector (with or without a
    namespace prefix) and any number of `#id`, `.class` and attribute selectors, in ANY spelling, between two
    gaps: the parser model accepts, and the matcher model accepts the element `e` exactly when `e` is not the
    document object, its type passes (`TagCond`) and every simple selector holds in the CSS reading of
    `Spec/Css.lean` (`satSimple`: `idOf c e = some v`, `hasClass c e v`, `satAttr …`), taken on the VALUES. -/
theorem compound_simple_text (c : Ctx) (l : Loc) (e : Elem) (kids : List Node)
    (hf : l.focus = .elem e kids) (tag : Option STagN) (items : List SItem) (g₁ g₂ : Str)
    (hg₁ : isGap g₁) (hg₂ : isGap g₂) (hok : (SCompound.mk tag items).ok g₂)
    (hne : (SCompound.mk tag items).isEmpty = false)
    (hall : ∀ it ∈ items, (simpleOf it).isSome = true)
    (h0 : ∀ x ∈ g₁ ++ (SCompound.mk tag items).render ++ g₂, x ≠ 0)
    (hfold : ∀ ns name t, Simple.attr ns name (some t) ∈ simplesOf items →
      Css.caseInsensitive c name t.flag = true → c.env.fold = lowerCp) :
    ∃ b, matchText c (g₁ ++ (SCompound.mk tag items).render ++ g₂) l = .ok b ∧
      (b = true ↔ e.isDoc = false ∧ TagCond c e (tag.map STagN.value) ∧
        ∀ sm ∈ simplesOf items, satSimple c l e sm = true) := by
  have hok' : itemsOK items g₂ := by simp only [SCompound.ok] at hok; exact hok.2
  have hleaf := leaf_of_mem c items g₂ hok' hfold
  have hc := NsParse.compile_one Gen.builtinsRec g₁ g₂ _ hg₁ hg₂ hok hne (tbl_of_simple tag items hall) h0
  have hb : (SCompound.mk tag items).value.buildOn Gen.builtinsRec SelB.empty =
      mkB (compileParts {} (simplesOf items)) (tag.map STagN.value) [] .none := by
    simp only [SCompound.value, C09Compile2.Compound.buildOn]
    cases tag with
    | none => exact applyItems_simples _ none g₂ items {} hok' hall
    | some t => exact applyItems_simples _ (some t.value) g₂ items {} hok' hall
  refine ⟨matchEl c _ l, by rw [matchText, hc], ?_⟩
  rw [hb, C01Parse.implB_mkB, NsParse.matchEl_mkB c l e kids hf _ _
      (by rw [compileParts_leaf_flags c _ _ hleaf]; decide),
    partsOk_compileParts c l e _ _ hleaf, SatParts.partsOk_init, Bool.true_and, Bool.and_eq_true,
    Bool.and_eq_true, C12Parse.matchTag_implTag_iff, List.all_eq_true]
  simp only [Bool.not_eq_true']

/-! ### One item singled out -/

/-- The text of the optional type selector. -/
def tagText : Option STagN → Str
  | some t => t.render
  | none => []

theorem renderItems_append : ∀ (a b : List SItem), renderItems (a ++ b) = renderItems a ++ renderItems b
  | [], b => by simp [renderItems]
  | x :: a, b => by simp [renderItems, renderItems_append a b]

theorem renderItems_cons (it : SItem) (rest : List SItem) :
    renderItems (it :: rest) = it.render ++ renderItems rest := by rw [renderItems]

theorem itemsOK_append : ∀ (a b : List SItem) (r : Str),
    itemsOK (a ++ b) r ↔ itemsOK a (renderItems b ++ r) ∧ itemsOK b r
  | [], b, r => by simp [itemsOK]
  | x :: a, b, r => by
    simp only [List.cons_append, itemsOK, itemsOK_append a b r, renderItems_append, List.append_assoc]
    exact and_assoc.symm

theorem simplesOf_append (a b : List SItem) : simplesOf (a ++ b) = simplesOf a ++ simplesOf b := by
  simp [simplesOf]

theorem compound_render (tag : Option STagN) (items : List SItem) :
    (SCompound.mk tag items).render = tagText tag ++ renderItems items := by
  cases tag <;> rfl

/-- `compound_simple_text` for `tag? pre… it post…`, the item `it` (spelling the simple selector `sm`) singled
    out; the side conditions are stated part by part. -/
theorem item_in_compound_text (c : Ctx) (l : Loc) (e : Elem) (kids : List Node) (hf : l.focus = .elem e kids)
    (tag : Option STagN) (pre post : List SItem) (it : SItem) (sm : Simple) (hsm : simpleOf it = some sm)
    (g₁ g₂ : Str) (hg₁ : isGap g₁) (hg₂ : isGap g₂)
    (htag : ∀ t, tag = some t → t.ok (renderItems pre ++ (it.render ++ (renderItems post ++ g₂))))
    (hpre : itemsOK pre (it.render ++ (renderItems post ++ g₂)))
    (hit : it.ok (renderItems post ++ g₂)) (hpost : itemsOK post g₂)
    (hall : ∀ x ∈ pre ++ post, (simpleOf x).isSome = true)
    (h0 : ∀ x ∈ g₁ ++ (tagText tag ++ (renderItems pre ++ (it.render ++ renderItems post))) ++ g₂, x ≠ 0)
    (hfold : ∀ ns name t, Simple.attr ns name (some t) ∈ simplesOf pre ++ sm :: simplesOf post →
      Css.caseInsensitive c name t.flag = true → c.env.fold = lowerCp) :
    ∃ b, matchText c (g₁ ++ (tagText tag ++ (renderItems pre ++ (it.render ++ renderItems post))) ++ g₂) l = .ok b ∧
      (b = true ↔ e.isDoc = false ∧ TagCond c e (tag.map STagN.value) ∧
        (∀ x ∈ simplesOf pre, satSimple c l e x = true) ∧ satSimple c l e sm = true ∧
        (∀ x ∈ simplesOf post, satSimple c l e x = true)) := by
  have hr : (SCompound.mk tag (pre ++ it :: post)).render =
      tagText tag ++ (renderItems pre ++ (it.render ++ renderItems post)) := by
    rw [compound_render, renderItems_append, renderItems_cons]
  have hs : simplesOf (pre ++ it :: post) = simplesOf pre ++ sm :: simplesOf post := by
    rw [simplesOf_append]
    simp [simplesOf, hsm]
  obtain ⟨b, h1, h2⟩ := compound_simple_text c l e kids hf tag (pre ++ it :: post) g₁ g₂ hg₁ hg₂
    (by
      simp only [SCompound.ok, itemsOK_append, itemsOK, renderItems_append, renderItems_cons,
        List.append_assoc]
      refine ⟨?_, hpre, hit, hpost⟩
      cases tag with
      | none => trivial
      | some t => exact htag t rfl)
    (by cases tag <;> simp [SCompound.isEmpty])
    (by
      intro x hx
      simp only [List.mem_append, List.mem_cons] at hx
      rcases hx with hx | rfl | hx
      · exact hall x (by simp [hx])
      · rw [hsm]; rfl
      · exact hall x (by simp [hx]))
    (by rw [hr]; exact h0) (by rw [hs]; exact hfold)
  rw [hr] at h1
  refine ⟨b, h1, h2.trans ?_⟩
  rw [hs]
  simp only [List.mem_append, List.mem_cons]
  constructor
  · rintro ⟨hd, ht, h⟩
    exact ⟨hd, ht, fun x hx => h x (Or.inl hx), h sm (Or.inr (Or.inl rfl)), fun x hx => h x (Or.inr (Or.inr hx))⟩
  · rintro ⟨hd, ht, ha, hm, hb⟩
    refine ⟨hd, ht, ?_⟩
    rintro x (hx | rfl | hx)
    · exact ha x hx
    · exact hm
    · exact hb x hx

/-! ## 2b. The three items that carry `escape s` -/

theorem render_id_escForms (s : Str) : (SItem.id (escForms s)).render = 35 :: escape s := by
  rw [SItem.render, escForms_render]

theorem render_cls_escForms (s : Str) : (SItem.cls (escForms s)).render = 46 :: escape s := by
  rw [SItem.render, escForms_render]

theorem value_id_escForms (s : Str) : (SItem.id (escForms s)).value = .id (nulToFFFD s) := by
  rw [SItem.value, escForms_value]

theorem value_cls_escForms (s : Str) : (SItem.cls (escForms s)).value = .cls (nulToFFFD s) := by
  rw [SItem.value, escForms_value]

/-- No guard at all on what follows `#<escape s>` … -/
theorem ok_id_escForms (s : Str) (hs : s ≠ []) (r : Str) : (SItem.id (escForms s)).ok r := by
  rw [SItem.ok]; exact escForms_ok s hs r

/-- … nor on what follows `.<escape s>`. -/
theorem ok_cls_escForms (s : Str) (hs : s ≠ []) (r : Str) : (SItem.cls (escForms s)).ok r := by
  rw [SItem.ok]; exact escForms_ok s hs r

/-- `[ g0 name g1 op= g2 <escape s> flag g4 ]`: an attribute selector whose value is the bare identifier
    `escape s` (`op` the character in front of `=` if any, `flag` a gap and one of `i I s S` if any). -/
def escAttr (g0 : Str) (name : Forms) (g1 : Str) (op : Option Nat) (g2 s : Str) (flag : Option (Str × Nat))
    (g4 : Str) : SAttr :=
  ⟨g0, name, some ⟨g1, op, g2, .ident (escForms s), flag⟩, g4⟩

theorem escAttr_render (g0 : Str) (name : Forms) (g1 : Str) (op : Option Nat) (g2 s : Str)
    (flag : Option (Str × Nat)) (g4 : Str) :
    (escAttr g0 name g1 op g2 s flag g4).render =
      91 :: (g0 ++ (renderIdentWith name ++ (g1 ++ (opText op ++ (g2 ++ (escape s ++
        (flagText flag ++ (g4 ++ [93])))))))) := by
  simp only [escAttr, SAttr.render, SAttr.afterName, SValue.render, escForms_render]

/-- The test the selector spells: operator, VALUE `nulToFFFD s`, flag. -/
theorem escAttr_test (g0 : Str) (name : Forms) (g1 : Str) (op : Option Nat) (g2 s : Str)
    (flag : Option (Str × Nat)) (g4 : Str) :
    testOf (escAttr g0 name g1 op g2 s flag g4).value =
      some ⟨opOf (opText op), nulToFFFD s, flagOf (flag.map fun x => lowerCp x.2)⟩ := by
  simp only [escAttr, testOf, SAttr.value, Option.map_some, SValue.value, escForms_value]

/-- **The exact guard for the attribute value**: besides the side conditions of the other parts, what follows
    `escape s` must not continue an identifier. -/
theorem escAttr_ok_iff (g0 : Str) (name : Forms) (g1 : Str) (op : Option Nat) (g2 s : Str)
    (flag : Option (Str × Nat)) (g4 : Str) (hs : s ≠ []) (r : Str) :
    (escAttr g0 name g1 op g2 s flag g4).ok r ↔
      isGap g0 ∧ isGap g4 ∧ identOK name ((escAttr g0 name g1 op g2 s flag g4).afterName ++ r) ∧
        isGap g1 ∧ isGap g2 ∧ (∀ x, op = some x → isCmp x = true) ∧
        ¬ continuesIdent (flagText flag ++ (g4 ++ 93 :: r)) ∧
        (∀ g3 f, flag = some (g3, f) → isGap g3 ∧ isFlag f = true) := by
  simp only [escAttr, SAttr.ok, SValue.ok, escForms_ok s hs, true_and]

theorem not_cont_gap_close (g r : Str) (hg : isGap g) : ¬ continuesIdent (g ++ 93 :: r) := by
  cases g with
  | nil => simp [continuesIdent, identContChar]
  | cons x xs =>
    have := (C09Compile.safeStart_gap _ hg) x (by simp)
    simp [continuesIdent, this.1, this.2.1]

/-- The guard is met when no flag is written: a gap or `]` follows. -/
theorem guard_noflag (g4 r : Str) (hg : isGap g4) : ¬ continuesIdent (flagText none ++ (g4 ++ 93 :: r)) := by
  simpa [flagText] using not_cont_gap_close g4 r hg

/-- The guard is met when the flag stands behind a non-empty gap. -/
theorem guard_flag (g3 : Str) (f : Nat) (g4 r : Str) (hg : isGap g3) (hne : g3 ≠ []) :
    ¬ continuesIdent (flagText (some (g3, f)) ++ (g4 ++ 93 :: r)) := by
  cases g3 with
  | nil => exact absurd rfl hne
  | cons x xs =>
    have := (C09Compile.safeStart_gap _ hg) x (by simp)
    simp [flagText, continuesIdent, this.1, this.2.1]

/-! ## 2c. `E… #<escape s> …`, `E… .<escape s> …`, `E… [a op <escape s> flag] …` on one element -/

theorem noNul_insert {g₁ t p q g₂ m : Str} (h0 : ∀ x ∈ g₁ ++ t ++ p ++ q ++ g₂, x ≠ 0)
    (hm : ∀ x ∈ m, x ≠ 0) : ∀ x ∈ g₁ ++ (t ++ (p ++ (m ++ q))) ++ g₂, x ≠ 0 := by
  intro x hx
  by_cases hxm : x ∈ m
  · exact hm x hxm
  · apply h0
    simp only [List.mem_append] at hx ⊢
    rcases hx with (hx | hx | hx | hx | hx) | hx
    · exact Or.inl (Or.inl (Or.inl (Or.inl hx)))
    · exact Or.inl (Or.inl (Or.inl (Or.inr hx)))
    · exact Or.inl (Or.inl (Or.inr hx))
    · exact absurd hx hxm
    · exact Or.inl (Or.inr hx)
    · exact Or.inr hx

theorem noNul_cons_escape (p : Nat) (hp : p ≠ 0) (s : Str) : ∀ x ∈ p :: escape s, x ≠ 0 := by
  intro x hx
  rcases List.mem_cons.1 hx with rfl | hx
  · exact hp
  · exact escape_noNul s x hx

/-- **`tag? pre… #<escape s> post…`** (`tag` an optional type selector with or without prefix, `pre` / `post`
    any `#id`, `.class`, attribute selectors in any spelling, between two gaps): the parser model accepts the
    text, and the matcher model accepts `e` iff `e` is not the document object, the type passes, the other
    items hold, and THE ELEMENT'S ID IS `s` WITH NUL REPLACED BY U+FFFD (`Css.idOf`: the value of the `id`
    attribute when it is a single string — compared as a whole, not split at white space). -/
theorem escape_id_text (c : Ctx) (l : Loc) (e : Elem) (kids : List Node) (hf : l.focus = .elem e kids)
    (tag : Option STagN) (pre post : List SItem) (s : Str) (hs : s ≠ [])
    (g₁ g₂ : Str) (hg₁ : isGap g₁) (hg₂ : isGap g₂)
    (htag : ∀ t, tag = some t → t.ok (renderItems pre ++ ((35 :: escape s) ++ (renderItems post ++ g₂))))
    (hpre : itemsOK pre ((35 :: escape s) ++ (renderItems post ++ g₂)))
    (hpost : itemsOK post g₂)
    (hall : ∀ x ∈ pre ++ post, (simpleOf x).isSome = true)
    (h0 : ∀ x ∈ g₁ ++ tagText tag ++ renderItems pre ++ renderItems post ++ g₂, x ≠ 0)
    (hfold : ∀ ns name t, Simple.attr ns name (some t) ∈ simplesOf pre ++ simplesOf post →
      Css.caseInsensitive c name t.flag = true → c.env.fold = lowerCp) :
    ∃ b, matchText c (g₁ ++ (tagText tag ++ (renderItems pre ++ ((35 :: escape s) ++ renderItems post))) ++ g₂) l
        = .ok b ∧
      (b = true ↔ e.isDoc = false ∧ TagCond c e (tag.map STagN.value) ∧
        (∀ x ∈ simplesOf pre, satSimple c l e x = true) ∧ idOf c e = some (nulToFFFD s) ∧
        (∀ x ∈ simplesOf post, satSimple c l e x = true)) := by
  have h := item_in_compound_text c l e kids hf tag pre post (.id (escForms s)) (.id (nulToFFFD s))
    (by simp only [simpleOf, escForms_value]) g₁ g₂ hg₁ hg₂
    (by rw [render_id_escForms]; exact htag) (by rw [render_id_escForms]; exact hpre)
    (ok_id_escForms s hs _) hpost hall
    (by rw [render_id_escForms]; exact noNul_insert h0 (noNul_cons_escape 35 (by decide) s))
    (by
      intro ns name t hm
      simp only [List.mem_append, List.mem_cons, reduceCtorEq, false_or] at hm
      exact hfold ns name t (List.mem_append.2 hm))
  rw [render_id_escForms] at h
  simpa only [satSimple, beq_iff_eq] using h

/-- **`tag? pre… .<escape s> post…`**: … iff … THE ELEMENT CARRIES THE CLASS `s` WITH NUL REPLACED BY U+FFFD
    (`Css.hasClass`: one of the white-space separated words of the `class` attribute, or a member of the list
    when the tree builder has split it). -/
theorem escape_class_text (c : Ctx) (l : Loc) (e : Elem) (kids : List Node) (hf : l.focus = .elem e kids)
    (tag : Option STagN) (pre post : List SItem) (s : Str) (hs : s ≠ [])
    (g₁ g₂ : Str) (hg₁ : isGap g₁) (hg₂ : isGap g₂)
    (htag : ∀ t, tag = some t → t.ok (renderItems pre ++ ((46 :: escape s) ++ (renderItems post ++ g₂))))
    (hpre : itemsOK pre ((46 :: escape s) ++ (renderItems post ++ g₂)))
    (hpost : itemsOK post g₂)
    (hall : ∀ x ∈ pre ++ post, (simpleOf x).isSome = true)
    (h0 : ∀ x ∈ g₁ ++ tagText tag ++ renderItems pre ++ renderItems post ++ g₂, x ≠ 0)
    (hfold : ∀ ns name t, Simple.attr ns name (some t) ∈ simplesOf pre ++ simplesOf post →
      Css.caseInsensitive c name t.flag = true → c.env.fold = lowerCp) :
    ∃ b, matchText c (g₁ ++ (tagText tag ++ (renderItems pre ++ ((46 :: escape s) ++ renderItems post))) ++ g₂) l
        = .ok b ∧
      (b = true ↔ e.isDoc = false ∧ TagCond c e (tag.map STagN.value) ∧
        (∀ x ∈ simplesOf pre, satSimple c l e x = true) ∧ hasClass c e (nulToFFFD s) = true ∧
        (∀ x ∈ simplesOf post, satSimple c l e x = true)) := by
  have h := item_in_compound_text c l e kids hf tag pre post (.cls (escForms s)) (.cls (nulToFFFD s))
    (by simp only [simpleOf, escForms_value]) g₁ g₂ hg₁ hg₂
    (by rw [render_cls_escForms]; exact htag) (by rw [render_cls_escForms]; exact hpre)
    (ok_cls_escForms s hs _) hpost hall
    (by rw [render_cls_escForms]; exact noNul_insert h0 (noNul_cons_escape 46 (by decide) s))
    (by
      intro ns name t hm
      simp only [List.mem_append, List.mem_cons, reduceCtorEq, false_or] at hm
      exact hfold ns name t (List.mem_append.2 hm))
  rw [render_cls_escForms] at h
  simpa only [satSimple] using h

/-- **`tag? pre… [ name op= <escape s> flag ] post…`** (any gaps inside the brackets, any operator, with or
    without flag; the guard on what follows `escape s` is part of `hattr`, see `escAttr_ok_iff`): … iff …
    the attribute selector with the VALUE `nulToFFFD s` holds (`C12Parse.AttrHolds`: some attribute designated
    by the name passes the test `op`, value, flag; for `!=` none does). -/
theorem escape_attr_text (c : Ctx) (l : Loc) (e : Elem) (kids : List Node) (hf : l.focus = .elem e kids)
    (tag : Option STagN) (pre post : List SItem)
    (g0 : Str) (name : Forms) (g1 : Str) (op : Option Nat) (g2 s : Str) (flag : Option (Str × Nat)) (g4 : Str)
    (g₁ g₂ : Str) (hg₁ : isGap g₁) (hg₂ : isGap g₂)
    (htag : ∀ t, tag = some t →
      t.ok (renderItems pre ++ ((escAttr g0 name g1 op g2 s flag g4).render ++ (renderItems post ++ g₂))))
    (hpre : itemsOK pre ((escAttr g0 name g1 op g2 s flag g4).render ++ (renderItems post ++ g₂)))
    (hattr : (escAttr g0 name g1 op g2 s flag g4).ok (renderItems post ++ g₂))
    (hpost : itemsOK post g₂)
    (hall : ∀ x ∈ pre ++ post, (simpleOf x).isSome = true)
    (h0 : ∀ x ∈ g₁ ++ (tagText tag ++ (renderItems pre ++
      ((escAttr g0 name g1 op g2 s flag g4).render ++ renderItems post))) ++ g₂, x ≠ 0)
    (hfold : ∀ ns nm t, Simple.attr ns nm (some t) ∈ simplesOf pre ++
        Simple.attr [] (valueOf name) (testOf (escAttr g0 name g1 op g2 s flag g4).value) :: simplesOf post →
      Css.caseInsensitive c nm t.flag = true → c.env.fold = lowerCp) :
    ∃ b, matchText c (g₁ ++ (tagText tag ++ (renderItems pre ++
        ((91 :: (g0 ++ (renderIdentWith name ++ (g1 ++ (opText op ++ (g2 ++ (escape s ++
          (flagText flag ++ (g4 ++ [93]))))))))) ++ renderItems post))) ++ g₂) l = .ok b ∧
      (b = true ↔ e.isDoc = false ∧ TagCond c e (tag.map STagN.value) ∧
        (∀ x ∈ simplesOf pre, satSimple c l e x = true) ∧
        AttrHolds c e (valueOf name)
          (some ⟨opOf (opText op), nulToFFFD s, flagOf (flag.map fun x => lowerCp x.2)⟩)
          (fun x => designates c [] (valueOf name) x = true) ∧
        (∀ x ∈ simplesOf post, satSimple c l e x = true)) := by
  have h := item_in_compound_text c l e kids hf tag pre post (.attr (escAttr g0 name g1 op g2 s flag g4))
    (.attr [] (valueOf name) (testOf (escAttr g0 name g1 op g2 s flag g4).value)) rfl g₁ g₂ hg₁ hg₂
    (by rw [SItem.render]; exact htag) (by rw [SItem.render]; exact hpre)
    (by rw [SItem.ok]; exact hattr) hpost hall (by rw [SItem.render]; exact h0) hfold
  rw [SItem.render, escAttr_render, escAttr_test] at h
  obtain ⟨b, h1, h2⟩ := h
  refine ⟨b, h1, h2.trans ?_⟩
  simp only [satSimple, C12Parse.satAttr_iff]

/-! ### Exactly the three texts of the sentence -/

/-- **`'#' + escape(s)`** on one element: accepted by the parser model, and the matcher model accepts `e` iff it
    is not the document object, it is in the default namespace if the caller's map has one (`TagCond … none`:
    the implied `*`), and its id is `nulToFFFD s`. -/
theorem hash_escape_text (c : Ctx) (l : Loc) (e : Elem) (kids : List Node) (hf : l.focus = .elem e kids)
    (s : Str) (hs : s ≠ []) :
    ∃ b, matchText c (35 :: escape s) l = .ok b ∧
      (b = true ↔ e.isDoc = false ∧ TagCond c e none ∧ idOf c e = some (nulToFFFD s)) := by
  have h := escape_id_text c l e kids hf none [] [] s hs [] [] (by decide) (by decide)
    (by intro t ht; cases ht) (by simp [itemsOK]) (by simp [itemsOK]) (by simp)
    (by simp [tagText, renderItems]) (by simp [simplesOf])
  simpa [tagText, renderItems, simplesOf] using h

/-- **`'.' + escape(s)`** on one element: … and it carries the class `nulToFFFD s`. -/
theorem dot_escape_text (c : Ctx) (l : Loc) (e : Elem) (kids : List Node) (hf : l.focus = .elem e kids)
    (s : Str) (hs : s ≠ []) :
    ∃ b, matchText c (46 :: escape s) l = .ok b ∧
      (b = true ↔ e.isDoc = false ∧ TagCond c e none ∧ hasClass c e (nulToFFFD s) = true) := by
  have h := escape_class_text c l e kids hf none [] [] s hs [] [] (by decide) (by decide)
    (by intro t ht; cases ht) (by simp [itemsOK]) (by simp [itemsOK]) (by simp)
    (by simp [tagText, renderItems]) (by simp [simplesOf])
  simpa [tagText, renderItems, simplesOf] using h

/-- **`'[' + a + '=' + escape(s) + ']'`** on one element (`a` an attribute name in any admissible spelling):
    … and SOME attribute the name designates (`C12Parse.designates` with the empty prefix: the whole key, under
    the case rule of the document kind) HAS THE VALUE `nulToFFFD s` — compared ASCII case-insensitively exactly
    when CSS says so for that attribute (`caseInsensitive`: the `type` attribute of a non-XML document).
    `‹ci›` needs an ASCII-folding matcher environment (`hfold`). -/
theorem attr_eq_escape_text (c : Ctx) (l : Loc) (e : Elem) (kids : List Node) (hf : l.focus = .elem e kids)
    (a : Forms) (s : Str) (hs : s ≠ []) (ha : identOK a (61 :: (escape s ++ [93])))
    (h0 : ∀ x ∈ renderIdentWith a, x ≠ 0)
    (hfold : Css.caseInsensitive c (valueOf a) .none = true → c.env.fold = lowerCp) :
    ∃ b, matchText c (91 :: (renderIdentWith a ++ 61 :: (escape s ++ [93]))) l = .ok b ∧
      (b = true ↔ e.isDoc = false ∧ TagCond c e none ∧
        ∃ x ∈ e.attrs, designates c [] (valueOf a) x = true ∧
          foldCase (Css.caseInsensitive c (valueOf a) .none) (nvalJoin (normalizeValue x.val)) =
            foldCase (Css.caseInsensitive c (valueOf a) .none) (nulToFFFD s)) := by
  have hr : (escAttr [] a [] none [] s none []).render = 91 :: (renderIdentWith a ++ 61 :: (escape s ++ [93])) := by
    rw [escAttr_render]; simp [opText, flagText]
  have h := escape_attr_text c l e kids hf none [] [] [] a [] none [] s none [] [] [] (by decide) (by decide)
    (by intro t ht; cases ht) (by simp [itemsOK])
    (by
      rw [escAttr_ok_iff _ _ _ _ _ _ _ _ hs]
      refine ⟨by decide, by decide, ?_, by decide, by decide, by simp, guard_noflag [] _ (by decide), by simp⟩
      simpa [escAttr, SAttr.afterName, SValue.render, escForms_render, opText, flagText, renderItems] using ha)
    (by simp [itemsOK]) (by simp)
    (by
      rw [hr]
      intro x hx
      simp only [tagText, renderItems, List.nil_append, List.append_nil, List.mem_cons, List.mem_append,
        List.not_mem_nil, or_false] at hx
      rcases hx with rfl | hx | rfl | hx | rfl
      · decide
      · exact h0 x hx
      · decide
      · exact escape_noNul s x hx
      · decide)
    (by
      intro ns nm t hm hci
      rw [escAttr_test] at hm
      simp only [simplesOf, List.filterMap_nil, List.nil_append, List.mem_singleton, Simple.attr.injEq,
        Option.some.injEq] at hm
      obtain ⟨_, rfl, rfl⟩ := hm
      exact hfold hci)
  obtain ⟨b, h1, h2⟩ := h
  refine ⟨b, by simpa [tagText, renderItems, opText, flagText] using h1, h2.trans ?_⟩
  simp [simplesOf, AttrHolds, opOf, opText, flagOf, Passes, Css.valTest]

/-- Without a default namespace in the caller's map the condition on the type is void. -/
theorem tagCond_none_of_no_default (c : Ctx) (e : Elem) (h : c.nsGet [] = none) : TagCond c e none :=
  Or.inl h

/-! ## 2d. `select`: exactly the designated elements -/

section Select
open C01Parse (selectText Spellable spList spComplex spCompound spParts spSimple identOkB Spells listV)

theorem identOkB_nulToFFFD {s : Str} (hs : s ≠ []) : identOkB (nulToFFFD s) = true :=
  (C01Parse.identOkB_iff _).2 ⟨nulToFFFD_ne_nil hs, nulToFFFD_noNul s⟩

/-- A selector list of `C09Compile`'s grammar that is one compound made of one simple selector. -/
def oneItem (it : C09Compile.SItem) : C09Compile.SSelList := .mk (.mk none [it]) []

theorem oneItem_render (it : C09Compile.SItem) : [] ++ (oneItem it).render ++ [] = it.render := by
  simp [oneItem, C09Compile.SSelList.render, C09Compile.SCompound.render, C09Compile.renderItems,
    C09Compile.renderRest]

theorem oneItem_ok (it : C09Compile.SItem) (h : it.ok []) : (oneItem it).ok [] := by
  simp only [oneItem, C09Compile.SSelList.ok, C09Compile.SCompound.ok, C09Compile.itemsOK,
    C09Compile.renderItems, C09Compile.renderRest, C09Compile.restOK, List.append_nil, and_true, true_and]
  exact ⟨h, Or.inr (by simp)⟩

/-- **`select('#' + escape(s))`** below `tag`, no limit: the parser model accepts the text and the matcher model
    returns, in document order, exactly the descendant elements that the CSS reading `Css.sat` designates for
    the selector `#v`, `v = nulToFFFD s` — the elements (not the document object; in the default namespace if
    the map has one) whose `id` is `v`. -/
theorem select_hash_escape (E : Env) (isXml : Bool) (ns : List (Str × Str)) (s : Str) (hs : s ≠ []) (tag : Loc)
    (limit : Int) (hlim : limit < 1) :
    selectText E isXml ns (35 :: escape s) tag limit =
      .ok (Css.selectSpec (mkCtx E isXml ns tag) [.one (.mk none [.id (nulToFFFD s)])] tag) := by
  have h := C01Parse.select_text_exact E isXml ns [.one (.mk none [.id (nulToFFFD s)])]
    ⟨by simp, by simp [spList, spComplex, spCompound, spParts, spSimple, identOkB_nulToFFFD hs]⟩ tag
    (Or.inl (by intro x hx; simp only [List.mem_singleton] at hx; subst hx; rfl))
    (Or.inl (by intro x hx; simp only [List.mem_singleton] at hx; subst hx; rfl)) limit hlim [] []
    (oneItem (.id (escForms s)))
    (by simp [Spells, oneItem, C09Compile.SSelList.value, C09Compile.SCompound.value, C09Compile.itemsValue,
      C09Compile.restValue, C09Compile.SItem.value, escForms_value, listV, C01Parse.complexFirst,
      C01Parse.complexRest, C01Parse.selsV, C01Parse.compoundV, C01Parse.partsV, C01Parse.simpleV])
    (by decide) (by decide)
    (oneItem_ok _ (by rw [C09Compile.SItem.ok]; exact escForms_ok s hs _))
    (by rw [oneItem_render, C09Compile.SItem.render, escForms_render]; exact noNul_cons_escape 35 (by decide) s)
  rwa [oneItem_render, C09Compile.SItem.render, escForms_render] at h

/-- **`select('.' + escape(s))`**: exactly the elements designated by `.v`, `v = nulToFFFD s`. -/
theorem select_dot_escape (E : Env) (isXml : Bool) (ns : List (Str × Str)) (s : Str) (hs : s ≠ []) (tag : Loc)
    (limit : Int) (hlim : limit < 1) :
    selectText E isXml ns (46 :: escape s) tag limit =
      .ok (Css.selectSpec (mkCtx E isXml ns tag) [.one (.mk none [.cls (nulToFFFD s)])] tag) := by
  have h := C01Parse.select_text_exact E isXml ns [.one (.mk none [.cls (nulToFFFD s)])]
    ⟨by simp, by simp [spList, spComplex, spCompound, spParts, spSimple, identOkB_nulToFFFD hs]⟩ tag
    (Or.inl (by intro x hx; simp only [List.mem_singleton] at hx; subst hx; rfl))
    (Or.inl (by intro x hx; simp only [List.mem_singleton] at hx; subst hx; rfl)) limit hlim [] []
    (oneItem (.cls (escForms s)))
    (by simp [Spells, oneItem, C09Compile.SSelList.value, C09Compile.SCompound.value, C09Compile.itemsValue,
      C09Compile.restValue, C09Compile.SItem.value, escForms_value, listV, C01Parse.complexFirst,
      C01Parse.complexRest, C01Parse.selsV, C01Parse.compoundV, C01Parse.partsV, C01Parse.simpleV])
    (by decide) (by decide)
    (oneItem_ok _ (by rw [C09Compile.SItem.ok]; exact escForms_ok s hs _))
    (by rw [oneItem_render, C09Compile.SItem.render, escForms_render]; exact noNul_cons_escape 46 (by decide) s)
  rwa [oneItem_render, C09Compile.SItem.render, escForms_render] at h

/-- **`select('[' + a + '=' + escape(s) + ']')`**, `a` a non-empty NUL-free attribute name written as `escape`
    writes it (in particular: any plain name): exactly the elements designated by `[a="v"]`, `v = nulToFFFD s`.
    (`hfold`: the comparison is case-sensitive, or the matcher environment folds ASCII.) -/
theorem select_attr_eq_escape (E : Env) (isXml : Bool) (ns : List (Str × Str)) (a s : Str) (hs : s ≠ [])
    (ha : identOkB a = true) (tag : Loc)
    (hfold : Css.caseInsensitive (mkCtx E isXml ns tag) a .none = false ∨ E.env.fold = lowerCp)
    (limit : Int) (hlim : limit < 1) :
    selectText E isXml ns (91 :: (escape a ++ 61 :: (escape s ++ [93]))) tag limit =
      .ok (Css.selectSpec (mkCtx E isXml ns tag)
        [.one (.mk none [.attr [] a (some ⟨.eq, nulToFFFD s, .none⟩)])] tag) := by
  have ha' := (C01Parse.identOkB_iff a).1 ha
  have hra : renderIdentWith (C01Parse.identForms a) = escape a := C01Parse.identForms_render a ha'.2
  have hr : (C09Compile.SItem.attr (escAttr [] (C01Parse.identForms a) [] none [] s none [])).render =
      91 :: (escape a ++ 61 :: (escape s ++ [93])) := by
    rw [C09Compile.SItem.render, escAttr_render, hra]; simp [opText, flagText]
  have h := C01Parse.select_text_exact E isXml ns [.one (.mk none [.attr [] a (some ⟨.eq, nulToFFFD s, .none⟩)])]
    ⟨by simp, by
      simp [spList, spComplex, spCompound, spParts, spSimple, ha]
      intro x hx; exact nulToFFFD_noNul s x hx⟩ tag
    (by
      rcases hfold with h | h
      · left; intro x hx; simp only [List.mem_singleton] at hx; subst hx
        simp [Css.Complex.caseSensitiveIn, Css.Complex.all, Css.Compound.all, Css.allParts, Css.Simple.all,
          Css.Simple.caseSensitiveIn, h]
      · exact Or.inr h)
    (Or.inl (by intro x hx; simp only [List.mem_singleton] at hx; subst hx; rfl)) limit hlim [] []
    (oneItem (.attr (escAttr [] (C01Parse.identForms a) [] none [] s none [])))
    (by simp [Spells, oneItem, C09Compile.SSelList.value, C09Compile.SCompound.value, C09Compile.itemsValue,
      C09Compile.restValue, C09Compile.SItem.value, escAttr, SAttr.value, SValue.value, escForms_value,
      C01Parse.identForms_value, opText, listV, C01Parse.complexFirst,
      C01Parse.complexRest, C01Parse.selsV, C01Parse.compoundV, C01Parse.partsV, C01Parse.simpleV,
      Css.AttrOp.text, C01Parse.flagV])
    (by decide) (by decide)
    (oneItem_ok _ (by
      rw [C09Compile.SItem.ok, escAttr_ok_iff _ _ _ _ _ _ _ _ hs]
      exact ⟨by decide, by decide, C01Parse.identForms_ok a ha'.1 ha'.2 _, by decide, by decide, by simp,
        guard_noflag [] _ (by decide), by simp⟩))
    (by
      rw [oneItem_render, hr]
      intro x hx
      simp only [List.mem_cons, List.mem_append, List.not_mem_nil, or_false] at hx
      rcases hx with rfl | hx | rfl | hx | rfl
      · decide
      · exact escape_noNul a x hx
      · decide
      · exact escape_noNul s x hx
      · decide)
  rwa [oneItem_render, hr] at h

end Select

/-! ## 2e. The general form: `escForms s` in a slot of any top-level compound of any selector list -/

/-- A selector list of the full grammar of `C09Compile2` with ONE top-level compound singled out: it is the
    first one (followed by `rest`), or it stands behind the compound `c₀`, the pairs `before` and the
    combinator `cb`, followed by `after`. -/
inductive ListCtx where
  | first (rest : List (SComb × SCompound))
  | later (c₀ : SCompound) (before : List (SComb × SCompound)) (cb : SComb) (after : List (SComb × SCompound))

def ListCtx.fill : ListCtx → SCompound → SSelList
  | .first rest, c => .mk c rest
  | .later c₀ before cb after, c => .mk c₀ (before ++ (cb, c) :: after)

/-- The same on the values. -/
def ListCtx.fillV : ListCtx → Compound → SelListV
  | .first rest, c => .mk c (restValue rest)
  | .later c₀ before cb after, c => .mk c₀.value (restValue before ++ (cb.value, c) :: restValue after)

/-- The text in front of the singled-out compound … -/
def ListCtx.left : ListCtx → Str
  | .first _ => []
  | .later c₀ before cb _ => c₀.render ++ (renderRest before ++ cb.render)

/-- … and behind it. -/
def ListCtx.right : ListCtx → Str
  | .first rest => renderRest rest
  | .later _ _ _ after => renderRest after

theorem renderRest_append : ∀ (l₁ l₂ : List (SComb × SCompound)),
    renderRest (l₁ ++ l₂) = renderRest l₁ ++ renderRest l₂
  | [], l₂ => by simp [renderRest]
  | x :: l₁, l₂ => by simp [renderRest, renderRest_append l₁ l₂]

theorem restValue_append : ∀ (l₁ l₂ : List (SComb × SCompound)),
    restValue (l₁ ++ l₂) = restValue l₁ ++ restValue l₂
  | [], l₂ => by simp [restValue]
  | x :: l₁, l₂ => by simp [restValue, restValue_append l₁ l₂]

theorem itemsValue_append : ∀ (a b : List SItem), itemsValue (a ++ b) = itemsValue a ++ itemsValue b
  | [], b => by simp [itemsValue]
  | x :: a, b => by simp [itemsValue, itemsValue_append a b]

theorem ListCtx.fill_render (K : ListCtx) (c : SCompound) :
    (K.fill c).render = K.left ++ (c.render ++ K.right) := by
  cases K with
  | first rest => simp [ListCtx.fill, ListCtx.left, ListCtx.right, SSelList.render]
  | later c₀ before cb after =>
    simp [ListCtx.fill, ListCtx.left, ListCtx.right, SSelList.render, renderRest_append, renderRest]

theorem ListCtx.fill_value (K : ListCtx) (c : SCompound) : (K.fill c).value = K.fillV c.value := by
  cases K with
  | first rest => simp [ListCtx.fill, ListCtx.fillV, SSelList.value]
  | later c₀ before cb after =>
    simp [ListCtx.fill, ListCtx.fillV, SSelList.value, restValue_append, restValue]

/-- **General form, any item.**  A selector list of the full grammar (`C09Compile2`: combinators, commas,
    pseudo-classes, namespaces, … around) in which the item `it` stands in the compound `tag? pre… it post…`
    singled out by `K`: the text reads `… it.render …`, the compiled structure is `denote` of the values with
    `it.value` in that slot. -/
theorem compile_item_general (B : Builtins) (g₁ g₂ : Str) (K : ListCtx) (tag : Option STagN)
    (pre post : List SItem) (it : SItem) (hg₁ : isGap g₁) (hg₂ : isGap g₂)
    (hok : (K.fill (.mk tag (pre ++ it :: post))).ok 0 g₂)
    (htbl : (K.fill (.mk tag (pre ++ it :: post))).tbl [])
    (h0 : ∀ x ∈ g₁ ++ (K.left ++ ((tagText tag ++ (renderItems pre ++ (it.render ++ renderItems post))) ++
      K.right)) ++ g₂, x ≠ 0) :
    Parser.compile pyFoldEnv Gen.lexicon B
        (g₁ ++ (K.left ++ ((tagText tag ++ (renderItems pre ++ (it.render ++ renderItems post))) ++ K.right)) ++ g₂)
        [] 0 =
      .ok (denote B (K.fillV (.mk (tag.map STagN.value) (itemsValue pre ++ it.value :: itemsValue post)))) := by
  have hr : (K.fill (.mk tag (pre ++ it :: post))).render =
      K.left ++ ((tagText tag ++ (renderItems pre ++ (it.render ++ renderItems post))) ++ K.right) := by
    rw [ListCtx.fill_render, compound_render, renderItems_append, renderItems_cons]
  have hv : (K.fill (.mk tag (pre ++ it :: post))).value =
      K.fillV (.mk (tag.map STagN.value) (itemsValue pre ++ it.value :: itemsValue post)) := by
    rw [ListCtx.fill_value, SCompound.value, itemsValue_append, itemsValue]
  have h := C09Compile2.compile_eq_denote2_plain B g₁ g₂ _ hg₁ hg₂ hok htbl (by rw [hr]; exact h0)
  rwa [hr, hv] at h

/-- **`… #<escape s> …` anywhere at the top level of a selector list**: the compiled structure is `denote` of
    the values with the id `nulToFFFD s` in that slot. -/
theorem compile_escape_id_general (B : Builtins) (g₁ g₂ : Str) (K : ListCtx) (tag : Option STagN)
    (pre post : List SItem) (s : Str) (hg₁ : isGap g₁) (hg₂ : isGap g₂)
    (hok : (K.fill (.mk tag (pre ++ .id (escForms s) :: post))).ok 0 g₂)
    (htbl : (K.fill (.mk tag (pre ++ .id (escForms s) :: post))).tbl [])
    (h0 : ∀ x ∈ g₁ ++ (K.left ++ ((tagText tag ++ (renderItems pre ++ ((35 :: escape s) ++ renderItems post))) ++
      K.right)) ++ g₂, x ≠ 0) :
    Parser.compile pyFoldEnv Gen.lexicon B
        (g₁ ++ (K.left ++ ((tagText tag ++ (renderItems pre ++ ((35 :: escape s) ++ renderItems post))) ++ K.right))
          ++ g₂) [] 0 =
      .ok (denote B (K.fillV (.mk (tag.map STagN.value)
        (itemsValue pre ++ .id (nulToFFFD s) :: itemsValue post)))) := by
  have h := compile_item_general B g₁ g₂ K tag pre post (.id (escForms s)) hg₁ hg₂ hok htbl
    (by rw [render_id_escForms]; exact h0)
  rwa [render_id_escForms, value_id_escForms] at h

/-- **`… .<escape s> …`** likewise: the class `nulToFFFD s` in that slot. -/
theorem compile_escape_class_general (B : Builtins) (g₁ g₂ : Str) (K : ListCtx) (tag : Option STagN)
    (pre post : List SItem) (s : Str) (hg₁ : isGap g₁) (hg₂ : isGap g₂)
    (hok : (K.fill (.mk tag (pre ++ .cls (escForms s) :: post))).ok 0 g₂)
    (htbl : (K.fill (.mk tag (pre ++ .cls (escForms s) :: post))).tbl [])
    (h0 : ∀ x ∈ g₁ ++ (K.left ++ ((tagText tag ++ (renderItems pre ++ ((46 :: escape s) ++ renderItems post))) ++
      K.right)) ++ g₂, x ≠ 0) :
    Parser.compile pyFoldEnv Gen.lexicon B
        (g₁ ++ (K.left ++ ((tagText tag ++ (renderItems pre ++ ((46 :: escape s) ++ renderItems post))) ++ K.right))
          ++ g₂) [] 0 =
      .ok (denote B (K.fillV (.mk (tag.map STagN.value)
        (itemsValue pre ++ .cls (nulToFFFD s) :: itemsValue post)))) := by
  have h := compile_item_general B g₁ g₂ K tag pre post (.cls (escForms s)) hg₁ hg₂ hok htbl
    (by rw [render_cls_escForms]; exact h0)
  rwa [render_cls_escForms, value_cls_escForms] at h

/-- **`… [ name op= <escape s> flag ] …`** likewise: the attribute selector with the value `nulToFFFD s`
    (operator text, lower-cased flag) in that slot. -/
theorem compile_escape_value_general (B : Builtins) (g₁ g₂ : Str) (K : ListCtx) (tag : Option STagN)
    (pre post : List SItem) (g0 : Str) (name : Forms) (g1 : Str) (op : Option Nat) (g2 s : Str)
    (flag : Option (Str × Nat)) (g4 : Str) (hg₁ : isGap g₁) (hg₂ : isGap g₂)
    (hok : (K.fill (.mk tag (pre ++ .attr (escAttr g0 name g1 op g2 s flag g4) :: post))).ok 0 g₂)
    (htbl : (K.fill (.mk tag (pre ++ .attr (escAttr g0 name g1 op g2 s flag g4) :: post))).tbl [])
    (h0 : ∀ x ∈ g₁ ++ (K.left ++ ((tagText tag ++ (renderItems pre ++
      ((91 :: (g0 ++ (renderIdentWith name ++ (g1 ++ (opText op ++ (g2 ++ (escape s ++
        (flagText flag ++ (g4 ++ [93]))))))))) ++ renderItems post))) ++ K.right)) ++ g₂, x ≠ 0) :
    Parser.compile pyFoldEnv Gen.lexicon B
        (g₁ ++ (K.left ++ ((tagText tag ++ (renderItems pre ++
          ((91 :: (g0 ++ (renderIdentWith name ++ (g1 ++ (opText op ++ (g2 ++ (escape s ++
            (flagText flag ++ (g4 ++ [93]))))))))) ++ renderItems post))) ++ K.right)) ++ g₂) [] 0 =
      .ok (denote B (K.fillV (.mk (tag.map STagN.value)
        (itemsValue pre ++
          .attr [] ⟨valueOf name, some (opText op, nulToFFFD s, flag.map fun x => lowerCp x.2)⟩ ::
          itemsValue post)))) := by
  have hrend : (SItem.attr (escAttr g0 name g1 op g2 s flag g4)).render =
      91 :: (g0 ++ (renderIdentWith name ++ (g1 ++ (opText op ++ (g2 ++ (escape s ++
        (flagText flag ++ (g4 ++ [93])))))))) := by rw [SItem.render, escAttr_render]
  have hval : (SItem.attr (escAttr g0 name g1 op g2 s flag g4)).value =
      .attr [] ⟨valueOf name, some (opText op, nulToFFFD s, flag.map fun x => lowerCp x.2)⟩ := by
    simp only [SItem.value, escAttr, SAttr.value, Option.map_some, SValue.value, escForms_value]
  have h := compile_item_general B g₁ g₂ K tag pre post (.attr (escAttr g0 name g1 op g2 s flag g4)) hg₁ hg₂
    hok htbl (by rw [hrend]; exact h0)
  rwa [hrend, hval] at h

/-! ## 3. The excluded point: `escape('') == ''` is not an identifier -/

/-- Kind, pattern and offset of the error, if any. -/
def errInfo : M SelList → Option (ErrKind × Str × Nat)
  | .ok _ => none
  | .error e => some (e.kind, e.pattern, e.offset)

theorem eq_error_of_errInfo {x : M SelList} {k : ErrKind} {p : Str} {o : Nat}
    (h : errInfo x = some (k, p, o)) : x = .error ⟨k, p, o⟩ := by
  cases x with
  | ok _ => simp [errInfo] at h
  | error e =>
    obtain ⟨a, b, d⟩ := e
    simp only [errInfo, Option.some.injEq, Prod.mk.injEq] at h
    obtain ⟨rfl, rfl, rfl⟩ := h
    rfl

/-- **The recorded finding `escape('')`.**  `escape "" = ""`, so `'#' + escape('')` is `#`, `'.' + escape('')`
    is `.`, `'[a=' + escape('') + ']'` is `[a=]` — and the parser model rejects all three with the
    `SelectorSyntaxError`s "Malformed id / class / attribute selector at position 0" (confirmed on the real
    library).  So `s ≠ ""` cannot be dropped from the theorems above: `escape` does not map the empty string to
    an identifier (CSSOM's `CSS.escape('')` returns `''` as well; there is no identifier spelling the empty
    string). -/
theorem escape_empty_not_ident :
    escape [] = [] ∧
    Parser.compile pyFoldEnv Gen.lexicon Gen.builtinsRec (35 :: escape []) [] 0 =
      .error ⟨.malformedId, [35], 0⟩ ∧
    Parser.compile pyFoldEnv Gen.lexicon Gen.builtinsRec (46 :: escape []) [] 0 =
      .error ⟨.malformedClass, [46], 0⟩ ∧
    Parser.compile pyFoldEnv Gen.lexicon Gen.builtinsRec (91 :: 97 :: 61 :: (escape [] ++ [93])) [] 0 =
      .error ⟨.malformedAttribute, [91, 97, 61, 93], 0⟩ :=
  ⟨by decide, eq_error_of_errInfo (by decide +kernel), eq_error_of_errInfo (by decide +kernel),
    eq_error_of_errInfo (by decide +kernel)⟩

/-- … hence `matchText` / `selectText` on `#` raise instead of answering. -/
theorem matchText_hash_empty (c : Ctx) (l : Loc) :
    matchText c (35 :: escape []) l = .error ⟨.malformedId, [35], 0⟩ := by
  rw [matchText, escape_empty_not_ident.2.1]

/-! ## What the right-hand sides of the `select` theorems say, element by element -/

/-- Membership in `selectSpec` for a one-compound, one-item selector: a descendant element of `tag`, not the
    document object, in the default namespace if the map has one (the implied `*`), satisfying the item. -/
theorem mem_selectSpec_one (c : Ctx) (tag l : Loc) (sm : Simple) :
    l ∈ Css.selectSpec c [.one (.mk none [sm])] tag ↔
      l ∈ Css.descendantElems tag ∧ l.isDoc = false ∧
        ∃ e kids, l.focus = .elem e kids ∧ TagCond c e none ∧ satSimple c l e sm = true := by
  have hT : ∀ e, Css.satType c e (some ⟨.default, none⟩) = true ↔ TagCond c e none := fun e =>
    C12Parse.matchTag_implTag_iff c e none
  simp only [Css.selectSpec, List.mem_filter, List.any_cons, List.any_nil, Bool.or_false, Css.satTop,
    Css.Complex.withImplied, Css.Compound.withImplied, Css.sat, Css.satCompound, Css.satParts, Bool.and_true,
    Bool.and_eq_true, Bool.not_eq_true']
  refine and_congr_right fun _ => and_congr_right fun _ => ?_
  cases hfoc : l.focus with
  | elem e kids =>
    simp only [Bool.and_eq_true, hT]
    exact ⟨fun h => ⟨e, kids, rfl, h⟩, fun ⟨e', k', he, h⟩ => by cases he; exact h⟩
  | str k s => simp

/-- **`select('#' + escape(s))`, membership form**: the result contains exactly the descendant elements of `tag`
    (not the document object; in the default namespace if the caller's map has one) WHOSE ID IS `nulToFFFD s`. -/
theorem mem_select_hash_escape (E : Env) (isXml : Bool) (ns : List (Str × Str)) (s : Str) (hs : s ≠ []) (tag : Loc)
    (limit : Int) (hlim : limit < 1) :
    ∃ r, C01Parse.selectText E isXml ns (35 :: escape s) tag limit = .ok r ∧
      ∀ l, l ∈ r ↔ l ∈ Css.descendantElems tag ∧ l.isDoc = false ∧
        ∃ e kids, l.focus = .elem e kids ∧ TagCond (mkCtx E isXml ns tag) e none ∧
          idOf (mkCtx E isXml ns tag) e = some (nulToFFFD s) := by
  refine ⟨_, select_hash_escape E isXml ns s hs tag limit hlim, fun l => ?_⟩
  rw [mem_selectSpec_one]
  simp only [satSimple, beq_iff_eq]

/-- **`select('.' + escape(s))`, membership form**: … THAT CARRY THE CLASS `nulToFFFD s`. -/
theorem mem_select_dot_escape (E : Env) (isXml : Bool) (ns : List (Str × Str)) (s : Str) (hs : s ≠ []) (tag : Loc)
    (limit : Int) (hlim : limit < 1) :
    ∃ r, C01Parse.selectText E isXml ns (46 :: escape s) tag limit = .ok r ∧
      ∀ l, l ∈ r ↔ l ∈ Css.descendantElems tag ∧ l.isDoc = false ∧
        ∃ e kids, l.focus = .elem e kids ∧ TagCond (mkCtx E isXml ns tag) e none ∧
          hasClass (mkCtx E isXml ns tag) e (nulToFFFD s) = true := by
  refine ⟨_, select_dot_escape E isXml ns s hs tag limit hlim, fun l => ?_⟩
  rw [mem_selectSpec_one]
  simp only [satSimple]

/-- **`select('[' + a + '=' + escape(s) + ']')`, membership form**: … ONE OF WHOSE ATTRIBUTES designated by `a`
    HAS THE VALUE `nulToFFFD s` (under the case rule CSS prescribes for `a`). -/
theorem mem_select_attr_eq_escape (E : Env) (isXml : Bool) (ns : List (Str × Str)) (a s : Str) (hs : s ≠ [])
    (ha : C01Parse.identOkB a = true) (tag : Loc)
    (hfold : Css.caseInsensitive (mkCtx E isXml ns tag) a .none = false ∨ E.env.fold = lowerCp)
    (limit : Int) (hlim : limit < 1) :
    ∃ r, C01Parse.selectText E isXml ns (91 :: (escape a ++ 61 :: (escape s ++ [93]))) tag limit = .ok r ∧
      ∀ l, l ∈ r ↔ l ∈ Css.descendantElems tag ∧ l.isDoc = false ∧
        ∃ e kids, l.focus = .elem e kids ∧ TagCond (mkCtx E isXml ns tag) e none ∧
          ∃ x ∈ e.attrs, designates (mkCtx E isXml ns tag) [] a x = true ∧
            foldCase (Css.caseInsensitive (mkCtx E isXml ns tag) a .none) (nvalJoin (normalizeValue x.val)) =
              foldCase (Css.caseInsensitive (mkCtx E isXml ns tag) a .none) (nulToFFFD s) := by
  refine ⟨_, select_attr_eq_escape E isXml ns a s hs ha tag hfold limit hlim, fun l => ?_⟩
  rw [mem_selectSpec_one]
  simp [satSimple, C12Parse.satAttr_iff, AttrHolds, Passes, Css.valTest]

/-! ## Non-vacuity: a small tree, and `s` with NUL, a leading digit, a lone `-`, a control character, non-ASCII
  code points, a space (all confirmed on the real library with the same tree built through bs4) -/

namespace Examples
open C12Parse (ok_true_of ok_false_of)

def E0 : Env := ⟨asciiEnv, fun _ => 0, id⟩

def sNul : Str := [0, 97]                 -- "\x00a"
def sDigit : Str := "1a".toStr
def sDash : Str := "-".toStr
def sCtl : Str := [1, 98]                 -- "\x01b"
def sUni : Str := [233, 0x1F600]          -- "é😀"
def sSpace : Str := "a b".toStr

def sattr (k : String) (v : Str) : Attr := ⟨k.toStr, none, none, .str v⟩

/-- `<p id=v class="x" + v title=v>` (the class attribute as the list the tree builder makes). -/
def el (v : Str) : Elem :=
  ⟨false, "p".toStr, none, none,
    [sattr "id" v, ⟨"class".toStr, none, none, .seq [.str "x".toStr, .str v] []⟩, sattr "title" v]⟩

def docE : Elem := ⟨true, "[document]".toStr, none, none, []⟩

/-- Seven `p` elements whose id / class / title are: U+FFFD `a`, `1a`, `-`, U+0001 `b`, `é😀`, `other`, `a b`. -/
def tree : Node :=
  .elem docE [.elem (el [0xFFFD, 97]) [], .elem (el sDigit) [], .elem (el sDash) [], .elem (el sCtl) [],
    .elem (el sUni) [], .elem (el "other".toStr) [], .elem (el sSpace) []]

def top : Loc := ⟨tree, []⟩
def ctx : Ctx := mkCtx E0 false [] top
def child (i : Nat) : Loc := (top.children.drop i).headD top

-- what `escape` writes, and the forms
example : escape sNul = [0xFFFD, 97] ∧ escape sDigit = "\\31 a".toStr ∧ escape sDash = "\\-".toStr ∧
    escape sCtl = "\\1 b".toStr ∧ escape sUni = sUni ∧ escape sSpace = "a\\ b".toStr := by decide
example : escForms sNul = [(0xFFFD, .lit), (97, .lit)] ∧
    escForms sDigit = [(49, .hex 2 [] (some .space)), (97, .lit)] ∧ escForms sDash = [(45, .bs)] ∧
    escForms sCtl = [(1, .hex 1 [] (some .space)), (98, .lit)] ∧ escForms sSpace = [(97, .lit), (32, .bs), (98, .lit)] := by
  decide
-- admissible even directly in front of a hex digit / an identifier character (the terminator is part of the escape)
example : identOK (escForms [49]) "a".toStr := escForms_ok _ (by decide) _
example : ¬ identOK (escForms []) [] := by rw [escForms_ok_iff]; simp

/-- `#<U+FFFD>a` (from `s = "\x00a"`): instance of `hash_escape_text` on the first element … -/
example : matchText ctx (35 :: escape sNul) (child 0) = .ok true :=
  ok_true_of (hash_escape_text ctx (child 0) (el [0xFFFD, 97]) [] rfl sNul (by decide))
    ⟨rfl, Or.inl (by decide), by decide⟩

/-- … and on the second one, whose id is `1a`. -/
example : matchText ctx (35 :: escape sNul) (child 1) = .ok false :=
  ok_false_of (hash_escape_text ctx (child 1) (el sDigit) [] rfl sNul (by decide))
    (by rintro ⟨_, _, h⟩; revert h; decide)

/-- `#\31 a` -/
example : matchText ctx "#\\31 a".toStr (child 1) = .ok true :=
  ok_true_of (hash_escape_text ctx (child 1) (el sDigit) [] rfl sDigit (by decide))
    ⟨rfl, Or.inl (by decide), by decide⟩

/-- `.\-` -/
example : matchText ctx ".\\-".toStr (child 2) = .ok true :=
  ok_true_of (dot_escape_text ctx (child 2) (el sDash) [] rfl sDash (by decide))
    ⟨rfl, Or.inl (by decide), by decide⟩

/-- `[title=\1 b]` -/
example : matchText ctx "[title=\\1 b]".toStr (child 3) = .ok true :=
  ok_true_of (attr_eq_escape_text ctx (child 3) (el sCtl) [] rfl (C12Parse.Examples.lits "title") sCtl (by decide)
    (by simp only [identOK]; decide) (by decide) (fun _ => rfl))
    ⟨rfl, Or.inl (by decide), sattr "title" sCtl, by simp [el], by decide, by decide⟩

/-- `p.x#é😀[title]`: instance of `escape_id_text` with a type selector, an item in front and one behind. -/
example : matchText ctx ([112, 46, 120, 35] ++ sUni ++ "[title]".toStr) (child 4) = .ok true :=
  ok_true_of (escape_id_text ctx (child 4) (el sUni) [] rfl (some ⟨none, .name (C12Parse.Examples.lits "p")⟩)
    [.cls (C12Parse.Examples.lits "x")] [.attr ⟨[], C12Parse.Examples.lits "title", none, []⟩] sUni (by decide) [] []
    (by decide) (by decide)
    (by intro t ht; cases ht; simp only [STagN.ok, STag.ok, identOK]; decide)
    (by simp only [itemsOK, SItem.ok, identOK]; decide)
    (by simp only [itemsOK, SItem.ok, SAttr.ok, identOK]; decide)
    (by intro x hx; simp at hx; rcases hx with rfl | rfl <;> rfl)
    (by decide) (by intro ns name t hm; simp [simplesOf, simpleOf, testOf, SAttr.value] at hm))
    ⟨rfl, ⟨Or.inl (by decide), Or.inr (by unfold C12.NameEq; decide)⟩,
      by intro x hx; simp [simplesOf, simpleOf] at hx; subst hx; decide,
      by decide,
      by intro x hx; simp [simplesOf, simpleOf, testOf, SAttr.value] at hx; subst hx; decide⟩

def posOf (x : Except Parser.Err (List Loc)) : Option (List (List Nat)) :=
  match x with
  | .ok r => some (r.map Loc.pos)
  | .error _ => none

/-- `select('#a\ b')`: instance of `select_hash_escape`; the right-hand side evaluates to the seventh element. -/
example : C01Parse.selectText E0 false [] "#a\\ b".toStr top 0 =
    .ok (Css.selectSpec ctx [.one (.mk none [.id sSpace])] top) :=
  select_hash_escape E0 false [] sSpace (by decide) top 0 (by decide)
example : (Css.selectSpec ctx [.one (.mk none [.id sSpace])] top).map Loc.pos = [[6]] := by decide

-- the model evaluated directly on the texts `'#' + escape(s)`, `'.' + escape(s)`, `'[title=' + escape(s) + ']'`
-- (real library, same tree: [0], [1], [2], [3], [4], [6] for each of the three forms)
#guard posOf (C01Parse.selectText E0 false [] (35 :: escape sNul) top 0) == some [[0]]
#guard posOf (C01Parse.selectText E0 false [] (46 :: escape sDigit) top 0) == some [[1]]
#guard posOf (C01Parse.selectText E0 false [] ("[title=".toStr ++ escape sDash ++ "]".toStr) top 0) == some [[2]]
#guard posOf (C01Parse.selectText E0 false [] (35 :: escape sCtl) top 0) == some [[3]]
#guard posOf (C01Parse.selectText E0 false [] (46 :: escape sUni) top 0) == some [[4]]
#guard posOf (C01Parse.selectText E0 false [] (46 :: escape sSpace) top 0) == some [[6]]
#guard posOf (C01Parse.selectText E0 false [] ("[title=".toStr ++ escape sSpace ++ " i]".toStr) top 0) == some [[6]]
#guard posOf (C01Parse.selectText E0 false [] (35 :: escape "-1".toStr) top 0) == some []
#guard posOf (C01Parse.selectText E0 false [] ("p#".toStr ++ escape sDigit ++ ".x, p.x#".toStr ++ escape sCtl) top 0)
  == some [[1], [3]]
-- the excluded point
#guard posOf (C01Parse.selectText E0 false [] (35 :: escape []) top 0) == none
-- without the terminating space the next character would be read into the escape: `#\31a` is the id U+031A
#guard posOf (C01Parse.selectText E0 false [] "#\\31a".toStr top 0) == some []

end Examples

#print axioms escape_forms
#print axioms escForms_ok_iff
#print axioms compound_simple_text
#print axioms item_in_compound_text
#print axioms escAttr_ok_iff
#print axioms escape_id_text
#print axioms escape_class_text
#print axioms escape_attr_text
#print axioms hash_escape_text
#print axioms dot_escape_text
#print axioms attr_eq_escape_text
#print axioms select_hash_escape
#print axioms select_dot_escape
#print axioms select_attr_eq_escape
#print axioms mem_select_hash_escape
#print axioms mem_select_dot_escape
#print axioms mem_select_attr_eq_escape
#print axioms compile_item_general
#print axioms compile_escape_id_general
#print axioms compile_escape_class_general
#print axioms compile_escape_value_general
#print axioms escape_empty_not_ident
#print axioms matchText_hash_empty

end C10Parse
end SoupVerif
