/-
  C06 — "compile() accepts or rejects every string with a documented error only".

  Object of the theorems: `Parser.compile env L B pattern custom flags : Except Err SelList`, the
  function-for-function model of `CSSParser(pattern, custom, flags).process_selectors()` preceded
  by `process_custom` (Model/Parser.lean), instantiated with the token regular expressions the
  translator extracts from the Python source on every run (`Gen.lexicon`).  `Err.kind`
  enumerates the documented raise sites; anything else CPython could raise is `ErrKind.pyBug`.
  In the model the only producer of `pyBug` is fuel exhaustion of `parseSelectors`
  ("RecursionError"); `parseLoop` with no fuel left would silently stop (return its state).
  Both are excluded here: the fuel `Parser.compile` allots is provably enough, and above the
  bound the result does not depend on the fuel at all.

  What is proved (everything for ALL patterns, ALL custom maps, ALL flags, ANY `CharEnv`, ANY
  table of built-in selectors):

  * `tokens_nonnullable`, `special_nonnullable`  (by kernel evaluation on the generated data):
    no token expression can match the empty string — the tokenizer cannot loop.
  * `token_progress`, `token_in_bounds`, `token_start`.
  * `fuel_step`, `fuel_sufficient`: with `fuel ≥ needSel pattern pos c
        = 2·(|pattern| − pos) + 2 + Σ_{(k ↦ source t) ∈ c} (2·|t| + 2)`
    the result of `parseSelectors … fuel …` is the result for every larger fuel.
    Why this is enough although one alias may be *used* many times: fuel is passed down, not
    threaded — a nested call and the continuation after it both receive the same `fuel`, so
    fuel bounds the depth of the call tree, and along one branch an alias is expanded at most
    once (it is erased from the map before its definition is parsed, and replaced by the
    compiled list afterwards).  `Parser.compile` allots
        `2·|pattern| + 4·Σ(|def|+2) + 8 ≥ needSel` (`allotted_ge_need`): SUFFICIENT as written.
  * `compile_fuel_irrelevant`: `compile` = the same computation with any larger fuel.
  * `compile_no_pybug`, `compile_total`: `compile` returns a list or a documented error.
  * `compile_custom_errors_only_from_map`: `badCustomName` / `customCollision` (KeyError) come
    from `process_custom` only; with an empty map they cannot occur; every other error is a
    parser error.
  * `err_offset_in_range`: every error (of any kind) has `offset ≤ pattern.length` for the
    pattern it reports (the alias definition when raised inside a custom selector).
  * `unescape_total` and friends: `css_unescape` only emits code points of its input, U+FFFD, or
    a hex value `0 < cp ≤ 0x10FFFF` — the repaired `chr()` ValueError; the unrepaired behaviour is
    exhibited (`old_behaviour_emits_110000`).
  * `custom_cycle_terminates`: self-referential and mutually recursive custom selectors give
    `undefinedCustom` (SelectorSyntaxError), by kernel evaluation of the whole model.

  NOT covered (model-level remarks, see the report):
  * `int(m.group(1)[1:], 16)` in `css_unescape` would raise ValueError if group 1 contained a
    comment (`RE_CSS_ESC` uses `WSC?`, which includes `/*…*/`, after the hex digits).  The model's
    `hexPrefixVal` reads the leading hex digits only, so this ValueError is not representable in
    the model.  It is unreachable from `compile`, because `css_unescape(…)` (non-string mode) is
    only applied to text matched by `IDENTIFIER`, which cannot contain an unescaped `/`; that
    argument goes through the regex engine on the token expressions and is not proved here (it
    is covered by the differential harness).
  * The inner fuels of `subWith`, `parseValues`, `Rx.search`, `Rx.iter` are not addressed here
    (they are ≥ the number of positions and cannot produce an error value).
-/
import SoupVerif.Lemmas.ParserProgress
namespace SoupVerif
namespace C06
open Rx SoupVerif.Parser ParserProgress

/-! ## The generated token expressions cannot match the empty string -/

/-- Every ordinary slot of `CSSParser.css_tokens` is non-nullable. -/
theorem tokens_nonnullable :
    ∀ t ∈ Gen.lexicon.tokens, t.2 = false → nullable t.1.rx = false := by decide +kernel

/-- Every sub-pattern of the `SpecialPseudoPattern` slot is non-nullable. -/
theorem special_nonnullable : ∀ e ∈ Gen.lexicon.special, nullable e.2.rx = false := by
  decide +kernel

theorem lexicon_ok : LexOK Gen.lexicon := ⟨tokens_nonnullable, special_nonnullable⟩

/-! ## Tokens -/

variable {P : PEnv}

/-- A token ends strictly after the position it was tried at. -/
theorem token_progress (hL : P.L = Gen.lexicon) {i : Nat} {t : Token}
    (h : matchToken P i P.L.tokens = some t) : i < t.stop :=
  (matchToken_spec P i (hL ▸ special_nonnullable) _ (hL ▸ tokens_nonnullable) t h).2.1

/-- A token ends inside the pattern. -/
theorem token_in_bounds (hL : P.L = Gen.lexicon) {i : Nat} {t : Token}
    (h : matchToken P i P.L.tokens = some t) : t.stop ≤ P.pattern.length :=
  (matchToken_spec P i (hL ▸ special_nonnullable) _ (hL ▸ tokens_nonnullable) t h).2.2

theorem token_start (hL : P.L = Gen.lexicon) {i : Nat} {t : Token}
    (h : matchToken P i P.L.tokens = some t) : t.start = i :=
  (matchToken_spec P i (hL ▸ special_nonnullable) _ (hL ▸ tokens_nonnullable) t h).1

/-- Any regex result lies inside the subject (for every expression, nullable or not). -/
theorem match_in_bounds {env : CharEnv} {r : Rx} {s : Str} {i j : Nat} {c : Caps}
    (h : matchAt env r s i = some (j, c)) (hi : i ≤ s.length) : i ≤ j ∧ j ≤ s.length :=
  ⟨(matchAt_le h).1, matchAt_le_length h hi⟩

/-- `selector_iter` yields a token that makes progress, or stops, or raises a positioned
    `SelectorSyntaxError` of one of the five "malformed …/invalid character" kinds. -/
theorem nextToken_cases (hL : P.L = Gen.lexicon) (i : Nat) :
    (∃ t, nextToken P i = .ok (some t) ∧ t.start = i ∧ i < t.stop ∧ t.stop ≤ P.pattern.length) ∨
    nextToken P i = .ok none ∨
    (∃ e, nextToken P i = .error e ∧ e.pattern = P.pattern ∧ e.offset ≤ P.pattern.length ∧
      NoBug e.kind) := by
  cases h : nextToken P i with
  | error e => exact Or.inr (Or.inr ⟨e, rfl, nextToken_error h⟩)
  | ok o =>
    cases o with
    | none => exact Or.inr (Or.inl rfl)
    | some t => exact Or.inl ⟨t, rfl, nextToken_some (hL ▸ lexicon_ok) h⟩

/-! ## Fuel -/

section fuel
variable (env : CharEnv) (B : Builtins)

/-- One more unit of fuel changes nothing above the bound. -/
theorem fuel_step {pattern : Str} {pos idx : Nat} (fl : Nat) {c : Custom} {f : Nat}
    (hp : pos ≤ pattern.length) (hi : idx ≤ pattern.length) (hf : needSel pattern pos c ≤ f) :
    parseSelectors env Gen.lexicon B pattern (f + 1) pos idx fl c =
      parseSelectors env Gen.lexicon B pattern f pos idx fl c :=
  (((inv_all env Gen.lexicon B lexicon_ok f).1 pattern pos idx fl c hp hi).2 hf).1

/-- `fuel_sufficient`: the result of `parseSelectors` does not depend on the fuel once
    `fuel ≥ needSel pattern pos c = 2·(|pattern| − pos) + 2 + W c`. -/
theorem fuel_sufficient {pattern : Str} {pos idx : Nat} (fl : Nat) {c : Custom}
    (hp : pos ≤ pattern.length) (hi : idx ≤ pattern.length) :
    ∀ f, needSel pattern pos c ≤ f →
      parseSelectors env Gen.lexicon B pattern f pos idx fl c =
        parseSelectors env Gen.lexicon B pattern (needSel pattern pos c) pos idx fl c := by
  intro f hf
  obtain ⟨d, rfl⟩ := Nat.exists_eq_add_of_le hf
  induction d with
  | zero => rfl
  | succ d ih =>
    rw [← Nat.add_assoc, fuel_step env B fl hp hi (Nat.le_add_right _ _)]
    exact ih (Nat.le_add_right _ _)

/-- Above the bound `parseSelectors` never reports exhausted fuel, and its errors are parser
    errors (never one of the two `process_custom` kinds). -/
theorem parseSelectors_no_pybug {pattern : Str} {pos idx : Nat} (fl : Nat) {c : Custom} {f : Nat}
    (hp : pos ≤ pattern.length) (hi : idx ≤ pattern.length) (hf : needSel pattern pos c ≤ f) {e : Err}
    (h : parseSelectors env Gen.lexicon B pattern f pos idx fl c = .error e) : NoBug e.kind :=
  (((inv_all env Gen.lexicon B lexicon_ok f).1 pattern pos idx fl c hp hi).2 hf).2 e h

/-- Every error of `parseSelectors` (any fuel) has its offset inside the pattern it names. -/
theorem parseSelectors_err_offset {pattern : Str} {pos idx : Nat} (fl : Nat) {c : Custom} {f : Nat}
    (hp : pos ≤ pattern.length) (hi : idx ≤ pattern.length) {e : Err}
    (h : parseSelectors env Gen.lexicon B pattern f pos idx fl c = .error e) :
    e.offset ≤ e.pattern.length := by
  have := ((inv_all env Gen.lexicon B lexicon_ok f).1 pattern pos idx fl c hp hi).1
  rw [h] at this; exact this

/-- The position returned by `parseSelectors` is between the start and the end of the pattern,
    and the custom map it returns has no more uncompiled source text than the one given. -/
theorem parseSelectors_ok_bounds {pattern : Str} {pos idx : Nat} (fl : Nat) {c : Custom} {f : Nat}
    (hp : pos ≤ pattern.length) (hi : idx ≤ pattern.length) {l : SelList} {p' : Nat} {c' : Custom}
    (h : parseSelectors env Gen.lexicon B pattern f pos idx fl c = .ok (l, p', c')) :
    pos ≤ p' ∧ p' ≤ pattern.length ∧ W c' ≤ W c := by
  have := ((inv_all env Gen.lexicon B lexicon_ok f).1 pattern pos idx fl c hp hi).1
  rw [h] at this; exact this

end fuel

/-! ## `compile` -/

/-- `Parser.compile` with the fuel as a parameter. -/
def compileF (env : CharEnv) (L : Lexicon) (B : Builtins) (fuel : Nat) (pattern : Str)
    (custom : List (Str × Str)) (parseFlags : Nat) : M SelList := do
  let c ← processCustom env L custom
  let pat := nulFix pattern
  let P : PEnv := ⟨env, L, B, pat⟩
  let (l, _, _) ← parseSelectors env L B pat fuel (startIndex P) 0 parseFlags c
  pure l

/-- The fuel `Parser.compile` allots. -/
def allotted (pattern : Str) (custom : List (Str × Str)) : Nat :=
  2 * (nulFix pattern).length + 4 * (custom.foldl (fun n e => n + e.2.length + 2) 0) + 8

theorem compile_eq (env : CharEnv) (L : Lexicon) (B : Builtins) (pattern : Str)
    (custom : List (Str × Str)) (flags : Nat) :
    compile env L B pattern custom flags = compileF env L B (allotted pattern custom) pattern custom flags :=
  rfl

/-- The allotted fuel is at least the bound of `fuel_sufficient`. -/
theorem allotted_ge_need (env : CharEnv) (L : Lexicon) (B : Builtins) (pattern : Str)
    (custom : List (Str × Str)) {c : Custom} (h : processCustom env L custom = .ok c) :
    needSel (nulFix pattern) (startIndex ⟨env, L, B, nulFix pattern⟩) c ≤ allotted pattern custom := by
  have h1 := processCustom_ok h
  have h2 := defWeight_le_allotted custom
  unfold needSel allotted
  omega

/-- `compileF` without the `do` notation. -/
theorem compileF_def (env : CharEnv) (L : Lexicon) (B : Builtins) (F : Nat) (pattern : Str)
    (custom : List (Str × Str)) (flags : Nat) :
    compileF env L B F pattern custom flags =
      match processCustom env L custom with
      | .error e => .error e
      | .ok c =>
        match parseSelectors env L B (nulFix pattern) F (startIndex ⟨env, L, B, nulFix pattern⟩) 0 flags c with
        | .error e => .error e
        | .ok r => .ok r.1 := by
  unfold compileF
  cases processCustom env L custom with
  | error e => rfl
  | ok c =>
    show (parseSelectors env L B (nulFix pattern) F (startIndex ⟨env, L, B, nulFix pattern⟩) 0 flags c >>=
      fun x => match x with | (l, _, _) => pure l) =
      (match parseSelectors env L B (nulFix pattern) F (startIndex ⟨env, L, B, nulFix pattern⟩) 0 flags c with
        | .error e => .error e
        | .ok r => .ok r.1)
    cases parseSelectors env L B (nulFix pattern) F (startIndex ⟨env, L, B, nulFix pattern⟩) 0 flags c with
    | error e => rfl
    | ok r => rfl

section compile
variable (env : CharEnv) (B : Builtins) (pattern : Str) (custom : List (Str × Str)) (flags : Nat)

/-- `fuel_sufficient` for `compile`: any fuel ≥ the allotted one gives the same result. -/
theorem compile_fuel_irrelevant (F : Nat) (hF : allotted pattern custom ≤ F) :
    compileF env Gen.lexicon B F pattern custom flags = compile env Gen.lexicon B pattern custom flags := by
  rw [compile_eq, compileF_def, compileF_def]
  cases hc : processCustom env Gen.lexicon custom with
  | error e => rfl
  | ok c =>
    have hn := allotted_ge_need env Gen.lexicon B pattern custom hc
    have hs := startIndex_le ⟨env, Gen.lexicon, B, nulFix pattern⟩
    simp only [] at hs
    have e1 := fuel_sufficient env B flags hs (Nat.zero_le _) F (Nat.le_trans hn hF)
    have e2 := fuel_sufficient env B flags hs (Nat.zero_le _) _ hn
    simp only []
    rw [e1, e2]

/-- Errors of `compile`: either one of the two `process_custom` errors (with empty pattern and
    offset 0), or an error of `parseSelectors` run with the allotted fuel. -/
theorem compile_error_cases {e : Err} (h : compile env Gen.lexicon B pattern custom flags = .error e) :
    (processCustom env Gen.lexicon custom = .error e) ∨
    (∃ c, processCustom env Gen.lexicon custom = .ok c ∧
      parseSelectors env Gen.lexicon B (nulFix pattern) (allotted pattern custom)
        (startIndex ⟨env, Gen.lexicon, B, nulFix pattern⟩) 0 flags c = .error e) := by
  rw [compile_eq, compileF_def] at h
  cases hc : processCustom env Gen.lexicon custom with
  | error e' =>
    rw [hc] at h
    have h' : (Except.error e' : M SelList) = .error e := h
    cases h'; exact Or.inl rfl
  | ok c =>
    rw [hc] at h
    right; refine ⟨c, rfl, ?_⟩
    simp only [] at h
    cases hp : parseSelectors env Gen.lexicon B (nulFix pattern) (allotted pattern custom)
        (startIndex ⟨env, Gen.lexicon, B, nulFix pattern⟩) 0 flags c with
    | error e' =>
      rw [hp] at h
      have h' : (Except.error e' : M SelList) = .error e := h
      cases h'; rfl
    | ok r => rw [hp] at h; cases h

/-- **C06, main statement.** `compile` never fails with anything but a documented error: the
    model's catch-all kind `pyBug` (here: exhausted fuel, "RecursionError") does not occur. -/
theorem compile_no_pybug_gen {e : Err} (h : compile env Gen.lexicon B pattern custom flags = .error e) :
    ∀ w, e.kind ≠ .pyBug w := by
  rcases compile_error_cases env B pattern custom flags h with hc | ⟨c, hc, hp⟩
  · intro w hw
    rcases (processCustom_error hc).1 with h1 | h1 <;> rw [h1] at hw <;> cases hw
  · have hs := startIndex_le ⟨env, Gen.lexicon, B, nulFix pattern⟩
    exact (parseSelectors_no_pybug env B flags hs (Nat.zero_le _)
      (allotted_ge_need env Gen.lexicon B pattern custom hc) hp).1

end compile

/-- `compile_no_pybug` as stated in the task (ASCII environment, generated built-ins). -/
theorem compile_no_pybug : ∀ (pattern : Str) (custom : List (Str × Str)) (flags : Nat) (e : Err),
    Parser.compile asciiEnv Gen.lexicon Gen.builtinsRec pattern custom flags = .error e →
    ∀ w, e.kind ≠ .pyBug w :=
  fun pattern custom flags _ h => compile_no_pybug_gen asciiEnv Gen.builtinsRec pattern custom flags h

/-- The same for the environment the driver runs the parser model in: ASCII folding plus the four
    non-ASCII code points Python's `re.IGNORECASE` identifies with `i`, `s`, `k` (e.g. `ſ` is accepted
    in the position of the attribute case flag). -/
theorem compile_no_pybug_py : ∀ (pattern : Str) (custom : List (Str × Str)) (flags : Nat) (e : Err),
    Parser.compile pyFoldEnv Gen.lexicon Gen.builtinsRec pattern custom flags = .error e →
    ∀ w, e.kind ≠ .pyBug w :=
  fun pattern custom flags _ h => compile_no_pybug_gen pyFoldEnv Gen.builtinsRec pattern custom flags h

/-- `compile` returns a selector list or raises one of the documented errors. -/
theorem compile_total (env : CharEnv) (B : Builtins) (pattern : Str) (custom : List (Str × Str))
    (flags : Nat) :
    (∃ l, compile env Gen.lexicon B pattern custom flags = .ok l) ∨
    (∃ e, compile env Gen.lexicon B pattern custom flags = .error e ∧ ∀ w, e.kind ≠ .pyBug w) := by
  cases h : compile env Gen.lexicon B pattern custom flags with
  | ok l => exact Or.inl ⟨l, rfl⟩
  | error e => exact Or.inr ⟨e, rfl, compile_no_pybug_gen env B pattern custom flags h⟩

/-- The KeyError (`customCollision`) and the bad-name SelectorSyntaxError come from
    `process_custom` only; everything raised afterwards is a parser error. -/
theorem compile_custom_errors_only_from_map (env : CharEnv) (B : Builtins) (pattern : Str)
    (custom : List (Str × Str)) (flags : Nat) {e : Err}
    (h : compile env Gen.lexicon B pattern custom flags = .error e) :
    (processCustom env Gen.lexicon custom = .error e ∧
      (e.kind = .badCustomName ∨ e.kind = .customCollision)) ∨
    (e.kind ≠ .badCustomName ∧ e.kind ≠ .customCollision) := by
  rcases compile_error_cases env B pattern custom flags h with hc | ⟨c, hc, hp⟩
  · exact Or.inl ⟨hc, (processCustom_error hc).1⟩
  · have hs := startIndex_le ⟨env, Gen.lexicon, B, nulFix pattern⟩
    exact Or.inr (parseSelectors_no_pybug env B flags hs (Nat.zero_le _)
      (allotted_ge_need env Gen.lexicon B pattern custom hc) hp).2

/-- Without custom selectors neither `process_custom` error can occur. -/
theorem compile_nocustom_kinds (env : CharEnv) (B : Builtins) (pattern : Str) (flags : Nat) {e : Err}
    (h : compile env Gen.lexicon B pattern [] flags = .error e) :
    e.kind ≠ .badCustomName ∧ e.kind ≠ .customCollision := by
  rcases compile_custom_errors_only_from_map env B pattern [] flags h with ⟨hc, _⟩ | h2
  · cases hc
  · exact h2

/-- **Offsets.** Every error of `compile` carries an offset inside the pattern it reports (for
    the two `process_custom` errors the model reports the empty pattern and offset 0, so the
    exclusion in the task statement is not even needed). -/
theorem err_offset_in_range (env : CharEnv) (B : Builtins) (pattern : Str)
    (custom : List (Str × Str)) (flags : Nat) {e : Err}
    (h : compile env Gen.lexicon B pattern custom flags = .error e) : e.offset ≤ e.pattern.length := by
  rcases compile_error_cases env B pattern custom flags h with hc | ⟨c, _, hp⟩
  · obtain ⟨_, h2, h3⟩ := processCustom_error hc
    rw [h2, h3]; exact Nat.le_refl _
  · have hs := startIndex_le ⟨env, Gen.lexicon, B, nulFix pattern⟩
    exact parseSelectors_err_offset env B flags hs (Nat.zero_le _) hp

/-! ## `css_unescape` cannot leave the code-point range -/

/-- `if codepoint == 0 or codepoint > 0x10FFFF: codepoint = UNICODE_REPLACEMENT_CHAR`. -/
def clampCp (cp : Nat) : Nat := if cp == 0 || cp > 0x10FFFF then 0xFFFD else cp

/-- The `replace(m)` closure of `css_unescape`, as it appears in `Parser.cssUnescape`. -/
def unescRepl (content : Str) (caps : Caps) : Str :=
  match Rx.capSpan caps 1 with
  | some (a, b) =>
    if b > a then [clampCp (hexPrefixVal (slice content (a + 1) b))] else []
  | none =>
    match Rx.capSpan caps 2 with
    | some (a, b) => slice content (a + 1) b
    | none =>
      match Rx.capSpan caps 3 with
      | some _ => [0xFFFD]
      | none => []

/-- The closure without the repair (`value = chr(int(m.group(1)[1:], 16))`). -/
def unescReplOld (content : Str) (caps : Caps) : Str :=
  match Rx.capSpan caps 1 with
  | some (a, b) =>
    if b > a then [hexPrefixVal (slice content (a + 1) b)] else []
  | none =>
    match Rx.capSpan caps 2 with
    | some (a, b) => slice content (a + 1) b
    | none =>
      match Rx.capSpan caps 3 with
      | some _ => [0xFFFD]
      | none => []

/-- `Parser.cssUnescape` is `RE.sub(replace, content)` with exactly this closure. -/
theorem cssUnescape_eq (env : CharEnv) (L : Lexicon) (content : Str) (string : Bool) :
    Parser.cssUnescape env L content string =
      subWith env (if string then L.reCssStrEsc else L.reCssEsc) (unescRepl content) content := rfl

theorem clampCp_valid (cp : Nat) : 0 < clampCp cp ∧ clampCp cp ≤ 0x10FFFF := by
  unfold clampCp
  split
  · decide
  · rename_i h
    simp only [Bool.or_eq_true, beq_iff_eq, decide_eq_true_eq, not_or] at h
    omega

/-- The repaired site: a parsed value of 0 or above U+10FFFF is replaced by U+FFFD. -/
theorem clampCp_replaces (cp : Nat) (h : cp = 0 ∨ cp > 0x10FFFF) : clampCp cp = 0xFFFD := by
  unfold clampCp
  rcases h with h | h
  · simp [h]
  · have : decide (cp > 0x10FFFF) = true := by simpa using h
    simp [this]

theorem clampCp_id (cp : Nat) (h0 : 0 < cp) (h1 : cp ≤ 0x10FFFF) : clampCp cp = cp := by
  unfold clampCp
  have : (cp == 0 || decide (cp > 0x10FFFF)) = false := by
    simp only [Bool.or_eq_false_iff, beq_eq_false_iff_ne, decide_eq_false_iff_not]; omega
  rw [this]; rfl

/-- Group 1 (a hex escape): the value emitted is the clamped code point — for ALL captures and
    ALL contents. -/
theorem unescRepl_group1 (content : Str) (caps : Caps) (a b : Nat)
    (h : Rx.capSpan caps 1 = some (a, b)) (hab : b > a) :
    unescRepl content caps = [clampCp (hexPrefixVal (slice content (a + 1) b))] := by
  unfold unescRepl; rw [h]; simp only [hab, if_true]

theorem unescRepl_group1_FFFD (content : Str) (caps : Caps) (a b : Nat)
    (h : Rx.capSpan caps 1 = some (a, b)) (hab : b > a)
    (hbad : hexPrefixVal (slice content (a + 1) b) = 0 ∨ hexPrefixVal (slice content (a + 1) b) > 0x10FFFF) :
    unescRepl content caps = [0xFFFD] := by
  rw [unescRepl_group1 content caps a b h hab, clampCp_replaces _ hbad]

theorem mem_slice {s : Str} {a b x : Nat} (h : x ∈ slice s a b) : x ∈ s :=
  List.mem_of_mem_drop (List.mem_of_mem_take h)

/-- Whatever the match object, the closure returns characters of `content`, or U+FFFD, or a hex
    value in `1..0x10FFFF`. -/
theorem unescRepl_valid (content : Str) (caps : Caps) :
    ∀ cp ∈ unescRepl content caps, cp ∈ content ∨ (0 < cp ∧ cp ≤ 0x10FFFF) := by
  intro cp h
  unfold unescRepl at h
  split at h
  · split at h
    · simp only [List.mem_singleton] at h; subst h; exact Or.inr (clampCp_valid _)
    · cases h
  · split at h
    · exact Or.inl (mem_slice h)
    · split at h
      · simp only [List.mem_singleton] at h; subst h; exact Or.inr (by decide)
      · cases h

/-- `pattern.sub(f, s)` only emits what `f` returns and characters of `s`. -/
theorem subWith_go_mem (env : CharEnv) (r : Rx) (f : Caps → Str) (s : Str) (Q : Nat → Prop)
    (hf : ∀ caps, ∀ x ∈ f caps, Q x) (hs : ∀ x ∈ s, Q x) :
    ∀ fuel i, ∀ x ∈ subWith.go env r f s fuel i, Q x := by
  intro fuel
  induction fuel with
  | zero => intro i x h; simp [subWith.go] at h
  | succ n ih =>
    intro i x h
    have hget : ∀ ch, s[i]? = some ch → Q ch := fun ch hc => hs ch (List.mem_of_getElem? hc)
    unfold subWith.go at h
    split at h
    · cases h
    · split at h
      · split at h
        · rcases List.mem_append.mp h with h | h
          · exact hf _ x h
          · exact ih _ x h
        · rcases List.mem_append.mp h with h | h
          · exact hf _ x h
          · split at h
            · rename_i ch hc
              rcases List.mem_cons.mp h with h | h
              · subst h; exact hget _ hc
              · exact ih _ x h
            · cases h
      · split at h
        · rename_i ch hc
          rcases List.mem_cons.mp h with h | h
          · subst h; exact hget _ hc
          · exact ih _ x h
        · cases h

/-- **`unescape_total`.** Every code point `css_unescape` returns is a code point of its input or
    lies in `1..0x10FFFF` (U+FFFD included): `chr()` cannot raise, for any regular expression in
    the two slots, any environment and any content. -/
theorem unescape_total (env : CharEnv) (L : Lexicon) (content : Str) (string : Bool) :
    ∀ cp ∈ Parser.cssUnescape env L content string, cp ∈ content ∨ (0 < cp ∧ cp ≤ 0x10FFFF) := by
  rw [cssUnescape_eq]
  exact subWith_go_mem env _ _ content _ (unescRepl_valid content) (fun x hx => Or.inl hx) _ _

/-- On a Python string (all code points ≤ U+10FFFF) the result is a Python string. -/
theorem unescape_in_range (env : CharEnv) (L : Lexicon) (content : Str) (string : Bool)
    (h : ∀ c ∈ content, c ≤ 0x10FFFF) : ∀ cp ∈ Parser.cssUnescape env L content string, cp ≤ 0x10FFFF := by
  intro cp hcp
  rcases unescape_total env L content string cp hcp with h1 | h1
  · exact h cp h1
  · exact h1.2

/-- No NUL is ever produced from NUL-free content (`compile` replaces NUL by U+FFFD first). -/
theorem unescape_no_nul (env : CharEnv) (L : Lexicon) (content : Str) (string : Bool)
    (h : ∀ c ∈ content, c ≠ 0) : ∀ cp ∈ Parser.cssUnescape env L content string, cp ≠ 0 := by
  intro cp hcp
  rcases unescape_total env L content string cp hcp with h1 | h1
  · exact h cp h1
  · omega

/-- `\110000` : the text of the task's counterexample. -/
def esc110000 : Str := [92, 49, 49, 48, 48, 48, 48]

/-- The repaired code on `\110000` (through the regex engine on the generated `RE_CSS_ESC`). -/
theorem repaired_emits_FFFD : Parser.cssUnescape asciiEnv Gen.lexicon esc110000 = [0xFFFD] := by
  decide +kernel

/-- The unrepaired closure would hand 0x110000 to `chr()` — the old ValueError is expressible in
    the model and the clamp is what removes it. -/
theorem old_behaviour_emits_110000 :
    subWith asciiEnv Gen.lexicon.reCssEsc (unescReplOld esc110000) esc110000 = [0x110000] := by
  decide +kernel

/-- Same for `\0` (NUL): old closure emits 0, repaired emits U+FFFD. -/
theorem old_behaviour_emits_nul :
    subWith asciiEnv Gen.lexicon.reCssEsc (unescReplOld [92, 48]) [92, 48] = [0] ∧
    Parser.cssUnescape asciiEnv Gen.lexicon [92, 48] = [0xFFFD] := by
  decide +kernel

/-! ## Cyclic custom selectors terminate with the documented error -/

def kindOf (r : M SelList) : Option ErrKind :=
  match r with
  | .error e => some e.kind
  | .ok _ => none

/-- `:--a` -/
def nameA : Str := [58, 45, 45, 97]
/-- `:--b` -/
def nameB : Str := [58, 45, 45, 98]

/-- `custom = {":--a": ":--a"}`: SelectorSyntaxError "Undefined custom selector". -/
theorem custom_cycle_terminates_self :
    kindOf (compile asciiEnv Gen.lexicon Gen.builtinsRec nameA [(nameA, nameA)]) = some .undefinedCustom := by
  decide +kernel

/-- `custom = {":--a": ":--b", ":--b": ":--a"}`. -/
theorem custom_cycle_terminates_mutual :
    kindOf (compile asciiEnv Gen.lexicon Gen.builtinsRec nameA [(nameA, nameB), (nameB, nameA)]) =
      some .undefinedCustom := by
  decide +kernel

/-- The error is reported against the definition being expanded, at the end of the alias. -/
theorem custom_cycle_error_site :
    (match compile asciiEnv Gen.lexicon Gen.builtinsRec nameA [(nameA, nameB), (nameB, nameA)] with
      | .error e => (e.pattern, e.offset)
      | .ok _ => ([], 0)) = (nameA, 4) := by
  decide +kernel

/-- Two names differing only in case: the documented KeyError. -/
theorem custom_case_collision :
    kindOf (compile asciiEnv Gen.lexicon Gen.builtinsRec nameA [(nameA, nameB), ([58, 45, 45, 65], nameB)]) =
      some .customCollision := by
  decide +kernel

/-- A malformed custom name: SelectorSyntaxError. -/
theorem custom_bad_name :
    kindOf (compile asciiEnv Gen.lexicon Gen.builtinsRec nameA [([97], nameB)]) = some .badCustomName := by
  decide +kernel

end C06
end SoupVerif
