/-
  C01GenRel: the relation walks of `CSSMatch` (`match_relations`, `match_past_relations`, `match_future_relations`,
  `match_future_child`) and `match_subselectors`, REGENERATED from the source (`Generated/PyRelations.lean`,
  gen/gen_py_relations.py), equal the hand-written model (`relationWalk`, `List.all`) FOR ALL ARGUMENTS.

  The generated part is a TABLE (rel_type string → `Branch`, in source order); the interpreter below runs the
  LOOPS of the source (flag `found`, `while not found and x …`, `for … if match: break`) over the candidate lists
  of the model; the theorems show loops = `List.any` over `takeWhile` / head test.
-/
import SoupVerif.Model.Match
import SoupVerif.Generated.PyRelations
namespace SoupVerif.C01GenRel
open SoupVerif SoupVerif.Gen.PyRelations

/-- the `no_iframe=` argument as written -/
def iframeArg (c : Ctx) : IframeArg → Bool
  | .iframeRestrict => c.iframeRestrict
  | .absent => false

/-- all candidates the getter yields when iterated from `el` -/
def axisList (c : Ctx) (l : Loc) (ni : Bool) : RelAxis → List Loc
  | .parentChain => c.ancestors l ni
  | .prevTag => l.prevSiblings.filter Loc.isTag
  | .nextTag => l.nextSiblings.filter Loc.isTag
  | .descendants => c.tagDescendants l ni
  | .children => c.tagChildren l ni

/-- the first call `x = getter(el)` -/
def axisFirst (c : Ctx) (l : Loc) (ni : Bool) : RelAxis → Option Loc
  | .parentChain => c.parent l ni
  | a => (axisList c l ni a).head?

/-- `while not found and x and not stop(x): found = on(x); x = step(x)` (the list = the successive `x`) -/
def whileLoop (stop on : Loc → Bool) : List Loc → Bool → Bool
  | [], found => found
  | x :: rest, found => if !found && !stop x then whileLoop stop on rest (on x) else found

/-- `for x in xs: match = on(x); if match: break` -/
def forBreakLoop (on : Loc → Bool) : List Loc → Bool → Bool
  | [], m => m
  | x :: rest, _ => if on x then true else forBreakLoop on rest false

def runBranch (c : Ctx) (l : Loc) (b : Branch) (on : Loc → Bool) : Bool :=
  let ni := iframeArg c b.noIframe
  match b.mode with
  | .walk => whileLoop (fun x => b.docStops && x.isDoc) on (axisList c l ni b.axis) false
  | .forBreak => forBreakLoop on (axisList c l ni b.axis) false
  | .once =>
    match axisFirst c l ni b.axis with
    | some x => if !(b.docStops && x.isDoc) && (!b.tagGuard || x.isTag) then on x else false
    | none => false

/-- `Rel` of the IR ↦ the `REL_*` string of the source (`none` = `rel_type is None`) -/
def relStr : Rel → Option Str
  | .none => none
  | .desc => some REL_PARENT
  | .child => some REL_CLOSE_PARENT
  | .sib => some REL_SIBLING
  | .adj => some REL_CLOSE_SIBLING
  | .hasDesc => some REL_HAS_PARENT
  | .hasChild => some REL_HAS_CLOSE_PARENT
  | .hasSib => some REL_HAS_SIBLING
  | .hasAdj => some REL_HAS_CLOSE_SIBLING

/-- first branch of an `if / elif` chain whose test `rel_type == KEY` holds -/
def lookupBranch (tbl : List (Str × Branch)) (s : Str) : Option Branch :=
  (tbl.find? (fun kb => kb.1 == s)).map (·.2)

/-- the branch `match_relations` reaches for a `rel_type` -/
def branchOf (rt : Rel) : Option Branch :=
  match relStr rt with
  | none => none
  | some s => if futurePrefix.isPrefixOf s then lookupBranch futureBranches s else lookupBranch pastBranches s

/-- `match_relations(el, relation)` with `on = self.match_selectors(·, relation)`, `rt = relation[0].rel_type` -/
def runRelation (c : Ctx) (l : Loc) (rt : Rel) (on : Loc → Bool) : Bool :=
  match branchOf rt with
  | some b => runBranch c l b on
  | none => false   -- `rel_type is None`, or no `elif` fired: `found` stays `False`

theorem whileLoop_eq (stop on : Loc → Bool) (xs : List Loc) (found : Bool) :
    whileLoop stop on xs found = (found || (xs.takeWhile (fun x => !stop x)).any on) := by
  induction xs generalizing found with
  | nil => simp [whileLoop]
  | cons x rest ih =>
    cases found <;> simp [whileLoop, List.takeWhile_cons]
    cases hs : stop x <;> simp [ih]

theorem forBreakLoop_eq (on : Loc → Bool) (xs : List Loc) : forBreakLoop on xs false = xs.any on := by
  induction xs with
  | nil => simp [forBreakLoop]
  | cons x rest ih => cases h : on x <;> simp [forBreakLoop, h, ih]

theorem takeWhile_true (xs : List Loc) : xs.takeWhile (fun _ => true) = xs := by
  induction xs with
  | nil => rfl
  | cons x rest ih => simp [ih]

theorem head_filter_isTag (xs : List Loc) (s : Loc) (h : (xs.filter Loc.isTag).head? = some s) : s.isTag = true := by
  have : s ∈ xs.filter Loc.isTag := List.mem_of_head? h
  exact (List.mem_filter.mp this).2

/-- MAIN: the regenerated table, run by the loop interpreter, is the hand model `relationWalk`. -/
theorem gen_relationWalk_eq (c : Ctx) (l : Loc) (rt : Rel) (on : Loc → Bool) :
    runRelation c l rt on = relationWalk c l rt on := by
  cases rt
  case none => rfl
  case desc =>
    have h : branchOf .desc = some ⟨.parentChain, .walk, true, false, .iframeRestrict⟩ := by decide
    simp [runRelation, h, runBranch, iframeArg, axisList, whileLoop_eq, relationWalk]
  case child =>
    have h : branchOf .child = some ⟨.parentChain, .once, true, false, .iframeRestrict⟩ := by decide
    simp only [runRelation, h, runBranch, iframeArg, axisFirst, relationWalk]
    cases c.parent l c.iframeRestrict <;> simp
  case sib =>
    have h : branchOf .sib = some ⟨.prevTag, .walk, false, false, .absent⟩ := by decide
    simp [runRelation, h, runBranch, axisList, whileLoop_eq, relationWalk, takeWhile_true]
  case adj =>
    have h : branchOf .adj = some ⟨.prevTag, .once, false, true, .absent⟩ := by decide
    simp only [runRelation, h, runBranch, axisFirst, axisList, relationWalk]
    cases hh : (l.prevSiblings.filter Loc.isTag).head? with
    | none => rfl
    | some s => simp [head_filter_isTag _ _ hh]
  case hasDesc =>
    have h : branchOf .hasDesc = some ⟨.descendants, .forBreak, false, false, .iframeRestrict⟩ := by decide
    simp [runRelation, h, runBranch, iframeArg, axisList, forBreakLoop_eq, relationWalk]
  case hasChild =>
    have h : branchOf .hasChild = some ⟨.children, .forBreak, false, false, .iframeRestrict⟩ := by decide
    simp [runRelation, h, runBranch, iframeArg, axisList, forBreakLoop_eq, relationWalk]
  case hasSib =>
    have h : branchOf .hasSib = some ⟨.nextTag, .walk, false, false, .absent⟩ := by decide
    simp [runRelation, h, runBranch, axisList, whileLoop_eq, relationWalk, takeWhile_true]
  case hasAdj =>
    have h : branchOf .hasAdj = some ⟨.nextTag, .once, false, true, .absent⟩ := by decide
    simp only [runRelation, h, runBranch, axisFirst, axisList, relationWalk]
    cases hh : (l.nextSiblings.filter Loc.isTag).head? with
    | none => rfl
    | some s => simp [head_filter_isTag _ _ hh]

/-- every `REL_*` string of the table is reached by exactly one `Rel` constructor, and the dispatch on
    `startswith(':')` never sends a string to the chain that lacks it -/
theorem gen_branchOf_total (rt : Rel) : rt ≠ .none → (branchOf rt).isSome = true := by
  cases rt <;> decide

theorem gen_branches_keys :
    branches.map (·.1) = [REL_PARENT, REL_CLOSE_PARENT, REL_SIBLING, REL_CLOSE_SIBLING,
      REL_HAS_PARENT, REL_HAS_CLOSE_PARENT, REL_HAS_SIBLING, REL_HAS_CLOSE_SIBLING] := by decide

/-- `match_subselectors`: the flag loop without `break` is `List.all`. -/
theorem gen_subsLoop_eq {α : Type} (p : α → Bool) (sels : List α) (flag : Bool) :
    subsLoop p sels flag = (flag && sels.all p) := by
  induction sels generalizing flag with
  | nil => simp [subsLoop]
  | cons s rest ih => cases h : p s <;> simp [subsLoop, h, ih]

theorem gen_matchSubselectors_eq {α : Type} (p : α → Bool) (sels : List α) :
    matchSubselectors p sels = sels.all p := by
  simp [matchSubselectors, gen_subsLoop_eq]

/-- tie to the hand model `matchSubs` (inside the `mutual` block of `Model/Match.lean`) -/
theorem gen_matchSubs_eq (c : Ctx) (l : Loc) (e : Elem) (subs : List SelList) :
    matchSubselectors (fun s => matchList c l e s) subs = matchSubs c l e subs := by
  rw [gen_matchSubselectors_eq]
  induction subs with
  | nil => simp [matchSubs]
  | cons s rest ih => simp [matchSubs, List.all_cons, ih]

/-- corollaries about the regenerated walk -/
theorem gen_descendant_stops_at_document (c : Ctx) (l : Loc) (on : Loc → Bool) :
    runRelation c l .desc on = ((c.ancestors l c.iframeRestrict).takeWhile (fun p => !p.isDoc)).any on := by
  rw [gen_relationWalk_eq]; rfl

theorem gen_has_descendant_any (c : Ctx) (l : Loc) (on : Loc → Bool) :
    runRelation c l .hasDesc on = (c.tagDescendants l c.iframeRestrict).any on := by
  rw [gen_relationWalk_eq]; rfl

theorem gen_null_relation (c : Ctx) (l : Loc) (on : Loc → Bool) : runRelation c l .none on = false := rfl

end SoupVerif.C01GenRel
