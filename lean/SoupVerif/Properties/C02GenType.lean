/-
  C02 — `CSSMatch.match_nth_tag_type(el, child)` (the "same type" test of `:nth-of-type()` & co), TRANSLATED from the
  source (`Generated/PyAttrs.lean`, gen/gen_py_attrs.py) and PROVED equal to the hand-written model `sameType`
  (Model/Match.lean) for all contexts and elements.  The source compares `child` with `el`, the model `el` with
  `child`: the proof is the symmetry of `==` on strings.

    * `gen_match_nth_tag_type_eq`   `Gen.PyAttrs.match_nth_tag_type c el child = sameType c el child`
    * `gen_match_nth_tag_type_refl` (C02Site.sameType_refl about the regenerated definition)
    * `gen_match_nth_tag_type_comm` the test is symmetric
-/
import SoupVerif.Generated.PyAttrs
import SoupVerif.Properties.C02Site

namespace SoupVerif
namespace C02GenType

theorem str_beq_comm (a b : Str) : (a == b) = (b == a) := by
  exact BEq.comm

/-- MAIN: the regenerated `match_nth_tag_type` is the model's `sameType`, for all arguments. -/
theorem gen_match_nth_tag_type_eq (c : Ctx) (el child : Elem) :
    Gen.PyAttrs.match_nth_tag_type c el child = sameType c el child := by
  unfold Gen.PyAttrs.match_nth_tag_type sameType
  rw [str_beq_comm (c.tagName child), str_beq_comm (c.tagNs child)]

theorem gen_match_nth_tag_type_refl (c : Ctx) (e : Elem) : Gen.PyAttrs.match_nth_tag_type c e e = true := by
  rw [gen_match_nth_tag_type_eq]; exact C02Site.sameType_refl c e

theorem gen_match_nth_tag_type_comm (c : Ctx) (a b : Elem) :
    Gen.PyAttrs.match_nth_tag_type c a b = Gen.PyAttrs.match_nth_tag_type c b a := by
  rw [gen_match_nth_tag_type_eq, gen_match_nth_tag_type_eq]
  unfold sameType
  rw [str_beq_comm (c.tagName a), str_beq_comm (c.tagNs a)]

end C02GenType
end SoupVerif
