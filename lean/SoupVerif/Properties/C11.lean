/-
  C11  Name and value case rules follow the document type.

  Model : `Ctx.tagName` (`get_tag`), `matchTagname`, `matchAttributeValues` (and its head
          `matchAttributeName`), `Ctx.attrByName`
          (`get_attribute_by_name`), `matchAttributes`, `matchList` (Model/Match.lean);
          `Rx.runs`/`Rx.isMatch` (Model/Regex.lean); `mkCtx` (Model/Api.lean).

  * names   : in a non-XML document every comparison of a selector-side name with a
              document-side name goes through `lower` on both sides (`html_tag_fold`,
              `html_tag_fold_elem`, `html_attr_name_fold`, `attrByName_html`); in an XML document
              (XHTML parsed as XML included) they are `=` (`xml_tag_exact`, `xml_attr_name_exact`,
              `xml_attr_bare_exact`, `attrByName_xml`).
  * values  : the matcher itself has no value case rule; it picks one of the two compiled
              patterns (`xml_type_pattern_choice`) and the IGNORECASE flag of the pattern's
              literals decides (`lit_ic_fold`, `lit_exact`, `lits_ic`, `lits_exact`,
              `value_eq_template`).
  * HTML-only selector lists never match in a document that is XML but not XHTML
              (`html_only_never_in_plain_xml`, `isHtml_def`, `plain_xml_iff`).
-/
import SoupVerif.Lemmas.Names
namespace SoupVerif
namespace C11
open Names

/-! ### `lower` and case-insensitive equality -/

theorem lower_idem (s : Str) : lower (lower s) = lower s := Names.lower_idem s

/-- `caseEq a b := lower a = lower b`. -/
abbrev caseEq (a b : Str) : Prop := Names.caseEq a b

theorem caseEq_equivalence : Equivalence caseEq := Names.caseEq_equivalence

theorem caseEq_lower (s : Str) : caseEq (lower s) s := Names.caseEq_lower s

/-! ### Tag names -/

/-- HTML: the selector's tag name matches regardless of ASCII case. -/
theorem html_tag_fold (c : Ctx) (e : Elem) (n n' : Str) (p : Option Str)
    (hx : c.isXml = false) (h : caseEq n n') :
    matchTagname c e ⟨n, p⟩ = matchTagname c e ⟨n', p⟩ := by
  have h' : lower n = lower n' := h
  simp [matchTagname, hx, h']

/-- HTML: so does the element's name. -/
theorem html_tag_fold_elem (c : Ctx) (e : Elem) (m m' : Str) (t : SelTag)
    (hx : c.isXml = false) (h : caseEq m m') :
    matchTagname c { e with name := m } t = matchTagname c { e with name := m' } t := by
  have h' : lower m = lower m' := h
  simp [matchTagname, Ctx.tagName, hx, h']

/-- HTML, as a characterisation: equal up to ASCII case, or the universal selector. -/
theorem html_tag_iff (c : Ctx) (e : Elem) (n : Str) (p : Option Str) (hx : c.isXml = false) :
    matchTagname c e ⟨n, p⟩ = true ↔ caseEq n e.name ∨ n = "*".toStr := by
  simp [matchTagname, Ctx.tagName, hx, Names.caseEq, lower_eq_star]

/-- XML / XHTML-as-XML: exact comparison. -/
theorem xml_tag_exact (c : Ctx) (e : Elem) (n : Str) (p : Option Str) (hx : c.isXml = true) :
    matchTagname c e ⟨n, p⟩ = true ↔ n = e.name ∨ n = "*".toStr := by
  simp [matchTagname, Ctx.tagName, hx]

/-- The whole type-selector test inherits the HTML folding. -/
theorem html_matchTag_fold (c : Ctx) (e : Elem) (n n' : Str) (p : Option Str)
    (hx : c.isXml = false) (h : caseEq n n') :
    matchTag c e (some ⟨n, p⟩) = matchTag c e (some ⟨n', p⟩) := by
  show (matchNamespace c e ⟨n, p⟩ && matchTagname c e ⟨n, p⟩) =
    (matchNamespace c e ⟨n', p⟩ && matchTagname c e ⟨n', p⟩)
  rw [html_tag_fold c e n n' p hx h]
  rfl

/-- XML is really case-sensitive: a witness. -/
theorem xml_tag_case_sensitive_witness :
    ∃ (c : Ctx) (e : Elem), c.isXml = true ∧
      matchTagname c e ⟨"A".toStr, none⟩ = false ∧ matchTagname c e ⟨"a".toStr, none⟩ = true :=
  ⟨{ env := asciiEnv, bidi := fun _ => 0, wildStrip := id, isXml := true, hasHtmlNs := false,
      isHtml := false, root := none, scope := none, namespaces := [], iframeRestrict := false },
   { isDoc := false, name := "a".toStr, pfx := none, ns := none, attrs := [] },
   rfl, by decide, by decide⟩

/-! ### Attribute names -/

/-- HTML: `match_attribute_name` sees the selector's attribute name only through `lower`
    (every yielded value). -/
theorem html_attr_values_lower (c : Ctx) (e : Elem) (a p : Str) (hx : c.isXml = false) :
    matchAttributeValues c e a p = matchAttributeValues c e (lower a) p := by
  simp [matchAttributeValues, hx, Names.lower_idem]

/-- The first yielded value (the former return value). -/
theorem html_attr_name_lower (c : Ctx) (e : Elem) (a p : Str) (hx : c.isXml = false) :
    matchAttributeName c e a p = matchAttributeName c e (lower a) p := by
  rw [matchAttributeName_eq_head?, matchAttributeName_eq_head?, html_attr_values_lower c e a p hx]

/-- HTML: attribute names in a selector match regardless of ASCII case — in all four branches
    (no namespace support; empty prefix; `*`; mapped prefix) at once. -/
theorem html_attr_values_fold (c : Ctx) (e : Elem) (a a' p : Str)
    (hx : c.isXml = false) (h : caseEq a a') :
    matchAttributeValues c e a p = matchAttributeValues c e a' p := by
  have h' : lower a = lower a' := h
  rw [html_attr_values_lower c e a p hx, html_attr_values_lower c e a' p hx, h']

theorem html_attr_name_fold (c : Ctx) (e : Elem) (a a' p : Str)
    (hx : c.isXml = false) (h : caseEq a a') :
    matchAttributeName c e a p = matchAttributeName c e a' p := by
  rw [matchAttributeName_eq_head?, matchAttributeName_eq_head?, html_attr_values_fold c e a a' p hx h]

/-- HTML: the document side is folded too — the key text and the local name of each attribute
    can change ASCII case without changing the result. -/
theorem html_attr_values_fold_doc (c : Ctx) (e : Elem) (as bs : List Attr) (a p : Str)
    (hx : c.isXml = false)
    (hrel : Pairwise₂ (fun x y => caseEq x.key y.key ∧ x.kns = y.kns ∧
      x.kname.map lower = y.kname.map lower ∧ x.val = y.val) as bs) :
    matchAttributeValues c { e with attrs := as } a p =
      matchAttributeValues c { e with attrs := bs } a p := by
  have key : ∀ (P Q : Attr → Bool), (∀ x y, (caseEq x.key y.key ∧ x.kns = y.kns ∧
      x.kname.map lower = y.kname.map lower ∧ x.val = y.val) → P x = Q y) →
      (as.filter P).map valOf = (bs.filter Q).map valOf := by
    intro P Q hPQ
    refine filter_map_pairwise₂ hPQ ?_ hrel
    rintro x y ⟨_, _, _, h4⟩; simp [valOf, h4]
  have hloc : ∀ x y : Attr, x.kname.map lower = y.kname.map lower →
      localNameEq c a x = localNameEq c a y := by
    intro x y h
    unfold localNameEq
    cases hx' : x.kname <;> cases hy' : y.kname <;> simp [hx', hy'] at h ⊢
    simp [nameEq, hx, h]
  cases hsn : c.supportsNamespaces with
  | false =>
    rw [mav_no_ns hsn, mav_no_ns hsn]
    refine key _ _ ?_
    rintro x y ⟨h1, _, _, _⟩
    have h1' : lower x.key = lower y.key := h1
    simp [h1']
  | true =>
    by_cases hp : p = []
    · subst hp
      rw [mav_bare hsn, mav_bare hsn]
      refine key _ _ ?_
      rintro x y ⟨h1, _, _, _⟩
      have h1' : lower x.key = lower y.key := h1
      simp [nameEq, hx, h1']
    · by_cases hs : p = "*".toStr
      · subst hs
        rw [mav_star hsn, mav_star hsn]
        refine key _ _ ?_
        rintro x y ⟨h1, h2, h3, _⟩
        have h1' : lower x.key = lower y.key := h1
        simp [nameEq, hx, h1', h2, hloc x y h3]
      · cases hm : c.nsGet p with
        | none => rw [mav_unmapped hsn _ a p hp hs hm, mav_unmapped hsn _ a p hp hs hm]
        | some u =>
          by_cases hu : u = []
          · -- a prefix mapped to `''` (fix 3a64a82): whole-key comparison, as for `[a]`
            subst hu
            rw [mav_ns_empty hsn _ a p hp hs hm, mav_ns_empty hsn _ a p hp hs hm]
            refine key _ _ ?_
            rintro x y ⟨h1, _, _, _⟩
            have h1' : lower x.key = lower y.key := h1
            simp [nameEq, hx, h1']
          · rw [mav_ns hsn _ a p u hp hs hm hu, mav_ns hsn _ a p u hp hs hm hu]
            refine key _ _ ?_
            rintro x y ⟨_, h2, h3, _⟩
            simp [h2, hloc x y h3]

theorem html_attr_name_fold_doc (c : Ctx) (e : Elem) (as bs : List Attr) (a p : Str)
    (hx : c.isXml = false)
    (hrel : Pairwise₂ (fun x y => caseEq x.key y.key ∧ x.kns = y.kns ∧
      x.kname.map lower = y.kname.map lower ∧ x.val = y.val) as bs) :
    matchAttributeName c { e with attrs := as } a p = matchAttributeName c { e with attrs := bs } a p := by
  rw [matchAttributeName_eq_head?, matchAttributeName_eq_head?,
    html_attr_values_fold_doc c e as bs a p hx hrel]

theorem str_beq_comm (a b : Str) : (a == b) = (b == a) := by
  by_cases h : a = b
  · subst h; rfl
  · have h' : b ≠ a := fun h' => h h'.symm
    rw [beq_eq_false_iff_ne.mpr h, beq_eq_false_iff_ne.mpr h']

/-- `matchAttributeName` from a `filter` characterisation of `matchAttributeValues`. -/
theorem name_of_values {c : Ctx} {e : Elem} {a p : Str} {P : Attr → Bool}
    (h : matchAttributeValues c e a p = (e.attrs.filter P).map (fun x => normalizeValue x.val)) :
    matchAttributeName c e a p = (e.attrs.find? P).map (fun x => normalizeValue x.val) := by
  rw [matchAttributeName_eq_head?, h, List.head?_map, List.head?_filter]

/-- XML, namespace branch (`[ns|a]`, `ns ↦ u`, `u ≠ ''`): URI and local name are compared with `=`.
    (`u ≠ []` since fix 3a64a82; the empty URI is `xml_attr_values_empty_exact`.) -/
theorem xml_attr_values_exact (c : Ctx) (e : Elem) (a p u : Str) (hx : c.isXml = true)
    (hp : p ≠ []) (hs : p ≠ "*".toStr) (hm : c.nsGet p = some u) (hu : u ≠ []) :
    matchAttributeValues c e a p =
      (e.attrs.filter (fun x => x.kns == some u && x.kname == some a)).map
        (fun x => normalizeValue x.val) := by
  rw [mav_ns (supportsNamespaces_of_xml hx) e a p u hp hs hm hu]
  congr 1
  apply List.filter_congr
  intro x _
  unfold localNameEq
  cases x.kname with
  | none => simp
  | some nm => simp [nameEq_xml hx, str_beq_comm a nm]

theorem xml_attr_name_exact (c : Ctx) (e : Elem) (a p u : Str) (hx : c.isXml = true)
    (hp : p ≠ []) (hs : p ≠ "*".toStr) (hm : c.nsGet p = some u) (hu : u ≠ []) :
    matchAttributeName c e a p =
      (e.attrs.find? (fun x => x.kns == some u && x.kname == some a)).map
        (fun x => normalizeValue x.val) :=
  name_of_values (xml_attr_values_exact c e a p u hx hp hs hm hu)

/-- NEW (fix 3a64a82).  XML, `[ns|a]` with `ns ↦ ''`: the whole key is compared with `=`, as for `[a]`. -/
theorem xml_attr_values_empty_exact (c : Ctx) (e : Elem) (a p : Str) (hx : c.isXml = true)
    (hp : p ≠ []) (hs : p ≠ "*".toStr) (hm : c.nsGet p = some []) :
    matchAttributeValues c e a p =
      (e.attrs.filter (fun x => x.key == a)).map (fun x => normalizeValue x.val) := by
  rw [mav_ns_empty (supportsNamespaces_of_xml hx) e a p hp hs hm]
  congr 1
  apply List.filter_congr
  intro x _
  rw [nameEq_xml hx]
  exact str_beq_comm a x.key

theorem xml_attr_name_empty_exact (c : Ctx) (e : Elem) (a p : Str) (hx : c.isXml = true)
    (hp : p ≠ []) (hs : p ≠ "*".toStr) (hm : c.nsGet p = some []) :
    matchAttributeName c e a p =
      (e.attrs.find? (fun x => x.key == a)).map (fun x => normalizeValue x.val) :=
  name_of_values (xml_attr_values_empty_exact c e a p hx hp hs hm)

/-- XML, `[a]`: the whole key is compared with `=`. -/
theorem xml_attr_values_bare_exact (c : Ctx) (e : Elem) (a : Str) (hx : c.isXml = true) :
    matchAttributeValues c e a [] =
      (e.attrs.filter (fun x => x.key == a)).map (fun x => normalizeValue x.val) := by
  rw [mav_bare (supportsNamespaces_of_xml hx) e a]
  congr 1
  apply List.filter_congr
  intro x _
  rw [nameEq_xml hx]
  exact str_beq_comm a x.key

theorem xml_attr_bare_exact (c : Ctx) (e : Elem) (a : Str) (hx : c.isXml = true) :
    matchAttributeName c e a [] =
      (e.attrs.find? (fun x => x.key == a)).map (fun x => normalizeValue x.val) :=
  name_of_values (xml_attr_values_bare_exact c e a hx)

/-- XML, `[*|a]`: `=` on the key (no namespace) or on the local name (any namespace). -/
theorem xml_attr_values_any_exact (c : Ctx) (e : Elem) (a : Str) (hx : c.isXml = true) :
    matchAttributeValues c e a "*".toStr =
      (e.attrs.filter (fun x => (x.kns.isNone && x.key == a) ||
        (x.kns.isSome && x.kname == some a))).map (fun x => normalizeValue x.val) := by
  rw [mav_star (supportsNamespaces_of_xml hx) e a]
  congr 1
  apply List.filter_congr
  intro x _
  unfold localNameEq
  rw [nameEq_xml hx]
  rw [str_beq_comm a x.key]
  cases x.kname with
  | none => simp
  | some nm => simp [nameEq_xml hx, str_beq_comm a nm]

theorem xml_attr_any_exact (c : Ctx) (e : Elem) (a : Str) (hx : c.isXml = true) :
    matchAttributeName c e a "*".toStr =
      (e.attrs.find? (fun x => (x.kns.isNone && x.key == a) ||
        (x.kns.isSome && x.kname == some a))).map (fun x => normalizeValue x.val) :=
  name_of_values (xml_attr_values_any_exact c e a hx)

/-! ### `get_attribute_by_name` (used for `id`, `class`, `type`, `dir`, `name`, ...) -/

theorem attrByName_html (c : Ctx) (e : Elem) (name : Str) (hx : c.isXml = false) :
    c.attrByName e name =
      (e.attrs.find? (fun x => lower x.key == name)).map (fun x => normalizeValue x.val) := by
  simp [Ctx.attrByName, hx]

theorem attrByName_xml (c : Ctx) (e : Elem) (name : Str) (hx : c.isXml = true) :
    c.attrByName e name =
      (e.attrs.find? (fun x => x.key == name)).map (fun x => normalizeValue x.val) := by
  simp [Ctx.attrByName, hx]

/-- HTML: `#id` / `.class` find their attribute whatever the case of its name in the document;
    note the looked-up `name` itself is NOT folded (callers pass lower-case constants). -/
theorem attrByName_html_fold_doc (c : Ctx) (e : Elem) (as bs : List Attr) (name : Str)
    (hx : c.isXml = false)
    (hrel : Pairwise₂ (fun x y => caseEq x.key y.key ∧ x.val = y.val) as bs) :
    c.attrByName { e with attrs := as } name = c.attrByName { e with attrs := bs } name := by
  rw [attrByName_html _ _ _ hx, attrByName_html _ _ _ hx]
  refine find?_map_pairwise₂ ?_ ?_ hrel
  · rintro x y ⟨h1, _⟩
    have h1' : lower x.key = lower y.key := h1
    simp [h1']
  · rintro x y ⟨_, h2⟩; simp [h2]

/-- `#id` compares the value exactly in every document type. -/
theorem matchId_value_exact (c : Ctx) (e : Elem) (i : Str) :
    matchId c e [i] = ((c.attrByName e "id".toStr).getD (.str []) == .str i) := by
  simp [matchId]

/-! ### Attribute values: which pattern is used -/

/-- `match_attributes` on one attribute selector: SOME value yielded by `match_attribute_name`
    matches the pattern; `xml_type_pattern` is used exactly when the document is XML and the
    selector has one (it has one only for `[type...]` without a flag). -/
theorem xml_type_pattern_choice (c : Ctx) (e : Elem) (a : AttrSel) :
    matchAttributes c e [a] =
      (matchAttributeValues c e a.attrName a.pfx).any fun v =>
        match (if c.isXml && a.xmlTypePattern.isSome then a.xmlTypePattern else a.pattern) with
        | none => true
        | some r => Rx.isMatch c.env r (nvalJoin v) := by
  simp only [matchAttributes, List.all_cons, List.all_nil, Bool.and_true]
  rfl

theorem matchAttributes_nil (c : Ctx) (e : Elem) : matchAttributes c e [] = true := rfl

theorem matchAttributes_append (c : Ctx) (e : Elem) (A B : List AttrSel) :
    matchAttributes c e (A ++ B) = (matchAttributes c e A && matchAttributes c e B) := by
  simp [matchAttributes, List.all_append]

/-- HTML documents never use the XML type pattern. -/
theorem html_uses_pattern (c : Ctx) (e : Elem) (a : AttrSel) (hx : c.isXml = false) :
    matchAttributes c e [a] = matchAttributes c e [{ a with xmlTypePattern := none }] := by
  simp [xml_type_pattern_choice, hx]

/-- XML documents use it when present. -/
theorem xml_uses_type_pattern (c : Ctx) (e : Elem) (a : AttrSel) (r : Rx) (hx : c.isXml = true)
    (hr : a.xmlTypePattern = some r) :
    matchAttributes c e [a] = matchAttributes c e [{ a with pattern := some r, xmlTypePattern := none }] := by
  simp [xml_type_pattern_choice, hx, hr]

/-! ### Regex-level case rule for literal characters -/

open Rx

/-- A literal with IGNORECASE, ASCII folding: matches up to ASCII case. -/
theorem lit_ic_fold (s : Str) (ch i : Nat) (caps : Caps) :
    runs asciiEnv s (.lit ch true) i caps ≠ [] ↔ ∃ x, s[i]? = some x ∧ lowerCp x = lowerCp ch := by
  rw [runs]
  cases s[i]? with
  | none => simp
  | some x => by_cases h : lowerCp x = lowerCp ch <;> simp [asciiEnv, h]

/-- A literal without IGNORECASE matches exactly itself, in every character environment. -/
theorem lit_exact (env : CharEnv) (s : Str) (ch i : Nat) (caps : Caps) :
    runs env s (.lit ch false) i caps ≠ [] ↔ s[i]? = some ch := by
  rw [runs]
  cases s[i]? with
  | none => simp
  | some x => by_cases h : x = ch <;> simp [h]

/-- One-character comparison of the engine. -/
def chEq (env : CharEnv) (ic : Bool) (x c : Nat) : Bool :=
  if ic then env.fold x == env.fold c else x == c

/-- A subject equals a literal string up to the engine's character comparison. -/
def litsEq (env : CharEnv) (ic : Bool) : List Nat → Str → Bool
  | [], [] => true
  | c :: v, x :: t => chEq env ic x c && litsEq env ic v t
  | _, _ => false

theorem runs_lit (env : CharEnv) (s : Str) (ch : Nat) (ic : Bool) (i : Nat) (caps : Caps) :
    runs env s (.lit ch ic) i caps =
      match s[i]? with
      | some x => if chEq env ic x ch then [(i + 1, caps)] else []
      | none => [] := by
  rw [runs]; rfl

theorem runsSeq_lits (env : CharEnv) (ic : Bool) (s : Str) (caps : Caps) :
    ∀ (v : List Nat) (i : Nat), i ≤ s.length →
      runsSeq env s (v.map (Rx.lit · ic) ++ [.eos]) i caps =
        if litsEq env ic v (s.drop i) then [(s.length, caps)] else []
  | [], i, hi => by
    simp only [List.map_nil, List.nil_append, runsSeq, runs]
    by_cases h : i = s.length
    · subst h; simp [litsEq]
    · have hlt : i < s.length := by omega
      have : s.drop i ≠ [] := by simp; omega
      cases hd : s.drop i with
      | nil => exact absurd hd this
      | cons x t => simp [litsEq, h]
  | ch :: v, i, hi => by
    simp only [List.map_cons, List.cons_append, runsSeq, runs_lit]
    by_cases hlt : i < s.length
    · have hget : s[i]? = some s[i] := List.getElem?_eq_getElem hlt
      have hdrop : s.drop i = s[i] :: s.drop (i + 1) := List.drop_eq_getElem_cons hlt
      rw [hget, hdrop]
      simp only [litsEq]
      by_cases hc : chEq env ic s[i] ch = true
      · simp only [hc, if_true, List.flatMap_cons, List.flatMap_nil, List.append_nil, Bool.true_and]
        exact runsSeq_lits env ic s caps v (i + 1) hlt
      · have hc' : chEq env ic s[i] ch = false := by simpa using hc
        simp [hc']
    · have hnone : s[i]? = none := List.getElem?_eq_none (by omega)
      have hdrop : s.drop i = [] := List.drop_eq_nil_of_le (by omega)
      rw [hnone, hdrop]
      simp [litsEq]

theorem litsEq_exact (env : CharEnv) : ∀ (v : List Nat) (s : Str), litsEq env false v s = (s == v)
  | [], [] => rfl
  | [], _ :: _ => rfl
  | _ :: _, [] => rfl
  | c :: v, x :: t => by
    simp only [litsEq, chEq, litsEq_exact env v t]
    exact Bool.eq_iff_iff.mpr (by simp)

theorem litsEq_ic : ∀ (v : List Nat) (s : Str), litsEq asciiEnv true v s = (lower s == lower v)
  | [], [] => rfl
  | [], _ :: _ => rfl
  | _ :: _, [] => rfl
  | c :: v, x :: t => by
    simp only [litsEq, chEq, litsEq_ic v t, lower_cons]
    exact Bool.eq_iff_iff.mpr (by simp [asciiEnv])

/-- `isMatch` of a sequence in terms of `runsSeq`. -/
theorem isMatch_seq (env : CharEnv) (rs : List Rx) (s : Str) :
    Rx.isMatch env (.seq rs) s = !(runsSeq env s rs 0 []).isEmpty := by
  simp only [Rx.isMatch, Rx.matchAt, runs]
  cases runsSeq env s rs 0 [] <;> rfl

/-- The literal template, any environment: the subject equals the literal string under the
    engine's character comparison. -/
theorem lits_match (env : CharEnv) (ic : Bool) (v : List Nat) (s : Str) :
    Rx.isMatch env (.seq (v.map (Rx.lit · ic) ++ [.eos])) s = litsEq env ic v s := by
  rw [isMatch_seq, runsSeq_lits env ic s [] v 0 (Nat.zero_le _)]
  simp only [List.drop_zero]
  cases litsEq env ic v s <;> rfl

/-- Literals without IGNORECASE: exact equality (every environment). -/
theorem lits_exact (env : CharEnv) (v : List Nat) (s : Str) :
    Rx.isMatch env (.seq (v.map (Rx.lit · false) ++ [.eos])) s = (s == v) := by
  rw [lits_match, litsEq_exact]

/-- Literals with IGNORECASE and ASCII folding: equality up to ASCII case. -/
theorem lits_ic (v : List Nat) (s : Str) :
    Rx.isMatch asciiEnv (.seq (v.map (Rx.lit · true) ++ [.eos])) s = (lower s == lower v) := by
  rw [lits_match, litsEq_ic]

/-- Both at once, as stated in the task. -/
theorem lits_case_rule (ic : Bool) (v : List Nat) (s : Str) :
    Rx.isMatch asciiEnv (.seq (v.map (Rx.lit · ic) ++ [.eos])) s =
      (if ic then lower s == lower v else s == v) := by
  cases ic
  · simpa using lits_exact asciiEnv v s
  · simpa using lits_ic v s

/-- `^` at position 0 is a no-op. -/
theorem bos_noop (env : CharEnv) (rs : List Rx) (s : Str) :
    Rx.isMatch env (.seq (.bos :: rs)) s = Rx.isMatch env (.seq rs) s := by
  rw [isMatch_seq, isMatch_seq]
  simp [runsSeq, runs]

/-- The `[a=v]` template `^v\Z` of `parse_attribute_selector`. -/
theorem value_eq_template (ic : Bool) (v : List Nat) (s : Str) :
    Rx.isMatch asciiEnv (.seq (.bos :: (v.map (Rx.lit · ic) ++ [.eos]))) s =
      (if ic then lower s == lower v else s == v) := by
  rw [bos_noop, lits_case_rule]

/-- Consequence: with `i` the match is invariant under ASCII case change of the subject, ... -/
theorem value_ic_invariant (v : List Nat) (s s' : Str) (h : caseEq s s') :
    Rx.isMatch asciiEnv (.seq (.bos :: (v.map (Rx.lit · true) ++ [.eos]))) s =
    Rx.isMatch asciiEnv (.seq (.bos :: (v.map (Rx.lit · true) ++ [.eos]))) s' := by
  have h' : lower s = lower s' := h
  simp [value_eq_template, h']

/-- ... and without it only the value itself matches. -/
theorem value_exact_only (v : List Nat) (s : Str) :
    Rx.isMatch asciiEnv (.seq (.bos :: (v.map (Rx.lit · false) ++ [.eos]))) s = true ↔ s = v := by
  simp [value_eq_template]

/-! ### HTML-only selector lists -/

/-- A selector list flagged HTML-only never matches in a document that is not HTML (XML but not
    XHTML) — for either polarity (`:not(...)`-style lists included). -/
theorem html_only_never_in_plain_xml (c : Ctx) (l : Loc) (e : Elem) (A : List Sel) (n : Bool)
    (h : c.isHtml = false) : matchList c l e (.mk A n true) = false := by
  rw [matchList]
  simp [h]

/-- For a list that is not HTML-only the document type plays no role at this level.
    (`!A.isEmpty`: Python's `match = False` is only overwritten inside the loop, so an empty list
    returns `False` even when negated.) -/
theorem not_html_only (c : Ctx) (l : Loc) (e : Elem) (A : List Sel) (n : Bool) :
    matchList c l e (.mk A n false) = (!A.isEmpty && (matchAny c l e A != n)) := by
  rw [matchList]
  simp

/-- In an HTML document the HTML-only list is evaluated, with the prefix map `{html: XHTML}` and
    iframe restriction. -/
theorem html_only_in_html (c : Ctx) (l : Loc) (e : Elem) (A : List Sel) (n : Bool)
    (h : c.isHtml = true) :
    matchList c l e (.mk A n true) =
      (!A.isEmpty &&
        (matchAny { c with namespaces := [("html".toStr, NS_XHTML)], iframeRestrict := true } l e A != n)) := by
  rw [matchList]
  simp [h]

/-- `is_html = not is_xml or has_html_namespace`, decided once from the root. -/
theorem isHtml_def (E : Env) (x : Bool) (ns : List (Str × Str)) (tag : Loc) :
    (mkCtx E x ns tag).isHtml = (!x || hasHtmlNs (mkCtx E x ns tag).root) := rfl

theorem isXml_def (E : Env) (x : Bool) (ns : List (Str × Str)) (tag : Loc) :
    (mkCtx E x ns tag).isXml = x := rfl

theorem hasHtmlNs_def (E : Env) (x : Bool) (ns : List (Str × Str)) (tag : Loc) :
    (mkCtx E x ns tag).hasHtmlNs = hasHtmlNs (mkCtx E x ns tag).root := rfl

/-- "XML but not XHTML". -/
theorem plain_xml_iff (E : Env) (x : Bool) (ns : List (Str × Str)) (tag : Loc) :
    (mkCtx E x ns tag).isHtml = false ↔ x = true ∧ hasHtmlNs (mkCtx E x ns tag).root = false := by
  rw [isHtml_def]; cases x <;> simp

/-- The root has the XHTML namespace: non-empty and equal to the XHTML URI. -/
theorem hasHtmlNs_iff (r : Option Loc) :
    hasHtmlNs r = true ↔ ∃ l e, r = some l ∧ l.elem? = some e ∧ e.ns = some NS_XHTML := by
  constructor
  · intro h
    unfold hasHtmlNs at h
    cases r with
    | none => simp at h
    | some l =>
      cases hl : l.elem? with
      | none => simp [hl] at h
      | some e =>
        cases hn : e.ns with
        | none => simp [hl, hn] at h
        | some n =>
          simp [hl, hn] at h
          exact ⟨l, e, rfl, hl, by rw [hn, h.2]⟩
  · rintro ⟨l, e, rfl, hl, hn⟩
    simp only [hasHtmlNs, hl, hn]
    decide

/-! ### Non-vacuity (concrete contexts) -/

def chtml : Ctx :=
  { env := asciiEnv, bidi := fun _ => 0, wildStrip := id, isXml := false, hasHtmlNs := false,
    isHtml := true, root := none, scope := none, namespaces := [], iframeRestrict := false }
def cxml : Ctx := { chtml with isXml := true, isHtml := false }

def div (attrs : List Attr) : Elem :=
  { isDoc := false, name := "DiV".toStr, pfx := none, ns := none, attrs := attrs }
def attrId : Attr := { key := "ID".toStr, kns := none, kname := none, val := .str "Ab".toStr }

example : matchTagname chtml (div []) ⟨"dIv".toStr, none⟩ = true := by decide
example : matchTagname cxml (div []) ⟨"dIv".toStr, none⟩ = false := by decide
example : matchTagname cxml (div []) ⟨"DiV".toStr, none⟩ = true := by decide
example : matchAttributeName chtml (div [attrId]) "iD".toStr [] = some (.str "Ab".toStr) := by decide
example : matchAttributeName cxml (div [attrId]) "iD".toStr [] = none := by decide
example : matchAttributeName cxml (div [attrId]) "ID".toStr [] = some (.str "Ab".toStr) := by decide
example : chtml.attrByName (div [attrId]) "id".toStr = some (.str "Ab".toStr) := by decide
example : cxml.attrByName (div [attrId]) "id".toStr = none := by decide
-- values: case-sensitive unless the pattern carries IGNORECASE
example : matchAttributes chtml (div [attrId])
    [⟨"id".toStr, [], some (.seq (.bos :: ("ab".toStr.map (Rx.lit · false) ++ [.eos]))), none⟩] = false := by decide
example : matchAttributes chtml (div [attrId])
    [⟨"id".toStr, [], some (.seq (.bos :: ("ab".toStr.map (Rx.lit · true) ++ [.eos]))), none⟩] = true := by decide
-- the `type` pair of patterns: HTML takes the insensitive one, XML the sensitive one
example : matchAttributes chtml (div [attrId])
    [⟨"id".toStr, [], some (.seq (.bos :: ("ab".toStr.map (Rx.lit · true) ++ [.eos]))),
      some (.seq (.bos :: ("ab".toStr.map (Rx.lit · false) ++ [.eos])))⟩] = true := by decide
example : matchAttributes cxml (div [attrId])
    [⟨"ID".toStr, [], some (.seq (.bos :: ("ab".toStr.map (Rx.lit · true) ++ [.eos]))),
      some (.seq (.bos :: ("ab".toStr.map (Rx.lit · false) ++ [.eos])))⟩] = false := by decide

end C11
end SoupVerif
