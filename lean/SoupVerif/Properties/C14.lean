/-
C14 -- concurrent compilation and matching behave as if run one at a time.

Two halves:

* a theorem about the scheduling model (`Model/Sched.lean`): threads that touch no shared mutable slot --
  only their own state and the cache API, whose contract is "the value stored for key k is `parse k`" --
  end, under EVERY schedule (any interleaving, any number of threads), in the state they reach when run
  alone; proved by induction on the schedule;
* facts about the source text (`Generated/Effects.lean`, rebuilt on every run): no function of soupsieve
  stores into an object that outlives the call, apart from objects still under construction; the matcher
  never writes to a Beautiful Soup object; the debug flag only guards printing.

The old tokenizer protocol (`self.matched_name = ...` in `match()`, read back in `get_name()`) is shown to be
expressible in the model and to go wrong under a 2-thread, 4-step schedule.
-/
import SoupVerif.Model.Sched
import SoupVerif.Generated.Effects

namespace SoupVerif.C14
open SoupVerif.Sched

section Noninterference
variable {L Loc Val Key : Type} [DecidableEq Loc] [DecidableEq Key]

theorem cacheOK_update {parse : Key → Val} {ca : Key → Option Val} (h : CacheOK parse ca) (q : Key) :
    CacheOK parse (update ca q (some (parse q))) := by
  intro k v hk
  unfold update at hk
  split at hk
  · next heq => cases hk; rw [heq]
  · exact h k v hk

omit [DecidableEq Key] in
theorem cacheOK_empty (parse : Key → Val) : CacheOK parse (fun _ => none) := by
  intro k v hk; cases hk

/-- One step of a thread whose next step is safe, against a correct cache: its own state moves exactly as
`pureStep` says (which mentions neither the store nor the cache), and the cache stays correct. -/
theorem stepThread_safe (parse : Key → Val) (sh : Loc → Val) (ca : Key → Option Val)
    (th : Thread L Loc Val Key) (hs : ∀ s ∈ th.prog, s.Safe parse) (hc : CacheOK parse ca) :
    (stepThread parse sh ca th).2.2 = pureStep parse th ∧ CacheOK parse (stepThread parse sh ca th).2.1 := by
  obtain ⟨st, prog⟩ := th
  cases prog with
  | nil => exact ⟨rfl, hc⟩
  | cons s rest =>
    have hsafe := hs s (List.mem_cons_self ..)
    cases s with
    | loc f => exact ⟨rfl, hc⟩
    | readShared x k => exact absurd hsafe (by simp [Step.Safe])
    | writeShared x v => exact absurd hsafe (by simp [Step.Safe])
    | cacheGet key k =>
      refine ⟨?_, hc⟩
      simp only [stepThread, pureStep]
      cases hq : ca (key st) with
      | none => rfl
      | some v => rw [hc _ _ hq]; rfl
    | cachePut key v =>
      refine ⟨rfl, ?_⟩
      simp only [stepThread]
      have : v st = parse (key st) := hsafe st
      rw [this]
      exact cacheOK_update hc _
    | cacheClear => exact ⟨rfl, cacheOK_empty parse⟩

omit [DecidableEq Loc] [DecidableEq Key] in
theorem pureStep_prog_subset (parse : Key → Val) (th : Thread L Loc Val Key) :
    ∀ s ∈ (pureStep parse th).prog, s ∈ th.prog := by
  obtain ⟨st, prog⟩ := th
  cases prog with
  | nil => intro s hs; exact hs
  | cons s0 rest =>
    intro s hs
    have : (pureStep parse ⟨st, s0 :: rest⟩).prog = rest := by cases s0 <;> rfl
    rw [this] at hs
    exact List.mem_cons_of_mem _ hs

/-- All threads safe and the cache correct: the invariant of the induction. -/
def Inv (parse : Key → Val) (c : Config L Loc Val Key) : Prop :=
  (∀ th ∈ c.threads, ∀ s ∈ th.prog, s.Safe parse) ∧ CacheOK parse c.cache

theorem sched1_spec (parse : Key → Val) (t : Nat) (c : Config L Loc Val Key) (h : Inv parse c) :
    Inv parse (sched1 parse t c) ∧
    ∀ i, (sched1 parse t c).threads[i]? =
      if t = i then (c.threads[i]?).map (pureStep parse) else c.threads[i]? := by
  unfold sched1
  cases ht : c.threads[t]? with
  | none =>
    refine ⟨h, fun i => ?_⟩
    by_cases hti : t = i
    · subst hti; simp [ht]
    · simp [hti]
  | some th =>
    have hmem : th ∈ c.threads := List.mem_of_getElem? ht
    obtain ⟨hstep, hcache⟩ := stepThread_safe parse c.shared c.cache th (h.1 th hmem) h.2
    have hlt : t < c.threads.length := by
      rcases Nat.lt_or_ge t c.threads.length with hlt | hge
      · exact hlt
      · rw [List.getElem?_eq_none hge] at ht; cases ht
    refine ⟨⟨?_, hcache⟩, fun i => ?_⟩
    · intro th' hth' s hs
      simp only at hth'
      rcases List.mem_or_eq_of_mem_set hth' with hold | hnew
      · exact h.1 th' hold s hs
      · rw [hnew, hstep] at hs
        exact h.1 th hmem s (pureStep_prog_subset parse th s hs)
    · show (c.threads.set t (stepThread parse c.shared c.cache th).2.2)[i]? = _
      rw [List.getElem?_set]
      by_cases hti : t = i
      · subst hti; rw [ht]; simp [hlt, hstep]
      · simp [hti]

/-- Under the invariant, after any schedule every thread is where `count` of its own safe steps put it --
a function of the thread alone. -/
theorem run_spec (parse : Key → Val) (sched : Schedule) : ∀ (c : Config L Loc Val Key), Inv parse c →
    Inv parse (run parse sched c) ∧
    ∀ i, (run parse sched c).threads[i]? = (c.threads[i]?).map (pureAdvance parse (sched.count i)) := by
  induction sched with
  | nil =>
    intro c h
    refine ⟨h, fun i => ?_⟩
    show c.threads[i]? = _
    cases c.threads[i]? <;> simp [pureAdvance]
  | cons t s ih =>
    intro c h
    obtain ⟨h1, hthreads⟩ := sched1_spec parse t c h
    obtain ⟨h2, hrest⟩ := ih (sched1 parse t c) h1
    refine ⟨h2, fun i => ?_⟩
    show (run parse s (sched1 parse t c)).threads[i]? = _
    rw [hrest i, hthreads i]
    by_cases hti : t = i
    · subst hti
      cases c.threads[t]? with
      | none => simp
      | some th => simp [pureAdvance]
    · have : (t :: s).count i = s.count i := by simp [hti]
      simp [hti, this]

/-- **noninterference.** If no thread has a step that reads or writes a shared slot -- only steps on its own
state and cache operations obeying the cache's contract -- then under every schedule (any interleaving, any
number of threads, any initial shared store, any correct initial cache) each thread is exactly where it is
when it runs alone, from an empty cache, for as many steps as the schedule gave it. -/
theorem noninterference (parse : Key → Val) (c : Config L Loc Val Key)
    (hsafe : ∀ th ∈ c.threads, ∀ s ∈ th.prog, s.Safe parse) (hcache : CacheOK parse c.cache)
    (sched : Schedule) (i : Nat) (th : Thread L Loc Val Key) (hi : c.threads[i]? = some th) :
    (run parse sched c).threads[i]? = runAlone parse c.shared (sched.count i) th := by
  have h1 := (run_spec parse sched c ⟨hsafe, hcache⟩).2 i
  have hmem : th ∈ c.threads := List.mem_of_getElem? hi
  have inv2 : Inv parse (⟨c.shared, fun _ => none, [th]⟩ : Config L Loc Val Key) :=
    ⟨fun th' hth' => by
      have : th' = th := by simpa using hth'
      subst this; exact hsafe th' hmem, cacheOK_empty parse⟩
  have h2 := (run_spec parse (List.replicate (sched.count i) 0) _ inv2).2 0
  unfold runAlone
  rw [h1, h2, hi]
  simp

/-- Nothing wrong is left behind in the cache: after any schedule every entry is still `parse key`. -/
theorem cache_stays_correct (parse : Key → Val) (c : Config L Loc Val Key)
    (hsafe : ∀ th ∈ c.threads, ∀ s ∈ th.prog, s.Safe parse) (hcache : CacheOK parse c.cache)
    (sched : Schedule) : CacheOK parse (run parse sched c).cache :=
  (run_spec parse sched c ⟨hsafe, hcache⟩).1.2

/-- A thread that was given at least as many turns as it has steps has finished, with the result of its solo
run: the schedule only decides *when*, never *what*. -/
theorem finished_result_independent (parse : Key → Val) (c : Config L Loc Val Key)
    (hsafe : ∀ th ∈ c.threads, ∀ s ∈ th.prog, s.Safe parse) (hcache : CacheOK parse c.cache)
    (s₁ s₂ : Schedule) (i : Nat) (h : s₁.count i = s₂.count i) :
    (run parse s₁ c).threads[i]? = (run parse s₂ c).threads[i]? := by
  rw [(run_spec parse s₁ c ⟨hsafe, hcache⟩).2 i, (run_spec parse s₂ c ⟨hsafe, hcache⟩).2 i, h]

end Noninterference

/-! ### The old tokenizer protocol, in the model -/

namespace OldProtocol

/-- `SpecialPseudoPattern.match` stored which sub-pattern matched in `self.matched_name` (one slot, the object
sits in the class-level `CSSParser.css_tokens`), `get_name` read it back in a later step.  Local state: the
handler name the thread ends up with. -/
def tokenize (mine : String) : List (Step String Unit String Unit) :=
  [.writeShared () (fun _ => mine), .readShared () (fun v _ => v)]

def threads : List (Thread String Unit String Unit) :=
  [⟨"", tokenize "pseudo_nth_child"⟩, ⟨"", tokenize "pseudo_lang"⟩]

def start : Config String Unit String Unit := ⟨fun _ => "", fun _ => none, threads⟩

/-- Alone, thread 0 parses `:nth-child(2n+1)` with the nth-child handler ... -/
example : (runAlone (fun _ => "") (fun _ => "") 2 ⟨"", tokenize "pseudo_nth_child"⟩).map (·.state) =
    some "pseudo_nth_child" := by decide

/-- ... with thread 1 (compiling `:lang(en)`) squeezed between its two steps, it gets the `:lang()` handler:
2 threads, 4 steps. -/
example : ((run (fun _ => "") [0, 1, 0, 1] start).threads[0]?).map (·.state) = some "pseudo_lang" := by decide

/-- The sequential schedule is fine. -/
example : ((run (fun _ => "") [0, 0, 1, 1] start).threads[0]?).map (·.state) = some "pseudo_nth_child" := by
  decide

end OldProtocol

/-! ### The source has no shared slot left -/

open Gen.Effects in
/-- **shared_slots_empty.** No store in any function of soupsieve hits an object that outlives the call (a
module global, a class attribute, an instance kept in one of them) or an object the translator cannot place:
all stores go to objects under construction (`__init__`) or to objects that live for one API call. -/
theorem shared_slots_empty :
    (Gen.Effects.sharedWrites.filter (fun w => w.lifetime == .shared || w.lifetime == .unknown)) = [] := by
  decide +kernel

open Gen.Effects in
/-- Stores through local variables and parameters hit per-call objects or containers created in the same
function. -/
theorem local_writes_unshared :
    (Gen.Effects.localWrites.filter (fun w => w.binding == .unknown)) = [] := by
  decide +kernel

/-- The classes taken to live for one API call are never instantiated-and-stored at module or class level,
and their instances are never stored into longer-lived receivers (as far as the AST shows). -/
theorem per_call_classes_checked : Gen.Effects.perCallClasses.all (·.2) = true := by decide +kernel

/-- The per-call classes and the classes kept in module globals / class attributes are disjoint. -/
theorem per_call_not_stored :
    Gen.Effects.perCallClasses.all (fun p => !Gen.Effects.storedClasses.contains p.1) = true := by
  decide +kernel

/-- The token matchers are among the shared objects (so a store in their methods would be reported). -/
theorem token_matchers_are_shared :
    (Gen.Effects.storedClasses.contains "SelectorPattern" &&
     Gen.Effects.storedClasses.contains "SpecialPseudoPattern") = true := by decide +kernel

/-- **tree_writes_fresh_only.** The matcher never stores into a Beautiful Soup object: the only stores that
touch tree-like attributes are to objects under construction (`_FakeParent.__init__`'s `self.contents`). -/
theorem tree_writes_fresh_only : Gen.Effects.treeWrites.all (·.freshObject) = true := by decide +kernel

/-- **debug_only_prints.** Every `if self.debug:` block only prints, and the flag is read nowhere else. -/
theorem debug_only_prints : Gen.Effects.debugGuarded.all (·.onlyPrints) = true := by decide +kernel

theorem debug_read_only_in_guards : Gen.Effects.debugReads = [] := by decide +kernel

/-- The only shared mutable state left is the two `lru_cache`s (the atomic maps of the model). -/
theorem caches_are :
    Gen.Effects.caches.map (fun c => (c.modName, c.function, c.maxsize)) =
      [("soupsieve.css_parser", "_cached_css_compile", some 500), ("soupsieve.util", "lower", some 512)] := by
  decide +kernel

/-- **interpreter_setters_empty.** No function of the library changes an interpreter-wide setting (recursion limit, switch
interval, warnings filters, locale, signal handlers, `os.environ`, `sys.modules`, `sys.path`, the `re` cache, …): such state is
shared by every thread although it is no object of the library, so the write analysis above cannot see it.  Regenerated from
the source on every run (`gen_effects.interpreter_setters`); a temporary change that is "restored afterwards" is a change. -/
theorem interpreter_setters_empty : Gen.Effects.interpreterSetters = [] := by decide +kernel

end SoupVerif.C14
