/-
  C02: the generated adjustment block of `match_nth` (`Generated/PyNth.lean`) ENDS — with the fuels the hand model
  `Nth.matchOne` supplies — and `Nth.matchOne` restated on the generated pieces.

    * `whileBrk_inv`            — loop invariants carry to the final state of `PyWhile.whileBrk`;
    * `loop1_terminates`        — `while idx < 1 or idx > last_index + 1` (translated) ends: after at most `2 - idx` turns from
                                  below, `idx - last_index` turns from above (all `a`, `b`, `last_index`; no hypothesis);
    * `loop1_inv`               — `idx = a * count + b` is an invariant of it;
    * `loop2_terminates`        — `while idx >= 1` (translated, `a < 0`) ends within `idx` turns;
    * `adjustBlock_model_fuel`  — with `fuel1 = |b| + len + 4`, `fuel2 = |idx1| + 2` (what `Nth.matchOne` uses) the generated block
                                  returns `some (modelAdjust …)`: never `none`, for all integers `a`, `b` and every length;
    * `matchOne_gen`            — `Nth.matchOne … true walk` = `Nth.outer` started from the generated block's result;
    * `gen_matchOne_iff`        — `C02.matchOne_iff` restated on that start state.
-/
import SoupVerif.Properties.C02GenNth
namespace SoupVerif
namespace C02GenNth
open Nth PyWhile Gen.PyNth

/-- a loop invariant holds of the final state -/
theorem whileBrk_inv {σ : Type} (cond : σ → Bool) (body : σ → σ × Bool) (P : σ → Prop)
    (hstep : ∀ st, cond st = true → P st → P (body st).1) :
    ∀ (fuel : Nat) (st r : σ), P st → whileBrk cond body fuel st = some r → P r := by
  intro fuel
  induction fuel with
  | zero =>
    intro st r hP h
    unfold whileBrk at h
    split at h
    · cases h
    · cases h; exact hP
  | succ n ih =>
    intro st r hP h
    unfold whileBrk at h
    split at h
    · rename_i hc
      have hs := hstep st hc hP
      split at h
      · rename_i st' hb; rw [hb] at hs; cases h; exact hs
      · rename_i st' hb; rw [hb] at hs; exact ih st' r hs h
    · cases h; exact hP

/-- the first adjustment loop ends within `|idx| + (last_index + 1) + 2` turns -/
theorem loop1_terminates (a b L : Int) :
    ∀ (fuel : Nat) (count idx lastIdx : Int) (adj : Option Bool),
      (idx < 1 → (adj = some true ∧ 1 ≤ fuel) ∨ (adj ≠ some true ∧ 2 - idx ≤ (fuel : Int))) →
      (idx > L + 1 → (adj = some false ∧ 1 ≤ fuel) ∨ (adj ≠ some false ∧ idx - L ≤ (fuel : Int))) →
      ∃ r, whileBrk (loop1Cond L a b true 1) (loop1Step L a b true 1) fuel
        (count, idx, lastIdx, encode adj) = some r := by
  intro fuel
  induction fuel with
  | zero =>
    intro count idx lastIdx adj hlo hhi
    have h1 : ¬ idx < 1 := by
      intro h; rcases hlo h with ⟨_, h'⟩ | ⟨_, h'⟩ <;> omega
    have h3 : ¬ idx > L + 1 := by
      intro h; rcases hhi h with ⟨_, h'⟩ | ⟨_, h'⟩ <;> omega
    have hc : ¬ loop1Cond L a b true 1 (count, idx, lastIdx, encode adj) = true := by
      simp [loop1Cond, h1, h3]
    unfold whileBrk
    rw [if_neg hc]; exact ⟨_, rfl⟩
  | succ n ih =>
    intro count idx lastIdx adj hlo hhi
    unfold whileBrk
    by_cases h1 : idx < 1
    · have hc : loop1Cond L a b true 1 (count, idx, lastIdx, encode adj) = true := by
        simp [loop1Cond, h1]
      rw [if_pos hc]
      have hlo' := hlo h1
      rcases adj with _ | _ | _
      · simp [loop1Step, encode, h1]
        by_cases h2 : a * (count + 1) + b ≤ idx
        · simp [h2]
        · simp [h2]
          have := ih (count + 1) (a * (count + 1) + b) (a * (count + 1) + b) (some false)
            (by intro h; right; refine ⟨by simp, ?_⟩; simp at hlo'; omega)
            (by intro h; left; refine ⟨rfl, ?_⟩; simp at hlo'; omega)
          simpa [encode] using this
      · simp [loop1Step, encode, h1]
        by_cases h2 : a * (count + 1) + b ≤ idx
        · simp [h2]
        · simp [h2]
          have := ih (count + 1) (a * (count + 1) + b) (a * (count + 1) + b) (some false)
            (by intro h; right; refine ⟨by simp, ?_⟩; simp at hlo'; omega)
            (by intro h; left; refine ⟨rfl, ?_⟩; simp at hlo'; omega)
          simpa [encode] using this
      · simp [loop1Step, encode, h1]
    · by_cases h3 : idx > L + 1
      · have hc : loop1Cond L a b true 1 (count, idx, lastIdx, encode adj) = true := by
          simp [loop1Cond, h3]
        rw [if_pos hc]
        have hhi' := hhi h3
        rcases adj with _ | _ | _
        · simp [loop1Step, encode, h1]
          by_cases h2 : idx ≤ a * (count + 1) + b
          · simp [h2]
          · simp [h2]
            have := ih (count + 1) (a * (count + 1) + b) (a * (count + 1) + b) (some true)
              (by intro h; left; refine ⟨rfl, ?_⟩; simp at hhi'; omega)
              (by intro h; right; refine ⟨by simp, ?_⟩; simp at hhi'; omega)
            simpa [encode] using this
        · simp [loop1Step, encode, h1]
        · simp [loop1Step, encode, h1]
          by_cases h2 : idx ≤ a * (count + 1) + b
          · simp [h2]
          · simp [h2]
            have := ih (count + 1) (a * (count + 1) + b) (a * (count + 1) + b) (some true)
              (by intro h; left; refine ⟨rfl, ?_⟩; simp at hhi'; omega)
              (by intro h; right; refine ⟨by simp, ?_⟩; simp at hhi'; omega)
            simpa [encode] using this
      · have hc : ¬ loop1Cond L a b true 1 (count, idx, lastIdx, encode adj) = true := by
          simp [loop1Cond, h1, h3]
        rw [if_neg hc]; exact ⟨_, rfl⟩

/-- `idx = a * count + b` is an invariant of the first loop -/
theorem loop1_inv (a b L : Int) (fuel : Nat) (count idx lastIdx : Int) (x : Option Int)
    (r : Int × Int × Int × Option Int) (h0 : idx = a * count + b)
    (h : whileBrk (loop1Cond L a b true 1) (loop1Step L a b true 1) fuel (count, idx, lastIdx, x) = some r) :
    r.2.1 = a * r.1 + b := by
  refine whileBrk_inv _ _ (fun st => st.2.1 = a * st.1 + b) ?_ fuel _ r h0 h
  rintro ⟨c, i, l, x⟩ _ hP
  simp only at hP
  simp only [loop1Step, ↓reduceIte]
  (repeat' split) <;> first | exact hP | simp

/-- the second loop (`a < 0`) ends within `idx` turns -/
theorem loop2_terminates (a b : Int) (ha : a < 0) :
    ∀ (fuel : Nat) (count idx lastIdx lowest : Int), idx = a * count + b → idx ≤ (fuel : Int) →
      ∃ r, whileBrk (loop2Cond a b true 1) (loop2Step a b true 1) fuel (count, idx, lastIdx, lowest) = some r := by
  intro fuel
  induction fuel with
  | zero =>
    intro count idx lastIdx lowest h0 hf
    unfold whileBrk
    have hc : ¬ loop2Cond a b true 1 (count, idx, lastIdx, lowest) = true := by
      simp [loop2Cond]; omega
    rw [if_neg hc]; exact ⟨_, rfl⟩
  | succ n ih =>
    intro count idx lastIdx lowest h0 hf
    unfold whileBrk
    by_cases h1 : idx ≥ 1
    · have hc : loop2Cond a b true 1 (count, idx, lastIdx, lowest) = true := by simp [loop2Cond, h1]
      rw [if_pos hc]
      simp only [loop2Step, ↓reduceIte]
      have e : a * (count + 1) + b = idx + a := by rw [Int.mul_add]; omega
      exact ih _ _ _ _ rfl (by rw [e]; push_cast at hf; omega)
    · have hc : ¬ loop2Cond a b true 1 (count, idx, lastIdx, lowest) = true := by simp [loop2Cond, h1]
      rw [if_neg hc]; exact ⟨_, rfl⟩

/-- **piece 2, total**: with the fuels `Nth.matchOne` itself supplies, the generated adjustment block ENDS, and its result
    is the model's `(count, count_incr, idx)` — for all integers `a`, `b` and every parent length. -/
theorem adjustBlock_model_fuel (a b : Int) (len : Nat) :
    adjustBlock (b.natAbs + len + 4) ((Nth.adjust a b ((len : Int) - 1) (b.natAbs + len + 4) 0 b none).2.natAbs + 2)
        ((len : Int) - 1) a b true 0 1 b b =
      some (modelAdjust a b ((len : Int) - 1) (b.natAbs + len + 4)
        ((Nth.adjust a b ((len : Int) - 1) (b.natAbs + len + 4) 0 b none).2.natAbs + 2) 0 b) := by
  obtain ⟨r1, h1⟩ := loop1_terminates a b ((len : Int) - 1) (b.natAbs + len + 4) 0 b b none
    (by intro _; right; refine ⟨by simp, ?_⟩; omega)
    (by intro _; right; refine ⟨by simp, ?_⟩; omega)
  have e1 := loop1_sim a b ((len : Int) - 1) _ 0 b b none r1 h1
  have inv := loop1_inv a b ((len : Int) - 1) _ 0 b b _ r1 (by simp) h1
  obtain ⟨c1, i1, l1, x1⟩ := r1
  simp only at e1 inv
  have h1' : whileBrk (loop1Cond ((len : Int) - 1) a b true 1) (loop1Step ((len : Int) - 1) a b true 1)
      (b.natAbs + len + 4) (0, b, b, (none : Option Int)) = some (c1, i1, l1, x1) := h1
  rw [e1]
  show adjustBlock _ (i1.natAbs + 2) _ _ _ _ _ _ _ _ = some (modelAdjust _ _ _ _ (i1.natAbs + 2) _ _)
  suffices h : ∃ r, adjustBlock (b.natAbs + len + 4) (i1.natAbs + 2) ((len : Int) - 1) a b true 0 1 b b = some r by
    obtain ⟨r, h⟩ := h
    have := adjustBlock_eq _ _ a b _ 0 b b r h
    rw [h, this]
  unfold adjustBlock
  simp only [↓reduceIte, h1']
  by_cases ha : a < 0
  · obtain ⟨r2, h2⟩ := loop2_terminates a b ha (i1.natAbs + 2) c1 i1 l1 c1 inv (by omega)
    obtain ⟨c2, i2, l2, x2⟩ := r2
    simp only [ha, decide_true, ↓reduceIte, h2]
    exact ⟨_, rfl⟩
  · simp only [ha, decide_false]
    exact ⟨_, rfl⟩

/-- **`Nth.matchOne` restated on the generated pieces**: the positional matcher model is the generated initial
    state, the generated adjustment block (which ends), then the main loop `Nth.outer` — each turn of which is the generated
    test and the generated advance (`outer_step`) around the child walk `Nth.inner` — started from the block's result. -/
theorem matchOne_gen {α : Type} (counted isEl : α → Bool) (a b : Int) (walk : List α) :
    ∃ r, adjustBlock (b.natAbs + walk.length + 4)
          ((Nth.adjust a b ((walk.length : Int) - 1) (b.natAbs + walk.length + 4) 0 b none).2.natAbs + 2)
          ((walk.length : Int) - 1) a b true 0 1 b b = some r ∧
      Nth.matchOne counted isEl a b true walk =
        Nth.outer counted isEl a b true ((walk.length : Int) - 1) r.2.1
          (walk.length + (if a < 0 then r.1.natAbs else 0) + 3) r.1 r.2.2.1 walk 0 := by
  refine ⟨_, adjustBlock_model_fuel a b walk.length, ?_⟩
  unfold Nth.matchOne modelAdjust
  by_cases ha : a < 0
  · simp [ha, idxOf]
  · simp [ha, idxOf]

/-- **C02 main theorem on the generated start**: on a well-formed walk, the main loop started from the state the GENERATED
    initialisation and adjustment compute answers `∃ n ≥ 0, a·n + b = position`. -/
theorem gen_matchOne_iff {α : Type} (counted isEl : α → Bool) (a b : Int) (walk pre : List α) (e : α) (post : List α)
    (hwalk : walk = pre ++ e :: post) (hpre : ∀ x ∈ pre, isEl x = false)
    (he : isEl e = true) (hc : counted e = true) :
    ∃ r, adjustBlock (b.natAbs + walk.length + 4)
          ((Nth.adjust a b ((walk.length : Int) - 1) (b.natAbs + walk.length + 4) 0 b none).2.natAbs + 2)
          ((walk.length : Int) - 1) a b true 0 1 b b = some r ∧
      (Nth.outer counted isEl a b true ((walk.length : Int) - 1) r.2.1
          (walk.length + (if a < 0 then r.1.natAbs else 0) + 3) r.1 r.2.2.1 walk 0 = true ↔
        ∃ n : Nat, a * (n : Int) + b = (((pre.filter counted).length + 1 : Nat) : Int)) := by
  obtain ⟨r, h, hm⟩ := matchOne_gen counted isEl a b walk
  exact ⟨r, h, by rw [← hm]; exact C02.matchOne_iff counted isEl a b walk pre e post hwalk hpre he hc⟩

end C02GenNth
end SoupVerif
