/-
  C06 / C20 end to end: WHAT THE DIAGNOSTIC OF A REJECTED SELECTOR TEXT SAYS.

  `Properties/C06.lean` proves that `Parser.compile` (the parser model over the token expressions
  regenerated from `css_parser.py`) returns a selector list or a documented error whose offset lies inside
  the pattern it names; `Properties/C20.lean` proves what `getPatternContext pattern index` (the model of
  `util.get_pattern_context`) returns for every `index ≤ |pattern|`.  This file composes them, and says WHICH
  offset the common mistakes get, from the text.

  PART 1 — every error.
    `positioned` : the raise sites `raise SelectorSyntaxError(msg, self.pattern, index)` (all
       `SelectorSyntaxError`s of `css_parser.py` except the one of `process_custom`, which passes no pattern;
       `NotImplementedError` (at-rule, pseudo-element) and `KeyError` carry no position).
    `diagnostic e` : `SelectorSyntaxError.__init__` — `(context, line, col) = get_pattern_context(pattern,
       index)` when a pattern and an index are passed, nothing otherwise.  (The message text is not modelled.)
    `DiagOK p i d` : ALL clauses of C20 about `(context, line, col) = d` for offset `i` of pattern `p`.
    `diagnostic_of_error` : for EVERY pattern, custom map, flag word, environment and table of built-ins, if
       `compile … = .error e` with `e` positioned, then `diagnostic e = some d`, `DiagOK e.pattern e.offset d`
       — no hypothesis on the offset left — and `e.pattern` is the (NUL-replaced) pattern given, or the
       (NUL-replaced) definition of one of the custom selectors given (`Refine/C20ParseOrigin.lean`: the
       nested `CSSParser` of `parse_pseudo_class_custom` reports against the definition it parses).
    `error_classes` : every error of `compile` is positioned, or is one of the four position-less kinds.

  PART 2 — which offset.  `T = l.render` is the text of ANY selector list `l : SSelList` of the grammar of
    `Properties/C09Compile.lean` (type selectors, `#id`, `.class`, attribute selectors, the argument-less
    pseudo-classes, `:not/:is/:where/:matches(…)` nested, `:nth-*()` with `of S`, `:dir()`, combinators and
    commas; identifiers and strings in any admissible spelling, gaps = whitespace and comments wherever CSS
    allows them), admissible in front of what follows (`l.ok r`); `g₁` is any leading gap.  Environment
    `pyFoldEnv`, no custom selectors, flags 0, no NUL in the pattern (as in `compile_eq_denote`).
      (a) `offset_unmatched_close`   `g₁ T g ) rest`        → unmatchedClose at `|g₁ T|` (the START of the token
                                                               `WSC*\)`: before the gap `g`, not at the `)`)
      (b) `offset_invalid_char`      `g₁ T c rest`          → invalidCharacter at `|g₁ T|`, `c` any ASCII character
                                                               no token starts with (`noTokenStart_iff`: control
                                                               characters, `! " $ % ' ; < = ? ] ^ ` { }` DEL)
          `offset_invalid_char_start` `g₁ c rest`           → the same at `|g₁|` (here also digits and `(`)
      (c) `offset_dangling_comb`     `g₁ T g₂ c g₃`  (end)  → expectedSelector at the LENGTH of the whole text
                                                               (`c` one of `, + > ~`)
      (d) `offset_leading_comb`      `g₁ c rest`            → combinatorNeedsSelector at offset 0 (NOT at the
                                                               combinator: `index` is still the initial 0)
          `offset_double_comb`       `g₁ T g₂ c g₃ c' rest` → combinatorNeedsSelector at `|g₁ T g₂ c g₃|` (the end
                                                               of the first combinator token = the second one)
      (3) `offset_unknown_pseudo`    `g₁ T :name r`         → unknownPseudo (invalidPseudoSyntax when `name` is a
          `offset_unknown_pseudo_start`  `g₁ :name r`          pseudo-class that needs arguments) at the START of
                                                               the pseudo-class token; `name` in any spelling and
                                                               letter case, not followed by `(`
          `offset_at_rule`, `offset_at_rule_start`          → atRule (NotImplementedError; no diagnostic)
      (″) `offset_invalid_char_after_comb`, `offset_unknown_pseudo_after_comb`, `offset_at_rule_after_comb`:
          the same three mistakes at the start of a new compound, `g₁ T cb …` with `cb` any combinator
          (`a $`, `a > :nosuch`, `a @x`) → at `|g₁ T cb|`
  PART 3 — line and column as functions of the text: `diag_*`.  With `Refine/C20ParseCtx.lean`
    (`ctx_after_prefix`): for the errors at `|g₁ T|` the line is the LAST line of `g₁ T` and the column one
    past the end of that line (`CleanCut`: unless `g₁ T` ends in `\r` and the rest begins with `\n`); for (c)
    the last line of the whole text; for (d) line 1, column 1.

  All offsets were compared with the real library (`/venv/bin/python`) on instances of every theorem, with
  `\n`, `\r\n` inside; no difference found.
-/
import SoupVerif.Refine.C20ParseBase
import SoupVerif.Refine.C20ParseOrigin
import SoupVerif.Refine.C20ParseCtx
namespace SoupVerif
namespace C20Parse
open Rx SoupVerif.Parser ParserProgress Escape Spelling Refine.Compile C09Compile Refine.C20Parse
open Context Spec Spec.Ctx

/-! ## Part 1: the diagnostic of every error -/

/-- The raise sites of the form `raise SelectorSyntaxError(msg, self.pattern, index)`. -/
def positioned : ErrKind → Bool
  | .undefinedCustom | .invalidPseudoSyntax | .unknownPseudo | .multipleCombinators
  | .combinatorNeedsSelector | .expectedSelector | .unmatchedClose | .tagNotAtStart | .unclosedPseudo
  | .malformedAttribute | .malformedClass | .malformedId | .malformedPseudo | .invalidCharacter => true
  | .badCustomName | .atRule | .pseudoElement | .customCollision | .pyBug _ => false

/-- `SelectorSyntaxError.__init__(msg, pattern, index)`: `self.context, self.line, self.col =
    get_pattern_context(pattern, index)` when pattern and index are given; all three stay `None`
    otherwise (and for the exceptions that are not `SelectorSyntaxError`). -/
def diagnostic (e : Err) : Option (Str × Nat × Nat) :=
  if positioned e.kind then some (getPatternContext e.pattern e.offset) else none

/-- Every clause of C20 about the triple `d = (context, line, col)` reported for offset `i` of pattern `p`. -/
structure DiagOK (p : Str) (i : Nat) (d : Str × Nat × Nat) : Prop where
  /-- the offset identifies a position inside the pattern (its end included) -/
  in_range : i ≤ p.length
  /-- line = 1 + number of line-break units (`\r\n` one unit, lone `\n`, lone `\r`) ending at or before `i` -/
  line : d.2.1 = 1 + breaksBefore p i
  /-- … the same count as a direct left-to-right recursion -/
  line_rec : d.2.1 = 1 + breaksBeforeRec p i
  /-- column = offset within that line + 1 -/
  col : d.2.2 = i - lineStart p i + 1
  /-- line start + (column − 1) is the offset -/
  position : lineStart p i + (d.2.2 - 1) = i
  line_range : 1 ≤ d.2.1 ∧ d.2.1 ≤ numLines p
  col_pos : 1 ≤ d.2.2
  /-- the context reproduces the pattern's lines with a marker on the reported line and a caret under the
      reported column (one column to the left at the `\n` of a `\r\n` pair): `Spec.Ctx.expectedContext` -/
  text : d.1 = expectedContext p i
  /-- the marked line exists -/
  marked : breaksBefore p i < (lines p).length
  /-- the offset at the very end: the last line, never inside a `\r\n` pair -/
  at_end : i = p.length → d.2.1 = numLines p ∧ inCrLf p i = false
  /-- the offset at the `\n` of a `\r\n` pair: same line as the `\r`, one column further -/
  crlf : inCrLf p i = true → i ∉ breakEnds p ∧ i + 1 ∈ breakEnds p ∧
    d.2.1 = (getPatternContext p (i - 1)).2.1 ∧ d.2.2 = (getPatternContext p (i - 1)).2.2 + 1

/-- `Properties/C20.lean`, collected. -/
theorem diagOK_of_le (p : Str) (i : Nat) (hi : i ≤ p.length) : DiagOK p i (getPatternContext p i) where
  in_range := hi
  line := C20.ctx_line p i hi
  line_rec := C20.ctx_line_rec p i hi
  col := C20.ctx_col p i hi
  position := (C20.ctx_position p i hi).1
  line_range := ⟨C20.ctx_line_pos p i hi, C20.ctx_line_le p i hi⟩
  col_pos := C20.ctx_col_pos p i hi
  text := C20.ctx_text p i hi
  marked := C20.ctx_marked_exists p i
  at_end := by
    intro h; subst h
    have := C20.ctx_end_offset p
    exact ⟨by rw [this.1], this.2⟩
  crlf := C20.ctx_crlf p i hi

/-- **`diagnostic_of_error`.**  Every positioned error of `compile` — any pattern, any custom map, any flag
    word — carries a `(context, line, col)` that satisfies all clauses of C20 for the pattern and offset it
    names, and the pattern it names is the (NUL-replaced) pattern given to `compile` or the (NUL-replaced)
    definition of one of the custom selectors given to `compile`. -/
theorem diagnostic_of_error (env : CharEnv) (B : Builtins) (pattern : Str) (custom : List (Str × Str))
    (flags : Nat) {e : Err} (h : Parser.compile env Gen.lexicon B pattern custom flags = .error e)
    (hk : positioned e.kind = true) :
    ∃ d, diagnostic e = some d ∧ DiagOK e.pattern e.offset d ∧
      (e.pattern = nulFix pattern ∨ ∃ kv ∈ custom, e.pattern = nulFix kv.2) := by
  refine ⟨getPatternContext e.pattern e.offset, by simp [diagnostic, hk],
    diagOK_of_le _ _ (C06.err_offset_in_range env B pattern custom flags h), ?_⟩
  rcases compile_error_origin env B pattern custom flags h with ⟨hbad, _, _⟩ | ⟨_, horig⟩
  · rcases hbad with hb | hb <;> rw [hb] at hk <;> cases hk
  · exact horig

/-- Without custom selectors the pattern named is the (NUL-replaced) pattern given. -/
theorem diagnostic_of_error_nocustom (env : CharEnv) (B : Builtins) (pattern : Str) (flags : Nat) {e : Err}
    (h : Parser.compile env Gen.lexicon B pattern [] flags = .error e) (hk : positioned e.kind = true) :
    e.pattern = nulFix pattern ∧ e.offset ≤ pattern.length ∧
      diagnostic e = some (getPatternContext (nulFix pattern) e.offset) ∧
      DiagOK (nulFix pattern) e.offset (getPatternContext (nulFix pattern) e.offset) := by
  obtain ⟨d, hd, hok, horig⟩ := diagnostic_of_error env B pattern [] flags h hk
  have hp : e.pattern = nulFix pattern := by
    rcases horig with h1 | ⟨kv, hm, _⟩
    · exact h1
    · cases hm
  have hle := hok.in_range
  rw [hp, nulFix_length] at hle
  refine ⟨hp, hle, by simp [diagnostic, hk, hp], diagOK_of_le _ _ (by rw [nulFix_length]; exact hle)⟩

/-- Every error of `compile` is a positioned `SelectorSyntaxError`, or one of: the `SelectorSyntaxError`
    of `process_custom` (no pattern), `NotImplementedError` (at-rule, pseudo-element), `KeyError`. -/
theorem error_classes (env : CharEnv) (B : Builtins) (pattern : Str) (custom : List (Str × Str))
    (flags : Nat) {e : Err} (h : Parser.compile env Gen.lexicon B pattern custom flags = .error e) :
    positioned e.kind = true ∨
      (diagnostic e = none ∧
        (e.kind = .badCustomName ∨ e.kind = .atRule ∨ e.kind = .pseudoElement ∨ e.kind = .customCollision)) := by
  have hnb := C06.compile_no_pybug_gen env B pattern custom flags h
  cases hkd : e.kind with
  | pyBug w => exact absurd hkd (hnb w)
  | badCustomName => right; simp [diagnostic, positioned, hkd]
  | atRule => right; simp [diagnostic, positioned, hkd]
  | pseudoElement => right; simp [diagnostic, positioned, hkd]
  | customCollision => right; simp [diagnostic, positioned, hkd]
  | _ => left; rfl

/-! ## Part 2: which offset -/

section Offsets
variable (B : Builtins)

/-- (a) A valid selector list text followed (after any gap) by an unmatched `)`: "Unmatched pseudo-class
    close" at the end of the list text. -/
theorem offset_unmatched_close (g₁ g rest : Str) (l : SSelList) (hg₁ : isGap g₁) (hg : isGap g)
    (hok : l.ok (g ++ 41 :: rest)) (h0 : ∀ x ∈ g₁ ++ l.render ++ (g ++ 41 :: rest), x ≠ 0) :
    Parser.compile pyFoldEnv Gen.lexicon B (g₁ ++ l.render ++ (g ++ 41 :: rest)) [] 0 =
      .error ⟨.unmatchedClose, g₁ ++ l.render ++ (g ++ 41 :: rest), (g₁ ++ l.render).length⟩ := by
  obtain ⟨st, k, hpos, hd, hs, hc⟩ :=
    compile_after_prefix B g₁ _ l hg₁ hok (safeStart_close g rest hg) (by simp) h0
  rw [hc, loop_unmatched_close B _ (k + 1) 0 st hd hg hs rfl, hpos]

/-- (b) … followed by an ASCII character no token starts with (and that does not continue the last
    identifier: not a digit, not `(`): "Invalid character" at the end of the list text. -/
theorem offset_invalid_char (g₁ rest : Str) (c : Nat) (l : SSelList) (hg₁ : isGap g₁)
    (hc : noTokenStart c = true) (hid : identContChar c = false) (h40 : c ≠ 40)
    (hok : l.ok (c :: rest)) (h0 : ∀ x ∈ g₁ ++ l.render ++ (c :: rest), x ≠ 0) :
    Parser.compile pyFoldEnv Gen.lexicon B (g₁ ++ l.render ++ (c :: rest)) [] 0 =
      .error ⟨.invalidCharacter, g₁ ++ l.render ++ (c :: rest), (g₁ ++ l.render).length⟩ := by
  have hmem := (noTokenStart_iff c).mp hc
  have hsafe : SafeStart (c :: rest) := by
    apply safeStart_cons
    simp only [List.mem_cons, List.not_mem_nil, or_false] at hmem
    exact ⟨hid, by omega, by omega, h40⟩
  obtain ⟨st, k, hpos, hd, hs, hcmp⟩ := compile_after_prefix B g₁ _ l hg₁ hok hsafe (by simp) h0
  rw [hcmp, loop_invalid_char B _ (k + 1) 0 st hd hc, hpos]

/-- (b′) The pattern begins (after any gap) with a character no token starts with. -/
theorem offset_invalid_char_start (g₁ rest : Str) (c : Nat) (hg₁ : isGap g₁)
    (hc : noTokenStart c = true) (h0 : ∀ x ∈ g₁ ++ (c :: rest), x ≠ 0) :
    Parser.compile pyFoldEnv Gen.lexicon B (g₁ ++ (c :: rest)) [] 0 =
      .error ⟨.invalidCharacter, g₁ ++ (c :: rest), g₁.length⟩ := by
  obtain ⟨_, hws, h47, _⟩ := noTokenStart_facts hc
  rw [compile_at_start B g₁ (c :: rest) hg₁ (by simp [noGapStart, hws, h47]) (by simp) h0,
    show 2 * (g₁ ++ c :: rest).length + 7 = (2 * (g₁ ++ c :: rest).length + 6) + 1 from rfl,
    loop_invalid_char B _ _ 0 (initLS g₁.length 0 0 []) (c := c) (cs := rest)
      (by show (g₁ ++ c :: rest).drop g₁.length = _; rw [List.drop_left' rfl]) hc]
  rfl

theorem safeStart_comb (g₂ g₃ : Str) (c : Nat) (hg₂ : isGap g₂) (hcomb : isComb c = true) :
    SafeStart (g₂ ++ c :: g₃) := by
  cases g₂ with
  | nil => exact safeStart_of_combHead c g₃ (Or.inr (Or.inr (Or.inl hcomb)))
  | cons y ys =>
    rcases gap_head hg₂ y (by simp) with h | h
    · exact safeStart_of_combHead y _ (Or.inl h)
    · exact safeStart_of_combHead y _ (Or.inr (Or.inl h))

/-- (c) A dangling combinator (`,` `+` `>` `~`, gaps around it) at the end: "Expected a selector" at the
    LENGTH of the whole text — the "offset at the very end" case of C20. -/
theorem offset_dangling_comb (g₁ g₂ g₃ : Str) (c : Nat) (l : SSelList) (hg₁ : isGap g₁) (hg₂ : isGap g₂)
    (hg₃ : isGap g₃) (hcomb : isComb c = true) (hok : l.ok (g₂ ++ c :: g₃))
    (h0 : ∀ x ∈ g₁ ++ l.render ++ (g₂ ++ c :: g₃), x ≠ 0) :
    Parser.compile pyFoldEnv Gen.lexicon B (g₁ ++ l.render ++ (g₂ ++ c :: g₃)) [] 0 =
      .error ⟨.expectedSelector, g₁ ++ l.render ++ (g₂ ++ c :: g₃),
        (g₁ ++ l.render ++ (g₂ ++ c :: g₃)).length⟩ := by
  obtain ⟨st, k, _, hd, hs, hcmp⟩ :=
    compile_after_prefix B g₁ _ l hg₁ hok (safeStart_comb g₂ g₃ c hg₂ hcomb) (by simp) h0
  generalize g₁ ++ l.render ++ (g₂ ++ c :: g₃) = s at *
  obtain ⟨p, hp, hple, hstep⟩ := step_comb_idx B s (k + 1) 0 st (c := c) (g₁ := g₂) (g₂ := g₃) (R := [])
    (by rw [hd, List.append_nil]) hg₂ hg₃ hcomb rfl rfl hs
  have hpe : p = s.length := by
    have := congrArg List.length hp
    rw [List.length_drop, List.length_nil] at this
    omega
  rw [hcmp, hstep, parseLoop_end B s (k + 1) 0 _ (by show isGap (s.drop p); rw [hp]; rfl)]
  simp only
  rw [finishSel_expected B s _ (by by_cases h : (c == 44) = true <;> simp [combStep, h]), hpe]

/-- (d) A leading combinator (after any gap; `,` `+` `>` `~`), WHATEVER follows: "The combinator … must have
    a selector before it" at offset 0 — not at the combinator, not at the end of the leading gap. -/
theorem offset_leading_comb (g₁ rest : Str) (c : Nat) (hg₁ : isGap g₁) (hcomb : isComb c = true)
    (h0 : ∀ x ∈ g₁ ++ (c :: rest), x ≠ 0) :
    Parser.compile pyFoldEnv Gen.lexicon B (g₁ ++ (c :: rest)) [] 0 =
      .error ⟨.combinatorNeedsSelector, g₁ ++ (c :: rest), 0⟩ := by
  have hcng : noGapStart (c :: rest) = true := by
    simp only [isComb, Bool.or_eq_true, beq_iff_eq] at hcomb
    rcases hcomb with ((h | h) | h) | h <;> subst h <;> simp [noGapStart, isCssWs]
  rw [compile_at_start B g₁ (c :: rest) hg₁ hcng (by simp) h0,
    show 2 * (g₁ ++ c :: rest).length + 7 = (2 * (g₁ ++ c :: rest).length + 6) + 1 from rfl,
    loop_leading_comb B _ _ 0 (initLS g₁.length 0 0 []) (c := c) (g := []) (rest := rest)
      (by show (g₁ ++ c :: rest).drop g₁.length = _; rw [List.drop_left' rfl]; rfl) rfl hcomb rfl rfl rfl]
  rfl

/-- (d′) Two combinators in a row after a valid list text, WHATEVER follows the second: the error is
    reported at the end of the first combinator token (its trailing gap included), i.e. at the second
    combinator. -/
theorem offset_double_comb (g₁ g₂ g₃ rest : Str) (c c' : Nat) (l : SSelList) (hg₁ : isGap g₁)
    (hg₂ : isGap g₂) (hg₃ : isGap g₃) (hcomb : isComb c = true) (hcomb' : isComb c' = true)
    (hok : l.ok (g₂ ++ c :: (g₃ ++ c' :: rest)))
    (h0 : ∀ x ∈ g₁ ++ l.render ++ (g₂ ++ c :: (g₃ ++ c' :: rest)), x ≠ 0) :
    Parser.compile pyFoldEnv Gen.lexicon B (g₁ ++ l.render ++ (g₂ ++ c :: (g₃ ++ c' :: rest))) [] 0 =
      .error ⟨.combinatorNeedsSelector, g₁ ++ l.render ++ (g₂ ++ c :: (g₃ ++ c' :: rest)),
        (g₁ ++ l.render ++ (g₂ ++ c :: g₃)).length⟩ := by
  have hcng : noGapStart (c' :: rest) = true := by
    simp only [isComb, Bool.or_eq_true, beq_iff_eq] at hcomb'
    rcases hcomb' with ((h | h) | h) | h <;> subst h <;> simp [noGapStart, isCssWs]
  obtain ⟨st, k, _, hd, hs, hcmp⟩ :=
    compile_after_prefix B g₁ _ l hg₁ hok (safeStart_comb g₂ _ c hg₂ hcomb) (by simp) h0
  have hlen : (g₁ ++ l.render ++ (g₂ ++ c :: (g₃ ++ c' :: rest))).length =
      (g₁ ++ l.render ++ (g₂ ++ c :: g₃)).length + (c' :: rest).length := by
    simp only [List.length_append, List.length_cons]; omega
  generalize g₁ ++ l.render ++ (g₂ ++ c :: (g₃ ++ c' :: rest)) = s at *
  obtain ⟨p, hp, _, hstep⟩ := step_comb_idx B s (k + 1) 0 st (c := c) (g₁ := g₂) (g₂ := g₃)
    (R := c' :: rest) hd hg₂ hg₃ hcomb hcng rfl hs
  have hpe : p = (g₁ ++ l.render ++ (g₂ ++ c :: g₃)).length := by
    have := pos_of_drop hp (by simp)
    omega
  rw [hcmp, hstep, loop_leading_comb B s k 0 _ (c := c') (g := []) (rest := rest) hp rfl hcomb' rfl rfl
    (by by_cases h : (c == 44) = true <;> simp [combStep, h]), hpe]

/-- The hypotheses on a pseudo-class name `:name` written as `58 :: renderIdentWith f`, followed by `r`. -/
structure BadPseudo (f : Forms) (r : Str) : Prop where
  ident : identOK f r
  /-- the name is not `:-…` written with a literal dash (`:--name` is the custom-selector token) -/
  nodash : (renderIdentWith f).head? ≠ some 45
  /-- what follows neither continues the identifier nor opens an argument list -/
  stop : ¬ continuesIdent r
  noparen : r.head? ≠ some 40
  /-- the lower-cased name is in neither table of argument-less pseudo-classes -/
  unknown₁ : inList Gen.lexicon.pseudoSimple (58 :: lower (valueOf f)) = false
  unknown₂ : inList Gen.lexicon.pseudoSimpleNoMatch (58 :: lower (valueOf f)) = false

/-- (3) `:name` for a name the library does not know (in any spelling and letter case), directly after a
    valid list text: the error is at the START of the pseudo-class token (the colon). -/
theorem offset_unknown_pseudo (g₁ r : Str) (f : Forms) (l : SSelList) (hg₁ : isGap g₁) (hb : BadPseudo f r)
    (hok : l.ok (58 :: (renderIdentWith f ++ r)))
    (h0 : ∀ x ∈ g₁ ++ l.render ++ (58 :: (renderIdentWith f ++ r)), x ≠ 0) :
    Parser.compile pyFoldEnv Gen.lexicon B (g₁ ++ l.render ++ (58 :: (renderIdentWith f ++ r))) [] 0 =
      .error ⟨pseudoErrKind (58 :: lower (valueOf f)), g₁ ++ l.render ++ (58 :: (renderIdentWith f ++ r)),
        (g₁ ++ l.render).length⟩ := by
  obtain ⟨st, k, hpos, hd, _, hcmp⟩ := compile_after_prefix B g₁ _ l hg₁ hok
    (safeStart_cons 58 _ (by decide)) (by simp) h0
  rw [hcmp, loop_unknown_pseudo B _ (k + 1) 0 st hd hb.nodash hb.ident.1 hb.ident.2.1 hb.stop hb.noparen
    hb.ident.2.2 hb.unknown₁ hb.unknown₂, hpos]

/-- (3′) The same at the start of the pattern. -/
theorem offset_unknown_pseudo_start (g₁ r : Str) (f : Forms) (hg₁ : isGap g₁) (hb : BadPseudo f r)
    (h0 : ∀ x ∈ g₁ ++ (58 :: (renderIdentWith f ++ r)), x ≠ 0) :
    Parser.compile pyFoldEnv Gen.lexicon B (g₁ ++ (58 :: (renderIdentWith f ++ r))) [] 0 =
      .error ⟨pseudoErrKind (58 :: lower (valueOf f)), g₁ ++ (58 :: (renderIdentWith f ++ r)), g₁.length⟩ := by
  rw [compile_at_start B g₁ _ hg₁ (by simp [noGapStart, isCssWs]) (by simp) h0,
    show 2 * (g₁ ++ 58 :: (renderIdentWith f ++ r)).length + 7 =
      (2 * (g₁ ++ 58 :: (renderIdentWith f ++ r)).length + 6) + 1 from rfl,
    loop_unknown_pseudo B _ _ 0 (initLS g₁.length 0 0 []) (forms := f) (r := r)
      (by show (g₁ ++ 58 :: (renderIdentWith f ++ r)).drop g₁.length = _; rw [List.drop_left' rfl])
      hb.nodash hb.ident.1 hb.ident.2.1 hb.stop hb.noparen hb.ident.2.2 hb.unknown₁ hb.unknown₂]
  rfl

/-- An at-rule directly after a valid list text: `NotImplementedError` (kind `atRule`), at the `@`. -/
theorem offset_at_rule (g₁ r : Str) (f : Forms) (l : SSelList) (hg₁ : isGap g₁) (hf : identOK f r)
    (hr : ¬ continuesIdent r) (hok : l.ok (64 :: (renderIdentWith f ++ r)))
    (h0 : ∀ x ∈ g₁ ++ l.render ++ (64 :: (renderIdentWith f ++ r)), x ≠ 0) :
    Parser.compile pyFoldEnv Gen.lexicon B (g₁ ++ l.render ++ (64 :: (renderIdentWith f ++ r))) [] 0 =
      .error ⟨.atRule, g₁ ++ l.render ++ (64 :: (renderIdentWith f ++ r)), (g₁ ++ l.render).length⟩ := by
  obtain ⟨st, k, hpos, hd, _, hcmp⟩ := compile_after_prefix B g₁ _ l hg₁ hok
    (safeStart_cons 64 _ (by decide)) (by simp) h0
  rw [hcmp, loop_at_rule B _ (k + 1) 0 st hd hf.1 hf.2.1 hr, hpos]

/-- An at-rule at the start of the pattern (`@media …`): `NotImplementedError`, at the `@`. -/
theorem offset_at_rule_start (g₁ r : Str) (f : Forms) (hg₁ : isGap g₁) (hf : identOK f r)
    (hr : ¬ continuesIdent r) (h0 : ∀ x ∈ g₁ ++ (64 :: (renderIdentWith f ++ r)), x ≠ 0) :
    Parser.compile pyFoldEnv Gen.lexicon B (g₁ ++ (64 :: (renderIdentWith f ++ r))) [] 0 =
      .error ⟨.atRule, g₁ ++ (64 :: (renderIdentWith f ++ r)), g₁.length⟩ := by
  rw [compile_at_start B g₁ _ hg₁ (by simp [noGapStart, isCssWs]) (by simp) h0,
    show 2 * (g₁ ++ 64 :: (renderIdentWith f ++ r)).length + 7 =
      (2 * (g₁ ++ 64 :: (renderIdentWith f ++ r)).length + 6) + 1 from rfl,
    loop_at_rule B _ _ 0 (initLS g₁.length 0 0 []) (forms := f) (r := r)
      (by show (g₁ ++ 64 :: (renderIdentWith f ++ r)).drop g₁.length = _; rw [List.drop_left' rfl])
      hf.1 hf.2.1 hr]
  rfl

/-! ### The same mistakes at the start of a NEW compound: after `T` and a combinator `cb`
    (`g c g'` with `c` one of `,` `+` `>` `~`, or a descendant gap).  The offset is `|g₁ T cb|`. -/

theorem noTokenStart_not_comb {c : Nat} (hc : noTokenStart c = true) : isComb c = false ∧ c ≠ 41 := by
  have := (noTokenStart_iff c).mp hc
  simp only [List.mem_cons, List.not_mem_nil, or_false] at this
  refine ⟨?_, by omega⟩
  simp only [isComb, Bool.or_eq_false_iff, beq_eq_false_iff_ne]
  omega

/-- (b″) `T cb c rest`, e.g. `a $` or `a > !`: "Invalid character" at the character (here also digits, `(`). -/
theorem offset_invalid_char_after_comb (g₁ rest : Str) (c : Nat) (l : SSelList) (cb : SComb) (hg₁ : isGap g₁)
    (hcb : cb.ok) (hc : noTokenStart c = true) (hok : l.ok (cb.render ++ c :: rest))
    (h0 : ∀ x ∈ g₁ ++ l.render ++ (cb.render ++ c :: rest), x ≠ 0) :
    Parser.compile pyFoldEnv Gen.lexicon B (g₁ ++ l.render ++ (cb.render ++ c :: rest)) [] 0 =
      .error ⟨.invalidCharacter, g₁ ++ l.render ++ (cb.render ++ c :: rest),
        (g₁ ++ l.render ++ cb.render).length⟩ := by
  obtain ⟨_, hws, h47, _⟩ := noTokenStart_facts hc
  obtain ⟨hnc, h41⟩ := noTokenStart_not_comb hc
  obtain ⟨st, k, hpos, hd, _, hcmp⟩ := compile_after_comb B g₁ (c :: rest) l cb hg₁ hcb hok
    (by simp [noGapStart, hws, h47]) (by simp) (by simpa using hnc) (by simpa using h41) h0
  rw [hcmp, loop_invalid_char B _ k 0 st hd hc, hpos]

/-- (3″) `T cb :name r`, e.g. `a :nosuch` or `a > :nosuch`: the error is at the colon. -/
theorem offset_unknown_pseudo_after_comb (g₁ r : Str) (f : Forms) (l : SSelList) (cb : SComb)
    (hg₁ : isGap g₁) (hcb : cb.ok) (hb : BadPseudo f r)
    (hok : l.ok (cb.render ++ 58 :: (renderIdentWith f ++ r)))
    (h0 : ∀ x ∈ g₁ ++ l.render ++ (cb.render ++ 58 :: (renderIdentWith f ++ r)), x ≠ 0) :
    Parser.compile pyFoldEnv Gen.lexicon B (g₁ ++ l.render ++ (cb.render ++ 58 :: (renderIdentWith f ++ r)))
        [] 0 =
      .error ⟨pseudoErrKind (58 :: lower (valueOf f)),
        g₁ ++ l.render ++ (cb.render ++ 58 :: (renderIdentWith f ++ r)),
        (g₁ ++ l.render ++ cb.render).length⟩ := by
  obtain ⟨st, k, hpos, hd, _, hcmp⟩ := compile_after_comb B g₁ _ l cb hg₁ hcb hok
    (by simp [noGapStart, isCssWs]) (by simp) (by simp [isComb]) (by simp) h0
  rw [hcmp, loop_unknown_pseudo B _ k 0 st hd hb.nodash hb.ident.1 hb.ident.2.1 hb.stop hb.noparen
    hb.ident.2.2 hb.unknown₁ hb.unknown₂, hpos]

/-- `T cb @ident r`, e.g. `a @x`: `NotImplementedError` at the `@`. -/
theorem offset_at_rule_after_comb (g₁ r : Str) (f : Forms) (l : SSelList) (cb : SComb)
    (hg₁ : isGap g₁) (hcb : cb.ok) (hf : identOK f r) (hr : ¬ continuesIdent r)
    (hok : l.ok (cb.render ++ 64 :: (renderIdentWith f ++ r)))
    (h0 : ∀ x ∈ g₁ ++ l.render ++ (cb.render ++ 64 :: (renderIdentWith f ++ r)), x ≠ 0) :
    Parser.compile pyFoldEnv Gen.lexicon B (g₁ ++ l.render ++ (cb.render ++ 64 :: (renderIdentWith f ++ r)))
        [] 0 =
      .error ⟨.atRule, g₁ ++ l.render ++ (cb.render ++ 64 :: (renderIdentWith f ++ r)),
        (g₁ ++ l.render ++ cb.render).length⟩ := by
  obtain ⟨st, k, hpos, hd, _, hcmp⟩ := compile_after_comb B g₁ _ l cb hg₁ hcb hok
    (by simp [noGapStart, isCssWs]) (by simp) (by simp [isComb]) (by simp) h0
  rw [hcmp, loop_at_rule B _ k 0 st hd hf.1 hf.2.1 hr, hpos]

end Offsets

/-! ## Part 3: line and column from the text -/

/-- An error positioned at the end of a prefix `a` of its pattern `a ++ b`: the diagnostic names the LAST
    line of `a` and the column one past the end of that line; the context is C20's block. -/
theorem diagnostic_after_prefix (k : ErrKind) (hk : positioned k = true) (a b : Str) (hcut : CleanCut a b) :
    diagnostic ⟨k, a ++ b, a.length⟩ =
      some (expectedContext (a ++ b) a.length, numLines a, a.length - lineStart a a.length + 1) := by
  have hi : a.length ≤ (a ++ b).length := by simp
  have h1 := C20.ctx_text (a ++ b) a.length hi
  have h2 := ctx_after_prefix a b hcut
  simp only [diagnostic, hk, if_true, Option.some.injEq]
  exact Prod.ext h1 h2

/-- … at the very end of its pattern: the last line of the pattern. -/
theorem diagnostic_at_end (k : ErrKind) (hk : positioned k = true) (p : Str) :
    diagnostic ⟨k, p, p.length⟩ =
      some (expectedContext p p.length, numLines p, p.length - lineStart p p.length + 1) := by
  simp only [diagnostic, hk, if_true, Option.some.injEq]
  exact (C20.ctx_end_offset p).1

/-- … at offset 0: line 1, column 1. -/
theorem diagnostic_at_zero (k : ErrKind) (hk : positioned k = true) (p : Str) :
    diagnostic ⟨k, p, 0⟩ = some (expectedContext p 0, 1, 1) := by
  simp only [diagnostic, hk, if_true, Option.some.injEq]
  exact Prod.ext (C20.ctx_text p 0 (Nat.zero_le _)) (ctx_at_zero p)

/-- … in a pattern without `\n` / `\r`: line 1, column offset + 1, context = the pattern, a newline,
    `offset` spaces, `^`. -/
theorem diagnostic_single_line (k : ErrKind) (hk : positioned k = true) (p : Str) (i : Nat)
    (h : ∀ c ∈ p, c ≠ 10 ∧ c ≠ 13) :
    diagnostic ⟨k, p, i⟩ = some (p ++ [10] ++ caretLine i, 1, i + 1) := by
  simp only [diagnostic, hk, if_true, Option.some.injEq]
  exact ctx_single_line p i h

section Diag
variable (B : Builtins)

/-- (a) with its diagnostic: line and column are those of the END of `g₁ ++ T`. -/
theorem diag_unmatched_close (g₁ g rest : Str) (l : SSelList) (hg₁ : isGap g₁) (hg : isGap g)
    (hok : l.ok (g ++ 41 :: rest)) (h0 : ∀ x ∈ g₁ ++ l.render ++ (g ++ 41 :: rest), x ≠ 0)
    (hcut : CleanCut (g₁ ++ l.render) (g ++ 41 :: rest)) :
    ∃ e, Parser.compile pyFoldEnv Gen.lexicon B (g₁ ++ l.render ++ (g ++ 41 :: rest)) [] 0 = .error e ∧
      e.kind = .unmatchedClose ∧
      diagnostic e = some (expectedContext (g₁ ++ l.render ++ (g ++ 41 :: rest)) (g₁ ++ l.render).length,
        numLines (g₁ ++ l.render),
        (g₁ ++ l.render).length - lineStart (g₁ ++ l.render) (g₁ ++ l.render).length + 1) :=
  ⟨_, offset_unmatched_close B g₁ g rest l hg₁ hg hok h0, rfl,
    diagnostic_after_prefix _ rfl _ _ hcut⟩

/-- (b) with its diagnostic (`CleanCut` holds by itself: the offending character is not `\n`). -/
theorem diag_invalid_char (g₁ rest : Str) (c : Nat) (l : SSelList) (hg₁ : isGap g₁)
    (hc : noTokenStart c = true) (hid : identContChar c = false) (h40 : c ≠ 40)
    (hok : l.ok (c :: rest)) (h0 : ∀ x ∈ g₁ ++ l.render ++ (c :: rest), x ≠ 0) :
    ∃ e, Parser.compile pyFoldEnv Gen.lexicon B (g₁ ++ l.render ++ (c :: rest)) [] 0 = .error e ∧
      e.kind = .invalidCharacter ∧
      diagnostic e = some (expectedContext (g₁ ++ l.render ++ (c :: rest)) (g₁ ++ l.render).length,
        numLines (g₁ ++ l.render),
        (g₁ ++ l.render).length - lineStart (g₁ ++ l.render) (g₁ ++ l.render).length + 1) := by
  refine ⟨_, offset_invalid_char B g₁ rest c l hg₁ hc hid h40 hok h0, rfl,
    diagnostic_after_prefix _ rfl _ _ (cleanCut_of_head ?_)⟩
  have := (noTokenStart_facts hc).2.1
  simp only [List.head?_cons, ne_eq, Option.some.injEq]
  intro h; subst h; simp [isCssWs] at this

/-- (c) with its diagnostic: the last line of the whole text, one column past its end. -/
theorem diag_dangling_comb (g₁ g₂ g₃ : Str) (c : Nat) (l : SSelList) (hg₁ : isGap g₁) (hg₂ : isGap g₂)
    (hg₃ : isGap g₃) (hcomb : isComb c = true) (hok : l.ok (g₂ ++ c :: g₃))
    (h0 : ∀ x ∈ g₁ ++ l.render ++ (g₂ ++ c :: g₃), x ≠ 0) :
    ∃ e, Parser.compile pyFoldEnv Gen.lexicon B (g₁ ++ l.render ++ (g₂ ++ c :: g₃)) [] 0 = .error e ∧
      e.kind = .expectedSelector ∧
      diagnostic e = some (expectedContext (g₁ ++ l.render ++ (g₂ ++ c :: g₃))
          (g₁ ++ l.render ++ (g₂ ++ c :: g₃)).length,
        numLines (g₁ ++ l.render ++ (g₂ ++ c :: g₃)),
        (g₁ ++ l.render ++ (g₂ ++ c :: g₃)).length -
          lineStart (g₁ ++ l.render ++ (g₂ ++ c :: g₃)) (g₁ ++ l.render ++ (g₂ ++ c :: g₃)).length + 1) :=
  ⟨_, offset_dangling_comb B g₁ g₂ g₃ c l hg₁ hg₂ hg₃ hcomb hok h0, rfl, diagnostic_at_end _ rfl _⟩

/-- (d) with its diagnostic: line 1, column 1, whatever the leading gap contains. -/
theorem diag_leading_comb (g₁ rest : Str) (c : Nat) (hg₁ : isGap g₁) (hcomb : isComb c = true)
    (h0 : ∀ x ∈ g₁ ++ (c :: rest), x ≠ 0) :
    ∃ e, Parser.compile pyFoldEnv Gen.lexicon B (g₁ ++ (c :: rest)) [] 0 = .error e ∧
      e.kind = .combinatorNeedsSelector ∧
      diagnostic e = some (expectedContext (g₁ ++ (c :: rest)) 0, 1, 1) :=
  ⟨_, offset_leading_comb B g₁ rest c hg₁ hcomb h0, rfl, diagnostic_at_zero _ rfl _⟩

theorem positioned_pseudoErrKind (n : Str) : positioned (pseudoErrKind n) = true := by
  unfold pseudoErrKind; split <;> rfl

/-- (3) with its diagnostic (`CleanCut` holds by itself: the token starts with `:`). -/
theorem diag_unknown_pseudo (g₁ r : Str) (f : Forms) (l : SSelList) (hg₁ : isGap g₁) (hb : BadPseudo f r)
    (hok : l.ok (58 :: (renderIdentWith f ++ r)))
    (h0 : ∀ x ∈ g₁ ++ l.render ++ (58 :: (renderIdentWith f ++ r)), x ≠ 0) :
    ∃ e, Parser.compile pyFoldEnv Gen.lexicon B (g₁ ++ l.render ++ (58 :: (renderIdentWith f ++ r))) [] 0 =
        .error e ∧
      e.kind = pseudoErrKind (58 :: lower (valueOf f)) ∧
      diagnostic e = some (expectedContext (g₁ ++ l.render ++ (58 :: (renderIdentWith f ++ r)))
          (g₁ ++ l.render).length,
        numLines (g₁ ++ l.render),
        (g₁ ++ l.render).length - lineStart (g₁ ++ l.render) (g₁ ++ l.render).length + 1) :=
  ⟨_, offset_unknown_pseudo B g₁ r f l hg₁ hb hok h0, rfl,
    diagnostic_after_prefix _ (positioned_pseudoErrKind _) _ _ (cleanCut_of_head (by simp))⟩

/-- An at-rule gets no diagnostic (`NotImplementedError` has no line / column / context). -/
theorem diag_at_rule_start (g₁ r : Str) (f : Forms) (hg₁ : isGap g₁) (hf : identOK f r)
    (hr : ¬ continuesIdent r) (h0 : ∀ x ∈ g₁ ++ (64 :: (renderIdentWith f ++ r)), x ≠ 0) :
    ∃ e, Parser.compile pyFoldEnv Gen.lexicon B (g₁ ++ (64 :: (renderIdentWith f ++ r))) [] 0 = .error e ∧
      e.kind = .atRule ∧ diagnostic e = none :=
  ⟨_, offset_at_rule_start B g₁ r f hg₁ hf hr h0, rfl, rfl⟩

end Diag

/-! ## Non-vacuity: concrete instances (each compared with the real library) -/

/-- `div.x` -/
def exT : SSelList := .mk (.mk (some (.name [(100, .lit), (105, .lit), (118, .lit)])) [.cls [(120, .lit)]]) []

example : exT.render = "div.x".toStr := by decide

/-- `exT.ok r` for a concrete continuation `r`. -/
macro "ex_ok" : tactic => `(tactic| (
  simp only [exT, SSelList.ok, SCompound.ok, restOK, itemsOK, SItem.ok, STag.ok, SComb.ok, identOK,
    renderRest, renderItems, SComb.render, SCompound.render, SItem.render]
  decide))

/-- `div.x )` : Python reports line 1, column 6 (offset 5), "Unmatched pseudo-class close at position 5". -/
example : Parser.compile pyFoldEnv Gen.lexicon Gen.builtinsRec "div.x )".toStr [] 0 =
    .error ⟨.unmatchedClose, "div.x )".toStr, 5⟩ :=
  offset_unmatched_close Gen.builtinsRec [] [32] [] exT (by decide) (by decide) (by ex_ok) (by decide)

/-- `div.x!` : "Invalid character '!' position 5". -/
example : Parser.compile pyFoldEnv Gen.lexicon Gen.builtinsRec "div.x!".toStr [] 0 =
    .error ⟨.invalidCharacter, "div.x!".toStr, 5⟩ :=
  offset_invalid_char Gen.builtinsRec [] [] 33 exT (by decide) ((noTokenStart_iff 33).mpr (by decide))
    (by decide) (by decide) (by ex_ok) (by decide)

/-- `div.x\n>` + space : "Expected a selector at position 8", line 2, column 3. -/
example : Parser.compile pyFoldEnv Gen.lexicon Gen.builtinsRec "div.x\n> ".toStr [] 0 =
    .error ⟨.expectedSelector, "div.x\n> ".toStr, 8⟩ :=
  offset_dangling_comb Gen.builtinsRec [] [10] [32] 62 exT (by decide) (by decide) (by decide) (by decide)
    (by ex_ok) (by decide)

/-- ` > div` : "The combinator '>' at position 0, must have a selector before it", line 1, column 1. -/
example : Parser.compile pyFoldEnv Gen.lexicon Gen.builtinsRec " > div".toStr [] 0 =
    .error ⟨.combinatorNeedsSelector, " > div".toStr, 0⟩ :=
  offset_leading_comb Gen.builtinsRec [32] " div".toStr 62 (by decide) (by decide) (by decide)

/-- `div.x > ~ p` : "The combinator '~' at position 8, must have a selector before it". -/
example : Parser.compile pyFoldEnv Gen.lexicon Gen.builtinsRec "div.x > ~ p".toStr [] 0 =
    .error ⟨.combinatorNeedsSelector, "div.x > ~ p".toStr, 8⟩ :=
  offset_double_comb Gen.builtinsRec [] [32] [32] " p".toStr 62 126 exT (by decide) (by decide) (by decide)
    (by decide) (by decide) (by ex_ok) (by decide)

/-- `div.x:NoSuch` : "':nosuch' was detected as a pseudo-class …", line 1, column 6. -/
example : Parser.compile pyFoldEnv Gen.lexicon Gen.builtinsRec "div.x:NoSuch".toStr [] 0 =
    .error ⟨.unknownPseudo, "div.x:NoSuch".toStr, 5⟩ :=
  offset_unknown_pseudo Gen.builtinsRec [] [] ("NoSuch".toStr.map fun c => (c, .lit)) exT (by decide)
    ⟨⟨by decide, by decide, by decide⟩, by decide, by decide, by decide, by decide, by decide⟩
    (by ex_ok) (by decide)

/-- `div.x:not` (no parenthesis): "Invalid syntax for pseudo class ':not'", same position. -/
example : Parser.compile pyFoldEnv Gen.lexicon Gen.builtinsRec "div.x:not".toStr [] 0 =
    .error ⟨.invalidPseudoSyntax, "div.x:not".toStr, 5⟩ :=
  offset_unknown_pseudo Gen.builtinsRec [] [] ("not".toStr.map fun c => (c, .lit)) exT (by decide)
    ⟨⟨by decide, by decide, by decide⟩, by decide, by decide, by decide, by decide, by decide⟩
    (by ex_ok) (by decide)

/-- `div.x $` : "Invalid character '$' position 6" (after the descendant combinator). -/
example : Parser.compile pyFoldEnv Gen.lexicon Gen.builtinsRec "div.x $".toStr [] 0 =
    .error ⟨.invalidCharacter, "div.x $".toStr, 6⟩ :=
  offset_invalid_char_after_comb Gen.builtinsRec [] [] 36 exT (.desc [32]) (by decide)
    (DescGap.ws 32 [] (by decide) (by decide)) ((noTokenStart_iff 36).mpr (by decide)) (by ex_ok) (by decide)

/-- `div.x >\n:nosuch` : unknown pseudo-class at offset 8 = line 2, column 1. -/
example : Parser.compile pyFoldEnv Gen.lexicon Gen.builtinsRec "div.x >\n:nosuch".toStr [] 0 =
    .error ⟨.unknownPseudo, "div.x >\n:nosuch".toStr, 8⟩ :=
  offset_unknown_pseudo_after_comb Gen.builtinsRec [] [] ("nosuch".toStr.map fun c => (c, .lit)) exT
    (.sym [32] 62 [10]) (by decide) ⟨by decide, by decide, by decide⟩
    ⟨⟨by decide, by decide, by decide⟩, by decide, by decide, by decide, by decide, by decide⟩
    (by ex_ok) (by decide)

/-- `@media` : NotImplementedError "At-rules found at position 0". -/
example : Parser.compile pyFoldEnv Gen.lexicon Gen.builtinsRec "@media".toStr [] 0 =
    .error ⟨.atRule, "@media".toStr, 0⟩ :=
  offset_at_rule_start Gen.builtinsRec [] [] ("media".toStr.map fun c => (c, .lit)) (by decide)
    ⟨by decide, by decide, by decide⟩ (by decide) (by decide)

/-- The diagnostic of `div.x\n> ` (dangling combinator on the second line): line 2, column 3, the caret
    under column 3 of the marked line. -/
example : diagnostic ⟨.expectedSelector, "div.x\n> ".toStr, 8⟩ =
    some ("    div.x\n--> > \n      ^".toStr, 2, 3) := by decide +kernel

end C20Parse
end SoupVerif

#print axioms SoupVerif.C20Parse.diagnostic_of_error
#print axioms SoupVerif.C20Parse.diagnostic_of_error_nocustom
#print axioms SoupVerif.C20Parse.error_classes
#print axioms SoupVerif.C20Parse.offset_unmatched_close
#print axioms SoupVerif.C20Parse.offset_invalid_char
#print axioms SoupVerif.C20Parse.offset_invalid_char_start
#print axioms SoupVerif.C20Parse.offset_dangling_comb
#print axioms SoupVerif.C20Parse.offset_leading_comb
#print axioms SoupVerif.C20Parse.offset_double_comb
#print axioms SoupVerif.C20Parse.offset_unknown_pseudo
#print axioms SoupVerif.C20Parse.offset_unknown_pseudo_start
#print axioms SoupVerif.C20Parse.offset_at_rule
#print axioms SoupVerif.C20Parse.offset_at_rule_start
#print axioms SoupVerif.C20Parse.offset_invalid_char_after_comb
#print axioms SoupVerif.C20Parse.offset_unknown_pseudo_after_comb
#print axioms SoupVerif.C20Parse.offset_at_rule_after_comb
#print axioms SoupVerif.C20Parse.diag_unmatched_close
#print axioms SoupVerif.C20Parse.diag_invalid_char
#print axioms SoupVerif.C20Parse.diag_dangling_comb
#print axioms SoupVerif.C20Parse.diag_leading_comb
#print axioms SoupVerif.C20Parse.diag_unknown_pseudo
#print axioms SoupVerif.C20Parse.diag_at_rule_start
