/-
  C01 (attribute part)  The compiled value patterns of attribute selectors mean what
  Selectors-4 §6.1/§6.2/§6.3 says.

  Model : `Parser.attrPattern` (the regular expression `parse_attribute_selector` compiles, as an
          `Rx`), `Rx.isMatch` (Model/Regex.lean).
  Spec  : `Css.valTest` and its parts (Spec/CssValue.lean) — plain string functions.

  * `attrPattern_sem` : for every operator, value, case flag and subject string,
        `re.match(pattern, subject) is not None` equals the specification's value test.
    Without IGNORECASE this holds in every character environment; with IGNORECASE in every
    environment whose simple case folding is ASCII lower-casing (`asciiEnv` in particular).
  * `tmpl_*` : the same, operator by operator (`_gen`: both case rules at once; plain: exact;
    `_ic`: ASCII-case-insensitive), with an arbitrary `hasWs` argument where it plays no role.
  * `hasWord_iff` : the executable word test `Css.hasWord` is its declarative reading
    `Css.IsWordOf`.
-/
import SoupVerif.Lemmas.AttrTemplates
namespace SoupVerif
namespace C01Attr
open Rx AttrTemplates

/-! ### Shapes of the compiled pattern, by operator -/

abbrev dotStar : Rx := .rep 0 none true (.any true)
abbrev lazyDot : Rx := .rep 0 none false (.any true)
abbrev leftAlt (ic : Bool) : Rx := .alt [.look false false .bos, .look false false (Parser.wsSet ic)]
abbrev rightLook (ic : Bool) : Rx := .look true false (.alt [Parser.wsSet ic, .eos])
abbrev dashOpt (ic : Bool) : Rx := .rep 0 (some 1) true (.seq [.lit 45 ic, dotStar])

theorem mkSeq_snoc (a : Rx) (l m : List Rx) (hm : m ≠ []) :
    Parser.mkSeq ([a] ++ l ++ m) = .seq (a :: (l ++ m)) := by
  cases l with
  | nil =>
    cases m with
    | nil => exact absurd rfl hm
    | cons b m => rfl
  | cons b l => rfl

theorem isEmpty_false {v : Str} (hv : v ≠ []) : v.isEmpty = false := by
  cases v with
  | nil => exact absurd rfl hv
  | cons _ _ => rfl

/-- `=` (and any operator text not starting with one of `^ $ * ~ |`): `^v\Z`. -/
theorem shape_eq (op v : Str) (ic w : Bool) (h94 : op.head?.getD 61 ≠ 94) (h36 : op.head?.getD 61 ≠ 36)
    (h42 : op.head?.getD 61 ≠ 42) (h126 : op.head?.getD 61 ≠ 126) (h124 : op.head?.getD 61 ≠ 124) :
    Parser.attrPattern op v ic w = .seq (.bos :: (Parser.lits v ic ++ [.eos])) := by
  unfold Parser.attrPattern
  have e94 : (op.head?.getD 61 == 94) = false := by simpa using h94
  have e36 : (op.head?.getD 61 == 36) = false := by simpa using h36
  have e42 : (op.head?.getD 61 == 42) = false := by simpa using h42
  have e126 : (op.head?.getD 61 == 126) = false := by simpa using h126
  have e124 : (op.head?.getD 61 == 124) = false := by simpa using h124
  simp only [e94, e36, e42, e126, e124, Bool.or_self, Bool.false_and, Bool.false_eq_true, if_false]
  exact mkSeq_snoc _ _ _ (List.cons_ne_nil _ _)

theorem shape_eq1 (v : Str) (ic w : Bool) :
    Parser.attrPattern [61] v ic w = .seq (.bos :: (Parser.lits v ic ++ [.eos])) :=
  shape_eq _ v ic w (by decide) (by decide) (by decide) (by decide) (by decide)

theorem shape_ne (v : Str) (ic w : Bool) :
    Parser.attrPattern [33, 61] v ic w = .seq (.bos :: (Parser.lits v ic ++ [.eos])) :=
  shape_eq _ v ic w (by decide) (by decide) (by decide) (by decide) (by decide)

/-- `^=`, `$=`, `*=` with an empty value: `[^\s\S]`. -/
theorem shape_empty (c0 : Nat) (rest : Str) (ic w : Bool) (h : c0 = 94 ∨ c0 = 36 ∨ c0 = 42) :
    Parser.attrPattern (c0 :: rest) [] ic w = Parser.noMatchSet ic := by
  unfold Parser.attrPattern
  rcases h with rfl | rfl | rfl <;> simp

/-- `^=`: `^v.*`. -/
theorem shape_pre (rest v : Str) (ic w : Bool) (hv : v ≠ []) :
    Parser.attrPattern (94 :: rest) v ic w = .seq (.bos :: (Parser.lits v ic ++ [dotStar])) := by
  unfold Parser.attrPattern
  simp only [List.head?_cons, Option.getD_some, isEmpty_false hv, Bool.and_false, beq_self_eq_true,
    Bool.false_eq_true, if_false, if_true]
  exact mkSeq_snoc _ _ _ (List.cons_ne_nil _ _)

/-- `$=`: `.*?v\Z`. -/
theorem shape_suf (rest v : Str) (ic w : Bool) (hv : v ≠ []) :
    Parser.attrPattern (36 :: rest) v ic w = .seq (lazyDot :: (Parser.lits v ic ++ [.eos])) := by
  unfold Parser.attrPattern
  have h1 : ((36 : Nat) == 94) = false := by decide
  simp only [List.head?_cons, Option.getD_some, isEmpty_false hv, Bool.and_false, beq_self_eq_true,
    Bool.false_eq_true, if_false, if_true, h1]
  exact mkSeq_snoc _ _ _ (List.cons_ne_nil _ _)

/-- `*=`: `.*?v.*`. -/
theorem shape_sub (rest v : Str) (ic w : Bool) (hv : v ≠ []) :
    Parser.attrPattern (42 :: rest) v ic w = .seq (lazyDot :: (Parser.lits v ic ++ [dotStar])) := by
  unfold Parser.attrPattern
  have h1 : ((42 : Nat) == 94) = false := by decide
  have h2 : ((42 : Nat) == 36) = false := by decide
  simp only [List.head?_cons, Option.getD_some, isEmpty_false hv, Bool.and_false, beq_self_eq_true,
    Bool.false_eq_true, if_false, if_true, h1, h2]
  exact mkSeq_snoc _ _ _ (List.cons_ne_nil _ _)

/-- `|=`: `^v(?:-.*)?\Z`. -/
theorem shape_dash (rest v : Str) (ic w : Bool) :
    Parser.attrPattern (124 :: rest) v ic w =
      .seq (.bos :: (Parser.lits v ic ++ [dashOpt ic, .eos])) := by
  unfold Parser.attrPattern
  have h1 : ((124 : Nat) == 94) = false := by decide
  have h2 : ((124 : Nat) == 36) = false := by decide
  have h3 : ((124 : Nat) == 42) = false := by decide
  have h4 : ((124 : Nat) == 126) = false := by decide
  simp only [List.head?_cons, Option.getD_some, beq_self_eq_true, Bool.or_self, Bool.false_and,
    Bool.false_eq_true, if_false, if_true, h1, h2, h3, h4]
  exact mkSeq_snoc _ _ _ (List.cons_ne_nil _ _)

/-- `~=` with a usable value: `.*?(?:(?<=^)|(?<=[ \t\r\n\f]))v(?=(?:[ \t\r\n\f]|$)).*`. -/
theorem shape_word (rest v : Str) (ic : Bool) (hv : v ≠ []) :
    Parser.attrPattern (126 :: rest) v ic false =
      .seq (lazyDot :: leftAlt ic :: (Parser.lits v ic ++ [rightLook ic, dotStar])) := by
  unfold Parser.attrPattern
  have h1 : ((126 : Nat) == 94) = false := by decide
  have h2 : ((126 : Nat) == 36) = false := by decide
  have h3 : ((126 : Nat) == 42) = false := by decide
  simp only [List.head?_cons, Option.getD_some, beq_self_eq_true, Bool.or_self, Bool.false_and,
    Bool.false_eq_true, if_false, if_true, h1, h2, h3, isEmpty_false hv]
  rfl

/-- `~=` with an empty value or a value containing white space: `[^\s\S]` in place of the value. -/
theorem shape_word_none (rest v : Str) (ic w : Bool) (h : v = [] ∨ w = true) :
    Parser.attrPattern (126 :: rest) v ic w =
      .seq [lazyDot, leftAlt ic, Parser.noMatchSet ic, rightLook ic, dotStar] := by
  unfold Parser.attrPattern
  have h1 : ((126 : Nat) == 94) = false := by decide
  have h2 : ((126 : Nat) == 36) = false := by decide
  have h3 : ((126 : Nat) == 42) = false := by decide
  have h4 : (v.isEmpty || w) = true := by
    rcases h with rfl | rfl
    · rfl
    · simp
  simp only [List.head?_cons, Option.getD_some, beq_self_eq_true, Bool.or_self, Bool.false_and,
    Bool.false_eq_true, if_false, if_true, h1, h2, h3, h4]
  rfl

/-! ### The templates, both case rules at once

`hfold : ic = true → env.fold = lowerCp` : nothing is assumed about the environment when the
pattern has no IGNORECASE. -/

/-- `^v\Z` : equality. -/
theorem seq_eq (env : CharEnv) (ic : Bool) (hfold : ic = true → env.fold = lowerCp) (v s : Str) :
    Rx.isMatch env (.seq (.bos :: (Parser.lits v ic ++ [.eos]))) s =
      (Css.foldCase ic s == Css.foldCase ic v) := by
  rw [C11.bos_noop]
  exact (C11.lits_match env ic v s).trans (litsEq_fold env ic hfold v s)

/-- `^v.*` : prefix. -/
theorem seq_pre (env : CharEnv) (ic : Bool) (hfold : ic = true → env.fold = lowerCp) (v s : Str) :
    Rx.isMatch env (.seq (.bos :: (Parser.lits v ic ++ [dotStar]))) s =
      (Css.foldCase ic v).isPrefixOf (Css.foldCase ic s) := by
  apply Bool.eq_iff_iff.mpr
  rw [isMatch_seq_iff, bos_seq, lits_seq env ic hfold, occursAt_zero]
  exact ⟨fun h => h.1, fun h => ⟨h, seq_dotStar_last _ _ _ _ _⟩⟩

/-- `.*?v\Z` : suffix. -/
theorem seq_suf (env : CharEnv) (ic : Bool) (hfold : ic = true → env.fold = lowerCp) (v s : Str) :
    Rx.isMatch env (.seq (lazyDot :: (Parser.lits v ic ++ [.eos]))) s =
      (Css.foldCase ic v).isSuffixOf (Css.foldCase ic s) := by
  apply Bool.eq_iff_iff.mpr
  rw [isMatch_seq_iff, dotStar_seq env s false _ 0 [] (Nat.zero_le _), ← exists_occursAt_end_iff]
  simp only [lits_seq env ic hfold, runsSeq_eos, foldCase_length]
  constructor
  · rintro ⟨j, _, h1, h2, h3⟩; exact ⟨j, h1, h2, h3⟩
  · rintro ⟨j, h1, h2, h3⟩; exact ⟨j, Nat.zero_le _, h1, h2, h3⟩

/-- `.*?v.*` : substring. -/
theorem seq_sub (env : CharEnv) (ic : Bool) (hfold : ic = true → env.fold = lowerCp) (v s : Str) :
    Rx.isMatch env (.seq (lazyDot :: (Parser.lits v ic ++ [dotStar]))) s =
      isInfix (Css.foldCase ic v) (Css.foldCase ic s) := by
  apply Bool.eq_iff_iff.mpr
  rw [isMatch_seq_iff, dotStar_seq env s false _ 0 [] (Nat.zero_le _), isInfix_iff]
  simp only [lits_seq env ic hfold, foldCase_length]
  constructor
  · rintro ⟨j, _, h1, h2, _⟩; exact ⟨j, h1, h2⟩
  · rintro ⟨j, h1, h2⟩; exact ⟨j, Nat.zero_le _, h1, h2, seq_dotStar_last _ _ _ _ _⟩

theorem fc_45 (ic : Bool) : fc ic 45 = 45 := by cases ic <;> rfl

/-- `^v(?:-.*)?\Z` : equal, or continued by a hyphen. -/
theorem seq_dash (env : CharEnv) (ic : Bool) (hfold : ic = true → env.fold = lowerCp) (v s : Str) :
    Rx.isMatch env (.seq (.bos :: (Parser.lits v ic ++ [dashOpt ic, .eos]))) s =
      (Css.foldCase ic s == Css.foldCase ic v ||
        (Css.foldCase ic v ++ [45]).isPrefixOf (Css.foldCase ic s)) := by
  apply Bool.eq_iff_iff.mpr
  rw [isMatch_seq_iff, bos_seq, lits_seq env ic hfold, Bool.or_eq_true, ← dash_iff]
  constructor
  · rintro ⟨ho, ht⟩
    have hl := occursAt_length (Nat.zero_le _) ho
    rw [foldCase_length, foldCase_length] at hl
    rw [dash_tail env ic s _ [] hl] at ht
    refine ⟨ho, ?_⟩
    rw [foldCase_length, foldCase_length, foldCase_getElem?]
    rcases ht with h | ⟨x, hx, hc⟩
    · exact Or.inl h
    · right
      rw [chEq_eq env ic hfold, fc_45, beq_iff_eq] at hc
      rw [hx, Option.map_some, hc]
  · rintro ⟨ho, ht⟩
    have hl := occursAt_length (Nat.zero_le _) ho
    rw [foldCase_length, foldCase_length] at hl
    refine ⟨ho, ?_⟩
    rw [dash_tail env ic s _ [] hl]
    rw [foldCase_length, foldCase_length, foldCase_getElem?] at ht
    rcases ht with h | h
    · exact Or.inl h
    · right
      cases hs : s[0 + v.length]? with
      | none => rw [hs] at h; cases h
      | some x =>
        rw [hs, Option.map_some, Option.some.injEq] at h
        exact ⟨x, rfl, by rw [chEq_eq env ic hfold, fc_45, h, beq_self_eq_true]⟩

/-- The `~=` pattern: one of the white-space separated words. -/
theorem seq_word (env : CharEnv) (ic : Bool) (hfold : ic = true → env.fold = lowerCp) (v s : Str) :
    Rx.isMatch env (.seq (lazyDot :: leftAlt ic :: (Parser.lits v ic ++ [rightLook ic, dotStar]))) s =
      Css.hasWord (Css.foldCase ic v) (Css.foldCase ic s) := by
  apply Bool.eq_iff_iff.mpr
  rw [isMatch_seq_iff, dotStar_seq env s false _ 0 [] (Nat.zero_le _), hasWord_iff_wordAt]
  simp only [left_seq env ic hfold, lits_seq env ic hfold, right_seq env ic hfold, wordAt_foldCase,
    foldCase_length, Bool.and_eq_true]
  constructor
  · rintro ⟨j, _, h1, h2, h3, h4, _⟩; exact ⟨j, h1, ⟨h2, h3⟩, h4⟩
  · rintro ⟨j, h1, ⟨h2, h3⟩, h4⟩; exact ⟨j, Nat.zero_le _, h1, h2, h3, h4, seq_dotStar_last _ _ _ _ _⟩

/-- The `~=` pattern with the never-matching class in the value position. -/
theorem seq_word_none (env : CharEnv) (ic : Bool) (s : Str) :
    Rx.isMatch env (.seq [lazyDot, leftAlt ic, Parser.noMatchSet ic, rightLook ic, dotStar]) s = false := by
  apply isMatch_of_runs_nil
  rw [runs]
  apply runsSeq_cons_nil
  intro j c
  apply runsSeq_cons_nil
  intro j' c'
  exact runsSeq_noMatch ..

/-! ### Operator by operator -/

/-- The class `[^\s\S]` has no member, in any environment. -/
theorem noMatch_class_empty (env : CharEnv) (ic : Bool) (c : Nat) :
    Rx.setHas env true [.cat .space, .cat .notSpace] ic c = false := setHas_none env ic c

/-- The class `[ \t\r\n\f]` is CSS white space, with or without IGNORECASE. -/
theorem ws_class (env : CharEnv) (ic : Bool) (hfold : ic = true → env.fold = lowerCp) (c : Nat) :
    Rx.setHas env false [.ch 32, .ch 9, .ch 13, .ch 10, .ch 12] ic c = isCssWs c :=
  setHas_ws env ic hfold c

theorem tmpl_eq_gen (env : CharEnv) (ic : Bool) (hfold : ic = true → env.fold = lowerCp)
    (v s : Str) (w : Bool) :
    Rx.isMatch env (Parser.attrPattern [61] v ic w) s = (Css.foldCase ic s == Css.foldCase ic v) := by
  rw [shape_eq1, seq_eq env ic hfold]

theorem tmpl_ne_gen (env : CharEnv) (ic : Bool) (hfold : ic = true → env.fold = lowerCp)
    (v s : Str) (w : Bool) :
    Rx.isMatch env (Parser.attrPattern [33, 61] v ic w) s = (Css.foldCase ic s == Css.foldCase ic v) := by
  rw [shape_ne, seq_eq env ic hfold]

/-- `[a=v]` : the value is exactly `v` (every character environment). -/
theorem tmpl_eq (env : CharEnv) (v s : Str) (w : Bool) :
    Rx.isMatch env (Parser.attrPattern [61] v false w) s = (s == v) :=
  tmpl_eq_gen env false (fun h => nomatch h) v s w

/-- `[a!=v]` compiles the same test (negated one level up). -/
theorem tmpl_ne (env : CharEnv) (v s : Str) (w : Bool) :
    Rx.isMatch env (Parser.attrPattern [33, 61] v false w) s = (s == v) :=
  tmpl_ne_gen env false (fun h => nomatch h) v s w

/-- `[a=v i]` : equal up to ASCII case. -/
theorem tmpl_eq_ic (env : CharEnv) (hfold : env.fold = lowerCp) (v s : Str) (w : Bool) :
    Rx.isMatch env (Parser.attrPattern [61] v true w) s = (lower s == lower v) :=
  tmpl_eq_gen env true (fun _ => hfold) v s w

theorem tmpl_ne_ic (env : CharEnv) (hfold : env.fold = lowerCp) (v s : Str) (w : Bool) :
    Rx.isMatch env (Parser.attrPattern [33, 61] v true w) s = (lower s == lower v) :=
  tmpl_ne_gen env true (fun _ => hfold) v s w

/-- `[a^=""]`, `[a$=""]`, `[a*=""]` match nothing (every environment, either case rule). -/
theorem tmpl_empty (env : CharEnv) (c0 : Nat) (rest : Str) (ic w : Bool) (s : Str)
    (h : c0 = 94 ∨ c0 = 36 ∨ c0 = 42) :
    Rx.isMatch env (Parser.attrPattern (c0 :: rest) [] ic w) s = false := by
  rw [shape_empty c0 rest ic w h]
  exact isMatch_of_runs_nil env _ s (runs_noMatchSet ..)

theorem tmpl_pre_gen (env : CharEnv) (ic : Bool) (hfold : ic = true → env.fold = lowerCp)
    (v s : Str) (w : Bool) (hv : v ≠ []) :
    Rx.isMatch env (Parser.attrPattern [94, 61] v ic w) s =
      (Css.foldCase ic v).isPrefixOf (Css.foldCase ic s) := by
  rw [shape_pre _ v ic w hv, seq_pre env ic hfold]

theorem tmpl_suf_gen (env : CharEnv) (ic : Bool) (hfold : ic = true → env.fold = lowerCp)
    (v s : Str) (w : Bool) (hv : v ≠ []) :
    Rx.isMatch env (Parser.attrPattern [36, 61] v ic w) s =
      (Css.foldCase ic v).isSuffixOf (Css.foldCase ic s) := by
  rw [shape_suf _ v ic w hv, seq_suf env ic hfold]

theorem tmpl_sub_gen (env : CharEnv) (ic : Bool) (hfold : ic = true → env.fold = lowerCp)
    (v s : Str) (w : Bool) (hv : v ≠ []) :
    Rx.isMatch env (Parser.attrPattern [42, 61] v ic w) s =
      isInfix (Css.foldCase ic v) (Css.foldCase ic s) := by
  rw [shape_sub _ v ic w hv, seq_sub env ic hfold]

/-- `[a^=v]` : begins with `v`. -/
theorem tmpl_pre (env : CharEnv) (v s : Str) (w : Bool) (hv : v ≠ []) :
    Rx.isMatch env (Parser.attrPattern [94, 61] v false w) s = v.isPrefixOf s :=
  tmpl_pre_gen env false (fun h => nomatch h) v s w hv

theorem tmpl_pre_ic (env : CharEnv) (hfold : env.fold = lowerCp) (v s : Str) (w : Bool) (hv : v ≠ []) :
    Rx.isMatch env (Parser.attrPattern [94, 61] v true w) s = (lower v).isPrefixOf (lower s) :=
  tmpl_pre_gen env true (fun _ => hfold) v s w hv

/-- `[a$=v]` : ends with `v`. -/
theorem tmpl_suf (env : CharEnv) (v s : Str) (w : Bool) (hv : v ≠ []) :
    Rx.isMatch env (Parser.attrPattern [36, 61] v false w) s = v.isSuffixOf s :=
  tmpl_suf_gen env false (fun h => nomatch h) v s w hv

theorem tmpl_suf_ic (env : CharEnv) (hfold : env.fold = lowerCp) (v s : Str) (w : Bool) (hv : v ≠ []) :
    Rx.isMatch env (Parser.attrPattern [36, 61] v true w) s = (lower v).isSuffixOf (lower s) :=
  tmpl_suf_gen env true (fun _ => hfold) v s w hv

/-- `[a*=v]` : contains `v`. -/
theorem tmpl_sub (env : CharEnv) (v s : Str) (w : Bool) (hv : v ≠ []) :
    Rx.isMatch env (Parser.attrPattern [42, 61] v false w) s = isInfix v s :=
  tmpl_sub_gen env false (fun h => nomatch h) v s w hv

theorem tmpl_sub_ic (env : CharEnv) (hfold : env.fold = lowerCp) (v s : Str) (w : Bool) (hv : v ≠ []) :
    Rx.isMatch env (Parser.attrPattern [42, 61] v true w) s = isInfix (lower v) (lower s) :=
  tmpl_sub_gen env true (fun _ => hfold) v s w hv

theorem tmpl_dash_gen (env : CharEnv) (ic : Bool) (hfold : ic = true → env.fold = lowerCp)
    (v s : Str) (w : Bool) :
    Rx.isMatch env (Parser.attrPattern [124, 61] v ic w) s =
      (Css.foldCase ic s == Css.foldCase ic v ||
        (Css.foldCase ic v ++ [45]).isPrefixOf (Css.foldCase ic s)) := by
  rw [shape_dash, seq_dash env ic hfold]

/-- `[a|=v]` : exactly `v`, or `v` immediately followed by `-`. -/
theorem tmpl_dash (env : CharEnv) (v s : Str) (w : Bool) :
    Rx.isMatch env (Parser.attrPattern [124, 61] v false w) s = (s == v || (v ++ [45]).isPrefixOf s) :=
  tmpl_dash_gen env false (fun h => nomatch h) v s w

theorem tmpl_dash_ic (env : CharEnv) (hfold : env.fold = lowerCp) (v s : Str) (w : Bool) :
    Rx.isMatch env (Parser.attrPattern [124, 61] v true w) s =
      (lower s == lower v || (lower v ++ [45]).isPrefixOf (lower s)) :=
  tmpl_dash_gen env true (fun _ => hfold) v s w

theorem tmpl_word_gen (env : CharEnv) (ic : Bool) (hfold : ic = true → env.fold = lowerCp)
    (v s : Str) (hv : v ≠ []) :
    Rx.isMatch env (Parser.attrPattern [126, 61] v ic false) s =
      Css.hasWord (Css.foldCase ic v) (Css.foldCase ic s) := by
  rw [shape_word _ v ic hv, seq_word env ic hfold]

/-- `[a~=v]` : `v` is one of the white-space separated words.  (`hws` is what makes the parser
    pass `hasWs = false`; it is not used by the proof: the pattern with `hasWs = false` finds `v`
    as a "word" between white space / string ends whatever `v` contains.) -/
theorem tmpl_word (env : CharEnv) (v s : Str) (hv : v ≠ []) (_hws : v.any isCssWs = false) :
    Rx.isMatch env (Parser.attrPattern [126, 61] v false false) s = Css.hasWord v s :=
  tmpl_word_gen env false (fun h => nomatch h) v s hv

theorem tmpl_word_ic (env : CharEnv) (hfold : env.fold = lowerCp) (v s : Str) (hv : v ≠ [])
    (_hws : v.any isCssWs = false) :
    Rx.isMatch env (Parser.attrPattern [126, 61] v true false) s = Css.hasWord (lower v) (lower s) :=
  tmpl_word_gen env true (fun _ => hfold) v s hv

/-- `[a~=""]` and `[a~="x y"]` match nothing (every environment, either case rule). -/
theorem tmpl_word_none (env : CharEnv) (v s : Str) (ic w : Bool) (h : v = [] ∨ w = true) :
    Rx.isMatch env (Parser.attrPattern [126, 61] v ic w) s = false := by
  rw [shape_word_none _ v ic w h, seq_word_none]

/-! ### The executable word test and its declarative reading -/

/-- `hasWord v s` says: `s = a ++ v ++ b` with `a` empty or ending in white space and `b` empty or
    beginning with white space.  (True for empty `v` as well: `hasWord_iff'`.) -/
theorem hasWord_iff' (v s : Str) : Css.hasWord v s = true ↔ Css.IsWordOf v s := by
  rw [hasWord_iff_wordAt, isWordOf_iff_wordAt]

theorem hasWord_iff (v s : Str) (_hv : v ≠ []) : Css.hasWord v s = true ↔ Css.IsWordOf v s :=
  hasWord_iff' v s

/-- With a value free of white space, a word occurrence is a whole item of the white-space
    separated list: the neighbours are white space and `v` itself has none. -/
theorem isWordOf_maximal (v s : Str) (hws : v.any isCssWs = false) (h : Css.IsWordOf v s) :
    ∃ a b, s = a ++ v ++ b ∧ (∀ c ∈ v, isCssWs c = false) ∧
      (a = [] ∨ ∃ a' c, a = a' ++ [c] ∧ isCssWs c = true) ∧
      (b = [] ∨ ∃ c b', b = c :: b' ∧ isCssWs c = true) := by
  obtain ⟨a, b, hs, ha, hb⟩ := h
  refine ⟨a, b, hs, ?_, ha, hb⟩
  intro c hc
  cases hcw : isCssWs c with
  | false => rfl
  | true =>
    have : v.any isCssWs = true := List.any_eq_true.mpr ⟨c, hc, hcw⟩
    rw [hws] at this; cases this

/-! ### The main theorem -/

/-- `re.match(attrPattern(op, v, ic), s) is not None` is the specification's value test, for all
    seven operators; `hasWs` is as the parser computes it (`v` contains CSS white space). -/
theorem attrPattern_sem (env : CharEnv) (op : Css.AttrOp) (v s : Str) (ic : Bool)
    (hfold : ic = true → env.fold = lowerCp) :
    Rx.isMatch env (Parser.attrPattern op.text v ic (v.any isCssWs)) s = Css.valTest op v ic s := by
  cases op with
  | eq => exact tmpl_eq_gen env ic hfold v s _
  | ne => exact tmpl_ne_gen env ic hfold v s _
  | pre =>
    by_cases hv : v = []
    · subst hv
      rw [show Css.AttrOp.pre.text = 94 :: [61] from rfl, tmpl_empty env 94 _ ic _ s (Or.inl rfl)]
      rfl
    · rw [show Css.AttrOp.pre.text = [94, 61] from rfl, tmpl_pre_gen env ic hfold v s _ hv]
      simp [Css.valTest, isEmpty_false hv]
  | suf =>
    by_cases hv : v = []
    · subst hv
      rw [show Css.AttrOp.suf.text = 36 :: [61] from rfl,
        tmpl_empty env 36 _ ic _ s (Or.inr (Or.inl rfl))]
      rfl
    · rw [show Css.AttrOp.suf.text = [36, 61] from rfl, tmpl_suf_gen env ic hfold v s _ hv]
      simp [Css.valTest, isEmpty_false hv]
  | sub =>
    by_cases hv : v = []
    · subst hv
      rw [show Css.AttrOp.sub.text = 42 :: [61] from rfl,
        tmpl_empty env 42 _ ic _ s (Or.inr (Or.inr rfl))]
      rfl
    · rw [show Css.AttrOp.sub.text = [42, 61] from rfl, tmpl_sub_gen env ic hfold v s _ hv]
      simp [Css.valTest, isEmpty_false hv]
  | word =>
    rw [show Css.AttrOp.word.text = [126, 61] from rfl]
    by_cases hv : v = []
    · rw [tmpl_word_none env v s ic _ (Or.inl hv)]
      subst hv; rfl
    · cases hw : v.any isCssWs with
      | true =>
        rw [tmpl_word_none env v s ic true (Or.inr rfl)]
        simp [Css.valTest, hw]
      | false =>
        rw [tmpl_word_gen env ic hfold v s hv]
        simp [Css.valTest, isEmpty_false hv, hw]
  | dash => exact tmpl_dash_gen env ic hfold v s _

/-- The instance used by the driver. -/
theorem attrPattern_sem_ascii (op : Css.AttrOp) (v s : Str) (ic : Bool) :
    Rx.isMatch asciiEnv (Parser.attrPattern op.text v ic (v.any isCssWs)) s = Css.valTest op v ic s :=
  attrPattern_sem asciiEnv op v s ic (fun _ => rfl)

end C01Attr
end SoupVerif
