/-
  C01, tied to the PARSER by proof.

  `Properties/C01Sat.lean` proves that the matcher run on the IR `CssCompile.compileList L` selects exactly
  what the CSS reading `Css.sat` designates.  That `compileList L` IS what the parser builds from selector
  TEXT was so far only tested.  `Properties/C09Compile.lean` proves, for every selector list of its grammar
  in every spelling, `Parser.compile … text = .ok (denote B values)`.  This file composes the two:

    * `toSyntax L`            the canonical spelling of the AST `L` in the grammar of `C09Compile`
                              (identifiers as `css_parser.escape` writes them, one space for the descendant
                              combinator, ` > `, ` ~ `, ` + `, `, `; attribute values double-quoted as
                              `Spelling.renderString 34` writes them; flags as ` i` / ` s`; `:not(` `:is(`);
    * `Spellable L`           the domain (decidable): the list and every nested `:not` / `:is` list are
                              non-empty; no namespace prefix (type selectors `NsSpec.default`, attribute
                              selectors `ns = []`); no `:has`; no empty compound; identifiers (tag, id, class,
                              attribute names) non-empty and NUL-free; attribute values NUL-free;
    * `toSyntax_value`        its token values are `listV L` (`Refine/C01ParseSem.lean`);
    * `denote_toSyntax`       `denote B (toSyntax L).value = compileList L`   (step 2; from `denote_listV`);
    * `parse_eq_compileList`  `Parser.compile pyFoldEnv Gen.lexicon Gen.builtinsRec (toSyntax L).render [] 0
                                 = .ok (compileList L)`;
    * `parse_spelling_eq_compileList`
                              the same for EVERY text `g₁ ++ s.render ++ g₂` of the grammar with the same
                              values (`Spells L s`): any gaps / comments, escapes, quotes, letter case;
    * `select_text_exact`     the end-to-end theorem: the text → parser → matcher composition of the driver's
                              service 17 (`selectText`) returns, for every spelling of a `Spellable` `L`,
                              exactly `Css.selectSpec … L tag` — the elements `Css.sat` designates, in
                              document order.

    * `toSyntax_render_plain`, `parse_renderList_eq_compileList`
                              where `escape` leaves every identifier alone, the canonical text is the text
                              `CssCompile.renderList L` the differential harness feeds to the real parser.

  Hypotheses of the text theorems, all explicit: `Spellable L`; for a non-canonical spelling `s` the side
  conditions of `C09Compile` (`s.ok g₂`, gaps `g₁`, `g₂`, no NUL in the text); for `select_text_exact` the two
  hypotheses of `C01Sat.api_select_exact` (`hfold`, `hroot`) and `limit < 1`.

  No difference between `denote` and `compileList` was found on the domain: implied `*` on every top-level
  compound and on none inside pseudo-class arguments, `is_html = False`, `[a!=v]` as `:not([a=v])`, the
  `type` attribute's second pattern, the order of all lists agree.
-/
import SoupVerif.Refine.C01ParseBase
import SoupVerif.Refine.C01ParseSem
import SoupVerif.Properties.C01Sat
namespace SoupVerif
namespace C01Parse
open Css Escape Spelling Refine.Compile
open C09Compile (Forms identOK SItem SCompound SSelList SComb STag SAttr SAttrOp SValue itemsValue restValue
  renderItems renderRest itemsOK restOK plainName fnName opText flagText denote)

/-! ## The canonical spelling -/

def combS : Comb → SComb
  | .desc => .desc [32]
  | .child => .sym [32] 62 [32]
  | .sib => .sym [32] 126 [32]
  | .adj => .sym [32] 43 [32]

/-- `, ` -/
def commaS : SComb := .sym [] 44 [32]

/-- The character in front of `=`. -/
def opChar : AttrOp → Option Nat
  | .eq => none | .ne => some 33 | .pre => some 94 | .suf => some 36 | .sub => some 42
  | .word => some 126 | .dash => some 124

def flagS : CaseFlag → Option (Str × Nat)
  | .none => none | .i => some ([32], 105) | .s => some ([32], 115)

/-- `[name]`, `[nameOP"value"]`, `[nameOP"value" i]`. -/
def attrS (name : Str) (test : Option AttrTest) : SAttr :=
  ⟨[], identForms name,
    test.map (fun t => ⟨[], opChar t.op, [], .str 34 (strPieces t.value), flagS t.flag⟩), []⟩

/-- A keyword, written literally. -/
def kw (s : String) : Forms := identForms s.toStr

def tagS (t : TypeSel) : STag :=
  match t.name with
  | none => .star
  | some n => .name (identForms n)

mutual
def simpleS : Simple → SItem
  | .id v => .id (identForms v)
  | .cls v => .cls (identForms v)
  | .attr _ name test => .attr (attrS name test)
  | .neg L => .fn (kw "not") [] (listS L) []
  | .is L => .fn (kw "is") [] (listS L) []
  | .has _ => .pseudo []                            -- outside the domain
  | .root => .pseudo (kw "root")
  | .empty => .pseudo (kw "empty")
  | .firstChild => .pseudo (kw "first-child")
  | .lastChild => .pseudo (kw "last-child")
  | .onlyChild => .pseudo (kw "only-child")
  | .firstOfType => .pseudo (kw "first-of-type")
  | .lastOfType => .pseudo (kw "last-of-type")
  | .onlyOfType => .pseudo (kw "only-of-type")
def partsS : List Simple → List SItem
  | [] => []
  | s :: rest => simpleS s :: partsS rest
def compoundS : Css.Compound → SCompound
  | .mk tag parts => .mk (tag.map tagS) (partsS parts)
def complexFirstS : Complex → SCompound
  | .one cp => compoundS cp
  | .comb L _ _ => complexFirstS L
def complexRestS : Complex → List (SComb × SCompound)
  | .one _ => []
  | .comb L k R => complexRestS L ++ [(combS k, compoundS R)]
def selsS : List Complex → List (SComb × SCompound)
  | [] => []
  | x :: rest => (commaS, complexFirstS x) :: (complexRestS x ++ selsS rest)
def listS : List Complex → SSelList
  | [] => .mk (.mk none []) []                      -- outside the domain
  | x :: rest => .mk (complexFirstS x) (complexRestS x ++ selsS rest)
end

/-- **The canonical spelling** of a selector list of C01's grammar, as a syntax tree of `C09Compile`'s
    grammar; its text is `(toSyntax L).render`. -/
def toSyntax (L : List Complex) : SSelList := listS L

/-- `s` spells `L`: a syntax tree of `C09Compile`'s grammar (with all its spelling choices) whose token
    values are those of `L`. -/
def Spells (L : List Complex) (s : SSelList) : Prop := s.value = listV L

/-! ## Its values -/

theorem restValue_append : ∀ (l₁ l₂ : List (SComb × SCompound)),
    restValue (l₁ ++ l₂) = restValue l₁ ++ restValue l₂
  | [], l₂ => by simp [restValue]
  | x :: l₁, l₂ => by simp [restValue, restValue_append l₁ l₂]

theorem kw_value (s : String) : valueOf (kw s) = s.toStr := identForms_value _

theorem attrS_value (name : Str) (test : Option AttrTest) :
    (attrS name test).value = ⟨name, test.map fun t => (t.op.text, t.value, flagV t.flag)⟩ := by
  cases test with
  | none => simp [attrS, SAttr.value, identForms_value]
  | some t =>
    obtain ⟨op, v, fl⟩ := t
    cases op <;> cases fl <;>
      simp [attrS, SAttr.value, identForms_value, SValue.value, strPieces_value, opChar, opText, AttrOp.text,
        flagS, flagV, lowerCp]

mutual
theorem simpleS_value : ∀ (s : Simple), (simpleS s).value = simpleV s
  | .id v => by simp only [simpleS, SItem.value, simpleV, identForms_value]
  | .cls v => by simp only [simpleS, SItem.value, simpleV, identForms_value]
  | .attr ns name test => by simp only [simpleS, SItem.value, simpleV, attrS_value]
  | .neg L => by
    simp only [simpleS, SItem.value, simpleV, kw_value, listS_value L]
    rfl
  | .is L => by
    simp only [simpleS, SItem.value, simpleV, kw_value, listS_value L]
    rfl
  | .has _ => rfl
  | .root => by simp only [simpleS, SItem.value, simpleV, kw_value]; rfl
  | .empty => by simp only [simpleS, SItem.value, simpleV, kw_value]; rfl
  | .firstChild => by simp only [simpleS, SItem.value, simpleV, kw_value]; rfl
  | .lastChild => by simp only [simpleS, SItem.value, simpleV, kw_value]; rfl
  | .onlyChild => by simp only [simpleS, SItem.value, simpleV, kw_value]; rfl
  | .firstOfType => by simp only [simpleS, SItem.value, simpleV, kw_value]; rfl
  | .lastOfType => by simp only [simpleS, SItem.value, simpleV, kw_value]; rfl
  | .onlyOfType => by simp only [simpleS, SItem.value, simpleV, kw_value]; rfl
theorem partsS_value : ∀ (ps : List Simple), itemsValue (partsS ps) = partsV ps
  | [] => by simp only [partsS, itemsValue, partsV]
  | s :: rest => by simp only [partsS, itemsValue, partsV, simpleS_value s, partsS_value rest]
theorem compoundS_value : ∀ (cp : Css.Compound), (compoundS cp).value = compoundV cp
  | .mk tag parts => by
    simp only [compoundS, SCompound.value, compoundV, partsS_value parts, Option.map_map]
    congr 1
    cases tag with
    | none => rfl
    | some t =>
      obtain ⟨ns, nm⟩ := t
      cases nm <;> simp [tagS, STag.value, identForms_value]
theorem complexFirstS_value : ∀ (x : Complex), (complexFirstS x).value = complexFirst x
  | .one cp => by simp only [complexFirstS, complexFirst, compoundS_value cp]
  | .comb L _ _ => by simp only [complexFirstS, complexFirst, complexFirstS_value L]
theorem complexRestS_value : ∀ (x : Complex), restValue (complexRestS x) = complexRest x
  | .one _ => by simp only [complexRestS, restValue, complexRest]
  | .comb L k R => by
    simp only [complexRestS, restValue_append, restValue, complexRest, complexRestS_value L,
      compoundS_value R]
    cases k <;> rfl
theorem selsS_value : ∀ (xs : List Complex), restValue (selsS xs) = selsV xs
  | [] => by simp only [selsS, restValue, selsV]
  | x :: rest => by
    simp only [selsS, restValue, restValue_append, selsV, complexFirstS_value x, complexRestS_value x,
      selsS_value rest]
    rfl
theorem listS_value : ∀ (L : List Complex), (listS L).value = listV L
  | [] => rfl
  | x :: rest => by
    simp only [listS, SSelList.value, restValue_append, listV, complexFirstS_value x, complexRestS_value x,
      selsS_value rest]
end

/-- The canonical spelling spells `L`. -/
theorem toSyntax_value (L : List Complex) : (toSyntax L).value = listV L := listS_value L

theorem toSyntax_spells (L : List Complex) : Spells L (toSyntax L) := toSyntax_value L

/-! ## It is admissible (in front of any text) -/

theorem identOkB_iff (v : Str) : identOkB v = true ↔ v ≠ [] ∧ ∀ c ∈ v, c ≠ 0 := by
  cases v <;> simp [identOkB]

theorem ident_ok {v : Str} (h : identOkB v = true) (r : Str) : identOK (identForms v) r :=
  identForms_ok v ((identOkB_iff v).1 h).1 ((identOkB_iff v).1 h).2 r

theorem kw_ok (s : String) (h : identOkB s.toStr = true) (r : Str) : identOK (kw s) r := ident_ok h r

theorem itemsOK_of : ∀ (items : List SItem), (∀ it ∈ items, ∀ r, it.ok r) → ∀ r, itemsOK items r
  | [], _, _ => by simp only [itemsOK]
  | it :: rest, h, r => by
    rw [itemsOK]
    exact ⟨h it (by simp) _, itemsOK_of rest (fun i hi => h i (by simp [hi])) r⟩

theorem restOK_of : ∀ (l : List (SComb × SCompound)), (∀ p ∈ l, p.1.ok ∧ ∀ r, p.2.ok r) → ∀ r, restOK l r
  | [], _, _ => by simp only [restOK]
  | x :: rest, h, r => by
    rw [restOK]
    exact ⟨(h x (by simp)).1, (h x (by simp)).2 _, restOK_of rest (fun p hp => h p (by simp [hp])) r⟩

theorem combS_ok (k : Comb) : (combS k).ok := by
  cases k
  · exact DescGap.ws 32 [] rfl (by decide)
  · exact ⟨by decide, by decide, by decide⟩
  · exact ⟨by decide, by decide, by decide⟩
  · exact ⟨by decide, by decide, by decide⟩

theorem commaS_ok : commaS.ok := ⟨by decide, by decide, by decide⟩

theorem gapNil : isGap [] := by decide
theorem gapSp : isGap [32] := by decide

theorem attrS_ok (name : Str) (test : Option AttrTest) (h : identOkB name = true) (r : Str) :
    (attrS name test).ok r := by
  cases test with
  | none => exact ⟨gapNil, gapNil, ident_ok h _, trivial⟩
  | some t =>
    obtain ⟨op, v, fl⟩ := t
    refine ⟨gapNil, gapNil, ident_ok h _, gapNil, gapNil, ?_, ?_, ?_⟩
    · intro x hx
      cases op <;> simp [opChar] at hx <;> subst hx <;> decide
    · exact ⟨Or.inl rfl, strPieces_valid [] v, strPieces_range v⟩
    · intro g3 f hf
      cases fl <;> simp [flagS] at hf <;> obtain ⟨rfl, rfl⟩ := hf <;> exact ⟨gapSp, by decide⟩

theorem partsS_ne_nil {ps : List Simple} (h : ps ≠ []) : partsS ps ≠ [] := by
  cases ps with
  | nil => exact absurd rfl h
  | cons s rest => simp [partsS]

mutual
theorem simpleS_ok : ∀ (s : Simple), spSimple s = true → ∀ r, (simpleS s).ok r
  | .id v, h, r => by
    simp only [spSimple] at h
    simpa only [simpleS, SItem.ok] using ident_ok h r
  | .cls v, h, r => by
    simp only [spSimple] at h
    simpa only [simpleS, SItem.ok] using ident_ok h r
  | .attr ns name test, h, r => by
    simp only [spSimple, Bool.and_eq_true] at h
    simpa only [simpleS, SItem.ok] using attrS_ok name test h.1.2 r
  | .neg L, h, r => by
    simp only [spSimple, Bool.and_eq_true, Bool.not_eq_true', List.isEmpty_eq_false_iff] at h
    simp only [simpleS, SItem.ok, kw_value]
    exact ⟨kw_ok _ (by decide) _, Or.inl (by decide), by decide, by decide, listS_ok L h.2 h.1 _⟩
  | .is L, h, r => by
    simp only [spSimple, Bool.and_eq_true, Bool.not_eq_true', List.isEmpty_eq_false_iff] at h
    simp only [simpleS, SItem.ok, kw_value]
    exact ⟨kw_ok _ (by decide) _, Or.inr (Or.inl (by decide)), by decide, by decide, listS_ok L h.2 h.1 _⟩
  | .has _, h, _ => by simp [spSimple] at h
  | .root, _, r => by
    simp only [simpleS, SItem.ok, kw_value]; exact ⟨kw_ok _ (by decide) _, Or.inl (by decide)⟩
  | .empty, _, r => by
    simp only [simpleS, SItem.ok, kw_value]; exact ⟨kw_ok _ (by decide) _, Or.inl (by decide)⟩
  | .firstChild, _, r => by
    simp only [simpleS, SItem.ok, kw_value]; exact ⟨kw_ok _ (by decide) _, Or.inl (by decide)⟩
  | .lastChild, _, r => by
    simp only [simpleS, SItem.ok, kw_value]; exact ⟨kw_ok _ (by decide) _, Or.inl (by decide)⟩
  | .onlyChild, _, r => by
    simp only [simpleS, SItem.ok, kw_value]; exact ⟨kw_ok _ (by decide) _, Or.inl (by decide)⟩
  | .firstOfType, _, r => by
    simp only [simpleS, SItem.ok, kw_value]; exact ⟨kw_ok _ (by decide) _, Or.inl (by decide)⟩
  | .lastOfType, _, r => by
    simp only [simpleS, SItem.ok, kw_value]; exact ⟨kw_ok _ (by decide) _, Or.inl (by decide)⟩
  | .onlyOfType, _, r => by
    simp only [simpleS, SItem.ok, kw_value]; exact ⟨kw_ok _ (by decide) _, Or.inl (by decide)⟩
theorem partsS_ok : ∀ (ps : List Simple), spParts ps = true → ∀ it ∈ partsS ps, ∀ r, it.ok r
  | [], _, it, hit, _ => by simp [partsS] at hit
  | s :: rest, h, it, hit, r => by
    simp only [spParts, Bool.and_eq_true] at h
    rw [partsS, List.mem_cons] at hit
    rcases hit with rfl | hit
    · exact simpleS_ok s h.1 r
    · exact partsS_ok rest h.2 it hit r
theorem compoundS_ok : ∀ (cp : Css.Compound), spCompound cp = true → ∀ r, (compoundS cp).ok r
  | .mk tag parts, h, r => by
    simp only [spCompound, Bool.and_eq_true] at h
    have hitems := itemsOK_of (partsS parts) (partsS_ok parts h.2) r
    simp only [compoundS, SCompound.ok]
    cases tag with
    | none =>
      have hne : parts ≠ [] := by simpa using h.1
      exact ⟨trivial, hitems, Or.inr (partsS_ne_nil hne)⟩
    | some t =>
      obtain ⟨ns, nm⟩ := t
      refine ⟨?_, hitems, Or.inl rfl⟩
      cases nm with
      | none => trivial
      | some n =>
        have hn : identOkB n = true := by
          have := h.1
          simp only [Bool.and_eq_true] at this
          exact this.2
        exact ident_ok hn _
theorem complexS_ok : ∀ (x : Complex), spComplex x = true →
    (∀ r, (complexFirstS x).ok r) ∧ ∀ p ∈ complexRestS x, p.1.ok ∧ ∀ r, p.2.ok r
  | .one cp, h => by
    simp only [spComplex] at h
    exact ⟨compoundS_ok cp h, by simp [complexRestS]⟩
  | .comb L k R, h => by
    simp only [spComplex, Bool.and_eq_true] at h
    obtain ⟨h1, h2⟩ := complexS_ok L h.1
    refine ⟨h1, ?_⟩
    intro p hp
    rw [complexRestS, List.mem_append] at hp
    rcases hp with hp | hp
    · exact h2 p hp
    · simp only [List.mem_singleton] at hp
      subst hp
      exact ⟨combS_ok k, compoundS_ok R h.2⟩
theorem selsS_ok : ∀ (xs : List Complex), spList xs = true → ∀ p ∈ selsS xs, p.1.ok ∧ ∀ r, p.2.ok r
  | [], _, p, hp => by simp [selsS] at hp
  | x :: rest, h, p, hp => by
    simp only [spList, Bool.and_eq_true] at h
    obtain ⟨h1, h2⟩ := complexS_ok x h.1
    rw [selsS, List.mem_cons, List.mem_append] at hp
    rcases hp with rfl | hp | hp
    · exact ⟨commaS_ok, h1⟩
    · exact h2 p hp
    · exact selsS_ok rest h.2 p hp
theorem listS_ok : ∀ (L : List Complex), spList L = true → L ≠ [] → ∀ r, (listS L).ok r
  | [], _, h, _ => absurd rfl h
  | x :: rest, h, _, r => by
    simp only [spList, Bool.and_eq_true] at h
    obtain ⟨h1, h2⟩ := complexS_ok x h.1
    rw [listS, SSelList.ok]
    refine ⟨h1 _, restOK_of _ ?_ r⟩
    intro p hp
    rw [List.mem_append] at hp
    rcases hp with hp | hp
    · exact h2 p hp
    · exact selsS_ok rest h.2 p hp
end

/-- The canonical spelling satisfies the side conditions of `C09Compile`'s grammar, whatever follows. -/
theorem toSyntax_ok (L : List Complex) (h : Spellable L) (r : Str) : (toSyntax L).ok r :=
  listS_ok L h.2 h.1 r

/-! ## Its text contains no NUL -/

/-- No NUL character. -/
def NoNul (t : Str) : Prop := ∀ x ∈ t, x ≠ 0

theorem noNul_nil : NoNul [] := by intro x hx; simp at hx

theorem noNul_append (a b : Str) : NoNul (a ++ b) ↔ NoNul a ∧ NoNul b := by
  simp only [NoNul, List.mem_append]
  exact ⟨fun h => ⟨fun x hx => h x (Or.inl hx), fun x hx => h x (Or.inr hx)⟩,
    fun h x hx => hx.elim (h.1 x) (h.2 x)⟩

theorem noNul_cons (c : Nat) (a : Str) : NoNul (c :: a) ↔ c ≠ 0 ∧ NoNul a := by
  simp only [NoNul, List.mem_cons]
  exact ⟨fun h => ⟨h c (Or.inl rfl), fun x hx => h x (Or.inr hx)⟩,
    fun h x hx => hx.elim (fun e => e ▸ h.1) (h.2 x)⟩

theorem ident_noNul {v : Str} (h : identOkB v = true) : NoNul (renderIdentWith (identForms v)) :=
  identForms_noNul v ((identOkB_iff v).1 h).2

theorem kw_noNul (s : String) (h : identOkB s.toStr = true) : NoNul (renderIdentWith (kw s)) := ident_noNul h

theorem renderRest_append : ∀ (l₁ l₂ : List (SComb × SCompound)),
    renderRest (l₁ ++ l₂) = renderRest l₁ ++ renderRest l₂
  | [], l₂ => by simp [renderRest]
  | x :: l₁, l₂ => by simp [renderRest, renderRest_append l₁ l₂]

theorem combS_noNul (k : Comb) : NoNul (combS k).render := by
  cases k <;> (intro x hx; simp [combS, SComb.render] at hx; omega)

theorem commaS_noNul : NoNul commaS.render := by
  intro x hx; simp [commaS, SComb.render] at hx; omega

theorem attrS_noNul (name : Str) (test : Option AttrTest) (h : identOkB name = true)
    (hv : ∀ t, test = some t → ∀ c ∈ t.value, c ≠ 0) : NoNul (attrS name test).render := by
  have hn := ident_noNul h
  cases test with
  | none =>
    simp only [attrS, SAttr.render, SAttr.afterName, Option.map_none, List.nil_append, noNul_cons,
      noNul_append, noNul_nil, and_true]
    exact ⟨by omega, hn, by omega⟩
  | some t =>
    obtain ⟨op, v, fl⟩ := t
    have hs : NoNul (renderStrWith (strPieces v)) := by
      rw [strPieces_render]
      exact renderStringBody_noNul v (hv _ rfl)
    have hop : NoNul (opText (opChar op)) := by
      cases op <;> (intro x hx; simp [opChar, opText] at hx; omega)
    have hfl : NoNul (flagText (flagS fl)) := by
      cases fl <;> (intro x hx; simp [flagS, flagText] at hx; try omega)
    simp only [attrS, SAttr.render, SAttr.afterName, Option.map_some, List.nil_append, SValue.render,
      noNul_cons, noNul_append, noNul_nil, and_true]
    exact ⟨by omega, hn, hop, ⟨by omega, hs, by omega⟩, hfl, by omega⟩

mutual
theorem simpleS_noNul : ∀ (s : Simple), spSimple s = true → NoNul (simpleS s).render
  | .id v, h => by
    simp only [spSimple] at h
    simp only [simpleS, SItem.render, noNul_cons]
    exact ⟨by omega, ident_noNul h⟩
  | .cls v, h => by
    simp only [spSimple] at h
    simp only [simpleS, SItem.render, noNul_cons]
    exact ⟨by omega, ident_noNul h⟩
  | .attr ns name test, h => by
    simp only [spSimple, Bool.and_eq_true] at h
    simp only [simpleS, SItem.render]
    apply attrS_noNul name test h.1.2
    intro t ht c hc
    subst ht
    have := h.2
    simp only [List.all_eq_true, bne_iff_ne, ne_eq] at this
    exact this c hc
  | .neg L, h => by
    simp only [spSimple, Bool.and_eq_true, Bool.not_eq_true', List.isEmpty_eq_false_iff] at h
    simp only [simpleS, SItem.render, List.nil_append, noNul_cons, noNul_append, noNul_nil, and_true]
    exact ⟨by omega, kw_noNul _ (by decide), by omega, listS_noNul L h.2 h.1, by omega⟩
  | .is L, h => by
    simp only [spSimple, Bool.and_eq_true, Bool.not_eq_true', List.isEmpty_eq_false_iff] at h
    simp only [simpleS, SItem.render, List.nil_append, noNul_cons, noNul_append, noNul_nil, and_true]
    exact ⟨by omega, kw_noNul _ (by decide), by omega, listS_noNul L h.2 h.1, by omega⟩
  | .has _, h => by simp [spSimple] at h
  | .root, _ => by
    simp only [simpleS, SItem.render, noNul_cons]; exact ⟨by omega, kw_noNul _ (by decide)⟩
  | .empty, _ => by
    simp only [simpleS, SItem.render, noNul_cons]; exact ⟨by omega, kw_noNul _ (by decide)⟩
  | .firstChild, _ => by
    simp only [simpleS, SItem.render, noNul_cons]; exact ⟨by omega, kw_noNul _ (by decide)⟩
  | .lastChild, _ => by
    simp only [simpleS, SItem.render, noNul_cons]; exact ⟨by omega, kw_noNul _ (by decide)⟩
  | .onlyChild, _ => by
    simp only [simpleS, SItem.render, noNul_cons]; exact ⟨by omega, kw_noNul _ (by decide)⟩
  | .firstOfType, _ => by
    simp only [simpleS, SItem.render, noNul_cons]; exact ⟨by omega, kw_noNul _ (by decide)⟩
  | .lastOfType, _ => by
    simp only [simpleS, SItem.render, noNul_cons]; exact ⟨by omega, kw_noNul _ (by decide)⟩
  | .onlyOfType, _ => by
    simp only [simpleS, SItem.render, noNul_cons]; exact ⟨by omega, kw_noNul _ (by decide)⟩
theorem partsS_noNul : ∀ (ps : List Simple), spParts ps = true → NoNul (renderItems (partsS ps))
  | [], _ => by simp only [partsS, renderItems]; exact noNul_nil
  | s :: rest, h => by
    simp only [spParts, Bool.and_eq_true] at h
    simp only [partsS, renderItems, noNul_append]
    exact ⟨simpleS_noNul s h.1, partsS_noNul rest h.2⟩
theorem compoundS_noNul : ∀ (cp : Css.Compound), spCompound cp = true → NoNul (compoundS cp).render
  | .mk tag parts, h => by
    simp only [spCompound, Bool.and_eq_true] at h
    simp only [compoundS, SCompound.render, noNul_append]
    refine ⟨?_, partsS_noNul parts h.2⟩
    cases tag with
    | none => exact noNul_nil
    | some t =>
      obtain ⟨ns, nm⟩ := t
      cases nm with
      | none =>
        simp only [Option.map_some, tagS, STag.render, noNul_cons]
        exact ⟨by omega, noNul_nil⟩
      | some n =>
        have hn : identOkB n = true := by
          have := h.1
          simp only [Bool.and_eq_true] at this
          exact this.2
        simpa only [Option.map_some, tagS, STag.render] using ident_noNul hn
theorem complexS_noNul : ∀ (x : Complex), spComplex x = true →
    NoNul (complexFirstS x).render ∧ NoNul (renderRest (complexRestS x))
  | .one cp, h => by
    simp only [spComplex] at h
    simp only [complexFirstS, complexRestS, renderRest]
    exact ⟨compoundS_noNul cp h, noNul_nil⟩
  | .comb L k R, h => by
    simp only [spComplex, Bool.and_eq_true] at h
    obtain ⟨h1, h2⟩ := complexS_noNul L h.1
    simp only [complexFirstS, complexRestS, renderRest_append, renderRest, noNul_append, List.append_nil]
    exact ⟨h1, h2, combS_noNul k, compoundS_noNul R h.2⟩
theorem selsS_noNul : ∀ (xs : List Complex), spList xs = true → NoNul (renderRest (selsS xs))
  | [], _ => by simp only [selsS, renderRest]; exact noNul_nil
  | x :: rest, h => by
    simp only [spList, Bool.and_eq_true] at h
    obtain ⟨h1, h2⟩ := complexS_noNul x h.1
    simp only [selsS, renderRest, renderRest_append, noNul_append]
    exact ⟨commaS_noNul, h1, h2, selsS_noNul rest h.2⟩
theorem listS_noNul : ∀ (L : List Complex), spList L = true → L ≠ [] → NoNul (listS L).render
  | [], _, h => absurd rfl h
  | x :: rest, h, _ => by
    simp only [spList, Bool.and_eq_true] at h
    obtain ⟨h1, h2⟩ := complexS_noNul x h.1
    simp only [listS, SSelList.render, renderRest_append, noNul_append]
    exact ⟨h1, h2, selsS_noNul rest h.2⟩
end

theorem toSyntax_noNul (L : List Complex) (h : Spellable L) : ∀ x ∈ (toSyntax L).render, x ≠ 0 :=
  listS_noNul L h.2 h.1

/-! ## Spellable selectors are grammatical (`Complex.wf`, the hypothesis of C01) -/

mutual
theorem simple_wf : ∀ (s : Simple), spSimple s = true → s.wfLeaf = true ∧ s.all Simple.wfLeaf = true
  | .id v, h => by
    simp only [spSimple, identOkB, Bool.and_eq_true] at h
    exact ⟨by simpa [Simple.wfLeaf] using h.1, by simp [Simple.all]⟩
  | .cls v, _ => ⟨rfl, by simp [Simple.all]⟩
  | .attr _ _ _, _ => ⟨rfl, by simp [Simple.all]⟩
  | .neg L, h => by
    simp only [spSimple, Bool.and_eq_true] at h
    exact ⟨by simpa [Simple.wfLeaf] using h.1, by simpa only [Simple.all] using list_wf L h.2⟩
  | .is L, h => by
    simp only [spSimple, Bool.and_eq_true] at h
    exact ⟨rfl, by simpa only [Simple.all] using list_wf L h.2⟩
  | .has _, h => by simp [spSimple] at h
  | .root, _ => ⟨rfl, by simp [Simple.all]⟩
  | .empty, _ => ⟨rfl, by simp [Simple.all]⟩
  | .firstChild, _ => ⟨rfl, by simp [Simple.all]⟩
  | .lastChild, _ => ⟨rfl, by simp [Simple.all]⟩
  | .onlyChild, _ => ⟨rfl, by simp [Simple.all]⟩
  | .firstOfType, _ => ⟨rfl, by simp [Simple.all]⟩
  | .lastOfType, _ => ⟨rfl, by simp [Simple.all]⟩
  | .onlyOfType, _ => ⟨rfl, by simp [Simple.all]⟩
theorem parts_wf : ∀ (ps : List Simple), spParts ps = true → allParts Simple.wfLeaf ps = true
  | [], _ => by simp only [allParts]
  | s :: rest, h => by
    simp only [spParts, Bool.and_eq_true] at h
    simp only [allParts, Bool.and_eq_true]
    exact ⟨simple_wf s h.1, parts_wf rest h.2⟩
theorem compound_wf : ∀ (cp : Css.Compound), spCompound cp = true → cp.all Simple.wfLeaf = true
  | .mk tag parts, h => by
    simp only [spCompound, Bool.and_eq_true] at h
    simpa only [Css.Compound.all] using parts_wf parts h.2
theorem complex_wf : ∀ (x : Complex), spComplex x = true → x.all Simple.wfLeaf = true
  | .one cp, h => by
    simp only [spComplex] at h
    simpa only [Complex.all] using compound_wf cp h
  | .comb L _ R, h => by
    simp only [spComplex, Bool.and_eq_true] at h
    simp only [Complex.all, Bool.and_eq_true]
    exact ⟨complex_wf L h.1, compound_wf R h.2⟩
theorem list_wf : ∀ (L : List Complex), spList L = true → allList Simple.wfLeaf L = true
  | [], _ => by simp only [allList]
  | x :: rest, h => by
    simp only [spList, Bool.and_eq_true] at h
    simp only [allList, Bool.and_eq_true]
    exact ⟨complex_wf x h.1, list_wf rest h.2⟩
end

theorem spList_mem : ∀ (L : List Complex), spList L = true → ∀ x ∈ L, spComplex x = true
  | [], _, x, hx => by simp at hx
  | y :: rest, h, x, hx => by
    simp only [spList, Bool.and_eq_true] at h
    rw [List.mem_cons] at hx
    rcases hx with rfl | hx
    · exact h.1
    · exact spList_mem rest h.2 x hx

theorem spellable_wf (L : List Complex) (h : Spellable L) : ∀ x ∈ L, x.wf = true :=
  fun x hx => complex_wf x (spList_mem L h.2 x hx)

/-! ## Step 2: the values of the canonical spelling denote `compileList L` -/

/-- **`denote` of the canonical spelling is the C01 compiler's IR.** -/
theorem denote_toSyntax (B : Parser.Builtins) (L : List Complex) (h : Spellable L) :
    denote B (toSyntax L).value = compileList L := by
  rw [toSyntax_value, denote_listV B L h]

/-! ## Step 3: the parser on the text -/

/-- **The parser model, run on the canonical text of `L`, returns `compileList L`.** -/
theorem parse_eq_compileList (L : List Complex) (h : Spellable L) :
    Parser.compile pyFoldEnv Gen.lexicon Gen.builtinsRec (toSyntax L).render [] 0 = .ok (compileList L) := by
  have := C09Compile.compile_eq_denote Gen.builtinsRec [] [] (toSyntax L) gapNil gapNil
    (toSyntax_ok L h []) (by simpa using toSyntax_noNul L h)
  simpa [denote_toSyntax _ L h] using this

/-- **… and so does EVERY spelling with the same values**: `s` any syntax tree of `C09Compile`'s grammar
    (arbitrary gaps and comments, escapes in identifiers and strings, either kind of quotes or a bare
    identifier for attribute values, any letter case of pseudo-class names and flags) with
    `s.value = listV L`, between arbitrary gaps `g₁`, `g₂`.  Derived from the canonical case through
    `compile_spelling_invariant_partial`. -/
theorem parse_spelling_eq_compileList (L : List Complex) (h : Spellable L)
    (g₁ g₂ : Str) (s : SSelList) (hs : Spells L s)
    (hg₁ : isGap g₁) (hg₂ : isGap g₂) (hok : s.ok g₂) (h0 : ∀ x ∈ g₁ ++ s.render ++ g₂, x ≠ 0) :
    Parser.compile pyFoldEnv Gen.lexicon Gen.builtinsRec (g₁ ++ s.render ++ g₂) [] 0 =
      .ok (compileList L) := by
  rw [C09Compile.compile_spelling_invariant_partial Gen.builtinsRec g₁ g₂ [] [] s (toSyntax L) hg₁ hg₂
    gapNil gapNil hok (toSyntax_ok L h []) h0 (by simpa using toSyntax_noNul L h)
    (hs.trans (toSyntax_value L).symm)]
  simpa using parse_eq_compileList L h

/-- The same for an arbitrary table of built-in selector lists (none of them is used on this grammar). -/
theorem parse_spelling_eq_compileList_gen (B : Parser.Builtins) (L : List Complex) (h : Spellable L)
    (g₁ g₂ : Str) (s : SSelList) (hs : Spells L s)
    (hg₁ : isGap g₁) (hg₂ : isGap g₂) (hok : s.ok g₂) (h0 : ∀ x ∈ g₁ ++ s.render ++ g₂, x ≠ 0) :
    Parser.compile pyFoldEnv Gen.lexicon B (g₁ ++ s.render ++ g₂) [] 0 = .ok (compileList L) := by
  rw [C09Compile.compile_eq_denote B g₁ g₂ s hg₁ hg₂ hok h0, hs, denote_listV B L h]

/-! ## Step 4: end to end — text in, designated elements out -/

/-- The text → parser → matcher composition of the driver's end-to-end service (request 17 of
    `Driver/Main.lean`, query kind 0): compile the pattern text with the parser model (no custom selectors,
    flags 0, Python's IGNORECASE folding, the regenerated lexicon and built-in lists) and run
    `SoupSieve.select` with the result. -/
def selectText (E : Env) (isXml : Bool) (ns : List (Str × Str)) (pattern : Str) (tag : Loc) (limit : Int) :
    Except Parser.Err (List Loc) :=
  match Parser.compile pyFoldEnv Gen.lexicon Gen.builtinsRec pattern [] 0 with
  | .ok l => .ok (select E isXml ns l tag limit)
  | .error e => .error e

/-- **C01 on selector TEXT.**  For every tree, every `Spellable` selector list `L` and every spelling
    `g₁ ++ s.render ++ g₂` of it: parsing the text and selecting below `tag` (no limit) succeeds and returns
    exactly the descendant elements of `tag` that the CSS reading `Css.sat` designates for `L`
    (`Css.selectSpec`), in document order.  The hypotheses `hfold`, `hroot` are those of
    `C01Sat.api_select_exact` (case-insensitive attribute comparisons need an ASCII-folding matcher
    environment; `:root` needs `RootAgrees`). -/
theorem select_text_exact (E : Env) (isXml : Bool) (ns : List (Str × Str)) (L : List Complex)
    (h : Spellable L) (tag : Loc)
    (hfold : (∀ x ∈ L, x.caseSensitiveIn (mkCtx E isXml ns tag) = true) ∨ E.env.fold = lowerCp)
    (hroot : (∀ x ∈ L, x.noRoot = true) ∨ SatRoot.RootAgrees (mkCtx E isXml ns tag) tag.top)
    (limit : Int) (hlim : limit < 1)
    (g₁ g₂ : Str) (s : SSelList) (hs : Spells L s)
    (hg₁ : isGap g₁) (hg₂ : isGap g₂) (hok : s.ok g₂) (h0 : ∀ x ∈ g₁ ++ s.render ++ g₂, x ≠ 0) :
    selectText E isXml ns (g₁ ++ s.render ++ g₂) tag limit =
      .ok (selectSpec (mkCtx E isXml ns tag) L tag) := by
  unfold selectText
  rw [parse_spelling_eq_compileList L h g₁ g₂ s hs hg₁ hg₂ hok h0]
  simp only
  rw [C01Sat.api_select_exact E isXml ns L (spellable_wf L h) tag hfold hroot limit hlim]

/-- The canonical text itself. -/
theorem select_canonical_text_exact (E : Env) (isXml : Bool) (ns : List (Str × Str)) (L : List Complex)
    (h : Spellable L) (tag : Loc)
    (hfold : (∀ x ∈ L, x.caseSensitiveIn (mkCtx E isXml ns tag) = true) ∨ E.env.fold = lowerCp)
    (hroot : (∀ x ∈ L, x.noRoot = true) ∨ SatRoot.RootAgrees (mkCtx E isXml ns tag) tag.top)
    (limit : Int) (hlim : limit < 1) :
    selectText E isXml ns (toSyntax L).render tag limit = .ok (selectSpec (mkCtx E isXml ns tag) L tag) := by
  have := select_text_exact E isXml ns L h tag hfold hroot limit hlim [] [] (toSyntax L)
    (toSyntax_spells L) gapNil gapNil (toSyntax_ok L h []) (by simpa using toSyntax_noNul L h)
  simpa using this

/-- With the `:root` hypothesis spelled out as conditions on the tree, as in `C01Sat.api_select_exact'`. -/
theorem select_text_exact' (E : Env) (isXml : Bool) (ns : List (Str × Str)) (L : List Complex)
    (h : Spellable L) (hfold : E.env.fold = lowerCp) (tag : Loc)
    (hdoc : ∀ n : Loc, n.top = tag.top → n.isDoc = true → n.up = [])
    (hifr : ∀ l p : Loc, l.top = tag.top → l.parent? = some p →
      ((mkCtx E isXml ns tag).isHtml && (mkCtx E isXml ns tag).locIsIframe p) = false)
    (hone : tag.top.isDoc = true →
      (tag.top.children.filter (fun s => blocksRoot s.focus)).length ≤ 1)
    (limit : Int) (hlim : limit < 1)
    (g₁ g₂ : Str) (s : SSelList) (hs : Spells L s)
    (hg₁ : isGap g₁) (hg₂ : isGap g₂) (hok : s.ok g₂) (h0 : ∀ x ∈ g₁ ++ s.render ++ g₂, x ≠ 0) :
    selectText E isXml ns (g₁ ++ s.render ++ g₂) tag limit =
      .ok (selectSpec (mkCtx E isXml ns tag) L tag) :=
  select_text_exact E isXml ns L h tag (Or.inr hfold)
    (Or.inr (SatRootCond.rootAgrees_of_conditions E isXml ns tag hdoc hifr hone)) limit hlim
    g₁ g₂ s hs hg₁ hg₂ hok h0

/-! ## The canonical text of plain selectors is the text of `CssCompile.renderList`

  `CssCompile.renderList` (the renderer the differential harness feeds to the real parser) writes identifiers
  without escaping; where `escape` leaves every identifier alone the canonical spelling is that very text, so
  the theorems above are about the texts the harness tests. -/

/-- `escape` leaves the identifier alone. -/
def plainIdent (v : Str) : Bool := escape v == v

mutual
def plSimple : Simple → Bool
  | .id v => plainIdent v
  | .cls v => plainIdent v
  | .attr _ name _ => plainIdent name
  | .neg L => plList L
  | .is L => plList L
  | _ => true
def plParts : List Simple → Bool
  | [] => true
  | s :: rest => plSimple s && plParts rest
def plCompound : Css.Compound → Bool
  | .mk tag parts =>
    (match tag with
     | some ⟨_, some n⟩ => plainIdent n
     | _ => true) && plParts parts
def plComplex : Complex → Bool
  | .one cp => plCompound cp
  | .comb L _ R => plComplex L && plCompound R
def plList : List Complex → Bool
  | [] => true
  | x :: rest => plComplex x && plList rest
end

theorem ident_render_plain {v : Str} (h : identOkB v = true) (hp : plainIdent v = true) :
    renderIdentWith (identForms v) = v := by
  rw [identForms_render v ((identOkB_iff v).1 h).2]
  simpa [plainIdent] using hp

theorem renderString_eq (v : Str) : Css.renderString v = 34 :: (renderStringBody 34 v ++ [34]) := by
  have h : ∀ v : Str, v.flatMap (fun ch =>
      if ch == 34 || ch == 92 then [92, ch]
      else if ch == 10 || ch == 12 || ch == 13 then [92, Css.hexDigit ch, 32]
      else [ch]) = renderStringBody 34 v := by
    intro v
    induction v with
    | nil => rfl
    | cons c cs ih =>
      rw [List.flatMap_cons, ih, renderStringBody]
      congr 1
      rcases strPiece_cases c with ⟨hc, _, e⟩ | ⟨hc, _, e⟩ | ⟨hc, _, e⟩ <;> rw [e]
      · rcases hc with rfl | rfl | rfl <;> decide
      · rcases hc with rfl | rfl <;> decide
      · have h1 : (c == 34 || c == 92) = false := by simp; omega
        have h2 : (c == 10 || c == 12 || c == 13) = false := by simp; omega
        simp [h1, h2]
  unfold Css.renderString
  rw [h v]
  rfl

theorem attrS_render (name : Str) (test : Option AttrTest) (h : identOkB name = true)
    (hp : plainIdent name = true) : (attrS name test).render = renderAttr [] name test := by
  cases test with
  | none => simp [attrS, SAttr.render, SAttr.afterName, renderAttr, ident_render_plain h hp]
  | some t =>
    obtain ⟨op, v, fl⟩ := t
    cases op <;> cases fl <;>
      simp [attrS, SAttr.render, SAttr.afterName, renderAttr, ident_render_plain h hp, opChar, opText,
        AttrOp.text, flagS, flagText, SValue.render, strPieces_render, renderString_eq]

theorem combS_render (k : Comb) : (combS k).render = renderComb k := by
  cases k <;> rfl

/-- `renderSels` as head and comma-separated tail. -/
theorem renderSels_cons : ∀ (xs : List Complex) (x : Complex),
    renderSels (x :: xs) = renderComplex x ++ xs.flatMap (fun y => [44, 32] ++ renderComplex y)
  | [], x => by simp [renderSels]
  | y :: ys, x => by
    rw [renderSels, renderSels_cons ys y]
    simp

mutual
theorem simpleS_render : ∀ (s : Simple), spSimple s = true → plSimple s = true →
    (simpleS s).render = renderSimple s
  | .id v, h, hp => by
    simp only [spSimple] at h; simp only [plSimple] at hp
    simp [simpleS, SItem.render, renderSimple, ident_render_plain h hp]
  | .cls v, h, hp => by
    simp only [spSimple] at h; simp only [plSimple] at hp
    simp [simpleS, SItem.render, renderSimple, ident_render_plain h hp]
  | .attr ns name test, h, hp => by
    simp only [spSimple, Bool.and_eq_true, List.isEmpty_iff] at h; simp only [plSimple] at hp
    obtain ⟨⟨rfl, hn⟩, _⟩ := h
    simp only [simpleS, SItem.render, renderSimple, attrS_render name test hn hp]
  | .neg L, h, hp => by
    simp only [spSimple, Bool.and_eq_true, Bool.not_eq_true', List.isEmpty_eq_false_iff] at h
    simp only [plSimple] at hp
    have e : renderIdentWith (kw "not") = "not".toStr := by decide
    simp only [simpleS, SItem.render, renderSimple, listS_render L h.2 h.1 hp, e, List.nil_append]
    simp
    rfl
  | .is L, h, hp => by
    simp only [spSimple, Bool.and_eq_true, Bool.not_eq_true', List.isEmpty_eq_false_iff] at h
    simp only [plSimple] at hp
    have e : renderIdentWith (kw "is") = "is".toStr := by decide
    simp only [simpleS, SItem.render, renderSimple, listS_render L h.2 h.1 hp, e, List.nil_append]
    simp
    rfl
  | .has _, h, _ => by simp [spSimple] at h
  | .root, _, _ => by decide
  | .empty, _, _ => by decide
  | .firstChild, _, _ => by decide
  | .lastChild, _, _ => by decide
  | .onlyChild, _, _ => by decide
  | .firstOfType, _, _ => by decide
  | .lastOfType, _, _ => by decide
  | .onlyOfType, _, _ => by decide
theorem partsS_render : ∀ (ps : List Simple), spParts ps = true → plParts ps = true →
    renderItems (partsS ps) = renderParts ps
  | [], _, _ => by simp only [partsS, renderItems, renderParts]
  | s :: rest, h, hp => by
    simp only [spParts, Bool.and_eq_true] at h
    simp only [plParts, Bool.and_eq_true] at hp
    simp only [partsS, renderItems, renderParts, simpleS_render s h.1 hp.1, partsS_render rest h.2 hp.2]
theorem compoundS_render : ∀ (cp : Css.Compound), spCompound cp = true → plCompound cp = true →
    (compoundS cp).render = renderCompound cp
  | .mk tag parts, h, hp => by
    simp only [spCompound, Bool.and_eq_true] at h
    simp only [plCompound, Bool.and_eq_true] at hp
    simp only [compoundS, SCompound.render, renderCompound, partsS_render parts h.2 hp.2]
    congr 1
    cases tag with
    | none => rfl
    | some t =>
      obtain ⟨ns, nm⟩ := t
      have h1 := h.1
      simp only [Bool.and_eq_true, beq_iff_eq] at h1
      obtain ⟨rfl, hn⟩ := h1
      cases nm with
      | none => rfl
      | some n =>
        have := ident_render_plain hn hp.1
        simpa [tagS, STag.render, renderType, renderNs] using this
theorem complexS_render : ∀ (x : Complex), spComplex x = true → plComplex x = true →
    (complexFirstS x).render ++ renderRest (complexRestS x) = renderComplex x
  | .one cp, h, hp => by
    simp only [spComplex] at h; simp only [plComplex] at hp
    simp only [complexFirstS, complexRestS, renderRest, List.append_nil, renderComplex,
      compoundS_render cp h hp]
  | .comb L k R, h, hp => by
    simp only [spComplex, Bool.and_eq_true] at h
    simp only [plComplex, Bool.and_eq_true] at hp
    have := complexS_render L h.1 hp.1
    simp only [complexFirstS, complexRestS, renderRest_append, renderRest, List.append_nil, renderComplex,
      ← this, combS_render, compoundS_render R h.2 hp.2, List.append_assoc]
theorem selsS_render : ∀ (xs : List Complex), spList xs = true → plList xs = true →
    renderRest (selsS xs) = xs.flatMap (fun y => [44, 32] ++ renderComplex y)
  | [], _, _ => by simp only [selsS, renderRest, List.flatMap_nil]
  | x :: rest, h, hp => by
    simp only [spList, Bool.and_eq_true] at h
    simp only [plList, Bool.and_eq_true] at hp
    simp only [selsS, renderRest, renderRest_append, List.flatMap_cons, selsS_render rest h.2 hp.2,
      ← complexS_render x h.1 hp.1, List.append_assoc]
    rfl
theorem listS_render : ∀ (L : List Complex), spList L = true → L ≠ [] → plList L = true →
    (listS L).render = renderSels L
  | [], _, h, _ => absurd rfl h
  | x :: rest, h, _, hp => by
    simp only [spList, Bool.and_eq_true] at h
    simp only [plList, Bool.and_eq_true] at hp
    rw [renderSels_cons, listS, SSelList.render, renderRest_append, selsS_render rest h.2 hp.2,
      ← complexS_render x h.1 hp.1, List.append_assoc]
end

/-- **For plain identifiers the canonical text is `renderList L`.** -/
theorem toSyntax_render_plain (L : List Complex) (h : Spellable L) (hp : plList L = true) :
    (toSyntax L).render = renderList L := listS_render L h.2 h.1 hp

/-- `parse_eq_compileList` on the text the harness renders. -/
theorem parse_renderList_eq_compileList (L : List Complex) (h : Spellable L) (hp : plList L = true) :
    Parser.compile pyFoldEnv Gen.lexicon Gen.builtinsRec (renderList L) [] 0 = .ok (compileList L) := by
  rw [← toSyntax_render_plain L h hp]
  exact parse_eq_compileList L h

/-! ## Non-vacuity: concrete selectors, texts and a tree -/

namespace Examples
open C01Sat.Examples

/-- `.1a b` (class), id `-`, nested `:not(:is(…) > […], *:empty)`, `!=` on the `type` attribute. -/
def y1 : List Complex :=
  [.one (.mk none [.cls "1a b".toStr, .id "-".toStr,
     .neg [.comb (.one (.mk none [.is [.one (.mk (ty "p") []), .one (.mk none [.id "e".toStr])]])) .child
             (.mk none [.attr [] "title".toStr (some ⟨.eq, "q\"\n".toStr, .s⟩)]),
           .one (.mk (some ⟨.default, none⟩) [.empty])]]),
   .comb (.one (.mk (ty "div") [.attr [] "type".toStr (some ⟨.ne, "A".toStr, .none⟩)])) .adj
     (.mk (ty "p") [.onlyChild])]

-- the domain
example : Spellable [x2] ∧ Spellable x3 ∧ Spellable y1 := by decide
example : ¬ Spellable [x1] := by decide                       -- `:has`
example : ¬ Spellable [.one (.mk none [.is []])] := by decide  -- `:is()`
example : ¬ Spellable [.one (.mk (some ⟨.any, none⟩) [])] := by decide  -- `*|*`

example : plList [x2] = true ∧ plList x3 = true ∧ plList y1 = false := by decide

-- the canonical texts (for plain identifiers: the text `CssCompile.renderList` writes)
example : (toSyntax [x2]).render = "html:root > [class~=\"x\" i]:first-of-type b:last-child".toStr := by decide
example : (toSyntax x3).render = "p ~ div > a:only-of-type, [id^=\"\"]".toStr := by decide
example : (toSyntax y1).render =
    ".\\31 a\\ b#\\-:not(:is(p, #e) > [title=\"q\\\"\\a \" s], *:empty), div[type!=\"A\"] + p:only-child".toStr := by
  decide

/-- The parser on the text, instance of `parse_eq_compileList`. -/
example : Parser.compile pyFoldEnv Gen.lexicon Gen.builtinsRec
    "html:root > [class~=\"x\" i]:first-of-type b:last-child".toStr [] 0 = .ok (compileList [x2]) := by
  have h := parse_eq_compileList [x2] (by decide)
  have e : (toSyntax [x2]).render = "html:root > [class~=\"x\" i]:first-of-type b:last-child".toStr := by decide
  rwa [e] at h

def lits (s : String) : Forms := s.toStr.map fun c => (c, EscForm.lit)

/-- Another spelling of `x2`: `html:ROOT>[ class ~= 'x' I ]:first-of-type⇥b:l\61 st-child`. -/
def altX2 : SSelList :=
  .mk (.mk (some (.name (lits "html"))) [.pseudo (lits "ROOT")])
    [(.sym [] 62 [],
      .mk none [.attr ⟨[32], lits "class", some ⟨[32], some 126, [32], .str 39 [.ch 120 .lit], some ([32], 73)⟩, [32]⟩,
                .pseudo (lits "first-of-type")]),
     (.desc [9],
      .mk (some (.name (lits "b")))
        [.pseudo ((108, .lit) :: (97, .hex 2 [] (some .space)) :: lits "st-child")])]

example : ("/**/".toStr ++ altX2.render ++ " ".toStr) =
    "/**/html:ROOT>[ class ~= 'x' I ]:first-of-type\tb:l\\61 st-child ".toStr := by decide

theorem altX2_spells : Spells [x2] altX2 := rfl

theorem altX2_ok : altX2.ok " ".toStr := by
  have hd : DescGap [9] := DescGap.ws 9 [] rfl (by decide)
  simp +decide [altX2, SSelList.ok, SCompound.ok, restOK, itemsOK, SItem.ok, STag.ok, SComb.ok, SAttr.ok,
    SValue.ok, identOK, plainName, hd]

/-- End to end on the tree of `C01Sat.Examples`, for the alternative spelling between a comment and a
    space: instance of `select_text_exact` … -/
example : selectText E0 false [] "/**/html:ROOT>[ class ~= 'x' I ]:first-of-type\tb:l\\61 st-child ".toStr top 0 =
    .ok (selectSpec ctx [x2] top) :=
  select_text_exact E0 false [] [x2] (by decide) top (Or.inr rfl) (Or.inr rootAgrees_example) 0 (by decide)
    "/**/".toStr " ".toStr altX2 altX2_spells (by decide) (by decide) altX2_ok (by decide)

-- … the right-hand side being
example : (selectSpec ctx [x2] top).map Loc.pos = [[1, 1, 3]] := by decide

end Examples

#print axioms denote_toSyntax
#print axioms parse_eq_compileList
#print axioms parse_spelling_eq_compileList
#print axioms parse_spelling_eq_compileList_gen
#print axioms select_text_exact
#print axioms select_canonical_text_exact
#print axioms select_text_exact'
#print axioms toSyntax_render_plain
#print axioms parse_renderList_eq_compileList

end C01Parse
end SoupVerif
