/-
  C03 — the query entry points TRANSLATED FROM THE SOURCE (`Generated/PyApi.lean`, rebuilt by gen/gen_py_api.py
  from the text of `CSSMatch.select / match / closest / filter` and `SoupSieve.select_one / select / iselect /
  filter` on every run) are the hand model of `Model/Api.lean`, for all arguments.

  The generated functions are polymorphic in the node type and take the callees (`self.match`, `self.get_parent`,
  the values of `self.get_tag_descendants(self.tag)` …) as parameters; the theorems first characterise them for
  ALL lists / predicates / parent functions, then instantiate the parameters with the model's tree.
-/
import SoupVerif.Generated.PyApi
import SoupVerif.Properties.C03
import SoupVerif.Properties.C01GenMatch
namespace SoupVerif.C03Gen
open SoupVerif SoupVerif.PyApiLoop

/-! ### (1) `CSSMatch.select(limit)` -/
section select
variable {α : Type} (m : α → Bool)

/-- Counter `None`: the loop yields every matching item. -/
theorem forYield_none (ds : List α) :
    forYield (Gen.PyApi.selectStep m) none ds = ds.filter m := by
  induction ds with
  | nil => rfl
  | cons x xs ih =>
    cases h : m x <;> simp [forYield, Gen.PyApi.selectStep, h, ih]

/-- Counter `v ≥ 1`: the loop yields the first `v` matching items and stops. -/
theorem forYield_some (ds : List α) : ∀ (v : Int), 1 ≤ v →
    forYield (Gen.PyApi.selectStep m) (some v) ds = (ds.filter m).take v.toNat := by
  induction ds with
  | nil => intro v _; simp [forYield]
  | cons x xs ih =>
    intro v hv
    cases h : m x
    · simp [forYield, Gen.PyApi.selectStep, h, ih v hv]
    · by_cases h1 : v - 1 < 1
      · have : v = 1 := by omega
        subst this
        simp [forYield, Gen.PyApi.selectStep, h]
      · have h2 : v.toNat = (v - 1).toNat + 1 := by omega
        rw [h2]
        simp [forYield, Gen.PyApi.selectStep, h, h1, ih (v - 1) (by omega)]

/-- **The regenerated `select`, for every list of descendants, every match predicate and every `limit`.** -/
theorem gen_select_eq (limit : Int) (ds : List α) :
    Gen.PyApi.select limit ds m = if limit < 1 then ds.filter m else (ds.filter m).take limit.toNat := by
  unfold Gen.PyApi.select Gen.PyApi.selectInit
  by_cases h : limit < 1
  · simp [h, forYield_none]
  · simp [h, forYield_some m ds limit (by omega)]

/-- `limit <= 0` yields all matching descendants, in order. -/
theorem gen_select_all (limit : Int) (h : limit < 1) (ds : List α) :
    Gen.PyApi.select limit ds m = ds.filter m := by simp [gen_select_eq, h]

/-- `limit = k > 0` yields the first `k` of them. -/
theorem gen_select_limit (k : Int) (h : 0 < k) (ds : List α) :
    Gen.PyApi.select k ds m = (ds.filter m).take k.toNat := by
  have : ¬ k < 1 := by omega
  simp [gen_select_eq, this]

end select

/-- The regenerated `select` on the model's tree is the hand model's `selectIn`. -/
theorem gen_select_eq_selectIn (c : Ctx) (sel : SelList) (tag : Loc) (limit : Int) :
    Gen.PyApi.select limit (c.tagDescendants tag false) (matchEl c sel) = selectIn c sel tag limit := by
  rw [gen_select_eq]; rfl

/-- The loop iterates `self.get_tag_descendants(self.tag)` (the frame the translator checks, as a fact about the
    generated term). -/
theorem gen_select_iter : Gen.PyApi.selectIter = "self.get_tag_descendants(self.tag)" := by decide

/-! ### (2) `CSSMatch.match(el)` -/

/-- `self.match_selectors(el, self.selectors)` in the model: only elements carry a selector verdict. -/
def matchSelectorsAt (c : Ctx) (sel : SelList) (l : Loc) : Bool :=
  match l.focus with
  | .elem e _ => matchList c l e sel
  | _ => false

/-- The regenerated guard `not is_doc(el) and is_tag(el) and match_selectors(el, self.selectors)` is `matchEl`. -/
theorem gen_matchEl_eq (c : Ctx) (sel : SelList) (l : Loc) :
    Gen.PyApi.matchEl Loc.isDoc Loc.isTag (matchSelectorsAt c sel) l = matchEl c sel l := by
  unfold Gen.PyApi.matchEl matchEl matchSelectorsAt Loc.isDoc Loc.isTag
  cases l.focus <;> simp [Node.isTag]

/-- The guards, in source order. -/
theorem gen_match_conjuncts :
    Gen.PyApi.matchConjuncts =
      [(false, "self.is_doc", ["el"]), (true, "self.is_tag", ["el"]),
       (true, "self.match_selectors", ["el", "self.selectors"])] := by decide

/-- Both layers regenerated: the guard of `match` from `Generated/PyApi.lean` around the `match_selectors` of
    `Generated/PyMatchSel.lean` (`C01GenMatch.genMatchList`). -/
def genMatch (c : Ctx) (sel : SelList) (x : Loc) : Option Bool :=
  match x.focus with
  | .elem e _ => (C01GenMatch.genMatchList c x e sel).map fun r => Gen.PyApi.matchEl Loc.isDoc Loc.isTag (fun _ => r) x
  | _ => some (Gen.PyApi.matchEl Loc.isDoc Loc.isTag (fun _ => false) x)

theorem genMatch_eq (c : Ctx) (sel : SelList) (x : Loc) : genMatch c sel x = some (matchEl c sel x) := by
  unfold genMatch matchEl Gen.PyApi.matchEl Loc.isDoc Loc.isTag
  cases h : x.focus with
  | elem e kids => simp [C01GenMatch.genMatchList_eq, Node.isTag]
  | str k s => simp [Node.isTag]

/-- The regenerated `match` refuses the document object. -/
theorem gen_match_refuses_doc (c : Ctx) (sel : SelList) (x : Loc) (h : x.isDoc = true) :
    Gen.PyApi.matchEl Loc.isDoc Loc.isTag (matchSelectorsAt c sel) x = false := by
  rw [gen_matchEl_eq, C01.match_refuses_doc c sel x h]

/-! ### (3) `CSSMatch.closest()` -/
section closest
variable {α : Type}

/-- `anc` is the chain of `x`'s ancestors under `parent`, nearest first, ending where `parent` is `None`. -/
inductive IsChain (parent : α → Option α) : α → List α → Prop
  | last (x : α) : parent x = none → IsChain parent x []
  | step (x p : α) (rest : List α) : parent x = some p → IsChain parent p rest → IsChain parent x (p :: rest)

theorem whileOpt_done {σ : Type} (cond : σ → Bool) (body : σ → Option σ) (fuel : Nat) (st : σ)
    (h : cond st = false) : whileOpt cond body fuel st = some st := by
  cases fuel <;> simp [whileOpt, h]

theorem closest_loop (parent : α → Option α) (m : α → Bool) {x : α} {anc : List α} (h : IsChain parent x anc) :
    ∀ fuel, anc.length + 1 ≤ fuel →
      (whileOpt Gen.PyApi.closestCond (Gen.PyApi.closestBody parent m) fuel ⟨some x, none⟩).map Gen.PyApi.closestRet
        = some ((x :: anc).find? m) := by
  induction h with
  | last x hp =>
    intro fuel hf
    obtain ⟨f, rfl⟩ : ∃ f, fuel = f + 1 := ⟨fuel - 1, by omega⟩
    cases hm : m x <;>
      simp [whileOpt, Gen.PyApi.closestCond, Gen.PyApi.closestBody, hm, hp, whileOpt_done, Gen.PyApi.closestRet]
  | step x p rest hp _ ih =>
    intro fuel hf
    obtain ⟨f, rfl⟩ : ∃ f, fuel = f + 1 := ⟨fuel - 1, by omega⟩
    cases hm : m x
    · have := ih f (by simp at hf ⊢; omega)
      simp [whileOpt, Gen.PyApi.closestCond, Gen.PyApi.closestBody, hm, hp, this]
    · simp [whileOpt, Gen.PyApi.closestCond, Gen.PyApi.closestBody, hm, whileOpt_done, Gen.PyApi.closestRet]

/-- **The regenerated `closest`, for every parent function with a finite chain and every match predicate**: the
    first matching item of `tag :: ancestors`, with a verdict (`some`) as soon as the fuel covers the chain. -/
theorem gen_closest_eq (parent : α → Option α) (m : α → Bool) (tag : α) (anc : List α)
    (h : IsChain parent tag anc) (fuel : Nat) (hf : anc.length + 1 ≤ fuel) :
    Gen.PyApi.closest parent m tag fuel = some ((tag :: anc).find? m) := by
  unfold Gen.PyApi.closest Gen.PyApi.closestInit
  exact closest_loop parent m h fuel hf

end closest

theorem isChain_aux (n : Node) (up : List Frame) : IsChain Loc.parent? ⟨n, up⟩ (Loc.ancestorsAux n up) := by
  induction up generalizing n with
  | nil => exact .last _ rfl
  | cons f rest ih => exact .step _ _ _ rfl (ih _)

/-- `Loc.ancestors` is the `.parent` chain. -/
theorem isChain_ancestors (l : Loc) : IsChain Loc.parent? l l.ancestors := isChain_aux l.focus l.up

/-- The regenerated `closest` on the model's tree is the hand model's `closest`. -/
theorem gen_closest_eq_model (E : Env) (x : Bool) (ns : List (Str × Str)) (sel : SelList) (tag : Loc)
    (fuel : Nat) (hf : tag.ancestors.length + 1 ≤ fuel) :
    Gen.PyApi.closest Loc.parent? (matchEl (mkCtx E x ns tag) sel) tag fuel = some (closest E x ns sel tag) := by
  rw [gen_closest_eq _ _ _ _ (isChain_ancestors tag) fuel hf]; rfl

/-- `closest_nearest` (C03) about the regenerated function. -/
theorem gen_closest_spec (E : Env) (x : Bool) (ns : List (Str × Str)) (sel : SelList) (tag : Loc) :
    Gen.PyApi.closest Loc.parent? (matchEl (mkCtx E x ns tag) sel) tag (tag.ancestors.length + 1)
      = some ((tag :: tag.ancestors).find? (matchEl (mkCtx E x ns tag) sel)) :=
  gen_closest_eq _ _ _ _ (isChain_ancestors tag) _ (Nat.le_refl _)

/-! ### (4) `CSSMatch.filter()` -/

/-- For every list of contents and predicates: the items that are tags and match, in order. -/
theorem gen_filter_eq {α : Type} (isTag m : α → Bool) (contents : List α) :
    Gen.PyApi.filter isTag m contents = (contents.filter isTag).filter m := by
  simp [Gen.PyApi.filter, List.filter_filter, Bool.and_comm]

/-- The regenerated `filter` on the model's tree is the hand model's `filterTag`. -/
theorem gen_filter_eq_filterTag (E : Env) (x : Bool) (ns : List (Str × Str)) (sel : SelList) (tag : Loc) :
    Gen.PyApi.filter Loc.isTag (matchEl (mkCtx E x ns tag) sel) tag.children = filterTag E x ns sel tag := by
  rw [gen_filter_eq]; rfl

/-! ### (5) the `SoupSieve` methods -/
section sieve
variable {α : Type}

/-- `select_one` = `tags[0] if tags else None` never raises and is the head of `select(tag, limit=1)`. -/
theorem gen_selectOne_eq (select : Int → List α) : Gen.PyApi.selectOne select = some (select 1).head? := by
  unfold Gen.PyApi.selectOne
  cases h : select 1 <;> simp [truthy, getItem]

/-- `select` is `iselect` as lists. -/
theorem gen_sieveSelect_eq (iselect : Int → List α) (limit : Int) :
    Gen.PyApi.sieveSelect iselect limit = iselect limit := rfl

/-- `iselect(tag, limit)` is `CSSMatch(…).select(limit)`. -/
theorem gen_sieveIselect_eq (cssSelect : Int → List α) (limit : Int) :
    Gen.PyApi.sieveIselect cssSelect limit = cssSelect limit := rfl

/-- The three layers composed (`SoupSieve.select` → `iselect` → `CSSMatch.select`). -/
def genSieveSelect (ds : List α) (m : α → Bool) (limit : Int) : List α :=
  Gen.PyApi.sieveSelect (Gen.PyApi.sieveIselect fun k => Gen.PyApi.select k ds m) limit

/-- **`select_one` is the head of the UNLIMITED `select`, or `None`** — for all lists and predicates. -/
theorem gen_selectOne_head (ds : List α) (m : α → Bool) :
    Gen.PyApi.selectOne (genSieveSelect ds m) = some (genSieveSelect ds m 0).head? := by
  rw [gen_selectOne_eq]
  simp only [genSieveSelect, gen_sieveSelect_eq, gen_sieveIselect_eq, gen_select_eq]
  cases ds.filter m <;> simp

theorem gen_sieveFilter_tag (cf : List α) (nav m : α → Bool) (items : List α) :
    Gen.PyApi.sieveFilter true cf nav m items = cf := rfl

theorem gen_sieveFilter_iter (cf : List α) (nav m : α → Bool) (items : List α) :
    Gen.PyApi.sieveFilter false cf nav m items = items.filter fun n => !nav n && m n := by
  simp [Gen.PyApi.sieveFilter]

end sieve

/-- The composed regenerated `select` on the model's tree is the hand model's `select`. -/
theorem gen_sieveSelect_eq_model (E : Env) (x : Bool) (ns : List (Str × Str)) (sel : SelList) (tag : Loc) (limit : Int) :
    genSieveSelect ((mkCtx E x ns tag).tagDescendants tag false) (matchEl (mkCtx E x ns tag) sel) limit
      = select E x ns sel tag limit := by
  unfold genSieveSelect
  rw [gen_sieveSelect_eq, gen_sieveIselect_eq, gen_select_eq_selectIn]; rfl

/-- The regenerated `select_one` on the model's tree is the hand model's `selectOne`. -/
theorem gen_selectOne_eq_model (E : Env) (x : Bool) (ns : List (Str × Str)) (sel : SelList) (tag : Loc) :
    Gen.PyApi.selectOne (genSieveSelect ((mkCtx E x ns tag).tagDescendants tag false) (matchEl (mkCtx E x ns tag) sel))
      = some (selectOne E x ns sel tag) := by
  rw [gen_selectOne_eq, gen_sieveSelect_eq_model]; rfl

/-- The regenerated `SoupSieve.filter` is the hand model's `filterTag` / `filterIter`. -/
theorem gen_sieveFilter_eq_model (E : Env) (x : Bool) (ns : List (Str × Str)) (sel : SelList) (tag : Loc) (items : List Loc) :
    Gen.PyApi.sieveFilter true (Gen.PyApi.filter Loc.isTag (matchEl (mkCtx E x ns tag) sel) tag.children)
        (fun n => !n.isTag) (matchTagApi E x ns sel) items = filterTag E x ns sel tag ∧
    Gen.PyApi.sieveFilter false (Gen.PyApi.filter Loc.isTag (matchEl (mkCtx E x ns tag) sel) tag.children)
        (fun n => !n.isTag) (matchTagApi E x ns sel) items = filterIter E x ns sel items := by
  refine ⟨by rw [gen_sieveFilter_tag, gen_filter_eq_filterTag], ?_⟩
  rw [gen_sieveFilter_iter]; simp [filterIter]

end SoupVerif.C03Gen
