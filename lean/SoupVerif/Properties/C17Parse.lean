/-
  C17, tied to the PARSER by proof: the HTML state pseudo-classes from the selector TEXT.

  `Properties/C17.lean` proves the partition and definition laws of C17 about the matcher model run on the
  built-in selector lists `Gen.CSS_ENABLED`, `Gen.CSS_DISABLED`, … regenerated from `css_parser.py` — at IR
  level: `matchList c l e Gen.CSS_X`.  That the pattern text `:enabled` (in whatever spelling) makes the parser
  hand exactly that list to the matcher was only tested.  `Properties/C09Compile.lean` proves
  `compile_eq_denote`: the parser model on the text of any spelling of a selector list returns `denote B` of
  its token values.  This file composes the two.

    * `SpellsPseudo name t`   the domain: `t` is `g₁ ++ ':' :: renderIdentWith f ++ g₂` — two gaps (whitespace
                              and complete comments) around a colon and an identifier in ANY admissible
                              spelling (`identOK`: literal characters, `\c`, hex escapes with any padding and
                              terminator) whose code points LOWER-CASE to `name`; no NUL in `t`;
                              `spells_literal`: the keyword written plainly is one of them;
    * `compile_state_text`    (`compile_K_text`; one corollary per keyword: `compile_enabled_text`, …)
                              `Parser.compile pyFoldEnv Gen.lexicon Gen.builtinsRec t [] 0 = .ok (oneSub Gen.CSS_X)`:
                              one compound, the `*` every top-level compound is given, no flags, and the
                              regenerated list as its only nested list;  `compile_root_text`,
                              `compile_empty_text`: the flag `SEL_ROOT` / `SEL_EMPTY` instead;
                              `compile_state_text_gen`: for an arbitrary table `B` of built-in lists the entry
                              `K.pick B` (`:link` and `:any-link` read the same entry);
    * `matchEl_oneSub`        the bridging lemma: the matcher on such a compound is
                              `!e.isDoc && inDefaultNs c e && matchList c l e L`;
    * `state_text`            `matchText c t l = .ok (!e.isDoc && inDefaultNs c e && matchList c l e Gen.CSS_X)`
                              (`matchText`: text → parser → `CSSMatch.match`, `Properties/C12Parse.lean`);
    * the laws, on the TEXT (section "The laws"), each derived from the theorem of `Properties/C17.lean` of the
      same name:  `enabled_disabled_text`, `required_optional_text`, `readwrite_readonly_text`,
      `inrange_outofrange_text`, `link_anylink_text`, `checked_sub_default_text`, and the definitions
      `checked_text_def`, `disabled_text_def`, `default_text_def`, `indeterminate_text_def`,
      `placeholder_shown_text_def`, `link_text_def`, `root_text`, `empty_text`;
    * `state_text_xml`        in a document that is XML but not XHTML (`c.isHtml = false`) every one of the
                              fourteen patterns answers `false` on every element;
    * `SpellsDir`, `compile_dir_text`, `dir_text`, `dir_partition_text`, `dir_text_xml`
                              the same for `:dir(ltr)` / `:dir(rtl)` (name in any spelling, keyword in any letter
                              case, gaps inside the parentheses): `match_dir`, and `C17.dir_partition` on the text.

  Hypotheses, all explicit: `SpellsPseudo` (above); `l.focus = .elem e kids` (the location holds an element);
  for the laws `c.isHtml = true`, as in `Properties/C17.lean`.

  WHAT THE TEXT LEVEL ADDS TO THE IR-LEVEL STATEMENTS (confirmed on the real library):
  the parser gives the top-level compound the type selector `*` WITHOUT a namespace prefix, which the matcher
  subjects to the caller's DEFAULT namespace (`namespaces={'': uri}`): `inDefaultNs c e`.  So
  "`:enabled` ∪ `:disabled` = the form controls" holds on the text only among the elements in the default
  namespace (all elements when the map has no `''` entry: `inDefaultNs_of_no_default`).  With
  `namespaces={'': 'urn:other'}` both `:enabled` and `:disabled` select nothing in an HTML document.
  `CSSMatch.match` also refuses the `BeautifulSoup` object itself (`e.isDoc`).
-/
import SoupVerif.Refine.C17ParseBase
import SoupVerif.Properties.C17
import SoupVerif.Properties.C12Parse
namespace SoupVerif
namespace C17Parse
open SoupVerif.Parser Spelling Escape Refine.Compile StateLaws
open C09Compile (Forms identOK)
open C12Parse (matchText matchTextApi)
open Refine.C17Parse

/-! ## The domain: spellings of `:name` -/

/-- `t` spells the pattern `:name` (`name` lower case, without the colon): a colon and an identifier in any
    admissible spelling whose value lower-cases to `name`, between two gaps; no NUL. -/
def SpellsPseudo (name : Str) (t : Str) : Prop :=
  ∃ (f : Forms) (g₁ g₂ : Str),
    t = g₁ ++ 58 :: renderIdentWith f ++ g₂ ∧ isGap g₁ ∧ isGap g₂ ∧ identOK f g₂ ∧
      lower (valueOf f) = name ∧ ∀ x ∈ t, x ≠ 0

/-- The identifier written with literal characters only. -/
def lits (s : Str) : Forms := s.map fun c => (c, EscForm.lit)

theorem lits_value (s : Str) : valueOf (lits s) = s := by
  induction s with
  | nil => rfl
  | cons c cs ih => simp [lits, valueOf] at ih ⊢; exact ih

/-- The keyword written plainly, `:enabled`, is a spelling. -/
theorem spells_literal (K : StateKw) : SpellsPseudo K.name (58 :: K.name) := by
  refine ⟨lits K.name, [], [], ?_, by decide, by decide, ?_, ?_, ?_⟩
  · cases K <;> decide
  · cases K <;> (simp only [identOK]; decide)
  · cases K <;> decide
  · cases K <;> decide

/-! ## 1. The parser on the text -/

/-- **`compile_K_text`, for an arbitrary table of built-in lists.** -/
theorem compile_state_text_gen (B : Builtins) (K : StateKw) (t : Str) (h : SpellsPseudo K.name t) :
    Parser.compile pyFoldEnv Gen.lexicon B t [] 0 = .ok (oneSub (K.pick B)) := by
  obtain ⟨f, g₁, g₂, rfl, hg₁, hg₂, hf, hK, h0⟩ := h
  exact compile_state B K f g₁ g₂ hg₁ hg₂ hf hK h0

/-- **`compile_K_text`.**  For each of the fourteen state keywords `K` of C17, in ANY spelling: the parser
    model (regenerated lexicon, the built-in lists the driver uses) returns the one-compound selector list
    whose only content is the regenerated list `Gen.CSS_X`. -/
theorem compile_state_text (K : StateKw) (t : Str) (h : SpellsPseudo K.name t) :
    Parser.compile pyFoldEnv Gen.lexicon Gen.builtinsRec t [] 0 = .ok (oneSub K.list) := by
  rw [compile_state_text_gen Gen.builtinsRec K t h, K.pick_builtinsRec]

theorem compile_enabled_text (t : Str) (h : SpellsPseudo "enabled".toStr t) :
    Parser.compile pyFoldEnv Gen.lexicon Gen.builtinsRec t [] 0 = .ok (oneSub Gen.CSS_ENABLED) :=
  compile_state_text .enabled t h
theorem compile_disabled_text (t : Str) (h : SpellsPseudo "disabled".toStr t) :
    Parser.compile pyFoldEnv Gen.lexicon Gen.builtinsRec t [] 0 = .ok (oneSub Gen.CSS_DISABLED) :=
  compile_state_text .disabled t h
theorem compile_required_text (t : Str) (h : SpellsPseudo "required".toStr t) :
    Parser.compile pyFoldEnv Gen.lexicon Gen.builtinsRec t [] 0 = .ok (oneSub Gen.CSS_REQUIRED) :=
  compile_state_text .required t h
theorem compile_optional_text (t : Str) (h : SpellsPseudo "optional".toStr t) :
    Parser.compile pyFoldEnv Gen.lexicon Gen.builtinsRec t [] 0 = .ok (oneSub Gen.CSS_OPTIONAL) :=
  compile_state_text .optional t h
theorem compile_read_write_text (t : Str) (h : SpellsPseudo "read-write".toStr t) :
    Parser.compile pyFoldEnv Gen.lexicon Gen.builtinsRec t [] 0 = .ok (oneSub Gen.CSS_READ_WRITE) :=
  compile_state_text .readWrite t h
theorem compile_read_only_text (t : Str) (h : SpellsPseudo "read-only".toStr t) :
    Parser.compile pyFoldEnv Gen.lexicon Gen.builtinsRec t [] 0 = .ok (oneSub Gen.CSS_READ_ONLY) :=
  compile_state_text .readOnly t h
theorem compile_in_range_text (t : Str) (h : SpellsPseudo "in-range".toStr t) :
    Parser.compile pyFoldEnv Gen.lexicon Gen.builtinsRec t [] 0 = .ok (oneSub Gen.CSS_IN_RANGE) :=
  compile_state_text .inRange t h
theorem compile_out_of_range_text (t : Str) (h : SpellsPseudo "out-of-range".toStr t) :
    Parser.compile pyFoldEnv Gen.lexicon Gen.builtinsRec t [] 0 = .ok (oneSub Gen.CSS_OUT_OF_RANGE) :=
  compile_state_text .outOfRange t h
theorem compile_link_text (t : Str) (h : SpellsPseudo "link".toStr t) :
    Parser.compile pyFoldEnv Gen.lexicon Gen.builtinsRec t [] 0 = .ok (oneSub Gen.CSS_LINK) :=
  compile_state_text .link t h
theorem compile_any_link_text (t : Str) (h : SpellsPseudo "any-link".toStr t) :
    Parser.compile pyFoldEnv Gen.lexicon Gen.builtinsRec t [] 0 = .ok (oneSub Gen.CSS_LINK) :=
  compile_state_text .anyLink t h
theorem compile_checked_text (t : Str) (h : SpellsPseudo "checked".toStr t) :
    Parser.compile pyFoldEnv Gen.lexicon Gen.builtinsRec t [] 0 = .ok (oneSub Gen.CSS_CHECKED) :=
  compile_state_text .checked t h
theorem compile_default_text (t : Str) (h : SpellsPseudo "default".toStr t) :
    Parser.compile pyFoldEnv Gen.lexicon Gen.builtinsRec t [] 0 = .ok (oneSub Gen.CSS_DEFAULT) :=
  compile_state_text .dflt t h
theorem compile_indeterminate_text (t : Str) (h : SpellsPseudo "indeterminate".toStr t) :
    Parser.compile pyFoldEnv Gen.lexicon Gen.builtinsRec t [] 0 = .ok (oneSub Gen.CSS_INDETERMINATE) :=
  compile_state_text .indeterminate t h
theorem compile_placeholder_shown_text (t : Str) (h : SpellsPseudo "placeholder-shown".toStr t) :
    Parser.compile pyFoldEnv Gen.lexicon Gen.builtinsRec t [] 0 = .ok (oneSub Gen.CSS_PLACEHOLDER_SHOWN) :=
  compile_state_text .placeholderShown t h

/-- `:root` (any spelling, any table of built-in lists): the flag `SEL_ROOT` on the compound `*`. -/
theorem compile_root_text (B : Builtins) (t : Str) (h : SpellsPseudo "root".toStr t) :
    Parser.compile pyFoldEnv Gen.lexicon B t [] 0 = .ok (oneFlag SEL_ROOT) := by
  obtain ⟨f, g₁, g₂, rfl, hg₁, hg₂, hf, hK, h0⟩ := h
  exact compile_root B f g₁ g₂ hg₁ hg₂ hf hK h0

/-- `:empty`: the flag `SEL_EMPTY`. -/
theorem compile_empty_text (B : Builtins) (t : Str) (h : SpellsPseudo "empty".toStr t) :
    Parser.compile pyFoldEnv Gen.lexicon B t [] 0 = .ok (oneFlag SEL_EMPTY) := by
  obtain ⟨f, g₁, g₂, rfl, hg₁, hg₂, hf, hK, h0⟩ := h
  exact compile_empty B f g₁ g₂ hg₁ hg₂ hf hK h0

/-! ## The bridge: the matcher on a compound that holds one nested list -/

/-- What the implied `*` of a top-level compound demands of the element: to be in the caller's default
    namespace, when the namespace map has one. -/
def inDefaultNs (c : Ctx) (e : Elem) : Bool := matchTag c e (some ⟨[42], none⟩)

theorem inDefaultNs_iff (c : Ctx) (e : Elem) :
    inDefaultNs c e = true ↔ (c.nsGet [] = none ∨ c.nsGet [] = some (C12.uri c e)) := by
  have := C12Parse.matchTag_implTag_iff c e none
  exact this

theorem inDefaultNs_of_no_default (c : Ctx) (e : Elem) (h : c.nsGet [] = none) : inDefaultNs c e = true :=
  (inDefaultNs_iff c e).2 (Or.inl h)

/-- No namespace map at all (`namespaces=None`). -/
theorem inDefaultNs_of_no_map (c : Ctx) (e : Elem) (h : c.namespaces = []) : inDefaultNs c e = true :=
  inDefaultNs_of_no_default c e (by simp [Ctx.nsGet, h])

/-- **A compound whose only part is the nested list `L` (no flags) matches iff `L` matches** — and the
    element passes the implied `*`. -/
theorem matchList_oneSub (c : Ctx) (l : Loc) (e : Elem) (L : SelList) :
    matchList c l e (oneSub L) = (inDefaultNs c e && matchList c l e L) := by
  unfold oneSub
  rw [matchList_pos, matchAny_cons, matchAny_nil]
  have := matchSel_cmpG c l e (some ⟨[42], none⟩) [] [] [L] E .none 0
  simp only [Bool.not_false, Bool.true_or, Bool.true_and, Bool.false_eq_true, if_false, Bool.or_false]
  rw [this, C11.matchAttributes_nil, matchNths_nil, matchSubs_cons, matchSubs_nil, relPart_E, flagPart_zero]
  simp only [Bool.and_true, inDefaultNs]

theorem matchEl_oneSub (c : Ctx) (l : Loc) (e : Elem) (kids : List Node) (hf : l.focus = .elem e kids)
    (L : SelList) :
    matchEl c (oneSub L) l = (!e.isDoc && inDefaultNs c e && matchList c l e L) := by
  unfold matchEl
  rw [hf]
  simp only [matchList_oneSub, Bool.and_assoc]

theorem flagPart_root (c : Ctx) (l : Loc) (e : Elem) : flagPart c l e SEL_ROOT = matchRoot c l := by
  simp [flagPart, hasFlag, SEL_DEFAULT, SEL_DEFINED, SEL_ROOT, SEL_SCOPE, SEL_PLACEHOLDER_SHOWN,
    SEL_EMPTY, RANGES, SEL_IN_RANGE, SEL_OUT_OF_RANGE, SEL_INDETERMINATE, DIR_FLAGS, SEL_DIR_LTR,
    SEL_DIR_RTL]

theorem flagPart_empty (c : Ctx) (l : Loc) (e : Elem) : flagPart c l e SEL_EMPTY = matchEmpty l := by
  simp [flagPart, hasFlag, SEL_DEFAULT, SEL_DEFINED, SEL_ROOT, SEL_SCOPE, SEL_PLACEHOLDER_SHOWN,
    SEL_EMPTY, RANGES, SEL_IN_RANGE, SEL_OUT_OF_RANGE, SEL_INDETERMINATE, DIR_FLAGS, SEL_DIR_LTR,
    SEL_DIR_RTL]

theorem matchEl_oneFlag (c : Ctx) (l : Loc) (e : Elem) (kids : List Node) (hf : l.focus = .elem e kids)
    (v : Nat) :
    matchEl c (oneFlag v) l = (!e.isDoc && inDefaultNs c e && flagPart c l e v) := by
  unfold matchEl oneFlag
  rw [hf]
  simp only
  rw [matchList_pos, matchAny_cons, matchAny_nil]
  have := matchSel_cmpG c l e (some ⟨[42], none⟩) [] [] [] E .none v
  simp only [Bool.not_false, Bool.true_or, Bool.true_and, Bool.false_eq_true, if_false, Bool.or_false]
  rw [this, C11.matchAttributes_nil, matchNths_nil, matchSubs_nil, relPart_E]
  simp only [Bool.and_true, inDefaultNs, Bool.and_assoc]

/-! ## 2. Text in, verdict out -/

/-- What `CSSMatch.match` and the implied `*` demand of the subject whatever the pseudo-class: not the
    `BeautifulSoup` object, and in the caller's default namespace when the map has one. -/
def subjectOk (c : Ctx) (e : Elem) : Bool := !e.isDoc && inDefaultNs c e

theorem subjectOk_iff (c : Ctx) (e : Elem) :
    subjectOk c e = true ↔ e.isDoc = false ∧ (c.nsGet [] = none ∨ c.nsGet [] = some (C12.uri c e)) := by
  unfold subjectOk
  rw [Bool.and_eq_true, inDefaultNs_iff]
  simp

/-- An element proper, no default namespace in the caller's map. -/
theorem subjectOk_plain (c : Ctx) (e : Elem) (hd : e.isDoc = false) (hns : c.nsGet [] = none) :
    subjectOk c e = true :=
  (subjectOk_iff c e).2 ⟨hd, Or.inl hns⟩

/-- **A state pseudo-class on the TEXT**: parser, then matcher, on any spelling of `:K` = the regenerated
    list `Gen.CSS_X` on the element (and the subject guard). -/
theorem state_text (K : StateKw) (c : Ctx) (l : Loc) (e : Elem) (kids : List Node)
    (hf : l.focus = .elem e kids) (t : Str) (h : SpellsPseudo K.name t) :
    matchText c t l = .ok (subjectOk c e && matchList c l e K.list) := by
  unfold matchText
  rw [compile_state_text K t h]
  simp only
  rw [matchEl_oneSub c l e kids hf, subjectOk]

/-- `SoupSieve.match(tag)` on the pattern text (`matchTextApi`, `mkCtx`). -/
theorem state_text_api (K : StateKw) (E : Env) (isXml : Bool) (ns : List (Str × Str)) (tag : Loc) (e : Elem)
    (kids : List Node) (hf : tag.focus = .elem e kids) (t : Str) (h : SpellsPseudo K.name t) :
    matchTextApi E isXml ns t tag =
      .ok (subjectOk (mkCtx E isXml ns tag) e && matchList (mkCtx E isXml ns tag) tag e K.list) :=
  state_text K (mkCtx E isXml ns tag) tag e kids hf t h

/-- `:root` on the text. -/
theorem root_text (c : Ctx) (l : Loc) (e : Elem) (kids : List Node) (hf : l.focus = .elem e kids) (t : Str)
    (h : SpellsPseudo "root".toStr t) :
    matchText c t l = .ok (subjectOk c e && matchRoot c l) := by
  unfold matchText
  rw [compile_root_text Gen.builtinsRec t h]
  simp only
  rw [matchEl_oneFlag c l e kids hf, flagPart_root, subjectOk]

/-- `:empty` on the text. -/
theorem empty_text (c : Ctx) (l : Loc) (e : Elem) (kids : List Node) (hf : l.focus = .elem e kids) (t : Str)
    (h : SpellsPseudo "empty".toStr t) :
    matchText c t l = .ok (subjectOk c e && matchEmpty l) := by
  unfold matchText
  rw [compile_empty_text Gen.builtinsRec t h]
  simp only
  rw [matchEl_oneFlag c l e kids hf, flagPart_empty, subjectOk]

/-! ## The laws, on the text

  Each theorem takes two (or one) pattern texts, ANY spellings of the keywords, and speaks about the two
  verdicts `b₁`, `b₂` of the text → parser → matcher composition on the element `e` at `l`.  `c` is an
  arbitrary matcher context of an HTML document (`c.isHtml = true`), as in `Properties/C17.lean`. -/

theorem pair_laws (g A B : Bool) (P : Prop) (hd : ¬ (A = true ∧ B = true)) (hi : (A = true ∨ B = true) ↔ P) :
    ¬ ((g && A) = true ∧ (g && B) = true) ∧ (((g && A) = true ∨ (g && B) = true) ↔ (g = true ∧ P)) := by
  cases g <;> simp_all

section Laws
variable (c : Ctx) (l : Loc) (e : Elem) (kids : List Node)

/-- **`:enabled` / `:disabled` on the text.**  Never both; one of them iff the element is a form control
    (`C17.isFormControl`: HTML `button`, `select`, `textarea`, `fieldset`, `optgroup`, `option`, or `input`
    not of type `hidden`) — and passes the subject guard; on such an element exactly one. -/
theorem enabled_disabled_text (hc : c.isHtml = true) (hf : l.focus = .elem e kids) (t₁ t₂ : Str)
    (h₁ : SpellsPseudo "enabled".toStr t₁) (h₂ : SpellsPseudo "disabled".toStr t₂) :
    ∃ b₁ b₂, matchText c t₁ l = .ok b₁ ∧ matchText c t₂ l = .ok b₂ ∧
      ¬ (b₁ = true ∧ b₂ = true) ∧
      ((b₁ = true ∨ b₂ = true) ↔ (subjectOk c e = true ∧ C17.isFormControl c e = true)) ∧
      (subjectOk c e = true → C17.isFormControl c e = true → b₁ = !b₂) := by
  refine ⟨_, _, state_text .enabled c l e kids hf t₁ h₁, state_text .disabled c l e kids hf t₂ h₂, ?_⟩
  have hp := pair_laws (subjectOk c e) _ _ _ (C17.enabled_disabled_disjoint c l e hc)
    (C17.enabled_or_disabled_iff_control c l e hc)
  refine ⟨hp.1, hp.2, ?_⟩
  intro hs hk
  show (subjectOk c e && matchList c l e Gen.CSS_ENABLED) = !(subjectOk c e && matchList c l e Gen.CSS_DISABLED)
  rw [hs, C17.enabled_xor_disabled c l e hc hk]
  simp

/-- … for an element proper under a namespace map without a default entry: the IR-level law verbatim. -/
theorem enabled_disabled_text_plain (hc : c.isHtml = true) (hf : l.focus = .elem e kids)
    (hd : e.isDoc = false) (hns : c.nsGet [] = none) (t₁ t₂ : Str)
    (h₁ : SpellsPseudo "enabled".toStr t₁) (h₂ : SpellsPseudo "disabled".toStr t₂) :
    ∃ b₁ b₂, matchText c t₁ l = .ok b₁ ∧ matchText c t₂ l = .ok b₂ ∧
      ¬ (b₁ = true ∧ b₂ = true) ∧
      ((b₁ = true ∨ b₂ = true) ↔ C17.isFormControl c e = true) ∧
      (C17.isFormControl c e = true → b₁ = !b₂) := by
  obtain ⟨b₁, b₂, e₁, e₂, hdis, hcov, hx⟩ := enabled_disabled_text c l e kids hc hf t₁ t₂ h₁ h₂
  have hs := subjectOk_plain c e hd hns
  exact ⟨b₁, b₂, e₁, e₂, hdis, hcov.trans (by simp [hs]), hx hs⟩

/-- **`:required` / `:optional` on the text**: never both; one of them iff the element is an HTML `input`,
    `textarea` or `select` (and passes the subject guard); on such an element exactly one. -/
theorem required_optional_text (hc : c.isHtml = true) (hf : l.focus = .elem e kids) (t₁ t₂ : Str)
    (h₁ : SpellsPseudo "required".toStr t₁) (h₂ : SpellsPseudo "optional".toStr t₂) :
    ∃ b₁ b₂, matchText c t₁ l = .ok b₁ ∧ matchText c t₂ l = .ok b₂ ∧
      ¬ (b₁ = true ∧ b₂ = true) ∧
      ((b₁ = true ∨ b₂ = true) ↔
        (subjectOk c e = true ∧ C17.htmlNamed c e ["input", "textarea", "select"] = true)) ∧
      (subjectOk c e = true → C17.htmlNamed c e ["input", "textarea", "select"] = true → b₁ = !b₂) := by
  refine ⟨_, _, state_text .required c l e kids hf t₁ h₁, state_text .optional c l e kids hf t₂ h₂, ?_⟩
  have hp := pair_laws (subjectOk c e) _ _ _ (C17.required_optional_disjoint c l e hc)
    (C17.required_optional_partition c l e hc)
  refine ⟨hp.1, hp.2, ?_⟩
  intro hs hk
  show (subjectOk c e && matchList c l e Gen.CSS_REQUIRED) = !(subjectOk c e && matchList c l e Gen.CSS_OPTIONAL)
  rw [hs, C17.required_xor_optional c l e hc hk]
  simp

theorem required_optional_text_plain (hc : c.isHtml = true) (hf : l.focus = .elem e kids)
    (hd : e.isDoc = false) (hns : c.nsGet [] = none) (t₁ t₂ : Str)
    (h₁ : SpellsPseudo "required".toStr t₁) (h₂ : SpellsPseudo "optional".toStr t₂) :
    ∃ b₁ b₂, matchText c t₁ l = .ok b₁ ∧ matchText c t₂ l = .ok b₂ ∧
      ¬ (b₁ = true ∧ b₂ = true) ∧
      ((b₁ = true ∨ b₂ = true) ↔ C17.htmlNamed c e ["input", "textarea", "select"] = true) ∧
      (C17.htmlNamed c e ["input", "textarea", "select"] = true → b₁ = !b₂) := by
  obtain ⟨b₁, b₂, e₁, e₂, hdis, hcov, hx⟩ := required_optional_text c l e kids hc hf t₁ t₂ h₁ h₂
  have hs := subjectOk_plain c e hd hns
  exact ⟨b₁, b₂, e₁, e₂, hdis, hcov.trans (by simp [hs]), hx hs⟩

/-- **`:read-write` / `:read-only` on the text**: never both; one of them iff the element is in the XHTML
    namespace (`c.isHtmlTag e`: every element, when the tree builder keeps no namespaces) and passes the
    subject guard; on such an element exactly one. -/
theorem readwrite_readonly_text (hc : c.isHtml = true) (hf : l.focus = .elem e kids) (t₁ t₂ : Str)
    (h₁ : SpellsPseudo "read-write".toStr t₁) (h₂ : SpellsPseudo "read-only".toStr t₂) :
    ∃ b₁ b₂, matchText c t₁ l = .ok b₁ ∧ matchText c t₂ l = .ok b₂ ∧
      ¬ (b₁ = true ∧ b₂ = true) ∧
      ((b₁ = true ∨ b₂ = true) ↔ (subjectOk c e = true ∧ c.isHtmlTag e = true)) ∧
      (subjectOk c e = true → c.isHtmlTag e = true → b₁ = !b₂) := by
  refine ⟨_, _, state_text .readWrite c l e kids hf t₁ h₁, state_text .readOnly c l e kids hf t₂ h₂, ?_⟩
  have hro := C17.readwrite_readonly_partition c l e hc
  have hdis : ¬ (matchList c l e Gen.CSS_READ_WRITE = true ∧ matchList c l e Gen.CSS_READ_ONLY = true) := by
    rw [hro]; cases matchList c l e Gen.CSS_READ_WRITE <;> simp
  have hp := pair_laws (subjectOk c e) _ _ _ hdis (C17.readwrite_or_readonly_iff c l e hc)
  refine ⟨hp.1, hp.2, ?_⟩
  intro hs hk
  show (subjectOk c e && matchList c l e Gen.CSS_READ_WRITE) = !(subjectOk c e && matchList c l e Gen.CSS_READ_ONLY)
  rw [hs, hro, hk]
  simp

theorem readwrite_readonly_text_plain (hc : c.isHtml = true) (hf : l.focus = .elem e kids)
    (hd : e.isDoc = false) (hns : c.nsGet [] = none) (t₁ t₂ : Str)
    (h₁ : SpellsPseudo "read-write".toStr t₁) (h₂ : SpellsPseudo "read-only".toStr t₂) :
    ∃ b₁ b₂, matchText c t₁ l = .ok b₁ ∧ matchText c t₂ l = .ok b₂ ∧
      ¬ (b₁ = true ∧ b₂ = true) ∧
      ((b₁ = true ∨ b₂ = true) ↔ c.isHtmlTag e = true) ∧
      (c.isHtmlTag e = true → b₁ = !b₂) := by
  obtain ⟨b₁, b₂, e₁, e₂, hdis, hcov, hx⟩ := readwrite_readonly_text c l e kids hc hf t₁ t₂ h₁ h₂
  have hs := subjectOk_plain c e hd hns
  exact ⟨b₁, b₂, e₁, e₂, hdis, hcov.trans (by simp [hs]), hx hs⟩

/-- **`:in-range` / `:out-of-range` on the text**: never both; one of them iff the element is an HTML `input`
    of a range type carrying `min` or `max` (`C17.rangeCompoundHolds`) for which `match_range` finds a valid
    bound without raising (`C17.rangeState … isSome`, spelled out by `C17.rangeState_isSome_iff`) — and passes
    the subject guard; on such an element exactly one. -/
theorem inrange_outofrange_text (hc : c.isHtml = true) (hf : l.focus = .elem e kids) (t₁ t₂ : Str)
    (h₁ : SpellsPseudo "in-range".toStr t₁) (h₂ : SpellsPseudo "out-of-range".toStr t₂) :
    ∃ b₁ b₂, matchText c t₁ l = .ok b₁ ∧ matchText c t₂ l = .ok b₂ ∧
      ¬ (b₁ = true ∧ b₂ = true) ∧
      ((b₁ = true ∨ b₂ = true) ↔
        (subjectOk c e = true ∧ (C17.rangeCompoundHolds c e = true ∧ (C17.rangeState c e).isSome = true))) ∧
      (subjectOk c e = true → C17.rangeCompoundHolds c e = true → (C17.rangeState c e).isSome = true →
        b₁ = !b₂) := by
  refine ⟨_, _, state_text .inRange c l e kids hf t₁ h₁, state_text .outOfRange c l e kids hf t₂ h₂, ?_⟩
  have hp := pair_laws (subjectOk c e) _ _ _ (C17.inrange_outofrange_disjoint c l e hc)
    (C17.inrange_or_outofrange_iff c l e hc)
  refine ⟨hp.1, hp.2, ?_⟩
  intro hs hk hr
  show (subjectOk c e && matchList c l e Gen.CSS_IN_RANGE) = !(subjectOk c e && matchList c l e Gen.CSS_OUT_OF_RANGE)
  rw [hs, C17.inrange_eq c l e hc, C17.outofrange_eq c l e hc, hk]
  cases hst : C17.rangeState c e with
  | none => rw [hst] at hr; simp at hr
  | some o => cases o <;> rfl

theorem inrange_outofrange_text_plain (hc : c.isHtml = true) (hf : l.focus = .elem e kids)
    (hd : e.isDoc = false) (hns : c.nsGet [] = none) (t₁ t₂ : Str)
    (h₁ : SpellsPseudo "in-range".toStr t₁) (h₂ : SpellsPseudo "out-of-range".toStr t₂) :
    ∃ b₁ b₂, matchText c t₁ l = .ok b₁ ∧ matchText c t₂ l = .ok b₂ ∧
      ¬ (b₁ = true ∧ b₂ = true) ∧
      ((b₁ = true ∨ b₂ = true) ↔
        (C17.rangeCompoundHolds c e = true ∧ (C17.rangeState c e).isSome = true)) := by
  obtain ⟨b₁, b₂, e₁, e₂, hdis, hcov, _⟩ := inrange_outofrange_text c l e kids hc hf t₁ t₂ h₁ h₂
  have hs := subjectOk_plain c e hd hns
  exact ⟨b₁, b₂, e₁, e₂, hdis, hcov.trans (by simp [hs])⟩

/-- **`:link` = `:any-link` on the text**: any spelling of the one and any spelling of the other compile to
    the same structure … -/
theorem link_anylink_compile (t₁ t₂ : Str) (h₁ : SpellsPseudo "link".toStr t₁)
    (h₂ : SpellsPseudo "any-link".toStr t₂) :
    Parser.compile pyFoldEnv Gen.lexicon Gen.builtinsRec t₁ [] 0 =
      Parser.compile pyFoldEnv Gen.lexicon Gen.builtinsRec t₂ [] 0 := by
  rw [compile_link_text t₁ h₁, compile_any_link_text t₂ h₂]

/-- … hence give the same verdict on every location of every document (HTML or not). -/
theorem link_anylink_text (t₁ t₂ : Str) (h₁ : SpellsPseudo "link".toStr t₁)
    (h₂ : SpellsPseudo "any-link".toStr t₂) :
    matchText c t₁ l = matchText c t₂ l := by
  unfold matchText
  rw [link_anylink_compile t₁ t₂ h₁ h₂]

/-- `:link` / `:any-link`: an HTML `a` or `area` carrying `href`. -/
theorem link_text_def (hc : c.isHtml = true) (hf : l.focus = .elem e kids) (t : Str)
    (h : SpellsPseudo "link".toStr t ∨ SpellsPseudo "any-link".toStr t) :
    matchText c t l = .ok (subjectOk c e && (C17.htmlNamed c e ["a", "area"] && hasAttr c e "href")) := by
  rcases h with h | h
  · rw [state_text .link c l e kids hf t h]
    show Except.ok (subjectOk c e && matchList c l e Gen.CSS_LINK) = _
    rw [C17.link_eq c l e hc]
  · rw [state_text .anyLink c l e kids hf t h]
    show Except.ok (subjectOk c e && matchList c l e Gen.CSS_LINK) = _
    rw [C17.link_eq c l e hc]

/-- **Every `:checked` element is `:default`, on the text.** -/
theorem checked_sub_default_text (hc : c.isHtml = true) (hf : l.focus = .elem e kids) (t₁ t₂ : Str)
    (h₁ : SpellsPseudo "checked".toStr t₁) (h₂ : SpellsPseudo "default".toStr t₂) :
    ∃ b₁ b₂, matchText c t₁ l = .ok b₁ ∧ matchText c t₂ l = .ok b₂ ∧ (b₁ = true → b₂ = true) := by
  refine ⟨_, _, state_text .checked c l e kids hf t₁ h₁, state_text .dflt c l e kids hf t₂ h₂, ?_⟩
  intro h
  rw [Bool.and_eq_true] at h ⊢
  exact ⟨h.1, C17.checked_sub_default c l e hc h.2⟩

/-! ### The definitions, on the text -/

/-- `:enabled`: a form control that `:disabled` does not select. -/
theorem enabled_text_def (hc : c.isHtml = true) (hf : l.focus = .elem e kids) (t : Str)
    (h : SpellsPseudo "enabled".toStr t) :
    matchText c t l =
      .ok (subjectOk c e && (C17.isFormControl c e && !matchList c l e Gen.CSS_DISABLED)) := by
  rw [state_text .enabled c l e kids hf t h]
  show Except.ok (subjectOk c e && matchList c l e Gen.CSS_ENABLED) = _
  rw [C17.enabled_eq c l e hc]

/-- `:disabled` (`C17.disabled_def`). -/
theorem disabled_text_def (hc : c.isHtml = true) (hf : l.focus = .elem e kids) (t : Str)
    (h : SpellsPseudo "disabled".toStr t) :
    matchText c t l =
      .ok (subjectOk c e &&
        (c.isHtmlTag e &&
          ((hasAttr c e "disabled" &&
              (["button", "select", "textarea", "fieldset", "optgroup", "option"].any (tagIs c e) ||
                (tagIs c e "input" && !typeIs c e "hidden"))) ||
           (tagIs c e "option" && parentIs c l (C17.isDisabledHtml c "optgroup")) ||
           ((["button", "select", "textarea", "fieldset"].any (tagIs c e) ||
                (tagIs c e "input" && !typeIs c e "hidden")) &&
              (parentIs c l (C17.isDisabledHtml c "fieldset") ||
               ancestorIs c l (C17.isNonLegendChildOfDisabledFieldset c)))))) := by
  rw [state_text .disabled c l e kids hf t h]
  show Except.ok (subjectOk c e && matchList c l e Gen.CSS_DISABLED) = _
  rw [C17.disabled_def c l e hc]

/-- `:required`. -/
theorem required_text_def (hc : c.isHtml = true) (hf : l.focus = .elem e kids) (t : Str)
    (h : SpellsPseudo "required".toStr t) :
    matchText c t l =
      .ok (subjectOk c e &&
        (C17.htmlNamed c e ["input", "textarea", "select"] && hasAttr c e "required")) := by
  rw [state_text .required c l e kids hf t h]
  show Except.ok (subjectOk c e && matchList c l e Gen.CSS_REQUIRED) = _
  rw [C17.required_eq c l e hc]

/-- `:optional`. -/
theorem optional_text_def (hc : c.isHtml = true) (hf : l.focus = .elem e kids) (t : Str)
    (h : SpellsPseudo "optional".toStr t) :
    matchText c t l =
      .ok (subjectOk c e &&
        (C17.htmlNamed c e ["input", "textarea", "select"] && !hasAttr c e "required")) := by
  rw [state_text .optional c l e kids hf t h]
  show Except.ok (subjectOk c e && matchList c l e Gen.CSS_OPTIONAL) = _
  rw [C17.optional_eq c l e hc]

/-- `:checked`: a checkbox or radio `input` with `checked`, or an `option` with `selected`. -/
theorem checked_text_def (hc : c.isHtml = true) (hf : l.focus = .elem e kids) (t : Str)
    (h : SpellsPseudo "checked".toStr t) :
    matchText c t l =
      .ok (subjectOk c e &&
        (c.isHtmlTag e &&
          ((tagIs c e "input" && (typeIs c e "checkbox" || typeIs c e "radio") && hasAttr c e "checked") ||
           (tagIs c e "option" && hasAttr c e "selected")))) := by
  rw [state_text .checked c l e kids hf t h]
  show Except.ok (subjectOk c e && matchList c l e Gen.CSS_CHECKED) = _
  rw [C17.checked_eq c l e hc]

/-- `:default` (`C17.default_def`): `:checked`, or a `button`/`input` of type `submit` below an HTML `form`
    that is the first submit button of its nearest form (`matchDefault`, the model of `match_default`,
    spelled out by `C17.iframe_local_default`). -/
theorem default_text_def (hc : c.isHtml = true) (hf : l.focus = .elem e kids) (t : Str)
    (h : SpellsPseudo "default".toStr t) :
    matchText c t l =
      .ok (subjectOk c e &&
        (matchList c l e Gen.CSS_CHECKED ||
          (c.isHtmlTag e && (tagIs c e "button" || tagIs c e "input") && typeIs c e "submit" &&
            ancestorIs c l (C17.isHtmlForm c) && matchDefault c l))) := by
  rw [state_text .dflt c l e kids hf t h]
  show Except.ok (subjectOk c e && matchList c l e Gen.CSS_DEFAULT) = _
  rw [C17.default_def c l e hc]
  rfl

/-- `:indeterminate` (`C17.indeterminate_def`). -/
theorem indeterminate_text_def (hc : c.isHtml = true) (hf : l.focus = .elem e kids) (t : Str)
    (h : SpellsPseudo "indeterminate".toStr t) :
    matchText c t l =
      .ok (subjectOk c e &&
        (c.isHtmlTag e &&
          ((tagIs c e "input" && typeIs c e "checkbox" && hasAttr c e "indeterminate") ||
           (tagIs c e "input" && typeIs c e "radio" && !hasAttr c e "checked" &&
              (!hasAttr c e "name" || attrEmpty c e "name" || matchIndeterminate c l)) ||
           (tagIs c e "progress" && !hasAttr c e "value")))) := by
  rw [state_text .indeterminate c l e kids hf t h]
  show Except.ok (subjectOk c e && matchList c l e Gen.CSS_INDETERMINATE) = _
  rw [C17.indeterminate_def c l e hc]

/-- `:placeholder-shown` (`C17.placeholder_def`). -/
theorem placeholder_shown_text_def (hc : c.isHtml = true) (hf : l.focus = .elem e kids) (t : Str)
    (h : SpellsPseudo "placeholder-shown".toStr t) :
    matchText c t l =
      .ok (subjectOk c e &&
        (c.isHtmlTag e && C17.placeholderNonEmpty c e &&
          ((tagIs c e "input" && C17.placeholderInputType c e &&
              (!hasAttr c e "value" || attrEmpty c e "value")) ||
           (tagIs c e "textarea" && C17.textBlank c l)))) := by
  rw [state_text .placeholderShown c l e kids hf t h]
  show Except.ok (subjectOk c e && matchList c l e Gen.CSS_PLACEHOLDER_SHOWN) = _
  rw [C17.placeholder_def c l e hc]

/-! ## 3. XML documents that are not XHTML -/

/-- Each of the fourteen lists is HTML-only: it matches nothing when the document is not HTML. -/
theorem state_list_xml (K : StateKw) (hx : c.isHtml = false) : matchList c l e K.list = false := by
  have h := K.list_isHtml
  cases hL : K.list with
  | mk A n hh =>
    rw [hL] at h
    have : hh = true := h
    subst this
    exact C11.html_only_never_in_plain_xml c l e A n hx

/-- **In a document that is XML but not XHTML none of the HTML-only pseudo-classes matches anything** —
    whatever the spelling of the keyword, the element, the namespace map. -/
theorem state_text_xml (K : StateKw) (hx : c.isHtml = false) (hf : l.focus = .elem e kids) (t : Str)
    (h : SpellsPseudo K.name t) :
    matchText c t l = .ok false := by
  rw [state_text K c l e kids hf t h, state_list_xml c l e K hx, Bool.and_false]

/-! ## 4. `:dir(ltr)` / `:dir(rtl)` on the text -/

/-- `t` spells `:dir(ltr)` (`ltr = true`) or `:dir(rtl)`: the name `dir` in any admissible spelling of an
    identifier, `(`, a gap, the keyword in any letter case (`mixCase m`), a gap, `)`, between two gaps;
    no NUL. -/
def SpellsDir (ltr : Bool) (t : Str) : Prop :=
  ∃ (f : Forms) (g₀ g₁ g₂ g₃ : Str) (m : List Bool),
    t = g₀ ++ 58 :: (renderIdentWith f ++ (40 :: (g₁ ++ (mixCase m (dirWord ltr) ++ (g₂ ++ [41]))))) ++ g₃ ∧
      isGap g₀ ∧ isGap g₁ ∧ isGap g₂ ∧ isGap g₃ ∧
      identOK f (40 :: (g₁ ++ (mixCase m (dirWord ltr) ++ (g₂ ++ 41 :: g₃)))) ∧
      lower (valueOf f) = "dir".toStr ∧ ∀ x ∈ t, x ≠ 0

/-- The flag `parse_pseudo_dir` sets. -/
def dirFlag (ltr : Bool) : Nat := if ltr then SEL_DIR_LTR else SEL_DIR_RTL

/-- **The parser on `:dir(…)`**: the compound `*` whose only content is the HTML-only list `C17.dirList`
    holding the direction flag. -/
theorem compile_dir_text (B : Builtins) (ltr : Bool) (t : Str) (h : SpellsDir ltr t) :
    Parser.compile pyFoldEnv Gen.lexicon B t [] 0 = .ok (oneSub (C17.dirList (dirFlag ltr))) := by
  obtain ⟨f, g₀, g₁, g₂, g₃, m, rfl, hg₀, hg₁, hg₂, hg₃, hf, hn, h0⟩ := h
  exact compile_dir B f g₁ ltr m g₂ g₀ g₃ hg₀ hg₃ hf hn hg₁ hg₂ h0

/-- `:dir(…)` on the text is `match_dir` (and the subject guard), in an HTML document. -/
theorem dir_text (hc : c.isHtml = true) (hf : l.focus = .elem e kids) (ltr : Bool) (t : Str)
    (h : SpellsDir ltr t) :
    matchText c t l = .ok (subjectOk c e && matchDir c l (dirFlag ltr)) := by
  unfold matchText
  rw [compile_dir_text Gen.builtinsRec ltr t h]
  simp only
  rw [matchEl_oneSub c l e kids hf, subjectOk]
  cases ltr
  · rw [show dirFlag false = SEL_DIR_RTL from rfl, C17.dirList_rtl c l e hc]
  · rw [show dirFlag true = SEL_DIR_LTR from rfl, C17.dirList_ltr c l e hc]

/-- **`:dir(ltr)` / `:dir(rtl)` on the text** (hypotheses of `C17.dir_partition`): an element in the XHTML
    namespace whose chain `l :: ancestors` (with the iframe cut) contains an XHTML-namespace root `r` is never
    both, and — when it passes the subject guard — exactly one. -/
theorem dir_partition_text (hc : c.isHtml = true) (hf : l.focus = .elem e kids) (hh : c.isHtmlTag e = true)
    (r : Loc) (hmem : r ∈ l :: c.ancestors l true) (re : Elem) (hre : r.elem? = some re)
    (hrh : c.isHtmlTag re = true) (hroot : c.isRoot r = true) (t₁ t₂ : Str)
    (h₁ : SpellsDir true t₁) (h₂ : SpellsDir false t₂) :
    ∃ b₁ b₂, matchText c t₁ l = .ok b₁ ∧ matchText c t₂ l = .ok b₂ ∧
      ¬ (b₁ = true ∧ b₂ = true) ∧ (subjectOk c e = true → b₁ = !b₂) := by
  refine ⟨_, _, dir_text c l e kids hc hf true t₁ h₁, dir_text c l e kids hc hf false t₂ h₂, ?_⟩
  have hne := C17.dir_partition c l e kids hf hh r hmem re hre hrh hroot
  show ¬ ((subjectOk c e && matchDir c l SEL_DIR_LTR) = true ∧ (subjectOk c e && matchDir c l SEL_DIR_RTL) = true) ∧
    (subjectOk c e = true → (subjectOk c e && matchDir c l SEL_DIR_LTR) = !(subjectOk c e && matchDir c l SEL_DIR_RTL))
  revert hne
  cases subjectOk c e <;> cases matchDir c l SEL_DIR_LTR <;> cases matchDir c l SEL_DIR_RTL <;> simp

/-- In a document that is XML but not XHTML `:dir(…)` matches nothing. -/
theorem dir_text_xml (hx : c.isHtml = false) (hf : l.focus = .elem e kids) (ltr : Bool) (t : Str)
    (h : SpellsDir ltr t) :
    matchText c t l = .ok false := by
  unfold matchText
  rw [compile_dir_text Gen.builtinsRec ltr t h]
  simp only
  rw [matchEl_oneSub c l e kids hf, C17.dirList, C11.html_only_never_in_plain_xml c l e _ _ hx, Bool.and_false]

end Laws

/-! ## Non-vacuity: concrete texts on a small tree -/

namespace Examples

def E0 : Env := { env := asciiEnv, bidi := fun _ => 0, wildStrip := id }
def mkAttr (kv : String × String) : Attr := { key := kv.1.toStr, kns := none, kname := none, val := .str kv.2.toStr }
def elemOf (n : String) (attrs : List (String × String)) : Elem :=
  { isDoc := false, name := n.toStr, pfx := none, ns := none, attrs := attrs.map mkAttr }
def el (n : String) (attrs : List (String × String)) (kids : List Node) : Node := .elem (elemOf n attrs) kids
def docN (kids : List Node) : Node :=
  .elem { isDoc := true, name := "[document]".toStr, pfx := none, ns := none, attrs := [] } kids

/-- The controls of the form, in order. -/
def controls : List (String × List (String × String)) :=
  [("input", []),                                                                   -- 0
   ("input", [("disabled", "")]),                                                   -- 1
   ("input", [("type", "hidden")]),                                                 -- 2
   ("input", [("required", "")]),                                                   -- 3
   ("input", [("type", "number"), ("min", "1"), ("max", "5"), ("value", "7")]),     -- 4
   ("input", [("type", "number"), ("min", "1"), ("value", "3")]),                   -- 5
   ("a", [("href", "x")]),                                                          -- 6
   ("input", [("type", "checkbox"), ("checked", "")]),                              -- 7
   ("p", [])]                                                                       -- 8

/-- `<html><body><form>` + the nine elements above `</form></body></html>` -/
def tree : Node := docN [el "html" [] [el "body" [] [el "form" [] (controls.map fun x => el x.1 x.2 [])]]]
def top : Loc := ⟨tree, []⟩
def child (l : Loc) (i : Nat) : Loc := (l.children[i]?).getD l
def form : Loc := child (child (child top 0) 0) 0
/-- the `i`-th element of the form -/
def at_ (i : Nat) : Loc := child form i
def elemAt (i : Nat) : Elem := match controls[i]? with | some x => elemOf x.1 x.2 | none => default

/-- An HTML document (html.parser), no namespace map. -/
def ctx : Ctx := mkCtx E0 false [] top
/-- The same tree as a document that is XML but not XHTML. -/
def ctxXml : Ctx := mkCtx E0 true [] top
/-- An HTML document queried with `namespaces={'': 'urn:other'}`. -/
def ctxNs : Ctx := mkCtx E0 false [([], "urn:other".toStr)] top

example : ctx.isHtml = true ∧ ctxXml.isHtml = false ∧ ctxNs.isHtml = true := by decide
example : ctx.nsGet [] = none ∧ ctxNs.nsGet [] = some "urn:other".toStr := by decide

theorem focus_at (i : Nat) (h : i < 9) : (at_ i).focus = .elem (elemAt i) [] := by
  have : i = 0 ∨ i = 1 ∨ i = 2 ∨ i = 3 ∨ i = 4 ∨ i = 5 ∨ i = 6 ∨ i = 7 ∨ i = 8 := by omega
  rcases this with rfl | rfl | rfl | rfl | rfl | rfl | rfl | rfl | rfl <;> rfl

/-- ` :DIS\41 bled/**/` — a space, upper case, a hex escape with its terminator, a comment. -/
def disabledAlt : Forms :=
  [(68, .lit), (73, .lit), (83, .lit), (65, .hex 2 [] (some .space)), (98, .lit), (108, .lit), (101, .lit),
   (100, .lit)]

example : ([32] ++ 58 :: renderIdentWith disabledAlt ++ "/**/".toStr) = " :DIS\\41 bled/**/".toStr := by decide

theorem spells_disabledAlt : SpellsPseudo "disabled".toStr " :DIS\\41 bled/**/".toStr :=
  ⟨disabledAlt, [32], "/**/".toStr, by decide, by decide, by decide, by simp only [identOK]; decide, by decide,
    by decide⟩

/-- `:\72 EAD-only` -/
def readOnlyAlt : Forms :=
  [(114, .hex 2 [] (some .space)), (69, .lit), (65, .lit), (68, .lit), (45, .lit), (111, .lit), (110, .lit),
   (108, .lit), (121, .lit)]

theorem spells_readOnlyAlt : SpellsPseudo "read-only".toStr ":\\72 EAD-only".toStr :=
  ⟨readOnlyAlt, [], [], by decide, by decide, by decide, by simp only [identOK]; decide, by decide, by decide⟩

/-- `/* c */:Any-Link ` -/
theorem spells_anyLinkAlt : SpellsPseudo "any-link".toStr "/* c */:Any-Link\t".toStr :=
  ⟨lits "Any-Link".toStr, "/* c */".toStr, [9], by decide, by decide, by decide, by simp only [identOK]; decide,
    by decide, by decide⟩

-- 1. the parser on the texts (instances of `compile_K_text`)
example : Parser.compile pyFoldEnv Gen.lexicon Gen.builtinsRec " :DIS\\41 bled/**/".toStr [] 0 =
    .ok (oneSub Gen.CSS_DISABLED) := compile_disabled_text _ spells_disabledAlt
example : Parser.compile pyFoldEnv Gen.lexicon Gen.builtinsRec ":enabled".toStr [] 0 =
    .ok (oneSub Gen.CSS_ENABLED) := compile_enabled_text _ (spells_literal .enabled)
example : Parser.compile pyFoldEnv Gen.lexicon Gen.builtinsRec "/* c */:Any-Link\t".toStr [] 0 =
    Parser.compile pyFoldEnv Gen.lexicon Gen.builtinsRec ":link".toStr [] 0 :=
  (link_anylink_compile _ _ (spells_literal .link) spells_anyLinkAlt).symm

/-- A verdict of `state_text`, evaluated. -/
theorem verdict (K : StateKw) (c : Ctx) (i : Nat) (hi : i < 9) (t : Str) (h : SpellsPseudo K.name t) (b : Bool)
    (hb : (subjectOk c (elemAt i) && matchList c (at_ i) (elemAt i) K.list) = b) :
    matchText c t (at_ i) = .ok b := by
  rw [state_text K c (at_ i) (elemAt i) [] (focus_at i hi) t h, hb]

-- 2a. `:enabled` / `:disabled`: the law at the plain `input` (0), the disabled one (1), the hidden one (2)
example : ∃ b₁ b₂, matchText ctx ":enabled".toStr (at_ 0) = .ok b₁ ∧ matchText ctx " :DIS\\41 bled/**/".toStr (at_ 0) = .ok b₂ ∧
    ¬ (b₁ = true ∧ b₂ = true) ∧ ((b₁ = true ∨ b₂ = true) ↔ C17.isFormControl ctx (elemAt 0) = true) ∧
    (C17.isFormControl ctx (elemAt 0) = true → b₁ = !b₂) :=
  enabled_disabled_text_plain ctx (at_ 0) (elemAt 0) [] (by decide) (focus_at 0 (by decide)) rfl (by decide) _ _
    (spells_literal .enabled) spells_disabledAlt
example : C17.isFormControl ctx (elemAt 0) = true ∧ C17.isFormControl ctx (elemAt 1) = true ∧
    C17.isFormControl ctx (elemAt 2) = false ∧ C17.isFormControl ctx (elemAt 8) = false := by decide +kernel
example : matchText ctx ":enabled".toStr (at_ 0) = .ok true :=
  verdict .enabled ctx 0 (by decide) _ (spells_literal .enabled) true (by decide +kernel)
example : matchText ctx " :DIS\\41 bled/**/".toStr (at_ 0) = .ok false :=
  verdict .disabled ctx 0 (by decide) _ spells_disabledAlt false (by decide +kernel)
example : matchText ctx ":enabled".toStr (at_ 1) = .ok false :=
  verdict .enabled ctx 1 (by decide) _ (spells_literal .enabled) false (by decide +kernel)
example : matchText ctx " :DIS\\41 bled/**/".toStr (at_ 1) = .ok true :=
  verdict .disabled ctx 1 (by decide) _ spells_disabledAlt true (by decide +kernel)
example : matchText ctx ":enabled".toStr (at_ 2) = .ok false ∧ matchText ctx ":disabled".toStr (at_ 2) = .ok false :=
  ⟨verdict .enabled ctx 2 (by decide) _ (spells_literal .enabled) false (by decide +kernel),
   verdict .disabled ctx 2 (by decide) _ (spells_literal .disabled) false (by decide +kernel)⟩

-- 2b. `:required` / `:optional` at the `input required` (3)
example : ∃ b₁ b₂, matchText ctx ":required".toStr (at_ 3) = .ok b₁ ∧ matchText ctx ":optional".toStr (at_ 3) = .ok b₂ ∧
    ¬ (b₁ = true ∧ b₂ = true) ∧
    ((b₁ = true ∨ b₂ = true) ↔ C17.htmlNamed ctx (elemAt 3) ["input", "textarea", "select"] = true) ∧
    (C17.htmlNamed ctx (elemAt 3) ["input", "textarea", "select"] = true → b₁ = !b₂) :=
  required_optional_text_plain ctx (at_ 3) (elemAt 3) [] (by decide) (focus_at 3 (by decide)) rfl (by decide) _ _
    (spells_literal .required) (spells_literal .optional)
example : matchText ctx ":required".toStr (at_ 3) = .ok true ∧ matchText ctx ":optional".toStr (at_ 3) = .ok false ∧
    matchText ctx ":optional".toStr (at_ 0) = .ok true ∧ matchText ctx ":optional".toStr (at_ 8) = .ok false :=
  ⟨verdict .required ctx 3 (by decide) _ (spells_literal .required) true (by decide +kernel),
   verdict .optional ctx 3 (by decide) _ (spells_literal .optional) false (by decide +kernel),
   verdict .optional ctx 0 (by decide) _ (spells_literal .optional) true (by decide +kernel),
   verdict .optional ctx 8 (by decide) _ (spells_literal .optional) false (by decide +kernel)⟩

-- 2c. `:read-write` / `:read-only` at the plain `input` (0) and at the `p` (8)
example : ∃ b₁ b₂, matchText ctx ":read-write".toStr (at_ 8) = .ok b₁ ∧ matchText ctx ":\\72 EAD-only".toStr (at_ 8) = .ok b₂ ∧
    ¬ (b₁ = true ∧ b₂ = true) ∧ ((b₁ = true ∨ b₂ = true) ↔ ctx.isHtmlTag (elemAt 8) = true) ∧
    (ctx.isHtmlTag (elemAt 8) = true → b₁ = !b₂) :=
  readwrite_readonly_text_plain ctx (at_ 8) (elemAt 8) [] (by decide) (focus_at 8 (by decide)) rfl (by decide) _ _
    (spells_literal .readWrite) spells_readOnlyAlt
example : matchText ctx ":read-write".toStr (at_ 0) = .ok true ∧ matchText ctx ":\\72 EAD-only".toStr (at_ 0) = .ok false ∧
    matchText ctx ":read-write".toStr (at_ 8) = .ok false ∧ matchText ctx ":\\72 EAD-only".toStr (at_ 8) = .ok true :=
  ⟨verdict .readWrite ctx 0 (by decide) _ (spells_literal .readWrite) true (by decide +kernel),
   verdict .readOnly ctx 0 (by decide) _ spells_readOnlyAlt false (by decide +kernel),
   verdict .readWrite ctx 8 (by decide) _ (spells_literal .readWrite) false (by decide +kernel),
   verdict .readOnly ctx 8 (by decide) _ spells_readOnlyAlt true (by decide +kernel)⟩

-- 2d. `:in-range` / `:out-of-range` at `value=7` in `1..5` (4), `value=3` above `1` (5), no bound (0)
example : ∃ b₁ b₂, matchText ctx ":in-range".toStr (at_ 4) = .ok b₁ ∧ matchText ctx ":out-of-range".toStr (at_ 4) = .ok b₂ ∧
    ¬ (b₁ = true ∧ b₂ = true) ∧
    ((b₁ = true ∨ b₂ = true) ↔
      (C17.rangeCompoundHolds ctx (elemAt 4) = true ∧ (C17.rangeState ctx (elemAt 4)).isSome = true)) :=
  inrange_outofrange_text_plain ctx (at_ 4) (elemAt 4) [] (by decide) (focus_at 4 (by decide)) rfl (by decide) _ _
    (spells_literal .inRange) (spells_literal .outOfRange)
example : C17.rangeCompoundHolds ctx (elemAt 4) = true ∧ (C17.rangeState ctx (elemAt 4)).isSome = true ∧
    C17.rangeCompoundHolds ctx (elemAt 0) = false := by decide +kernel
example : matchText ctx ":in-range".toStr (at_ 4) = .ok false ∧ matchText ctx ":out-of-range".toStr (at_ 4) = .ok true ∧
    matchText ctx ":in-range".toStr (at_ 5) = .ok true ∧ matchText ctx ":out-of-range".toStr (at_ 5) = .ok false ∧
    matchText ctx ":in-range".toStr (at_ 0) = .ok false ∧ matchText ctx ":out-of-range".toStr (at_ 0) = .ok false :=
  ⟨verdict .inRange ctx 4 (by decide) _ (spells_literal .inRange) false (by decide +kernel),
   verdict .outOfRange ctx 4 (by decide) _ (spells_literal .outOfRange) true (by decide +kernel),
   verdict .inRange ctx 5 (by decide) _ (spells_literal .inRange) true (by decide +kernel),
   verdict .outOfRange ctx 5 (by decide) _ (spells_literal .outOfRange) false (by decide +kernel),
   verdict .inRange ctx 0 (by decide) _ (spells_literal .inRange) false (by decide +kernel),
   verdict .outOfRange ctx 0 (by decide) _ (spells_literal .outOfRange) false (by decide +kernel)⟩

-- 2e. `:link` = `:any-link` at the `a[href]` (6)
example : matchText ctx ":link".toStr (at_ 6) = matchText ctx "/* c */:Any-Link\t".toStr (at_ 6) :=
  link_anylink_text ctx (at_ 6) _ _ (spells_literal .link) spells_anyLinkAlt
example : matchText ctx "/* c */:Any-Link\t".toStr (at_ 6) = .ok true ∧ matchText ctx ":link".toStr (at_ 0) = .ok false :=
  ⟨verdict .anyLink ctx 6 (by decide) _ spells_anyLinkAlt true (by decide +kernel),
   verdict .link ctx 0 (by decide) _ (spells_literal .link) false (by decide +kernel)⟩

-- 2f. `:checked` ⊆ `:default` at the checked checkbox (7)
example : ∃ b₁ b₂, matchText ctx ":checked".toStr (at_ 7) = .ok b₁ ∧ matchText ctx ":default".toStr (at_ 7) = .ok b₂ ∧
    (b₁ = true → b₂ = true) :=
  checked_sub_default_text ctx (at_ 7) (elemAt 7) [] (by decide) (focus_at 7 (by decide)) _ _
    (spells_literal .checked) (spells_literal .dflt)
example : matchText ctx ":checked".toStr (at_ 7) = .ok true ∧ matchText ctx ":default".toStr (at_ 7) = .ok true :=
  ⟨verdict .checked ctx 7 (by decide) _ (spells_literal .checked) true (by decide +kernel),
   verdict .dflt ctx 7 (by decide) _ (spells_literal .dflt) true (by decide +kernel)⟩

-- 3. the same tree as plain XML: nothing matches (instance of `state_text_xml`)
example : matchText ctxXml ":enabled".toStr (at_ 0) = .ok false ∧
    matchText ctxXml " :DIS\\41 bled/**/".toStr (at_ 1) = .ok false ∧
    matchText ctxXml ":\\72 EAD-only".toStr (at_ 8) = .ok false :=
  ⟨state_text_xml ctxXml (at_ 0) (elemAt 0) [] .enabled (by decide) (focus_at 0 (by decide)) _ (spells_literal .enabled),
   state_text_xml ctxXml (at_ 1) (elemAt 1) [] .disabled (by decide) (focus_at 1 (by decide)) _ spells_disabledAlt,
   state_text_xml ctxXml (at_ 8) (elemAt 8) [] .readOnly (by decide) (focus_at 8 (by decide)) _ spells_readOnlyAlt⟩

-- The subject guard is not idle: under `namespaces={'': 'urn:other'}` the form control (0) is neither
-- `:enabled` nor `:disabled` on the text, although one of the two lists matches it
-- (real soupsieve: `select(':enabled', soup, namespaces={'': 'urn:other'}) == []`).
example : subjectOk ctxNs (elemAt 0) = false ∧ matchList ctxNs (at_ 0) (elemAt 0) Gen.CSS_ENABLED = true := by
  decide +kernel
example : matchText ctxNs ":enabled".toStr (at_ 0) = .ok false ∧ matchText ctxNs ":disabled".toStr (at_ 0) = .ok false :=
  ⟨verdict .enabled ctxNs 0 (by decide) _ (spells_literal .enabled) false (by decide +kernel),
   verdict .disabled ctxNs 0 (by decide) _ (spells_literal .disabled) false (by decide +kernel)⟩

-- `:root`, `:empty`
theorem spells_rootAlt : SpellsPseudo "root".toStr ":ROOT".toStr :=
  ⟨lits "ROOT".toStr, [], [], by decide, by decide, by decide, by simp only [identOK]; decide, by decide, by decide⟩
theorem spells_emptyLit : SpellsPseudo "empty".toStr ":empty".toStr :=
  ⟨lits "empty".toStr, [], [], by decide, by decide, by decide, by simp only [identOK]; decide, by decide, by decide⟩

example : matchText ctx ":ROOT".toStr (child top 0) = .ok true := by
  rw [root_text ctx (child top 0) (elemOf "html" []) _ rfl _ spells_rootAlt]
  exact congrArg _ (by decide +kernel)
example : matchText ctx ":ROOT".toStr (at_ 0) = .ok false := by
  rw [root_text ctx (at_ 0) (elemAt 0) [] (focus_at 0 (by decide)) _ spells_rootAlt]
  exact congrArg _ (by decide +kernel)
example : matchText ctx ":empty".toStr (at_ 0) = .ok true ∧ matchText ctx ":empty".toStr form = .ok false := by
  rw [empty_text ctx (at_ 0) (elemAt 0) [] (focus_at 0 (by decide)) _ spells_emptyLit,
    empty_text ctx form (elemOf "form" []) _ rfl _ spells_emptyLit]
  exact ⟨congrArg _ (by decide +kernel), congrArg _ (by decide +kernel)⟩

-- 4. `:dir()`: `:DIR( LtR )` and `:dir(rtl)` at the plain `input` (0), below the root `html`
theorem spells_dirLtrAlt : SpellsDir true ":DIR( LtR )".toStr :=
  ⟨lits "DIR".toStr, [], [32], [32], [], [true, false, true], by decide, by decide, by decide, by decide, by decide,
    by simp only [identOK]; decide, by decide, by decide⟩
theorem spells_dirRtl : SpellsDir false ":dir(rtl)".toStr :=
  ⟨lits "dir".toStr, [], [], [], [], [], by decide, by decide, by decide, by decide, by decide,
    by simp only [identOK]; decide, by decide, by decide⟩

example : ∃ b₁ b₂, matchText ctx ":DIR( LtR )".toStr (at_ 0) = .ok b₁ ∧ matchText ctx ":dir(rtl)".toStr (at_ 0) = .ok b₂ ∧
    ¬ (b₁ = true ∧ b₂ = true) ∧ (subjectOk ctx (elemAt 0) = true → b₁ = !b₂) :=
  dir_partition_text ctx (at_ 0) (elemAt 0) [] (by decide) (focus_at 0 (by decide)) (by decide +kernel)
    (((at_ 0) :: ctx.ancestors (at_ 0) true)[3]'(by decide +kernel)) (List.getElem_mem _)
    (elemOf "html" []) rfl (by decide +kernel) (by decide +kernel) _ _ spells_dirLtrAlt spells_dirRtl
example : matchText ctx ":DIR( LtR )".toStr (at_ 0) = .ok true ∧ matchText ctx ":dir(rtl)".toStr (at_ 0) = .ok false := by
  rw [dir_text ctx (at_ 0) (elemAt 0) [] (by decide) (focus_at 0 (by decide)) true _ spells_dirLtrAlt,
    dir_text ctx (at_ 0) (elemAt 0) [] (by decide) (focus_at 0 (by decide)) false _ spells_dirRtl]
  exact ⟨congrArg _ (by decide +kernel), congrArg _ (by decide +kernel)⟩
example : matchText ctxXml ":DIR( LtR )".toStr (at_ 0) = .ok false :=
  dir_text_xml ctxXml (at_ 0) (elemAt 0) [] (by decide) (focus_at 0 (by decide)) true _ spells_dirLtrAlt

def isOk (x : Except Parser.Err Bool) (b : Bool) : Bool :=
  match x with
  | .ok b' => b == b'
  | .error _ => false

-- the model evaluated directly on the same texts, as a cross-check of the statements
#guard isOk (matchText ctx ":enabled".toStr (at_ 0)) true
#guard isOk (matchText ctx " :DIS\\41 bled/**/".toStr (at_ 1)) true
#guard isOk (matchText ctx " :DIS\\41 bled/**/".toStr (at_ 0)) false
#guard isOk (matchText ctx ":\\72 EAD-only".toStr (at_ 8)) true
#guard isOk (matchText ctx "/* c */:Any-Link\t".toStr (at_ 6)) true
#guard isOk (matchText ctx ":out-of-range".toStr (at_ 4)) true
#guard isOk (matchText ctxXml ":enabled".toStr (at_ 0)) false
#guard isOk (matchText ctxNs ":enabled".toStr (at_ 0)) false
#guard isOk (matchText ctx ":ROOT".toStr (child top 0)) true
#guard isOk (matchText ctx ":empty".toStr form) false
#guard isOk (matchText ctx ":DIR( LtR )".toStr (at_ 0)) true
#guard isOk (matchText ctx ":dir(rtl)".toStr (at_ 0)) false

end Examples

#print axioms compile_state_text_gen
#print axioms compile_state_text
#print axioms compile_root_text
#print axioms compile_empty_text
#print axioms matchEl_oneSub
#print axioms state_text
#print axioms root_text
#print axioms empty_text
#print axioms enabled_disabled_text
#print axioms required_optional_text
#print axioms readwrite_readonly_text
#print axioms inrange_outofrange_text
#print axioms link_anylink_text
#print axioms checked_sub_default_text
#print axioms state_text_xml
#print axioms compile_dir_text
#print axioms dir_text
#print axioms dir_partition_text
#print axioms dir_text_xml

end C17Parse
end SoupVerif
