/-
  C06 / C09 about the PROGRAM translated from the source text of `CSSParser.parse_pseudo_class_custom`
  (`gen/gen_py_pcustom.py` → `Generated/PyPseudoCustom.lean`, regenerated on every run; vocabulary and interpreter
  `Model/PseudoCustomProg.lean`).

  * `runCall_pseudo_custom_gen` (**the tie**): the "parse_pseudo_class_custom" branch of the hand model's
    `ParseDisp.runCall` (= `Parser.parseLoop`, `C06GenDispatch.stepOf_eq_runAction`) IS the interpreter `runCustom` of the
    REGENERATED program, for every environment, loop state and token.
  * `gen_undefined_at_end`: an undefined name raises `undefinedCustom` against `self.pattern` at `m.end(0)`;
  * `gen_name_unescaped_then_lowered`: the name is `lower(css_unescape(group 'name'))` (fix: unescape BEFORE lower);
  * `gen_erased_before_subcompile` (the reason `C06.custom_cycle_terminates_*` hold): a source-text entry is compiled
    by a nested parse with `FLG_PSEUDO` whose custom table NO LONGER contains the name being expanded, so a
    self-reference inside it hits `gen_undefined_at_end` instead of recursing; the result is stored and appended;
  * `gen_compiled_reused` (C09 memoisation): a compiled entry is appended as is, no nested parse, table unchanged.
-/
import SoupVerif.Generated.PyPseudoCustom
import SoupVerif.Model.PseudoCustomProg
namespace SoupVerif
namespace C06GenPseudoCustom
open SoupVerif.Parser ParseDisp CustomProg
open Gen.PyPseudoCustom (program)

/-- **The tie**: the hand model's handler is the interpreter of the regenerated program. -/
theorem runCall_pseudo_custom_gen (env : CharEnv) (L : Lexicon) (B : Builtins) (pattern : Str) (s : LS) (t : Token) :
    runCall env L B pattern s t ("parse_pseudo_class_custom", [], ["has_selector"])
      = runCustom env L B pattern s t program := by
  unfold runCall
  rw [if_pos (by decide)]
  simp only [runCustom, program, applyFns]
  cases h : s.custom.get? (lower (cssUnescape env L ((t.group ⟨env, L, B, pattern⟩ "name").getD []))) with
  | none => rfl
  | some v => cases v <;> rfl

/-- the name the regenerated program looks up -/
def genName (env : CharEnv) (L : Lexicon) (B : Builtins) (pattern : Str) (t : Token) : Str :=
  lower (cssUnescape env L ((t.group ⟨env, L, B, pattern⟩ "name").getD []))

theorem gen_name_unescaped_then_lowered :
    program.pre.head? = some (.computeName [.lower, .cssUnescape] "name") := by decide

/-- undefined (or being expanded) name: `SelectorSyntaxError` against `self.pattern` at `m.end(0)` -/
theorem gen_undefined_at_end (env : CharEnv) (L : Lexicon) (B : Builtins) (pattern : Str) (s : LS) (t : Token)
    (h : s.custom.get? (genName env L B pattern t) = none) :
    runCustom env L B pattern s t program
      = .done (.error { kind := .undefinedCustom, pattern := pattern, offset := t.stop }) := by
  unfold genName at h
  simp only [runCustom, program, applyFns, h]
  rfl

theorem erase_get? (c : Custom) (k : Str) : (c.erase k).get? k = none := by
  unfold Custom.get? Custom.erase
  have : (c.filter (fun e => e.1 != k)).find? (fun e => e.1 == k) = none := by
    rw [List.find?_eq_none]
    intro e he
    have := (List.mem_filter.mp he).2
    simpa using this
  rw [this]; rfl

/-- source-text entry: nested parse of the text (pattern = the looked-up text, flags = `FLG_PSEUDO`, index 0) with a
    table in which the name is UNDEFINED; afterwards the compiled list is stored under the name and appended. -/
theorem gen_erased_before_subcompile (env : CharEnv) (L : Lexicon) (B : Builtins) (pattern : Str) (s : LS) (t : Token)
    (text : Str) (h : s.custom.get? (genName env L B pattern t) = some (.src text)) :
    ∃ pat2 pos c k, runCustom env L B pattern s t program = .nest pat2 pos 0 FLG_PSEUDO c k ∧
      pat2 = text.map (fun c => if c == 0 then 0xFFFD else c) ∧
      c.get? (genName env L B pattern t) = none ∧
      ∀ l p c'', k (l, p, c'') =
        { s with sel := s.sel.addSub l, hasSelector := true,
                 custom := c''.set (genName env L B pattern t) (.compiled l), index := t.stop } := by
  unfold genName at h ⊢
  simp only [runCustom, program, applyFns, h]
  exact ⟨_, _, _, _, rfl, rfl, erase_get? _ _, fun _ _ _ => rfl⟩

/-- compiled entry (memoised): appended as is; no nested parse; the table is not touched. -/
theorem gen_compiled_reused (env : CharEnv) (L : Lexicon) (B : Builtins) (pattern : Str) (s : LS) (t : Token)
    (l : SelList) (h : s.custom.get? (genName env L B pattern t) = some (.compiled l)) :
    runCustom env L B pattern s t program
      = .cont { s with sel := s.sel.addSub l, hasSelector := true, index := t.stop } := by
  unfold genName at h
  simp only [runCustom, program, applyFns, h]
  rfl

end C06GenPseudoCustom
end SoupVerif
