/-
  C01 / C12 — `CSSMatch.match_attributes`, TRANSLATED from the source (`Generated/PyAttrs.lean`, regenerated on
  every run by gen/gen_py_attrs.py: the inner `for … else` as `valueLoop`, the outer flag loop with `break` as
  `attrLoop`, the frame as `matchAttributes`) and PROVED equal, for all contexts, elements and attribute-selector
  lists, to the hand-written model `SoupVerif.matchAttributes` (Model/Match.lean) every C01 / C04 / C11 / C12
  theorem about attribute selectors is stated over.

    * `gen_valueLoop_eq`        the inner loop is left by `break` iff SOME yielded value passes the value test
                                (`passes`: no pattern, or the chosen pattern matches the joined value);
    * `gen_attrLoop_eq`         the outer loop: the flag survives iff EVERY attribute selector is satisfied;
    * `gen_matchAttributes_eq`  the whole function = the model;
    * corollaries about the regenerated definition: `gen_attr_value_test` (C12.attr_value_test),
      `gen_matchAttributes_nil`, `gen_matchAttributes_append` (C11), `gen_attr_ns_empty_eq_bare` (C12, fix 3a64a82).

  The proofs only use the three generated names `valueLoop`, `attrLoop`, `matchAttributes` (fixed by the
  translator), not the numbering of locals.
-/
import SoupVerif.Generated.PyAttrs
import SoupVerif.Properties.C11
import SoupVerif.Properties.C12

namespace SoupVerif
namespace C01GenAttrs

/-- The value test of the model on one yielded value, for a chosen pattern. -/
def passes (c : Ctx) (pat : Option Rx) (v : NVal) : Bool :=
  match pat with
  | none => true
  | some r => Rx.isMatch c.env r (nvalJoin v)

/-- The pattern choice of the model. -/
def choice (c : Ctx) (a : AttrSel) : Option Rx :=
  if c.isXml && a.xmlTypePattern.isSome then a.xmlTypePattern else a.pattern

theorem model_eq (c : Ctx) (e : Elem) (attrs : List AttrSel) :
    SoupVerif.matchAttributes c e attrs =
      attrs.all fun a => (matchAttributeValues c e a.attrName a.pfx).any (passes c (choice c a)) := rfl

/-- The generated inner `for … else`: left by `break` iff some value passes. -/
theorem gen_valueLoop_eq (c : Ctx) (pat : Option Rx) (vs : List NVal) :
    Gen.PyAttrs.valueLoop c pat vs = vs.any (passes c pat) := by
  induction vs with
  | nil => rfl
  | cons v rest ih =>
    simp only [Gen.PyAttrs.valueLoop, List.any_cons, ih]
    cases pat <;> cases v <;> simp [passes, nvalJoin]

/-- The generated outer loop started with flag `true`: every attribute selector is satisfied. -/
theorem gen_attrLoop_eq (c : Ctx) (e : Elem) (attrs : List AttrSel) :
    Gen.PyAttrs.attrLoop c e attrs true = SoupVerif.matchAttributes c e attrs := by
  rw [model_eq]
  induction attrs with
  | nil => rfl
  | cons a rest ih =>
    simp only [Gen.PyAttrs.attrLoop, List.all_cons, gen_valueLoop_eq, ih]
    show (if List.any _ (passes c (choice c a)) = true then _ else _) = _
    split <;> simp_all

/-- MAIN: the regenerated `match_attributes` is the hand-written model, for all arguments. -/
theorem gen_matchAttributes_eq (c : Ctx) (e : Elem) (attrs : List AttrSel) :
    Gen.PyAttrs.matchAttributes c e attrs = SoupVerif.matchAttributes c e attrs := by
  unfold Gen.PyAttrs.matchAttributes
  cases attrs with
  | nil => rfl
  | cons a rest => simp [gen_attrLoop_eq]

/-! Corollaries: the existing attribute theorems, about the regenerated definition. -/

theorem gen_matchAttributes_nil (c : Ctx) (e : Elem) : Gen.PyAttrs.matchAttributes c e [] = true := by
  rw [gen_matchAttributes_eq]; rfl

theorem gen_matchAttributes_append (c : Ctx) (e : Elem) (A B : List AttrSel) :
    Gen.PyAttrs.matchAttributes c e (A ++ B) =
      (Gen.PyAttrs.matchAttributes c e A && Gen.PyAttrs.matchAttributes c e B) := by
  simp only [gen_matchAttributes_eq]; exact C11.matchAttributes_append c e A B

theorem gen_attr_value_test (c : Ctx) (e : Elem) (s : AttrSel) :
    Gen.PyAttrs.matchAttributes c e [s] = (matchAttributeValues c e s.attrName s.pfx).any (C12.passes c s) := by
  rw [gen_matchAttributes_eq]; exact C12.attr_value_test c e s

theorem gen_attr_ns_empty_eq_bare (c : Ctx) (e : Elem) (a p : Str) (pat xt : Option Rx)
    (hp : p ≠ []) (hs : p ≠ "*".toStr) (hm : c.nsGet p = some []) :
    Gen.PyAttrs.matchAttributes c e [⟨a, p, pat, xt⟩] = Gen.PyAttrs.matchAttributes c e [⟨a, [], pat, xt⟩] := by
  simp only [gen_matchAttributes_eq]; exact C12.attr_ns_empty_matchAttributes_eq_bare c e a p pat xt hp hs hm

end C01GenAttrs
end SoupVerif
