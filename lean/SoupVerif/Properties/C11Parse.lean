/-
  C11, from the selector TEXT: "In HTML documents tag names and attribute names in a selector match regardless
  of ASCII case, attribute values match case-sensitively except for the type attribute, and the i and s flags
  force insensitive or sensitive comparison.  In XML and XHTML documents tag names, attribute names and all
  attribute values match case-sensitively unless i is given."

  `Properties/C11.lean` proves the IR-level facts (what the matcher model does with a name / a pattern it is
  handed).  `Properties/C12Parse.lean` / `C10Parse.lean` prove what the parser model AND the matcher model do
  with the TEXT of a compound `tag? (#id | .class | [attr…] | [ns|attr…])*` in any spelling
  (`compound_simple_text`, `type_text`, `attr_text`).  This file composes them into the case laws, each about
  `C12Parse.matchText` (text → parser model → matcher model on one element; `SoupSieve.match` is
  `matchTextApi`).  The document kind enters through `c.isXml` only, as in `Properties/C11.lean`:
  `c.isXml = false` — HTML by html.parser / lxml / html5lib, XHTML markup parsed by an HTML parser;
  `c.isXml = true` — XML, XHTML parsed as XML (then `c.isHtml` holds too; it plays no part in these rules).

  0. `compound_case_text`     two compounds whose type selectors / simple selectors are VARIANTS of each other
                              (`TagVariant`, `SimpleVariant` in `Refine/C11ParseBase.lean`: names equal under the
                              document's name rule `C12.NameEq c` — ASCII-insensitive iff `c.isXml = false` —,
                              values equal up to ASCII case where `Css.caseInsensitive` holds, ids and classes
                              equal) give the same verdict on every element.
  1. `type_case_text`, `name_case_text`
                              non-XML: type selector texts (any prefix form, any spelling) with the same prefix
                              value and `lower (value E) = lower (value E')`: same verdict;
     `html_type_text`         … the verdict: `value E = "*" ∨ lower (value E) = lower e.name`;
     `attr_name_case_text`    non-XML: `[a]`, `[a op v flag]` (any prefix form) with `lower a = lower a'`: same verdict;
     `html_attr_name_text`    … the verdict: `AttrHolds` over the attributes with `lower a = lower x.key`;
     `attr_variant_text`, `attr_value_case_text`
                              the general attribute law; the value in another letter case under an insensitive rule.
  2. `attr_value_text`        `[p|a op v flag]`, every operator: the verdict is `ValueCond e D op v ic` — some
                              designated attribute's string passes `valTest op` for `v`, BOTH AS THEY ARE
                              (`ic = false`) or BOTH ASCII-FOLDED (`ic = true`), `ic` what `Css.caseInsensitive` says;
     `plain_value_text`       no flag, name not `type`            → `ic = false`   (any document kind)
     `html_type_value_text`   no flag, `lower a = "type"`, non-XML → `ic = true`
     `xml_value_text`         no flag, XML (`type` included)       → `ic = false`
     `flag_i_value_text`      flag `i` / `I`                       → `ic = true`    (any document kind)
     `flag_s_value_text`      flag `s` / `S` (`type` in HTML too)  → `ic = false`
     `plain_eq_text`, `html_type_eq_text`, `xml_eq_text`, `eq_i_text`, `eq_s_text`
                              the same for `=`, spelled out: `attrStr x = v` resp. `lower (attrStr x) = lower v`.
     (`isFlag` allows exactly `i I s S`, so the five cases are exhaustive.)
  3. `xml_type_text`          XML: `value E = "*" ∨ value E = e.name`;
     `xml_attr_name_text`     XML: the attributes with `a = x.key` — whatever the flag;
     `xml_eq_i_text`          XML, `[a=v i]`: the NAME exactly, the VALUE folded: `i` does nothing to names;
     `designates_html_bare`, `designates_xml_bare`, `designates_xml_ns`, `designates_xml_any`
                              the `D` to put into the theorems of 2 for the prefix forms;
     `Examples`               `DiV` / `div` on the XML tree `<DiV/>`: true / false — not equivalent.
  4. `id_text`, `class_text`  `E#v`, `E.v`: the first attribute whose key is `id` / `class` (`keyIs`: up to ASCII
                              case in a non-XML document, exactly in XML) carries `v`, compared EXACTLY in every
                              document kind.  Neither the model nor the library has a quirks mode
                              (`grep -ri quirk /repo/soupsieve`: nothing; `#ab` does not match `id="Ab"` under any
                              parser).

  Hypotheses, all explicit: the side conditions of `C09Compile2` for each text (`….ok g₂`, gaps, no NUL);
  `c.env.fold = lowerCp` where a comparison is case-insensitive (true of the driver's `asciiEnv`), as in
  `C12Parse.attr_text`.  Only the stable names `Gen.lexicon` / `Gen.builtinsRec` are reached (through
  `matchText`).

  No discrepancy between the model and the library was found: all `#guard` lines of `Examples` were put to
  soupsieve (html.parser, lxml, html5lib; lxml-xml for XML and XHTML) and agree.
-/
import SoupVerif.Refine.C11ParseBase
namespace SoupVerif
namespace C11Parse
open Names Spelling SoupVerif.Parser
open C09Compile (Forms identOK AttrV SAttr SAttrOp SValue opText flagText STag)
open C09Compile2 (STagN SItem SCompound itemsOK renderItems)
open Css (AttrTest AttrOp CaseFlag Simple satSimple satAttr valTest foldCase caseInsensitive idOf hasClass)
open C12 (NameEq)
open C12Parse (matchText TagCond NsCond NameCond AttrHolds Passes designates testOf opOf flagOf attrItem pfxValue)
open C10Parse (simpleOf simplesOf tagText)

/-! ## 0. The general law: two compounds that are case variants of each other -/

theorem compound_case_text (c : Ctx) (l : Loc) (e : Elem) (kids : List Node) (hf : l.focus = .elem e kids)
    (tag tag' : Option STagN) (items items' : List SItem) (g₁ g₂ g₁' g₂' : Str)
    (hg₁ : isGap g₁) (hg₂ : isGap g₂) (hg₁' : isGap g₁') (hg₂' : isGap g₂')
    (hok : (SCompound.mk tag items).ok g₂) (hok' : (SCompound.mk tag' items').ok g₂')
    (hne : (SCompound.mk tag items).isEmpty = false) (hne' : (SCompound.mk tag' items').isEmpty = false)
    (hall : ∀ it ∈ items, (simpleOf it).isSome = true) (hall' : ∀ it ∈ items', (simpleOf it).isSome = true)
    (h0 : ∀ x ∈ g₁ ++ (SCompound.mk tag items).render ++ g₂, x ≠ 0)
    (h0' : ∀ x ∈ g₁' ++ (SCompound.mk tag' items').render ++ g₂', x ≠ 0)
    (htag : TagVariant c (tag.map STagN.value) (tag'.map STagN.value))
    (hitems : List.Forall₂ (SimpleVariant c) (simplesOf items) (simplesOf items'))
    (hfold : FoldNeeded c (simplesOf items) → c.env.fold = lowerCp) :
    ∃ b, matchText c (g₁ ++ (SCompound.mk tag items).render ++ g₂) l = .ok b ∧
      matchText c (g₁' ++ (SCompound.mk tag' items').render ++ g₂') l = .ok b := by
  obtain ⟨b, h1, h2⟩ := C10Parse.compound_simple_text c l e kids hf tag items g₁ g₂ hg₁ hg₂ hok hne hall h0
    (fun ns name t hm hci => hfold ⟨ns, name, t, hm, hci⟩)
  obtain ⟨b', h1', h2'⟩ := C10Parse.compound_simple_text c l e kids hf tag' items' g₁' g₂' hg₁' hg₂' hok' hne'
    hall' h0' (fun ns name t hm hci => hfold (foldNeeded_variant c _ _ hitems ⟨ns, name, t, hm, hci⟩))
  refine ⟨b, h1, ?_⟩
  have : b' = b := by
    apply Bool.eq_iff_iff.2
    rw [h2, h2', tagCond_variant c e _ _ htag, satSimples_variant c l e _ _ hitems]
  rw [h1', this]

/-! ## 1. Non-XML documents: names match regardless of ASCII case -/

theorem testVariant_refl (c : Ctx) (a : Str) (t : Option AttrTest) : TestVariant c a t t := by
  cases t with
  | none => trivial
  | some t => refine ⟨rfl, rfl, ?_⟩; split <;> rfl

theorem simpleOf_attrItem (ns : Option Refine.Compile.SNs) (a : SAttr) :
    simpleOf (attrItem ns a) = some (.attr (pfxValue ns) (valueOf a.name) (testOf a.value)) := by
  cases ns <;> rfl

/-- **Type selectors, any prefix form, any spelling, under the document's name rule**: two type selector
    texts with the same prefix VALUE whose name VALUES are equal under `NameEq c` give the same verdict on
    every element. -/
theorem type_variant_text (c : Ctx) (l : Loc) (e : Elem) (kids : List Node) (hf : l.focus = .elem e kids)
    (x x' : STagN) (g₁ g₂ g₁' g₂' : Str) (hg₁ : isGap g₁) (hg₂ : isGap g₂) (hg₁' : isGap g₁') (hg₂' : isGap g₂')
    (hok : x.ok g₂) (hok' : x'.ok g₂')
    (h0 : ∀ y ∈ g₁ ++ x.render ++ g₂, y ≠ 0) (h0' : ∀ y ∈ g₁' ++ x'.render ++ g₂', y ≠ 0)
    (hp : x.ns.map Refine.Compile.SNs.value = x'.ns.map Refine.Compile.SNs.value)
    (hn : NameEq c x.t.value x'.t.value) :
    ∃ b, matchText c (g₁ ++ x.render ++ g₂) l = .ok b ∧ matchText c (g₁' ++ x'.render ++ g₂') l = .ok b := by
  have hr : ∀ y : STagN, (SCompound.mk (some y) []).render = y.render := by
    intro y; simp [SCompound.render, renderItems]
  have h := compound_case_text c l e kids hf (some x) (some x') [] [] g₁ g₂ g₁' g₂' hg₁ hg₂ hg₁' hg₂'
    (by simp only [SCompound.ok, renderItems, itemsOK, List.nil_append, and_true]; exact hok)
    (by simp only [SCompound.ok, renderItems, itemsOK, List.nil_append, and_true]; exact hok')
    (by simp [SCompound.isEmpty]) (by simp [SCompound.isEmpty]) (by simp) (by simp)
    (by rw [hr]; exact h0) (by rw [hr]; exact h0') ⟨hp, hn⟩ (by simp [simplesOf])
    (by rintro ⟨_, _, _, hm, _⟩; simp [simplesOf] at hm)
  rw [hr, hr] at h
  exact h

/-- **C11, tag names, HTML** (`type_case_text`).  In a document that is not XML (HTML by any HTML parser; XHTML
    markup parsed by an HTML parser) two type selector texts — `E`, `ns|E`, `*|E`, `|E`, in any spelling — with the
    same prefix value and `lower (value of E) = lower (value of E')` give the same verdict on every element. -/
theorem type_case_text (c : Ctx) (l : Loc) (e : Elem) (kids : List Node) (hf : l.focus = .elem e kids)
    (x x' : STagN) (g₁ g₂ g₁' g₂' : Str) (hg₁ : isGap g₁) (hg₂ : isGap g₂) (hg₁' : isGap g₁') (hg₂' : isGap g₂')
    (hok : x.ok g₂) (hok' : x'.ok g₂')
    (h0 : ∀ y ∈ g₁ ++ x.render ++ g₂, y ≠ 0) (h0' : ∀ y ∈ g₁' ++ x'.render ++ g₂', y ≠ 0)
    (hx : c.isXml = false)
    (hp : x.ns.map Refine.Compile.SNs.value = x'.ns.map Refine.Compile.SNs.value)
    (hn : lower x.t.value = lower x'.t.value) :
    ∃ b, matchText c (g₁ ++ x.render ++ g₂) l = .ok b ∧ matchText c (g₁' ++ x'.render ++ g₂') l = .ok b :=
  type_variant_text c l e kids hf x x' g₁ g₂ g₁' g₂' hg₁ hg₂ hg₁' hg₂' hok hok' h0 h0' hp
    ((NameEq_html c hx _ _).2 hn)

/-- The plain form: two identifiers `E`, `E'` (no prefix), each in any spelling. -/
theorem name_case_text (c : Ctx) (l : Loc) (e : Elem) (kids : List Node) (hf : l.focus = .elem e kids)
    (f f' : Forms) (g₁ g₂ g₁' g₂' : Str) (hg₁ : isGap g₁) (hg₂ : isGap g₂) (hg₁' : isGap g₁') (hg₂' : isGap g₂')
    (hok : identOK f g₂) (hok' : identOK f' g₂')
    (h0 : ∀ y ∈ g₁ ++ renderIdentWith f ++ g₂, y ≠ 0) (h0' : ∀ y ∈ g₁' ++ renderIdentWith f' ++ g₂', y ≠ 0)
    (hx : c.isXml = false) (hn : lower (valueOf f) = lower (valueOf f')) :
    ∃ b, matchText c (g₁ ++ renderIdentWith f ++ g₂) l = .ok b ∧
      matchText c (g₁' ++ renderIdentWith f' ++ g₂') l = .ok b :=
  type_case_text c l e kids hf ⟨none, .name f⟩ ⟨none, .name f'⟩ g₁ g₂ g₁' g₂' hg₁ hg₂ hg₁' hg₂'
    ⟨hok, trivial⟩ ⟨hok', trivial⟩ h0 h0' hx rfl hn

/-- **The verdict itself, non-XML document**: not the document object, the namespace condition of the prefix,
    and the name VALUE is `*` or equals the element's name after ASCII folding of both. -/
theorem html_type_text (c : Ctx) (l : Loc) (e : Elem) (kids : List Node) (hf : l.focus = .elem e kids)
    (x : STagN) (g₁ g₂ : Str) (hg₁ : isGap g₁) (hg₂ : isGap g₂) (hok : x.ok g₂)
    (h0 : ∀ y ∈ g₁ ++ x.render ++ g₂, y ≠ 0) (hx : c.isXml = false) :
    ∃ b, matchText c (g₁ ++ x.render ++ g₂) l = .ok b ∧
      (b = true ↔ e.isDoc = false ∧ NsCond c e (x.ns.map Refine.Compile.SNs.value) ∧
        (x.t.value = "*".toStr ∨ lower x.t.value = lower e.name)) := by
  obtain ⟨b, h1, h2⟩ := C12Parse.type_text c l e kids hf x g₁ g₂ hg₁ hg₂ hok h0
  refine ⟨b, h1, h2.trans ?_⟩
  simp only [NameCond, NameEq_html c hx, STagN.value]

/-- **Attribute selectors under the document's name rule and the case rule of the comparison** (general form of
    `attr_name_case_text` / `attr_value_case_text`): behind type selectors that are variants of each other,
    `[p|a …]` and `[p'|a' …]` with the same prefix value, names equal under `NameEq c`, the same operator and
    flag, and values equal — up to ASCII case where the comparison is case-insensitive — give the same
    verdict. -/
theorem attr_variant_text (c : Ctx) (l : Loc) (e : Elem) (kids : List Node) (hf : l.focus = .elem e kids)
    (tag tag' : Option STagN) (ns ns' : Option Refine.Compile.SNs) (a a' : SAttr) (g₁ g₂ g₁' g₂' : Str)
    (hg₁ : isGap g₁) (hg₂ : isGap g₂) (hg₁' : isGap g₁') (hg₂' : isGap g₂')
    (hok : (SCompound.mk tag [attrItem ns a]).ok g₂) (hok' : (SCompound.mk tag' [attrItem ns' a']).ok g₂')
    (h0 : ∀ y ∈ g₁ ++ (SCompound.mk tag [attrItem ns a]).render ++ g₂, y ≠ 0)
    (h0' : ∀ y ∈ g₁' ++ (SCompound.mk tag' [attrItem ns' a']).render ++ g₂', y ≠ 0)
    (htag : TagVariant c (tag.map STagN.value) (tag'.map STagN.value))
    (hns : pfxValue ns = pfxValue ns')
    (hname : NameEq c (valueOf a.name) (valueOf a'.name))
    (htest : TestVariant c (valueOf a.name) (testOf a.value) (testOf a'.value))
    (hfold : ∀ t, testOf a.value = some t → caseInsensitive c (valueOf a.name) t.flag = true →
      c.env.fold = lowerCp) :
    ∃ b, matchText c (g₁ ++ (SCompound.mk tag [attrItem ns a]).render ++ g₂) l = .ok b ∧
      matchText c (g₁' ++ (SCompound.mk tag' [attrItem ns' a']).render ++ g₂') l = .ok b := by
  have hs : ∀ (n : Option Refine.Compile.SNs) (b : SAttr), simplesOf [attrItem n b] =
      [.attr (pfxValue n) (valueOf b.name) (testOf b.value)] := by
    intro n b; simp [simplesOf, simpleOf_attrItem]
  refine compound_case_text c l e kids hf tag tag' _ _ g₁ g₂ g₁' g₂' hg₁ hg₂ hg₁' hg₂' hok hok'
    (by cases tag <;> simp [SCompound.isEmpty]) (by cases tag' <;> simp [SCompound.isEmpty])
    (by intro it hit; simp only [List.mem_singleton] at hit; subst hit; rw [simpleOf_attrItem]; rfl)
    (by intro it hit; simp only [List.mem_singleton] at hit; subst hit; rw [simpleOf_attrItem]; rfl)
    h0 h0' htag ?_ ?_
  · rw [hs, hs]
    exact .cons ⟨hns, hname, htest⟩ .nil
  · rw [hs]
    rintro ⟨p, name, t, hm, hci⟩
    simp only [List.mem_singleton, Simple.attr.injEq] at hm
    obtain ⟨_, rfl, ht⟩ := hm
    exact hfold t ht.symm hci

/-- **C11, attribute names, HTML** (`attr_name_case_text`).  In a document that is not XML, `[a]` / `[a op v flag]`
    (any prefix form, any spelling, behind any type selector) and the same selector with the attribute name in
    another letter case (`lower (value of a) = lower (value of a')`; same prefix value, same test) give the
    same verdict on every element. -/
theorem attr_name_case_text (c : Ctx) (l : Loc) (e : Elem) (kids : List Node) (hf : l.focus = .elem e kids)
    (tag : Option STagN) (ns ns' : Option Refine.Compile.SNs) (a a' : SAttr) (g₁ g₂ g₁' g₂' : Str)
    (hg₁ : isGap g₁) (hg₂ : isGap g₂) (hg₁' : isGap g₁') (hg₂' : isGap g₂')
    (hok : (SCompound.mk tag [attrItem ns a]).ok g₂) (hok' : (SCompound.mk tag [attrItem ns' a']).ok g₂')
    (h0 : ∀ y ∈ g₁ ++ (SCompound.mk tag [attrItem ns a]).render ++ g₂, y ≠ 0)
    (h0' : ∀ y ∈ g₁' ++ (SCompound.mk tag [attrItem ns' a']).render ++ g₂', y ≠ 0)
    (hx : c.isXml = false)
    (hns : pfxValue ns = pfxValue ns')
    (hname : lower (valueOf a.name) = lower (valueOf a'.name))
    (htest : testOf a.value = testOf a'.value)
    (hfold : ∀ t, testOf a.value = some t → caseInsensitive c (valueOf a.name) t.flag = true →
      c.env.fold = lowerCp) :
    ∃ b, matchText c (g₁ ++ (SCompound.mk tag [attrItem ns a]).render ++ g₂) l = .ok b ∧
      matchText c (g₁' ++ (SCompound.mk tag [attrItem ns' a']).render ++ g₂') l = .ok b :=
  attr_variant_text c l e kids hf tag tag ns ns' a a' g₁ g₂ g₁' g₂' hg₁ hg₂ hg₁' hg₂' hok hok' h0 h0'
    (by cases tag with
      | none => trivial
      | some t => exact ⟨rfl, nameEq_refl c _⟩)
    hns ((NameEq_html c hx _ _).2 hname) (htest ▸ testVariant_refl c _ _) hfold

/-- **C11, attribute values where the comparison is case-insensitive** (`attr_value_case_text`): the same
    attribute selector with the value in another letter case (`lower v = lower v'`), where the comparison is
    case-insensitive (flag `i`; the `type` attribute of a non-XML document without flag), gives the same
    verdict on every element. -/
theorem attr_value_case_text (c : Ctx) (l : Loc) (e : Elem) (kids : List Node) (hf : l.focus = .elem e kids)
    (tag : Option STagN) (ns ns' : Option Refine.Compile.SNs) (a a' : SAttr) (t t' : AttrTest)
    (g₁ g₂ g₁' g₂' : Str)
    (hg₁ : isGap g₁) (hg₂ : isGap g₂) (hg₁' : isGap g₁') (hg₂' : isGap g₂')
    (hok : (SCompound.mk tag [attrItem ns a]).ok g₂) (hok' : (SCompound.mk tag [attrItem ns' a']).ok g₂')
    (h0 : ∀ y ∈ g₁ ++ (SCompound.mk tag [attrItem ns a]).render ++ g₂, y ≠ 0)
    (h0' : ∀ y ∈ g₁' ++ (SCompound.mk tag [attrItem ns' a']).render ++ g₂', y ≠ 0)
    (hns : pfxValue ns = pfxValue ns')
    (hname : valueOf a.name = valueOf a'.name)
    (ht : testOf a.value = some t) (ht' : testOf a'.value = some t')
    (hop : t.op = t'.op) (hfl : t.flag = t'.flag) (hv : lower t.value = lower t'.value)
    (hci : caseInsensitive c (valueOf a.name) t.flag = true)
    (hfold : c.env.fold = lowerCp) :
    ∃ b, matchText c (g₁ ++ (SCompound.mk tag [attrItem ns a]).render ++ g₂) l = .ok b ∧
      matchText c (g₁' ++ (SCompound.mk tag [attrItem ns' a']).render ++ g₂') l = .ok b :=
  attr_variant_text c l e kids hf tag tag ns ns' a a' g₁ g₂ g₁' g₂' hg₁ hg₂ hg₁' hg₂' hok hok' h0 h0'
    (by cases tag with
      | none => trivial
      | some t => exact ⟨rfl, nameEq_refl c _⟩)
    hns (hname ▸ nameEq_refl c _)
    (by rw [ht, ht']; exact ⟨hop, hfl, by rw [if_pos hci]; exact hv⟩) (fun _ _ _ => hfold)

/-! ## 2. Attribute values: which comparison is made -/

/-- What an attribute selector with a value test says, the case rule `ic` made explicit: SOME attribute among
    the designated ones (`D`) whose string passes the test for `v` — both taken as they are (`ic = false`) or
    both ASCII-folded (`ic = true`); for `!=`: NO designated attribute equals `v` in that sense. -/
def ValueCond (e : Elem) (D : Attr → Prop) (op : AttrOp) (v : Str) (ic : Bool) : Prop :=
  if op = AttrOp.ne then ¬ ∃ x ∈ e.attrs, D x ∧ foldCase ic (attrStr x) = foldCase ic v
  else ∃ x ∈ e.attrs, D x ∧ valTest op (foldCase ic v) false (foldCase ic (attrStr x)) = true

theorem attrHolds_ic (c : Ctx) (e : Elem) (a : Str) (t : AttrTest) (D : Attr → Prop) (ic : Bool)
    (hic : caseInsensitive c a t.flag = ic) :
    AttrHolds c e a (some t) D ↔ ValueCond e D t.op t.value ic := by
  unfold AttrHolds ValueCond Passes
  simp only [hic, attrStr]
  by_cases hop : t.op = AttrOp.ne
  · simp [hop, valTest]
  · simp only [hop, if_false, ← valTest_foldCase]

/-- `=`: the attribute's string IS the value — exactly, or after ASCII folding of both. -/
theorem valueCond_eq (e : Elem) (D : Attr → Prop) (v : Str) (ic : Bool) :
    ValueCond e D .eq v ic ↔ ∃ x ∈ e.attrs, D x ∧ foldCase ic (attrStr x) = foldCase ic v := by
  simp [ValueCond, valTest, foldCase]

theorem valueCond_eq_sensitive (e : Elem) (D : Attr → Prop) (v : Str) :
    ValueCond e D .eq v false ↔ ∃ x ∈ e.attrs, D x ∧ attrStr x = v := by
  simp [valueCond_eq, foldCase]

theorem valueCond_eq_insensitive (e : Elem) (D : Attr → Prop) (v : Str) :
    ValueCond e D .eq v true ↔ ∃ x ∈ e.attrs, D x ∧ lower (attrStr x) = lower v := by
  simp [valueCond_eq, foldCase]

theorem testOf_body (a : SAttr) (bd : SAttrOp) (h : a.body = some bd) :
    testOf a.value = some ⟨opOf (opText bd.op), bd.value.value, flagOf (bd.flag.map fun x => lowerCp x.2)⟩ := by
  simp [testOf, SAttr.value, h]

theorem flagOf_none : flagOf ((none : Option (Str × Nat)).map fun x => lowerCp x.2) = .none := rfl

theorem flagOf_i (g3 : Str) (f : Nat) (h : lowerCp f = 105) :
    flagOf ((some (g3, f)).map fun x => lowerCp x.2) = .i := by
  simp [flagOf, h]

theorem flagOf_s (g3 : Str) (f : Nat) (h : lowerCp f = 115) :
    flagOf ((some (g3, f)).map fun x => lowerCp x.2) = .s := by
  simp [flagOf, h]

theorem opOf_eq : opOf (opText none) = .eq := by decide

section Values
variable (c : Ctx) (l : Loc) (e : Elem) (kids : List Node) (hf : l.focus = .elem e kids)
  (tag : Option STagN) (ns : Option Refine.Compile.SNs) (a : SAttr) (bd : SAttrOp) (hbd : a.body = some bd)
  (g₁ g₂ : Str) (hg₁ : isGap g₁) (hg₂ : isGap g₂)
  (hok : (SCompound.mk tag [attrItem ns a]).ok g₂)
  (h0 : ∀ y ∈ g₁ ++ (SCompound.mk tag [attrItem ns a]).render ++ g₂, y ≠ 0)
  (D : Attr → Prop) (hD : ∀ x, designates c (pfxValue ns) (valueOf a.name) x = true ↔ D x)
include hf hbd hg₁ hg₂ hok h0 hD

/-- **An attribute selector with a value test, any prefix form, any operator, any spelling, the case rule made
    explicit**: `ic` is what `Css.caseInsensitive` says for the attribute name VALUE and the flag; the verdict is
    a comparison of the strings of the designated attributes with the value VALUE, as they are or both
    ASCII-folded. -/
theorem attr_value_text (ic : Bool)
    (hic : caseInsensitive c (valueOf a.name) (flagOf (bd.flag.map fun x => lowerCp x.2)) = ic)
    (hfold : ic = true → c.env.fold = lowerCp) :
    ∃ b, matchText c (g₁ ++ (SCompound.mk tag [attrItem ns a]).render ++ g₂) l = .ok b ∧
      (b = true ↔ e.isDoc = false ∧ TagCond c e (tag.map STagN.value) ∧
        ValueCond e D (opOf (opText bd.op)) bd.value.value ic) := by
  have ht := testOf_body a bd hbd
  obtain ⟨b, h1, h2⟩ := C12Parse.attr_text c l e kids hf tag ns a g₁ g₂ hg₁ hg₂ hok h0
    (by
      intro t ht' hci
      rw [ht] at ht'; cases ht'
      exact hfold (hic ▸ hci))
    D hD
  refine ⟨b, h1, h2.trans ?_⟩
  rw [ht, attrHolds_ic c e _ _ D ic hic]

/-- **No flag, an attribute other than `type`** (any document kind): CASE-SENSITIVE. -/
theorem plain_value_text (hfl : bd.flag = none) (hname : lower (valueOf a.name) ≠ typeName) :
    ∃ b, matchText c (g₁ ++ (SCompound.mk tag [attrItem ns a]).render ++ g₂) l = .ok b ∧
      (b = true ↔ e.isDoc = false ∧ TagCond c e (tag.map STagN.value) ∧
        ValueCond e D (opOf (opText bd.op)) bd.value.value false) :=
  attr_value_text c l e kids hf tag ns a bd hbd g₁ g₂ hg₁ hg₂ hok h0 D hD false
    (by rw [hfl, flagOf_none]; exact ci_html_plain c _ hname) (by simp)

/-- **No flag, the `type` attribute (in any letter case), non-XML document**: ASCII case-INSENSITIVE. -/
theorem html_type_value_text (hx : c.isXml = false) (hfl : bd.flag = none)
    (hname : lower (valueOf a.name) = typeName) (hfold : c.env.fold = lowerCp) :
    ∃ b, matchText c (g₁ ++ (SCompound.mk tag [attrItem ns a]).render ++ g₂) l = .ok b ∧
      (b = true ↔ e.isDoc = false ∧ TagCond c e (tag.map STagN.value) ∧
        ValueCond e D (opOf (opText bd.op)) bd.value.value true) :=
  attr_value_text c l e kids hf tag ns a bd hbd g₁ g₂ hg₁ hg₂ hok h0 D hD true
    (by rw [hfl, flagOf_none]; exact ci_html_type c _ hx hname) (fun _ => hfold)

/-- **No flag, XML document** (XHTML parsed as XML included): CASE-SENSITIVE, the `type` attribute too. -/
theorem xml_value_text (hx : c.isXml = true) (hfl : bd.flag = none) :
    ∃ b, matchText c (g₁ ++ (SCompound.mk tag [attrItem ns a]).render ++ g₂) l = .ok b ∧
      (b = true ↔ e.isDoc = false ∧ TagCond c e (tag.map STagN.value) ∧
        ValueCond e D (opOf (opText bd.op)) bd.value.value false) :=
  attr_value_text c l e kids hf tag ns a bd hbd g₁ g₂ hg₁ hg₂ hok h0 D hD false
    (by rw [hfl, flagOf_none]; exact ci_xml c _ hx) (by simp)

/-- **Flag `i` / `I`** (any document kind, any attribute): ASCII case-INSENSITIVE. -/
theorem flag_i_value_text (g3 : Str) (f : Nat) (hfl : bd.flag = some (g3, f)) (hfi : lowerCp f = 105)
    (hfold : c.env.fold = lowerCp) :
    ∃ b, matchText c (g₁ ++ (SCompound.mk tag [attrItem ns a]).render ++ g₂) l = .ok b ∧
      (b = true ↔ e.isDoc = false ∧ TagCond c e (tag.map STagN.value) ∧
        ValueCond e D (opOf (opText bd.op)) bd.value.value true) :=
  attr_value_text c l e kids hf tag ns a bd hbd g₁ g₂ hg₁ hg₂ hok h0 D hD true
    (by rw [hfl, flagOf_i g3 f hfi]; rfl) (fun _ => hfold)

/-- **Flag `s` / `S`** (any document kind, any attribute — the `type` attribute of an HTML document too):
    CASE-SENSITIVE. -/
theorem flag_s_value_text (g3 : Str) (f : Nat) (hfl : bd.flag = some (g3, f)) (hfs : lowerCp f = 115) :
    ∃ b, matchText c (g₁ ++ (SCompound.mk tag [attrItem ns a]).render ++ g₂) l = .ok b ∧
      (b = true ↔ e.isDoc = false ∧ TagCond c e (tag.map STagN.value) ∧
        ValueCond e D (opOf (opText bd.op)) bd.value.value false) :=
  attr_value_text c l e kids hf tag ns a bd hbd g₁ g₂ hg₁ hg₂ hok h0 D hD false
    (by rw [hfl, flagOf_s g3 f hfs]; rfl) (by simp)

/-! ### The same for `=`, the comparison spelled out -/

/-- **`[a=v]`**, no flag, not the `type` attribute: some designated attribute's string IS `v`. -/
theorem plain_eq_text (hop : bd.op = none) (hfl : bd.flag = none) (hname : lower (valueOf a.name) ≠ typeName) :
    ∃ b, matchText c (g₁ ++ (SCompound.mk tag [attrItem ns a]).render ++ g₂) l = .ok b ∧
      (b = true ↔ e.isDoc = false ∧ TagCond c e (tag.map STagN.value) ∧
        ∃ x ∈ e.attrs, D x ∧ attrStr x = bd.value.value) := by
  have h := plain_value_text c l e kids hf tag ns a bd hbd g₁ g₂ hg₁ hg₂ hok h0 D hD hfl hname
  rwa [hop, opOf_eq, valueCond_eq_sensitive] at h

/-- **`[type=v]`** (the name in any letter case), no flag, non-XML document: equal after ASCII folding of both. -/
theorem html_type_eq_text (hop : bd.op = none) (hx : c.isXml = false) (hfl : bd.flag = none)
    (hname : lower (valueOf a.name) = typeName) (hfold : c.env.fold = lowerCp) :
    ∃ b, matchText c (g₁ ++ (SCompound.mk tag [attrItem ns a]).render ++ g₂) l = .ok b ∧
      (b = true ↔ e.isDoc = false ∧ TagCond c e (tag.map STagN.value) ∧
        ∃ x ∈ e.attrs, D x ∧ lower (attrStr x) = lower bd.value.value) := by
  have h := html_type_value_text c l e kids hf tag ns a bd hbd g₁ g₂ hg₁ hg₂ hok h0 D hD hx hfl hname hfold
  rwa [hop, opOf_eq, valueCond_eq_insensitive] at h

/-- **`[a=v]`**, no flag, XML document: exact, the `type` attribute too. -/
theorem xml_eq_text (hop : bd.op = none) (hx : c.isXml = true) (hfl : bd.flag = none) :
    ∃ b, matchText c (g₁ ++ (SCompound.mk tag [attrItem ns a]).render ++ g₂) l = .ok b ∧
      (b = true ↔ e.isDoc = false ∧ TagCond c e (tag.map STagN.value) ∧
        ∃ x ∈ e.attrs, D x ∧ attrStr x = bd.value.value) := by
  have h := xml_value_text c l e kids hf tag ns a bd hbd g₁ g₂ hg₁ hg₂ hok h0 D hD hx hfl
  rwa [hop, opOf_eq, valueCond_eq_sensitive] at h

/-- **`[a=v i]`**: equal after ASCII folding of both, in every document kind. -/
theorem eq_i_text (hop : bd.op = none) (g3 : Str) (f : Nat) (hfl : bd.flag = some (g3, f))
    (hfi : lowerCp f = 105) (hfold : c.env.fold = lowerCp) :
    ∃ b, matchText c (g₁ ++ (SCompound.mk tag [attrItem ns a]).render ++ g₂) l = .ok b ∧
      (b = true ↔ e.isDoc = false ∧ TagCond c e (tag.map STagN.value) ∧
        ∃ x ∈ e.attrs, D x ∧ lower (attrStr x) = lower bd.value.value) := by
  have h := flag_i_value_text c l e kids hf tag ns a bd hbd g₁ g₂ hg₁ hg₂ hok h0 D hD g3 f hfl hfi hfold
  rwa [hop, opOf_eq, valueCond_eq_insensitive] at h

/-- **`[a=v s]`**: exact in every document kind — for `type` in an HTML document too. -/
theorem eq_s_text (hop : bd.op = none) (g3 : Str) (f : Nat) (hfl : bd.flag = some (g3, f))
    (hfs : lowerCp f = 115) :
    ∃ b, matchText c (g₁ ++ (SCompound.mk tag [attrItem ns a]).render ++ g₂) l = .ok b ∧
      (b = true ↔ e.isDoc = false ∧ TagCond c e (tag.map STagN.value) ∧
        ∃ x ∈ e.attrs, D x ∧ attrStr x = bd.value.value) := by
  have h := flag_s_value_text c l e kids hf tag ns a bd hbd g₁ g₂ hg₁ hg₂ hok h0 D hD g3 f hfl hfs
  rwa [hop, opOf_eq, valueCond_eq_sensitive] at h

end Values

/-! ## 3. The name rule per document kind; XML documents compare exactly -/

/-! ### Which attributes a name designates (suppliers of `D` / `hD` for the theorems of section 2) -/

/-- Non-XML document, `[a …]` / `[|a …]` (prefix value empty), with or without namespace support
    (html.parser, lxml: without; html5lib: with): the attributes whose WHOLE key equals `a` after ASCII folding
    of both. -/
theorem designates_html_bare (c : Ctx) (a : Str) (x : Attr) (hx : c.isXml = false) :
    designates c [] a x = true ↔ lower a = lower x.key := by
  cases h : c.supportsNamespaces
  · exact C12Parse.designates_no_ns c [] a x h
  · rw [C12Parse.designates_bare c a x h, NameEq_html c hx]

/-- XML document, `[a …]` / `[|a …]`: the attributes whose whole key IS `a`. -/
theorem designates_xml_bare (c : Ctx) (a : Str) (x : Attr) (hx : c.isXml = true) :
    designates c [] a x = true ↔ a = x.key := by
  rw [C12Parse.designates_bare c a x (supportsNamespaces_of_xml hx), NameEq_xml c hx]

/-- XML document, `[ns|a …]`, `ns ↦ u ≠ ''`: namespace URI `u` and local name exactly `a`. -/
theorem designates_xml_ns (c : Ctx) (p a u : Str) (x : Attr) (hx : c.isXml = true) (hp : p ≠ [])
    (hs : p ≠ "*".toStr) (hm : c.nsGet p = some u) (hu : u ≠ []) :
    designates c p a x = true ↔ x.kns = some u ∧ x.kname = some a := by
  rw [C12Parse.designates_ns c p a x u (supportsNamespaces_of_xml hx) hp hs hm hu]
  simp only [NameEq_xml c hx]
  constructor
  · rintro ⟨h1, nm, h2, rfl⟩; exact ⟨h1, h2⟩
  · rintro ⟨h1, h2⟩; exact ⟨h1, a, h2, rfl⟩

/-- XML document, `[*|a …]`. -/
theorem designates_xml_any (c : Ctx) (a : Str) (x : Attr) (hx : c.isXml = true) :
    designates c "*".toStr a x = true ↔
      (x.kns = none ∧ a = x.key) ∨ (x.kns.isSome = true ∧ x.kname = some a) := by
  rw [C12Parse.designates_any c a x (supportsNamespaces_of_xml hx)]
  simp only [NameEq_xml c hx]
  constructor
  · rintro (h | ⟨h1, nm, h2, rfl⟩)
    · exact Or.inl h
    · exact Or.inr ⟨h1, h2⟩
  · rintro (h | ⟨h1, h2⟩)
    · exact Or.inl h
    · exact Or.inr ⟨h1, a, h2, rfl⟩

/-- **Type selector, XML document** (XHTML parsed as XML included): the name VALUE is `*` or IS the element's
    name. -/
theorem xml_type_text (c : Ctx) (l : Loc) (e : Elem) (kids : List Node) (hf : l.focus = .elem e kids)
    (x : STagN) (g₁ g₂ : Str) (hg₁ : isGap g₁) (hg₂ : isGap g₂) (hok : x.ok g₂)
    (h0 : ∀ y ∈ g₁ ++ x.render ++ g₂, y ≠ 0) (hx : c.isXml = true) :
    ∃ b, matchText c (g₁ ++ x.render ++ g₂) l = .ok b ∧
      (b = true ↔ e.isDoc = false ∧ NsCond c e (x.ns.map Refine.Compile.SNs.value) ∧
        (x.t.value = "*".toStr ∨ x.t.value = e.name)) := by
  obtain ⟨b, h1, h2⟩ := C12Parse.type_text c l e kids hf x g₁ g₂ hg₁ hg₂ hok h0
  refine ⟨b, h1, h2.trans ?_⟩
  simp only [NameCond, NameEq_xml c hx, STagN.value]

/-- **`[a]`, `[a op v flag]` / `[|a …]`, non-XML document**: the attribute NAME is compared after ASCII folding
    of both sides (the value test: section 2). -/
theorem html_attr_name_text (c : Ctx) (l : Loc) (e : Elem) (kids : List Node) (hf : l.focus = .elem e kids)
    (tag : Option STagN) (ns : Option Refine.Compile.SNs) (a : SAttr) (g₁ g₂ : Str) (hg₁ : isGap g₁)
    (hg₂ : isGap g₂) (hok : (SCompound.mk tag [attrItem ns a]).ok g₂)
    (h0 : ∀ y ∈ g₁ ++ (SCompound.mk tag [attrItem ns a]).render ++ g₂, y ≠ 0)
    (hfold : ∀ t, testOf a.value = some t → caseInsensitive c (valueOf a.name) t.flag = true →
      c.env.fold = lowerCp)
    (hx : c.isXml = false) (hns : pfxValue ns = []) :
    ∃ b, matchText c (g₁ ++ (SCompound.mk tag [attrItem ns a]).render ++ g₂) l = .ok b ∧
      (b = true ↔ e.isDoc = false ∧ TagCond c e (tag.map STagN.value) ∧
        AttrHolds c e (valueOf a.name) (testOf a.value) (fun x => lower (valueOf a.name) = lower x.key)) :=
  C12Parse.attr_text c l e kids hf tag ns a g₁ g₂ hg₁ hg₂ hok h0 hfold _
    (fun x => by rw [hns]; exact designates_html_bare c _ x hx)

/-- **`[a]`, `[a op v flag]` / `[|a …]`, XML document**: the attribute NAME is compared exactly — whatever the
    flag: `i` folds the VALUE comparison only (`xml_eq_i_text`). -/
theorem xml_attr_name_text (c : Ctx) (l : Loc) (e : Elem) (kids : List Node) (hf : l.focus = .elem e kids)
    (tag : Option STagN) (ns : Option Refine.Compile.SNs) (a : SAttr) (g₁ g₂ : Str) (hg₁ : isGap g₁)
    (hg₂ : isGap g₂) (hok : (SCompound.mk tag [attrItem ns a]).ok g₂)
    (h0 : ∀ y ∈ g₁ ++ (SCompound.mk tag [attrItem ns a]).render ++ g₂, y ≠ 0)
    (hfold : ∀ t, testOf a.value = some t → caseInsensitive c (valueOf a.name) t.flag = true →
      c.env.fold = lowerCp)
    (hx : c.isXml = true) (hns : pfxValue ns = []) :
    ∃ b, matchText c (g₁ ++ (SCompound.mk tag [attrItem ns a]).render ++ g₂) l = .ok b ∧
      (b = true ↔ e.isDoc = false ∧ TagCond c e (tag.map STagN.value) ∧
        AttrHolds c e (valueOf a.name) (testOf a.value) (fun x => valueOf a.name = x.key)) :=
  C12Parse.attr_text c l e kids hf tag ns a g₁ g₂ hg₁ hg₂ hok h0 hfold _
    (fun x => by rw [hns]; exact designates_xml_bare c _ x hx)

/-- **`[a=v i]`, XML document**: the name exactly, the value after ASCII folding of both. -/
theorem xml_eq_i_text (c : Ctx) (l : Loc) (e : Elem) (kids : List Node) (hf : l.focus = .elem e kids)
    (tag : Option STagN) (ns : Option Refine.Compile.SNs) (a : SAttr) (bd : SAttrOp) (hbd : a.body = some bd)
    (g₁ g₂ : Str) (hg₁ : isGap g₁) (hg₂ : isGap g₂) (hok : (SCompound.mk tag [attrItem ns a]).ok g₂)
    (h0 : ∀ y ∈ g₁ ++ (SCompound.mk tag [attrItem ns a]).render ++ g₂, y ≠ 0)
    (hx : c.isXml = true) (hns : pfxValue ns = [])
    (hop : bd.op = none) (g3 : Str) (f : Nat) (hfl : bd.flag = some (g3, f)) (hfi : lowerCp f = 105)
    (hfold : c.env.fold = lowerCp) :
    ∃ b, matchText c (g₁ ++ (SCompound.mk tag [attrItem ns a]).render ++ g₂) l = .ok b ∧
      (b = true ↔ e.isDoc = false ∧ TagCond c e (tag.map STagN.value) ∧
        ∃ x ∈ e.attrs, valueOf a.name = x.key ∧ lower (attrStr x) = lower bd.value.value) :=
  eq_i_text c l e kids hf tag ns a bd hbd g₁ g₂ hg₁ hg₂ hok h0 _
    (fun x => by rw [hns]; exact designates_xml_bare c _ x hx) hop g3 f hfl hfi hfold

/-! ## 4. `#id`, `.class`: exact in every document kind (the model, like the library, has no quirks mode) -/

/-- **`E#v`** (`E` an optional type selector): the FIRST attribute whose key is `id` — up to ASCII case in a
    non-XML document, exactly in an XML document (`keyIs`) — carries the single string `v`, compared EXACTLY. -/
theorem id_text (c : Ctx) (l : Loc) (e : Elem) (kids : List Node) (hf : l.focus = .elem e kids)
    (tag : Option STagN) (f : Forms) (g₁ g₂ : Str) (hg₁ : isGap g₁) (hg₂ : isGap g₂)
    (hok : (SCompound.mk tag [.id f]).ok g₂)
    (h0 : ∀ y ∈ g₁ ++ (SCompound.mk tag [.id f]).render ++ g₂, y ≠ 0) :
    ∃ b, matchText c (g₁ ++ (SCompound.mk tag [.id f]).render ++ g₂) l = .ok b ∧
      (b = true ↔ e.isDoc = false ∧ TagCond c e (tag.map STagN.value) ∧
        ∃ x, e.attrs.find? (keyIs c idName) = some x ∧ normalizeValue x.val = .str (valueOf f)) := by
  obtain ⟨b, h1, h2⟩ := C10Parse.compound_simple_text c l e kids hf tag [.id f] g₁ g₂ hg₁ hg₂ hok
    (by cases tag <;> simp [SCompound.isEmpty])
    (by intro it hit; simp only [List.mem_singleton] at hit; subst hit; rfl) h0
    (by intro ns name t hm; simp [simplesOf, simpleOf] at hm)
  refine ⟨b, h1, h2.trans ?_⟩
  simp only [simplesOf, List.filterMap_cons, simpleOf, List.filterMap_nil, List.mem_singleton, forall_eq,
    satSimple, beq_iff_eq, idOf_iff]

/-- **`E.v`**: the first attribute whose key is `class` (same name rule) has `v` among its white-space
    separated words (among its items when the tree builder has split it), compared EXACTLY. -/
theorem class_text (c : Ctx) (l : Loc) (e : Elem) (kids : List Node) (hf : l.focus = .elem e kids)
    (tag : Option STagN) (f : Forms) (g₁ g₂ : Str) (hg₁ : isGap g₁) (hg₂ : isGap g₂)
    (hok : (SCompound.mk tag [.cls f]).ok g₂)
    (h0 : ∀ y ∈ g₁ ++ (SCompound.mk tag [.cls f]).render ++ g₂, y ≠ 0) :
    ∃ b, matchText c (g₁ ++ (SCompound.mk tag [.cls f]).render ++ g₂) l = .ok b ∧
      (b = true ↔ e.isDoc = false ∧ TagCond c e (tag.map STagN.value) ∧
        ∃ x, e.attrs.find? (keyIs c className) = some x ∧ CarriesClass (valueOf f) x) := by
  obtain ⟨b, h1, h2⟩ := C10Parse.compound_simple_text c l e kids hf tag [.cls f] g₁ g₂ hg₁ hg₂ hok
    (by cases tag <;> simp [SCompound.isEmpty])
    (by intro it hit; simp only [List.mem_singleton] at hit; subst hit; rfl) h0
    (by intro ns name t hm; simp [simplesOf, simpleOf] at hm)
  refine ⟨b, h1, h2.trans ?_⟩
  simp only [simplesOf, List.filterMap_cons, simpleOf, List.filterMap_nil, List.mem_singleton, forall_eq,
    satSimple, hasClass_iff]

/-! ## Non-vacuity: concrete texts on concrete trees, the model evaluated (`#guard`), the library asked -/

namespace Examples
open C11 (chtml cxml)
open C12Parse (ok_true_of ok_false_of)
open C12Parse.Examples (lits isOk)

def sattr (k v : String) : Attr := { key := k.toStr, kns := none, kname := none, val := .str v.toStr }

/-- `<DiV ID="Ab" Class="Foo" TYPE="TeXt" data-X="Val">` as html.parser / lxml materialise it: names folded, the
    class attribute split. -/
def hClass : Attr :=
  { key := "class".toStr, kns := none, kname := none, val := .seq [.str "Foo".toStr] "['Foo']".toStr }
def hEl : Elem :=
  { isDoc := false, name := "div".toStr, pfx := none, ns := none,
    attrs := [sattr "id" "Ab", hClass, sattr "type" "TeXt", sattr "data-x" "Val"] }
def hLoc : Loc := ⟨.elem hEl [], []⟩

/-- `<DiV ID="Ab" class="Foo" TYPE="TeXt" dAta="Val"/>` as lxml-xml materialises it: as written. -/
def xEl : Elem :=
  { isDoc := false, name := "DiV".toStr, pfx := none, ns := none,
    attrs := [sattr "ID" "Ab", sattr "class" "Foo", sattr "TYPE" "TeXt", sattr "dAta" "Val"] }
def xLoc : Loc := ⟨.elem xEl [], []⟩

/-- a non-XML tree that kept upper case on the document side (no HTML parser of bs4 produces one, but
    `soup.new_tag('DiV', attrs={'ID': 'Ab', 'TyPe': 'TeXt'})` in an html.parser soup does; the matcher folds the
    document side all the same, and the library agrees on the three lines below) -/
def hElUpper : Elem :=
  { isDoc := false, name := "DiV".toStr, pfx := none, ns := none, attrs := [sattr "ID" "Ab", sattr "TyPe" "TeXt"] }
def hLocUpper : Loc := ⟨.elem hElUpper [], []⟩

/-- `\44 iv`: `D` as a hex escape -/
def dEsc : Forms := [(68, .hex 2 [] (some .space)), (105, .lit), (118, .lit)]

/-- 1. tag names, HTML: `dIv` and `\44 iv` (value `Div`) give the same verdict (`name_case_text`) … -/
example : ∃ b, matchText chtml "dIv".toStr hLoc = .ok b ∧ matchText chtml " \\44 iv/**/".toStr hLoc = .ok b :=
  name_case_text chtml hLoc hEl [] rfl (lits "dIv") dEsc [] [] [32] "/**/".toStr (by decide) (by decide)
    (by decide) (by decide) (by simp only [C09Compile.identOK]; decide) (by simp only [C09Compile.identOK]; decide)
    (by decide) (by decide) rfl (by decide)

/-- … namely `true` (`html_type_text`). -/
example : matchText chtml "dIv".toStr hLoc = .ok true :=
  ok_true_of (html_type_text chtml hLoc hEl [] rfl ⟨none, .name (lits "dIv")⟩ [] [] (by decide) (by decide)
    (by simp only [STagN.ok, STag.ok, C09Compile.identOK]; decide) (by decide) rfl)
    ⟨rfl, Or.inl (by decide), Or.inr (by decide)⟩

/-- 3. XML: `DiV` and `div` are NOT equivalent — the witness tree is the single element `<DiV/>`
    (`xml_type_text`). -/
example : matchText cxml "DiV".toStr xLoc = .ok true ∧ matchText cxml "div".toStr xLoc = .ok false :=
  ⟨ok_true_of (xml_type_text cxml xLoc xEl [] rfl ⟨none, .name (lits "DiV")⟩ [] [] (by decide) (by decide)
      (by simp only [STagN.ok, STag.ok, C09Compile.identOK]; decide) (by decide) rfl)
      ⟨rfl, Or.inl (by decide), Or.inr (by decide)⟩,
   ok_false_of (xml_type_text cxml xLoc xEl [] rfl ⟨none, .name (lits "div")⟩ [] [] (by decide) (by decide)
      (by simp only [STagN.ok, STag.ok, C09Compile.identOK]; decide) (by decide) rfl)
      (by rintro ⟨_, _, h⟩; revert h; decide)⟩

/-- `[ name = value flag ]` with single spaces around the parts, the value a bare identifier -/
def eqAttr (name value : String) (flag : Option Nat) : SAttr :=
  ⟨[], lits name, some ⟨[], none, [], .ident (lits value), flag.map fun f => ([32], f)⟩, []⟩

theorem eqAttr_ok (name value : String) (flag : Option Nat)
    (h : (name, value, flag) ∈ [("TyPe", "text", none), ("type", "text", some 115), ("id", "ab", none),
      ("id", "ab", some 73), ("iD", "Ab", none), ("id", "Ab", none), ("dAta", "val", some 105),
      ("DATA", "val", some 105), ("TYPE", "text", none)]) :
    (SCompound.mk none [attrItem none (eqAttr name value flag)]).ok [] := by
  simp only [List.mem_cons, Prod.mk.injEq, List.not_mem_nil, or_false] at h
  rcases h with ⟨rfl, rfl, rfl⟩ | ⟨rfl, rfl, rfl⟩ | ⟨rfl, rfl, rfl⟩ | ⟨rfl, rfl, rfl⟩ | ⟨rfl, rfl, rfl⟩ |
      ⟨rfl, rfl, rfl⟩ | ⟨rfl, rfl, rfl⟩ | ⟨rfl, rfl, rfl⟩ | ⟨rfl, rfl, rfl⟩ <;>
    simp +decide [SCompound.ok, itemsOK, renderItems, attrItem, SItem.ok, eqAttr, SAttr.ok, C09Compile.identOK,
      C09Compile.SValue.ok]

/-- 1. attribute names, HTML: `[iD=Ab]` and `[id=Ab]` give the same verdict (`attr_name_case_text`). -/
example : ∃ b, matchText chtml "[iD=Ab]".toStr hLoc = .ok b ∧ matchText chtml "[id=Ab]".toStr hLoc = .ok b :=
  attr_name_case_text chtml hLoc hEl [] rfl none none none (eqAttr "iD" "Ab" none) (eqAttr "id" "Ab" none)
    [] [] [] [] (by decide) (by decide) (by decide) (by decide) (eqAttr_ok _ _ _ (by simp)) (eqAttr_ok _ _ _ (by simp))
    (by decide) (by decide) rfl rfl (by decide) rfl (fun _ _ _ => rfl)

/-- 2. `[TyPe=text]` on `type="TeXt"`, HTML: insensitive (`html_type_eq_text`) … -/
example : matchText chtml "[TyPe=text]".toStr hLoc = .ok true :=
  ok_true_of (html_type_eq_text chtml hLoc hEl [] rfl none none (eqAttr "TyPe" "text" none) _ rfl [] []
    (by decide) (by decide) (eqAttr_ok _ _ _ (by simp)) (by decide) _
    (fun x => designates_html_bare chtml _ x rfl) rfl rfl rfl (by decide) rfl)
    ⟨rfl, Or.inl (by decide), sattr "type" "TeXt", by simp [hEl], by decide, by decide⟩

/-- … `[type=text s]`: sensitive even for `type` (`eq_s_text`) … -/
example : matchText chtml "[type=text s]".toStr hLoc = .ok false :=
  ok_false_of (eq_s_text chtml hLoc hEl [] rfl none none (eqAttr "type" "text" (some 115)) _ rfl [] []
    (by decide) (by decide) (eqAttr_ok _ _ _ (by simp)) (by decide) _
    (fun x => designates_html_bare chtml _ x rfl) rfl [32] 115 rfl (by decide))
    (by
      rintro ⟨_, _, x, hx, hk, hv⟩
      simp only [hEl, List.mem_cons, List.not_mem_nil, or_false] at hx
      rcases hx with rfl | rfl | rfl | rfl <;> revert hk hv <;> decide)

/-- … `[id=ab]` on `id="Ab"`: sensitive (`plain_eq_text`) … -/
example : matchText chtml "[id=ab]".toStr hLoc = .ok false :=
  ok_false_of (plain_eq_text chtml hLoc hEl [] rfl none none (eqAttr "id" "ab" none) _ rfl [] []
    (by decide) (by decide) (eqAttr_ok _ _ _ (by simp)) (by decide) _
    (fun x => designates_html_bare chtml _ x rfl) rfl rfl (by decide))
    (by
      rintro ⟨_, _, x, hx, hk, hv⟩
      simp only [hEl, List.mem_cons, List.not_mem_nil, or_false] at hx
      rcases hx with rfl | rfl | rfl | rfl <;> revert hk hv <;> decide)

/-- … `[id=ab I]`: insensitive (`eq_i_text`). -/
example : matchText chtml "[id=ab I]".toStr hLoc = .ok true :=
  ok_true_of (eq_i_text chtml hLoc hEl [] rfl none none (eqAttr "id" "ab" (some 73)) _ rfl [] []
    (by decide) (by decide) (eqAttr_ok _ _ _ (by simp)) (by decide) _
    (fun x => designates_html_bare chtml _ x rfl) rfl [32] 73 rfl (by decide) rfl)
    ⟨rfl, Or.inl (by decide), sattr "id" "Ab", by simp [hEl], by decide, by decide⟩

/-- 3. XML: `[TYPE=text]` on `TYPE="TeXt"`: sensitive, `type` is not special (`xml_eq_text`); `i` folds the value,
    not the name: `[dAta=val i]` holds, `[DATA=val i]` does not (`xml_eq_i_text`). -/
example : matchText cxml "[TYPE=text]".toStr xLoc = .ok false :=
  ok_false_of (xml_eq_text cxml xLoc xEl [] rfl none none (eqAttr "TYPE" "text" none) _ rfl [] []
    (by decide) (by decide) (eqAttr_ok _ _ _ (by simp)) (by decide) _
    (fun x => designates_xml_bare cxml _ x rfl) rfl rfl rfl)
    (by
      rintro ⟨_, _, x, hx, hk, hv⟩
      simp only [xEl, List.mem_cons, List.not_mem_nil, or_false] at hx
      rcases hx with rfl | rfl | rfl | rfl <;> revert hk hv <;> decide)

example : matchText cxml "[dAta=val i]".toStr xLoc = .ok true ∧ matchText cxml "[DATA=val i]".toStr xLoc = .ok false :=
  ⟨ok_true_of (xml_eq_i_text cxml xLoc xEl [] rfl none none (eqAttr "dAta" "val" (some 105)) _ rfl [] []
      (by decide) (by decide) (eqAttr_ok _ _ _ (by simp)) (by decide) rfl rfl rfl [32] 105 rfl (by decide) rfl)
      ⟨rfl, Or.inl (by decide), sattr "dAta" "Val", by simp [xEl], by decide, by decide⟩,
   ok_false_of (xml_eq_i_text cxml xLoc xEl [] rfl none none (eqAttr "DATA" "val" (some 105)) _ rfl [] []
      (by decide) (by decide) (eqAttr_ok _ _ _ (by simp)) (by decide) rfl rfl rfl [32] 105 rfl (by decide) rfl)
      (by
        rintro ⟨_, _, x, hx, hk, _⟩
        simp only [xEl, List.mem_cons, List.not_mem_nil, or_false] at hx
        rcases hx with rfl | rfl | rfl | rfl <;> revert hk <;> decide)⟩

/-- 4. `#Ab` / `#ab`, `.Foo` / `.foo`: exact, HTML included (`id_text`, `class_text`). -/
example : matchText chtml "#Ab".toStr hLoc = .ok true ∧ matchText chtml "#ab".toStr hLoc = .ok false :=
  ⟨ok_true_of (id_text chtml hLoc hEl [] rfl none (lits "Ab") [] [] (by decide) (by decide)
      (by simp +decide [SCompound.ok, itemsOK, SItem.ok, C09Compile.identOK]) (by decide))
      ⟨rfl, Or.inl (by decide), sattr "id" "Ab", by rfl, by decide⟩,
   ok_false_of (id_text chtml hLoc hEl [] rfl none (lits "ab") [] [] (by decide) (by decide)
      (by simp +decide [SCompound.ok, itemsOK, SItem.ok, C09Compile.identOK]) (by decide))
      (by
        rintro ⟨_, _, x, hx, hv⟩
        have : x = sattr "id" "Ab" := by
          have h' : hEl.attrs.find? (keyIs chtml idName) = some (sattr "id" "Ab") := by rfl
          rw [h'] at hx; exact (Option.some.inj hx).symm
        subst this; revert hv; decide)⟩

example : matchText chtml ".Foo".toStr hLoc = .ok true :=
  ok_true_of (class_text chtml hLoc hEl [] rfl none (lits "Foo") [] [] (by decide) (by decide)
      (by simp +decide [SCompound.ok, itemsOK, SItem.ok, C09Compile.identOK]) (by decide))
      ⟨rfl, Or.inl (by decide), hClass, by rfl, by show ("Foo".toStr ∈ ["Foo".toStr]); decide⟩

/-! The model evaluated directly on the same texts and more.  Every line was also put to the library
    (soupsieve at /repo, bs4): the HTML lines on
    `BeautifulSoup('<DiV ID="Ab" Class="Foo" TYPE="TeXt" data-X="Val">x</DiV>', 'html.parser')`,
    the XML lines on `BeautifulSoup('<DiV ID="Ab" class="Foo" TYPE="TeXt" dAta="Val">x</DiV>', 'lxml-xml')`,
    with `bool(sv.match(sel, soup.find(True)))` — the HTML lines also with the parsers `lxml` and `html5lib`
    (`ch5` lines: html5lib only), the `cxhtml` lines on the same element inside
    `<html xmlns="http://www.w3.org/1999/xhtml">…</html>` parsed by `lxml-xml`; the verdicts agree. -/

-- 1. names, HTML
#guard isOk (matchText chtml "div".toStr hLoc) true
#guard isOk (matchText chtml "DIV".toStr hLoc) true
#guard isOk (matchText chtml "dIv".toStr hLoc) true
#guard isOk (matchText chtml " \\44 iv/**/".toStr hLoc) true
#guard isOk (matchText chtml "[id]".toStr hLoc) true
#guard isOk (matchText chtml "[ID]".toStr hLoc) true
#guard isOk (matchText chtml "[iD=Ab]".toStr hLoc) true
#guard isOk (matchText chtml "[DATA-X=Val]".toStr hLoc) true
-- 2. values, HTML
#guard isOk (matchText chtml "[id=ab]".toStr hLoc) false
#guard isOk (matchText chtml "[id=ab i]".toStr hLoc) true
#guard isOk (matchText chtml "[id=AB I]".toStr hLoc) true
#guard isOk (matchText chtml "[DATA-X=val]".toStr hLoc) false
#guard isOk (matchText chtml "[type=text]".toStr hLoc) true
#guard isOk (matchText chtml "[TyPe=text]".toStr hLoc) true
#guard isOk (matchText chtml "[type=text s]".toStr hLoc) false
#guard isOk (matchText chtml "[type=TeXt S]".toStr hLoc) true
#guard isOk (matchText chtml "[type^=te]".toStr hLoc) true
#guard isOk (matchText chtml "[type^=te s]".toStr hLoc) false
#guard isOk (matchText chtml "[type$=XT]".toStr hLoc) true
#guard isOk (matchText chtml "[type*=EX]".toStr hLoc) true
#guard isOk (matchText chtml "[type~=TEXT]".toStr hLoc) true
#guard isOk (matchText chtml "[type|=TEXT]".toStr hLoc) true
#guard isOk (matchText chtml "[type!=TEXT]".toStr hLoc) false
#guard isOk (matchText chtml "[type!=TEXT s]".toStr hLoc) true
#guard isOk (matchText chtml "[id^=a]".toStr hLoc) false
#guard isOk (matchText chtml "[id^=a i]".toStr hLoc) true
#guard isOk (matchText chtml "[class~=foo]".toStr hLoc) false
#guard isOk (matchText chtml "[class~=foo i]".toStr hLoc) true
-- 3. XML
#guard isOk (matchText cxml "DiV".toStr xLoc) true
#guard isOk (matchText cxml "div".toStr xLoc) false
#guard isOk (matchText cxml "DIV".toStr xLoc) false
#guard isOk (matchText cxml "[dAta]".toStr xLoc) true
#guard isOk (matchText cxml "[data]".toStr xLoc) false
#guard isOk (matchText cxml "[dAta=Val]".toStr xLoc) true
#guard isOk (matchText cxml "[dAta=val]".toStr xLoc) false
#guard isOk (matchText cxml "[dAta=val i]".toStr xLoc) true
#guard isOk (matchText cxml "[DATA=val i]".toStr xLoc) false
#guard isOk (matchText cxml "[TYPE=text]".toStr xLoc) false
#guard isOk (matchText cxml "[TYPE=TeXt]".toStr xLoc) true
#guard isOk (matchText cxml "[TYPE=text i]".toStr xLoc) true
#guard isOk (matchText cxml "[type=TeXt]".toStr xLoc) false
-- 4. ids and classes
#guard isOk (matchText chtml "#Ab".toStr hLoc) true
#guard isOk (matchText chtml "#ab".toStr hLoc) false
#guard isOk (matchText chtml ".Foo".toStr hLoc) true
#guard isOk (matchText chtml ".foo".toStr hLoc) false
#guard isOk (matchText chtml "div#Ab.Foo".toStr hLoc) true
#guard isOk (matchText cxml "#Ab".toStr xLoc) false        -- the key is `ID`, XML looks for `id`
#guard isOk (matchText cxml ".Foo".toStr xLoc) true
#guard isOk (matchText cxml ".foo".toStr xLoc) false
-- model only: a non-XML tree with upper case on the document side
#guard isOk (matchText chtml "div".toStr hLocUpper) true
#guard isOk (matchText chtml "#Ab".toStr hLocUpper) true
#guard isOk (matchText chtml "[TYPE=text]".toStr hLocUpper) true

-- html5lib: a non-XML document WITH namespace support (elements in the XHTML namespace)
def ch5 : Ctx := { chtml with hasHtmlNs := true }
def h5Loc : Loc := ⟨.elem { hEl with ns := some NS_XHTML } [], []⟩
#guard isOk (matchText ch5 "dIv".toStr h5Loc) true
#guard isOk (matchText ch5 "[iD=Ab]".toStr h5Loc) true
#guard isOk (matchText ch5 "[id=ab]".toStr h5Loc) false
#guard isOk (matchText ch5 "[TyPe=text]".toStr h5Loc) true
#guard isOk (matchText ch5 "[type=text s]".toStr h5Loc) false
#guard isOk (matchText ch5 "#ab".toStr h5Loc) false
-- XHTML parsed as XML (lxml-xml): `isXml` and `isHtml` both hold; the XML rules apply
def cxhtml : Ctx := { cxml with hasHtmlNs := true, isHtml := true }
def xhLoc : Loc := ⟨.elem { xEl with ns := some NS_XHTML } [], []⟩
#guard isOk (matchText cxhtml "DiV".toStr xhLoc) true
#guard isOk (matchText cxhtml "div".toStr xhLoc) false
#guard isOk (matchText cxhtml "[TYPE=text]".toStr xhLoc) false
#guard isOk (matchText cxhtml "[TYPE=text i]".toStr xhLoc) true
#guard isOk (matchText cxhtml "[dAta=Val]".toStr xhLoc) true
#guard isOk (matchText cxhtml "[data=Val]".toStr xhLoc) false

end Examples

#print axioms compound_case_text
#print axioms type_variant_text
#print axioms type_case_text
#print axioms name_case_text
#print axioms html_type_text
#print axioms attr_variant_text
#print axioms attr_name_case_text
#print axioms attr_value_case_text
#print axioms attr_value_text
#print axioms plain_value_text
#print axioms html_type_value_text
#print axioms xml_value_text
#print axioms flag_i_value_text
#print axioms flag_s_value_text
#print axioms plain_eq_text
#print axioms html_type_eq_text
#print axioms xml_eq_text
#print axioms eq_i_text
#print axioms eq_s_text
#print axioms xml_type_text
#print axioms html_attr_name_text
#print axioms xml_attr_name_text
#print axioms xml_eq_i_text
#print axioms id_text
#print axioms class_text

end C11Parse
end SoupVerif
