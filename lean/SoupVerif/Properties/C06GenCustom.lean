/-
  C06 / C09 — `css_parser.process_custom`, TRANSLATED FROM THE SOURCE on every run
  (`gen/gen_py_smallfn.py` → `Generated/PySmallFn.lean`, `Gen.PySmallFn.customStep` = the body of
  `for key, value in custom.items():`; the frame `D = {}` / `if custom is not None:` / `return D` is
  checked by the translator), is the hand model `Parser.processCustom` (Model/Parser.lean) that
  `Properties/C06.lean` (`compile_custom_errors_only_from_map`, `custom_case_collision`, `custom_bad_name`)
  and `Properties/C09Compile2.lean` (`processCustom_table`) are about.

  `RE_CUSTOM.match(name) is None` is the regex-engine model `Rx.isMatch` on the REGENERATED `Gen.cp_RE_CUSTOM`;
  `raise SelectorSyntaxError(...)` ↦ `badCustomName`, `raise KeyError(...)` ↦ `customCollision` (`excErr`).
-/
import SoupVerif.Generated.PySmallFn
import SoupVerif.Properties.C06
namespace SoupVerif
namespace C06GenCustom
open _root_.SoupVerif.Parser

/-- The model's error value for each exception type of the translated loop body. -/
def excErr : PySmallFn.Exc → Err
  | .SelectorSyntaxError => { kind := .badCustomName, pattern := [], offset := 0 }
  | .KeyError => { kind := .customCollision, pattern := [], offset := 0 }

/-- `process_custom` as the translator reads it: the generated loop body folded over the items of the
    dictionary, starting from `{}`. -/
def genProcessCustom (env : CharEnv) (custom : List (Str × Str)) : M Custom :=
  custom.foldlM (fun acc kv => (Gen.PySmallFn.customStep env acc kv.1 kv.2).mapError excErr) []

/-- One iteration: the generated step is the step of the hand model. -/
theorem customStep_eq (env : CharEnv) (acc : Custom) (k v : Str) :
    (Gen.PySmallFn.customStep env acc k v).mapError excErr =
      (let name := lower k
       if !(Rx.isMatch env Gen.lexicon.reCustom name) then
         .error { kind := .badCustomName, pattern := [], offset := 0 }
       else
         let key := lower (cssUnescape env Gen.lexicon name)
         if acc.any (fun e => e.1 == key) then .error { kind := .customCollision, pattern := [], offset := 0 }
         else .ok (acc.set key (.src v))) := by
  show (Gen.PySmallFn.customStep env acc k v).mapError excErr = _
  unfold Gen.PySmallFn.customStep
  simp only [PySmallFn.reMatchIsNone, PySmallFn.dictHas, PySmallFn.dictSet]
  have hre : Gen.lexicon.reCustom = Gen.cp_RE_CUSTOM := rfl
  rw [hre]
  generalize lower (cssUnescape env Gen.lexicon (lower k) false) = key
  by_cases h1 : Rx.isMatch env Gen.cp_RE_CUSTOM (lower k) = true <;>
    by_cases h2 : acc.any (fun e => e.1 == key) = true <;>
    simp [h1, h2, Except.mapError, excErr]

/-- **The tie.** For every dictionary: the hand model of `process_custom` is the fold of the loop body
    translated from the source. -/
theorem processCustom_eq_gen (env : CharEnv) (custom : List (Str × Str)) :
    processCustom env Gen.lexicon custom = genProcessCustom env custom := by
  unfold processCustom genProcessCustom
  congr 1
  funext acc kv
  obtain ⟨k, v⟩ := kv
  exact (customStep_eq env acc k v).symm

/-! ## The property theorems, about the regenerated definition -/

/-- An error of the generated `process_custom` is one of its two `raise`s. -/
theorem gen_error_kinds (env : CharEnv) (custom : List (Str × Str)) {e : Err}
    (h : genProcessCustom env custom = .error e) :
    e.kind = .badCustomName ∨ e.kind = .customCollision := by
  rw [← processCustom_eq_gen] at h
  exact (ParserProgress.processCustom_error h).1

/-- `compile_custom_errors_only_from_map` (C06) with the generated `process_custom`: the KeyError and the
    bad-name SelectorSyntaxError of `compile` come from the translated loop only. -/
theorem compile_custom_errors_only_from_gen (env : CharEnv) (B : Builtins) (pattern : Str)
    (custom : List (Str × Str)) (flags : Nat) {e : Err}
    (h : compile env Gen.lexicon B pattern custom flags = .error e) :
    (genProcessCustom env custom = .error e ∧
      (e.kind = .badCustomName ∨ e.kind = .customCollision)) ∨
    (e.kind ≠ .badCustomName ∧ e.kind ≠ .customCollision) := by
  rw [← processCustom_eq_gen]
  exact C06.compile_custom_errors_only_from_map env B pattern custom flags h

/-- The exception kind of a run of the generated `process_custom`. -/
def kindOf (r : M Custom) : Option ErrKind :=
  match r with
  | .error e => some e.kind
  | .ok _ => none

/-- `custom_case_collision` (C06) at the generated loop: two names differing only in case (`:--a`, `:--A`):
    `KeyError` at the second. -/
theorem gen_case_collision :
    kindOf (genProcessCustom asciiEnv [([58, 45, 45, 97], [58, 45, 45, 98]), ([58, 45, 45, 65], [58, 45, 45, 98])]) =
      some .customCollision := by
  decide +kernel

/-- `custom_bad_name` (C06) at the generated loop: `a` is not a custom pseudo-class name. -/
theorem gen_bad_name :
    kindOf (genProcessCustom asciiEnv [([97], [58, 45, 45, 98])]) = some .badCustomName := by
  decide +kernel

/-- The name is checked BEFORE the collision test, on the lower-cased key, and the store key is the
    lower-cased UNESCAPED name: `:--\41` after `:--a` collides (`\41` = `A`). -/
theorem gen_escaped_collision :
    kindOf (genProcessCustom asciiEnv [([58, 45, 45, 97], []), ([58, 45, 45, 92, 52, 49], [])]) =
      some .customCollision := by
  decide +kernel

end C06GenCustom
end SoupVerif
