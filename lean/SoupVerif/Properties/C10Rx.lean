/-
  C10 at the level of the regular expressions of the SOURCE.

  `Properties/C10.lean` proves the round trip for the hand-written scanner `Escape.scanIdent` and the
  hand-written decoder `Escape.cssUnescape`.  `Refine/Ident.lean` and `Refine/Unescape.lean` prove, for all
  strings, that these compute exactly what the regex-engine model computes on the token regexes
  `#IDENTIFIER` / `.IDENTIFIER` and on `RE_CSS_ESC` as REGENERATED from `css_parser.py`
  (`Gen.tok_id`, `Gen.tok_class`, `Gen.cp_RE_CSS_ESC`).  Composed here: the C10 statements about the
  regexes the code actually compiles — so an edit of `IDENTIFIER`, `CSS_ESCAPES`, `WS`, `NEWLINE` or
  `RE_CSS_ESC` in the source breaks a proof obligation of this file (first of all the `rfl` shape lemmas of
  the refinement files).
-/
import SoupVerif.Properties.C10
import SoupVerif.Refine.Ident
import SoupVerif.Refine.Unescape
namespace SoupVerif
namespace C10Rx
open Escape Rx

/-- `'#' + escape(s)` followed by any text that cannot continue an identifier is consumed by the generated
    `id` token regex as exactly one token (Python's IGNORECASE folding). -/
theorem id_token_on_escape (s r : Str) (hs : s ≠ []) (hr : ¬ continuesIdent r) :
    matchAt pyFoldEnv Gen.tok_id (35 :: escape s ++ r) 0 = some (1 + (escape s).length, []) := by
  have h := Refine.Ident.tok_id_matchAt Refine.Ident.identFold_py (35 :: escape s ++ r) 0
  rw [List.drop_zero, C10.escape_scan_id s r hs hr] at h
  rw [h]
  simp [Nat.add_comm]

/-- The same for `'.' + escape(s)` and the generated `class` token regex. -/
theorem class_token_on_escape (s r : Str) (hs : s ≠ []) (hr : ¬ continuesIdent r) :
    matchAt pyFoldEnv Gen.tok_class (46 :: escape s ++ r) 0 = some (1 + (escape s).length, []) := by
  have h := Refine.Ident.tok_class_matchAt Refine.Ident.identFold_py (46 :: escape s ++ r) 0
  rw [List.drop_zero, C10.escape_scan_class s r hs hr] at h
  rw [h]
  simp [Nat.add_comm]

/-- Bare `IDENTIFIER` (as inside `[a=IDENT]`): `escape s` is one identifier for the regex. -/
theorem ident_on_escape (s r : Str) (hs : s ≠ []) (hr : ¬ continuesIdent r) :
    matchAt pyFoldEnv (.seq [Refine.Ident.rxHead, Refine.Ident.rxStar]) (escape s ++ r) 0 =
      some ((escape s).length, []) := by
  have h := Refine.Ident.matchAt_ident Refine.Ident.identFold_py (escape s ++ r) 0
  rw [List.drop_zero, C10.escape_scan s r hs hr] at h
  rw [h]
  simp

/-- `css_unescape` as the parser model runs it — `RE_CSS_ESC.sub(replace, …)` with the engine on the
    regenerated `RE_CSS_ESC` — decodes `escape s` to `s` with NUL replaced by U+FFFD. -/
theorem unescape_escape_rx (s : Str) :
    Parser.cssUnescape pyFoldEnv Gen.lexicon (escape s) false = nulToFFFD s := by
  rw [Refine.cssUnescape_pyFold (escape s) (C10.unescape_never_raises s), C10.unescape_escape]

/-- The round trip in one statement about the generated regexes: the `id` token exists on
    `'#' + escape(s) + r`, ends where `r` begins, and the value the parser computes from the token text
    is `s` with NUL replaced by U+FFFD. -/
theorem id_roundtrip_rx (s r : Str) (hs : s ≠ []) (hr : ¬ continuesIdent r) :
    ∃ e, matchAt pyFoldEnv Gen.tok_id (35 :: escape s ++ r) 0 = some (e, []) ∧
      (35 :: escape s ++ r).drop e = r ∧
      Parser.cssUnescape pyFoldEnv Gen.lexicon (((35 :: escape s ++ r).take e).drop 1) false = nulToFFFD s := by
  refine ⟨1 + (escape s).length, id_token_on_escape s r hs hr, ?_, ?_⟩
  · rw [Nat.add_comm]; simp
  · have : ((35 :: escape s ++ r).take (1 + (escape s).length)).drop 1 = escape s := by
      rw [Nat.add_comm]; simp
    rw [this, unescape_escape_rx]

-- non-vacuity: a concrete instance evaluated in the kernel through the engine
example : matchAt pyFoldEnv Gen.tok_id ("#\\31 a\\.b]".toStr) 0 = some (9, []) := by decide +kernel

end C10Rx
end SoupVerif
