/-
  C09  Compiled meaning depends only on the token sequence, not on its spelling.

  "Two patterns that differ only in CSS-insignificant ways compile to equal selector structures:
   any amount of whitespace or comments wherever CSS allows them, identifier or string characters
   written as CSS escapes, single versus double quotes or a bare identifier for the same value,
   and upper/lower case in pseudo-class names, An+B keywords, 'of', :dir() arguments and the i/s
   flags."

  WHAT IS PROVED HERE.  The full statement (`compile_spelling_invariant`, written out in the
  comment block at the end of this file) needs an induction through the regex engine on the
  generated token regexes and is NOT proved.  This file proves, each for ALL inputs, the component
  facts on which it rests:

    1. Escapes.   Every admissible way of writing the code points of an identifier (`EscForm`:
                  literal, `\c`, `\` + 1..6 hex digits with any zero padding, any letter case and
                  any of the six terminators or none) is read by the identifier scanner as one
                  token and decoded by `css_unescape` to the same value
                  (`scan_any_spelling`, `unescape_any_spelling`, `two_spellings_same_value`).
                  This generalises C10 (`escape s`, one canonical spelling) to every spelling.
    2. Gaps.      The hand scanner `skipWSC` for `WSC*` skips every gap (whitespace and complete
                  comments) entirely, so what follows a gap is read the same whatever the gap
                  (`skipWSC_append`, `two_gaps_same_rest`, `skipWSC_idem`, `gap_concat`).
    3. Case.      `util.lower` maps every case variant of a lower-case keyword to the keyword
                  (`lower_kw`), every consumer in the parser model sees the text only through
                  `lower` (unfolding lemmas `parseLoop_*`, `parseAttribute_eq`; the `of` group is
                  only tested for emptiness, `parseLoop_nth_child_of`), all keyword tables
                  are in lower case, and a case-insensitive keyword literal of a token regex matches
                  every case variant in the engine model (`runs_kw_case`).
    4. Quotes.    The hand model `unescapeString` of `css_unescape(…, string=True)` decodes the
                  canonical quoted rendering with either quote to the value, which is also what the
                  bare identifier `escape v` decodes to (`string_quote_irrelevant`,
                  `quote_or_bare_same_value`, `value_spelling_irrelevant`); more generally every
                  admissible spelling of a string body, including line continuations
                  (`string_any_spelling`), and the string scanner reads it as one token
                  (`scanString_any_spelling`).

  TIES BY TESTING, NOT BY PROOF.  `Escape.scanIdent` / `Escape.cssUnescape` (Model/Escape.lean)
  and `Spelling.skipWSC` / `Spelling.unescapeString` / `Spelling.scanString` (Spec/Spelling.lean)
  are hand-written readings of `IDENTIFIER`, `RE_CSS_ESC`, `WSC*`, `RE_CSS_STR_ESC` and `VALUE`.
  Their agreement with the generated regexes run by the engine model (which is what
  `Parser.compile` uses) and with CPython is established by the differential harness
  (harness/props/c09.py, c10.py), not by a Lean proof.  Part 3's `parseLoop_*`, `parseAttribute_eq`
  and `runs_kw_case` are about the parser / engine model itself.

  Restrictions, all explicit in the statements:
    * `scan_any_spelling` needs the head rule `headOk` (first form a start character or an escape,
      or `-` followed by one, or `--`): all head shapes of `IDENTIFIER` are covered, dash cases
      included.  The one spelling of `IDENTIFIER` not covered by `EscForm` is a final `\` at the very
      end of the input (`\` `\Z`, decoded to U+FFFD).
    * A hex form denotes `c` only for `0 < c ≤ 0x10FFFF` (`rangeOk`).
    * `COMMENTS` after a hex escape in `RE_CSS_ESC` (`WSC?`) is not modelled by
      `Escape.cssUnescape` (see `Escape.cssUnescapeRaises`); in the identifier grammar a hex escape
      is terminated by `WS` only, so no spelling generated here contains that shape.
-/
import SoupVerif.Lemmas.Spelling
import SoupVerif.Properties.C10
import SoupVerif.Model.Parser
import SoupVerif.Generated.Lexicon
namespace SoupVerif
namespace C09
open Escape EscapeLemmas Spelling SpellingLemmas

/-! ## 1. Escapes: every spelling of an identifier -/

/-- `css_unescape` decodes EVERY admissible spelling of an identifier to the code points spelled.
    (`C10.unescape_escape` is the instance "the spelling chosen by `escape`".) -/
theorem unescape_any_spelling (forms : List (Nat × EscForm)) (hv : Valid forms)
    (hcp : ∀ p ∈ forms, 0 < p.1 ∧ p.1 ≤ 0x10FFFF) :
    cssUnescape (renderIdentWith forms) = forms.map (·.1) := by
  have := cssUnescapeAux_forms forms [] hv (fun p hp => rangeOk_of_range p.1 p.2 (hcp p hp))
  simpa [cssUnescape, cssUnescapeAux, valueOf] using this

/-- The same with the range hypothesis only where it matters: on the code points written in hex
    (`rangeOk c f` is `true` for every non-hex form). -/
theorem unescape_any_spelling_fine (forms : List (Nat × EscForm)) (hv : Valid forms)
    (hcp : ∀ p ∈ forms, rangeOk p.1 p.2 = true) :
    cssUnescape (renderIdentWith forms) = valueOf forms := by
  have := cssUnescapeAux_forms forms [] hv hcp
  simpa [cssUnescape, cssUnescapeAux] using this

/-- Decoding is local: the spelling is decoded independently of the text after it. -/
theorem unescape_any_spelling_append (forms : List (Nat × EscForm)) (r : Str)
    (hv : validForms forms r = true) (hcp : ∀ p ∈ forms, rangeOk p.1 p.2 = true) :
    cssUnescape (renderIdentWith forms ++ r) = valueOf forms ++ cssUnescape r :=
  cssUnescapeAux_forms forms r hv hcp

/-- Two spellings of the same code points have the same value. -/
theorem two_spellings_same_value (f₁ f₂ : List (Nat × EscForm)) (h₁ : Valid f₁) (h₂ : Valid f₂)
    (hcp : ∀ p ∈ f₁, 0 < p.1 ∧ p.1 ≤ 0x10FFFF) (hval : f₁.map (·.1) = f₂.map (·.1)) :
    cssUnescape (renderIdentWith f₁) = cssUnescape (renderIdentWith f₂) := by
  have hcp₂ : ∀ p ∈ f₂, 0 < p.1 ∧ p.1 ≤ 0x10FFFF := by
    intro p hp
    have : p.1 ∈ f₂.map (·.1) := List.mem_map.2 ⟨p, hp, rfl⟩
    rw [← hval] at this
    obtain ⟨p', hp', he⟩ := List.mem_map.1 this
    rw [← he]; exact hcp p' hp'
  rw [unescape_any_spelling f₁ h₁ hcp, unescape_any_spelling f₂ h₂ hcp₂, hval]

theorem headOk_ne_nil (forms : List (Nat × EscForm)) (h : headOk forms = true) : forms ≠ [] := by
  intro he; subst he; simp [headOk] at h

/-- General form.  `IDENTIFIER` matches `spelling ++ r` at position 0, consumes exactly the
    spelling and leaves `r`, for every spelling that is admissible in front of `r` and satisfies
    the head rule.  `r` may begin with whitespace unless the last form looks ahead (a hex escape
    without terminator, or terminated by a lone CR). -/
theorem scan_any_spelling_ctx (forms : List (Nat × EscForm)) (r : Str)
    (hv : validForms forms r = true) (hh : headOk forms = true) (hr : ¬ continuesIdent r) :
    scanIdent (renderIdentWith forms ++ r) = some (renderIdentWith forms, r) :=
  scanIdent_forms forms r hh hv (by simpa using hr)

/-- The identifier scanner reads EVERY admissible spelling as one identifier and stops at its end,
    when the following text begins with neither an identifier character, a backslash nor
    whitespace.  All head shapes of the grammar are covered (`headOk`): start character, escape,
    `-` + start character, `-` + escape, `--`. -/
theorem scan_any_spelling (forms : List (Nat × EscForm)) (r : Str) (hv : Valid forms)
    (hh : headOk forms = true) (hr : ¬ continuesIdent r) (hws : ∀ n ∈ r.head?, isCssWs n = false) :
    scanIdent (renderIdentWith forms ++ r) = some (renderIdentWith forms, r) := by
  have hr' : continuesIdent r = false := by simpa using hr
  have hx := not_hex_of_not_continues r hr'
  exact scanIdent_forms forms r hh
    (validForms_of_valid forms r hv (fun n hn => ⟨hws n hn, hx n hn⟩)) hr'

/-- A spelling alone is one whole identifier. -/
theorem scan_any_spelling_whole (forms : List (Nat × EscForm)) (hv : Valid forms)
    (hh : headOk forms = true) :
    scanIdent (renderIdentWith forms) = some (renderIdentWith forms, []) := by
  simpa using scan_any_spelling forms [] hv hh (by decide) (by simp)

/-- Unconditional form: whatever follows, the match is the spelling followed by what the
    identifier loop consumes from `r` ALONE. -/
theorem scan_any_spelling_inert (forms : List (Nat × EscForm)) (r : Str)
    (hv : validForms forms r = true) (hh : headOk forms = true) :
    scanIdent (renderIdentWith forms ++ r) =
      some (renderIdentWith forms ++ (scanCont 0 r).1, (scanCont 0 r).2) :=
  scanIdent_forms_append forms r hh hv

/-- `#ident` and `.ident` tokens in any spelling. -/
theorem scan_any_spelling_prefixed (p : Nat) (forms : List (Nat × EscForm)) (r : Str)
    (hv : validForms forms r = true) (hh : headOk forms = true) (hr : ¬ continuesIdent r) :
    scanPrefixed p (p :: renderIdentWith forms ++ r) = some (p :: renderIdentWith forms, r) := by
  simp [scanPrefixed, scan_any_spelling_ctx forms r hv hh hr]

/-- The round trip in one statement: two spellings of the same code points are both read as one
    identifier token each, and the parser computes the same value from the two token texts. -/
theorem ident_token_spelling_irrelevant (f₁ f₂ : List (Nat × EscForm)) (r : Str)
    (h₁ : validForms f₁ r = true) (h₂ : validForms f₂ r = true)
    (hh₁ : headOk f₁ = true) (hh₂ : headOk f₂ = true) (hr : ¬ continuesIdent r)
    (hcp₁ : ∀ p ∈ f₁, rangeOk p.1 p.2 = true) (hcp₂ : ∀ p ∈ f₂, rangeOk p.1 p.2 = true)
    (hval : valueOf f₁ = valueOf f₂) :
    ∃ m₁ m₂, scanIdent (renderIdentWith f₁ ++ r) = some (m₁, r) ∧
      scanIdent (renderIdentWith f₂ ++ r) = some (m₂, r) ∧ cssUnescape m₁ = cssUnescape m₂ := by
  refine ⟨renderIdentWith f₁, renderIdentWith f₂, scan_any_spelling_ctx f₁ r h₁ hh₁ hr,
    scan_any_spelling_ctx f₂ r h₂ hh₂ hr, ?_⟩
  rw [unescape_any_spelling_fine f₁ (validForms_nil_of f₁ r h₁) hcp₁,
    unescape_any_spelling_fine f₂ (validForms_nil_of f₂ r h₂) hcp₂, hval]

/-- C10 as an instance: the text `escape s` IS one of the spellings quantified over above (of the
    value `s` with NUL as U+FFFD), admissible in front of any text. -/
theorem escape_is_a_spelling (s : Str) :
    ∃ forms, escape s = renderIdentWith forms ∧ valueOf forms = nulToFFFD s ∧
      (∀ r, validForms forms r = true) ∧ ∀ p ∈ forms, rangeOk p.1 p.2 = true :=
  escape_spells s

/-- … so `C10.unescape_escape` is a corollary of `unescape_any_spelling_fine`. -/
theorem unescape_escape_of_any_spelling (s : Str) : cssUnescape (escape s) = nulToFFFD s := by
  obtain ⟨forms, ht, hval, hv, hr⟩ := escape_is_a_spelling s
  rw [ht, unescape_any_spelling_fine forms (hv []) hr, hval]

/-- Any admissible spelling of the code points of `s` has the same value as `escape s`. -/
theorem any_spelling_eq_escape (forms : List (Nat × EscForm)) (s : Str) (hv : Valid forms)
    (hcp : ∀ p ∈ forms, rangeOk p.1 p.2 = true) (hs : valueOf forms = nulToFFFD s) :
    cssUnescape (renderIdentWith forms) = cssUnescape (escape s) := by
  rw [unescape_any_spelling_fine forms hv hcp, hs, C10.unescape_escape]

/-! ## 2. Whitespace and comments -/

/-- A gap in front of any text is skipped entirely, and skipping then continues in that text. -/
theorem skipWSC_append_gen (g r : Str) (hg : isGap g) : skipWSC (g ++ r) = skipWSC r :=
  skipWSC_gap_append r g.length g (Nat.le_refl _) hg

/-- A gap followed by text that begins with neither whitespace nor `/*` is skipped exactly. -/
theorem skipWSC_append (g r : Str) (hg : isGap g) (hr : noGapStart r = true) :
    skipWSC (g ++ r) = r := by
  rw [skipWSC_append_gen g r hg, skipWSC_of_noGapStart r hr]

/-- Whatever the gap, the text after it is reached in the same state. -/
theorem two_gaps_same_rest (g₁ g₂ r : Str) (h₁ : isGap g₁) (h₂ : isGap g₂) :
    skipWSC (g₁ ++ r) = skipWSC (g₂ ++ r) := by
  rw [skipWSC_append_gen g₁ r h₁, skipWSC_append_gen g₂ r h₂]

theorem skipWSC_idem (s : Str) : skipWSC (skipWSC s) = skipWSC s :=
  skipWSC_idem_aux s.length s (Nat.le_refl _)

theorem gap_concat (g₁ g₂ : Str) (h₁ : isGap g₁) (h₂ : isGap g₂) : isGap (g₁ ++ g₂) := by
  unfold isGap
  rw [skipWSC_append_gen g₁ g₂ h₁]; exact h₂

theorem gap_nil : isGap [] := rfl

theorem gap_ws (c : Nat) (g : Str) (hc : isCssWs c = true) (hg : isGap g) : isGap (c :: g) := by
  unfold isGap; rw [skipWSC_ws c g hc]; exact hg

/-- `/*` + text containing no `*/` except at its very end + gap. -/
theorem gap_comment (body g : Str) (hb : dropComment body = some []) (hg : isGap g) :
    isGap (47 :: 42 :: (body ++ g)) := by
  unfold isGap
  rw [skipWSC_comment (body ++ g) ([] ++ g) (dropComment_append body [] g hb), List.nil_append]
  exact hg

/-- What `skipWSC` removes is a gap, and what it leaves begins with no gap. -/
theorem skipWSC_removes_gap (s : Str) :
    ∃ g, isGap g ∧ s = g ++ skipWSC s ∧ skipWSC (skipWSC s) = skipWSC s := by
  obtain ⟨g, hg, hs⟩ := skipWSC_prefix_aux s.length s (Nat.le_refl _)
  exact ⟨g, hg, hs, skipWSC_idem s⟩

/-- An unterminated comment is not skipped. -/
theorem skipWSC_unterminated (cs : Str) (h : dropComment cs = none) :
    skipWSC (47 :: 42 :: cs) = 47 :: 42 :: cs :=
  skipWSC_open cs h

example : isGap " /* x */\n".toStr := by decide
example : ¬ isGap "/* x".toStr := by decide
example : isGap "/**/".toStr ∧ ¬ isGap "/*/".toStr := by decide
example : skipWSC ("/**/".toStr ++ "/".toStr) = "/".toStr := by decide
example : noGapStart "> b".toStr = true ∧ noGapStart "/ b".toStr = true ∧
    noGapStart "/* b".toStr = false ∧ noGapStart " b".toStr = false := by decide

/-! ## 3. Letter case -/

/-- `util.lower` maps every case variant of a keyword without capitals to the keyword. -/
theorem lower_kw (mask : List Bool) (kw : Str) (h : ∀ c ∈ kw, ¬ (65 ≤ c ∧ c ≤ 90)) :
    lower (mixCase mask kw) = kw :=
  lower_mixCase mask kw h

theorem lower_idem (s : Str) : lower (lower s) = lower s := SpellingLemmas.lower_idem s

/-- `mixCase` enumerates ALL strings that `lower` maps to `kw`. -/
theorem case_variants_exhaustive (s kw : Str) (h : lower s = kw) : ∃ mask, s = mixCase mask kw :=
  exists_mask_of_lower s kw h

/-- The keywords the parser compares against, as code points. -/
def keywords : List Str :=
  ["even".toStr, "odd".toStr, "of".toStr, "ltr".toStr, "rtl".toStr, "i".toStr, "s".toStr,
   "n".toStr, "type".toStr, ":not".toStr, ":has".toStr, ":is".toStr, ":where".toStr,
   ":nth-child".toStr, ":nth-last-child".toStr, ":nth-of-type".toStr, ":nth-last-of-type".toStr,
   ":-soup-contains-own".toStr]

theorem keywords_lowercase : ∀ kw ∈ keywords, ∀ c ∈ kw, ¬ (65 ≤ c ∧ c ≤ 90) := by decide

/-- Every case variant of each of these keywords lower-cases to the keyword. -/
theorem lower_keyword (mask : List Bool) (kw : Str) (hk : kw ∈ keywords) :
    lower (mixCase mask kw) = kw :=
  lower_kw mask kw (keywords_lowercase kw hk)

/-- Every entry of every pseudo-class table of `css_parser.py` is in lower case … -/
theorem pseudo_tables_lowercase :
    ∀ n ∈ Gen.lexicon.pseudoSupported ++ Gen.lexicon.pseudoSimple ++ Gen.lexicon.pseudoSimpleNoMatch ++
        Gen.lexicon.pseudoComplex ++ Gen.lexicon.pseudoComplexNoMatch ++ Gen.lexicon.special.map (·.1),
      ∀ c ∈ n, ¬ (65 ≤ c ∧ c ≤ 90) := by decide

/-- … so every case variant of a supported name is found in the table it belongs to. -/
theorem pseudo_lookup_any_case (mask : List Bool) (n : Str) (tbl : List Str)
    (hn : ∀ c ∈ n, ¬ (65 ≤ c ∧ c ≤ 90)) :
    Parser.inList tbl (lower (mixCase mask n)) = Parser.inList tbl n := by
  rw [lower_kw mask n hn]

theorem pseudo_supported_any_case (mask : List Bool) (n : Str) (hn : n ∈ Gen.lexicon.pseudoSupported) :
    Parser.inList Gen.lexicon.pseudoSupported (lower (mixCase mask n)) = true := by
  rw [lower_kw mask n (pseudo_tables_lowercase n (by simp [hn]))]
  simp only [Parser.inList, List.any_eq_true, beq_iff_eq]
  exact ⟨n, hn, rfl⟩

/-- Names that agree after `lower` are the same name to `parse_pseudo_class`. -/
theorem pseudo_name_case_irrelevant (P : Parser.PEnv) (n₁ n₂ : Str) (sel : Parser.SelB)
    (h : lower n₁ = lower n₂) :
    Parser.applySimplePseudo P (lower n₁) sel = Parser.applySimplePseudo P (lower n₂) sel := by
  rw [h]

theorem pseudo_table_case_irrelevant (tbl : List Str) (n₁ n₂ : Str) (h : lower n₁ = lower n₂) :
    Parser.inList tbl (lower n₁) = Parser.inList tbl (lower n₂) := by
  rw [h]

/-- The non-trivial instance: any case variant of a lower-case name behaves as the name. -/
theorem pseudo_simple_any_case (P : Parser.PEnv) (mask : List Bool) (n : Str) (sel : Parser.SelB)
    (hn : ∀ c ∈ n, ¬ (65 ≤ c ∧ c ≤ 90)) :
    Parser.applySimplePseudo P (lower (mixCase mask n)) sel = Parser.applySimplePseudo P n sel := by
  rw [lower_kw mask n hn]

/-- Escapes and case together: a pseudo-class name `:` + identifier, written in any admissible
    spelling whose code points lower-case to `kw`, reaches the parser's comparisons as `:kw`. -/
theorem pseudo_name_any_spelling (forms : List (Nat × EscForm)) (kw : Str) (hv : Valid forms)
    (hcp : ∀ p ∈ forms, rangeOk p.1 p.2 = true) (hkw : lower (valueOf forms) = kw) :
    lower (cssUnescape (58 :: renderIdentWith forms)) = 58 :: kw := by
  have h58 : cssUnescape (58 :: renderIdentWith forms) = 58 :: cssUnescape (renderIdentWith forms) := by
    simp [cssUnescape, cssUnescapeAux]
  rw [h58, unescape_any_spelling_fine forms hv hcp, ← hkw]
  rfl

/-! ### The attribute case flag `i` / `s` -/

/-- The `case_` binding of `parse_attribute_selector`: `util.lower(m.group('case')) if
    m.group('case') else None`. -/
def attrCaseOf (c : Option Str) : Option Str :=
  match c with
  | some c => if c.isEmpty then none else some (lower c)
  | none => none

/-- The `value` binding of `parse_attribute_selector` (and of `parse_pseudo_lang` /
    `parse_pseudo_contains` for each value): strip the quotes and unescape in string mode, or
    unescape as an identifier.  `uI` / `uS` are `css_unescape(·)` / `css_unescape(·, True)`. -/
def valueOfRaw (uI uS : Str → Str) (raw : Str) : Str :=
  match raw.head? with
  | some q => if q == 34 || q == 39 then uS (Parser.slice raw 1 (raw.length - 1)) else uI raw
  | none => uI raw

/-- `parse_attribute_selector` after the `case_` and `value` bindings. -/
def parseAttributeCore (P : Parser.PEnv) (t : Parser.Token) (sel : Parser.SelB) (case_ : Option Str)
    (value : Str) : Parser.SelB :=
  let op := (t.group P "cmp").getD []
  let ns : Str := match t.group P "attr_ns" with
    | some n => if n.isEmpty then [] else Parser.cssUnescape P.env P.L (n.take (n.length - 1))
    | none => []
  let attr := Parser.cssUnescape P.env P.L ((t.group P "attr_name").getD [])
  let (ic, isType) : Bool × Bool :=
    match case_ with
    | some c => (c == "i".toStr, false)
    | none => if lower attr == "type".toStr then (true, true) else (false, false)
  let hasWs := (Rx.search P.env P.L.reWs value).isSome
  let pattern : Option Rx := if op.isEmpty then none else some (Parser.attrPattern op value ic hasWs)
  let pattern2 : Option Rx :=
    if isType then pattern.map (fun _ => Parser.attrPattern op value false hasWs) else none
  let selAttr : AttrSel := { attrName := attr, pfx := ns, pattern := pattern, xmlTypePattern := pattern2 }
  if op.head? == some 33 then
    let sub := (Parser.SelB.empty.addAttr selAttr).freeze
    sel.addSub (.mk [sub] true false)
  else sel.addAttr selAttr

/-- The model of `parse_attribute_selector` sees the flag only through `attrCaseOf` (that is,
    through `lower`) and the value only through `valueOfRaw` (quotes stripped, unescaped). -/
theorem parseAttribute_eq (P : Parser.PEnv) (t : Parser.Token) (sel : Parser.SelB) :
    Parser.parseAttribute P t sel =
      parseAttributeCore P t sel (attrCaseOf (t.group P "case"))
        (if ((t.group P "cmp").getD []).isEmpty then []
         else valueOfRaw (fun x => Parser.cssUnescape P.env P.L x)
                (fun x => Parser.cssUnescape P.env P.L x true) ((t.group P "value").getD [])) := rfl

theorem attrCaseOf_case_irrelevant (c₁ c₂ : Str) (h : lower c₁ = lower c₂) :
    attrCaseOf (some c₁) = attrCaseOf (some c₂) := by
  have hl : c₁.length = c₂.length := by rw [← lower_length c₁, ← lower_length c₂, h]
  have he : c₁.isEmpty = c₂.isEmpty := by
    cases c₁ <;> cases c₂ <;> simp at hl ⊢
  simp [attrCaseOf, h, he]

/-- `[a=b I]` ≡ `[a=b i]`, `[a=b S]` ≡ `[a=b s]`. -/
theorem attr_flag_i (m : List Bool) : attrCaseOf (some (mixCase m "i".toStr)) = attrCaseOf (some "i".toStr) :=
  attrCaseOf_case_irrelevant _ _ (by rw [lower_keyword m _ (by decide)]; decide)

theorem attr_flag_s (m : List Bool) : attrCaseOf (some (mixCase m "s".toStr)) = attrCaseOf (some "s".toStr) :=
  attrCaseOf_case_irrelevant _ _ (by rw [lower_keyword m _ (by decide)]; decide)

theorem parseAttribute_flag_case (P : Parser.PEnv) (t : Parser.Token) (sel : Parser.SelB) (value : Str)
    (c₁ c₂ : Str) (h : lower c₁ = lower c₂) :
    parseAttributeCore P t sel (attrCaseOf (some c₁)) value =
      parseAttributeCore P t sel (attrCaseOf (some c₂)) value := by
  rw [attrCaseOf_case_irrelevant c₁ c₂ h]

/-! ### `:dir()` -/

/-- The flag `parse_pseudo_dir` computes from the text of the `dir` group. -/
def dirValue (d : Str) : Nat := if lower d == "ltr".toStr then SEL_DIR_LTR else SEL_DIR_RTL

theorem dir_case_irrelevant (d₁ d₂ : Str) (h : lower d₁ = lower d₂) : dirValue d₁ = dirValue d₂ := by
  simp [dirValue, h]

theorem dir_ltr (m : List Bool) : dirValue (mixCase m "ltr".toStr) = SEL_DIR_LTR := by
  simp [dirValue, lower_keyword m "ltr".toStr (by decide)]

theorem dir_rtl (m : List Bool) : dirValue (mixCase m "rtl".toStr) = SEL_DIR_RTL := by
  have : ("rtl".toStr == "ltr".toStr) = false := by decide
  simp [dirValue, lower_keyword m "rtl".toStr (by decide), this]

/-! ### An+B -/

theorem parseAnB_case (P : Parser.PEnv) (c₁ c₂ : Str) (h : lower c₁ = lower c₂) :
    Parser.parseAnB P (lower c₁) = Parser.parseAnB P (lower c₂) := by
  rw [h]

theorem parseAnB_even (P : Parser.PEnv) (m : List Bool) :
    Parser.parseAnB P (lower (mixCase m "even".toStr)) = (2, true, 0) := by
  rw [lower_keyword m _ (by decide)]; simp [Parser.parseAnB]

theorem parseAnB_odd (P : Parser.PEnv) (m : List Bool) :
    Parser.parseAnB P (lower (mixCase m "odd".toStr)) = (2, true, 1) := by
  have : ("odd".toStr == "even".toStr) = false := by decide
  rw [lower_keyword m _ (by decide)]; simp [Parser.parseAnB, this]

/-! ### The parser model passes only lower-cased text to these consumers

  Unfolding lemmas for the relevant branches of `Parser.parseLoop` (the `while` loop of
  `parse_selectors`).  In each, the text of the group reaches the selector under construction
  only through `lower`. -/

section Loop
open Parser
variable (env : CharEnv) (L : Lexicon) (B : Builtins) (pattern : Str) (fuel flags : Nat)
  (s : LS) (t : Token)

/-- `:dir(…)`: only `dirValue` of the group text, i.e. only its `lower`, is used. -/
theorem parseLoop_dir (h : nextToken ⟨env, L, B, pattern⟩ s.pos = .ok (some t))
    (hk : t.name = "pseudo_dir") :
    parseLoop env L B pattern (fuel + 1) flags s =
      parseLoop env L B pattern fuel flags
        { s with pos := t.stop,
                 sel := s.sel.addSub (.mk [(SelB.empty.setFlags
                   (dirValue ((t.group ⟨env, L, B, pattern⟩ "dir").getD []))).freeze] false true),
                 hasSelector := true, index := t.stop } := by
  rw [parseLoop]
  simp only [h, hk]
  simp [dirValue]

/-- `[attr…]`: the token reaches the selector only through `parseAttribute` (see
    `parseAttribute_eq`). -/
theorem parseLoop_attribute (h : nextToken ⟨env, L, B, pattern⟩ s.pos = .ok (some t))
    (hk : t.name = "attribute") :
    parseLoop env L B pattern (fuel + 1) flags s =
      parseLoop env L B pattern fuel flags
        { s with pos := t.stop, sel := parseAttribute ⟨env, L, B, pattern⟩ t s.sel,
                 hasSelector := true, index := t.stop } := by
  rw [parseLoop]
  simp only [h, hk]
  simp

/-- A simple pseudo-class (no parenthesis): the name is unescaped and lower-cased, looked up in
    the tables, and handed to `applySimplePseudo`. -/
theorem parseLoop_pseudo_simple (h : nextToken ⟨env, L, B, pattern⟩ s.pos = .ok (some t))
    (hk : t.name = "pseudo_class")
    (hopen : ∀ o, t.group ⟨env, L, B, pattern⟩ "open" = some o → o = [])
    (hin : inList L.pseudoSimple
      (lower (Parser.cssUnescape env L ((t.group ⟨env, L, B, pattern⟩ "name").getD []))) = true) :
    parseLoop env L B pattern (fuel + 1) flags s =
      parseLoop env L B pattern fuel flags
        { s with pos := t.stop,
                 sel := applySimplePseudo ⟨env, L, B, pattern⟩
                   (lower (Parser.cssUnescape env L ((t.group ⟨env, L, B, pattern⟩ "name").getD [])))
                   s.sel,
                 hasSelector := true, index := t.stop } := by
  rw [parseLoop]
  simp only [h, hk]
  cases ho : Token.group ⟨env, L, B, pattern⟩ t "open" with
  | none => simp [hin]
  | some o =>
    have := hopen o ho
    subst this
    simp [hin]

/-- `:nth-of-type(An+B)` / `:nth-last-of-type(An+B)`: the name and the An+B text are lower-cased
    before any comparison (`even`, `odd`, `n`). -/
theorem parseLoop_nth_type (h : nextToken ⟨env, L, B, pattern⟩ s.pos = .ok (some t))
    (hk : t.name = "pseudo_nth_type")
    (hchild : ∀ g, t.group ⟨env, L, B, pattern⟩ "pseudo_nth_child" = some g → g = []) :
    parseLoop env L B pattern (fuel + 1) flags s =
      (let P : PEnv := ⟨env, L, B, pattern⟩
       let name := lower (Parser.cssUnescape env L ((t.group P "name").getD []))
       let anb := parseAnB P (lower ((t.group P "nth_type").getD []))
       let e := SelList.mk [] false false
       let sel :=
         if name == ":nth-of-type".toStr then s.sel.addNth [nthOf anb.1 anb.2.1 anb.2.2 true false e]
         else if name == ":nth-last-of-type".toStr then
           s.sel.addNth [nthOf anb.1 anb.2.1 anb.2.2 true true e]
         else s.sel
       parseLoop env L B pattern fuel flags
         { s with pos := t.stop, sel := sel, hasSelector := true, index := t.stop }) := by
  rw [parseLoop]
  simp only [h, hk]
  cases hc : Token.group ⟨env, L, B, pattern⟩ t "pseudo_nth_child" with
  | none => simp
  | some g =>
    have := hchild g hc
    subst this
    simp

/-- The selector `:nth-child` / `:nth-last-child` adds, from the lower-cased name and An+B text. -/
def nthChildSel (P : PEnv) (t : Token) (sel : SelB) (nthSel : SelList) : SelB :=
  let name := lower (Parser.cssUnescape P.env P.L ((t.group P "name").getD []))
  let anb := parseAnB P (lower ((t.group P "nth_child").getD []))
  if name == ":nth-child".toStr then sel.addNth [nthOf anb.1 anb.2.1 anb.2.2 false false nthSel]
  else if name == ":nth-last-child".toStr then sel.addNth [nthOf anb.1 anb.2.1 anb.2.2 false true nthSel]
  else sel

/-- `:nth-child(An+B)` without `of S`. -/
theorem parseLoop_nth_child (h : nextToken ⟨env, L, B, pattern⟩ s.pos = .ok (some t))
    (hk : t.name = "pseudo_nth_child")
    (hchild : ∃ g, t.group ⟨env, L, B, pattern⟩ "pseudo_nth_child" = some g ∧ g ≠ [])
    (hof : ∀ g, t.group ⟨env, L, B, pattern⟩ "of" = some g → g = []) :
    parseLoop env L B pattern (fuel + 1) flags s =
      parseLoop env L B pattern fuel flags
        { s with pos := t.stop, sel := nthChildSel ⟨env, L, B, pattern⟩ t s.sel B.nthOfSDefault,
                 hasSelector := true, index := t.stop } := by
  obtain ⟨g, hg, hne⟩ := hchild
  have hge : g.isEmpty = false := by cases g <;> simp at hne ⊢
  rw [parseLoop]
  simp only [h, hk]
  cases ho : Token.group ⟨env, L, B, pattern⟩ t "of" with
  | none => simp [hg, hge, nthChildSel]
  | some o =>
    have := hof o ho
    subst this
    simp [hg, hge, nthChildSel]

/-- `:nth-child(An+B of S)`: the text of the `of` group is only tested for emptiness — its letter
    case (and the whitespace and comments around it, which are part of the group) is never
    looked at. -/
theorem parseLoop_nth_child_of (h : nextToken ⟨env, L, B, pattern⟩ s.pos = .ok (some t))
    (hk : t.name = "pseudo_nth_child")
    (hchild : ∃ g, t.group ⟨env, L, B, pattern⟩ "pseudo_nth_child" = some g ∧ g ≠ [])
    (hof : ∃ g, t.group ⟨env, L, B, pattern⟩ "of" = some g ∧ g ≠ [])
    (nthSel : SelList) (pos' : Nat) (custom' : Custom)
    (hsub : parseSelectors env L B pattern fuel t.stop t.stop (FLG_PSEUDO ||| FLG_OPEN) s.custom =
      .ok (nthSel, pos', custom')) :
    parseLoop env L B pattern (fuel + 1) flags s =
      parseLoop env L B pattern fuel flags
        { s with pos := pos', sel := nthChildSel ⟨env, L, B, pattern⟩ t s.sel nthSel,
                 hasSelector := true, index := t.stop, custom := custom' } := by
  obtain ⟨g, hg, hne⟩ := hchild
  have hge : g.isEmpty = false := by cases g <;> simp at hne ⊢
  obtain ⟨o, ho, hone⟩ := hof
  have hoe : o.isEmpty = false := by cases o <;> simp at hone ⊢
  rw [parseLoop]
  simp only [h, hk]
  simp [hg, hge, ho, hoe, hsub, nthChildSel]

end Loop

/-! ### Case-insensitive keyword literals in the engine model

  `of`, `even`, `odd`, `ltr`, `rtl`, `i`, `s` and `n` occur in the token regexes as sequences of
  case-insensitive literals (`Rx.lit c true`, from `re.I`).  In the engine model such a sequence
  matches every case variant of the keyword, at any position, with the same end and captures. -/

/-- The regex the translator produces for a keyword under `re.I`. -/
def kwRx (kw : Str) : List Rx := kw.map fun c => Rx.lit c true

theorem drop_cons_getElem (s : Str) (i x : Nat) (rest : Str) (h : s.drop i = x :: rest) :
    s[i]? = some x ∧ s.drop (i + 1) = rest := by
  induction s generalizing i with
  | nil => simp at h
  | cons a s ih =>
    cases i with
    | zero => simp at h; simp [h.1, h.2]
    | succ i => simpa using ih i (by simpa using h)

/-- A case-insensitive keyword matches whatever text lower-cases to the same thing. -/
theorem runs_kw_case (s kw : Str) (i : Nat) (caps : Caps)
    (h : lower ((s.drop i).take kw.length) = lower kw) :
    Rx.runsSeq asciiEnv s (kwRx kw) i caps = [(i + kw.length, caps)] := by
  induction kw generalizing i with
  | nil => simp [kwRx, Rx.runsSeq]
  | cons c cs ih =>
    cases hd : s.drop i with
    | nil => rw [hd] at h; simp [lower] at h
    | cons x rest =>
      rw [hd] at h
      obtain ⟨hx, hrest⟩ := drop_cons_getElem s i x rest hd
      simp only [List.length_cons, List.take_succ_cons, lower, List.map_cons, List.cons.injEq] at h
      have ih' := ih (i + 1) (by rw [hrest]; simpa [lower] using h.2)
      simp only [kwRx, List.map_cons, Rx.runsSeq, Rx.runs, hx]
      have hf : (asciiEnv.fold x == asciiEnv.fold c) = true := by simpa [asciiEnv] using h.1
      simp only [if_true, hf, List.flatMap_cons, List.flatMap_nil, List.append_nil]
      simp only [kwRx] at ih'
      rw [ih']
      simp [Nat.add_assoc, Nat.add_comm 1]

/-- Every case variant `mixCase m kw` of a lower-case keyword, embedded anywhere, is matched. -/
theorem runs_kw_mixCase (pre post kw : Str) (m : List Bool) (caps : Caps)
    (hk : ∀ c ∈ kw, ¬ (65 ≤ c ∧ c ≤ 90)) :
    Rx.runsSeq asciiEnv (pre ++ mixCase m kw ++ post) (kwRx kw) pre.length caps =
      [(pre.length + kw.length, caps)] := by
  apply runs_kw_case
  rw [List.append_assoc, List.drop_left' rfl,
    List.take_left' (by rw [mixCase_length]), lower_kw m kw hk, lower_kw_self kw hk]

/-! ## 4. Quotes -/

/-- `css_unescape(body, True)` of the canonical quoted rendering is the value, for every value and
    every quote character that is not a hex digit (in particular `"` and `'`).  No hypothesis on
    `v` is needed: only `\n`, `\r`, `\f` are written in hex. -/
theorem unescapeString_render (q : Nat) (v : Str) (hq : isHex q = false) :
    unescapeString (renderStringBody q v) = v := by
  have := unescapeStringAux_pieces q (v.map (canonPiece q)) [] (validStr_canon q v [] hq)
    (fun p hp => by
      obtain ⟨c, _, hc⟩ := List.mem_map.1 hp
      rw [← hc]; exact pieceRangeOk_canon q c)
  rw [← renderStringBody_eq, strValue_canon] at this
  simpa [unescapeString, unescapeStringAux] using this

/-- `"…"` and `'…'` around the same value decode to the same value. -/
theorem string_quote_irrelevant (v : Str) :
    unescapeString (renderStringBody 34 v) = unescapeString (renderStringBody 39 v) := by
  rw [unescapeString_render 34 v (by decide), unescapeString_render 39 v (by decide)]

/-- A bare identifier `escape v` and the quoted renderings of `v` decode to the same value
    (C10's `unescape_escape` for the identifier side). -/
theorem quote_or_bare_same_value (q : Nat) (v : Str) (hq : isHex q = false) (h0 : ∀ c ∈ v, c ≠ 0) :
    cssUnescape (escape v) = v ∧ unescapeString (renderStringBody q v) = v := by
  refine ⟨?_, unescapeString_render q v hq⟩
  rw [C10.unescape_escape]
  unfold nulToFFFD
  conv => rhs; rw [← List.map_id v]
  apply List.map_congr_left
  intro c hc
  simp [h0 c hc]

/-- Every admissible spelling of a string body (literal characters, `\c`, hex escapes in every
    shape, line continuations) decodes to the value spelled. -/
theorem string_any_spelling (q : Nat) (ps : List StrPiece) (hv : validStr q ps [] = true)
    (hr : ∀ p ∈ ps, pieceRangeOk p = true) :
    unescapeString (renderStrWith ps) = strValue ps := by
  have := unescapeStringAux_pieces q ps [] hv hr
  simpa [unescapeString, unescapeStringAux] using this

/-- Two spellings of the same value, possibly with different quotes. -/
theorem two_string_spellings_same_value (q₁ q₂ : Nat) (p₁ p₂ : List StrPiece)
    (h₁ : validStr q₁ p₁ [] = true) (h₂ : validStr q₂ p₂ [] = true)
    (r₁ : ∀ p ∈ p₁, pieceRangeOk p = true) (r₂ : ∀ p ∈ p₂, pieceRangeOk p = true)
    (hval : strValue p₁ = strValue p₂) :
    unescapeString (renderStrWith p₁) = unescapeString (renderStrWith p₂) := by
  rw [string_any_spelling q₁ p₁ h₁ r₁, string_any_spelling q₂ p₂ h₂ r₂, hval]

/-- The string scanner (hand model of the quoted alternatives of `VALUE`) reads every admissible
    body up to its closing quote. -/
theorem scanString_any_spelling (q : Nat) (ps : List StrPiece) (r : Str) (hq : q = 34 ∨ q = 39)
    (hv : validStr q ps [] = true) :
    scanString (q :: (renderStrWith ps ++ q :: r)) = some (q, renderStrWith ps, r) := by
  have hq92 : q ≠ 92 := by omega
  have hqq : (q == 34 || q == 39) = true := by simpa using hq
  have hv' : validStr q ps (q :: r) = true :=
    validStr_of_nil q ps (q :: r) hv (by
      intro n hn; simp at hn; subst hn
      rcases hq with h | h <;> subst h <;> decide)
  simp [scanString, hqq, scanStrBody_pieces q ps r hq92 hv']

/-- In particular the canonical rendering is one string token whose body is `renderStringBody`. -/
theorem scanString_render (q : Nat) (v r : Str) (hq : q = 34 ∨ q = 39) :
    scanString (renderString q v ++ r) = some (q, renderStringBody q v, r) := by
  have hh : isHex q = false := by rcases hq with h | h <;> subst h <;> decide
  have := scanString_any_spelling q (v.map (canonPiece q)) r hq (validStr_canon q v [] hh)
  rw [← renderStringBody_eq] at this
  simpa [renderString] using this

theorem slice_quoted (q : Nat) (body : Str) :
    Parser.slice (q :: (body ++ [q])) 1 ((q :: (body ++ [q])).length - 1) = body := by
  simp [Parser.slice]

/-- The value the parser's `value` binding computes, with the hand models of `css_unescape`. -/
def handValue (raw : Str) : Str := valueOfRaw cssUnescape unescapeString raw

/-- Single quotes, double quotes or a bare identifier for the same value: the `value` binding of
    `parse_attribute_selector` (with the hand models of `css_unescape`) computes the same value
    from all three raw token texts. -/
theorem value_spelling_irrelevant (v : Str) (h0 : ∀ c ∈ v, c ≠ 0) :
    handValue (renderString 34 v) = v ∧ handValue (renderString 39 v) = v ∧
      handValue (escape v) = v := by
  refine ⟨?_, ?_, ?_⟩
  · simp only [handValue, valueOfRaw, renderString, List.head?_cons]
    rw [slice_quoted]; simpa using unescapeString_render 34 v (by decide)
  · simp only [handValue, valueOfRaw, renderString, List.head?_cons]
    rw [slice_quoted]; simpa using unescapeString_render 39 v (by decide)
  · have hval := (quote_or_bare_same_value 34 v (by decide) h0).1
    simp only [handValue, valueOfRaw]
    cases hh : (escape v).head? with
    | none => exact hval
    | some q =>
      have := escape_head v q (by simp [hh])
      have hq : (q == 34 || q == 39) = false := by simp [this.1, this.2]
      simp only [hq]; exact hval

/-! ## Non-vacuity and sharpness: concrete values, checked by evaluation in the kernel -/

-- `a1` six ways, all read as one identifier in front of `]`, all with value "a1"
example : ∀ f ∈ [[(97, EscForm.lit), (49, .lit)],
                 [(97, .lit), (49, .hex 2 [] (some .space))],
                 [(97, .hex 2 [] (some .tab)), (49, .hex 6 [] none)],
                 [(97, .hex 6 [] (some .crlf)), (49, .hex 3 [] (some .lf))],
                 [(97, .hex 4 [] none), (49, .hex 2 [] (some .ff))],
                 [(97, .lit), (49, .hex 2 [] (some .cr))]],
    Valid f ∧ headOk f = true ∧ scanIdent (renderIdentWith f ++ [93]) = some (renderIdentWith f, [93]) ∧
      cssUnescape (renderIdentWith f) = "a1".toStr := by decide
-- upper-case hex digits
example : renderIdentWith [(0xabc, .hex 3 [true, false, true] none)] = "\\AbC".toStr := by decide
example : cssUnescape "\\AbC".toStr = [0xabc] := by decide
-- the side conditions are needed: `\31` + `a` is U+031A, `\31` + ` ` + `a` is "1a"
example : ¬ Valid [(49, .hex 2 [] none), (97, .lit)] := by decide
example : cssUnescape (renderIdentWith [(49, .hex 2 [] none), (97, .lit)]) = [0x31A] := by decide
example : cssUnescape (renderIdentWith [(49, .hex 2 [] (some .space)), (97, .lit)]) = "1a".toStr := by
  decide
-- … a lone CR terminator must not be followed by LF
example : validForms [(49, .hex 2 [] (some .cr))] [10, 93] = false ∧
    validForms [(49, .hex 2 [] (some .cr))] [93] = true ∧
    validForms [(49, .hex 2 [] (some .crlf))] [93] = true := by decide
-- … and the head rule: `-1` is not an identifier, `-\31 ` is
example : headOk [(45, .lit), (49, .lit)] = false ∧ scanIdent "-1".toStr = none := by decide
example : headOk [(45, .lit), (49, .hex 2 [] (some .space))] = true ∧
    scanIdent "-\\31 ".toStr = some ("-\\31 ".toStr, []) := by decide
-- strings: the same value four ways
example : unescapeString "a\\\nb".toStr = "ab".toStr ∧ unescapeString "\\61 b".toStr = "ab".toStr ∧
    unescapeString "\\000061b".toStr = "ab".toStr ∧ unescapeString "\\a b".toStr = "\nb".toStr := by
  decide
example : handValue "\"a b\"".toStr = "a b".toStr ∧ handValue "'a b'".toStr = "a b".toStr ∧
    handValue "a\\ b".toStr = "a b".toStr := by decide
-- case
example : attrCaseOf (some "I".toStr) = some "i".toStr := by decide
example : dirValue "LtR".toStr = SEL_DIR_LTR ∧ dirValue "RTL".toStr = SEL_DIR_RTL := by decide
example : Rx.runsSeq asciiEnv "x oF y".toStr (kwRx "of".toStr) 2 [] = [(4, [])] := by decide

/-!
  ## 5. The full statement (NOT PROVED)

  ```
  -- A token sequence `T` (lexical items: identifiers with their values, strings with their values,
  -- keywords, punctuation, gap positions) and a spelling `sp` (for every gap position a gap `g` with
  -- `isGap g` — at descendant-combinator positions a gap containing at least one whitespace
  -- character —, for every identifier code point an `EscForm` with `validForms`/`headOk`, for every
  -- string a quote and a list of `StrPiece` with `validStr`, or a bare identifier where the value
  -- admits one, for every keyword a case mask):
  theorem compile_spelling_invariant (T : TokenSeq) (sp₁ sp₂ : Spelling T) :
      Parser.compile asciiEnv Gen.lexicon Gen.builtinsRec (render T sp₁) [] 0 =
        Parser.compile asciiEnv Gen.lexicon Gen.builtinsRec (render T sp₂) [] 0
  ```

  How the components above would combine:
    * identifier tokens (`tag`, `id`, `class`, attribute names, pseudo-class names, bare values):
      `scan_any_spelling` (same token boundaries), `unescape_any_spelling` /
      `ident_token_spelling_irrelevant` (same value), `pseudo_name_any_spelling`;
    * gaps inside `[ ]`, `( )`, around combinators and commas, at both ends: `skipWSC_append_gen`,
      `two_gaps_same_rest`, `gap_concat`;
    * keywords: `runs_kw_mixCase` (same match in the engine), then `parseLoop_dir`,
      `parseLoop_nth_type`, `parseLoop_nth_child`, `parseLoop_nth_child_of` (the `of` group is only
      tested for emptiness), `parseLoop_pseudo_simple`, `parseLoop_attribute` + `parseAttribute_eq`
      (the text reaches the selector only through `lower`), `lower_kw`, `attr_flag_i/s`, `dir_ltr/rtl`,
      `parseAnB_even/odd/case`, `pseudo_tables_lowercase`;
    * values: `scanString_any_spelling`, `string_any_spelling`, `value_spelling_irrelevant`.

  What is missing:
    (a) the tie of the hand scanners to the engine on the generated regexes: for every token regex
        `r` of `Gen.lexicon`, `Rx.matchAt asciiEnv r (render T sp) i` succeeds with the end position
        and group spans predicted by `scanIdent` / `skipWSC` / `scanString` (a proof by induction on
        `Rx.runs` through the generated sub-expressions for IDENTIFIER, WSC* and VALUE, including
        that backtracking never finds an earlier alternative), and likewise
        `Parser.cssUnescape env L = Escape.cssUnescape` / `Spelling.unescapeString` through
        `Parser.subWith`;
    (b) the lexer-level induction over `T`: `Parser.matchToken` on `render T sp₁` and
        `render T sp₂` yields tokens of the same kinds in the same order, whose group texts are
        respellings of each other (positions differ, so the statement must relate the two runs of
        `parseLoop` by a simulation on `LS` that ignores `pos`/`index`);
    (c) `PAT_COMBINE`: the descendant combinator is whitespace not followed by another combinator,
        which needs the look-ahead `(?!WSC*[,+>~])` related to `skipWSC`;
    (d) error offsets (`Err.offset`) do depend on the spelling, so the statement is about successful
        compiles (or about `Except.map` forgetting the offset).
  The differential harness (harness/props/c09.py) checks the full statement on CPython and on the
  Lean parser model for generated `T` and random spellings.
-/

end C09
end SoupVerif
