/-
  C04  Answers do not depend on query history; matching never mutates the tree.

  Model  : `Memo.matchDefaultM`, `Memo.matchIndeterminateM`, `Memo.langOfM` / `Memo.matchLangM`
           (Model/Memo.lean): the Python functions WITH their memo tables, as a state machine;
           `matchDefault`, `matchIndeterminate`, `langOf` / `matchLang` (Model/Match.lean): the
           same functions without tables.
  Claim  : threading any history of queries through the tables gives, at every step, the answer
           of the table-free function (`history_independent`).

  Setting.  All queried elements belong to one document `d` (`InDoc d l`: following `l.pos` from
  the top of `d` arrives at `l`); under that hypothesis equal positions mean equal locations, which
  is what Python's `f is form` on table keys needs.

  SIDE CONDITION (a deviation candidate of the Python code).  `match_indeterminate` stores the
  bool it computed for the FIRST radio that asked about `(form, name)`; its scan skips
  `child is el`.  The stored bool is therefore "no OTHER radio of the group is checked, other
  than the first asker", and it is re-used for every later asker.  This is transparent only if
  no asker is itself a checked radio of its group (`askerChecked c l = false`):
    * `memo_transparent_indeterminate` / `inv_step_indeterminate` carry that hypothesis;
    * `indeterminate_general` / `indeterminate_second_asker` say exactly what happens without it
      (the second asker receives the first asker's answer);
    * the `example`s at the end exhibit two radios of one group, the second checked, where the
      memoised answer for the second differs from the table-free answer, in both query orders;
    * `guard_implies_side` / `guard_list_implies_side`: the guard `:not([checked])` of the
      built-in `:indeterminate` selector implies the side condition in every document kind: the
      attribute selector and the scan compare attribute names by the same rule (lower-cased
      unless the document is XML).
      HISTORY: before repair ecfbb7b the scan lower-cased names in XML documents too while the
      guard compared them exactly, so `<input type="radio" name="a" CHECKED=""/>` (XHTML parsed as
      XML) passed the guard and was a checked radio of its group: `select(':indeterminate')` gave
      `[]` where `match(':indeterminate', r2)` gave `True`.  The lemma was then provable only
      under `c.isXml = false`; that restriction is gone.
      Fix 01d00ae completes the alignment of scan and guard: the `type` VALUE is now compared as
      `[type="radio"]` compares it (exactly in XML).  The side condition never mentioned the value
      (it follows from `:not([checked])` alone), so no hypothesis of this file changes; what became
      provable is the restatement of the scan in the guard's atoms for every document kind
      (`C17.checkedRadio_is_guard_radio`, `C17.radioCheckedScan_def`).
      Fix 8eff4e2 adds `c.isHtmlTag ce` to the per-control test (`Memo.isCheckedRadioOf`: only HTML
      elements are group members); the side condition is about the ASKER, which the guard already
      requires to be an HTML `input`, so again nothing changes here (`C17.scanMember_guarded`).
    * A selector built by hand that sets `SEL_INDETERMINATE` without the guard is outside
      `history_independent` (`Admissible` asks for the side condition).

  Non-mutation is structural in the model: trees are values and no function returns a tree.
-/
import SoupVerif.Lemmas.Memo
import SoupVerif.Lemmas.MatchAlgebra
import SoupVerif.Generated.Builtins
namespace SoupVerif
namespace C04
open Memo MemoLemmas

/-! ### The invariant of the tables -/

/-- Every cached entry equals what the table-free function computes. -/
structure MemoInv (d : Doc) (c : Ctx) (σ : State) : Prop where
  /-- `(root, lang)`: the `<meta>` search below `root` is enabled and gives `lang`. -/
  metaLang : ∀ r v, (r, v) ∈ σ.metaLang →
    ∃ root, d.locAt? r = some root ∧ metaCond c root = true ∧ SoupVerif.metaLang c root = v
  /-- `(form, button)`: `button` is the first submit button of `form`. -/
  defaultForms : ∀ f b, (f, b) ∈ σ.defaultForms →
    ∃ form bl, d.locAt? f = some form ∧
      firstSubmit c (c.tagDescendants form true) = some bl ∧ bl.pos = b
  /-- `(form, name, i)`: `i` says whether the group has no checked radio at all. -/
  indeterminateForms : ∀ f n i, (f, n, i) ∈ σ.indeterminateForms →
    ∃ form, d.locAt? f = some form ∧ groupIndeterminate c form n = i

theorem inv_init (d : Doc) (c : Ctx) : MemoInv d c State.init :=
  ⟨by intro r v h; simp [State.init] at h, by intro f b h; simp [State.init] at h,
   by intro f n i h; simp [State.init] at h⟩

/-! ### `:default` -/

theorem default_step {d : Doc} {c : Ctx} {σ : State} (l : Loc) (hinv : MemoInv d c σ) (hl : InDoc d l) :
    (matchDefaultM c σ l).1 = matchDefault c l ∧ MemoInv d c (matchDefaultM c σ l).2 := by
  unfold matchDefaultM matchDefault
  cases hdf : defaultForm c l with
  | none => exact ⟨rfl, hinv⟩
  | some form =>
    have hform : InDoc d form := defaultForm_inDoc c l form hl hdf
    simp only
    cases hfind : σ.defaultForms.find? (fun p => p.1 == form.pos) with
    | some hit =>
      obtain ⟨f, t⟩ := hit
      have hmem := List.mem_of_find?_eq_some hfind
      have hkey : f = form.pos := by simpa using List.find?_some hfind
      obtain ⟨form', bl, hloc, hsub, hb⟩ := hinv.defaultForms f t hmem
      rw [hkey] at hloc
      have : form' = form := hform.of_locAt hloc
      subst this
      simp only [hsub]
      refine ⟨?_, hinv⟩
      rw [← hb]; rfl
    | none =>
      simp only
      cases hsub : firstSubmit c (c.tagDescendants form true) with
      | none => exact ⟨rfl, hinv⟩
      | some b =>
        refine ⟨rfl, ⟨hinv.metaLang, ?_, hinv.indeterminateForms⟩⟩
        intro f t hmem
        simp only [List.mem_append, List.mem_singleton, Prod.mk.injEq] at hmem
        rcases hmem with hmem | ⟨rfl, rfl⟩
        · exact hinv.defaultForms f t hmem
        · exact ⟨form, b, hform, hsub, rfl⟩

theorem memo_transparent_default {d : Doc} {c : Ctx} {σ : State} (l : Loc)
    (hinv : MemoInv d c σ) (hl : InDoc d l) :
    (matchDefaultM c σ l).1 = matchDefault c l := (default_step l hinv hl).1

theorem inv_step_default {d : Doc} {c : Ctx} {σ : State} (l : Loc)
    (hinv : MemoInv d c σ) (hl : InDoc d l) :
    MemoInv d c (matchDefaultM c σ l).2 := (default_step l hinv hl).2

/-! ### `:indeterminate` -/

theorem askerChecked_false {c : Ctx} {l : Loc} {e : Elem} {form : Loc}
    (he : l.elem? = some e) (hf : parentForm c l = some form) (h : askerChecked c l = false) :
    isCheckedRadioOf c form (c.attrByName e "name".toStr) l = false := by
  unfold askerChecked at h
  simpa only [he, hf] using h

theorem indeterminate_step {d : Doc} {c : Ctx} {σ : State} (l : Loc) (hinv : MemoInv d c σ)
    (hl : InDoc d l) (hside : askerChecked c l = false) :
    (matchIndeterminateM c σ l).1 = matchIndeterminate c l ∧
      MemoInv d c (matchIndeterminateM c σ l).2 := by
  rw [matchIndeterminate_eq]
  unfold matchIndeterminateM
  cases he : l.elem? with
  | none => exact ⟨rfl, hinv⟩
  | some e =>
    simp only
    cases hpf : parentForm c l with
    | none => exact ⟨rfl, hinv⟩
    | some form =>
      have hform : InDoc d form := parentForm_inDoc c l form hl hpf
      have hs := askerChecked_false he hpf hside
      have hscan := indeterminateScan_eq c form (c.attrByName e "name".toStr) l hform hl hs
      simp only
      cases hfind : σ.indeterminateForms.find?
          (fun p => p.1 == form.pos && p.2.1 == c.attrByName e "name".toStr) with
      | some hit =>
        obtain ⟨f, n, i⟩ := hit
        have hmem := List.mem_of_find?_eq_some hfind
        have hkey : f = form.pos ∧ n = c.attrByName e "name".toStr := by
          simpa using List.find?_some hfind
        obtain ⟨form', hloc, hg⟩ := hinv.indeterminateForms f n i hmem
        rw [hkey.1] at hloc
        have : form' = form := hform.of_locAt hloc
        subst this
        refine ⟨?_, hinv⟩
        simp only
        rw [hscan, ← hkey.2, hg]
      | none =>
        refine ⟨rfl, ⟨hinv.metaLang, hinv.defaultForms, ?_⟩⟩
        intro f n i hmem
        simp only [List.mem_append, List.mem_singleton, Prod.mk.injEq] at hmem
        rcases hmem with hmem | ⟨rfl, rfl, rfl⟩
        · exact hinv.indeterminateForms f n i hmem
        · exact ⟨form, hform, hscan.symm⟩

/-- Transparent when the asking element is not itself a checked radio of its group. -/
theorem memo_transparent_indeterminate {d : Doc} {c : Ctx} {σ : State} (l : Loc)
    (hinv : MemoInv d c σ) (hl : InDoc d l) (hside : askerChecked c l = false) :
    (matchIndeterminateM c σ l).1 = matchIndeterminate c l := (indeterminate_step l hinv hl hside).1

theorem inv_step_indeterminate {d : Doc} {c : Ctx} {σ : State} (l : Loc)
    (hinv : MemoInv d c σ) (hl : InDoc d l) (hside : askerChecked c l = false) :
    MemoInv d c (matchIndeterminateM c σ l).2 := (indeterminate_step l hinv hl hside).2

/-- Without any hypothesis: a hit returns the stored bool, a miss the table-free answer. -/
theorem indeterminate_general (c : Ctx) (σ : State) (l : Loc) (e : Elem) (form : Loc)
    (he : l.elem? = some e) (hpf : parentForm c l = some form) :
    (matchIndeterminateM c σ l).1 =
      (match σ.indeterminateForms.find?
          (fun p => p.1 == form.pos && p.2.1 == c.attrByName e "name".toStr) with
       | some (_, _, i) => i
       | none => matchIndeterminate c l) := by
  rw [matchIndeterminate_eq]
  unfold matchIndeterminateM
  cases hfind : σ.indeterminateForms.find?
      (fun p => p.1 == form.pos && p.2.1 == c.attrByName e "name".toStr) with
  | none => simp only [he, hpf, hfind]
  | some hit => obtain ⟨f, n, i⟩ := hit; simp only [he, hpf, hfind]

/-- What happens without the side condition: after a miss by `l1`, every later asker `l2` of the
    same `(form, name)` receives `l1`'s answer — computed with `l1`, not `l2`, left out of the
    scan. -/
theorem indeterminate_second_asker (c : Ctx) (σ : State) (l1 l2 : Loc) (e1 e2 : Elem) (form : Loc)
    (h1 : l1.elem? = some e1) (h2 : l2.elem? = some e2)
    (hf1 : parentForm c l1 = some form) (hf2 : parentForm c l2 = some form)
    (hname : c.attrByName e2 "name".toStr = c.attrByName e1 "name".toStr)
    (hmiss : σ.indeterminateForms.find?
      (fun p => p.1 == form.pos && p.2.1 == c.attrByName e1 "name".toStr) = none) :
    (matchIndeterminateM c (matchIndeterminateM c σ l1).2 l2).1 = matchIndeterminate c l1 := by
  rw [indeterminate_general c _ l2 e2 form h2 hf2, hname]
  have hσ : (matchIndeterminateM c σ l1).2.indeterminateForms =
      σ.indeterminateForms ++ [(form.pos, c.attrByName e1 "name".toStr, matchIndeterminate c l1)] := by
    rw [matchIndeterminate_eq]
    unfold matchIndeterminateM
    simp only [h1, hf1, hmiss]
  rw [hσ, List.find?_append, hmiss]
  simp

/-- The attribute name as the scan of `match_indeterminate` compares it: lower-cased unless the
    document is XML (the same rule as the attribute selector `[checked]` that guards the check). -/
def scanKey (isXml : Bool) (a : Attr) : Str := if !isXml then lower a.key else a.key

/-- One attribute of the scan of `match_indeterminate`: the three flags after it. -/
def radioStep (isXml : Bool) (name : Option NVal) (a : Attr) (isRadio check hasName : Bool) :
    Bool × Bool × Bool :=
  let k := if !isXml then lower a.key else a.key
  let v := normalizeValue a.val
  if k == "type".toStr && (match v with | .str s => (if isXml then s else lower s) == "radio".toStr | .list _ => false) then (true, check, hasName)
  else if k == "name".toStr && some v == name then (isRadio, check, true)
  else if k == "checked".toStr then (isRadio, true, hasName)
  else (isRadio, check, hasName)

theorem radioCheckedScan_cons (x : Bool) (name : Option NVal) (a : Attr) (rest : List Attr) (r c h : Bool) :
    radioCheckedScan x name (a :: rest) r c h =
      (if (radioStep x name a r c h).1 && (radioStep x name a r c h).2.1 && (radioStep x name a r c h).2.2 then true
       else radioCheckedScan x name rest (radioStep x name a r c h).1 (radioStep x name a r c h).2.1
        (radioStep x name a r c h).2.2) := by
  conv => lhs; unfold radioCheckedScan
  rfl

theorem radioStep_check (x : Bool) (name : Option NVal) (a : Attr) (r h : Bool)
    (ha : (scanKey x a == "checked".toStr) = false) : (radioStep x name a r false h).2.1 = false := by
  unfold scanKey at ha
  unfold radioStep
  simp only [ha]
  repeat' split
  all_goals first | rfl | (rename_i hf; exact absurd hf (by decide))

/-- The element has no attribute that the scan would count as `checked`. -/
def NoCheckedAttr (c : Ctx) (e : Elem) : Prop :=
  ∀ a ∈ e.attrs, scanKey c.isXml a ≠ "checked".toStr

/-- No `checked` attribute (compared as the scan compares) — not a checked radio. -/
theorem radioCheckedScan_no_checked (x : Bool) (name : Option NVal) :
    ∀ (attrs : List Attr) (isRadio hasName : Bool),
    (∀ a ∈ attrs, scanKey x a ≠ "checked".toStr) →
    radioCheckedScan x name attrs isRadio false hasName = false := by
  intro attrs
  induction attrs with
  | nil => intro r h _; unfold radioCheckedScan; rfl
  | cons a rest ih =>
    intro r h hno
    have ha : (scanKey x a == "checked".toStr) = false := by
      simpa using hno a (by simp)
    have hrest : ∀ a ∈ rest, scanKey x a ≠ "checked".toStr := fun y hy => hno y (by simp [hy])
    rw [radioCheckedScan_cons, radioStep_check x name a r h ha]
    simp [ih _ _ hrest]

/-- The side condition follows from "no attribute the scan counts as `checked`". -/
theorem side_of_noChecked (c : Ctx) (l : Loc) (e : Elem) (he : l.elem? = some e)
    (hno : NoCheckedAttr c e) : askerChecked c l = false := by
  unfold askerChecked
  simp only [he]
  split
  · rfl
  · unfold isCheckedRadioOf
    simp only [he, radioCheckedScan_no_checked _ _ e.attrs false false hno, Bool.and_false, Bool.false_and]

/-- The attribute selector `[checked]` fails (`match_attribute_name` finds nothing) exactly on
    the elements without an attribute the scan counts as `checked` — in every document kind
    (HTML, XHTML, XML): both compare the whole attribute name, lower-cased unless XML. -/
theorem noChecked_of_guard (c : Ctx) (e : Elem)
    (hguard : matchAttributeName c e "checked".toStr [] = none) : NoCheckedAttr c e := by
  intro a ha heq
  unfold scanKey at heq
  unfold matchAttributeName at hguard
  have hlow : lower "checked".toStr = "checked".toStr := by decide
  have hstar' : (([] : Str) == "*".toStr) = false := by decide
  split at hguard
  · rename_i hns
    simp only [List.isEmpty_nil, Bool.not_true, Bool.false_eq_true, if_false, hstar', Bool.not_false,
      nsFalsy_none, Bool.and_true, Bool.true_or, if_true, hlow, Option.map_eq_none_iff,
      List.find?_eq_none] at hguard
    have := hguard a ha
    cases hx : c.isXml with
    | true => rw [hx] at heq this; simp at heq; simp [heq] at this
    | false => rw [hx] at heq this; simp at heq; simp [heq] at this
  · rename_i hns
    have hx : c.isXml = false := by
      unfold Ctx.supportsNamespaces at hns
      cases h : c.isXml with
      | false => rfl
      | true => simp [h] at hns
    rw [hx] at heq
    simp only [hlow, Option.map_eq_none_iff, List.find?_eq_none] at hguard
    simp at heq
    exact hguard a ha (by simp [heq])

/-- `matchAttributes` level: the compound `[checked]` (no value pattern) fails exactly when
    `match_attribute_name` yields nothing, i.e. when its first value (`matchAttributeName`, the
    head of `matchAttributeValues`) is `none`. -/
theorem guard_of_matchAttributes (c : Ctx) (e : Elem)
    (h : matchAttributes c e [⟨"checked".toStr, [], none, none⟩] = false) :
    matchAttributeName c e "checked".toStr [] = none := by
  rw [matchAttributeName_eq_head?]
  unfold matchAttributes at h
  simp only [List.all_cons, List.all_nil, Bool.and_true] at h
  cases hm : matchAttributeValues c e "checked".toStr [] with
  | nil => rfl
  | cons v vs => simp [hm] at h

/-- The guard `:not([checked])` of the built-in `:indeterminate` selector
    (`html|input[type="radio"][name]:not([name='']):not([checked])`, the compound that carries the
    `SEL_INDETERMINATE` flag) implies the side condition of `memo_transparent_indeterminate`, in
    every document kind. -/
theorem guard_implies_side (c : Ctx) (l : Loc) (e : Elem) (he : l.elem? = some e)
    (hguard : matchAttributeName c e "checked".toStr [] = none) :
    askerChecked c l = false :=
  side_of_noChecked c l e he (noChecked_of_guard c e hguard)

/-- The sub-selector `:not([checked])` as it appears in the generated IR of `CSS_INDETERMINATE`. -/
def notCheckedGuard : SelList :=
  .mk [.mk none [] [] [⟨"checked".toStr, [], none, none⟩] [] [] (.mk [] false false) .none [] [] 0] true false

theorem matchNths_nil (c : Ctx) (l : Loc) (e : Elem) : matchNths c l e [] = true := by
  unfold matchNths; rfl

/-- Matching the sub-selector list `:not([checked])` gives the guard. -/
theorem guard_of_matchList (c : Ctx) (l : Loc) (e : Elem)
    (h : matchList c l e notCheckedGuard = true) :
    matchAttributeName c e "checked".toStr [] = none := by
  apply guard_of_matchAttributes
  unfold notCheckedGuard at h
  rw [matchList_neg, matchAny_cons, matchAny_nil] at h
  simp only [Bool.not_false, Bool.true_or, List.isEmpty_cons, Bool.and_self, Bool.true_and, Bool.or_false,
    Bool.false_eq_true, if_false, Bool.not_eq_true'] at h
  unfold matchSel at h
  have h0 : ∀ f, hasFlag 0 f = false := by intro f; simp [hasFlag]
  simp only [matchTag, h0, Bool.not_false, Bool.true_or, Bool.true_and, matchNths_nil, List.isEmpty_nil,
    Bool.and_true, SelList.nonEmpty, SelList.sels, Bool.not_true, Bool.not_false, Bool.true_or] at h
  exact h

def subsOf : Sel → List SelList
  | .mk _ _ _ _ _ subs _ _ _ _ _ => subs
  | .null => []
def flagsOf : Sel → Nat
  | .mk _ _ _ _ _ _ _ _ _ _ flags => flags
  | .null => 0

/-- Tie to the generated IR: in `CSS_INDETERMINATE` exactly one compound (the last) carries
    `SEL_INDETERMINATE`, and its last sub-selector list is `notCheckedGuard`. -/
example : (Gen.CSS_INDETERMINATE.sels.map fun s => hasFlag (flagsOf s) SEL_INDETERMINATE) =
    [false, false, false, true] := by decide
example : (Gen.CSS_INDETERMINATE.sels.getLast?.map fun s => (subsOf s).getLast?) =
    some (some notCheckedGuard) := rfl

/-- From the sub-selector list to the side condition, end to end. -/
theorem guard_list_implies_side (c : Ctx) (l : Loc) (e : Elem) (he : l.elem? = some e)
    (h : matchList c l e notCheckedGuard = true) : askerChecked c l = false :=
  guard_implies_side c l e he (guard_of_matchList c l e h)

/-- The built-in `:indeterminate`: the compound that carries `SEL_INDETERMINATE` asks
    `match_indeterminate` only after its sub-selectors matched (`match_selectors` tests
    `selector.selectors` before the flag, `matchSel` conjoins them in that order), and then the
    side condition holds. -/
theorem builtin_asks_only_guarded (c : Ctx) (l : Loc) (e : Elem) (he : l.elem? = some e) (s : Sel)
    (hs : Gen.CSS_INDETERMINATE.sels.getLast? = some s)
    (h : matchSubs c l e (subsOf s) = true) : askerChecked c l = false := by
  have hg : (Gen.CSS_INDETERMINATE.sels.getLast?.map fun s => (subsOf s).getLast?) =
      some (some notCheckedGuard) := rfl
  rw [hs] at hg
  simp only [Option.map_some, Option.some.injEq] at hg
  have hmem : notCheckedGuard ∈ subsOf s := List.mem_of_getLast? hg
  rw [matchSubs_eq_all, List.all_eq_true] at h
  exact guard_list_implies_side c l e he (h _ hmem)

/-! ### `:lang` -/

theorem lang_step {d : Doc} {c : Ctx} {σ : State} (l : Loc) (hinv : MemoInv d c σ) (hl : InDoc d l) :
    (langOfM c σ l).1 = langOf c l ∧ MemoInv d c (langOfM c σ l).2 := by
  rw [langOfM_eq, langOf_eq]
  have hlast := langWalk_last_inDoc c l hl
  generalize langWalk c (l :: c.ancestors l c.isHtml) l = w at hlast ⊢
  obtain ⟨found, last⟩ := w
  simp only at hlast ⊢
  cases found with
  | some v => exact ⟨rfl, hinv⟩
  | none =>
    simp only
    cases hhit : (σ.metaLang.filter (fun p => p.1 == last.pos)).getLast? with
    | some hit =>
      obtain ⟨r, v⟩ := hit
      have hmem := List.mem_filter.mp (List.mem_of_getLast? hhit)
      have hkey : r = last.pos := by simpa using hmem.2
      obtain ⟨root, hloc, hcond, hv⟩ := hinv.metaLang r v hmem.1
      rw [hkey] at hloc
      have : root = last := hlast.of_locAt hloc
      subst this
      simp only [hcond, if_true, hv]
      exact ⟨trivial, hinv⟩
    | none =>
      simp only
      cases hcond : metaCond c last with
      | false => exact ⟨rfl, hinv⟩
      | true =>
        simp only [if_true]
        rw [metaLang_eq]
        cases hhead : findHead c last with
        | none => exact ⟨rfl, hinv⟩
        | some head =>
          refine ⟨rfl, ⟨?_, hinv.defaultForms, hinv.indeterminateForms⟩⟩
          intro r v hmem
          simp only [List.mem_append, List.mem_singleton, Prod.mk.injEq] at hmem
          rcases hmem with hmem | ⟨rfl, rfl⟩
          · exact hinv.metaLang r v hmem
          · exact ⟨last, hlast, hcond, by rw [metaLang_eq, hhead]⟩

theorem memo_transparent_lang {d : Doc} {c : Ctx} {σ : State} (l : Loc)
    (hinv : MemoInv d c σ) (hl : InDoc d l) :
    (langOfM c σ l).1 = langOf c l := (lang_step l hinv hl).1

theorem inv_step_lang {d : Doc} {c : Ctx} {σ : State} (l : Loc)
    (hinv : MemoInv d c σ) (hl : InDoc d l) :
    MemoInv d c (langOfM c σ l).2 := (lang_step l hinv hl).2

theorem memo_transparent_matchLang {d : Doc} {c : Ctx} {σ : State} (l : Loc) (langs : List LangSel)
    (hinv : MemoInv d c σ) (hl : InDoc d l) :
    (matchLangM c σ l langs).1 = matchLang c l langs ∧ MemoInv d c (matchLangM c σ l langs).2 := by
  rw [matchLang_eq, ← memo_transparent_lang l hinv hl]
  exact ⟨rfl, inv_step_lang l hinv hl⟩

/-! ### Histories -/

/-- The queries covered: elements of the document; for `:indeterminate` the side condition. -/
def Admissible (d : Doc) (c : Ctx) : Query → Prop
  | .default l => InDoc d l
  | .indeterminate l => InDoc d l ∧ askerChecked c l = false
  | .lang l _ => InDoc d l
  | .langOf l => InDoc d l

theorem step_correct {d : Doc} {c : Ctx} {σ : State} (q : Query) (hinv : MemoInv d c σ)
    (hq : Admissible d c q) :
    (step c σ q).1 = pureAnswer c q ∧ MemoInv d c (step c σ q).2 := by
  cases q with
  | default l =>
    have := default_step l hinv hq
    exact ⟨by simp only [step, pureAnswer, this.1], this.2⟩
  | indeterminate l =>
    have := indeterminate_step l hinv hq.1 hq.2
    exact ⟨by simp only [step, pureAnswer, this.1], this.2⟩
  | lang l langs =>
    have := memo_transparent_matchLang l langs hinv hq
    exact ⟨by simp only [step, pureAnswer, this.1], this.2⟩
  | langOf l =>
    have := lang_step l hinv hq
    exact ⟨by simp only [step, pureAnswer, this.1], this.2⟩

/-- Folding the memoised functions through any list of queries gives, at each step, the answer
    of the table-free function; the tables stay correct. -/
theorem history_independent {d : Doc} {c : Ctx} : ∀ (qs : List Query) (σ : State),
    MemoInv d c σ → (∀ q ∈ qs, Admissible d c q) →
    (run c σ qs).1 = qs.map (pureAnswer c) ∧ MemoInv d c (run c σ qs).2 := by
  intro qs
  induction qs with
  | nil => intro σ hinv _; exact ⟨rfl, hinv⟩
  | cons q qs ih =>
    intro σ hinv hall
    obtain ⟨h1, h2⟩ := step_correct q hinv (hall q (by simp))
    obtain ⟨h3, h4⟩ := ih (step c σ q).2 h2 (fun x hx => hall x (by simp [hx]))
    exact ⟨by simp only [run, h1, h3, List.map_cons], h4⟩

/-- From the empty tables of a fresh `CSSMatch`. -/
theorem history_independent_init (d : Doc) (c : Ctx) (qs : List Query)
    (hall : ∀ q ∈ qs, Admissible d c q) :
    (run c State.init qs).1 = qs.map (pureAnswer c) :=
  (history_independent qs State.init (inv_init d c) hall).1

/-- The answer to a query is the same after any two histories. -/
theorem same_answer_after_any_history (d : Doc) (c : Ctx) (h1 h2 : List Query) (q : Query)
    (a1 : ∀ x ∈ h1, Admissible d c x) (a2 : ∀ x ∈ h2, Admissible d c x) (aq : Admissible d c q) :
    (step c (run c State.init h1).2 q).1 = (step c (run c State.init h2).2 q).1 := by
  rw [(step_correct q (history_independent h1 State.init (inv_init d c) a1).2 aq).1,
    (step_correct q (history_independent h2 State.init (inv_init d c) a2).2 aq).1]

/-! ### Non-vacuity, and the counterexample without the side condition -/

def chtml : Ctx :=
  { env := asciiEnv, bidi := fun _ => 0, wildStrip := id, isXml := false, hasHtmlNs := false,
    isHtml := true, root := none, scope := none, namespaces := [], iframeRestrict := false }

def mkElem (name : String) (attrs : List (String × String)) : Elem :=
  { isDoc := false, name := name.toStr, pfx := none, ns := none,
    attrs := attrs.map fun (k, v) => ⟨k.toStr, none, none, .str v.toStr⟩ }

def radioPlain : Node := .elem (mkElem "input" [("type", "radio"), ("name", "a")]) []
def radioChecked : Node := .elem (mkElem "input" [("type", "radio"), ("name", "a"), ("checked", "")]) []
def submitBtn : Node := .elem (mkElem "button" [("type", "submit")]) []
def formElem : Elem := mkElem "form" []

/-- `<form><input type=radio name=a><input type=radio name=a checked><button type=submit></form>` -/
def formDoc : Doc := ⟨false, .elem formElem [radioPlain, radioChecked, submitBtn]⟩
def r1 : Loc := ⟨radioPlain, [⟨[], formElem, [radioChecked, submitBtn]⟩]⟩
def r2 : Loc := ⟨radioChecked, [⟨[radioPlain], formElem, [submitBtn]⟩]⟩
def btn : Loc := ⟨submitBtn, [⟨[radioChecked, radioPlain], formElem, []⟩]⟩

example : InDoc formDoc r1 := rfl
example : InDoc formDoc r2 := rfl
example : InDoc formDoc btn := rfl

-- `:default`: miss then hit, same answers
example : (matchDefaultM chtml State.init btn).1 = true := by decide
example : (matchDefaultM chtml State.init btn).2.defaultForms = [([], [2])] := by decide
example : (matchDefaultM chtml (matchDefaultM chtml State.init btn).2 r1).1 = false := by decide
example : matchDefault chtml btn = true ∧ matchDefault chtml r1 = false := by decide

-- `:indeterminate`: `r1` is not checked (side condition holds), `r2` is
example : askerChecked chtml r1 = false ∧ askerChecked chtml r2 = true := by decide
-- table-free answers: `r1` sees the checked `r2`; `r2` (left out of its own scan) sees nothing
example : matchIndeterminate chtml r1 = false ∧ matchIndeterminate chtml r2 = true := by decide
-- order r1, r2: `r2` receives `r1`'s stored `False`
example : (matchIndeterminateM chtml State.init r1).1 = false := by decide
example : (matchIndeterminateM chtml (matchIndeterminateM chtml State.init r1).2 r2).1 = false := by decide
-- order r2, r1: `r1` receives `r2`'s stored `True`
example : (matchIndeterminateM chtml State.init r2).1 = true := by decide
example : (matchIndeterminateM chtml (matchIndeterminateM chtml State.init r2).2 r1).1 = true := by decide
/-- The counterexample in one statement: the same query, two histories, two answers. -/
example : (run chtml State.init [.indeterminate r1, .indeterminate r2]).1 ≠
    [Query.indeterminate r1, .indeterminate r2].map (pureAnswer chtml) := by decide

end C04
end SoupVerif
