/-
  C19  Text pseudo-classes see exactly the character data CSS/HTML count as content.

  Model  : `Ctx.descendants`, `Ctx.text`, `Ctx.ownText`, `matchContains`, `matchEmpty`,
           `matchPlaceholderShown`, `findBidiKids` (Model/Match.lean);
           the `next_good` loop of `get_descendants` as Python runs it: `TextWalk.skipWalk`
           over `TextWalk.preorder` (Model/TextWalk.lean)
  Spec   : `Spec.textOf`, `Spec.ownTexts`, `Spec.Contains`, `Spec.ContainsOwn`,
           `Spec.isEmptyElem`, `Spec.eraseSpecial` (Spec/Text.lean) — structural recursion on the
           tree, no walk.

  Chain of the proof:
    Python loop  (`skipWalk ∘ preorder`, index arithmetic for `next_good`)
      = structural walk `cutWalkKids` (yield a cut iframe, do not enter it)   `skipwalk_eq_structural`
      = foci of `Loc.descendants (fun d => !cut d)`                           `skipwalk_eq_descendants`
    and the text of that walk is `Spec.textOf`                                `text_eq`.

  Notes on statements.
    * `text_eq`, `own_eq`, `empty_iff` hold for EVERY location (for a string node both sides are
      empty); no "l is an element" hypothesis was needed.
    * The iframe cut of `:-soup-contains` is `c.isHtml && c.isIframe e` (`cutOf c c.isHtml`).
      `matchPlaceholderShown` calls `get_text(el)` with `no_iframe=False`: no cut there
      (`placeholder_eq`).  `matchEmpty` looks at direct children only and never cuts: an
      `iframe` with element or text children is not `:empty`.
    * `matchContains_cons`: every `:-soup-contains()` / `:-soup-contains-own()` list is tested
      against its own kind of content (the repaired behaviour; the historical code shared one
      `content` variable between the two kinds).
-/
import SoupVerif.Lemmas.Text
namespace SoupVerif
namespace C19
open TextWalk Spec TextLemmas

/-! ### The Python loop is the structural walk -/

/-- The `next_good` loop over bs4's full pre-order list yields exactly the structural pre-order
    of `n` that yields an iframe-cut element but does not enter it. -/
theorem skipwalk_eq_structural (cut : Elem → Bool) (n : Node) :
    skipWalk (preorder cut n) = cutWalkKids cut n.kids := by
  unfold skipWalk
  rw [skipWalkT_preorder, keep_false]
  simp

/-- `tags=True` yields the elements of the same walk. -/
theorem skipwalk_tags (cut : Elem → Bool) (n : Node) :
    skipWalkT true (preorder cut n) = (skipWalk (preorder cut n)).filter Node.isTag := by
  rw [skipwalk_eq_structural, skipWalkT_preorder, keep_true]

/-- … and this is what `Loc.descendants` with `enter d = !cut d` yields, for all trees. -/
theorem skipwalk_eq_descendants (cut : Elem → Bool) (l : Loc) :
    skipWalk (preorder cut l.focus) =
      (l.descendants (fun d => !cutLoc cut d)).map Loc.focus := by
  rw [skipwalk_eq_structural, Loc.descendants_focus cut _ (fun _ => rfl)]

/-- The whole of `get_descendants(el, tags=False, no_iframe)` — guard on `el`, then the loop —
    against the model's `Ctx.descendants`. -/
theorem getDescendants_eq (c : Ctx) (l : Loc) (ni : Bool) :
    getDescendants (cutOf c ni) false l.focus = (c.descendants l ni).map Loc.focus := by
  rw [Ctx.descendants_focus, cutWalkNode_eq]
  unfold getDescendants
  cases l.focus with
  | elem e ks =>
    simp only
    split
    · rfl
    · exact skipwalk_eq_structural _ _
  | str k s => rfl

/-- `get_tag_descendants(el, no_iframe)` likewise. -/
theorem getTagDescendants_eq (c : Ctx) (l : Loc) (ni : Bool) :
    getDescendants (cutOf c ni) true l.focus = (c.tagDescendants l ni).map Loc.focus := by
  have h : (c.tagDescendants l ni).map Loc.focus = ((c.descendants l ni).map Loc.focus).filter Node.isTag := by
    unfold Ctx.tagDescendants
    rw [List.filter_map]
    rfl
  rw [h, Ctx.descendants_focus, cutWalkNode_eq]
  unfold getDescendants
  cases l.focus with
  | elem e ks =>
    simp only
    split
    · rfl
    · rw [skipWalkT_preorder, keep_true]; rfl
  | str k s => rfl

/-! ### Text content -/

/-- `get_text(el, no_iframe)` is the structural text content. -/
theorem text_eq (c : Ctx) (l : Loc) (ni : Bool) :
    c.text l ni = Spec.textOf (cutOf c ni) l.focus := by
  unfold Ctx.text
  rw [filter_flatMap_focus Node.isContentString Node.strVal, Ctx.descendants_focus,
    text_cutWalkNode_top]

/-- The loop-level `get_text` agrees too (Python loop → spec, without the zipper). -/
theorem getText_eq (cut : Elem → Bool) (n : Node) : getText cut n = Spec.textOf cut n := by
  unfold getText getDescendants
  cases n with
  | elem e ks =>
    simp only [textOf]
    split
    · rfl
    · rw [← skipWalk, skipwalk_eq_structural]; exact text_cutWalkKids cut ks
  | str k s => rfl

/-- `get_own_text(el, no_iframe)`: the direct text children, one string each. -/
theorem own_eq (c : Ctx) (l : Loc) (ni : Bool) :
    c.ownText l ni = Spec.ownTexts (cutOf c ni) l.focus := by
  unfold Ctx.ownText Ctx.contents
  rw [filter_map_focus Node.isContentString Node.strVal]
  have hl := cutLoc_cutOf c ni l
  unfold cutLoc at hl
  cases hf : l.focus with
  | elem e ks =>
    rw [hf] at hl
    simp only at hl
    simp only [ownTexts, ← hl]
    split
    · rfl
    · rw [Loc.children_focus, hf]; exact ownTexts_kids ks
  | str k s =>
    rw [hf] at hl
    simp only at hl
    rw [← hl]
    simp only [Bool.false_eq_true, if_false, Loc.children_focus, hf]
    rfl

/-- `get_text(el)` of `:placeholder-shown` (no iframe cut). -/
theorem placeholder_eq (c : Ctx) (l : Loc) :
    matchPlaceholderShown c l =
      (Spec.textOf (fun _ => false) l.focus == [] || Spec.textOf (fun _ => false) l.focus == [10]) := by
  unfold matchPlaceholderShown
  rw [text_eq]
  have : cutOf c false = fun _ => false := by funext e; simp [cutOf]
  rw [this]

/-! ### `:-soup-contains` / `:-soup-contains-own` -/

/-- One `:-soup-contains(t1, …)`: some `ti` occurs in the text content. -/
theorem contains_iff (c : Ctx) (l : Loc) (ts : List Str) :
    matchContains c l [⟨ts, false⟩] = Spec.contains (cutOf c c.isHtml) ts l.focus := by
  unfold matchContains Spec.contains
  simp only [List.all_cons, List.all_nil, Bool.and_true, Bool.false_eq_true, if_false, text_eq]
  congr 1
  funext t
  rw [occursInB_eq_isInfix]

/-- One `:-soup-contains-own(t1, …)`: some `ti` occurs within a single direct text child. -/
theorem containsOwn_iff (c : Ctx) (l : Loc) (ts : List Str) :
    matchContains c l [⟨ts, true⟩] = Spec.containsOwn (cutOf c c.isHtml) ts l.focus := by
  unfold matchContains Spec.containsOwn
  simp only [List.all_cons, List.all_nil, Bool.and_true, if_true, own_eq]
  congr 1
  funext t
  congr 1
  funext piece
  rw [occursInB_eq_isInfix]

theorem contains_spec (cut : Elem → Bool) (ts : List Str) (n : Node) :
    Spec.contains cut ts n = true ↔ Spec.Contains cut ts n := by
  unfold Spec.contains Spec.Contains
  rw [List.any_eq_true]
  constructor
  · rintro ⟨t, ht, h⟩
    exact ⟨t, ht, (isInfix_iff_occursIn _ _).mp (by rw [← occursInB_eq_isInfix]; exact h)⟩
  · rintro ⟨t, ht, h⟩
    exact ⟨t, ht, by rw [occursInB_eq_isInfix]; exact (isInfix_iff_occursIn _ _).mpr h⟩

theorem containsOwn_spec (cut : Elem → Bool) (ts : List Str) (n : Node) :
    Spec.containsOwn cut ts n = true ↔ Spec.ContainsOwn cut ts n := by
  unfold Spec.containsOwn Spec.ContainsOwn
  rw [List.any_eq_true]
  constructor
  · rintro ⟨t, ht, h⟩
    rw [List.any_eq_true] at h
    obtain ⟨p, hp, h⟩ := h
    exact ⟨t, ht, p, hp, (isInfix_iff_occursIn _ _).mp (by rw [← occursInB_eq_isInfix]; exact h)⟩
  · rintro ⟨t, ht, p, hp, h⟩
    refine ⟨t, ht, ?_⟩
    rw [List.any_eq_true]
    exact ⟨p, hp, by rw [occursInB_eq_isInfix]; exact (isInfix_iff_occursIn _ _).mpr h⟩

/-- `:-soup-contains(t1, …)` matches exactly when some `ti` occurs in the concatenation, in
    document order, of the text nodes among the descendants (iframe content excluded in HTML). -/
theorem contains_iff_prop (c : Ctx) (l : Loc) (ts : List Str) :
    matchContains c l [⟨ts, false⟩] = true ↔ Spec.Contains (cutOf c c.isHtml) ts l.focus := by
  rw [contains_iff, contains_spec]

/-- `:-soup-contains-own(t1, …)` matches exactly when some `ti` occurs within a single text node
    that is a direct child. -/
theorem containsOwn_iff_prop (c : Ctx) (l : Loc) (ts : List Str) :
    matchContains c l [⟨ts, true⟩] = true ↔ Spec.ContainsOwn (cutOf c c.isHtml) ts l.focus := by
  rw [containsOwn_iff, containsOwn_spec]

theorem matchContains_nil (c : Ctx) (l : Loc) : matchContains c l [] = true := rfl

/-- Several text pseudo-classes on one compound: a conjunction, each list tested on its own. -/
theorem matchContains_cons (c : Ctx) (l : Loc) (cl : ContainsSel) (rest : List ContainsSel) :
    matchContains c l (cl :: rest) = (matchContains c l [cl] && matchContains c l rest) := by
  unfold matchContains
  simp only [List.all_cons, List.all_nil, Bool.and_true]

theorem matchContains_append (c : Ctx) (l : Loc) (A B : List ContainsSel) :
    matchContains c l (A ++ B) = (matchContains c l A && matchContains c l B) := by
  unfold matchContains
  rw [List.all_append]

/-- Mixed `:-soup-contains-own(a):-soup-contains(b)` in either order: each is tested against
    its own content. -/
theorem matchContains_mixed (c : Ctx) (l : Loc) (a b : List Str) :
    matchContains c l [⟨a, true⟩, ⟨b, false⟩] =
      (Spec.containsOwn (cutOf c c.isHtml) a l.focus && Spec.contains (cutOf c c.isHtml) b l.focus) ∧
    matchContains c l [⟨b, false⟩, ⟨a, true⟩] =
      (Spec.contains (cutOf c c.isHtml) b l.focus && Spec.containsOwn (cutOf c c.isHtml) a l.focus) := by
  constructor
  · rw [matchContains_cons, containsOwn_iff, contains_iff]
  · rw [matchContains_cons, containsOwn_iff, contains_iff]

/-- The general form: every list of the compound against the content of its kind. -/
theorem matchContains_all (c : Ctx) (l : Loc) (cs : List ContainsSel) :
    matchContains c l cs = cs.all fun cl =>
      if cl.own then Spec.containsOwn (cutOf c c.isHtml) cl.text l.focus
      else Spec.contains (cutOf c c.isHtml) cl.text l.focus := by
  induction cs with
  | nil => rfl
  | cons cl rest ih =>
    rw [matchContains_cons, ih, List.all_cons]
    congr 1
    obtain ⟨ts, own⟩ := cl
    cases own
    · simp only [Bool.false_eq_true, if_false]; exact contains_iff c l ts
    · simp only [if_true]; exact containsOwn_iff c l ts

/-! ### `:empty` -/

theorem isWs_eq (x : Nat) : Spec.isWs x = isCssWs x := by
  unfold Spec.isWs isCssWs
  cases (x == 32) <;> cases (x == 9) <;> cases (x == 10) <;> cases (x == 13) <;> cases (x == 12) <;> rfl

theorem blocksEmpty_eq (k : Node) :
    (k.isTag || (k.isContentString && k.strVal.any (fun x => !isCssWs x))) = Spec.blocksEmpty k := by
  cases k with
  | elem e ks => rfl
  | str kind s =>
    cases kind <;> simp [Node.isTag, Node.isContentString, Node.strVal, Spec.blocksEmpty, isWs_eq]

/-- `:empty` holds exactly when there is no element child and no text child containing a
    non-whitespace character. -/
theorem empty_iff (l : Loc) : matchEmpty l = Spec.isEmptyElem l.focus := by
  unfold matchEmpty Spec.isEmptyElem
  rw [← Loc.children_focus, List.any_map]
  congr 2
  funext ch
  exact blocksEmpty_eq ch.focus

theorem isEmptyElem_spec (n : Node) : Spec.isEmptyElem n = true ↔ Spec.IsEmptyElem n := by
  unfold Spec.isEmptyElem Spec.IsEmptyElem
  rw [Bool.not_eq_true', List.any_eq_false]
  constructor
  · intro h k hk
    have hb := h k hk
    refine ⟨?_, ?_⟩
    · intro e ks he; subst he; simp [Spec.blocksEmpty] at hb
    · intro s hs x hx
      subst hs
      simp only [Spec.blocksEmpty, List.any_eq_true, Bool.not_eq_true', not_exists, not_and,
        Bool.not_eq_false] at hb
      exact hb x hx
  · intro h k hk
    obtain ⟨h1, h2⟩ := h k hk
    cases k with
    | elem e ks => exact absurd rfl (h1 e ks)
    | str kind s =>
      cases kind <;> simp only [Spec.blocksEmpty, Bool.false_eq_true, not_false_eq_true]
      simp only [List.any_eq_true, Bool.not_eq_true', not_exists, not_and, Bool.not_eq_false]
      exact fun x hx => h2 s rfl x hx

theorem empty_iff_prop (l : Loc) : matchEmpty l = true ↔ Spec.IsEmptyElem l.focus := by
  rw [empty_iff, isEmptyElem_spec]

/-! ### Special strings are never text -/

/-- Erase the payload of every special string in the whole document around (and below) `l`. -/
def frameErase (f : Frame) : Frame := ⟨eraseSpecialKids f.left, f.info, eraseSpecialKids f.right⟩
def locErase (l : Loc) : Loc := ⟨eraseSpecial l.focus, l.up.map frameErase⟩

theorem locErase_focus (l : Loc) : (locErase l).focus = eraseSpecial l.focus := rfl

/-- The spec itself does not read special strings. -/
theorem special_never_text (cut : Elem → Bool) (n : Node) :
    Spec.textOfNode cut (eraseSpecial n) = Spec.textOfNode cut n := textOfNode_erase cut n

theorem special_never_text_textOf (cut : Elem → Bool) (n : Node) :
    Spec.textOf cut (eraseSpecial n) = Spec.textOf cut n := textOf_erase cut n

/-- `get_text` reads only `.text` payloads. -/
theorem text_erase (c : Ctx) (l : Loc) (ni : Bool) : c.text (locErase l) ni = c.text l ni := by
  rw [text_eq, text_eq, locErase_focus, textOf_erase]

/-- `get_own_text` reads only `.text` payloads. -/
theorem ownText_erase (c : Ctx) (l : Loc) (ni : Bool) : c.ownText (locErase l) ni = c.ownText l ni := by
  rw [own_eq, own_eq, locErase_focus, ownTexts_erase]

theorem matchContains_erase (c : Ctx) (l : Loc) (cs : List ContainsSel) :
    matchContains c (locErase l) cs = matchContains c l cs := by
  unfold matchContains
  simp only [text_erase, ownText_erase]

theorem matchEmpty_erase (l : Loc) : matchEmpty (locErase l) = matchEmpty l := by
  rw [empty_iff, empty_iff, locErase_focus, isEmptyElem_erase]

theorem matchPlaceholderShown_erase (c : Ctx) (l : Loc) :
    matchPlaceholderShown c (locErase l) = matchPlaceholderShown c l := by
  unfold matchPlaceholderShown
  simp only [text_erase]

theorem findBidiKids_nil (c : Ctx) : findBidiKids c [] = none := by
  unfold findBidiKids; rfl

/-- `find_bidi` reads only `.text` payloads. -/
theorem findBidiKids_erase (c : Ctx) : ∀ ks : List Node,
    findBidiKids c (eraseSpecialKids ks) = findBidiKids c ks
  | [] => by unfold eraseSpecialKids; rfl
  | .elem e sub :: ks => by
    unfold eraseSpecialKids
    rw [eraseSpecial_elem]
    conv => lhs; unfold findBidiKids
    conv => rhs; unfold findBidiKids
    simp only [findBidiKids_erase c sub, findBidiKids_erase c ks]
  | .str kind s :: ks => by
    unfold eraseSpecialKids
    by_cases h : kind = .text
    · subst h
      rw [eraseSpecial_str_text]
      conv => lhs; unfold findBidiKids
      conv => rhs; unfold findBidiKids
      simp only [findBidiKids_erase c ks]
    · rw [eraseSpecial_str_special _ _ h]
      conv => lhs; unfold findBidiKids
      conv => rhs; unfold findBidiKids
      have : (kind != StrKind.text) = true := by simpa using h
      simp only [this, if_true, findBidiKids_erase c ks]

theorem eraseSpecial_elem? (n : Node) : (Spec.eraseSpecial n).elem? = n.elem? := by
  cases n with
  | elem e kids => simp [Spec.eraseSpecial, Node.elem?]
  | str k s => cases k <;> simp [Spec.eraseSpecial, Node.elem?]

theorem locIsIframe_erase (c : Ctx) (l : Loc) : c.locIsIframe (locErase l) = c.locIsIframe l := by
  unfold Ctx.locIsIframe Loc.elem?
  rw [locErase_focus, eraseSpecial_elem?]

theorem findBidi_erase (c : Ctx) (l : Loc) : findBidi c (locErase l) = findBidi c l := by
  unfold findBidi
  rw [locIsIframe_erase, locErase_focus, kids_erase, ← eraseSpecialKids_eq_map, findBidiKids_erase]

/-! ### Document order -/

/-- The concatenation is in document order: `get_text` concatenates the text nodes of the walk in
    the order of the walk, and the walk's positions strictly increase (lexicographic order on
    child-index paths, an ancestor before its descendants). -/
theorem text_order (c : Ctx) (l : Loc) (b : Bool) :
    c.text l b = ((c.descendants l b).filter (fun d => d.focus.isContentString)).flatMap
        (fun d => d.focus.strVal) ∧
    List.Pairwise (fun a b => lexLt a.pos b.pos)
      ((c.descendants l b).filter (fun d => d.focus.isContentString)) :=
  ⟨rfl, (Ctx.descendants_below c l b).sorted.sublist List.filter_sublist⟩

/-- Every text node that contributes lies strictly below `l`. -/
theorem text_nodes_below (c : Ctx) (l : Loc) (b : Bool) :
    ∀ d ∈ (c.descendants l b).filter (fun d => d.focus.isContentString),
      ∃ suffix, suffix ≠ [] ∧ d.pos = l.pos ++ suffix := by
  intro d hd
  obtain ⟨i, s, _, hp⟩ := (Ctx.descendants_below c l b).shape d (List.mem_filter.mp hd).1
  exact ⟨i :: s, by simp, hp⟩

/-! ### Non-vacuity -/

def chtml : Ctx :=
  { env := asciiEnv, bidi := fun _ => 0, wildStrip := id, isXml := false, hasHtmlNs := false,
    isHtml := true, root := none, scope := none, namespaces := [], iframeRestrict := false }
/-- An XML document that is not XHTML: no iframe cut. -/
def cxml : Ctx := { chtml with isXml := true, isHtml := false }

def el (name : String) (kids : List Node) : Node :=
  .elem { isDoc := false, name := name.toStr, pfx := none, ns := none, attrs := [] } kids
def tx (s : String) : Node := .str .text s.toStr

/-- `<div>a<!--X-->b<![CDATA[Y]]><?Z?><!W><!DOCTYPE V><p>c<iframe>I<b>J</b></iframe>d</p>e</div>`
    (all six string kinds interleaved, an iframe with nested content that is the LAST child of
    nothing and the middle child of `p`). -/
def sample : Node :=
  el "div" [tx "a", .str .comment "X".toStr, tx "b", .str .cdata "Y".toStr, .str .pi "Z".toStr,
    .str .decl "W".toStr, .str .doctype "V".toStr,
    el "p" [tx "c", el "IFRAME" [tx "I", el "b" [tx "J"]], tx "d"], tx "e"]

def sampleLoc : Loc := ⟨sample, []⟩

/-- A tree whose iframe subtree ends the walk (the `break` / run-out branch). -/
def sampleLast : Node := el "div" [tx "a", el "p" [el "iframe" [tx "I", el "b" [tx "J"]]]]

example : chtml.text sampleLoc true = "abcde".toStr := by decide
example : cxml.text sampleLoc cxml.isHtml = "abcIJde".toStr := by decide
example : chtml.text sampleLoc false = "abcIJde".toStr := by decide
example : getText (cutOf chtml true) sample = "abcde".toStr := by decide
example : (skipWalk (preorder (cutOf chtml true) sample)).length = 12 := by decide
example : (preorder (cutOf chtml true) sample).length = 15 := by decide
example : (skipWalk (preorder (cutOf chtml true) sampleLast)).length = 3 := by decide
example : (skipWalkT true (preorder (cutOf chtml true) sample)).length = 2 := by decide
example : chtml.ownText sampleLoc true = ["a".toStr, "b".toStr, "e".toStr] := by decide
-- found across text nodes, not through an iframe, not in a comment
example : matchContains chtml sampleLoc [⟨["bc".toStr], false⟩] = true := by decide
example : matchContains chtml sampleLoc [⟨["cd".toStr], false⟩] = true := by decide
example : matchContains chtml sampleLoc [⟨["I".toStr], false⟩] = false := by decide
example : matchContains cxml sampleLoc [⟨["cIJd".toStr], false⟩] = true := by decide
example : matchContains chtml sampleLoc [⟨["X".toStr], false⟩] = false := by decide
example : matchContains chtml sampleLoc [⟨["Y".toStr], false⟩] = false := by decide
example : matchContains chtml sampleLoc [⟨["Z".toStr, "W".toStr, "V".toStr], false⟩] = false := by decide
-- own text: within ONE direct text child
example : matchContains chtml sampleLoc [⟨["ab".toStr], true⟩] = false := by decide
example : matchContains chtml sampleLoc [⟨["ab".toStr], false⟩] = true := by decide
example : matchContains chtml sampleLoc [⟨["q".toStr, "e".toStr], true⟩] = true := by decide
-- mixed own / not own, both orders (the historical shared-variable defect)
example : matchContains chtml sampleLoc [⟨["b".toStr], true⟩, ⟨["cd".toStr], false⟩] = true := by decide
example : matchContains chtml sampleLoc [⟨["cd".toStr], false⟩, ⟨["b".toStr], true⟩] = true := by decide
-- the empty string is contained in every element's text, and in own text only when there is a text child
example : matchContains chtml ⟨el "p" [], []⟩ [⟨[[]], false⟩] = true := by decide
example : matchContains chtml ⟨el "p" [], []⟩ [⟨[[]], true⟩] = false := by decide
-- an iframe itself has no text in HTML
example : matchContains chtml ⟨el "iframe" [tx "I"], []⟩ [⟨["I".toStr], false⟩] = false := by decide
example : matchContains chtml ⟨el "iframe" [tx "I"], []⟩ [⟨["I".toStr], true⟩] = false := by decide
-- :empty
example : matchEmpty ⟨el "p" [.str .comment "x".toStr, tx " \n\t", .str .cdata "y".toStr, .str .pi "z".toStr], []⟩ = true := by decide
example : matchEmpty ⟨el "p" [tx " x "], []⟩ = false := by decide
example : matchEmpty ⟨el "p" [el "b" []], []⟩ = false := by decide
-- U+00A0 is not CSS white space
example : matchEmpty ⟨el "p" [.str .text [160]], []⟩ = false := by decide
example : matchEmpty sampleLoc = false := by decide

end C19
end SoupVerif
