/-
  C20 about the function the SOURCE defines: `util.get_pattern_context` translated by gen/gen_py_context.py.

  `Generated/PyContext.lean` is regenerated on every run from the `ast` of `soupsieve/util.py`: the six initialisations
  (`init`), the loop body (`step`, over `Int`s as in Python, with Python's slice and `str * int`), the `return`
  (`result`) and the name of the regular expression the loop runs `finditer` on (`loopRegex`).  Here:

    * `getPatternContextGen env pattern index` = the generated program run over the matches of CPython's `finditer`
      (the engine model of `Refine/Context.lean`, incl. `must_advance`) on the regenerated regular expression;
    * `getPatternContextGen_eq`: for ALL patterns and ALL offsets `index : Nat` it returns the hand model's
      `Context.getPatternContext pattern index` (line and column cast to `Int`) — so every `ctx_*` theorem of
      `Properties/C20.lean` and `C20Parse.diagnostic_of_error` speak about the regenerated function;
      `ctx_line_gen`, `ctx_col_gen`, `ctx_position_gen`, `ctx_text_gen` restate the main ones.

  No guard on `index` is needed: the hand model computes `index - last + 1` in `Nat` (truncated), the source in `Int`;
  they agree because in the two branches that assign `col` we have `last = 0` (first iteration: `text` is empty only then)
  resp. `last ≤ index` (or `index = m.end(0) ≥ last`), which needs `last ≤ m.start(0) ≤ m.end(0)` for every match —
  a property of `finditer` on this regular expression (`chain_ordered`).  For negative `index` (never passed by the
  parser) the hand model says nothing; the generated `step` is defined there too.

  The proofs address the generated state by POSITION (`g.1 … g.5`, anonymous constructors), never by the Python names of
  the locals, so renaming a local in the source keeps them green.
-/
import SoupVerif.Generated.PyContext
import SoupVerif.Properties.C20Rx
namespace SoupVerif
namespace C20Gen
open Context

/-- The generated state (positions 1-5; the 6th, `offset`, is dead at loop entry: every path re-assigns it before it
    is read) agrees with the hand model's loop state. -/
def Rel (g : Gen.PyContext.State) (h : LoopState) : Prop :=
  g.1 = (h.last : Int) ∧ g.2 = (h.currentLine : Int) ∧ g.3 = (h.col : Int) ∧ g.4 = h.text ∧
    g.5 = (h.line : Int)

theorem pySlice_nat (p : Str) (a b : Nat) : PyCtx.pySlice p (a : Int) (b : Int) = slice p a b := by
  have ha : ¬ ((a : Int) < 0) := by omega
  have hb : ¬ ((b : Int) < 0) := by omega
  simp [PyCtx.pySlice, PyCtx.sliceBound, slice, ha, hb]

theorem strMul_space (n : Int) : PyCtx.strMul " ".toStr n = spaces n := by
  show (List.replicate n.toNat [32]).flatten = List.replicate n.toNat 32
  generalize n.toNat = k
  induction k with
  | zero => rfl
  | succ k ih => simp [List.replicate_succ, ih]

theorem step_rel (p : Str) (i : Nat) (g : Gen.PyContext.State) (h : LoopState) (l a b : Nat)
    (hr : Rel g h) (h0 : h.text = [] → h.last = 0) (h1 : h.last ≤ a) (h2 : a ≤ b) :
    Rel (Gen.PyContext.step p i g a b) (Context.step p i h (l, a, b)) := by
  obtain ⟨g1, g2, g3, g4, g5, g6⟩ := g
  obtain ⟨hl, hc, hcol, ht, hline⟩ := h
  simp only [Rel] at hr
  obtain ⟨r1, r2, r3, r4, r5⟩ := hr
  subst r1 r2 r3 r4 r5
  simp only [] at h0 h1
  unfold Gen.PyContext.step Context.step emit
  simp only [pySlice_nat, strMul_space]
  have e1 : (((b - a : Nat) : Int) = 0 ∧ ((g4.length : Nat) : Int) = 0) ↔ (b - a = 0 ∧ g4.length = 0) := by
    omega
  have e2 : ((((hl : Nat) : Int) ≤ (i : Int) ∧ (i : Int) < (b : Int)) ∨ (((b - a : Nat) : Int) = 0 ∧ (i : Int) = (b : Int))) ↔
      (hl ≤ i ∧ i < b ∨ b - a = 0 ∧ i = b) := by omega
  have e3 : ((i : Int) > (a : Int)) ↔ i > a := by omega
  have e4 : (((g4.length : Nat) : Int) ≠ 0) ↔ g4.length ≠ 0 := by omega
  simp only [e1, e2, e3, e4]
  have k1 : "".toStr = ([] : Str) := by decide
  have k2 : "--> ".toStr = arrow := by decide
  have k3 : "    ".toStr = pad := by decide
  have k4 : "^".toStr = caret := by decide
  by_cases c1 : b - a = 0 ∧ g4.length = 0
  · have hl0 : hl = 0 := h0 (List.length_eq_zero_iff.mp c1.2)
    subst hl0
    simp only [if_pos c1, Rel, k1, k4]
    have hcol : ((i : Int) - ((0 : Nat) : Int) + 1) = ((i - 0 + 1 : Nat) : Int) := by omega
    rw [hcol]
    and_intros <;> first | trivial | omega | simp
  · simp only [if_neg c1]
    by_cases c2 : hl ≤ i ∧ i < b ∨ b - a = 0 ∧ i = b
    · simp only [if_pos c2, Rel, k2, k4]
      have hcol : ((i : Int) - (hl : Int) + 1) = ((i - hl + 1 : Nat) : Int) := by omega
      rw [hcol]
      and_intros <;> first | trivial | omega | simp
    · simp only [if_neg c2, Rel, k3]
      and_intros <;> first | trivial | omega | simp

theorem step_last (p : Str) (i : Nat) (h : LoopState) (m : Match) :
    (Context.step p i h m).last = m.2.2 := by
  simp only [Context.step, emit]
  split
  · rfl
  · split <;> rfl

theorem step_text_ne (p : Str) (i : Nat) (h : LoopState) (m : Match) :
    (Context.step p i h m).text ≠ [] := by
  simp only [Context.step, emit]
  split
  · simp
  · split <;> simp

/-- Every match, as the loop sees it, satisfies `last ≤ m.start(0) ≤ m.end(0)`. -/
def Ordered (ms : List Match) : Prop := ∀ m ∈ ms, m.1 ≤ m.2.1 ∧ m.2.1 ≤ m.2.2

theorem chain_ordered {n l : Nat} {ms : List Match} {ends : List Nat} (h : CtxLemmas.Chain n l ms ends) :
    Ordered ms := by
  induction h with
  | last hl =>
    intro m hm
    simp at hm
    subst hm
    exact ⟨hl, Nat.le_refl _⟩
  | cons h1 h2 h3 h4 _ ih =>
    intro m hm
    rcases List.mem_cons.mp hm with rfl | hm
    · exact ⟨h1, Nat.le_of_lt h2⟩
    · exact ih m hm

theorem fold_rel (p : Str) (i : Nat) : ∀ (spans : List (Nat × Nat)) (last : Nat)
    (g : Gen.PyContext.State) (h : LoopState), Rel g h → h.last = last → (h.text = [] → last = 0) →
    Ordered (Refine.Context.withLast last spans) →
    Rel (spans.foldl (fun st m => Gen.PyContext.step p i st m.1 m.2) g)
      ((Refine.Context.withLast last spans).foldl (Context.step p i) h)
  | [], _, g, h, hr, _, _, _ => by simpa [Refine.Context.withLast] using hr
  | (a, b) :: ms, last, g, h, hr, hl, h0, ho => by
    have hm := ho (last, a, b) (by simp [Refine.Context.withLast])
    subst hl
    simp only [Refine.Context.withLast, List.foldl_cons]
    apply fold_rel p i ms b _ _ (step_rel p i g h h.last a b hr h0 hm.1 hm.2)
    · exact step_last ..
    · intro e; exact absurd e (step_text_ne _ _ _ _)
    · intro m hm'; exact ho m (by simp [Refine.Context.withLast, hm'])

/-- **The translated `get_pattern_context`**: the generated initial state, the generated loop body folded
    (fixed frame `PyCtx.forSpans`) over the matches CPython's `finditer` (the engine model with `must_advance`)
    finds for the regenerated regular expression the generated loop names, then the generated `return`. -/
def getPatternContextGen (env : CharEnv) (pattern : Str) (index : Int) : Str × Int × Int :=
  Gen.PyContext.run (Refine.Context.finditer env Gen.PyContext.loopRegex pattern) pattern index

/-- The frame check: the loop of the source iterates over the regular expression the `finditer` refinement
    (`Refine/Context.lean`) is about. -/
theorem loopRegex_eq : Gen.PyContext.loopRegex = Gen.util_RE_PATTERN_LINE_SPLIT := rfl

theorem init_rel : Rel Gen.PyContext.init LoopState.init := by
  simp [Rel, Gen.PyContext.init, LoopState.init]

/-- The generated `return`, by position: `(''.join(<4th local>), <5th local>, <3rd local>)`. -/
theorem result_eq (p : Str) (i : Int) (g : Gen.PyContext.State) :
    Gen.PyContext.result p i g = (g.4.flatten, g.5, g.3) := rfl

/-- **Main theorem.**  For every pattern and every offset `index ≥ 0` (no other guard), the program translated from
    the source computes the hand model's context, line and column. -/
theorem getPatternContextGen_eq (env : CharEnv) (p : Str) (i : Nat) :
    getPatternContextGen env p (i : Int) =
      ((getPatternContext p i).1, ((getPatternContext p i).2.1 : Int), ((getPatternContext p i).2.2 : Int)) := by
  have hs := Refine.Context.splitLines_eq_withLast_finditer env p
  have ho : Ordered (Refine.Context.withLast 0
      (Refine.Context.finditer env Gen.util_RE_PATTERN_LINE_SPLIT p)) := by
    rw [← hs]; exact chain_ordered (CtxLemmas.splitLines_chain p)
  have hr := fold_rel p i _ 0 _ _ init_rel rfl (fun _ => rfl) ho
  rw [← hs] at hr
  obtain ⟨_, _, h3, h4, h5⟩ := hr
  unfold getPatternContextGen Gen.PyContext.run
  rw [result_eq, loopRegex_eq]
  unfold getPatternContext PyCtx.forSpans
  simp only [h3, h4, h5]

/-- The same with the model's `finditer`-based context of `Properties/C20Rx.lean`. -/
theorem getPatternContextGen_eq_rx (env : CharEnv) (p : Str) (i : Nat) :
    getPatternContextGen env p (i : Int) =
      ((C20Rx.getPatternContextRx env p i).1, ((C20Rx.getPatternContextRx env p i).2.1 : Int),
        ((C20Rx.getPatternContextRx env p i).2.2 : Int)) := by
  rw [C20Rx.getPatternContextRx_eq]; exact getPatternContextGen_eq env p i

/-! ### The C20 statements about the translated program -/

/-- line = 1 + number of line breaks (`\n`, `\r\n`, `\r`) that end at or before the offset. -/
theorem ctx_line_gen (env : CharEnv) (p : Str) (i : Nat) (hi : i ≤ p.length) :
    (getPatternContextGen env p i).2.1 = ((1 + Spec.Ctx.breaksBefore p i : Nat) : Int) := by
  rw [getPatternContextGen_eq, ← C20.ctx_line p i hi]

/-- column = offset within that line + 1. -/
theorem ctx_col_gen (env : CharEnv) (p : Str) (i : Nat) (hi : i ≤ p.length) :
    (getPatternContextGen env p i).2.2 = ((i - Spec.Ctx.lineStart p i + 1 : Nat) : Int) := by
  rw [getPatternContextGen_eq, ← C20.ctx_col p i hi]

/-- line start + (column - 1) is the offset (in `Int`, as the program computes it). -/
theorem ctx_position_gen (env : CharEnv) (p : Str) (i : Nat) (hi : i ≤ p.length) :
    (Spec.Ctx.lineStart p i : Int) + ((getPatternContextGen env p i).2.2 - 1) = i ∧ i ≤ p.length := by
  have h := (C20.ctx_position p i hi).1
  have hc := C20.ctx_col_pos p i hi
  rw [getPatternContextGen_eq]
  refine ⟨?_, hi⟩
  show (Spec.Ctx.lineStart p i : Int) + (((getPatternContext p i).2.2 : Int) - 1) = i
  omega

/-- the context reproduces the pattern's lines with the caret under that column. -/
theorem ctx_text_gen (env : CharEnv) (p : Str) (i : Nat) (hi : i ≤ p.length) :
    (getPatternContextGen env p i).1 = Spec.Ctx.expectedContext p i := by
  rw [getPatternContextGen_eq, ← C20.ctx_text p i hi]

example : getPatternContextGen asciiEnv "a,\r\n,b".toStr 4 =
    ("    a,\n--> ,b\n    ^".toStr, 2, 1) := by decide +kernel

end C20Gen
end SoupVerif
