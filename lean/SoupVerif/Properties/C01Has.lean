/-
  C01, `:has()`: the forward reading used by the specification (`Css.satRel`, `Spec/Css.lean`:
  follow the combinators from the anchor) equals the declarative reading of Selectors-4
  (`Css.satRelDeclarative`, `Spec/CssHas.lean`: SOME element of the document matches
  `:scope k X`), on every element that is not the document object, in a tree whose only document
  object is the top.
-/
import SoupVerif.Lemmas.SatHas
namespace SoupVerif
namespace C01Has

/-- The only document object of the tree is its top.
    (Stated here in full; it is `SatHas.DocOnlyTop`, which the helper lemmas use.) -/
def DocOnlyTop (T : Loc) : Prop := ∀ n : Loc, n.top = T → n.isDoc = true → n.up = []

theorem docOnlyTop_iff (T : Loc) : DocOnlyTop T ↔ SatHas.DocOnlyTop T := Iff.rfl

theorem has_forward_eq_declarative (c : Ctx) (l : Loc) (hel : Css.isElem l = true)
    (hdoc : l.isDoc = false) (hT : DocOnlyTop l.top) (r : Css.RelSel) :
    Css.satRel c l r = Css.satRelDeclarative c l r := by
  cases r with
  | mk k x => exact Bool.eq_iff_iff.mpr <|
      SatHas.satRel_iff_declarative c l hel hdoc ((docOnlyTop_iff _).mp hT) k x

end C01Has
end SoupVerif
