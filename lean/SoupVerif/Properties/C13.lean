/-
  C13  `:lang(r1, r2, ...)`: RFC 4647 extended filtering.

  Model  : `Lang.filterLoop`, `Lang.filterCore`, `Lang.extendedFilter` (Model/Lang.lean)
  Spec   : `Spec.extFilterAlg` (RFC 4647 §3.3.2 step by step), `Spec.extFilterDecl`
           (declarative, non-greedy), `Spec.extFilterPos` (explicit positions),
           `Spec.c13Match` (RFC + the property's two edge rules)   (Spec/Rfc4647.lean)

  Where the model is NOT the bare RFC algorithm, the theorem statement says so:
    * `filterCore_eq_rfc`: (a) the model answers `false` for range `*` against the empty tag
      text, the RFC algorithm answers `true`; (b) the lone empty range matches only the empty
      tag text, whereas the bare algorithm accepts every tag whose FIRST subtag is empty
      (`rfc_empty_range`).  Both are edge rules of the property, not of the RFC;
    * `filterLoop_empty_subtag` / `rfcLoop_empty_subtag`: an empty range subtag after the
      first never matches in the model; the bare algorithm would match it against an empty tag
      subtag (RFC 4647 has no empty subtags, so this is outside the RFC's domain).
-/
import SoupVerif.Lemmas.Lang
namespace SoupVerif
namespace C13
open Spec LangLemmas

/-! ### The loop -/

/-- On remaining ranges without `*` and without empty subtags, the model's `while` loop is the
    RFC 4647 §3.3.2 step-3 loop, for every remaining tag. -/
theorem filterLoop_eq_rfc (rs ss : List Str)
    (hstar : ∀ r ∈ rs, r ≠ "*".toStr) (hne : ∀ r ∈ rs, r ≠ []) :
    Lang.filterLoop rs ss = Spec.rfcLoop rs ss := by
  rw [star_toStr] at hstar
  exact filterLoop_eq_rfcLoop ss rs hstar hne

/-- An empty range subtag reached by the loop makes the model fail, whatever the tag. -/
theorem filterLoop_empty_subtag (rs ss : List Str) : Lang.filterLoop ([] :: rs) ss = false :=
  filterLoop_empty_head rs ss

/-- ... whereas the bare RFC loop would match it against an empty tag subtag. -/
theorem rfcLoop_empty_subtag (rs ss : List Str) :
    Spec.rfcLoop ([] :: rs) ([] :: ss) = Spec.rfcLoop rs ss := by
  rw [rfcLoop_cons_cons]; rfl

/-- The model's loop has no `*` case: a `*` range subtag is compared literally. -/
theorem filterLoop_star_literal (rs ss : List Str) :
    Lang.filterLoop ("*".toStr :: rs) ("*".toStr :: ss) = Lang.filterLoop rs ss ∧
    Lang.filterLoop ["*".toStr] ["de".toStr] = false ∧
    Spec.rfcLoop ["*".toStr] ["de".toStr] = true := by
  refine ⟨?_, ?_, by decide⟩
  · rw [filterLoop_cons_cons]; simp [star_toStr, star]
  · rw [filterLoop_cons_cons, filterLoop_cons_nil]; decide

/-! ### The whole decision -/

/-- For a range with no empty subtag and no `*` after its first subtag, the model is the RFC
    algorithm EXCEPT for the property's two edge rules, both visible here:
    the lone empty range matches exactly the empty tag text (the bare algorithm accepts every
    tag whose first subtag is empty, see `rfc_empty_range`), and the range `*` does not match
    the empty tag text (the bare algorithm accepts it, see `rfc_star_matches_empty_text`). -/
theorem filterCore_eq_rfc (r : Str) (rs : List Str) (s : Str) (ss : List Str)
    (hwf : Spec.WellFormedRange (r :: rs)) :
    Lang.filterCore (r :: rs) (s :: ss) =
      if r :: rs == Spec.emptyText then s :: ss == Spec.emptyText
      else (Spec.extFilterAlg (r :: rs) (s :: ss) &&
        !(r :: rs == ["*".toStr] && s :: ss == Spec.emptyText)) := by
  rw [star_toStr]; exact filterCore_eq r rs s ss hwf

/-- Deviation (a) is real: the bare algorithm accepts `*` against the empty tag text. -/
theorem rfc_star_matches_empty_text :
    Spec.extFilterAlg ["*".toStr] Spec.emptyText = true ∧
    Lang.filterCore ["*".toStr] Spec.emptyText = false := by
  refine ⟨by decide, ?_⟩
  rw [emptyText, filterCore_eq_rfc _ _ _ _ (by decide)]; decide

/-- Deviation (b) is real: the bare algorithm lets the empty range match every tag whose first
    subtag is empty (for instance the tag text `-foo`). -/
theorem rfc_empty_range (s : Str) (ss : List Str) :
    Spec.extFilterAlg Spec.emptyText (s :: ss) = (s == []) := by
  cases s <;> simp [extFilterAlg, emptyText, rfcLoop_nil, star]

/-- Edge rule 1: the empty range matches the empty tag text and nothing else — for EVERY tag
    subtag list, well-formed or not. -/
theorem empty_range_only_empty_tag (t : List Str) :
    Lang.filterCore [[]] t = true ↔ t = [[]] := by
  rw [filterCore_eq_c13Match [[]] t (by decide)]
  simp [c13Match, stripWild, emptyText]

/-- Edge rule 2: `*` alone matches exactly the tags whose text is non-empty. -/
theorem star_range_nonempty_tag (s : Str) (ss : List Str) :
    Lang.filterCore [[42]] (s :: ss) = true ↔ ¬ (ss = [] ∧ s = []) := by
  rw [filterCore_eq_c13Match [[42]] (s :: ss) (by decide)]
  cases s <;> cases ss <;> simp [c13Match, stripWild, emptyText, star]

/-- Model = RFC algorithm + the two edge rules of C13, for well-formed ranges and ALL tags. -/
theorem filterCore_eq_c13 (range tag : List Str) (hr : Spec.WellFormedRange range) :
    Lang.filterCore range tag = Spec.c13Match range tag :=
  filterCore_eq_c13Match range tag hr

/-! ### Wildcards inside the range -/

/-- The RFC algorithm is invariant under deleting the non-initial `*` subtags of the range. -/
theorem rfc_star_skip (r : Str) (rs t : List Str) :
    Spec.extFilterAlg (r :: rs) t =
      Spec.extFilterAlg (r :: rs.filter (· ≠ "*".toStr)) t := by
  rw [star_toStr, filter_bne_eq_filter_ne]
  exact (extFilterAlg_stripWild (r :: rs) t).symm

theorem rfc_stripWild (range t : List Str) :
    Spec.extFilterAlg (Spec.stripWild range) t = Spec.extFilterAlg range t :=
  extFilterAlg_stripWild range t

/-- A trailing `*` is redundant. -/
theorem trailing_wildcard_redundant (rs t : List Str) (hne : rs ≠ []) :
    Spec.extFilterAlg (rs ++ ["*".toStr]) t = Spec.extFilterAlg rs t := by
  cases rs with
  | nil => exact absurd rfl hne
  | cons r rs =>
    cases t with
    | nil => rfl
    | cons t ts =>
      simp only [List.cons_append, extFilterAlg, star_toStr, rfcLoop_append_star]

/-- Model ∘ stripWild = RFC algorithm on ARBITRARY ranges (interior `*` allowed; subtags after
    the first non-empty), up to the two edge rules. -/
theorem filterCore_stripWild_eq_rfc (r : Str) (rs : List Str) (s : Str) (ss : List Str)
    (hne : ∀ x ∈ rs, x ≠ []) :
    Lang.filterCore (Spec.stripWild (r :: rs)) (s :: ss) =
      if Spec.stripWild (r :: rs) == Spec.emptyText then s :: ss == Spec.emptyText
      else (Spec.extFilterAlg (r :: rs) (s :: ss) &&
        !(Spec.stripWild (r :: rs) == ["*".toStr] && s :: ss == Spec.emptyText)) := by
  rw [star_toStr]; exact filterCore_stripWild_eq r rs s ss hne

theorem filterCore_stripWild_eq_c13 (range tag : List Str)
    (hne : range ≠ []) (htl : ∀ x ∈ range.tail, x ≠ []) :
    Lang.filterCore (Spec.stripWild range) tag = Spec.c13Match range tag :=
  filterCore_stripWild_eq_c13Match range tag hne htl

/-- End to end, for any `wildStrip` whose effect on this range text is `stripWild` on its
    subtags: `extended_language_filter` is C13 matching on the lower-cased subtag lists. -/
theorem extendedFilter_eq_c13 (w : Str → Str) (range tag : Str)
    (hw : splitOn 45 (w range) = Spec.stripWild (splitOn 45 range))
    (hne : ∀ x ∈ (splitOn 45 range).tail, x ≠ []) :
    Lang.extendedFilter w range tag =
      Spec.c13Match ((splitOn 45 range).map lower) ((splitOn 45 tag).map lower) :=
  extendedFilter_eq_c13Match w range tag hw hne

/-! ### Greedy matching is complete -/

/-- The greedy RFC algorithm succeeds iff SOME admissible assignment of range subtags to tag
    positions exists (soundness and completeness), for all ranges and tags. -/
theorem rfc_alg_eq_decl (rs ts : List Str) :
    Spec.extFilterAlg rs ts = true ↔ Spec.extFilterDecl rs ts :=
  extFilterAlg_iff_decl rs ts

/-- The inductive characterisation is the one with explicit skip counts / positions. -/
theorem rfc_decl_eq_pos (rs ts : List Str) :
    Spec.extFilterDecl rs ts ↔ Spec.extFilterPos rs ts :=
  extFilterDecl_iff_pos rs ts

theorem embeds_eq_positions (rs ts : List Str) :
    Spec.Embeds rs ts ↔ ∃ ps, Spec.EmbedsAt rs ts ps :=
  embeds_iff_embedsAt rs ts

/-- The exchange step behind completeness: any embedding of `r :: rs` into `r :: ts` can be
    replaced by one that matches `r` at the first position. -/
theorem greedy_exchange (r : Str) (rs ts : List Str) :
    Spec.Embeds (r :: rs) (r :: ts) ↔ Spec.Embeds rs ts :=
  ⟨Embeds.cons_same, Embeds.here r rs ts⟩

/-! ### Case-insensitivity -/

/-- `extended_language_filter` compares after lower-casing both sides. -/
theorem extendedFilter_lowered (w : Str → Str) (range tag : Str) :
    Lang.extendedFilter w range tag =
      Lang.filterCore ((splitOn 45 (w range)).map lower) ((splitOn 45 tag).map lower) := by
  unfold Lang.extendedFilter; rw [splitOn_lower, splitOn_lower]

/-- Changing the ASCII case of range or tag does not change the result, provided the wildcard
    strip is itself case-blind up to `lower` (hypothesis `hw`). -/
theorem filter_case_insensitive (w : Str → Str)
    (hw : ∀ s, lower (w s) = lower (w (lower s)))
    (r r' t t' : Str) (hr : lower r = lower r') (ht : lower t = lower t') :
    Lang.extendedFilter w r t = Lang.extendedFilter w r' t' := by
  unfold Lang.extendedFilter
  rw [hw r, hr, ← hw r', ht]

/-- In particular against the lower-cased inputs. -/
theorem filter_lower_invariant (w : Str → Str)
    (hw : ∀ s, lower (w s) = lower (w (lower s))) (r t : Str) :
    Lang.extendedFilter w (lower r) (lower t) = Lang.extendedFilter w r t :=
  filter_case_insensitive w hw _ _ _ _ (lower_idem r) (lower_idem t)

/-- `hw` holds for every strip that commutes with `lower` (as one that only looks at `-` and
    `*` does). -/
theorem hw_of_commutes (w : Str → Str) (h : ∀ s, w (lower s) = lower (w s)) :
    ∀ s, lower (w s) = lower (w (lower s)) := by
  intro s; rw [h, lower_idem]

/-- Case-insensitivity from the subtag-level behaviour of the strip alone: any `w` that acts as
    `stripWild` on subtags gives a case-insensitive filter. -/
theorem filter_case_insensitive_of_strip (w : Str → Str)
    (hw : ∀ s, splitOn 45 (w s) = Spec.stripWild (splitOn 45 s))
    (r r' t t' : Str) (hr : lower r = lower r') (ht : lower t = lower t') :
    Lang.extendedFilter w r t = Lang.extendedFilter w r' t' := by
  have key : ∀ a b, Lang.extendedFilter w a b =
      Lang.filterCore (Spec.stripWild (splitOn 45 (lower a))) (splitOn 45 (lower b)) := by
    intro a b
    rw [extendedFilter_lowered, hw, ← stripWild_map_lower, ← splitOn_lower, ← splitOn_lower]
  rw [key, key, hr, ht]

/-! ### The text-level strip -/

/-- The hand-written text-level reading of `RE_WILD_STRIP.sub('-', RE_WILD_TAIL.sub('', s))`
    (with `$` = end of text) is `stripWild` on the subtags, for every text `s`. -/
theorem wildStripText_subtags (s : Str) :
    splitOn 45 (wildStripText s) = Spec.stripWild (splitOn 45 s) :=
  splitOn_wildStripText s

/-- End to end with the text-level strip: every range text whose subtags after the first are
    non-empty, every tag text. -/
theorem extendedFilter_wildStripText_eq_c13 (range tag : Str)
    (hne : ∀ x ∈ (splitOn 45 range).tail, x ≠ []) :
    Lang.extendedFilter wildStripText range tag =
      Spec.c13Match ((splitOn 45 range).map lower) ((splitOn 45 tag).map lower) :=
  extendedFilter_eq_c13Match wildStripText range tag (splitOn_wildStripText range) hne

theorem wildStripText_case_insensitive (r r' t t' : Str)
    (hr : lower r = lower r') (ht : lower t = lower t') :
    Lang.extendedFilter wildStripText r t = Lang.extendedFilter wildStripText r' t' :=
  filter_case_insensitive_of_strip wildStripText splitOn_wildStripText r r' t t' hr ht

/-! ### Non-vacuity -/

section Examples
/-- Subtag lists from literals. -/
private def S (l : List String) : List Str := l.map String.toStr

-- RFC algorithm
example : extFilterAlg (S ["de", "*", "de"]) (S ["de", "latn", "de"]) = true := by decide
example : extFilterAlg (S ["de", "*", "de"]) (S ["de", "x", "de"]) = false := by decide
-- an implicit wildcard skips the non-singleton `deva` ...
example : extFilterAlg (S ["de", "de"]) (S ["de", "deva", "de"]) = true := by decide
-- ... but not the singleton `x`
example : extFilterAlg (S ["de", "de"]) (S ["de", "x", "de"]) = false := by decide
example : extFilterAlg (S ["*", "de"]) (S ["fr", "de"]) = true := by decide
example : extFilterAlg (S ["*", "de"]) (S ["x", "a", "de"]) = false := by decide
example : extFilterAlg (S ["*", "de"]) (S ["de"]) = false := by decide
example : extFilterAlg (S ["de", "*"]) (S ["de"]) = true := by decide
example : extFilterAlg (S ["de", "de", "ch"]) (S ["de", "de", "latn", "de", "ch"]) = true := by
  decide
-- bare RFC vs the property's edge rules
example : extFilterAlg (S ["*"]) (S [""]) = true := by decide
example : c13Match (S ["*"]) (S [""]) = false := by decide
example : c13Match (S ["*"]) (S ["de"]) = true := by decide
example : c13Match (S [""]) (S [""]) = true := by decide
example : c13Match (S [""]) (S ["de"]) = false := by decide
example : c13Match (S ["de", "*", "de"]) (S ["de", "latn", "de"]) = true := by decide
-- declarative and positional forms are inhabited / refuted on the same inputs
example : extFilterDecl (S ["de", "*", "de"]) (S ["de", "latn", "de"]) := by decide
example : ¬ extFilterDecl (S ["de", "*", "de"]) (S ["de", "x", "de"]) := by decide
example : extFilterPos (S ["de", "*", "de"]) (S ["de", "latn", "de"]) :=
  ⟨Or.inr rfl, [1], by decide⟩
-- a non-greedy embedding exists where greedy takes another one
example : Embeds (S ["de", "ch"]) (S ["de", "latn", "de", "ch"]) := by decide
-- hypotheses are satisfiable
example : WellFormedRange (S ["de", "latn", "de"]) := by decide
example : WellFormedRange (S ["*", "de"]) := by decide
example : ¬ WellFormedRange (S ["de", "*", "de"]) := by decide
-- the model (through the theorems; `filterLoop` is by well-founded recursion)
example : Lang.filterCore (stripWild (S ["de", "*", "de"])) (S ["de", "latn", "de"]) = true := by
  simp only [S, List.map_cons, List.map_nil]
  rw [filterCore_stripWild_eq_rfc _ _ _ _ (by decide)]; decide
example : Lang.filterCore (stripWild (S ["de", "*", "de"])) (S ["de", "x", "de"]) = false := by
  simp only [S, List.map_cons, List.map_nil]
  rw [filterCore_stripWild_eq_rfc _ _ _ _ (by decide)]; decide
example : Lang.filterCore (S ["*"]) (S [""]) = false := by
  simp only [S, List.map_cons, List.map_nil]
  rw [filterCore_eq_rfc _ _ _ _ (by decide)]; decide
example : Lang.filterCore (S [""]) (S [""]) = true := (empty_range_only_empty_tag _).2 rfl
-- the empty range does not match the (ill-formed) tag text `-foo`; the bare algorithm does
example : Lang.filterCore (S [""]) (S ["", "foo"]) = false := by
  rw [← Bool.not_eq_true]
  exact fun h => absurd ((empty_range_only_empty_tag _).1 h) (by decide)
example : extFilterAlg (S [""]) (S ["", "foo"]) = true := by decide
-- an empty interior range subtag: model `false`, bare algorithm `true`
example : extFilterAlg (S ["a", "", "b"]) (S ["a", "", "b"]) = true := by decide
example : Lang.filterCore (S ["a", "", "b"]) (S ["a", "", "b"]) = false := by
  simp [S, Lang.filterCore, String.toStr, filterLoop_cons_cons]
-- case-insensitivity hypothesis is satisfiable
example : ∀ s, lower (id s) = lower (id (lower s)) := fun s => (lower_idem s).symm
-- the text-level strip against the regex model (same expression as the driver's `wildStripImpl`)
example : wildStripRx "de-*-*-DE-*-*".toStr = "de-DE".toStr := by decide
example : wildStripText "de-*-*-DE-*-*".toStr = "de-DE".toStr := by decide
example : wildStripRx "*-*-de".toStr = "*-de".toStr := by decide
example : wildStripRx "*-*".toStr = "*".toStr := by decide
set_option maxRecDepth 100000 in
example : ∀ s ∈ allStrings [45, 42, 97] 4, wildStripText s = wildStripRx s := by decide
set_option maxRecDepth 100000 in
example : ∀ s ∈ allStrings [45, 42] 6, wildStripText s = wildStripRx s := by decide
-- the regexes anchor with `\Z` (they used `$`, which also matches before a final newline, so on
-- `de-*\n` they did not act as `stripWild`; repaired in /repo): now they agree there too
example : wildStripRx ("de-*".toStr ++ [10]) = "de-*".toStr ++ [10] := by decide
example : splitOn 45 (wildStripRx ("de-*".toStr ++ [10])) =
    stripWild (splitOn 45 ("de-*".toStr ++ [10])) := by decide
set_option maxRecDepth 100000 in
example : ∀ s ∈ allStrings [45, 42, 10] 5, wildStripText s = wildStripRx s := by decide
example : wildStripText ("de-*".toStr ++ [10]) = "de-*".toStr ++ [10] := by decide
-- end to end on texts, through `extendedFilter_wildStripText_eq_c13`
example : Lang.extendedFilter wildStripText "de-*-DE".toStr "de-Latn-DE".toStr = true := by
  rw [extendedFilter_wildStripText_eq_c13 _ _ (by decide)]; decide
example : Lang.extendedFilter wildStripText "DE-*-de".toStr "de-x-DE".toStr = false := by
  rw [extendedFilter_wildStripText_eq_c13 _ _ (by decide)]; decide
example : Lang.extendedFilter wildStripText "de-DE".toStr "de-Deva-DE".toStr = true := by
  rw [extendedFilter_wildStripText_eq_c13 _ _ (by decide)]; decide
example : Lang.extendedFilter wildStripText "*".toStr "".toStr = false := by
  rw [extendedFilter_wildStripText_eq_c13 _ _ (by decide)]; decide
example : Lang.extendedFilter wildStripText "*-*".toStr "fr".toStr = true := by
  rw [extendedFilter_wildStripText_eq_c13 _ _ (by decide)]; decide
example : Lang.extendedFilter wildStripText "".toStr "".toStr = true := by
  rw [extendedFilter_wildStripText_eq_c13 _ _ (by decide)]; decide
example : Lang.extendedFilter wildStripText "".toStr "-foo".toStr = false := by
  rw [extendedFilter_wildStripText_eq_c13 _ _ (by decide)]; decide
end Examples

end C13
end SoupVerif
