/-
  C15  Compiled selectors are immutable values; the pattern cache is transparent.

  Data   : `Generated/Classes.lean` (gen/gen_classes.py): per `Immutable` subclass the slots,
           constructor keywords, who defines which dunder and WHAT the dunder does (AST shape,
           `unknown` when the shape is not the expected one), `_pickle`, the `lru_cache`
           decoration of `_cached_css_compile`, the branches of `soupsieve.compile`, the
           `ImmutableDict` family.
  Model  : `Model/Cache.lean`: object protocol driven by `ClassInfo`; the LRU machine; the
           `compile` wrapper driven by the generated guard list.
  Lemmas : `Lemmas/Cache.lean`.

  Reading guide.  Theorems named `*_data` (and `frozen`, `eq_all_slots`, `cache_key_complete`,
  `no_public_mutators`) are `decide`d facts about the REGENERATED data: they are what breaks when
  the source changes (remove `__delattr__`, drop a slot from `__eq__`, hash `type(v)` again, key
  the cache on fewer arguments, ...).  The other theorems are about the model, for every class
  info satisfying those facts, and are instantiated with the generated classes at the end.

  Not proved here (trusted, exercised by the correspondence harness): CPython's `lru_cache` is
  the LRU machine of the model; `copy`/`deepcopy`/`pickle` go through `copyreg.dispatch_table`;
  `object.__setattr__` can bypass `Immutable.__setattr__` (outside the public protocol).
  `ImmutableDict` instances have a `__dict__` and no `__setattr__` guard: `ns._d = {}` is possible
  through the PRIVATE name; the public Mapping API has no mutator (`no_public_mutators`).
-/
import SoupVerif.Lemmas.Cache
namespace SoupVerif
namespace C15
open Cache CacheLemmas Gen.Classes

/-! ## 1. Immutability -/

/-- Every `Immutable` subclass (the IR classes and `SoupSieve`) refuses attribute assignment AND
    attribute deletion.  (On the tree before commit f6343c9 `__delattr__` was missing: the
    generated `delattrKind` is then `.inherited` and this `decide` fails.) -/
theorem frozen : ∀ c ∈ irClasses,
    c.setattrKind = .raisesAttributeError ∧ c.delattrKind = .raisesAttributeError := by decide

/-- The guards are the ones of `Immutable`: no subclass overrides a dunder, `__base__` returns the
    class itself, and no IR class is subclassed (so `isinstance(other, self.__base__())` is
    "same class"). -/
theorem no_override_data : ∀ c ∈ irClasses,
    c.setattrDef = some "Immutable" ∧ c.delattrDef = some "Immutable" ∧ c.eqDef = some "Immutable" ∧
    c.neDef = some "Immutable" ∧ c.hashDef = some "Immutable" ∧ c.baseDef = some "Immutable" ∧
    c.initHashDef = some "Immutable" ∧ c.baseKind = .returnsCls ∧ c.subclasses = 0 := by decide

/-- No sequence of public operations changes any slot of an object whose class freezes
    `__setattr__` and `__delattr__`. -/
theorem ops_preserve {V : Type} (vo : ValOps V) (c : ClassInfo)
    (hfrozen : c.setattrKind = .raisesAttributeError ∧ c.delattrKind = .raisesAttributeError) :
    ∀ (ops : List (ObjOp V)) (o : Obj V), (run vo c ops o).slots = o.slots := by
  intro ops o
  rw [run_frozen vo c hfrozen.1 hfrozen.2 ops o]

/-- ... in particular for every generated class. -/
theorem ops_preserve_ir {V : Type} (vo : ValOps V) :
    ∀ c ∈ irClasses, ∀ (ops : List (ObjOp V)) (o : Obj V), run vo c ops o = o :=
  fun c hc ops o => run_frozen vo c (frozen c hc).1 (frozen c hc).2 ops o

/-- What the caller of `o.x = v` / `del o.x` observes on a frozen class. -/
theorem setattr_raises {V : Type} (vo : ValOps V) :
    ∀ c ∈ irClasses, ∀ (o : Obj V) (n : String) (v : V),
      applyOp vo c o (.setattr n v) = (o, .attributeError) ∧
      applyOp vo c o (.delattr n) = (o, .attributeError) := by
  intro c hc o n v
  simp [applyOp, (frozen c hc).1, (frozen c hc).2]

/-! ## 2. Equality and hash -/

/-- `__eq__` compares every slot but `_hash`, `__ne__` is its negation, `__hash__` returns the
    stored hash, and the stored hash is computed over the VALUES of exactly the constructor
    keywords.  (With `type(v)` in the hash -- the tree before commit 73c76da -- the generated kind
    is `.tupleOfTypeAndValueOverKwargs` and this `decide` fails; see `old_hash_inconsistent`.) -/
theorem eq_all_slots : ∀ c ∈ irClasses,
    c.eqKind = .allSlotsButHash ∧ c.hashKind = .returnsStoredHash ∧
    c.initHashKind = .tupleOfValuesOverKwargs := by decide

theorem ne_negates_eq_data : ∀ c ∈ irClasses, c.neKind = .negatedAllSlotsButHash := by decide

/-- The constructor keywords are exactly the slots `__eq__` ranges over, bound positionally. -/
theorem wf_data : ∀ c ∈ irClasses, WF c := by decide

/-- `Immutable.__eq__`, in the model: same class and all slots but `_hash` pairwise `==`. -/
theorem eq_iff_slots {V : Type} (vo : ValOps V) (c : ClassInfo) (self other : Obj V) :
    eqObj vo c self other = true ↔
      other.cls = self.cls ∧
      ∀ k ∈ c.slots, k ≠ "_hash" →
        ∃ x y, getattr other k = some x ∧ getattr self k = some y ∧ vo.eq x y = true :=
  eqObj_iff vo c self other

/-- Equal objects have equal hashes: for two instances built by the constructor of a generated
    class, `a == b → hash(a) == hash(b)` -- provided the slot values themselves obey Python's hash
    contract (`vo.Lawful.hash_eq`). No restriction on the types of the slot values. -/
theorem hash_congr {V : Type} (vo : ValOps V) (hv : vo.Lawful) :
    ∀ c ∈ irClasses, ∀ (xs ys : List V),
      xs.length = c.initParams.length → ys.length = c.initParams.length →
      (applyOp vo c (construct vo c xs) (.eq (construct vo c ys))).2 = .bool true →
      (applyOp vo c (construct vo c xs) .hash).2 = (applyOp vo c (construct vo c ys) .hash).2 := by
  intro c hc xs ys hx hy he
  have hk := eq_all_slots c hc
  have hw := wf_data c hc
  simp only [applyOp, hk.1, if_true, Outcome.bool.injEq] at he
  have := hash_congr_construct vo hv hw hk.2.2 xs ys hx hy he
  simp only [applyOp, hk.2.1, if_true, this]
  cases getattr (construct vo c ys) "_hash" <;> rfl

/-- Structurally equal model objects trivially have equal hashes (the statement `a = b → hash a =
    hash b` of the plan); the content is in `hash_congr`, where `==` is Python's. -/
theorem hash_congr_structural {V : Type} (vo : ValOps V) (c : ClassInfo) (a b : Obj V) (h : a = b) :
    (applyOp vo c a .hash).2 = (applyOp vo c b .hash).2 := by rw [h]

/-- On constructed objects equality is pairwise equality of the (normalised) constructor values. -/
theorem eq_iff_values {V : Type} (vo : ValOps V) :
    ∀ c ∈ irClasses, ∀ (xs ys : List V),
      xs.length = c.initParams.length → ys.length = c.initParams.length →
      (eqObj vo c (construct vo c xs) (construct vo c ys) = true ↔
        ∀ i (h₁ : i < (normArgs vo c ys).length) (h₂ : i < (normArgs vo c xs).length),
          vo.eq (normArgs vo c ys)[i] (normArgs vo c xs)[i] = true) :=
  fun c hc xs ys hx hy => eqObj_construct_iff vo (wf_data c hc) xs ys hx hy

/-! ### compiled selectors are equal exactly when their keys are -/

/-- What `_cached_css_compile(pattern, namespaces, custom, flags)` returns, following the
    generated positional argument list of its `cm.SoupSieve(...)` call (`<expr>` = the parsed
    selector list). -/
def compiledArgs {V : Type} (sel : V) (k : Key V) : List V :=
  cacheSoupSieveArgExprs.map fun e =>
    if e = "pattern" then k.pattern else if e = "namespaces" then k.namespaces
    else if e = "custom" then k.custom else if e = "flags" then k.flags else sel

def compiledObj {V : Type} (vo : ValOps V) (parse : Key V → V) (k : Key V) : Obj V :=
  construct vo cls_SoupSieve (compiledArgs (parse k) k)

/-- The `SoupSieve(...)` call passes each cache parameter in the position of the constructor
    parameter of the same name, and the parser's result as `selectors`. -/
theorem soupsieve_call_data :
    cls_SoupSieve ∈ irClasses ∧
    cacheSoupSieveArgExprs = cls_SoupSieve.initParams.map (fun p => if p = "selectors" then "<expr>" else p) ∧
    cacheBodySimple = true := by decide

/-- Python `==` of two keys, argument by argument (`other` first, as `__eq__` evaluates it). -/
def keyEq {V : Type} (vo : ValOps V) (other self : Key V) : Prop :=
  vo.eq other.pattern self.pattern = true ∧ vo.eq other.namespaces self.namespaces = true ∧
  vo.eq other.custom self.custom = true ∧ vo.eq other.flags self.flags = true

/-- Two compiled selectors are equal exactly when they were compiled from equal
    (pattern, namespaces, custom, flags) -- given that parsing equal keys gives equal selector
    lists (`hparse`, the parser is a function of the key up to `==`). -/
theorem compiled_eq_iff_key {V : Type} (vo : ValOps V) (parse : Key V → V)
    (hparse : ∀ k₁ k₂, keyEq vo k₂ k₁ → vo.eq (parse k₂) (parse k₁) = true) (k₁ k₂ : Key V) :
    eqObj vo cls_SoupSieve (compiledObj vo parse k₁) (compiledObj vo parse k₂) = true ↔
      keyEq vo k₂ k₁ := by
  have hw : WF cls_SoupSieve := wf_data _ soupsieve_call_data.1
  unfold compiledObj
  rw [eqObj_construct_iff vo hw _ _ (by rfl) (by rfl)]
  have e : ∀ k : Key V, normArgs vo cls_SoupSieve (compiledArgs (parse k) k) =
      [k.pattern, parse k, k.namespaces, k.custom, k.flags] := fun _ => rfl
  rw [e k₁, e k₂]
  constructor
  · intro h
    exact ⟨h 0 (by simp) (by simp), h 2 (by simp) (by simp), h 3 (by simp) (by simp),
      h 4 (by simp) (by simp)⟩
  · intro h i h₁ h₂
    have hi : i < 5 := by simpa using h₁
    match i, hi with
    | 0, _ => exact h.1
    | 1, _ => exact hparse k₁ k₂ h
    | 2, _ => exact h.2.1
    | 3, _ => exact h.2.2.1
    | 4, _ => exact h.2.2.2

/-- ... and then their hashes agree. -/
theorem compiled_hash_congr {V : Type} (vo : ValOps V) (hv : vo.Lawful) (parse : Key V → V)
    (hparse : ∀ k₁ k₂, keyEq vo k₂ k₁ → vo.eq (parse k₂) (parse k₁) = true) (k₁ k₂ : Key V)
    (h : keyEq vo k₂ k₁) :
    getattr (compiledObj vo parse k₁) "_hash" = getattr (compiledObj vo parse k₂) "_hash" :=
  hash_congr_construct vo hv (wf_data _ soupsieve_call_data.1) (eq_all_slots _ soupsieve_call_data.1).2.2
    _ _ (by rfl) (by rfl) ((compiled_eq_iff_key vo parse hparse k₁ k₂).mpr h)

/-! ## 3. Pickling, copy, deepcopy -/

/-- `_pickle` returns `(p.__base__(), tuple(getattr(p, s) for s in p.__slots__[:-1]))`, every
    class is registered with it, `_hash` is the last slot and the remaining slots are the
    constructor's positional parameters IN ORDER, so `cls(*state)` is well-formed. -/
theorem pickle_roundtrip_data :
    pickleKind = .baseAndSlotsButLast ∧ registerKind = .copyregPickleWithPickle ∧
    (∀ c ∈ irClasses, c.registered = true) ∧ registeredNames = irClasses.map (·.name) ∧
    ∀ c ∈ registered, c.hashIsLastSlot = true ∧ c.slotsButLast = c.initParams ∧
      c.superKwargs = c.initParams ∧ c.initShapeOk = true ∧ ∀ k ∈ c.kwargs, k.expr ≠ .unknown := by
  decide

/-- `construct (reduce o) = o`: rebuilding from the pickled state gives back the object, for every
    object made by the constructor of a generated class. -/
theorem pickle_roundtrip {V : Type} (vo : ValOps V) (hv : vo.Lawful) :
    ∀ c ∈ irClasses, ∀ (args : List V), args.length = c.initParams.length →
      ∃ st, reduce c (construct vo c args) = some (c.name, st) ∧
        construct vo c st = construct vo c args := by
  intro c hc args hl
  exact ⟨normArgs vo c args, reduce_construct vo (wf_data c hc) args hl,
    construct_normArgs vo hv (wf_data c hc) args hl⟩

/-- `copy.copy(o)` and `copy.deepcopy(o)` leave `o` alone and return an object with the same
    slots (hence `==` to `o` with the same hash, and selecting the same elements: the matcher
    reads nothing but the slots). -/
theorem copy_equal {V : Type} (vo : ValOps V) (hv : vo.Lawful) :
    ∀ c ∈ irClasses, ∀ (args : List V), args.length = c.initParams.length →
      applyOp vo c (construct vo c args) .copy = (construct vo c args, .object (construct vo c args)) ∧
      applyOp vo c (construct vo c args) .deepcopy = (construct vo c args, .object (construct vo c args)) := by
  intro c hc args hl
  have hr := rebuild_construct vo hv (wf_data c hc) args hl
  have hreg := pickle_roundtrip_data.2.2.1 c hc
  have hp := pickle_roundtrip_data.1
  simp [applyOp, hr, hreg, hp]

/-- A copy compares equal under Python's `==` as soon as `==` is reflexive on the slot values. -/
theorem copy_pyEq {V : Type} (vo : ValOps V) (hrefl : ∀ v, vo.eq v v = true) :
    ∀ c ∈ irClasses, ∀ (args : List V), args.length = c.initParams.length →
      eqObj vo c (construct vo c args) (construct vo c args) = true :=
  fun c hc args hl => eqObj_refl_construct vo hrefl (wf_data c hc) args hl

/-! ## 4. `ImmutableDict`, `Namespaces`, `CustomSelectors` -/

/-- No class of the family defines or inherits a mutating method of the Mapping API, the only
    method that stores into `self` is `ImmutableDict.__init__`, which copies its argument; `==`
    comes from `collections.abc.Mapping` (order-independent), `__hash__` from `ImmutableDict`, and
    `_hash` is computed over the SORTED items. -/
theorem no_public_mutators :
    (∀ d ∈ dictClasses, d.liveMutators = [] ∧ (∀ m ∈ d.methods, m ∉ mutatorNames) ∧
      d.eqDef = some "Mapping" ∧ d.hashDef = some "ImmutableDict") ∧
    dictSelfWriters = ["ImmutableDict.__init__"] ∧ dictCopiesArg = true ∧
    dictSubclassInitsForward = true ∧ dictHashKind = .sortedItems ∧
    "__setitem__" ∈ mutatorNames ∧ "__delitem__" ∈ mutatorNames := by decide

/-- The map classes are pickled / copied through their constructor (`__reduce__` on the base, inherited
    unchanged; no other pickle or copy hook), so `_hash` is never carried across processes. -/
theorem dict_pickle_via_ctor : dictReduceViaCtor = true := by decide

/-- What that buys: whatever tuple / item hash functions the LOADING process has (`th'`, `ih'` — string hashes
    are randomised per process), the object rebuilt there from the pickled items has the hash of every map
    that is `==` to it there. -/
theorem dict_unpickle_hash_fresh (th' : List Nat → Nat) (ih' : Nat × Nat → Nat) (pickled fresh : Items)
    (h₁ : (pickled.map Prod.fst).Nodup) (h : dictEq pickled fresh = true) :
    dictHash dictHashKind th' ih' pickled = dictHash dictHashKind th' ih' fresh :=
  dictHash_perm _ th' ih' pickled fresh (perm_of_dictEq pickled fresh h₁ h)

/-- Keys that differ only in map ordering: two maps that are `==` (as `Mapping`s) have the same
    hash, whatever the tuple hash and item hash are. -/
theorem dict_hash_order_independent (th : List Nat → Nat) (ih : Nat × Nat → Nat) (m₁ m₂ : Items)
    (h₁ : (m₁.map Prod.fst).Nodup) (h : dictEq m₁ m₂ = true) :
    dictHash dictHashKind th ih m₁ = dictHash dictHashKind th ih m₂ ∧
    (dictHash dictHashKind th ih m₁).isSome = true :=
  ⟨dictHash_perm _ th ih m₁ m₂ (perm_of_dictEq m₁ m₂ h₁ h), by
    rw [no_public_mutators.2.2.2.2.1]; rfl⟩

/-! ## 5. The cache -/

/-- The cache is keyed on all four arguments, all four reach `SoupSieve(...)`, and the three the
    parser depends on reach `CSSParser(...)` (a cache keyed on fewer arguments than the result
    depends on makes this false). -/
theorem cache_key_complete :
    cacheParams = ["pattern", "namespaces", "custom", "flags"] ∧ cacheParamsPlain = true ∧
    (∀ p ∈ cacheParams, p ∈ cacheSoupSieveArgs) ∧
    (∀ p ∈ ["pattern", "custom", "flags"], p ∈ cacheParserArgs) ∧
    (∀ p ∈ cacheSoupSieveArgs ++ cacheParserArgs, p ∈ cacheParams) := by decide

/-- The function is wrapped by `functools.lru_cache` with a finite `maxsize` and `typed=False`;
    its body reads no global state besides the callables it calls; `purge()` calls
    `_purge_cache()`, which calls `cache_clear()` on it. -/
theorem cache_decl_data :
    cacheDecorators = ["lru_cache"] ∧ cacheDecoratorOrigin = "functools.lru_cache" ∧
    cacheIsLruWrapper = true ∧ cacheMaxsize.isSome = true ∧ cacheTyped = some false ∧
    cacheBodyGlobals = ["process_custom", "cm", "CSSParser"] ∧
    purgeKind = .callsCacheClear ∧ purgeApiKind = .callsPurgeCache := by decide

section LRU
variable {K E W : Type} [DecidableEq K] (N : Nat) (parse : K → Except E W)

/-- Transparency: whatever calls and purges came before, `compile k` returns `parse k` (the value
    or the exception of a fresh parse). -/
theorem cache_transparent (ops : List (CacheOp K)) (k : K) :
    (compile N parse (runOps N parse ops) k).2 = parse k :=
  compile_result N parse _ k (inv_runOps N parse ops)

/-- Every stored pair is a key with its parse. -/
theorem cache_sound (ops : List (CacheOp K)) :
    ∀ p ∈ (runOps N parse ops).entries, parse p.1 = .ok p.2 :=
  (inv_runOps N parse ops).sound

/-- The cache never holds more than its bound (also for `N = 0`: nothing is ever stored). -/
theorem cache_bounded (ops : List (CacheOp K)) : (runOps N parse ops).entries.length ≤ N :=
  (inv_runOps N parse ops).bounded

theorem cache_nodup_keys (ops : List (CacheOp K)) :
    ((runOps N parse ops).entries.map Prod.fst).Nodup :=
  (inv_runOps N parse ops).nodup

/-- `cache_info().currsize` is the number of entries. -/
theorem cache_info_consistent (ops : List (CacheOp K)) :
    (runOps N parse ops).currsize = (runOps N parse ops).entries.length :=
  (inv_runOps N parse ops).size

/-- `purge()` empties the cache and resets the counters. -/
theorem purge_empties (ops : List (CacheOp K)) :
    runOps N parse (ops ++ [.purge]) = State.empty := by
  simp [runOps, runFrom, List.foldl_append, step, purge]

/-- calls since the last purge -/
def callsSincePurge : List (CacheOp K) → Nat :=
  List.foldl (fun n op => match op with | .compile _ => n + 1 | .purge => 0) 0

/-- `hits + misses` counts the calls since the last purge. -/
theorem cache_info_counts (ops : List (CacheOp K)) :
    (runOps N parse ops).hits + (runOps N parse ops).misses = callsSincePurge ops := by
  have key : ∀ (ops : List (CacheOp K)) (s : State K W) (n : Nat), s.hits + s.misses = n →
      (runFrom N parse s ops).hits + (runFrom N parse s ops).misses =
        List.foldl (fun n (op : CacheOp K) => match op with | .compile _ => n + 1 | .purge => 0) n ops := by
    intro ops
    induction ops with
    | nil => intro s n h; exact h
    | cons op ops ih =>
      intro s n h
      simp only [runFrom, List.foldl_cons]
      apply ih
      cases op with
      | purge => simp [step, purge, State.empty]
      | compile k =>
        simp only [step, compile]
        split
        · simp only; omega
        · split
          · simp only; omega
          · split <;> (simp only; omega)
  exact key ops State.empty 0 rfl

/-- LRU order, hit: the entry moves to the front, nothing is evicted, the stored value is returned. -/
theorem lru_order_hit (s : State K W) (k : K) (v : W) (h : find k s.entries = some v) :
    (compile N parse s k).1.entries = (k, v) :: remove k s.entries ∧
    (compile N parse s k).2 = .ok v ∧
    (compile N parse s k).1.entries.length = s.entries.length ∧
    (∀ k', k' ∈ keys (compile N parse s k).1.entries ↔ k' ∈ keys s.entries) := by
  have hm := find_some_mem k _ v h
  have hk : k ∈ keys s.entries := List.mem_map_of_mem (f := Prod.fst) hm
  simp only [compile, h, List.length_cons, keys_cons, List.mem_cons, true_and]
  refine ⟨length_remove k _ hk, fun k' => ?_⟩
  by_cases e : k' = k
  · subst e; simp [hk]
  · constructor
    · rintro (h' | h')
      · exact absurd h' e
      · exact (List.Sublist.map Prod.fst (remove_sublist k s.entries)).subset h'
    · intro h'
      right
      -- `k'` is a key of `s.entries`, is not `k`, so it survives the removal
      have : ∀ (l : List (K × W)), k' ∈ keys l → k' ∈ keys (remove k l) := by
        intro l
        induction l with
        | nil => simp
        | cons p l ih =>
          obtain ⟨a, b⟩ := p
          simp only [keys_cons, List.mem_cons, remove]
          rintro (h1 | h1)
          · split
            · next he => exact absurd (h1.trans he) e
            · simp [h1]
          · split
            · exact h1
            · simp [ih h1]
      exact this _ h'

/-- LRU order, miss on a full cache: the new entry goes to the front and exactly the entry at the
    back -- the least recently used one, see `lru_spec` -- is evicted. -/
theorem lru_order_miss_full (s : State K W) (k : K) (v : W) (hN : 0 < N)
    (hfind : find k s.entries = none) (hparse : parse k = .ok v) (hfull : s.entries.length = N) :
    ∃ (hne : s.entries ≠ []),
      (compile N parse s k).1.entries = (k, v) :: s.entries.dropLast ∧
      s.entries = s.entries.dropLast ++ [s.entries.getLast hne] := by
  have hne : s.entries ≠ [] := by intro e; rw [e] at hfull; simp at hfull; omega
  refine ⟨hne, ?_, (List.dropLast_concat_getLast hne).symm⟩
  simp only [compile, hfind, hparse, hfull, Nat.lt_add_one, if_true]
  obtain ⟨a, l, e⟩ := List.exists_cons_of_ne_nil hne
  rw [e]; rfl

/-- ... and a miss with room left evicts nothing. -/
theorem lru_order_miss_room (s : State K W) (k : K) (v : W)
    (hfind : find k s.entries = none) (hparse : parse k = .ok v) (hroom : s.entries.length < N) :
    (compile N parse s k).1.entries = (k, v) :: s.entries := by
  have : ¬ (s.entries.length + 1 > N) := by omega
  simp only [compile, hfind, hparse, this, if_false]

/-- A failing parse is not cached. -/
theorem failure_not_cached (s : State K W) (k : K) (e : E)
    (hfind : find k s.entries = none) (hparse : parse k = .error e) :
    (compile N parse s k).1.entries = s.entries ∧ (compile N parse s k).2 = .error e := by
  simp only [compile, hfind, hparse, and_self]

/-- LRU specification: after any history the cached keys are the `N` most recently
    (successfully) compiled distinct keys since the last purge, most recent first. -/
theorem lru_spec (ops : List (CacheOp K)) :
    keys (runOps N parse ops).entries = (recency parse ops).take N :=
  (rel_runFrom N parse ops State.empty [] (inv_empty N parse)
    ⟨by simp [State.empty], List.nodup_nil⟩).keys_eq

end LRU

/-! ## 6. `soupsieve.compile` -/

/-- The pass-through branch tests `flags`, then `namespaces is not None`, then `custom is not
    None`, each raising `ValueError`, then returns `pattern`; otherwise the four cache arguments
    are `pattern`, `Namespaces(namespaces)` / `None`, `CustomSelectors(custom)` / `None`, `flags`,
    in the order of the cache's parameters. -/
theorem compile_data :
    generatedCompileInfo.shapeOk = true ∧
    compileGuards = [⟨"flags", .truthy, "ValueError"⟩, ⟨"namespaces", .isNotNone, "ValueError"⟩,
      ⟨"custom", .isNotNone, "ValueError"⟩] ∧
    compileCallArgs = [.param "pattern", .wrapIfNotNone "Namespaces" "namespaces",
      .wrapIfNotNone "CustomSelectors" "custom", .param "flags"] ∧
    compileCallArgs.map (fun a => match a with | .param p => p | .wrapIfNotNone _ p => p | .unknown => "?")
      = cacheParams ∧
    (∀ p ∈ cacheParams, p ∈ compileParams ++ compileKwOnly) := by decide

variable {A O : Type} (ao : ApiOps A)

/-- `compile(compiled)` returns the same object. -/
theorem passthrough (c : O) :
    compileApi ao generatedCompileInfo (.compiled c) {} = .sameObject c := rfl

/-- ... and rejects `flags` (tested first, whatever the other two are), -/
theorem passthrough_flags (c : O) (n : Int) (hn : n ≠ 0) (ns cu : PyArg A) :
    compileApi ao generatedCompileInfo (.compiled c) { flags := .int n, namespaces := ns, custom := cu }
      = .raised "ValueError" "flags" := by
  have : (n != 0) = true := by simpa using hn
  simp [compileApi, generatedCompileInfo, compileShapeOk, compilePassthroughTestOk,
    compilePassthroughReturnsPattern, compileCallTargetOk, compileGuards, firstGuard, argOf,
    guardFires, this]

/-- ... then `namespaces`, -/
theorem passthrough_namespaces (c : O) (ns : A) (cu : PyArg A) :
    compileApi ao generatedCompileInfo (.compiled c) { flags := .int 0, namespaces := .val ns, custom := cu }
      = .raised "ValueError" "namespaces" := rfl

/-- ... then `custom`. -/
theorem passthrough_custom (c : O) (cu : A) :
    compileApi ao generatedCompileInfo (.compiled c) { flags := .int 0, namespaces := .none, custom := .val cu }
      = .raised "ValueError" "custom" := rfl

/-- A string pattern goes to the cache with the wrapped maps (so differently ordered dicts meet in
    one `Namespaces` key, see `dict_hash_order_independent`). -/
theorem compile_str (p : A) (ns cu : A) (n : Int) :
    compileApi (O := O) ao generatedCompileInfo (.str p) { flags := .int n, namespaces := .val ns, custom := .val cu }
      = .cached [.val p, .val (ao.wrap "Namespaces" ns), .val (ao.wrap "CustomSelectors" cu), .int n] ∧
    compileApi (O := O) ao generatedCompileInfo (.str p) { flags := .int n }
      = .cached [.val p, .none, .none, .int n] := ⟨rfl, rfl⟩

/-! ## 7. Non-vacuity -/

section Examples

/-- `PVal.ops` obeys the laws the theorems assume. -/
theorem pval_lawful : PVal.ops.Lawful where
  hash_eq := by
    intro x y h
    cases x <;> cases y <;>
      simp_all [PVal.ops, PVal.pyEq, PVal.num, PVal.pyHash] <;> (try split at h) <;> simp_all
  toTuple_idem := by intro v; cases v <;> rfl
  toTuple_empty := rfl
  toTuple_notNone := by intro v; cases v <;> rfl
  empty_notNone := rfl

private def tagP : Obj PVal := construct PVal.ops cls_SelectorTag [.str "p", .none]

example : tagP.slots.map Prod.fst = ["name", "prefix", "_hash"] := by decide
example : applyOp PVal.ops cls_SelectorTag tagP (.setattr "name" (.str "q")) = (tagP, .attributeError) := by decide
example : applyOp PVal.ops cls_SelectorTag tagP (.delattr "name") = (tagP, .attributeError) := by decide
example : (applyOp PVal.ops cls_SelectorTag tagP .reduce).2 = .reduced "SelectorTag" [.str "p", .none] := by decide
example : (applyOp PVal.ops cls_SelectorTag tagP .copy).2 = .object tagP := by decide

/-- The model is sensitive to the data: with `__delattr__` inherited from `object` (the tree
    before f6343c9) `del o.name` really deletes the slot. -/
example : (applyOp PVal.ops { cls_SelectorTag with delattrKind := .inherited } tagP (.delattr "name")).1.slots.map Prod.fst
    = ["prefix", "_hash"] := by decide

/-- `SoupSieve("p", sel, None, None, 1)` and `SoupSieve("p", sel, None, None, True)`. -/
private def ssInt (c : ClassInfo) : Obj PVal := construct PVal.ops c [.str "p", .tuple [1], .none, .none, .int 1]
private def ssBool (c : ClassInfo) : Obj PVal := construct PVal.ops c [.str "p", .tuple [1], .none, .none, .bool true]

/-- They are `==` ... -/
example : eqObj PVal.ops cls_SoupSieve (ssInt cls_SoupSieve) (ssBool cls_SoupSieve) = true := by decide
/-- ... and with the generated (repaired) hash kind they have the same hash, -/
example : getattr (ssInt cls_SoupSieve) "_hash" = getattr (ssBool cls_SoupSieve) "_hash" := by decide
/-- ... whereas the old kind (`type(v)` hashed along with `v`) gives equal objects different
    hashes: the defect repaired by 73c76da, which `eq_all_slots` now excludes. -/
theorem old_hash_inconsistent :
    let old := { cls_SoupSieve with initHashKind := InitHashKind.tupleOfTypeAndValueOverKwargs }
    eqObj PVal.ops old (ssInt old) (ssBool old) = true ∧
    getattr (ssInt old) "_hash" ≠ getattr (ssBool old) "_hash" := by decide

/-- A cache with bound 2 over numeric keys; key 0 does not parse. -/
private def parseEx (k : Nat) : Except String Nat := if k = 0 then .error "syntax" else .ok (10 * k)

/-- three distinct keys: the first one is evicted -/
example : (runOps 2 parseEx [.compile 1, .compile 2, .compile 3]).entries = [(3, 30), (2, 20)] := by decide
/-- a hit refreshes key 1, so key 2 is the one evicted -/
example : (runOps 2 parseEx [.compile 1, .compile 2, .compile 1, .compile 3]).entries = [(3, 30), (1, 10)] := by decide
example : runOps 2 parseEx [.compile 1, .compile 2, .compile 1, .compile 3] = ⟨[(3, 30), (1, 10)], 1, 3, 2⟩ := by decide
/-- failures count as misses and are not stored -/
example : runOps 2 parseEx [.compile 0, .compile 0, .compile 5] = ⟨[(5, 50)], 0, 3, 1⟩ := by decide
example : runOps 2 parseEx [.compile 1, .compile 2, .purge] = ⟨[], 0, 0, 0⟩ := by decide
example : recency parseEx [.compile 1, .compile 2, .compile 1, .compile 3, .compile 0] = [3, 1, 2] := by decide
/-- a cache keyed on too little is NOT transparent: dropping the flags from the key makes the
    second call return the first call's value -/
example :
    let parseKF : Nat × Nat → Except String (Nat × Nat) := fun kf => .ok kf
    let badKey : Nat × Nat → Nat := Prod.fst
    let s := (compile 2 (fun p => parseKF (p, 0)) (State.empty : State Nat (Nat × Nat)) (badKey (7, 0))).1
    (compile 2 (fun p => parseKF (p, 1)) s (badKey (7, 1))).2.toOption = some (7, 0) ∧
    (parseKF (7, 1)).toOption = some (7, 1) := by decide

example : dictEq [(1, 5), (2, 6)] [(2, 6), (1, 5)] = true := by decide
example (th : List Nat → Nat) (ih : Nat × Nat → Nat) :
    dictHash dictHashKind th ih [(1, 5), (2, 6)] = dictHash dictHashKind th ih [(2, 6), (1, 5)] :=
  (dict_hash_order_independent th ih _ _ (by decide) (by decide)).1

end Examples

end C15
end SoupVerif
