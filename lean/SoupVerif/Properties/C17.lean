/-
  C17 — HTML state pseudo-classes follow their definitions and partition laws.

  All theorems are about the terms `Gen.CSS_*` generated from the live Python module
  (`Generated/Builtins.lean`), under an arbitrary context `c` with `c.isHtml = true`, at an
  arbitrary location `l` / element `e`.  `matchList c l e Gen.CSS_X` is what the matcher computes
  for the pseudo-class `:x` (the parser appends `Gen.CSS_X` to the `subs` of the compound, see
  `link_eq_anylink`).
-/
import SoupVerif.Lemmas.StateLawsSem
import SoupVerif.Lemmas.StateLawsRel
import SoupVerif.Lemmas.StateLawsDir
import SoupVerif.Generated.Lexicon
namespace SoupVerif.C17
open SoupVerif StateLaws C11 Names

/-- Evaluate a re-stated built-in down to the atoms of `StateLawsSem`. -/
macro "state_simp" : tactic =>
  `(tactic| simp (disch := decide) only [matchList_isL, matchList_notL, matchAny_cons, matchAny_nil,
      matchSel_cmpG, matchNths_nil, relPart_E, flagPart_zero, matchSubs_cons, matchSubs_nil, matchTag_none, matchTag_T, matchTag_HT,
      matchTag_HT_star, matchAttributes_nil, matchAttributes_A, matchAttributes_Aty,
      matchAttributes_Aval, matchAttributes_cons2, Bool.and_true, Bool.true_and, Bool.or_false, Bool.false_or,
      List.isEmpty_cons, Bool.not_false, List.map_cons, List.map_nil, Bool.bne_false])

variable (c : Ctx) (l : Loc) (e : Elem)

/-! ## Independent vocabulary -/

/-- The element is in the XHTML namespace (always, when the parser keeps no namespaces). -/
abbrev isHtmlEl (c : Ctx) (e : Elem) : Bool := c.isHtmlTag e

/-- An HTML element whose name is one of `names`. -/
def htmlNamed (c : Ctx) (e : Elem) (names : List String) : Bool :=
  c.isHtmlTag e && names.any (tagIs c e)

/-- Form controls that can be enabled/disabled, from the HTML list
    (button, input, select, textarea, optgroup, option, fieldset) — with soupsieve's exclusion of
    `<input type=hidden>`. -/
def isFormControl (c : Ctx) (e : Elem) : Bool :=
  c.isHtmlTag e &&
    (["button", "select", "textarea", "fieldset", "optgroup", "option"].any (tagIs c e) ||
      (tagIs c e "input" && !typeIs c e "hidden"))

/-- What the matcher computes for `:is(input:not([type=hidden]), button, …, option, fieldset)`. -/
theorem ctl8_eq :
    matchList c.htmlOnly l e ctl8 =
      (["button", "select", "textarea", "fieldset", "optgroup", "option"].any (tagIs c e) ||
        (tagIs c e "input" && !typeIs c e "hidden")) := by
  unfold ctl8
  state_simp
  simp only [List.any_cons, List.any_nil, Bool.or_false]
  cases tagIs c e "input" <;> cases typeIs c e "hidden" <;> cases tagIs c e "button" <;>
    cases tagIs c e "select" <;> cases tagIs c e "textarea" <;> cases tagIs c e "fieldset" <;>
    cases tagIs c e "optgroup" <;> cases tagIs c e "option" <;> rfl

/-- The five-element variant used below a disabled fieldset. -/
theorem ctl5_eq :
    matchList c.htmlOnly l e ctl5 =
      (["button", "select", "textarea", "fieldset"].any (tagIs c e) ||
        (tagIs c e "input" && !typeIs c e "hidden")) := by
  unfold ctl5
  state_simp
  simp only [List.any_cons, List.any_nil, Bool.or_false]
  cases tagIs c e "input" <;> cases typeIs c e "hidden" <;> cases tagIs c e "button" <;>
    cases tagIs c e "select" <;> cases tagIs c e "textarea" <;> cases tagIs c e "fieldset" <;> rfl

theorem ctl5_imp_ctl8 (h : matchList c.htmlOnly l e ctl5 = true) :
    matchList c.htmlOnly l e ctl8 = true := by
  rw [ctl5_eq] at h; rw [ctl8_eq]
  simp only [List.any_cons, List.any_nil, Bool.or_false] at h ⊢
  revert h
  cases tagIs c e "input" <;> cases typeIs c e "hidden" <;> cases tagIs c e "button" <;>
    cases tagIs c e "select" <;> cases tagIs c e "textarea" <;> cases tagIs c e "fieldset" <;>
    simp

/-! ## 1. Structural laws -/

/-! ### `:required` / `:optional` -/

theorem required_eq (hc : c.isHtml = true) :
    matchList c l e Gen.CSS_REQUIRED =
      (htmlNamed c e ["input", "textarea", "select"] && hasAttr c e "required") := by
  rw [shape_REQUIRED, matchList_html c l e hc]
  state_simp
  simp only [htmlNamed, List.any_cons, List.any_nil, Bool.or_false]
  cases c.isHtmlTag e <;> cases hasAttr c e "required" <;> simp

theorem optional_eq (hc : c.isHtml = true) :
    matchList c l e Gen.CSS_OPTIONAL =
      (htmlNamed c e ["input", "textarea", "select"] && !hasAttr c e "required") := by
  rw [shape_OPTIONAL, matchList_html c l e hc]
  state_simp
  simp only [htmlNamed, List.any_cons, List.any_nil, Bool.or_false]
  cases c.isHtmlTag e <;> cases hasAttr c e "required" <;> simp

theorem required_optional_disjoint (hc : c.isHtml = true) :
    ¬ (matchList c l e Gen.CSS_REQUIRED = true ∧ matchList c l e Gen.CSS_OPTIONAL = true) := by
  rw [required_eq c l e hc, optional_eq c l e hc]
  cases htmlNamed c e ["input", "textarea", "select"] <;> cases hasAttr c e "required" <;> simp

/-- `:required` and `:optional` together cover exactly the HTML `input`, `select`, `textarea`. -/
theorem required_optional_partition (hc : c.isHtml = true) :
    (matchList c l e Gen.CSS_REQUIRED = true ∨ matchList c l e Gen.CSS_OPTIONAL = true) ↔
      htmlNamed c e ["input", "textarea", "select"] = true := by
  rw [required_eq c l e hc, optional_eq c l e hc]
  cases htmlNamed c e ["input", "textarea", "select"] <;> cases hasAttr c e "required" <;> simp

/-- … and on those, exactly one holds. -/
theorem required_xor_optional (hc : c.isHtml = true)
    (hn : htmlNamed c e ["input", "textarea", "select"] = true) :
    matchList c l e Gen.CSS_REQUIRED = !matchList c l e Gen.CSS_OPTIONAL := by
  rw [required_eq c l e hc, optional_eq c l e hc, hn]
  cases hasAttr c e "required" <;> rfl

/-! ### `:enabled` / `:disabled` -/

/-- `html|optgroup[disabled] >` as evaluated at `l` (spelled out in `disabled_def`). -/
def inDisabledOptgroup (c : Ctx) (l : Loc) : Bool := relPart c.htmlOnly l (disabledParent "optgroup")
/-- `html|fieldset[disabled] >` -/
def childOfDisabledFieldset (c : Ctx) (l : Loc) : Bool := relPart c.htmlOnly l (disabledParent "fieldset")
/-- `html|fieldset[disabled] > html|*:not(legend:nth-of-type(1)) ` (descendant) -/
def belowDisabledFieldsetNotLegend (c : Ctx) (l : Loc) : Bool :=
  relPart c.htmlOnly l notFirstLegendInDisabledFieldset

/-- The four alternatives of `:disabled`; the three relational ones kept symbolic. -/
theorem disabled_eq (hc : c.isHtml = true) :
    matchList c l e Gen.CSS_DISABLED =
      (c.isHtmlTag e &&
        ((hasAttr c e "disabled" && matchList c.htmlOnly l e ctl8) ||
         (tagIs c e "option" && inDisabledOptgroup c l) ||
         (matchList c.htmlOnly l e ctl5 && childOfDisabledFieldset c l) ||
         (matchList c.htmlOnly l e ctl5 && belowDisabledFieldsetNotLegend c l))) := by
  rw [shape_DISABLED, matchList_html c l e hc]
  state_simp
  unfold inDisabledOptgroup childOfDisabledFieldset belowDisabledFieldsetNotLegend
  cases c.isHtmlTag e <;> simp [Bool.or_assoc]

/-- The subject compound of every alternative of `:disabled` is within the control list. -/
theorem disabled_imp_control (hc : c.isHtml = true) (h : matchList c l e Gen.CSS_DISABLED = true) :
    isFormControl c e = true := by
  rw [disabled_eq c l e hc] at h
  unfold isFormControl
  rw [← ctl8_eq c l e]
  have h5 := ctl5_imp_ctl8 c l e
  have hopt : tagIs c e "option" = true → matchList c.htmlOnly l e ctl8 = true := by
    intro ho; rw [ctl8_eq]; simp [ho]
  revert h h5 hopt
  cases c.isHtmlTag e <;> cases matchList c.htmlOnly l e ctl8 <;>
    cases matchList c.htmlOnly l e ctl5 <;> cases tagIs c e "option" <;> simp

/-- `:enabled` = control ∧ ¬`:disabled`. -/
theorem enabled_eq (hc : c.isHtml = true) :
    matchList c l e Gen.CSS_ENABLED = (isFormControl c e && !matchList c l e Gen.CSS_DISABLED) := by
  rw [shape_ENABLED, matchList_html c l e hc]
  state_simp
  rw [matchList_htmlOnly' c l e Gen.CSS_DISABLED rfl, ctl8_eq]
  unfold isFormControl
  rw [Bool.and_assoc]

theorem enabled_disabled_disjoint (hc : c.isHtml = true) :
    ¬ (matchList c l e Gen.CSS_ENABLED = true ∧ matchList c l e Gen.CSS_DISABLED = true) := by
  rw [enabled_eq c l e hc]
  cases matchList c l e Gen.CSS_DISABLED <;> simp

/-- `:enabled` and `:disabled` together cover exactly the form controls. -/
theorem enabled_or_disabled_iff_control (hc : c.isHtml = true) :
    (matchList c l e Gen.CSS_ENABLED = true ∨ matchList c l e Gen.CSS_DISABLED = true) ↔
      isFormControl c e = true := by
  have hd := disabled_imp_control c l e hc
  rw [enabled_eq c l e hc]
  revert hd
  cases matchList c l e Gen.CSS_DISABLED <;> cases isFormControl c e <;> simp

/-- On a form control exactly one of the two holds. -/
theorem enabled_xor_disabled (hc : c.isHtml = true) (hk : isFormControl c e = true) :
    matchList c l e Gen.CSS_ENABLED = !matchList c l e Gen.CSS_DISABLED := by
  rw [enabled_eq c l e hc, hk, Bool.true_and]

/-- The `[type=hidden]` exclusion in the ASCII environment: SOME `type` attribute has the value,
    up to ASCII case in an HTML document, exactly in an XHTML document parsed as XML. -/
theorem typeIs_ascii (v : String) (henv : c.env = asciiEnv) :
    typeIs c e v = (attrVals c e "type").any fun s =>
      if c.isXml then s == v.toStr else lower s == lower v.toStr := by
  unfold typeIs
  cases hx : c.isXml
  · rw [Bool.not_false, attrEq_ascii_ic c e _ _ henv]
    simp
  · rw [Bool.not_true, attrEq_exact]
    simp

/-- The former formulation (the test reads THE `type` attribute), valid when `[type]` designates
    at most one attribute — every tree made by a parser. -/
theorem typeIs_ascii_unique (v : String) (henv : c.env = asciiEnv)
    (hu : (attrVals c e "type").length ≤ 1) :
    typeIs c e v = (match attrVal c e "type" with
      | none => false
      | some s => if c.isXml then s == v.toStr else lower s == lower v.toStr) := by
  rw [typeIs_ascii c e v henv, attrVal_eq_head?]
  match h : attrVals c e "type", hu with
  | [], _ => rfl
  | [s], _ => simp
  | _ :: _ :: _, hu => simp at hu

/-! ### `:read-write` / `:read-only` -/

/-- `:read-only` is the complement of `:read-write` within the HTML-namespace elements. -/
theorem readwrite_readonly_partition (hc : c.isHtml = true) :
    matchList c l e Gen.CSS_READ_ONLY = (c.isHtmlTag e && !matchList c l e Gen.CSS_READ_WRITE) := by
  rw [shape_READ_ONLY, matchList_html c l e hc]
  state_simp
  rw [matchList_htmlOnly' c l e Gen.CSS_READ_WRITE rfl]

/-- Elements outside the XHTML namespace are neither. -/
theorem readwrite_false_of_not_html (hc : c.isHtml = true) (hn : c.isHtmlTag e = false) :
    matchList c l e Gen.CSS_READ_WRITE = false := by
  rw [shape_READ_WRITE, matchList_html c l e hc]
  simp only [matchAny_cons, matchAny_nil, matchSel_cmpG, matchTag_HT_star, hn, Bool.false_and,
    Bool.or_self, bne_self_eq_false, Bool.and_false]

theorem readonly_false_of_not_html (hc : c.isHtml = true) (hn : c.isHtmlTag e = false) :
    matchList c l e Gen.CSS_READ_ONLY = false := by
  rw [readwrite_readonly_partition c l e hc, hn, Bool.false_and]

/-- Every HTML-namespace element is exactly one of `:read-write`, `:read-only`. -/
theorem readwrite_xor_readonly (hc : c.isHtml = true) (hh : c.isHtmlTag e = true) :
    matchList c l e Gen.CSS_READ_WRITE ≠ matchList c l e Gen.CSS_READ_ONLY := by
  rw [readwrite_readonly_partition c l e hc, hh]
  cases matchList c l e Gen.CSS_READ_WRITE <;> simp

/-- All cases at once. -/
theorem readwrite_or_readonly_iff (hc : c.isHtml = true) :
    (matchList c l e Gen.CSS_READ_WRITE = true ∨ matchList c l e Gen.CSS_READ_ONLY = true) ↔
      c.isHtmlTag e = true := by
  cases hh : c.isHtmlTag e
  · rw [readwrite_false_of_not_html c l e hc hh, readonly_false_of_not_html c l e hc hh]; simp
  · rw [readwrite_readonly_partition c l e hc, hh]
    cases matchList c l e Gen.CSS_READ_WRITE <;> simp

/-! ### `:link` = `:any-link` -/

/-- `parse_pseudo_class` appends the same list for both spellings … -/
theorem link_eq_anylink (P : Parser.PEnv) (s : Parser.SelB) :
    Parser.applySimplePseudo P ":link".toStr s = Parser.applySimplePseudo P ":any-link".toStr s := by
  have h1 : Parser.applySimplePseudo P ":link".toStr s = s.addSub P.B.link := by
    unfold Parser.applySimplePseudo; simp (decide := true)
  have h2 : Parser.applySimplePseudo P ":any-link".toStr s = s.addSub P.B.link := by
    unfold Parser.applySimplePseudo; simp (decide := true)
  rw [h1, h2]

theorem link_appends (P : Parser.PEnv) (s : Parser.SelB) :
    Parser.applySimplePseudo P ":link".toStr s = s.addSub P.B.link := by
  unfold Parser.applySimplePseudo; simp (decide := true)

/-- … which, in the parser instance the driver runs, is the generated `CSS_LINK`. -/
theorem link_builtin : Gen.builtinsRec.link = Gen.CSS_LINK := rfl

/-- `:link`: an HTML `a` or `area` carrying `href`. -/
theorem link_eq (hc : c.isHtml = true) :
    matchList c l e Gen.CSS_LINK = (htmlNamed c e ["a", "area"] && hasAttr c e "href") := by
  rw [shape_LINK, matchList_html c l e hc]
  state_simp
  simp only [htmlNamed, List.any_cons, List.any_nil, Bool.or_false]
  cases c.isHtmlTag e <;> cases hasAttr c e "href" <;> simp

/-! ### `:checked` ⊆ `:default` -/

/-- `html|*[type=submit]:is(button, input)` below `html|form`, the last alternative of `:default`
    without its flag. -/
def inFormRel (c : Ctx) (l : Loc) : Bool :=
  relPart c.htmlOnly l (isL [cmpG (HT "form") [] [] [] E .desc 0])

theorem default_eq (hc : c.isHtml = true) :
    matchList c l e Gen.CSS_DEFAULT =
      (matchList c l e Gen.CSS_CHECKED ||
        (c.isHtmlTag e && typeIs c e "submit" && (tagIs c e "button" || tagIs c e "input") &&
          inFormRel c l && matchDefault c l)) := by
  rw [shape_DEFAULT, matchList_html c l e hc]
  state_simp
  rw [matchList_htmlOnly' c l e Gen.CSS_CHECKED rfl, flagPart_default, htmlOnly_matchDefault]
  rfl

theorem checked_sub_default (hc : c.isHtml = true) (h : matchList c l e Gen.CSS_CHECKED = true) :
    matchList c l e Gen.CSS_DEFAULT = true := by
  rw [default_eq c l e hc, h, Bool.true_or]

/-- `:checked`: a checkbox or radio `input` with `checked`, or an `option` with `selected`. -/
theorem checked_eq (hc : c.isHtml = true) :
    matchList c l e Gen.CSS_CHECKED =
      (c.isHtmlTag e &&
        ((tagIs c e "input" && (typeIs c e "checkbox" || typeIs c e "radio") && hasAttr c e "checked") ||
         (tagIs c e "option" && hasAttr c e "selected"))) := by
  rw [shape_CHECKED, matchList_html c l e hc]
  state_simp
  cases c.isHtmlTag e <;> cases tagIs c e "input" <;> cases hasAttr c e "checked" <;> simp

/-! ### `:in-range` / `:out-of-range` -/

/-- `outOfRange` of `match_range`, as a function of the parsed values. -/
def oorOf (itype : Str) (mn mx value : Option Inputs.PVal) : Bool :=
  match value with
  | none => false
  | some v =>
    let lowBad := match mn with | some m => Inputs.ltP v m | none => false
    let highBad := match mx with | some m => Inputs.ltP m v | none => false
    if itype == "time".toStr then
      match mn, mx with
      | some m1, some m2 =>
        if Inputs.ltP m2 m1 then Inputs.ltP v m1 && Inputs.ltP m2 v
        else lowBad || highBad
      | _, _ => lowBad || highBad
    else if ["date", "datetime-local", "month", "week", "number", "range"].any (fun t => t.toStr == itype) then
      lowBad || highBad
    else false

/-- What `match_range` establishes before looking at its `condition` argument:
    an exception, `none` = neither `min` nor `max` parses (→ `False` for both conditions),
    `some o` = a bound exists and `o` = "the value is out of range". -/
def rangeStateE (c : Ctx) (e : Elem) : Except PyErr (Option Bool) :=
  match lowerE ((c.attrByName e "type".toStr).getD (.str [])) with
  | .error x => .error x
  | .ok itype =>
    match parseValueE itype (c.attrByName e "min".toStr) with
    | .error x => .error x
    | .ok mn =>
      match parseValueE itype (c.attrByName e "max".toStr) with
      | .error x => .error x
      | .ok mx =>
        if mn.isNone && mx.isNone then .ok none
        else
          match parseValueE itype (c.attrByName e "value".toStr) with
          | .error x => .error x
          | .ok value => .ok (some (oorOf itype mn mx value))

/-- `some o` iff no exception and a bound parses. -/
def rangeState (c : Ctx) (e : Elem) : Option Bool :=
  match rangeStateE c e with
  | .ok r => r
  | .error _ => none

theorem htmlOnly_rangeState : rangeState c.htmlOnly e = rangeState c e := rfl

theorem matchRangeE_eq (cond : Nat) :
    matchRangeE c e cond =
      (match rangeStateE c e with
       | .error x => .error x
       | .ok none => .ok false
       | .ok (some o) => .ok (if hasFlag cond SEL_IN_RANGE then !o else o)) := by
  unfold matchRangeE rangeStateE
  cases lowerE ((c.attrByName e "type".toStr).getD (.str [])) with
  | error x => rfl
  | ok itype =>
    simp only [bind, Except.bind]
    cases parseValueE itype (c.attrByName e "min".toStr) with
    | error x => rfl
    | ok mn =>
      simp only
      cases parseValueE itype (c.attrByName e "max".toStr) with
      | error x => rfl
      | ok mx =>
        simp only
        cases hb : (mn.isNone && mx.isNone)
        · simp only [Bool.false_eq_true, if_false]
          cases parseValueE itype (c.attrByName e "value".toStr) with
          | error x => rfl
          | ok value => rfl
        · rfl

theorem matchRange_in : matchRange c e SEL_IN_RANGE = (rangeState c e == some false) := by
  unfold matchRange rangeState
  rw [matchRangeE_eq]
  cases rangeStateE c e with
  | error x => rfl
  | ok r =>
    cases r with
    | none => rfl
    | some o => cases o <;> rfl

theorem matchRange_out : matchRange c e SEL_OUT_OF_RANGE = (rangeState c e == some true) := by
  unfold matchRange rangeState
  rw [matchRangeE_eq]
  cases rangeStateE c e with
  | error x => rfl
  | ok r =>
    cases r with
    | none => rfl
    | some o => cases o <;> rfl

/-- `matchRange c e IN = !matchRange c e OUT` whenever a bound parses (and nothing raises) … -/
theorem matchRange_compl (h : (rangeState c e).isSome = true) :
    matchRange c e SEL_IN_RANGE = !matchRange c e SEL_OUT_OF_RANGE := by
  rw [matchRange_in, matchRange_out]
  cases hr : rangeState c e with
  | none => rw [hr] at h; simp at h
  | some o => cases o <;> rfl

/-- … and both are false otherwise. -/
theorem matchRange_none (h : rangeState c e = none) :
    matchRange c e SEL_IN_RANGE = false ∧ matchRange c e SEL_OUT_OF_RANGE = false := by
  rw [matchRange_in, matchRange_out, h]; exact ⟨rfl, rfl⟩

/-- The compound shared by `:in-range` and `:out-of-range`: an HTML `input` whose `type` is one of
    the seven range types and which carries `min` or `max`. -/
def rangeCompoundHolds (c : Ctx) (e : Elem) : Bool :=
  c.isHtmlTag e && tagIs c e "input" &&
    ["date", "month", "week", "time", "datetime-local", "number", "range"].any (typeIs c e) &&
    (hasAttr c e "min" || hasAttr c e "max")

theorem rangeCompound_eq (F : Nat) :
    matchSel c.htmlOnly l e (rangeCompound F) = (rangeCompoundHolds c e && flagPart c.htmlOnly l e F) := by
  unfold rangeCompound rangeCompoundHolds
  state_simp
  simp only [List.any_cons, List.any_nil, Bool.or_false, Bool.and_assoc]

theorem inrange_eq (hc : c.isHtml = true) :
    matchList c l e Gen.CSS_IN_RANGE = (rangeCompoundHolds c e && (rangeState c e == some false)) := by
  rw [shape_IN_RANGE, matchList_html c l e hc]
  simp only [matchAny_cons, matchAny_nil, Bool.or_false, rangeCompound_eq, flagPart_in_range,
    matchRange_in, htmlOnly_rangeState, List.isEmpty_cons, Bool.not_false, Bool.true_and, Bool.bne_false]

theorem outofrange_eq (hc : c.isHtml = true) :
    matchList c l e Gen.CSS_OUT_OF_RANGE = (rangeCompoundHolds c e && (rangeState c e == some true)) := by
  rw [shape_OUT_OF_RANGE, matchList_html c l e hc]
  simp only [matchAny_cons, matchAny_nil, Bool.or_false, rangeCompound_eq, flagPart_out_of_range,
    matchRange_out, htmlOnly_rangeState, List.isEmpty_cons, Bool.not_false, Bool.true_and, Bool.bne_false]

theorem inrange_outofrange_disjoint (hc : c.isHtml = true) :
    ¬ (matchList c l e Gen.CSS_IN_RANGE = true ∧ matchList c l e Gen.CSS_OUT_OF_RANGE = true) := by
  rw [inrange_eq c l e hc, outofrange_eq c l e hc]
  cases rangeCompoundHolds c e <;> cases rangeState c e with
  | none => simp
  | some o => cases o <;> simp

/-- `:in-range` ∪ `:out-of-range` = the range-typed inputs with `min`/`max` for which `match_range`
    finds a valid bound (without raising). -/
theorem inrange_or_outofrange_iff (hc : c.isHtml = true) :
    (matchList c l e Gen.CSS_IN_RANGE = true ∨ matchList c l e Gen.CSS_OUT_OF_RANGE = true) ↔
      (rangeCompoundHolds c e = true ∧ (rangeState c e).isSome = true) := by
  rw [inrange_eq c l e hc, outofrange_eq c l e hc]
  cases rangeCompoundHolds c e <;> cases rangeState c e with
  | none => simp
  | some o => cases o <;> simp

/-- "A valid bound", spelled out. -/
theorem rangeState_isSome_iff :
    (rangeState c e).isSome = true ↔
      ∃ itype mn mx value,
        lowerE ((c.attrByName e "type".toStr).getD (.str [])) = .ok itype ∧
        parseValueE itype (c.attrByName e "min".toStr) = .ok mn ∧
        parseValueE itype (c.attrByName e "max".toStr) = .ok mx ∧
        (mn.isSome = true ∨ mx.isSome = true) ∧
        parseValueE itype (c.attrByName e "value".toStr) = .ok value := by
  unfold rangeState rangeStateE
  cases h1 : lowerE ((c.attrByName e "type".toStr).getD (.str [])) with
  | error x => simp
  | ok itype =>
    cases h2 : parseValueE itype (c.attrByName e "min".toStr) with
    | error x => simp [h2]
    | ok mn =>
      cases h3 : parseValueE itype (c.attrByName e "max".toStr) with
      | error x => simp [h2, h3]
      | ok mx =>
        cases h4 : parseValueE itype (c.attrByName e "value".toStr) with
        | error x => cases mn <;> cases mx <;> simp [h2, h3, h4]
        | ok value => cases mn <;> cases mx <;> simp [h2, h3, h4]

/-- The selector and `match_range` read the same attribute (the first one named `type`, `min`,
    `max`): `get_attribute_by_name` = the attribute selector's lookup for a lower-case name. -/
theorem range_same_attribute (n : String) (hl : lower n.toStr = n.toStr) :
    (c.attrByName e n.toStr).map nvalJoin = attrVal c e n := by
  unfold attrVal; rw [attrByName_eq_selector c e _ hl]

/-- Consistency of the type test: in the ASCII environment, when the `type` attribute holds a
    string and is the only attribute `[type]` designates, `[type=v]` (for a lower-case keyword `v`)
    implies that `match_range` dispatches on `v`.
    (Without the three hypotheses this fails; see the deviations in `Audit/C17`.  The uniqueness
    hypothesis is new with the repair of `match_attribute_name`: the selector now accepts when ANY
    attribute named `type` — `type`, `TYPE`, … in a hand-edited non-XML tree — has the value,
    `match_range` still reads the first one through `get_attribute_by_name`.) -/
theorem range_type_consistent (v : String) (hl : lower v.toStr = v.toStr) (henv : c.env = asciiEnv)
    (s : Str) (hs : c.attrByName e "type".toStr = some (.str s))
    (hu : (attrVals c e "type").length ≤ 1) (ht : typeIs c e v = true) :
    lowerE ((c.attrByName e "type".toStr).getD (.str [])) = .ok v.toStr := by
  have hv : attrVal c e "type" = some s := by
    rw [← range_same_attribute c e "type" (by decide), hs]; rfl
  rw [typeIs_ascii_unique c e v henv hu, hv] at ht
  rw [hs]
  show Except.ok (lower s) = _
  cases hx : c.isXml
  · simp only [hx, Bool.false_eq_true, if_false, beq_iff_eq, hl] at ht; rw [ht]
  · simp only [hx, if_true, beq_iff_eq] at ht; rw [ht, hl]

/-- In general (several attributes named `type`): `[type=v]` implies that SOME attribute `[type]`
    designates has the value `v` (up to case in HTML); `match_range` dispatches on the first. -/
theorem range_type_some (v : String) (henv : c.env = asciiEnv) (ht : typeIs c e v = true) :
    ∃ s ∈ attrVals c e "type", if c.isXml then s = v.toStr else lower s = lower v.toStr := by
  rw [typeIs_ascii c e v henv, List.any_eq_true] at ht
  obtain ⟨s, hm, h⟩ := ht
  refine ⟨s, hm, ?_⟩
  cases hx : c.isXml <;> simpa [hx] using h

/-! ## 2. Definitional laws -/

/-! ### `:placeholder-shown` -/

/-- The `placeholder` attribute is present and its value is not the empty string. -/
def placeholderNonEmpty (c : Ctx) (e : Elem) : Bool :=
  hasAttr c e "placeholder" && !attrEmpty c e "placeholder"

/-- No `type`, `type=""`, or one of the text-like keywords. -/
def placeholderInputType (c : Ctx) (e : Elem) : Bool :=
  !hasAttr c e "type" || attrEmpty c e "type" ||
    ["text", "search", "url", "tel", "email", "password", "number"].any (typeIs c e)

/-- `get_text(el)` is `''` or `'\n'` (all descendant text, *not* cut at iframes). -/
def textBlank (c : Ctx) (l : Loc) : Bool := c.text l false == [] || c.text l false == [10]

/-- `:placeholder-shown` ⇔ an `input` of a text-like type (or none) with a non-empty `placeholder`
    and no / an empty `value` attribute, or a `textarea` with a non-empty `placeholder` whose text
    content is `""` or `"\n"`.  The content test applies to the *last* alternative only (the
    `textarea`): `parse_selectors` flags `selectors[-1]`. -/
theorem placeholder_def (hc : c.isHtml = true) :
    matchList c l e Gen.CSS_PLACEHOLDER_SHOWN =
      (c.isHtmlTag e && placeholderNonEmpty c e &&
        ((tagIs c e "input" && placeholderInputType c e && (!hasAttr c e "value" || attrEmpty c e "value")) ||
         (tagIs c e "textarea" && textBlank c l))) := by
  rw [shape_PLACEHOLDER_SHOWN, matchList_html c l e hc]
  state_simp
  rw [typeIn_eq, flagPart_placeholder, htmlOnly_matchPlaceholderShown]
  simp only [attrEq_empty, placeholderNonEmpty, placeholderInputType]
  have ht : matchPlaceholderShown c l = textBlank c l := rfl
  rw [ht]
  cases c.isHtmlTag e <;> cases hasAttr c e "placeholder" <;> cases attrEmpty c e "placeholder" <;>
    cases tagIs c e "input" <;> cases tagIs c e "textarea" <;> simp

/-! ### `:default` -/

/-- `p` is an HTML `form` element. -/
def isHtmlForm (c : Ctx) (p : Loc) : Bool :=
  match p.elem? with
  | some pe => c.isHtmlTag pe && tagIs c pe "form"
  | none => false

/-- `html|form ` (descendant combinator), spelled out. -/
theorem inFormRel_eq : inFormRel c l = ancestorIs c l (isHtmlForm c) := by
  unfold inFormRel
  rw [relPart_desc c l _ rfl]
  congr 1
  funext t
  unfold isHtmlForm
  cases t.elem? with
  | none => rfl
  | some te =>
    simp only
    state_simp

/-- The form `match_default` finds is the one the combinator finds, provided no document object
    sits *inside* the (iframe-cut) ancestor chain below the form. -/
theorem defaultForm_isSome_of_rel (h : inFormRel c l = true) : (defaultForm c l).isSome = true := by
  rw [inFormRel_eq] at h
  unfold ancestorIs at h
  obtain ⟨p, hp, hform⟩ := List.any_eq_true.mp h
  have hp' : p ∈ c.ancestors l true := (List.takeWhile_sublist _).subset hp
  unfold defaultForm
  rw [List.find?_isSome]
  refine ⟨p, hp', ?_⟩
  unfold isHtmlForm at hform
  cases hpe : p.elem? with
  | none => rw [hpe] at hform; cases hform
  | some pe =>
    rw [hpe] at hform
    simp only [Bool.and_eq_true, tagIs] at hform ⊢
    exact ⟨hform.2, hform.1⟩

/-- `:default` ⇔ `:checked`, or a `button`/`input` of type `submit` below an HTML `form` that is
    the first submit button of its nearest form (`firstSubmit`, scanning the form's descendants
    with the iframe cut). -/
theorem default_def (hc : c.isHtml = true) :
    matchList c l e Gen.CSS_DEFAULT =
      (matchList c l e Gen.CSS_CHECKED ||
        (c.isHtmlTag e && (tagIs c e "button" || tagIs c e "input") && typeIs c e "submit" &&
          ancestorIs c l (isHtmlForm c) &&
          (match defaultForm c l with
           | none => false
           | some form =>
             match firstSubmit c (c.tagDescendants form true) with
             | some b => b.same l
             | none => false))) := by
  rw [default_eq c l e hc, inFormRel_eq]
  have : matchDefault c l = (match defaultForm c l with
      | none => false
      | some form =>
        match firstSubmit c (c.tagDescendants form true) with
        | some b => b.same l
        | none => false) := rfl
  rw [← this]
  cases c.isHtmlTag e <;> cases typeIs c e "submit" <;> cases (tagIs c e "button" || tagIs c e "input") <;> rfl


/-- In a well-formed tree the document object can only be the *last* ancestor, and it is not a
    `form`. -/
def DocOnlyOnTop (c : Ctx) (l : Loc) : Prop :=
  ∀ pre d post, c.ancestors l true = pre ++ d :: post → d.isDoc = true →
    post = [] ∧ isHtmlForm c d = false

theorem any_takeWhile_of_last {α} (P q : α → Bool) :
    ∀ (L : List α), (∀ pre d post, L = pre ++ d :: post → q d = false → post = [] ∧ P d = false) →
      (L.takeWhile q).any P = L.any P
  | [], _ => rfl
  | x :: xs, H => by
    rw [List.takeWhile_cons]
    cases hq : q x with
    | true =>
      simp only [if_true, List.any_cons]
      rw [any_takeWhile_of_last P q xs (fun pre d post h hd => H (x :: pre) d post (by rw [h]; rfl) hd)]
    | false =>
      obtain ⟨hpost, hP⟩ := H [] x xs rfl hq
      subst hpost
      simp [hP]

/-- Under `DocOnlyOnTop` the combinator test `html|form ` is implied by `match_default` … -/
theorem inFormRel_of_matchDefault (hd : DocOnlyOnTop c l) (h : matchDefault c l = true) :
    ancestorIs c l (isHtmlForm c) = true := by
  unfold ancestorIs
  rw [any_takeWhile_of_last (isHtmlForm c) (fun p => !p.isDoc) _
    (fun pre d post hs hq => hd pre d post hs (by simpa using hq))]
  unfold matchDefault at h
  cases hf : defaultForm c l with
  | none => rw [hf] at h; cases h
  | some f =>
    unfold defaultForm at hf
    have hmem := List.mem_of_find?_eq_some hf
    have hp := List.find?_some hf
    rw [List.any_eq_true]
    refine ⟨f, hmem, ?_⟩
    unfold isHtmlForm
    cases hfe : f.elem? with
    | none => rw [hfe] at hp; cases hp
    | some fe =>
      rw [hfe] at hp
      simp only [Bool.and_eq_true, tagIs] at hp ⊢
      exact ⟨hp.2, hp.1⟩

/-- … so `:default` ⇔ `:checked` ∨ (a `button`/`input` of type `submit` that is the first submit
    button of its nearest HTML `form`). -/
theorem default_def_wellformed (hc : c.isHtml = true) (hd : DocOnlyOnTop c l) :
    matchList c l e Gen.CSS_DEFAULT =
      (matchList c l e Gen.CSS_CHECKED ||
        (c.isHtmlTag e && (tagIs c e "button" || tagIs c e "input") && typeIs c e "submit" &&
          matchDefault c l)) := by
  rw [default_eq c l e hc, inFormRel_eq]
  have := inFormRel_of_matchDefault c l hd
  revert this
  cases matchDefault c l <;> cases ancestorIs c l (isHtmlForm c) <;>
    cases c.isHtmlTag e <;> cases typeIs c e "submit" <;> cases (tagIs c e "button" || tagIs c e "input") <;> simp

/-- The `type` test of `match_default`'s own scan (a non-empty string equal to `submit`, ASCII
    case-insensitively in HTML, exactly in XML). -/
def scanIsSubmit (c : Ctx) (e : Elem) : Bool :=
  match (c.attrByName e "type".toStr).getD (.str []) with
  | .str v => !v.isEmpty && (if !c.isXml then lower v else v) == "submit".toStr
  | .list _ => false

theorem scan_aux (isXml : Bool) (G : NVal) (ch : Loc) (R : Option Loc) :
    (match G with
      | .str v => if !v.isEmpty && (if !isXml then lower v else v) == "submit".toStr then some ch else R
      | .list _ => R) =
    (if (match G with
          | .str v => !v.isEmpty && (if !isXml then lower v else v) == "submit".toStr
          | .list _ => false) = true then some ch else R) := by
  cases G with
  | str v => rfl
  | list ls => rfl

/-- One step of the scan, in terms of `scanIsSubmit`. -/
theorem firstSubmit_cons (ch : Loc) (rest : List Loc) :
    firstSubmit c (ch :: rest) =
      (match ch.elem? with
       | none => firstSubmit c rest
       | some ce =>
         if c.tagName ce == "form".toStr then none
         else if (c.tagName ce == "input".toStr || c.tagName ce == "button".toStr) && c.isHtmlTag ce then
           (if scanIsSubmit c ce then some ch else firstSubmit c rest)
         else firstSubmit c rest) := by
  rw [firstSubmit]
  cases ch.elem? with
  | none => rfl
  | some ce =>
    simp only
    cases c.tagName ce == "form".toStr
    · cases ((c.tagName ce == "input".toStr || c.tagName ce == "button".toStr) && c.isHtmlTag ce)
      · rfl
      · simp only [Bool.false_eq_true, if_false, if_true]
        exact scan_aux c.isXml _ ch _
    · rfl

/-- **The scan of `match_default` returns only what its guard can select** (fix 8eff4e2).  The
    button the scan finds is an HTML element named `input` or `button` whose `type` the scan reads
    as `submit` — the atoms of the guard `html|*:is(button, input)[type="submit"]`.  Before the fix
    `c.isHtmlTag be` was not provable (and false of the code: under html5lib an `<input
    type=submit>` inside `<svg>` was "the form's default button", so the form's real first submit
    button was not `:default` and nothing else was either). -/
theorem firstSubmit_guarded : ∀ (xs : List Loc) (b : Loc), firstSubmit c xs = some b →
    ∃ be, b.elem? = some be ∧ c.isHtmlTag be = true ∧
      (tagIs c be "input" || tagIs c be "button") = true ∧ scanIsSubmit c be = true
  | [], b, h => by rw [firstSubmit] at h; cases h
  | ch :: rest, b, h => by
    rw [firstSubmit_cons] at h
    cases hce : ch.elem? with
    | none => rw [hce] at h; exact firstSubmit_guarded rest b h
    | some ce =>
      rw [hce] at h
      simp only at h
      split at h
      · cases h
      · split at h
        · rename_i hg
          split at h
          · rename_i hsub
            cases h
            rw [Bool.and_eq_true] at hg
            exact ⟨ce, hce, hg.2, hg.1, hsub⟩
          · exact firstSubmit_guarded rest b h
        · exact firstSubmit_guarded rest b h

/-- The scan's notion of "submit" and the guarding selector's `[type="submit"]` coincide — in HTML
    *and* in XML (after the repair of the scan) — in the ASCII environment, for a `type` attribute
    that is not list-valued and is the only attribute `[type]` designates (the scan reads the first
    one, the selector — since the repair of `match_attribute_name` — accepts any of them). -/
theorem scanIsSubmit_eq_typeIs (henv : c.env = asciiEnv)
    (hstr : ∀ ls, c.attrByName e "type".toStr ≠ some (.list ls))
    (hu : (attrVals c e "type").length ≤ 1) :
    scanIsSubmit c e = typeIs c e "submit" := by
  have hv := range_same_attribute c e "type" (by decide)
  rw [typeIs_ascii_unique c e "submit" henv hu, ← hv]
  unfold scanIsSubmit
  have hl : lower "submit".toStr = "submit".toStr := by decide
  cases ha : c.attrByName e "type".toStr with
  | none => rfl
  | some w =>
    cases w with
    | list ls => exact absurd ha (hstr ls)
    | str v =>
      simp only [Option.getD_some, Option.map_some, nvalJoin, hl]
      cases hx : c.isXml
      · simp only [Bool.not_false, if_true, Bool.false_eq_true, if_false]
        cases v with
        | nil => decide
        | cons a t => simp
      · simp only [Bool.not_true, Bool.false_eq_true, if_false, if_true]
        cases v with
        | nil => decide
        | cons a t => simp

/-! ### `:indeterminate` -/

/-- `:indeterminate` ⇔ a checkbox `input` carrying `indeterminate`; or an unchecked radio `input`
    that has no (or an empty) `name`, or whose group — same `name`, same form — has no checked
    member (`match_indeterminate`); or a `progress` without `value`. -/
theorem indeterminate_def (hc : c.isHtml = true) :
    matchList c l e Gen.CSS_INDETERMINATE =
      (c.isHtmlTag e &&
        ((tagIs c e "input" && typeIs c e "checkbox" && hasAttr c e "indeterminate") ||
         (tagIs c e "input" && typeIs c e "radio" && !hasAttr c e "checked" &&
            (!hasAttr c e "name" || attrEmpty c e "name" || matchIndeterminate c l)) ||
         (tagIs c e "progress" && !hasAttr c e "value"))) := by
  rw [shape_INDETERMINATE, matchList_html c l e hc]
  state_simp
  rw [flagPart_indeterminate, htmlOnly_matchIndeterminate]
  simp only [attrEq_empty]
  cases c.isHtmlTag e <;> cases tagIs c e "input" <;> cases typeIs c e "radio" <;>
    cases hasAttr c e "checked" <;> cases hasAttr c e "name" <;> cases attrEmpty c e "name" <;>
    cases tagIs c e "progress" <;> simp <;>
    (cases typeIs c e "checkbox" <;> cases hasAttr c e "indeterminate" <;>
      cases hasAttr c e "value" <;> cases matchIndeterminate c l <;> rfl)

/-- What `match_indeterminate` computes: no *other* `input` below the element's form (or, without
    a form, below the top-most ancestor reached with the iframe cut) is a checked radio of the same
    `name` owned by the same form. -/
theorem matchIndeterminate_def (kids : List Node) (hl : l.focus = .elem e kids) :
    matchIndeterminate c l =
      (match parentForm c l with
       | none => false
       | some form =>
         !(c.tagDescendants form true).any fun ch =>
            !ch.same l &&
            (match ch.elem? with
             | none => false
             | some ce =>
               c.tagName ce == "input".toStr && c.isHtmlTag ce &&
                 radioCheckedScan c.isXml (c.attrByName e "name".toStr) ce.attrs false false false &&
                 (match parentForm c ch with
                  | some f => f.same form
                  | none => false))) := by
  unfold matchIndeterminate
  have he : l.elem? = some e := by unfold Loc.elem?; rw [hl]; rfl
  rw [he]
  simp only
  cases parentForm c l with
  | none => rfl
  | some form =>
    simp only
    congr 2
    funext ch
    cases ch.same l <;> rfl

/-! ### The radio-group scan classifies a control as the guard does (fix 01d00ae)

  `match_indeterminate` is asked only about elements the guard
  `html|input[type="radio"][name]:not([name='']):not([checked])` selected, and its scan decides for
  every OTHER `input` of the form whether it is a checked radio of the group.  The definition of
  `:indeterminate` is meaningful only if "radio" and "checked" mean the same in both places.  Names
  were aligned by repair ecfbb7b; since fix 01d00ae the `type` VALUE is compared by the same rule too
  (exactly in XML, ASCII case-insensitively in HTML).  `radioCheckedScan_eq` is the scan as a closed
  formula; `checkedRadio_is_guard_radio` / `radioCheckedScan_def` restate it in the guard's atoms
  `typeIs · "radio"` and `hasAttr · "checked"` for EVERY document kind — before the fix these two were
  false for `c.isXml = true` (witness below: `type="RADIO"`). -/

/-- The attribute name as the scan compares it: lower-cased unless the document is XML. -/
def scanKey (x : Bool) (a : Attr) : Str := if !x then lower a.key else a.key

def valIsRadio (x : Bool) : NVal → Bool
  | .str s => (if x then s else lower s) == "radio".toStr
  | .list _ => false

def scanRadioAttr (x : Bool) (a : Attr) : Bool :=
  scanKey x a == "type".toStr && valIsRadio x (normalizeValue a.val)
def scanNameAttr (x : Bool) (name : Option NVal) (a : Attr) : Bool :=
  scanKey x a == "name".toStr && some (normalizeValue a.val) == name
def scanCheckedAttr (x : Bool) (a : Attr) : Bool := scanKey x a == "checked".toStr

/-- One attribute of the scan: the three flags after it (the body of the `for k, v in …` loop). -/
def scanStep (isXml : Bool) (name : Option NVal) (a : Attr) (isRadio check hasName : Bool) :
    Bool × Bool × Bool :=
  let k := if !isXml then lower a.key else a.key
  let v := normalizeValue a.val
  if k == "type".toStr && (match v with | .str s => (if isXml then s else lower s) == "radio".toStr | .list _ => false) then (true, check, hasName)
  else if k == "name".toStr && some v == name then (isRadio, check, true)
  else if k == "checked".toStr then (isRadio, true, hasName)
  else (isRadio, check, hasName)

theorem radioCheckedScan_step (x : Bool) (name : Option NVal) (a : Attr) (rest : List Attr) (r c h : Bool) :
    radioCheckedScan x name (a :: rest) r c h =
      (if (scanStep x name a r c h).1 && (scanStep x name a r c h).2.1 && (scanStep x name a r c h).2.2 then true
       else radioCheckedScan x name rest (scanStep x name a r c h).1 (scanStep x name a r c h).2.1
        (scanStep x name a r c h).2.2) := by
  conv => lhs; unfold radioCheckedScan
  rfl

theorem str_ne_of_decide {a b : Str} (k : Str) (h : (a == b) = false) (hk : (k == a) = true) : (k == b) = false := by
  have : k = a := by simpa using hk
  subst this; exact h

/-- The `elif` chain is three independent tests: the keys `type`, `name`, `checked` are distinct. -/
theorem scanStep_eq (x : Bool) (name : Option NVal) (a : Attr) (r c h : Bool) :
    scanStep x name a r c h =
      (r || scanRadioAttr x a, c || scanCheckedAttr x a, h || scanNameAttr x name a) := by
  unfold scanStep scanRadioAttr scanNameAttr scanCheckedAttr scanKey
  simp only []
  generalize (if (!x) = true then lower a.key else a.key) = k
  generalize normalizeValue a.val = v
  have htn : (k == "type".toStr) = true → (k == "name".toStr) = false := str_ne_of_decide k (by decide)
  have htc : (k == "type".toStr) = true → (k == "checked".toStr) = false := str_ne_of_decide k (by decide)
  have hnc : (k == "name".toStr) = true → (k == "checked".toStr) = false := str_ne_of_decide k (by decide)
  have hvr : (match v with | .str s => (if x = true then s else lower s) == "radio".toStr | .list _ => false) = valIsRadio x v := by
    cases v <;> rfl
  rw [hvr]
  cases h1 : (k == "type".toStr) <;> cases h2 : (k == "name".toStr) <;> cases h3 : (k == "checked".toStr) <;>
    cases valIsRadio x v <;> cases (some v == name) <;> simp_all

/-- The scan as a closed formula: a control counts as a checked radio of the group iff SOME attribute
    says `type=radio`, SOME attribute is `checked` and SOME attribute is `name=<group>`. -/
theorem radioCheckedScan_eq (x : Bool) (name : Option NVal) :
    ∀ (attrs : List Attr) (r c h : Bool), (r && c && h) = false →
      radioCheckedScan x name attrs r c h =
        ((r || attrs.any (scanRadioAttr x)) && (c || attrs.any (scanCheckedAttr x)) &&
          (h || attrs.any (scanNameAttr x name))) := by
  intro attrs
  induction attrs with
  | nil =>
    intro r c h hn
    unfold radioCheckedScan
    simp only [List.any_nil, Bool.or_false, hn]
  | cons a rest ih =>
    intro r c h hn
    rw [radioCheckedScan_step, scanStep_eq]
    simp only [List.any_cons]
    split
    · rename_i hall
      simp only [Bool.and_eq_true] at hall
      obtain ⟨⟨h1, h2⟩, h3⟩ := hall
      simp only [Bool.or_eq_true] at h1 h2 h3
      rcases h1 with h1 | h1 <;> rcases h2 with h2 | h2 <;> rcases h3 with h3 | h3 <;> simp [h1, h2, h3]
    · rename_i hall
      rw [ih _ _ _ (by simpa using hall)]
      simp only [Bool.or_assoc]

/-! #### … and the three tests are the guard's atoms -/

theorem mav_bare_all (c : Ctx) (e : Elem) (a : Str) :
    matchAttributeValues c e a [] = (e.attrs.filter (fun x => nameEq c a x.key)).map valOf := by
  cases hsn : c.supportsNamespaces with
  | true => exact mav_bare hsn e a
  | false =>
    rw [mav_no_ns hsn]
    have hx : c.isXml = false := by
      simp [Ctx.supportsNamespaces] at hsn; exact hsn.1
    simp [nameEq, hx]

/-- The key test of the scan is the name test of the bare attribute selector, for lower-case keywords. -/
theorem scanKey_eq_nameEq (c : Ctx) (a : Attr) (n : Str) (hl : lower n = n) :
    (scanKey c.isXml a == n) = nameEq c n a.key := by
  unfold scanKey nameEq
  cases c.isXml
  · simp only [Bool.not_false, if_true, Bool.false_eq_true, if_false, hl]; exact str_beq_comm _ _
  · simp only [Bool.not_true, Bool.false_eq_true, if_false, if_true]; exact str_beq_comm _ _

/-- `[type=radio]` on one attribute: the name test and the value test of the guard. -/
def guardRadioAttr (c : Ctx) (a : Attr) : Bool :=
  nameEq c "type".toStr a.key && litsEq c.env (!c.isXml) "radio".toStr (nvalJoin (normalizeValue a.val))

theorem typeIs_radio_eq_any (c : Ctx) (e : Elem) : typeIs c e "radio" = e.attrs.any (guardRadioAttr c) := by
  unfold typeIs attrEq attrVals
  rw [mav_bare_all]
  simp only [List.any_map, List.any_filter, Function.comp, valOf]
  rfl

theorem hasAttr_eq_any_key (c : Ctx) (e : Elem) (n : String) (hl : lower n.toStr = n.toStr) :
    hasAttr c e n = e.attrs.any (fun a => scanKey c.isXml a == n.toStr) := by
  unfold hasAttr attrVal
  rw [man_bare_all]
  simp only [Option.isSome_map, scanKey_eq_nameEq c _ _ hl]
  induction e.attrs with
  | nil => rfl
  | cons a t ih => simp only [List.find?_cons, List.any_cons]; cases nameEq c n.toStr a.key <;> simp [ih]

/-- The value test of the scan and the value test of `[type=radio]` on a string value: in XML both
    are `=`; in HTML both fold ASCII case (the guard through the regex engine's folding, hence the
    environment hypothesis). -/
theorem valIsRadio_eq_guard (c : Ctx) (s : Str) (henv : c.isXml = true ∨ c.env = asciiEnv) :
    valIsRadio c.isXml (.str s) = litsEq c.env (!c.isXml) "radio".toStr (nvalJoin (.str s)) := by
  have hlr : lower "radio".toStr = "radio".toStr := by decide
  unfold valIsRadio nvalJoin
  cases hx : c.isXml
  · rcases henv with h | h
    · rw [hx] at h; cases h
    · rw [h]; simp only [Bool.false_eq_true, if_false, Bool.not_false, litsEq_ic, hlr]
  · simp only [if_true, Bool.not_true, litsEq_exact]

/-- A control the scan takes for a radio is one the guard `[type=radio]` selects — in every document
    kind.  (Before fix 01d00ae this was FALSE in XML: the scan folded the case of the value, so
    `<input type="RADIO">` of an XHTML document parsed as XML was a radio for the scan only.) -/
theorem scanRadioAttr_imp_guard (c : Ctx) (a : Attr) (henv : c.isXml = true ∨ c.env = asciiEnv)
    (h : scanRadioAttr c.isXml a = true) : guardRadioAttr c a = true := by
  unfold scanRadioAttr at h
  unfold guardRadioAttr
  rw [scanKey_eq_nameEq c a _ (by decide)] at h
  rw [Bool.and_eq_true] at h ⊢
  refine ⟨h.1, ?_⟩
  cases hv : normalizeValue a.val with
  | str s => rw [← valIsRadio_eq_guard c s henv, ← hv]; exact h.2
  | list l => rw [hv] at h; exact absurd h.2 (by simp [valIsRadio])

/-- On string values (every tree a parser makes: `type` is not a multi-valued attribute) the two
    tests coincide. -/
theorem scanRadioAttr_eq_guard (c : Ctx) (a : Attr) (henv : c.isXml = true ∨ c.env = asciiEnv)
    (s : Str) (hv : normalizeValue a.val = .str s) : scanRadioAttr c.isXml a = guardRadioAttr c a := by
  unfold scanRadioAttr guardRadioAttr
  rw [scanKey_eq_nameEq c a _ (by decide), hv, valIsRadio_eq_guard c s henv]

/-- The `type` attributes of the element hold strings (not the list a multi-valued-attribute
    builder would make). -/
def TypeIsString (c : Ctx) (e : Elem) : Prop :=
  ∀ a ∈ e.attrs, nameEq c "type".toStr a.key = true → ∃ s, normalizeValue a.val = .str s

theorem scanRadio_imp_typeIs (c : Ctx) (e : Elem) (henv : c.isXml = true ∨ c.env = asciiEnv)
    (h : e.attrs.any (scanRadioAttr c.isXml) = true) : typeIs c e "radio" = true := by
  rw [typeIs_radio_eq_any]
  rw [List.any_eq_true] at h ⊢
  obtain ⟨a, ha, hr⟩ := h
  exact ⟨a, ha, scanRadioAttr_imp_guard c a henv hr⟩

theorem scanRadio_eq_typeIs (c : Ctx) (e : Elem) (henv : c.isXml = true ∨ c.env = asciiEnv)
    (hstr : TypeIsString c e) : e.attrs.any (scanRadioAttr c.isXml) = typeIs c e "radio" := by
  rw [typeIs_radio_eq_any]
  unfold TypeIsString at hstr
  generalize e.attrs = as at hstr ⊢
  induction as with
  | nil => rfl
  | cons a t ih =>
    have iht := ih (fun x hx => hstr x (List.mem_cons_of_mem _ hx))
    simp only [List.any_cons, iht]
    congr 1
    cases hk : nameEq c "type".toStr a.key with
    | true =>
      obtain ⟨s, hs⟩ := hstr a (List.mem_cons_self) hk
      exact scanRadioAttr_eq_guard c a henv s hs
    | false =>
      unfold scanRadioAttr guardRadioAttr
      rw [scanKey_eq_nameEq c a _ (by decide), hk]; rfl

/-- **The scan and the guard agree** (fix 01d00ae).  A control other than the asker counts as a
    checked radio of the group only if the guard's own atoms hold of it: it is what `[type=radio]`
    selects and it carries `[checked]` — in HTML, XHTML and XML alike. -/
theorem checkedRadio_is_guard_radio (c : Ctx) (e : Elem) (name : Option NVal)
    (henv : c.isXml = true ∨ c.env = asciiEnv)
    (h : radioCheckedScan c.isXml name e.attrs false false false = true) :
    typeIs c e "radio" = true ∧ hasAttr c e "checked" = true := by
  rw [radioCheckedScan_eq _ _ _ _ _ _ rfl] at h
  simp only [Bool.false_or, Bool.and_eq_true] at h
  refine ⟨scanRadio_imp_typeIs c e henv h.1.1, ?_⟩
  rw [hasAttr_eq_any_key c e "checked" (by decide)]
  exact h.1.2

/-- The scan in the guard's vocabulary, exactly: `[type=radio]`, `[checked]`, and some `name`
    attribute holding the group's name. -/
theorem radioCheckedScan_def (c : Ctx) (e : Elem) (name : Option NVal)
    (henv : c.isXml = true ∨ c.env = asciiEnv) (hstr : TypeIsString c e) :
    radioCheckedScan c.isXml name e.attrs false false false =
      (typeIs c e "radio" && hasAttr c e "checked" && e.attrs.any (scanNameAttr c.isXml name)) := by
  rw [radioCheckedScan_eq _ _ _ _ _ _ rfl, scanRadio_eq_typeIs c e henv hstr,
    hasAttr_eq_any_key c e "checked" (by decide)]
  simp only [Bool.false_or]
  rfl


/-- **A member of the group that blocks `:indeterminate` is a `:checked` HTML radio button** (fixes
    01d00ae and 8eff4e2).  The per-control test of the scan (`matchIndeterminate_def`) implies the
    atoms of `:checked` for that control: an HTML element named `input` that `[type=radio]` and
    `[checked]` select.  Before 8eff4e2 `c.isHtmlTag ce` failed (an `<input>` inside `<svg>`, html5lib),
    before 01d00ae `typeIs c ce "radio"` failed in XML. -/
theorem scanMember_guarded (c : Ctx) (ce : Elem) (name : Option NVal)
    (henv : c.isXml = true ∨ c.env = asciiEnv)
    (h : (c.tagName ce == "input".toStr && c.isHtmlTag ce &&
          radioCheckedScan c.isXml name ce.attrs false false false) = true) :
    c.isHtmlTag ce = true ∧ tagIs c ce "input" = true ∧ typeIs c ce "radio" = true ∧
      hasAttr c ce "checked" = true := by
  simp only [Bool.and_eq_true] at h
  obtain ⟨⟨h1, h2⟩, h3⟩ := h
  obtain ⟨h4, h5⟩ := checkedRadio_is_guard_radio c ce name henv h3
  exact ⟨h2, h1, h4, h5⟩

/-- … hence it is selected by `:checked`. -/
theorem scanMember_is_checked (c : Ctx) (ch : Loc) (ce : Elem) (name : Option NVal)
    (hc : c.isHtml = true) (henv : c.isXml = true ∨ c.env = asciiEnv)
    (h : (c.tagName ce == "input".toStr && c.isHtmlTag ce &&
          radioCheckedScan c.isXml name ce.attrs false false false) = true) :
    matchList c ch ce Gen.CSS_CHECKED = true := by
  obtain ⟨h1, h2, h3, h4⟩ := scanMember_guarded c ce name henv h
  rw [checked_eq c ch ce hc, h1, h2, h3, h4]
  simp

/-- XHTML parsed as XML: `<input type="RADIO" name="a" checked="">` is NOT a checked radio of group
    `a` (nor does `[type="radio"]` select it); in HTML it is.  Before fix 01d00ae the first line
    evaluated to `true` in the code. -/
example : radioCheckedScan true (some (.str "a".toStr))
    [⟨"type".toStr, none, none, .str "RADIO".toStr⟩, ⟨"name".toStr, none, none, .str "a".toStr⟩,
     ⟨"checked".toStr, none, none, .str []⟩] false false false = false := by decide
example : radioCheckedScan false (some (.str "a".toStr))
    [⟨"type".toStr, none, none, .str "RADIO".toStr⟩, ⟨"name".toStr, none, none, .str "a".toStr⟩,
     ⟨"checked".toStr, none, none, .str []⟩] false false false = true := by decide
example : radioCheckedScan true (some (.str "a".toStr))
    [⟨"type".toStr, none, none, .str "radio".toStr⟩, ⟨"name".toStr, none, none, .str "a".toStr⟩,
     ⟨"checked".toStr, none, none, .str []⟩] false false false = true := by decide

/-! ### `:disabled` -/

/-- `p` is an HTML element named `n` carrying `disabled`. -/
def isDisabledHtml (c : Ctx) (n : String) (p : Loc) : Bool :=
  match p.elem? with
  | some pe => c.isHtmlTag pe && tagIs c pe n && hasAttr c pe "disabled"
  | none => false

theorem disabledParent_eq (n : String) (hl : lower n.toStr = n.toStr)
    (hs : (n.toStr == "*".toStr) = false) :
    relPart c.htmlOnly l (disabledParent n) = parentIs c l (isDisabledHtml c n) := by
  unfold disabledParent
  rw [relPart_child c l _ rfl]
  congr 1
  funext t
  unfold isDisabledHtml
  cases t.elem? with
  | none => rfl
  | some te =>
    simp only
    rw [matchSel_cmpG, matchTag_HT c te n hl hs]
    state_simp

/-- `legend:nth-of-type(1)` as evaluated at `t`. -/
def isFirstLegend (c : Ctx) (t : Loc) (te : Elem) : Bool :=
  tagIs c te "legend" && matchNth c.htmlOnly t te (NthSel.mk 1 false 0 true false E)

/-- `t` is an HTML element, not the first `legend`, and a child of a disabled HTML `fieldset`. -/
def isNonLegendChildOfDisabledFieldset (c : Ctx) (t : Loc) : Bool :=
  match t.elem? with
  | some te => c.isHtmlTag te && !isFirstLegend c t te && parentIs c t (isDisabledHtml c "fieldset")
  | none => false

theorem belowDisabledFieldsetNotLegend_eq :
    belowDisabledFieldsetNotLegend c l = ancestorIs c l (isNonLegendChildOfDisabledFieldset c) := by
  unfold belowDisabledFieldsetNotLegend notFirstLegendInDisabledFieldset
  rw [relPart_desc c l _ rfl]
  congr 1
  funext t
  unfold isNonLegendChildOfDisabledFieldset isFirstLegend
  cases t.elem? with
  | none => rfl
  | some te =>
    simp only
    rw [matchSel_cmpG, disabledParent_eq c t "fieldset" (by decide) (by decide)]
    state_simp
    simp only [matchNths, Bool.and_true]

/-- `:disabled` ⇔ an HTML form control (`isFormControl`'s list) carrying `disabled`; or an `option`
    whose parent is a disabled `optgroup`; or an `input` (not hidden) / `button` / `select` /
    `textarea` / `fieldset` that is a child of a disabled `fieldset`, or a descendant of a child —
    other than the first `legend` — of a disabled `fieldset`.  Parents and ancestors are taken
    with the iframe cut and exclude the document object. -/
theorem disabled_def (hc : c.isHtml = true) :
    matchList c l e Gen.CSS_DISABLED =
      (c.isHtmlTag e &&
        ((hasAttr c e "disabled" &&
            (["button", "select", "textarea", "fieldset", "optgroup", "option"].any (tagIs c e) ||
              (tagIs c e "input" && !typeIs c e "hidden"))) ||
         (tagIs c e "option" && parentIs c l (isDisabledHtml c "optgroup")) ||
         ((["button", "select", "textarea", "fieldset"].any (tagIs c e) ||
              (tagIs c e "input" && !typeIs c e "hidden")) &&
            (parentIs c l (isDisabledHtml c "fieldset") ||
             ancestorIs c l (isNonLegendChildOfDisabledFieldset c))))) := by
  rw [disabled_eq c l e hc, ctl8_eq, ctl5_eq]
  unfold inDisabledOptgroup childOfDisabledFieldset
  rw [disabledParent_eq c l "optgroup" (by decide) (by decide),
    disabledParent_eq c l "fieldset" (by decide) (by decide), belowDisabledFieldsetNotLegend_eq]
  cases c.isHtmlTag e <;> simp [Bool.and_or_distrib_left, Bool.or_assoc]

/-! ## 3. Everything is evaluated inside the element's own document -/

/-- `ancestorsCut_stops_at_iframe` -/
theorem ancestorsCut_stops_at_iframe (ps : List Loc) :
    (∀ p ∈ c.ancestorsCut true ps, c.locIsIframe p = false) ∧
    (∃ rest, ps = c.ancestorsCut true ps ++ rest ∧
      ∀ q, rest.head? = some q → c.locIsIframe q = true) :=
  StateLaws.ancestorsCut_stops_at_iframe c ps

/-- Inside an HTML-only list `iframe_restrict` is set … -/
theorem iframe_local_flag : c.htmlOnly.iframeRestrict = true := rfl

/-- … so the descendant and child combinators of the built-ins walk `c.ancestors l true` /
    `c.parent l true`. -/
theorem iframe_local_desc (on : Loc → Bool) :
    relationWalk c.htmlOnly l .desc on = ((c.ancestors l true).takeWhile (fun p => !p.isDoc)).any on :=
  relationWalk_desc c l on

theorem iframe_local_child (on : Loc → Bool) :
    relationWalk c.htmlOnly l .child on =
      (match c.parent l true with
       | some p => !p.isDoc && on p
       | none => false) :=
  relationWalk_child c l on

/-- `c.parent l true` never returns an iframe. -/
theorem parent_true_not_iframe (p : Loc) (h : c.parent l true = some p) : c.locIsIframe p = false := by
  unfold Ctx.parent at h
  cases hp : l.parent? with
  | none => rw [hp] at h; cases h
  | some q =>
    rw [hp] at h
    simp only [Bool.true_and] at h
    cases hq : c.locIsIframe q with
    | true => rw [hq] at h; simp at h
    | false =>
      rw [hq] at h
      simp only [Bool.false_eq_true, if_false, Option.some.injEq] at h
      rw [← h]; exact hq

/-- `match_default` only inspects `c.ancestors l true` and `c.tagDescendants form true`. -/
theorem iframe_local_default :
    matchDefault c l =
      (match (c.ancestors l true).find? (fun p =>
          match p.elem? with
          | some pe => c.tagName pe == "form".toStr && c.isHtmlTag pe
          | none => false) with
       | none => false
       | some form =>
         match firstSubmit c (c.tagDescendants form true) with
         | some b => b.same l
         | none => false) := rfl

/-- `get_parent_form` of `match_indeterminate` only inspects `c.ancestors · true` … -/
theorem iframe_local_parentForm (x : Loc) :
    parentForm c x =
      (match (c.ancestors x true).find? (fun p =>
          match p.elem? with
          | some pe => c.tagName pe == "form".toStr && c.isHtmlTag pe
          | none => false) with
       | some f => some f
       | none => (c.ancestors x true).getLast?) := rfl

/-- … and `match_indeterminate` scans `c.tagDescendants form true` (see `matchIndeterminate_def`). -/
theorem iframe_local_indeterminate (kids : List Node) (hl : l.focus = .elem e kids) (form : Loc)
    (hf : parentForm c l = some form) :
    matchIndeterminate c l =
      !(c.tagDescendants form true).any fun ch =>
          !ch.same l &&
          (match ch.elem? with
           | none => false
           | some ce =>
             c.tagName ce == "input".toStr && c.isHtmlTag ce &&
               radioCheckedScan c.isXml (c.attrByName e "name".toStr) ce.attrs false false false &&
               (match parentForm c ch with
                | some f => f.same form
                | none => false)) := by
  rw [matchIndeterminate_def c l e kids hl, hf]

/-- `match_dir` walks `l :: c.ancestors l true`. -/
theorem iframe_local_dir (d : Nat) :
    matchDir c l d =
      (if hasFlag d SEL_DIR_LTR && hasFlag d SEL_DIR_RTL then false
       else matchDirWalk c d false (l :: c.ancestors l true)) := rfl

/-- The chains and scans above never cross an iframe boundary: no member of `c.ancestors l true`
    is an iframe … -/
theorem iframe_local_ancestors (p : Loc) (hp : p ∈ c.ancestors l true) : c.locIsIframe p = false :=
  ancestors_no_iframe c l p hp

/-- … and `c.tagDescendants form true` is empty for an iframe and otherwise reaches its members
    through non-iframe locations only. -/
theorem iframe_local_descendants (form d : Loc) (hd : d ∈ c.tagDescendants form true) :
    c.locIsIframe form = false ∧ IsDescVia (fun x => !c.locIsIframe x) form d :=
  tagDescendants_iframe_cut c form d hd

/-- The one exception: the content test of `:placeholder-shown` reads `get_text(el)` with
    `no_iframe=False`. -/
theorem placeholder_text_not_cut :
    matchPlaceholderShown c l = (c.text l false == [] || c.text l false == [10]) := rfl

/-! ## 4. `:dir(ltr)` / `:dir(rtl)` -/

theorem matchDir_ltr :
    matchDir c l SEL_DIR_LTR = matchDirWalk c SEL_DIR_LTR false (l :: c.ancestors l true) := by
  rw [iframe_local_dir]
  have : (hasFlag SEL_DIR_LTR SEL_DIR_LTR && hasFlag SEL_DIR_LTR SEL_DIR_RTL) = false := by decide
  rw [this]; rfl

theorem matchDir_rtl :
    matchDir c l SEL_DIR_RTL = matchDirWalk c SEL_DIR_RTL false (l :: c.ancestors l true) := by
  rw [iframe_local_dir]
  have : (hasFlag SEL_DIR_RTL SEL_DIR_LTR && hasFlag SEL_DIR_RTL SEL_DIR_RTL) = false := by decide
  rw [this]; rfl

/-- Every ancestor location is an element. -/
theorem ancestorsAux_elem : ∀ (up : List Frame) (n : Node) (p : Loc), p ∈ Loc.ancestorsAux n up →
    ∃ pe, p.elem? = some pe
  | [], _, p, h => by simp [Loc.ancestorsAux] at h
  | f :: rest, n, p, h => by
    unfold Loc.ancestorsAux at h
    rcases List.mem_cons.mp h with rfl | h'
    · exact ⟨f.info, rfl⟩
    · exact ancestorsAux_elem rest _ p h'

theorem ancestors_elem (p : Loc) (hp : p ∈ c.ancestors l true) : ∃ pe, p.elem? = some pe := by
  rw [ancestors_true] at hp
  exact ancestorsAux_elem _ _ p ((List.takeWhile_sublist _).subset hp)

/-- General form: the subject is an HTML-namespace element and the walk of `match_dir` bottoms out
    on a verdict (`DirChain`: foreign-namespace ancestors are skipped) ⇒ exactly one of the two
    directionalities matches. -/
theorem dir_partition_chain (kids : List Node) (hl : l.focus = .elem e kids)
    (hh : c.isHtmlTag e = true) (h : DirChain c (l :: c.ancestors l true)) :
    matchDir c l SEL_DIR_LTR = !matchDir c l SEL_DIR_RTL := by
  have he : l.elem? = some e := by unfold Loc.elem?; rw [hl]; rfl
  rw [matchDir_ltr, matchDir_rtl, matchDirWalk_html_head c _ false l e _ he hh,
    matchDirWalk_html_head c _ false l e _ he hh]
  exact matchDirWalk_compl c _ h

/-- `dir_partition`: an element in the XHTML namespace whose chain `l :: ancestors` (with the
    iframe cut) contains an XHTML-namespace element `r` with `c.isRoot r` is exactly one of
    `:dir(ltr)`, `:dir(rtl)`.  Ancestors in other namespaces between the two are skipped. -/
theorem dir_partition (kids : List Node) (hl : l.focus = .elem e kids) (hh : c.isHtmlTag e = true)
    (r : Loc) (hmem : r ∈ l :: c.ancestors l true) (re : Elem) (hre : r.elem? = some re)
    (hrh : c.isHtmlTag re = true) (hroot : c.isRoot r = true) :
    matchDir c l SEL_DIR_LTR ≠ matchDir c l SEL_DIR_RTL := by
  have he : l.elem? = some e := by unfold Loc.elem?; rw [hl]; rfl
  obtain ⟨pre, post, hsplit⟩ := List.append_of_mem hmem
  have hpre : ∀ p ∈ pre, ∃ pe, p.elem? = some pe := by
    intro p hp
    have hp' : p ∈ l :: c.ancestors l true := by rw [hsplit]; exact List.mem_append_left _ hp
    rcases List.mem_cons.mp hp' with rfl | hp''
    · exact ⟨e, he⟩
    · exact ancestors_elem c l p hp''
  have hchain : DirChain c (l :: c.ancestors l true) :=
    hsplit ▸ DirChain_of_root c pre r post hpre ⟨re, hre, hrh⟩ hroot
  rw [dir_partition_chain c l e kids hl hh hchain]
  cases matchDir c l SEL_DIR_RTL <;> simp

/-- An explicit `dir="ltr"`/`dir="rtl"` on an HTML-namespace element decides by itself. -/
theorem dir_explicit (kids : List Node) (hl : l.focus = .elem e kids) (hh : c.isHtmlTag e = true)
    (s : Str) (x : Nat) (hs : c.attrByName e "dir".toStr = some (.str s))
    (hx : dirOfAttr (lower s) = some x) (h0 : x ≠ 0) (d : Nat) (inh : Bool) :
    matchDirWalk c d inh (l :: c.ancestors l true) = (x == d) := by
  have he : l.elem? = some e := by unfold Loc.elem?; rw [hl]; rfl
  rw [matchDirWalk_cons, he]
  simp only [hh, Bool.not_true, Bool.false_eq_true, if_false]
  have : dirStep c l e = .is x := by
    unfold dirStep DirAtoms.step
    have hd : (dirAtoms c l e).dirA = some x := by
      show (match (c.attrByName e "dir".toStr).getD (.str []) with
        | .str s => dirOfAttr (lower s)
        | .list _ => none) = some x
      rw [hs]; exact hx
    rw [hd]
    have : (x != 0) = true := by simpa using h0
    simp only [this, if_true]
  rw [this]; rfl

/-- Converse 1: if every HTML-namespace level of the chain defers to its parent (no verdict before
    the chain ends), neither `:dir(ltr)` nor `:dir(rtl)` matches. -/
theorem dir_neither (h : ∀ p ∈ l :: c.ancestors l true, ∀ pe, p.elem? = some pe →
      c.isHtmlTag pe = true → dirStep c p pe = .up) :
    matchDir c l SEL_DIR_LTR = false ∧ matchDir c l SEL_DIR_RTL = false := by
  rw [matchDir_ltr, matchDir_rtl]
  exact ⟨matchDirWalk_all_up c _ _ _ h, matchDirWalk_all_up c _ _ _ h⟩

/-- Converse 2: a subject outside the XHTML namespace matches neither. -/
theorem dir_neither_foreign (kids : List Node) (hl : l.focus = .elem e kids)
    (hh : c.isHtmlTag e = false) :
    matchDir c l SEL_DIR_LTR = false ∧ matchDir c l SEL_DIR_RTL = false := by
  have he : l.elem? = some e := by unfold Loc.elem?; rw [hl]; rfl
  rw [matchDir_ltr, matchDir_rtl]
  exact ⟨matchDirWalk_foreign_subject c _ l e _ he hh, matchDirWalk_foreign_subject c _ l e _ he hh⟩

/-- The list the parser appends for `:dir(ltr)` / `:dir(rtl)` (an HTML-only list holding one
    flagged compound). -/
def dirList (v : Nat) : SelList := .mk [cmpG none [] [] [] E .none v] false true

theorem dirList_parser (v : Nat) :
    SelList.mk [(Parser.SelB.empty.setFlags v).freeze] false true = dirList v := rfl

/-! The HTML-only context does not change `match_dir`. -/

theorem htmlOnly_firstStrong (s : Str) : firstStrong c.htmlOnly s = firstStrong c s := by
  induction s with
  | nil => rfl
  | cons ch rest ih => unfold firstStrong; rw [ih]; rfl

theorem htmlOnly_findBidiKids (ks : List Node) : findBidiKids c.htmlOnly ks = findBidiKids c ks := by
  fun_induction findBidiKids c ks with
  | case1 => unfold findBidiKids; rfl
  | case2 ks e sub direction name hcond ih =>
    rw [findBidiKids]
    exact (if_pos hcond).trans ih
  | case3 ks e sub direction name hcond v hv ih1 =>
    rw [findBidiKids]
    refine (if_neg hcond).trans ?_
    rw [ih1, hv]
  | case4 ks e sub direction name hcond hn ih1 ih2 =>
    rw [findBidiKids]
    refine (if_neg hcond).trans ?_
    rw [ih1, hn]; exact ih2
  | case5 ks kind s hk ih =>
    rw [findBidiKids]
    simp only [hk, if_true, ih]
  | case6 ks kind s hk v hv =>
    rw [findBidiKids]
    simp only [hk, htmlOnly_firstStrong, hv, Bool.false_eq_true, if_false]
  | case7 ks kind s hk hn ih =>
    rw [findBidiKids]
    simp only [hk, htmlOnly_firstStrong, hn, ih, Bool.false_eq_true, if_false]

theorem htmlOnly_dirStep (p : Loc) (pe : Elem) : dirStep c.htmlOnly p pe = dirStep c p pe := by
  unfold dirStep
  congr 1
  unfold dirAtoms dirAutoValue dirInputType findBidi
  simp only [htmlOnly_attrByName, htmlOnly_tagName, htmlOnly_isRoot, htmlOnly_firstStrong,
    htmlOnly_findBidiKids]
  rfl

theorem htmlOnly_matchDirWalk (d : Nat) (inh : Bool) (ls : List Loc) :
    matchDirWalk c.htmlOnly d inh ls = matchDirWalk c d inh ls := by
  induction ls generalizing inh with
  | nil => rw [matchDirWalk_nil, matchDirWalk_nil]
  | cons p ps ih =>
    rw [matchDirWalk_cons, matchDirWalk_cons, ih true]
    cases p.elem? with
    | none => rfl
    | some pe => simp only [htmlOnly_isHtmlTag, htmlOnly_dirStep]

theorem htmlOnly_matchDir (d : Nat) : matchDir c.htmlOnly l d = matchDir c l d := by
  rw [iframe_local_dir, iframe_local_dir, htmlOnly_matchDirWalk, htmlOnly_ancestors]

/-- `:dir(ltr)` / `:dir(rtl)` as selector lists are `match_dir` (in an HTML document; in a
    document that is XML but not XHTML they match nothing). -/
theorem dirList_ltr (hc : c.isHtml = true) :
    matchList c l e (dirList SEL_DIR_LTR) = matchDir c l SEL_DIR_LTR := by
  unfold dirList
  rw [matchList_html c l e hc]
  state_simp
  have : flagPart c.htmlOnly l e SEL_DIR_LTR = matchDir c.htmlOnly l SEL_DIR_LTR := by
    simp [flagPart, hasFlag, SEL_DEFAULT, SEL_DEFINED, SEL_ROOT, SEL_SCOPE, SEL_PLACEHOLDER_SHOWN,
      SEL_EMPTY, RANGES, SEL_IN_RANGE, SEL_OUT_OF_RANGE, SEL_INDETERMINATE, DIR_FLAGS, SEL_DIR_LTR,
      SEL_DIR_RTL]
  rw [this, htmlOnly_matchDir]

theorem dirList_rtl (hc : c.isHtml = true) :
    matchList c l e (dirList SEL_DIR_RTL) = matchDir c l SEL_DIR_RTL := by
  unfold dirList
  rw [matchList_html c l e hc]
  state_simp
  have : flagPart c.htmlOnly l e SEL_DIR_RTL = matchDir c.htmlOnly l SEL_DIR_RTL := by
    simp [flagPart, hasFlag, SEL_DEFAULT, SEL_DEFINED, SEL_ROOT, SEL_SCOPE, SEL_PLACEHOLDER_SHOWN,
      SEL_EMPTY, RANGES, SEL_IN_RANGE, SEL_OUT_OF_RANGE, SEL_INDETERMINATE, DIR_FLAGS, SEL_DIR_LTR,
      SEL_DIR_RTL]
  rw [this, htmlOnly_matchDir]

/-- `dir_partition` at the selector level: an HTML-namespace element with an HTML-namespace root
    at or above it is exactly one of `:dir(ltr)` and `:dir(rtl)`. -/
theorem dir_partition_selectors (hc : c.isHtml = true) (kids : List Node)
    (hl : l.focus = .elem e kids) (hh : c.isHtmlTag e = true)
    (r : Loc) (hmem : r ∈ l :: c.ancestors l true) (re : Elem) (hre : r.elem? = some re)
    (hrh : c.isHtmlTag re = true) (hroot : c.isRoot r = true) :
    matchList c l e (dirList SEL_DIR_LTR) ≠ matchList c l e (dirList SEL_DIR_RTL) := by
  rw [dirList_ltr c l e hc, dirList_rtl c l e hc]
  exact dir_partition c l e kids hl hh r hmem re hre hrh hroot

end SoupVerif.C17
