/-
  C01 — the leaf tests `match_namespace`, `match_tagname`, `match_tag`, `match_id`, `match_classes` of
  `css_match.CSSMatch`, TRANSLATED from the source (`Generated/PyMatchSel.lean`, second half: one Lean
  definition per Python function over the dynamic values of `Model/MatchDyn.lean`) and PROVED equal to the
  hand-written model functions (`Model/Match.lean`) the property theorems are about — for all contexts,
  elements and arguments.  Each statement `Gen.f … = .bool (model …)` also says that no operator of the
  translated body raised (`PV.err` is absorbing).

  With `Properties/C01GenMatch.lean` this ties `match_selectors` AND the first, eighth and ninth test of
  its chain to the source.
-/
import SoupVerif.Properties.C01GenMatch
namespace SoupVerif.C01GenTag
open SoupVerif SoupVerif.PyMatchSel

set_option linter.unusedSimpArgs false

variable (c : Ctx) (e : Elem)

theorem PV.str_beq (a b : Str) : (PV.str a == PV.str b) = (a == b) := by
  rw [Bool.eq_iff_iff]; simp

/-! ### `match_namespace` -/

theorem gen_match_namespace (t : SelTag) :
    Gen.PyMatchSel.match_namespace c e t = .bool (matchNamespace c e t) := by
  obtain ⟨name, pfx⟩ := t
  unfold Gen.PyMatchSel.match_namespace matchNamespace
  cases pfx with
  | none =>
    cases hd : c.nsGet [] with
    | none => simp [pyTagPrefix, PV.ofOptStr, pyNsGet, pyTagNs, hd, pyIsNone, pyIsNotNone, pyAnd, pyOr, pyNe, pyEq,
        PV.ite, PV.truthy, PV.isErr]
    | some d =>
      by_cases h : c.tagNs e = d <;>
        simp [pyTagPrefix, PV.ofOptStr, pyNsGet, pyTagNs, hd, pyIsNone, pyIsNotNone, pyAnd, pyOr, pyNe, pyEq,
          PV.ite, PV.truthy, PV.isErr, h]
  | some p =>
    by_cases hp : p = []
    · subst hp
      cases hn : c.tagNs e <;>
        simp [pyTagPrefix, PV.ofOptStr, pyNsGet, pyTagNs, pyIsNone, pyIsNotNone, pyAnd, pyOr, pyNe, pyEq,
          PV.ite, PV.truthy, PV.isErr, hn]
    · have hpe : p.isEmpty = false := by cases p <;> simp_all
      by_cases hs : p = [42]
      · subst hs
        cases hu : c.nsGet [42] <;>
          simp [pyTagPrefix, PV.ofOptStr, pyNsGet, pyTagNs, pyIsNone, pyIsNotNone, pyAnd, pyOr, pyNe, pyEq,
            PV.ite, PV.truthy, PV.isErr, hu, String.toStr]
      · have hs' : (p == "*".toStr) = false := by
          simpa [String.toStr] using hs
        cases hu : c.nsGet p with
        | none =>
          simp [pyTagPrefix, PV.ofOptStr, pyNsGet, pyTagNs, pyIsNone, pyIsNotNone, pyAnd, pyOr, pyNe, pyEq,
            PV.ite, PV.truthy, PV.isErr, hu, hp, hs, hpe, hs']
        | some u =>
          by_cases h : c.tagNs e = u <;>
            simp [pyTagPrefix, PV.ofOptStr, pyNsGet, pyTagNs, pyIsNone, pyIsNotNone, pyAnd, pyOr, pyNe, pyEq,
              PV.ite, PV.truthy, PV.isErr, hu, hp, hs, hpe, hs', h]

/-! ### `match_tagname` -/

theorem gen_match_tagname (t : SelTag) :
    Gen.PyMatchSel.match_tagname c e t = .bool (matchTagname c e t) := by
  obtain ⟨name, pfx⟩ := t
  unfold Gen.PyMatchSel.match_tagname matchTagname
  cases hx : c.isXml <;>
    simp [pyTagName, pyIsXml, pyGetTag, pyLower, pyNot, pyAnd, pyIsNotNone, pyNotInTuple, pyInTuple, PV.ite,
      PV.truthy, PV.isErr, hx, String.toStr, PV.str_beq]

/-! ### `match_tag` -/

theorem gen_match_tag (t : Option SelTag) :
    Gen.PyMatchSel.match_tag c e t = .bool (matchTag c e t) := by
  unfold Gen.PyMatchSel.match_tag matchTag
  cases t with
  | none => rfl
  | some t =>
    simp only [gen_match_namespace, gen_match_tagname]
    cases matchNamespace c e t <;> cases matchTagname c e t <;> rfl

/-! ### `match_id` -/

theorem pyAnyList_bool (f : PV → PV) (g : Str → Bool) (h : ∀ x, f (.str x) = .bool (g x)) (l : List Str) :
    pyAnyList f l = .bool (l.any g) := by
  induction l with
  | nil => rfl
  | cons x rest ih =>
    rw [pyAnyList, h x]
    cases hg : g x <;> simp [PV.truthy, hg, ih]

theorem gen_match_id (ids : List Str) :
    Gen.PyMatchSel.match_id c e ids = .bool (matchId c e ids) := by
  unfold Gen.PyMatchSel.match_id matchId
  have hf : ∀ x : Str, pyNe (.str x) (pyAttrByName c e (.str [105, 100]) (.str [])) =
      .bool (!((c.attrByName e "id".toStr).getD (.str []) == .str x)) := by
    intro x
    have hid : ("id".toStr) = [105, 100] := by decide
    rw [hid]
    cases hv : c.attrByName e [105, 100] with
    | none => simp [pyAttrByName, hv, pyNe, PV.isErr, bne, BEq.comm]
    | some v => cases v <;> simp [pyAttrByName, hv, pyNe, PV.isErr, PV.ofNVal, bne, BEq.comm]
  simp only [pyAny]
  rw [pyAnyList_bool _ _ hf]
  simp only [PV.ite, PV.truthy]
  have : (ids.any fun x => !((c.attrByName e "id".toStr).getD (.str []) == .str x)) =
      !(ids.all fun i => (c.attrByName e "id".toStr).getD (.str []) == .str i) := by
    rw [List.not_all_eq_any_not]
  rw [this]
  cases ids.all fun i => (c.attrByName e "id".toStr).getD (.str []) == .str i <;> rfl

/-! ### `match_classes` -/

theorem gen_match_classes (ks : List Str) :
    Gen.PyMatchSel.match_classes c e ks = .bool (matchClasses c e ks) := by
  unfold Gen.PyMatchSel.match_classes matchClasses
  have hf : ∀ x : Str, pyNotIn (.str x) (pyGetClasses c e) = .bool (!(getClasses c e).contains x) := by
    intro x; simp [pyNotIn, pyIn, pyGetClasses, pyNot, PV.truthy]
  simp only [pyAny]
  rw [pyAnyList_bool _ _ hf]
  simp only [PV.ite, PV.truthy]
  have : (ks.any fun x => !(getClasses c e).contains x) = !(ks.all fun k => (getClasses c e).contains k) := by
    rw [List.not_all_eq_any_not]
  rw [this]
  cases ks.all fun k => (getClasses c e).contains k <;> rfl

/-! ### The chain with its translated leaves -/

/-- The first check of the regenerated chain (`match_tag`), the `ids` check and the `classes` check,
    evaluated with the REGENERATED leaf functions, are the model's. -/
theorem gen_leaves_in_chain (s : SelFields) :
    Gen.PyMatchSel.match_tag c e s.tag = .bool (matchTag c e s.tag) ∧
    Gen.PyMatchSel.match_id c e s.ids = .bool (matchId c e s.ids) ∧
    Gen.PyMatchSel.match_classes c e s.classes = .bool (matchClasses c e s.classes) :=
  ⟨gen_match_tag c e s.tag, gen_match_id c e s.ids, gen_match_classes c e s.classes⟩

/-- C01: a type selector `E` / `ns|E` (regenerated `match_tag`) never raises and decides exactly
    `matchNamespace ∧ matchTagname`. -/
theorem gen_match_tag_some (t : SelTag) :
    Gen.PyMatchSel.match_tag c e (some t) = .bool (matchNamespace c e t && matchTagname c e t) :=
  gen_match_tag c e (some t)

/-- The universal selector without a namespace constraint matches every element (regenerated code). -/
theorem gen_match_tag_none : Gen.PyMatchSel.match_tag c e none = .bool true := rfl

end SoupVerif.C01GenTag
