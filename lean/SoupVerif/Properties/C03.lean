/-
  C03 — All query entry points are views of one match relation (`matchEl`).

  `select` / `iselect` are one function in the model (`SoupSieve.select` is `list(self.iselect(…))`);
  `selectIn` is `CSSMatch.select(limit)`.
-/
import SoupVerif.Model.Api
import SoupVerif.Lemmas.TreeWalk
namespace SoupVerif.C03
open SoupVerif

/-! ### select / iselect / select_one / limit -/

/-- `limit <= 0`: all matching element descendants, in the order of the walk. -/
theorem select_all (c : Ctx) (sel : SelList) (tag : Loc) (limit : Int) (hl : limit < 1) :
    selectIn c sel tag limit = (c.tagDescendants tag false).filter (matchEl c sel) := by
  unfold selectIn; simp [hl]

/-- `limit = k > 0`: the first `k` items of the unlimited result. -/
theorem select_limit (c : Ctx) (sel : SelList) (tag : Loc) (k : Int) (hk : 0 < k) :
    selectIn c sel tag k = (selectIn c sel tag 0).take k.toNat := by
  unfold selectIn
  have h1 : ¬ k < 1 := by omega
  simp [h1]

/-- Whatever the limit, the result is a prefix of the unlimited result. -/
theorem select_limit_prefix (c : Ctx) (sel : SelList) (tag : Loc) (limit : Int) :
    selectIn c sel tag limit <+: selectIn c sel tag 0 := by
  by_cases hl : limit < 1
  · rw [select_all c sel tag limit hl, select_all c sel tag 0 (by decide)]
    exact List.prefix_refl _
  · rw [select_limit c sel tag limit (by omega)]
    exact List.take_prefix _ _

/-- Number of results under a positive limit. -/
theorem select_limit_length (c : Ctx) (sel : SelList) (tag : Loc) (k : Int) (hk : 0 < k) :
    (selectIn c sel tag k).length = min k.toNat (selectIn c sel tag 0).length := by
  rw [select_limit c sel tag k hk, List.length_take]

/-- `select_one` is the first item of `select`, or `None`. -/
theorem selectOne_head (E : Env) (x : Bool) (ns : List (Str × Str)) (sel : SelList) (tag : Loc) :
    selectOne E x ns sel tag = (select E x ns sel tag 0).head? := by
  unfold selectOne select
  rw [select_limit _ sel tag 1 (by decide)]
  simp [List.head?_take]

theorem selectOne_none_iff (E : Env) (x : Bool) (ns : List (Str × Str)) (sel : SelList) (tag : Loc) :
    selectOne E x ns sel tag = none ↔ select E x ns sel tag 0 = [] := by
  rw [selectOne_head]; exact List.head?_eq_none_iff

/-- Only elements, never the document object. -/
theorem select_elements_only (c : Ctx) (sel : SelList) (tag : Loc) (limit : Int) :
    ∀ l ∈ selectIn c sel tag limit, l.isTag = true ∧ l.isDoc = false := by
  intro l h
  have h0 := (select_limit_prefix c sel tag limit).subset h
  rw [select_all c sel tag 0 (by decide)] at h0
  exact matchEl_true c sel l (List.mem_filter.mp h0).2

/-- Every result matches; and without a limit every matching element descendant is a result. -/
theorem select_mem_iff (c : Ctx) (sel : SelList) (tag : Loc) (limit : Int) (hl : limit < 1) (l : Loc) :
    l ∈ selectIn c sel tag limit ↔ l ∈ c.tagDescendants tag false ∧ matchEl c sel l = true := by
  rw [select_all c sel tag limit hl, List.mem_filter]

theorem select_sublist_descendants (c : Ctx) (sel : SelList) (tag : Loc) (limit : Int) :
    (selectIn c sel tag limit).Sublist (tag.descendants (fun _ => true)) := by
  have h1 := (select_limit_prefix c sel tag limit).sublist
  rw [select_all c sel tag 0 (by decide)] at h1
  have h2 : (c.tagDescendants tag false).Sublist (tag.descendants (fun _ => true)) := by
    have := c.tagDescendants_sublist tag false
    rwa [Ctx.descendants_false] at this
  exact h1.trans (List.filter_sublist.trans h2)

/-- The candidates of `select` are exactly the elements reachable from `tag` by one or more
    `children` steps. -/
theorem select_candidates (c : Ctx) (tag d : Loc) :
    d ∈ c.tagDescendants tag false ↔ IsDesc tag d ∧ d.isTag = true := by
  unfold Ctx.tagDescendants
  rw [List.mem_filter, Ctx.descendants_false, Loc.mem_descendants_iff]

/-! ### Document order, no duplicates, never `tag` itself -/

/-- Every descendant's position has `l.pos` as a strict prefix. -/
theorem desc_pos_prefix (enter : Loc → Bool) (l : Loc) :
    ∀ d ∈ l.descendants enter, ∃ suffix, suffix ≠ [] ∧ d.pos = l.pos ++ suffix := by
  intro d hd
  obtain ⟨i, s, _, hp⟩ := (l.descendants_below enter).shape d hd
  exact ⟨i :: s, by simp, hp⟩

/-- `tag` is not among its own descendants. -/
theorem self_not_descendant (enter : Loc → Bool) (l : Loc) :
    ∀ d ∈ l.descendants enter, d.pos ≠ l.pos := by
  intro d hd
  obtain ⟨s, hs, hp⟩ := desc_pos_prefix enter l d hd
  rw [hp]; exact append_ne_self _ _ hs

/-- The walk is in document order: positions strictly increase (lexicographically, a prefix —
    an ancestor — first). -/
theorem descendants_preorder (enter : Loc → Bool) (l : Loc) :
    List.Pairwise lexLt ((l.descendants enter).map Loc.pos) :=
  List.pairwise_map.mpr (l.descendants_below enter).sorted

/-- No location is visited twice. -/
theorem descendants_pos_nodup (enter : Loc → Bool) (l : Loc) :
    ((l.descendants enter).map Loc.pos).Nodup :=
  List.nodup_iff_pairwise_ne.mpr ((descendants_preorder enter l).imp lexLt_ne)

/-- The k-th child of `l` is at `l.pos ++ [k]`. -/
theorem children_pos (l : Loc) (k : Nat) (hk : k < l.children.length) :
    (l.children[k]).pos = l.pos ++ [k] := l.children_pos_get k hk

/-- `select` returns its results in document order … -/
theorem select_preorder (c : Ctx) (sel : SelList) (tag : Loc) (limit : Int) :
    List.Pairwise lexLt ((selectIn c sel tag limit).map Loc.pos) :=
  (descendants_preorder _ tag).sublist ((select_sublist_descendants c sel tag limit).map Loc.pos)

/-- … without duplicates … -/
theorem select_nodup (c : Ctx) (sel : SelList) (tag : Loc) (limit : Int) :
    ((selectIn c sel tag limit).map Loc.pos).Nodup :=
  List.Nodup.sublist ((select_sublist_descendants c sel tag limit).map Loc.pos)
    (descendants_pos_nodup _ tag)

/-- … and never `tag` itself: every result lies strictly below `tag`. -/
theorem select_strictly_below (c : Ctx) (sel : SelList) (tag : Loc) (limit : Int) :
    ∀ r ∈ selectIn c sel tag limit, ∃ suffix, suffix ≠ [] ∧ r.pos = tag.pos ++ suffix :=
  fun r hr => desc_pos_prefix _ tag r ((select_sublist_descendants c sel tag limit).subset hr)

theorem select_never_self (c : Ctx) (sel : SelList) (tag : Loc) (limit : Int) :
    ∀ r ∈ selectIn c sel tag limit, r.same tag = false := by
  intro r hr
  have := self_not_descendant _ tag r ((select_sublist_descendants c sel tag limit).subset hr)
  cases h : r.same tag
  · rfl
  · exact absurd ((Loc.same_iff r tag).mp h) this

/-! ### closest -/

theorem closest_spec (E : Env) (x : Bool) (ns : List (Str × Str)) (sel : SelList) (tag : Loc) :
    closest E x ns sel tag = (tag :: tag.ancestors).find? (matchEl (mkCtx E x ns tag) sel) := rfl

/-- The result of `closest` matches, is an element, and is never the document object. -/
theorem closest_never_doc (E : Env) (x : Bool) (ns : List (Str × Str)) (sel : SelList) (tag r : Loc)
    (h : closest E x ns sel tag = some r) : r.isDoc = false ∧ r.isTag = true := by
  rw [closest_spec] at h
  have := matchEl_true _ sel r (List.find?_some h)
  exact ⟨this.2, this.1⟩

theorem closest_matches (E : Env) (x : Bool) (ns : List (Str × Str)) (sel : SelList) (tag r : Loc)
    (h : closest E x ns sel tag = some r) : matchEl (mkCtx E x ns tag) sel r = true := by
  rw [closest_spec] at h; exact List.find?_some h

/-- The result is `tag` itself or one of its ancestors (its position is a prefix of `tag`'s). -/
theorem closest_ancestor_or_self (E : Env) (x : Bool) (ns : List (Str × Str)) (sel : SelList)
    (tag r : Loc) (h : closest E x ns sel tag = some r) :
    r = tag ∨ (r ∈ tag.ancestors ∧ ∃ s, s ≠ [] ∧ tag.pos = r.pos ++ s) := by
  rw [closest_spec] at h
  rcases List.mem_cons.mp (List.mem_of_find?_eq_some h) with rfl | hm
  · exact Or.inl rfl
  · exact Or.inr ⟨hm, tag.ancestors_pos r hm⟩

/-- Nearest: nothing strictly nearer on the ancestor-or-self chain matches. -/
theorem closest_nearest (E : Env) (x : Bool) (ns : List (Str × Str)) (sel : SelList) (tag r : Loc)
    (h : closest E x ns sel tag = some r) :
    ∃ nearer farther, tag :: tag.ancestors = nearer ++ r :: farther ∧
      ∀ a ∈ nearer, matchEl (mkCtx E x ns tag) sel a = false := by
  rw [closest_spec] at h
  obtain ⟨_, as, bs, heq, hno⟩ := List.find?_eq_some_iff_append.mp h
  exact ⟨as, bs, heq, fun a ha => by simpa using hno a ha⟩

/-- `None` exactly when nothing on the chain matches. -/
theorem closest_none_iff (E : Env) (x : Bool) (ns : List (Str × Str)) (sel : SelList) (tag : Loc) :
    closest E x ns sel tag = none ↔
      ∀ a ∈ tag :: tag.ancestors, matchEl (mkCtx E x ns tag) sel a = false := by
  rw [closest_spec, List.find?_eq_none]
  simp

/-- `closest` returns `tag` itself when `tag` matches. -/
theorem closest_self (E : Env) (x : Bool) (ns : List (Str × Str)) (sel : SelList) (tag : Loc)
    (h : matchTagApi E x ns sel tag = true) : closest E x ns sel tag = some tag := by
  unfold matchTagApi at h
  rw [closest_spec, List.find?_cons_of_pos h]

/-! ### filter -/

theorem filterTag_spec (E : Env) (x : Bool) (ns : List (Str × Str)) (sel : SelList) (tag : Loc) :
    filterTag E x ns sel tag =
      (tag.children.filter Loc.isTag).filter (matchEl (mkCtx E x ns tag) sel) := rfl

/-- `filter(tag)`: exactly the matching element children, in order. -/
theorem filterTag_children_only (E : Env) (x : Bool) (ns : List (Str × Str)) (sel : SelList) (tag r : Loc) :
    r ∈ filterTag E x ns sel tag ↔
      r ∈ tag.children ∧ r.isTag = true ∧ matchEl (mkCtx E x ns tag) sel r = true := by
  rw [filterTag_spec, List.mem_filter, List.mem_filter, and_assoc]

theorem filterTag_sublist (E : Env) (x : Bool) (ns : List (Str × Str)) (sel : SelList) (tag : Loc) :
    (filterTag E x ns sel tag).Sublist tag.children :=
  List.filter_sublist.trans List.filter_sublist

/-- The `isinstance(tag, bs4.Tag)` test of `filter` is implied by `match`. -/
theorem filterTag_eq (E : Env) (x : Bool) (ns : List (Str × Str)) (sel : SelList) (tag : Loc) :
    filterTag E x ns sel tag = tag.children.filter (matchEl (mkCtx E x ns tag) sel) := by
  rw [filterTag_spec, List.filter_filter]
  congr 1
  funext r
  cases h : matchEl (mkCtx E x ns tag) sel r
  · simp
  · simp [(matchEl_true _ sel r h).1]

/-- Each result of `filter(tag)` is a child: its position is `tag.pos ++ [k]`. -/
theorem filterTag_pos (E : Env) (x : Bool) (ns : List (Str × Str)) (sel : SelList) (tag r : Loc)
    (h : r ∈ filterTag E x ns sel tag) : ∃ k, k < tag.children.length ∧ r.pos = tag.pos ++ [k] := by
  have hm := (filterTag_sublist E x ns sel tag).subset h
  obtain ⟨k, hk, rfl⟩ := List.getElem_of_mem hm
  exact ⟨k, hk, tag.children_pos_get k hk⟩

/-- `filter(iterable)`: the `Tag` items that match (each with a matcher made for that item). -/
theorem filterIter_spec (E : Env) (x : Bool) (ns : List (Str × Str)) (sel : SelList) (items : List Loc) :
    filterIter E x ns sel items = (items.filter Loc.isTag).filter (matchTagApi E x ns sel) := by
  unfold filterIter
  rw [List.filter_filter]
  congr 1
  funext n
  exact Bool.and_comm _ _

/-- Order is preserved and nothing is invented. -/
theorem filterIter_sublist (E : Env) (x : Bool) (ns : List (Str × Str)) (sel : SelList) (items : List Loc) :
    (filterIter E x ns sel items).Sublist items := List.filter_sublist

theorem filterIter_mem (E : Env) (x : Bool) (ns : List (Str × Str)) (sel : SelList) (items : List Loc) (r : Loc) :
    r ∈ filterIter E x ns sel items ↔ r ∈ items ∧ r.isTag = true ∧ matchTagApi E x ns sel r = true := by
  unfold filterIter; simp [List.mem_filter]

/-- Strings are dropped. -/
theorem filterIter_drops_strings (E : Env) (x : Bool) (ns : List (Str × Str)) (sel : SelList)
    (items : List Loc) : ∀ r ∈ filterIter E x ns sel items, r.isTag = true ∧ r.isDoc = false := by
  intro r hr
  have := ((filterIter_mem E x ns sel items r).mp hr).2.2
  exact matchEl_true _ sel r this

/-! ### :scope -/

/-- `:scope` is the element the call was made on … -/
theorem scope_is_target (E : Env) (x : Bool) (ns : List (Str × Str)) (tag : Loc)
    (h : ¬ tag.same tag.top = true) : (mkCtx E x ns tag).scope = some tag := by
  unfold mkCtx; simp [h]

/-- … i.e. whenever `tag` has a parent. -/
theorem scope_is_target' (E : Env) (x : Bool) (ns : List (Str × Str)) (tag : Loc)
    (h : tag.up ≠ []) : (mkCtx E x ns tag).scope = some tag :=
  scope_is_target E x ns tag (fun hs => h ((Loc.same_top_iff tag).mp hs))

/-- Called on the document object, `:scope` is the root element: the first element child of the
    document. -/
theorem scope_of_document (E : Env) (x : Bool) (ns : List (Str × Str)) (tag : Loc)
    (hup : tag.up = []) (hdoc : tag.isDoc = true) :
    (mkCtx E x ns tag).scope = (mkCtx E x ns tag).root ∧
      (mkCtx E x ns tag).root = tag.children.find? Loc.isTag := by
  have htop := Loc.top_of_up_nil tag hup
  have hsame : tag.same tag = true := (Loc.same_iff tag tag).mpr rfl
  unfold mkCtx
  simp [htop, hsame, hdoc]

/-- Called on a detached element (no parent, not a document), `:scope` and `:root` are that
    element. -/
theorem scope_of_detached (E : Env) (x : Bool) (ns : List (Str × Str)) (tag : Loc)
    (hup : tag.up = []) (hdoc : tag.isDoc = false) :
    (mkCtx E x ns tag).scope = some tag ∧ (mkCtx E x ns tag).root = some tag := by
  have htop := Loc.top_of_up_nil tag hup
  have hsame : tag.same tag = true := (Loc.same_iff tag tag).mpr rfl
  unfold mkCtx
  simp [htop, hsame, hdoc]

/-- `match_scope(el)`: `el` is (the same object as) the scope. -/
theorem matchScope_iff (c : Ctx) (l : Loc) :
    matchScope c l = true ↔ ∃ s, c.scope = some s ∧ s.pos = l.pos := by
  unfold matchScope
  cases h : c.scope with
  | none => simp
  | some s => simp [Loc.same_iff]

/-- The matcher made by an entry point never restricts iframes at top level and carries the
    caller's namespace map. -/
theorem mkCtx_fields (E : Env) (x : Bool) (ns : List (Str × Str)) (tag : Loc) :
    (mkCtx E x ns tag).iframeRestrict = false ∧ (mkCtx E x ns tag).namespaces = ns ∧
      (mkCtx E x ns tag).isXml = x := ⟨rfl, rfl, rfl⟩

end SoupVerif.C03
