/-
  C06 / C05 about the Lean term TRANSLATED from the source text of `CSSParser.parse_pseudo_open`
  (`gen/gen_py_popen.py` → `Generated/PyPseudoOpen.lean`, regenerated on every run).

  In the hand model `parse_pseudo_open` is the first branch of the `parse_pseudo_class` call of `ParseDisp.runCall`
  (= `Parser.parseLoop`, `C06GenDispatch.stepOf_eq_runAction`): a nested `parseSelectors` at `m.end(0)` with the flags
  `FLG_PSEUDO ||| FLG_OPEN ||| (if pseudo == ":not" … )` (the same expression is `C09Compile2.fnFlags`, the flags the
  compile theorems C09Compile2 / C05Parse are about).  The translator emits the flag computation `openFlags : Str → Nat`
  (numeric `FLG_*` values and the names as written in the source) and CHECKS the frame (`sel.selectors.append(
  self.parse_selectors(iselector, index, flags)); has_selector = True; return has_selector`), failing closed.

  Proved here, for ALL names (not only the five that reach the handler):
  * `openFlags_eq_model`, `openFlags_eq_fnFlags`: the regenerated flags = the hand model's flag expression = `fnFlags`;
  * `runCall_pseudo_open_gen` (**the tie**): the `parse_pseudo_open` branch of the hand model's `runCall` is the nested
    parse at `t.stop` with the REGENERATED flags, followed by the checked frame (`addSub`, `hasSelector := true`);
  * `gen_forgive_iff`, `gen_not_iff`, `gen_relative_iff`, `gen_pseudo_open_bits`: which bits are set, restated about the
    regenerated definition (forgiving lists exactly for `:is` / `:where`; negated lists exactly for `:not`; relative
    lists exactly for `:has`; always a nested OPEN pseudo list), `gen_NestedFlags` / `gen_fnFlags_facts`: the facts the
    compile theorems (`C09Compile.fnName_facts`, `C05Parse.fnFlags_facts`) use, about the regenerated definition;
  * `frame_checked`: the frame facts emitted by the translator are the ones the model implements.
-/
import SoupVerif.Generated.PyPseudoOpen
import SoupVerif.Model.ParseDispatch
import SoupVerif.Properties.C05Parse
namespace SoupVerif
namespace C06GenPseudoOpen
open SoupVerif.Parser ParseDisp
open Gen.PyPseudoOpen (openFlags)

/-- the flag expression of the hand model (`Parser.parseLoop` / `ParseDisp.runCall`, `parse_pseudo_open` branch) -/
def modelFlags (pseudo : Str) : Nat :=
  FLG_PSEUDO ||| FLG_OPEN |||
    (if pseudo == ":not".toStr then FLG_NOT
     else if pseudo == ":has".toStr then FLG_RELATIVE
     else if pseudo == ":where".toStr || pseudo == ":is".toStr then FLG_FORGIVE else 0)

theorem modelFlags_eq_fnFlags (n : Str) : modelFlags n = C09Compile2.fnFlags n := rfl

/-- **The regenerated flag computation is the hand model's**, for every name. -/
theorem openFlags_eq_model (n : Str) : openFlags n = modelFlags n := by
  by_cases h1 : n = ":not".toStr
  · subst h1; decide
  by_cases h2 : n = ":has".toStr
  · subst h2; decide
  by_cases h3 : n = ":where".toStr
  · subst h3; decide
  by_cases h4 : n = ":is".toStr
  · subst h4; decide
  have e1 : ":not".toStr = [58, 110, 111, 116] := by decide
  have e2 : ":has".toStr = [58, 104, 97, 115] := by decide
  have e3 : ":where".toStr = [58, 119, 104, 101, 114, 101] := by decide
  have e4 : ":is".toStr = [58, 105, 115] := by decide
  unfold openFlags modelFlags
  rw [e1] at h1; rw [e2] at h2; rw [e3] at h3; rw [e4] at h4
  rw [e1, e2, e3, e4]
  simp [h1, h2, h3, h4, FLG_PSEUDO, FLG_OPEN]

theorem openFlags_eq_fnFlags (n : Str) : openFlags n = C09Compile2.fnFlags n :=
  (openFlags_eq_model n).trans (modelFlags_eq_fnFlags n)

/-- **The tie**: the `parse_pseudo_open` branch of the hand model = nested parse at `m.end(0)` with the regenerated
    flags, then the checked frame. -/
theorem runCall_pseudo_open_gen (env : CharEnv) (L : Lexicon) (B : Builtins) (pattern : Str) (s : LS) (t : Token)
    (h : ((match t.group ⟨env, L, B, pattern⟩ "open" with | some o => !o.isEmpty | none => false) &&
          inList L.pseudoComplex (lower (cssUnescape env L ((t.group ⟨env, L, B, pattern⟩ "name").getD [])))) = true) :
    runCall env L B pattern s t ("parse_pseudo_class", ["iselector", "is_html"], ["has_selector", "is_html"])
      = .nest pattern t.stop t.stop
          (openFlags (lower (cssUnescape env L ((t.group ⟨env, L, B, pattern⟩ "name").getD [])))) s.custom
          (fun (l, pos', custom') =>
            { s with sel := s.sel.addSub l, hasSelector := true, pos := pos', custom := custom', index := t.stop }) := by
  rw [openFlags_eq_model]
  unfold runCall
  rw [if_neg (by decide), if_pos (by decide)]
  dsimp only
  exact (if_pos h).trans rfl

/-- every other name: only the two base bits -/
theorem modelFlags_other (n : Str) (h1 : n ≠ ":not".toStr) (h2 : n ≠ ":has".toStr) (h3 : n ≠ ":where".toStr)
    (h4 : n ≠ ":is".toStr) : modelFlags n = FLG_PSEUDO ||| FLG_OPEN := by
  have b1 : (n == ":not".toStr) = false := by simpa using h1
  have b2 : (n == ":has".toStr) = false := by simpa using h2
  have b3 : (n == ":where".toStr) = false := by simpa using h3
  have b4 : (n == ":is".toStr) = false := by simpa using h4
  unfold modelFlags; rw [b1, b2, b3, b4]; decide

/-- Forgiving lists exactly for `:where` / `:is`. -/
theorem gen_forgive_iff (n : Str) :
    ((openFlags n &&& FLG_FORGIVE) != 0) = (n == ":where".toStr || n == ":is".toStr) := by
  rw [openFlags_eq_model]
  by_cases h1 : n = ":not".toStr
  · subst h1; decide
  by_cases h2 : n = ":has".toStr
  · subst h2; decide
  by_cases h3 : n = ":where".toStr
  · subst h3; decide
  by_cases h4 : n = ":is".toStr
  · subst h4; decide
  have b3 : (n == ":where".toStr) = false := by simpa using h3
  have b4 : (n == ":is".toStr) = false := by simpa using h4
  rw [modelFlags_other n h1 h2 h3 h4, b3, b4]; decide

/-- Negated lists exactly for `:not`. -/
theorem gen_not_iff (n : Str) : ((openFlags n &&& FLG_NOT) != 0) = (n == ":not".toStr) := by
  rw [openFlags_eq_model]
  by_cases h1 : n = ":not".toStr
  · subst h1; decide
  by_cases h2 : n = ":has".toStr
  · subst h2; decide
  by_cases h3 : n = ":where".toStr
  · subst h3; decide
  by_cases h4 : n = ":is".toStr
  · subst h4; decide
  have b1 : (n == ":not".toStr) = false := by simpa using h1
  rw [modelFlags_other n h1 h2 h3 h4, b1]; decide

/-- Relative lists exactly for `:has`. -/
theorem gen_relative_iff (n : Str) : ((openFlags n &&& FLG_RELATIVE) != 0) = (n == ":has".toStr) := by
  rw [openFlags_eq_model]
  by_cases h1 : n = ":not".toStr
  · subst h1; decide
  by_cases h2 : n = ":has".toStr
  · subst h2; decide
  by_cases h3 : n = ":where".toStr
  · subst h3; decide
  by_cases h4 : n = ":is".toStr
  · subst h4; decide
  have b2 : (n == ":has".toStr) = false := by simpa using h2
  rw [modelFlags_other n h1 h2 h3 h4, b2]; decide

/-- Always a nested (`FLG_PSEUDO`) list closed by `)` (`FLG_OPEN`). -/
theorem gen_pseudo_open_bits (n : Str) :
    ((openFlags n &&& FLG_PSEUDO) != 0) = true ∧ ((openFlags n &&& FLG_OPEN) != 0) = true := by
  rw [openFlags_eq_model]
  by_cases h1 : n = ":not".toStr
  · subst h1; decide
  by_cases h2 : n = ":has".toStr
  · subst h2; decide
  by_cases h3 : n = ":where".toStr
  · subst h3; decide
  by_cases h4 : n = ":is".toStr
  · subst h4; decide
  rw [modelFlags_other n h1 h2 h3 h4]; decide

/-- `C09Compile.fnName_facts` about the regenerated flags: `:not(` 0x43, `:is(` / `:where(` 0x441, `:matches(` 0x41. -/
theorem gen_NestedFlags (n : Str) (h : C09Compile.fnName n) : C09Compile.NestedFlags (openFlags n) := by
  rw [openFlags_eq_model]
  rcases h with h | h | h | h <;> subst h
  · exact Or.inl (by decide)
  · exact Or.inr (Or.inl (by decide))
  · exact Or.inr (Or.inl (by decide))
  · exact Or.inr (Or.inr (by decide))

/-- `C05Parse.fnFlags_facts` about the regenerated flags. -/
theorem gen_fnFlags_facts (n : Str) (h : C05Parse.isName n ∨ n = ":not".toStr) :
    Refine.Compile.relOf (openFlags n) = false ∧ Refine.Compile.ipOf (openFlags n) = true ∧
    (((openFlags n) &&& FLG_HTML) != 0) = false ∧
    (((openFlags n) &&& FLG_NOT) != 0) = (n == ":not".toStr) := by
  rw [openFlags_eq_fnFlags]
  obtain ⟨a, b, c, _, e⟩ := C05Parse.fnFlags_facts n h
  exact ⟨a, b, c, e⟩

/-- The frame the translator CHECKED in the source is the one the model implements (`.nest … t.stop t.stop fl …`,
    `addSub`, `hasSelector := true`). -/
theorem frame_checked :
    Gen.PyPseudoOpen.subParse = ("self.parse_selectors", ["iselector", "index", "flags"]) ∧
    Gen.PyPseudoOpen.appendTarget = "sel.selectors" ∧ Gen.PyPseudoOpen.setsHasSelector = true ∧
    Gen.PyPseudoOpen.returns = "has_selector" := by decide

end C06GenPseudoOpen
end SoupVerif
