/-
  C07 — "the time any of the library's regular expressions takes on any selector text or
  document attribute value grows at most polynomially with the input length".

  Model: the backtracking matcher `Rx.runs` (list of successes, with multiplicity).
  * `Rx.paths env s r i` = number of backtracking paths of `r` from `i`;
  * `Rx.work env s r i`  = number of sub-match attempts of an exhaustive backtracking search;
  * `Rx.Det r`      (decidable, syntactic) ⇒ all ends of `r` from any start are distinct;
  * `Rx.StarSafe r` (decidable, syntactic) = every unbounded repeat inside `r` (also inside
    look-arounds) is `Det`; bounded repeats are `Det` or have a `StarSafe` body.
  The environment hypothesis `EnvOK env` (folding = ASCII lower-casing on ASCII, non-ASCII never
  folds into ASCII) is what makes the ASCII tables of the first-sets exact; `asciiEnv` has it.

  Rung 1 of the ladder: everything is proved, for every generated expression (none excluded).
  `ends_nodup` is stated for `Det` (and for the unbounded repeats of a `StarSafe` expression),
  NOT for every `StarSafe` expression, because that would be false: `RE_CSS_ESC` is `StarSafe`
  but its top-level branches overlap (`\a` is matched by two branches, ends `[2, 2]`), which is a
  constant factor and not an iteration ambiguity.
-/
import SoupVerif.Lemmas.RegexCost
import SoupVerif.Generated.Regexes
namespace SoupVerif
namespace C07
open Rx

/-! ## Deterministic ⇒ unambiguous -/

/-- The end positions produced by a `Det` expression are pairwise distinct: no stretch of input
    is matched along two different backtracking paths. -/
theorem ends_nodup {r : Rx} (h : Det r = true) {env : CharEnv} (ok : EnvOK env)
    (s : Str) (i : Nat) (caps : Caps) : ((runs env s r i caps).map (·.1)).Nodup := by
  rw [runs_map_fst]; exact det_ends_nodup env ok s r h i

/-- Unique decomposition: every unbounded repeat accepted by `StarSafe` reaches each end
    position along exactly one sequence of body matches. -/
theorem iter_nodup {mn : Nat} {g : Bool} {body : Rx} (h : StarSafe (.rep mn none g body) = true)
    {env : CharEnv} (ok : EnvOK env) (s : Str) (i : Nat) (caps : Caps) :
    ((runs env s (.rep mn none g body) i caps).map (·.1)).Nodup :=
  ends_nodup (starSafe_star_det h) ok s i caps

/-- A `Det` expression has at most `|s| + 1` backtracking paths from any start. -/
theorem det_paths_le {r : Rx} (h : Det r = true) {env : CharEnv} (ok : EnvOK env)
    (s : Str) (i : Nat) (caps : Caps) : (runs env s r i caps).length ≤ s.length + 1 := by
  rw [← List.length_map (f := (·.1)), runs_map_fst]; exact det_length_le env ok s r h i

/-! ## Polynomial bounds -/

/-- The number of backtracking paths of a `StarSafe` expression is polynomial in `|s|`. -/
theorem paths_le {r : Rx} (h : StarSafe r = true) {env : CharEnv} (ok : EnvOK env)
    (s : Str) (i : Nat) (caps : Caps) :
    (runs env s r i caps).length ≤ pcoef r * (s.length + 1) ^ pdeg r := by
  rw [← List.length_map (f := (·.1)), runs_map_fst]; exact ends_poly env ok s r h i

/-- The cost function dominates the number of paths (no hypothesis). -/
theorem paths_le_work (env : CharEnv) (s : Str) (r : Rx) (i : Nat) :
    paths env s r i ≤ work env s r i := Rx.paths_le_work env s r i

/-- The work of an exhaustive backtracking search of a `StarSafe` expression is polynomial in
    `|s|`, with constants computed from the expression. -/
theorem work_poly {r : Rx} (h : StarSafe r = true) {env : CharEnv} (ok : EnvOK env)
    (s : Str) (i : Nat) : work env s r i ≤ wcoef r * (s.length + 1) ^ wdeg r :=
  work_poly_aux env ok s r h i

/-! ## The library's expressions -/

/-- Every regular expression generated from the Python source passes the check. -/
theorem all_safe : ∀ p ∈ Gen.allRegexes, Rx.StarSafe p.2 = true := by decide +kernel

/-- No generated expression had to be excluded. -/
def excluded : List String := []

/-- Uniform constants over all generated expressions. -/
def workC : Nat := listMax (Gen.allRegexes.map fun p => wcoef p.2)
def workK : Nat := listMax (Gen.allRegexes.map fun p => wdeg p.2)
def pathsC : Nat := listMax (Gen.allRegexes.map fun p => pcoef p.2)
def pathsK : Nat := listMax (Gen.allRegexes.map fun p => pdeg p.2)

/-- The constants are computed from the generated expressions (`#eval (workC, workK, pathsC, pathsK)`
    prints them); they are closed natural numbers, so the bounds below are concrete polynomials.
    (They are deliberately not pinned to literals: a harmless edit of a regular expression changes
    them.) -/
theorem consts_closed : ∃ a b c d : Nat, workC = a ∧ workK = b ∧ pathsC = c ∧ pathsK = d := ⟨_, _, _, _, rfl, rfl, rfl, rfl⟩

/-- Every library expression costs at most `workC * (|s|+1)^workK` sub-match attempts on any
    input `s` from any start, hence at most that many backtracking paths. -/
theorem tokenize_poly {env : CharEnv} (ok : EnvOK env) :
    ∀ p ∈ Gen.allRegexes, ∀ (s : Str) (i : Nat),
      work env s p.2 i ≤ workC * (s.length + 1) ^ workK ∧
      paths env s p.2 i ≤ workC * (s.length + 1) ^ workK := by
  intro p hp s i
  have hN : 0 < s.length + 1 := Nat.succ_pos _
  have h1 := work_poly (all_safe p hp) ok s i
  have hc : wcoef p.2 ≤ workC := le_listMax (List.mem_map.mpr ⟨p, hp, rfl⟩)
  have hk : wdeg p.2 ≤ workK := le_listMax (List.mem_map.mpr ⟨p, hp, rfl⟩)
  have h2 : work env s p.2 i ≤ workC * (s.length + 1) ^ workK :=
    Nat.le_trans h1 (Nat.mul_le_mul hc (Nat.pow_le_pow_right hN hk))
  exact ⟨h2, Nat.le_trans (Rx.paths_le_work env s p.2 i) h2⟩

/-- The same for the ASCII environment the driver uses. -/
theorem tokenize_poly_ascii :
    ∀ p ∈ Gen.allRegexes, ∀ (s : Str) (i : Nat),
      work asciiEnv s p.2 i ≤ workC * (s.length + 1) ^ workK := by
  intro p hp s i
  exact (tokenize_poly asciiEnv_ok p hp s i).1

/-- Sharper bound on the number of backtracking paths of every library expression. -/
theorem tokenize_paths_poly {env : CharEnv} (ok : EnvOK env) :
    ∀ p ∈ Gen.allRegexes, ∀ (s : Str) (i : Nat),
      paths env s p.2 i ≤ pathsC * (s.length + 1) ^ pathsK := by
  intro p hp s i
  have hN : 0 < s.length + 1 := Nat.succ_pos _
  have h1 := paths_le (all_safe p hp) ok s i []
  have hc : pcoef p.2 ≤ pathsC := le_listMax (List.mem_map.mpr ⟨p, hp, rfl⟩)
  have hk : pdeg p.2 ≤ pathsK := le_listMax (List.mem_map.mpr ⟨p, hp, rfl⟩)
  exact Nat.le_trans h1 (Nat.mul_le_mul hc (Nat.pow_le_pow_right hN hk))

/-! ## The old defect is expressible and rejected -/

/-- The star of the old string pattern `"(?:\\.|[^\\"]+)*?"`: its body contains `[^\\"]+`. -/
def oldStar : Rx :=
  .rep 0 none false (.alt [.seq [.lit 92 false, .any false],
    .rep 1 none true (.set true [.ch 92, .ch 34] false)])
def oldValue : Rx := .seq [.lit 34 false, oldStar, .lit 34 false]
/-- `"` followed by `n` letters `a`, no closing quote. -/
def pump (n : Nat) : Str := 34 :: List.replicate n 97

example : StarSafe oldValue = false := by decide
example : StarSafe oldStar = false := by decide
/-- `2^n` backtracking paths through the star on `pump n`. -/
example : paths asciiEnv (pump 12) oldStar 1 = 2 ^ 12 := by decide +kernel
example : work asciiEnv (pump 12) oldValue 0 ≥ 2 ^ 10 := by decide +kernel
/-- The repaired attribute token (as generated) on `[a="aaa…` without a closing quote: linear
    (`5 n + 99`). -/
example : work asciiEnv ([91, 97, 61] ++ pump 12) Gen.tok_attribute 0 = 159 ∧
    work asciiEnv ([91, 97, 61] ++ pump 24) Gen.tok_attribute 0 = 219 := by decide +kernel

/-! ## Non-vacuity of the checker -/

example : StarSafe Gen.cp_RE_WS_BEGIN = true := by decide +kernel
example : StarSafe Gen.tok_combine = true := by decide +kernel
example : StarSafe Gen.tok_attribute = true := by decide +kernel
example : Det Gen.cp_RE_WS_BEGIN = true := by decide +kernel
/-- `StarSafe` does not imply distinct ends of the whole expression: two branches match `\a`. -/
example : Det Gen.cp_RE_CSS_ESC = false ∧ ends asciiEnv [92, 97] Gen.cp_RE_CSS_ESC 0 = [2, 2] := by
  decide +kernel

private def a : Rx := .lit 97 false
private def b : Rx := .lit 98 false
/-- `(a+)*` -/
example : StarSafe (.rep 0 none true (.rep 1 none true a)) = false := by decide
/-- `(a|a)*` -/
example : StarSafe (.rep 0 none true (.alt [a, a])) = false := by decide
/-- `(a*)*` -/
example : StarSafe (.rep 0 none true (.rep 0 none true a)) = false := by decide
/-- `(ab?b?)*` -/
example : StarSafe (.rep 0 none true
    (.seq [a, .rep 0 (some 1) true b, .rep 0 (some 1) true b])) = false := by decide
/-- `(a|ab)(b|c)*`-style overlap inside a star: `(?:a|ab)*` -/
example : StarSafe (.rep 0 none true (.alt [a, .seq [a, b]])) = false := by decide
/-- the old hex-escape overlap `(?:\\[a-f0-9]{1,6}|\\[^\r\n\f])+` -/
example : StarSafe (.rep 1 none true (.alt [
    .seq [.lit 92 false, .rep 1 (some 6) true (.set false [.range 97 102, .range 48 57] false)],
    .seq [.lit 92 false, .set true [.ch 13, .ch 10, .ch 12] false]])) = false := by decide
/-- `(ab)*`, `(a|b)*`, `(a*b)*` are accepted -/
example : StarSafe (.rep 0 none true (.seq [a, b])) = true := by decide
example : StarSafe (.rep 0 none true (.alt [a, b])) = true := by decide
example : StarSafe (.rep 0 none true (.seq [.rep 0 none true a, b])) = true := by decide

end C07
end SoupVerif
