/-
  C07 — "the time any of the library's regular expressions takes on any selector text or
  document attribute value grows at most polynomially with the input length".

  Model: the backtracking matcher `Rx.runs` (list of successes, with multiplicity).
  * `Rx.paths env s r i` = number of backtracking paths of `r` from `i`;
  * `Rx.work env s r i`  = number of sub-match attempts of an exhaustive backtracking search;
  * `Rx.Det sp r`      (decidable, syntactic) ⇒ all ends of `r` from any start are distinct;
  * `Rx.StarSafe sp r` (decidable, syntactic) = every unbounded repeat inside `r` (also inside
    look-arounds) is `Det`; bounded repeats are `Det` or have a `StarSafe` body.
  The analysis is parameterised by a list `sp : Specials` of non-ASCII code points that
  case-insensitive matching identifies with ASCII letters.  The environment hypothesis
  `EnvOK sp env` (folding = ASCII lower-casing on ASCII; every special folds to its ASCII image;
  no other non-ASCII code point folds into ASCII) is what makes the first-set tables sound:
  * `asciiEnv` (the driver's environment) has it for `sp = []`;
  * `pyFoldEnv` has it for `sp = foldSpecials`: the four code points `İ ı ſ K` that Python's
    `re.IGNORECASE` identifies with `i i s k`.  Every special code point has its own exact
    column in the tables, so an expression that is ambiguous only because of such a code point
    is rejected (examples at the end).

  Rung 1 of the ladder: everything is proved, for every generated expression (none excluded),
  for both environments.
  `ends_nodup` is stated for `Det` (and for the unbounded repeats of a `StarSafe` expression),
  NOT for every `StarSafe` expression, because that would be false: `RE_CSS_ESC` is `StarSafe`
  but its top-level branches overlap (`\a` is matched by two branches, ends `[2, 2]`), which is a
  constant factor and not an iteration ambiguity.
-/
import SoupVerif.Lemmas.RegexCost
import SoupVerif.Generated.Regexes
set_option autoImplicit false
namespace SoupVerif
namespace C07
open Rx

/-! ## Deterministic ⇒ unambiguous -/

/-- The end positions produced by a `Det` expression are pairwise distinct: no stretch of input
    is matched along two different backtracking paths. -/
theorem ends_nodup {sp : Specials} {r : Rx} (h : Det sp r = true) {env : CharEnv}
    (ok : EnvOK sp env) (s : Str) (i : Nat) (caps : Caps) :
    ((runs env s r i caps).map (·.1)).Nodup := by
  rw [runs_map_fst]; exact det_ends_nodup env ok s r h i

/-- Unique decomposition: every unbounded repeat accepted by `StarSafe` reaches each end
    position along exactly one sequence of body matches. -/
theorem iter_nodup {sp : Specials} {mn : Nat} {g : Bool} {body : Rx}
    (h : StarSafe sp (.rep mn none g body) = true)
    {env : CharEnv} (ok : EnvOK sp env) (s : Str) (i : Nat) (caps : Caps) :
    ((runs env s (.rep mn none g body) i caps).map (·.1)).Nodup :=
  ends_nodup (starSafe_star_det h) ok s i caps

/-- A `Det` expression has at most `|s| + 1` backtracking paths from any start. -/
theorem det_paths_le {sp : Specials} {r : Rx} (h : Det sp r = true) {env : CharEnv}
    (ok : EnvOK sp env) (s : Str) (i : Nat) (caps : Caps) :
    (runs env s r i caps).length ≤ s.length + 1 := by
  rw [← List.length_map (f := (·.1)), runs_map_fst]; exact det_length_le env ok s r h i

/-! ## Polynomial bounds -/

/-- The number of backtracking paths of a `StarSafe` expression is polynomial in `|s|`. -/
theorem paths_le {sp : Specials} {r : Rx} (h : StarSafe sp r = true) {env : CharEnv}
    (ok : EnvOK sp env) (s : Str) (i : Nat) (caps : Caps) :
    (runs env s r i caps).length ≤ pcoef sp r * (s.length + 1) ^ pdeg sp r := by
  rw [← List.length_map (f := (·.1)), runs_map_fst]; exact ends_poly env ok s r h i

/-- The cost function dominates the number of paths (no hypothesis). -/
theorem paths_le_work (env : CharEnv) (s : Str) (r : Rx) (i : Nat) :
    paths env s r i ≤ work env s r i := Rx.paths_le_work env s r i

/-- The work of an exhaustive backtracking search of a `StarSafe` expression is polynomial in
    `|s|`, with constants computed from the expression. -/
theorem work_poly {sp : Specials} {r : Rx} (h : StarSafe sp r = true) {env : CharEnv}
    (ok : EnvOK sp env) (s : Str) (i : Nat) :
    work env s r i ≤ wcoef sp r * (s.length + 1) ^ wdeg sp r :=
  work_poly_aux env ok s r h i

/-! ## The two environments -/

/-- The driver's ASCII environment satisfies the hypothesis with no special code points. -/
theorem asciiEnv_ok : EnvOK [] asciiEnv := Rx.asciiEnv_ok

/-- Python's `re.IGNORECASE | re.UNICODE` folding, as far as ASCII is concerned: `İ ı ſ K` are
    identified with `i i s k`; no other non-ASCII code point is identified with an ASCII one. -/
theorem pyFoldEnv_ok : EnvOK foldSpecials pyFoldEnv := Rx.pyFoldEnv_ok

/-! ## The library's expressions -/

/-- Every regular expression generated from the Python source passes the check made for the
    ASCII environment (no special code points). -/
theorem all_safe_ascii : ∀ p ∈ Gen.allRegexes, Rx.StarSafe [] p.2 = true := by decide +kernel

/-- Every regular expression generated from the Python source passes the check that takes
    Python's four non-ASCII/ASCII case identifications into account. -/
theorem all_safe_py : ∀ p ∈ Gen.allRegexes, Rx.StarSafe foldSpecials p.2 = true := by
  decide +kernel

/-- Both checks. -/
theorem all_safe : ∀ p ∈ Gen.allRegexes,
    Rx.StarSafe [] p.2 = true ∧ Rx.StarSafe foldSpecials p.2 = true :=
  fun p hp => ⟨all_safe_ascii p hp, all_safe_py p hp⟩

/-- No generated expression had to be excluded (for either list of special code points). -/
def excluded : List String := []

/-- Uniform constants over all generated expressions, for the check made with `sp`. -/
def workCOf (sp : Specials) : Nat := listMax (Gen.allRegexes.map fun p => wcoef sp p.2)
def workKOf (sp : Specials) : Nat := listMax (Gen.allRegexes.map fun p => wdeg sp p.2)
def pathsCOf (sp : Specials) : Nat := listMax (Gen.allRegexes.map fun p => pcoef sp p.2)
def pathsKOf (sp : Specials) : Nat := listMax (Gen.allRegexes.map fun p => pdeg sp p.2)

/-- Uniform constants valid for both environments: the maximum of the two.  (At present the two
    checks yield the same constants — `#eval (workCOf [], workKOf [], pathsCOf [], pathsKOf [])`
    and the same for `foldSpecials` print `(2311, 19, 5, 9)` — i.e. no library expression's
    determinism depends on the special code points; nothing below relies on that.) -/
def workC : Nat := max (workCOf []) (workCOf foldSpecials)
def workK : Nat := max (workKOf []) (workKOf foldSpecials)
def pathsC : Nat := max (pathsCOf []) (pathsCOf foldSpecials)
def pathsK : Nat := max (pathsKOf []) (pathsKOf foldSpecials)

/-- The constants are computed from the generated expressions (`#eval (workC, workK, pathsC, pathsK)`
    prints them); they are closed natural numbers, so the bounds below are concrete polynomials.
    (They are deliberately not pinned to literals: a harmless edit of a regular expression changes
    them.) -/
theorem consts_closed : ∃ a b c d : Nat, workC = a ∧ workK = b ∧ pathsC = c ∧ pathsK = d := ⟨_, _, _, _, rfl, rfl, rfl, rfl⟩

/-- Every expression of a list that passes the check made with `sp` costs, in any environment
    satisfying `EnvOK sp`, at most `workCOf sp * (|s|+1)^workKOf sp` sub-match attempts on any
    input `s` from any start, hence at most that many backtracking paths. -/
theorem tokenize_poly_of {sp : Specials} (hs : ∀ p ∈ Gen.allRegexes, StarSafe sp p.2 = true)
    {env : CharEnv} (ok : EnvOK sp env) :
    ∀ p ∈ Gen.allRegexes, ∀ (s : Str) (i : Nat),
      work env s p.2 i ≤ workCOf sp * (s.length + 1) ^ workKOf sp ∧
      paths env s p.2 i ≤ workCOf sp * (s.length + 1) ^ workKOf sp := by
  intro p hp s i
  have hN : 0 < s.length + 1 := Nat.succ_pos _
  have h1 := work_poly (hs p hp) ok s i
  have hc : wcoef sp p.2 ≤ workCOf sp := le_listMax (List.mem_map.mpr ⟨p, hp, rfl⟩)
  have hk : wdeg sp p.2 ≤ workKOf sp := le_listMax (List.mem_map.mpr ⟨p, hp, rfl⟩)
  have h2 : work env s p.2 i ≤ workCOf sp * (s.length + 1) ^ workKOf sp :=
    Nat.le_trans h1 (Nat.mul_le_mul hc (Nat.pow_le_pow_right hN hk))
  exact ⟨h2, Nat.le_trans (Rx.paths_le_work env s p.2 i) h2⟩

/-- Sharper bound on the number of backtracking paths. -/
theorem tokenize_paths_poly_of {sp : Specials}
    (hs : ∀ p ∈ Gen.allRegexes, StarSafe sp p.2 = true) {env : CharEnv} (ok : EnvOK sp env) :
    ∀ p ∈ Gen.allRegexes, ∀ (s : Str) (i : Nat),
      paths env s p.2 i ≤ pathsCOf sp * (s.length + 1) ^ pathsKOf sp := by
  intro p hp s i
  have hN : 0 < s.length + 1 := Nat.succ_pos _
  have h1 := paths_le (hs p hp) ok s i []
  have hc : pcoef sp p.2 ≤ pathsCOf sp := le_listMax (List.mem_map.mpr ⟨p, hp, rfl⟩)
  have hk : pdeg sp p.2 ≤ pathsKOf sp := le_listMax (List.mem_map.mpr ⟨p, hp, rfl⟩)
  exact Nat.le_trans h1 (Nat.mul_le_mul hc (Nat.pow_le_pow_right hN hk))

private theorem widen {x c k C K N : Nat} (hN : 0 < N) (h : x ≤ c * N ^ k) (hc : c ≤ C)
    (hk : k ≤ K) : x ≤ C * N ^ K :=
  Nat.le_trans h (Nat.mul_le_mul hc (Nat.pow_le_pow_right hN hk))

/-- Every library expression costs at most `workC * (|s|+1)^workK` sub-match attempts on any
    input `s` from any start, hence at most that many backtracking paths, in every environment
    whose folding identifies exactly Python's four special code points with ASCII letters. -/
theorem tokenize_poly {env : CharEnv} (ok : EnvOK foldSpecials env) :
    ∀ p ∈ Gen.allRegexes, ∀ (s : Str) (i : Nat),
      work env s p.2 i ≤ workC * (s.length + 1) ^ workK ∧
      paths env s p.2 i ≤ workC * (s.length + 1) ^ workK := by
  intro p hp s i
  have hN : 0 < s.length + 1 := Nat.succ_pos _
  obtain ⟨h1, h2⟩ := tokenize_poly_of all_safe_py ok p hp s i
  exact ⟨widen hN h1 (Nat.le_max_right _ _) (Nat.le_max_right _ _),
    widen hN h2 (Nat.le_max_right _ _) (Nat.le_max_right _ _)⟩

/-- The bound for Python's case-insensitive matching (`re.I | re.U`), including the four
    non-ASCII code points that match ASCII letters. -/
theorem tokenize_poly_py :
    ∀ p ∈ Gen.allRegexes, ∀ (s : Str) (i : Nat),
      work pyFoldEnv s p.2 i ≤ workC * (s.length + 1) ^ workK := by
  intro p hp s i
  exact (tokenize_poly pyFoldEnv_ok p hp s i).1

/-- The same for every environment without special code points … -/
theorem tokenize_poly_nosp {env : CharEnv} (ok : EnvOK [] env) :
    ∀ p ∈ Gen.allRegexes, ∀ (s : Str) (i : Nat),
      work env s p.2 i ≤ workC * (s.length + 1) ^ workK ∧
      paths env s p.2 i ≤ workC * (s.length + 1) ^ workK := by
  intro p hp s i
  have hN : 0 < s.length + 1 := Nat.succ_pos _
  obtain ⟨h1, h2⟩ := tokenize_poly_of all_safe_ascii ok p hp s i
  exact ⟨widen hN h1 (Nat.le_max_left _ _) (Nat.le_max_left _ _),
    widen hN h2 (Nat.le_max_left _ _) (Nat.le_max_left _ _)⟩

/-- … in particular for the ASCII environment the driver uses. -/
theorem tokenize_poly_ascii :
    ∀ p ∈ Gen.allRegexes, ∀ (s : Str) (i : Nat),
      work asciiEnv s p.2 i ≤ workC * (s.length + 1) ^ workK := by
  intro p hp s i
  exact (tokenize_poly_nosp asciiEnv_ok p hp s i).1

/-- Sharper bound on the number of backtracking paths of every library expression (Python's
    special code points). -/
theorem tokenize_paths_poly {env : CharEnv} (ok : EnvOK foldSpecials env) :
    ∀ p ∈ Gen.allRegexes, ∀ (s : Str) (i : Nat),
      paths env s p.2 i ≤ pathsC * (s.length + 1) ^ pathsK := by
  intro p hp s i
  exact widen (Nat.succ_pos _) (tokenize_paths_poly_of all_safe_py ok p hp s i)
    (Nat.le_max_right _ _) (Nat.le_max_right _ _)

theorem tokenize_paths_poly_py :
    ∀ p ∈ Gen.allRegexes, ∀ (s : Str) (i : Nat),
      paths pyFoldEnv s p.2 i ≤ pathsC * (s.length + 1) ^ pathsK :=
  tokenize_paths_poly pyFoldEnv_ok

theorem tokenize_paths_poly_ascii :
    ∀ p ∈ Gen.allRegexes, ∀ (s : Str) (i : Nat),
      paths asciiEnv s p.2 i ≤ pathsC * (s.length + 1) ^ pathsK := by
  intro p hp s i
  exact widen (Nat.succ_pos _) (tokenize_paths_poly_of all_safe_ascii asciiEnv_ok p hp s i)
    (Nat.le_max_left _ _) (Nat.le_max_left _ _)

/-! ## The old defect is expressible and rejected -/

/-- The star of the old string pattern `"(?:\\.|[^\\"]+)*?"`: its body contains `[^\\"]+`. -/
def oldStar : Rx :=
  .rep 0 none false (.alt [.seq [.lit 92 false, .any false],
    .rep 1 none true (.set true [.ch 92, .ch 34] false)])
def oldValue : Rx := .seq [.lit 34 false, oldStar, .lit 34 false]
/-- `"` followed by `n` letters `a`, no closing quote. -/
def pump (n : Nat) : Str := 34 :: List.replicate n 97

example : StarSafe [] oldValue = false := by decide
example : StarSafe [] oldStar = false := by decide
example : StarSafe foldSpecials oldValue = false := by decide
example : StarSafe foldSpecials oldStar = false := by decide
/-- `2^n` backtracking paths through the star on `pump n`. -/
example : paths asciiEnv (pump 12) oldStar 1 = 2 ^ 12 := by decide +kernel
example : paths pyFoldEnv (pump 12) oldStar 1 = 2 ^ 12 := by decide +kernel
example : work asciiEnv (pump 12) oldValue 0 ≥ 2 ^ 10 := by decide +kernel
/-- The repaired attribute token (as generated) on `[a="aaa…` without a closing quote: linear
    (`5 n + 99`). -/
example : work asciiEnv ([91, 97, 61] ++ pump 12) Gen.tok_attribute 0 = 159 ∧
    work asciiEnv ([91, 97, 61] ++ pump 24) Gen.tok_attribute 0 = 219 := by decide +kernel
example : work pyFoldEnv ([91, 97, 61] ++ pump 12) Gen.tok_attribute 0 = 159 ∧
    work pyFoldEnv ([91, 97, 61] ++ pump 24) Gen.tok_attribute 0 = 219 := by decide +kernel

/-! ## Non-vacuity of the checker -/

example : StarSafe [] Gen.cp_RE_WS_BEGIN = true := by decide +kernel
example : StarSafe [] Gen.tok_combine = true := by decide +kernel
example : StarSafe [] Gen.tok_attribute = true := by decide +kernel
example : Det [] Gen.cp_RE_WS_BEGIN = true := by decide +kernel
example : StarSafe foldSpecials Gen.cp_RE_WS_BEGIN = true := by decide +kernel
example : StarSafe foldSpecials Gen.tok_combine = true := by decide +kernel
example : StarSafe foldSpecials Gen.tok_attribute = true := by decide +kernel
example : Det foldSpecials Gen.cp_RE_WS_BEGIN = true := by decide +kernel
/-- `StarSafe` does not imply distinct ends of the whole expression: two branches match `\a`. -/
example : Det [] Gen.cp_RE_CSS_ESC = false ∧ Det foldSpecials Gen.cp_RE_CSS_ESC = false ∧
    ends asciiEnv [92, 97] Gen.cp_RE_CSS_ESC 0 = [2, 2] := by
  decide +kernel

private def a : Rx := .lit 97 false
private def b : Rx := .lit 98 false
/-- `(a+)*` -/
example : StarSafe [] (.rep 0 none true (.rep 1 none true a)) = false := by decide
/-- `(a|a)*` -/
example : StarSafe [] (.rep 0 none true (.alt [a, a])) = false := by decide
/-- `(a*)*` -/
example : StarSafe [] (.rep 0 none true (.rep 0 none true a)) = false := by decide
/-- `(ab?b?)*` -/
example : StarSafe [] (.rep 0 none true
    (.seq [a, .rep 0 (some 1) true b, .rep 0 (some 1) true b])) = false := by decide
/-- `(a|ab)(b|c)*`-style overlap inside a star: `(?:a|ab)*` -/
example : StarSafe [] (.rep 0 none true (.alt [a, .seq [a, b]])) = false := by decide
/-- the old hex-escape overlap `(?:\\[a-f0-9]{1,6}|\\[^\r\n\f])+` -/
example : StarSafe [] (.rep 1 none true (.alt [
    .seq [.lit 92 false, .rep 1 (some 6) true (.set false [.range 97 102, .range 48 57] false)],
    .seq [.lit 92 false, .set true [.ch 13, .ch 10, .ch 12] false]])) = false := by decide
/-- `(ab)*`, `(a|b)*`, `(a*b)*` are accepted -/
example : StarSafe [] (.rep 0 none true (.seq [a, b])) = true := by decide
example : StarSafe [] (.rep 0 none true (.alt [a, b])) = true := by decide
example : StarSafe [] (.rep 0 none true (.seq [.rep 0 none true a, b])) = true := by decide
/-- the same verdicts with Python's special code points -/
example : StarSafe foldSpecials (.rep 0 none true (.rep 1 none true a)) = false := by decide
example : StarSafe foldSpecials (.rep 0 none true (.alt [a, a])) = false := by decide
example : StarSafe foldSpecials (.rep 0 none true (.alt [a, .seq [a, b]])) = false := by decide
example : StarSafe foldSpecials (.rep 0 none true (.seq [a, b])) = true := by decide
example : StarSafe foldSpecials (.rep 0 none true (.alt [a, b])) = true := by decide
example : StarSafe foldSpecials (.rep 0 none true (.seq [.rep 0 none true a, b])) = true := by
  decide

/-! ## The analysis sees the special code points

Expressions that are ambiguous *only* because a non-ASCII code point is case-insensitively equal
to an ASCII letter: accepted when there are no special code points (correctly: they are
unambiguous under `asciiEnv`), rejected for Python's (correctly: exponentially many paths under
`pyFoldEnv`). -/

/-- `n` copies of `ſ` (U+017F). -/
def longS (n : Nat) : Str := List.replicate n 383
/-- `n` copies of `K` (U+212A, KELVIN SIGN). -/
def kelvins (n : Nat) : Str := List.replicate n 8490

/-- `(?i)(?:[is]|[\x80-\U0010ffff])*`: `ſ` matches `[is]` (it folds to `s`) and the range. -/
def foldAmb : Rx :=
  .rep 0 none true (.alt [.set false [.ch 105, .ch 115] true, .set false [.range 128 1114111] true])
example : StarSafe [] foldAmb = true := by decide
example : StarSafe foldSpecials foldAmb = false := by decide
example : setHas pyFoldEnv false [.ch 105, .ch 115] true 383 = true ∧
    setHas pyFoldEnv false [.range 128 1114111] true 383 = true ∧
    setHas asciiEnv false [.ch 105, .ch 115] true 383 = false := by decide
/-- `2^(n+1) - 1` backtracking paths on `ſ…ſ` with Python's folding, `n + 1` with ASCII folding. -/
example : paths pyFoldEnv (longS 12) foldAmb 0 = 2 ^ 13 - 1 := by decide +kernel
example : paths asciiEnv (longS 12) foldAmb 0 = 13 := by decide +kernel
example : work pyFoldEnv (longS 12) foldAmb 0 ≥ 2 ^ 13 := by decide +kernel

/-- `(?:(?i:[is])|[^\x00-\x7f])*`: the case-sensitive negated class matches `ſ`, and so does
    the case-insensitive `[is]`. -/
def foldAmb2 : Rx :=
  .rep 0 none true (.alt [.set false [.ch 105, .ch 115] true, .set true [.range 0 127] false])
example : StarSafe [] foldAmb2 = true := by decide
example : StarSafe foldSpecials foldAmb2 = false := by decide
example : paths pyFoldEnv (longS 12) foldAmb2 0 = 2 ^ 13 - 1 := by decide +kernel

/-- `(?i)(?:k|K)*`: with Python's folding both literals match `k`, `K` and `K`. -/
def foldAmb3 : Rx := .rep 0 none true (.alt [.lit 107 true, .lit 8490 true])
example : StarSafe [] foldAmb3 = true := by decide
example : StarSafe foldSpecials foldAmb3 = false := by decide
example : paths pyFoldEnv (kelvins 12) foldAmb3 0 = 2 ^ 13 - 1 := by decide +kernel
example : paths pyFoldEnv (List.replicate 12 107) foldAmb3 0 = 2 ^ 13 - 1 := by decide +kernel
example : paths asciiEnv (kelvins 12) foldAmb3 0 = 13 := by decide +kernel

/-- The special columns are exact, not merely pessimistic.  In `(?i)(?:[is]|[^\x00-\x7f])*` the
    negated class does *not* match `ſ` under ignore-case (`ſ` folds to `s`, which the class
    excludes — in the model as in Python), so the expression is unambiguous and accepted. -/
def foldOk : Rx :=
  .rep 0 none true (.alt [.set false [.ch 105, .ch 115] true, .set true [.range 0 127] true])
example : setHas pyFoldEnv true [.range 0 127] true 383 = false := by decide
example : StarSafe [] foldOk = true := by decide
example : StarSafe foldSpecials foldOk = true := by decide
example : paths pyFoldEnv (longS 12) foldOk 0 = 13 := by decide +kernel
/-- `(?i)(?:s|ı)*`: `ı` (U+0131) folds to `i`, not `s`: accepted. -/
example : StarSafe foldSpecials (.rep 0 none true (.alt [.lit 115 true, .lit 305 true])) = true := by
  decide
/-- `(?i)(?:i|ı)*`, `(?i)(?:İ|ı)*`: rejected. -/
example : StarSafe foldSpecials (.rep 0 none true (.alt [.lit 105 true, .lit 305 true])) = false := by
  decide
example : StarSafe foldSpecials (.rep 0 none true (.alt [.lit 304 true, .lit 305 true])) = false := by
  decide
/-- … but case-sensitively `İ` and `ı` are different characters. -/
example : StarSafe foldSpecials (.rep 0 none true (.alt [.lit 304 false, .lit 305 false])) = true := by
  decide

end C07
end SoupVerif
