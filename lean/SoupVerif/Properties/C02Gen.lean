/-
  C02: the An+B block of `CSSParser.parse_pseudo_nth`, TRANSLATED from the source on every run
  (`gen/gen_py_anb.py` → `Generated/PyAnB.lean`: `Gen.PyAnB.anb content groups`, a statement-by-statement
  translation of the Python from `if content == 'even':` to the two `int(…, 10)` calls, over the named groups of a
  `RE_NTH` match; Python's string operations and exceptions are those of `Model/PyStr.lean`).

  `genAnB env content` runs that definition on the match the regex-engine model computes on the REGENERATED
  `RE_NTH` (`Gen.PyAnB.regex`), groups looked up by NAME in the regenerated group table.

  THEOREMS
    * `anb_closed`    — for every text other than `even` / `odd` and every group assignment with group `a`
                        present: the generated block is `int(_s1, 10)`, `int(_s2, 10)` under `except ValueError`
                        on exactly the strings `_s1`, `_s2` and the flag `var` that the hand-written model
                        (`Parser.parseAnB`, `Refine.Compile.anbCore`) builds (`coreStrs`);
    * `gen_sound`     — for EVERY `content : Str` (no hypothesis on it): if the generated block returns `(a, b, var)`
                        then the hand model `parseAnB` returns `(a, var, b)`;
    * `gen_total`     — for every spelling `x` the `nth` tokens accept (`SAnB.ok`, any letter case, gaps, comments)
                        with at most 4300 digits per digit string (`digitsLe`), on `lower x.render` (what
                        `parse_pseudo_nth` passes): the generated block returns a value — `int('')`, `int('-')`,
                        `None.endswith`, `'' + None` cannot occur;
    * `gen_eq_model`  — hence it equals the hand model there;
    * `gen_anb_value` — and returns `(A, B, True)` / `(B, 0, False)` with `(A, B) = anbValue x`, the CSS value of the
                        spelling (CSS Syntax §6, `Refine/C02ParseAnB.lean`);
    * `gen_designates`— `C02Parse.parse_anb_value_text` restated for the generated block: as `match_nth` reads the
                        record, it designates exactly `{A·n + B | n ≥ 0}`;
    * `gen_overflow`  — see below; non-vacuity examples at the end.

  WHERE GENERATED AND HAND MODEL DIFFER (known, `Refine/C02ParseAnB.lean` header): Python's `int()` refuses more
  than 4300 digits and `parse_pseudo_nth` raises `SelectorSyntaxError`; `PyStr.int10` models the limit, the hand
  model's `parseInt` does not.  `gen_sound` holds regardless (an error is not a value); `gen_total` needs `digitsLe`.
  On a text `RE_NTH` does not match, Python raises `AttributeError` (`None.group`), `genAnB` returns
  `.error .attributeError`, the hand model returns the dummy `(0, false, 0)` — unreachable: the `nth` token's own
  pattern guarantees the match.
-/
import SoupVerif.Generated.PyAnB
import SoupVerif.Refine.C02ParseAnB
namespace SoupVerif
namespace C02Gen
open SoupVerif.Parser Refine.Compile Refine.C02Parse PyStr Spelling Escape

theorem isPrefixOf_single (c : Nat) (s : Str) : List.isPrefixOf [c] s = (s.head? == some c) := by
  cases s with
  | nil => rfl
  | cons d ds => simp [List.isPrefixOf, eq_comm]

theorem isSuffixOf_single (c : Nat) (s : Str) : List.isSuffixOf [c] s = (s.getLast? == some c) := by
  unfold List.isSuffixOf
  rw [List.reverse_singleton, isPrefixOf_single, List.head?_reverse]

theorem slice_dropLast (s : Str) : PyStr.slice (some s) none (some (-1)) = pure (s.take (s.length - 1)) := by
  simp [PyStr.slice, PyStr.sliceIdx]; rfl
theorem endswith_some (s t : Str) : PyStr.endswith (some s) t = pure (t.isSuffixOf s) := rfl
theorem startswith_some (s t : Str) : PyStr.startswith (some s) t = pure (t.isPrefixOf s) := rfl
theorem concat_some (s t : Str) : PyStr.concat s (some t) = pure (s ++ t) := rfl

/-- the strings `_s1`, `_s2` handed to `int(…, 10)` and `var` -/
def coreStrs (s1 : Option Str) (a : Str) (s2 : Option Str) (b : Option Str) : Str × Str × Bool :=
  let s1' : Str := if s1 == some [45] then [45] else []
  let var := a.getLast? == some 110
  let s1'' := if a.head? == some 110 then s1' ++ [49]
    else if var then s1' ++ a.take (a.length - 1)
    else s1' ++ a
  let s2' : Str := if s2 == some [45] then [45] else []
  let s2'' := match b with
    | some b => if b.isEmpty then [48] else s2' ++ b
    | none => [48]
  (s1'', s2'', var)

theorem anbCore_eq (s1 : Option Str) (a : Str) (s2 b : Option Str) :
    anbCore s1 a s2 b = (parseInt (coreStrs s1 a s2 b).1, (coreStrs s1 a s2 b).2.2, parseInt (coreStrs s1 a s2 b).2.1) := rfl

theorem sign_eq (x : Option Str) :
    (if (PyStr.truthy x && (x == some "-".toStr)) = true then "-".toStr else "".toStr) = (if x == some [45] then [45] else []) := by
  have : "-".toStr = [45] := by decide
  have h2 : "".toStr = [] := by decide
  rw [this, h2]
  cases x with
  | none => rfl
  | some s =>
    by_cases h : s = [45]
    · subst h; rfl
    · simp [h]

theorem except_map {α β} (m : PyStr.M α) (e : PyStr.Err) (f : α → β) :
    (PyStr.exceptValueError m e >>= fun x => pure (f x)) = PyStr.exceptValueError (m >>= fun x => pure (f x)) e := by
  cases m with
  | ok v => rfl
  | error er => cases er <;> rfl

theorem lit_n : "n".toStr = [110] := by decide
theorem lit_1 : "1".toStr = [49] := by decide
theorem lit_0 : "0".toStr = [48] := by decide

theorem anb_closed (content : Str) (g : String → Option Str)
    (h1 : (content == "even".toStr) = false) (h2 : (content == "odd".toStr) = false) (a : Str) (ha : g "a" = some a) :
    Gen.PyAnB.anb content g =
      PyStr.exceptValueError (do
        let x ← PyStr.int10 (coreStrs (g "s1") a (g "s2") (g "b")).1
        let y ← PyStr.int10 (coreStrs (g "s1") a (g "s2") (g "b")).2.1
        pure (x, y, (coreStrs (g "s1") a (g "s2") (g "b")).2.2)) .selectorSyntaxError := by
  unfold Gen.PyAnB.anb
  simp only [h1, h2, ha, sign_eq]
  simp only [Bool.false_eq_true, if_false, endswith_some, startswith_some, slice_dropLast, lit_n, lit_1, lit_0,
    isPrefixOf_single, isSuffixOf_single, pure_bind, bind_assoc, bind_pure]
  have hS1 : (if (a.head? == some 110) = true then (pure ((if (g "s1" == some [45]) = true then [45] else []) ++ [49]) : PyStr.M Str)
      else if (a.getLast? == some 110) = true then
        pure ((if (g "s1" == some [45]) = true then [45] else []) ++ List.take (a.length - 1) a)
      else PyStr.concat (if (g "s1" == some [45]) = true then [45] else []) (some a)) =
      pure (coreStrs (g "s1") a (g "s2") (g "b")).1 := by
    simp only [coreStrs, concat_some]
    split <;> [rfl; (split <;> rfl)]
  have hS2 : (if PyStr.truthy (g "b") = true then PyStr.concat (if (g "s2" == some [45]) = true then [45] else []) (g "b")
      else (pure [48] : PyStr.M Str)) = pure (coreStrs (g "s1") a (g "s2") (g "b")).2.1 := by
    simp only [coreStrs]
    cases g "b" with
    | none => rfl
    | some b => cases b <;> rfl
  rw [hS1, hS2]
  simp only [pure_bind]
  refine (except_map _ _ (fun (x : Int × Int) => (x.1, x.2, a.getLast? == some 110))).trans ?_
  simp only [bind_assoc, pure_bind]
  rfl

/-! ## `int(text, 10)` -/

theorem int10_sound (s : Str) (v : Int) (h : PyStr.int10 s = .ok v) : parseInt s = v := by
  unfold PyStr.int10 at h
  split at h
  · split at h
    · cases h; rfl
    · cases h
  · split at h
    · cases h; rfl
    · cases h
  · rename_i hn45 _
    split at h
    · cases h; first | rfl | simp [parseInt, PyStr.digitsVal]
    · cases h

theorem isDigits_of (D : Str) (hD : ∀ x ∈ D, isDigit x = true) (hne : D ≠ []) : PyStr.isDigits D = true := by
  cases D with
  | nil => exact absurd rfl hne
  | cons d ds =>
    simp only [PyStr.isDigits, List.isEmpty_cons, Bool.not_false, Bool.true_and, List.all_eq_true]
    intro x hx
    have := hD x hx
    simpa [isDigit] using this

theorem int10_complete (pre D : Str) (hpre : pre = [] ∨ pre = [45]) (hD : ∀ x ∈ D, isDigit x = true) (hne : D ≠ [])
    (hlen : D.length ≤ PyStr.maxStrDigits) : PyStr.int10 (pre ++ D) = .ok (parseInt (pre ++ D)) := by
  have hdig := isDigits_of D hD hne
  rcases hpre with rfl | rfl
  · cases D with
    | nil => exact absurd rfl hne
    | cons d ds =>
      have hd := hD d (by simp)
      simp only [isDigit, Bool.and_eq_true, decide_eq_true_eq] at hd
      have h45 : d ≠ 45 := by omega
      have h43 : d ≠ 43 := by omega
      simp only [List.nil_append]
      unfold PyStr.int10
      split
      · rename_i e; injection e with e; exact absurd e h45
      · rename_i e; injection e with e; exact absurd e h43
      · simp only [hdig, hlen, decide_true, Bool.and_self, if_true]
        unfold parseInt
        split
        · rename_i e; injection e with e; exact absurd e h45
        · rfl
  · simp only [List.singleton_append, PyStr.int10, hdig, hlen, decide_true, Bool.and_self, if_true]
    rfl

/-! ## The generated block on a `RE_NTH` match of the regex-engine model -/

/-- `RE_NTH` as the generated block names it, with its group table. -/
def reNth : TokenRx := ⟨"RE_NTH", Gen.PyAnB.regex, Gen.PyAnB.regexGroups⟩

/-- The generated block run on `RE_NTH.match(content)` as the regex-engine model computes it on the
    regenerated AST (`nth_parts.group(name)` = look-up by NAME in the regenerated group table; no match:
    every look-up fails, as `None.group` does). -/
def genAnB (env : CharEnv) (content : Str) : PyStr.M (Int × Int × Bool) :=
  Gen.PyAnB.anb content fun name =>
    match Rx.matchAt env Gen.PyAnB.regex content 0 with
    | some (_, caps) => Parser.group content reNth caps name
    | none => none

theorem anb_even (g : String → Option Str) : Gen.PyAnB.anb "even".toStr g = .ok (2, 0, true) := by
  simp [Gen.PyAnB.anb]; rfl

theorem anb_odd (g : String → Option Str) : Gen.PyAnB.anb "odd".toStr g = .ok (2, 1, true) := by
  have : ("odd".toStr == "even".toStr) = false := by decide
  simp [Gen.PyAnB.anb, this]; rfl

theorem anb_no_a (content : Str) (g : String → Option Str)
    (h1 : (content == "even".toStr) = false) (h2 : (content == "odd".toStr) = false) (ha : g "a" = none) :
    Gen.PyAnB.anb content g = .error .attributeError := by
  unfold Gen.PyAnB.anb
  simp only [h1, h2, ha, PyStr.endswith]
  rfl

theorem closed_ok {S1 S2 : Str} {v : Bool} {r : Int × Int × Bool}
    (h : PyStr.exceptValueError (do
        let x ← PyStr.int10 S1
        let y ← PyStr.int10 S2
        pure (x, y, v)) .selectorSyntaxError = .ok r) :
    PyStr.int10 S1 = .ok r.1 ∧ PyStr.int10 S2 = .ok r.2.1 ∧ v = r.2.2 := by
  cases e1 : PyStr.int10 S1 with
  | error er => rw [e1] at h; cases er <;> cases h
  | ok x =>
    cases e2 : PyStr.int10 S2 with
    | error er => rw [e1, e2] at h; cases er <;> cases h
    | ok y => rw [e1, e2] at h; cases h; exact ⟨rfl, rfl, rfl⟩

/-- **Soundness, for EVERY text.**  Whenever the generated block returns a triple, the hand-written model of
    `parse_pseudo_nth` returns the same one. -/
theorem gen_sound (P : PEnv) (hrx : P.L.reNth.rx = Gen.PyAnB.regex) (hgr : P.L.reNth.groups = Gen.PyAnB.regexGroups)
    (content : Str) (r : Int × Int × Bool) (h : genAnB P.env content = .ok r) :
    parseAnB P content = (r.1, r.2.2, r.2.1) := by
  by_cases h1 : content = "even".toStr
  · subst h1
    rw [genAnB, anb_even] at h; cases h
    exact (parseAnB_kw P).1
  by_cases h2 : content = "odd".toStr
  · subst h2
    rw [genAnB, anb_odd] at h; cases h
    exact (parseAnB_kw P).2
  have h1' : (content == "even".toStr) = false := by simpa using h1
  have h2' : (content == "odd".toStr) = false := by simpa using h2
  unfold genAnB at h
  cases hm : Rx.matchAt P.env Gen.PyAnB.regex content 0 with
  | none =>
    rw [hm, anb_no_a content _ h1' h2' rfl] at h
    cases h
  | some q =>
    obtain ⟨j, caps⟩ := q
    rw [hm] at h
    cases ha : Parser.group content reNth caps "a" with
    | none => rw [anb_no_a content _ h1' h2' ha] at h; cases h
    | some a =>
      rw [anb_closed content _ h1' h2' a ha] at h
      obtain ⟨e1, e2, e3⟩ := closed_ok h
      have hm' : Rx.matchAt P.env P.L.reNth.rx content 0 = some (j, caps) := by rw [hrx]; exact hm
      have hg : ∀ n, Parser.group content P.L.reNth caps n = Parser.group content reNth caps n := by
        intro n; simp only [Parser.group, hgr, reNth]
      rw [parseAnB_of_match P content j caps h1' h2' hm', hg, hg, hg, hg, ha, anbCore_eq]
      simp only [Option.getD_some, int10_sound _ _ e1, int10_sound _ _ e2, e3]

/-! ## Totality on the accepted spellings -/

/-- `RE_NTH` on `[-+]? digits n? (gap [-+] gap digits)?`: the match and the texts of the four named groups
    (the facts inside `Refine.Compile.parseAnB_lin`, stated for the group table the generated block names). -/
theorem lin_groups (sg : Option Nat) (D : Str) (n : Option Nat) (T : Option (Str × Nat × Str × Str))
    (hok : (SAnB.lin sg D n T).ok) :
    ((SAnB.lin sg D n T).render == "even".toStr) = false ∧ ((SAnB.lin sg D n T).render == "odd".toStr) = false ∧
    ∃ j caps, Rx.matchAt pyFoldEnv Gen.PyAnB.regex (SAnB.lin sg D n T).render 0 = some (j, caps) ∧
      Parser.group (SAnB.lin sg D n T).render reNth caps "s1" = sg.map (fun x => [x]) ∧
      Parser.group (SAnB.lin sg D n T).render reNth caps "a" = some (D ++ n.toList) ∧
      Parser.group (SAnB.lin sg D n T).render reNth caps "s2" = T.map (fun q => [q.2.1]) ∧
      Parser.group (SAnB.lin sg D n T).render reNth caps "b" = T.map (fun q => q.2.2.2) := by
  obtain ⟨hsg, hD, hn, hne, hT⟩ := hok
  obtain ⟨h, hh, h101, h111⟩ : ∃ h, (SAnB.lin sg D n T).render.head? = some h ∧ h ≠ 101 ∧ h ≠ 111 := by
    simp only [SAnB.render]
    cases sg with
    | some x =>
      refine ⟨x, rfl, ?_⟩
      have := hsg x rfl
      simp only [isSign, Bool.or_eq_true, beq_iff_eq] at this
      omega
    | none =>
      cases D with
      | cons d ds =>
        refine ⟨d, rfl, ?_⟩
        have := hD d (by simp)
        simp only [isDigit, Bool.and_eq_true, decide_eq_true_eq] at this
        omega
      | nil =>
        cases n with
        | none => rcases hne with h | h; exact absurd rfl h; cases h
        | some y =>
          refine ⟨y, rfl, ?_⟩
          have := hn y rfl
          simp only [isN, Bool.or_eq_true, beq_iff_eq] at this
          omega
  refine ⟨ne_of_head hh rfl h101, ne_of_head hh rfl h111, 0 + (SAnB.lin sg D n T).render.length, (linCaps (Wrap.grp (SAnB.lin sg D n T).render 1) (Wrap.grp (SAnB.lin sg D n T).render 2) (Wrap.grp (SAnB.lin sg D n T).render 3) (Wrap.grp (SAnB.lin sg D n T).render 4) 0 [] sg D n T), ?_, ?_, ?_, ?_, ?_⟩
  · show Rx.matchAt pyFoldEnv Gen.cp_RE_NTH _ 0 = some (0 + (SAnB.lin sg D n T).render.length, (linCaps (Wrap.grp (SAnB.lin sg D n T).render 1) (Wrap.grp (SAnB.lin sg D n T).render 2) (Wrap.grp (SAnB.lin sg D n T).render 3) (Wrap.grp (SAnB.lin sg D n T).render 4) 0 [] sg D n T))
    rw [re_nth_shape (SAnB.lin sg D n T).render]
    unfold Rx.matchAt
    rw [RxBasic.runs_seq]
    exact lin_head _ _ _ _ 0 [] sg D n T [] (by simp [SAnB.render]) hsg hD hn hne hT (by simp)
      (by intro _ x hx; rw [SpellingLemmas.skipWSC_nil] at hx; simp at hx)
  all_goals obtain ⟨e1, e2, e3, e4⟩ := nth_spans (SAnB.lin sg D n T).render sg D n T
  · have f1 : Gen.cp_RE_NTH_groups.find? (fun g => g.1 == "s1") = some ("s1", 1) := by decide
    show Parser.group _ ⟨"RE_NTH", Gen.cp_RE_NTH, Gen.cp_RE_NTH_groups⟩ _ "s1" = _
    simp only [Parser.group, f1, e1]
    cases sg with
    | none => rfl
    | some x => simp [SAnB.render, Parser.slice]
  · have f2 : Gen.cp_RE_NTH_groups.find? (fun g => g.1 == "a") = some ("a", 2) := by decide
    show Parser.group _ ⟨"RE_NTH", Gen.cp_RE_NTH, Gen.cp_RE_NTH_groups⟩ _ "a" = _
    simp only [Parser.group, f2, e2, Option.map_some]
    congr 1
    have := slice_mid sg.toList (D ++ n.toList) (tailText T) sg.toList.length
      (sg.toList.length + D.length + n.toList.length) rfl (by simp only [List.length_append]; omega)
    simpa [SAnB.render, List.append_assoc] using this
  · have f3 : Gen.cp_RE_NTH_groups.find? (fun g => g.1 == "s2") = some ("s2", 3) := by decide
    show Parser.group _ ⟨"RE_NTH", Gen.cp_RE_NTH, Gen.cp_RE_NTH_groups⟩ _ "s2" = _
    simp only [Parser.group, f3, e3]
    cases T with
    | none => rfl
    | some q =>
      obtain ⟨g, s2, g', D2⟩ := q
      simp only [Option.map_some, Option.some.injEq]
      have := slice_mid (sg.toList ++ (D ++ (n.toList ++ g))) [s2] (g' ++ D2)
        (sg.toList.length + D.length + n.toList.length + g.length)
        (sg.toList.length + D.length + n.toList.length + g.length + 1)
        (by simp only [List.length_append]; omega)
        (by simp only [List.length_append, List.length_cons, List.length_nil]; omega)
      simpa [SAnB.render, tailText, List.append_assoc] using this
  · have f4 : Gen.cp_RE_NTH_groups.find? (fun g => g.1 == "b") = some ("b", 4) := by decide
    show Parser.group _ ⟨"RE_NTH", Gen.cp_RE_NTH, Gen.cp_RE_NTH_groups⟩ _ "b" = _
    simp only [Parser.group, f4, e4]
    cases T with
    | none => rfl
    | some q =>
      obtain ⟨g, s2, g', D2⟩ := q
      simp only [Option.map_some, Option.some.injEq]
      have := slice_mid (sg.toList ++ (D ++ (n.toList ++ (g ++ (s2 :: g'))))) D2 []
        (sg.toList.length + D.length + n.toList.length + g.length + 1 + g'.length)
        (sg.toList.length + D.length + n.toList.length + g.length + 1 + g'.length + D2.length)
        (by simp only [List.length_append, List.length_cons]; omega)
        (by simp only [List.length_append, List.length_cons]; omega)
      simpa [SAnB.render, tailText, List.append_assoc] using this

/-- At most `k` digits in each of the two digit strings of a spelling. -/
def digitsLe (k : Nat) : SAnB → Prop
  | .lin _ D _ T => D.length ≤ k ∧ ∀ q, T = some q → q.2.2.2.length ≤ k
  | _ => True

theorem sign_pre (x : Option Str) : (if x == some [45] then [45] else ([] : Str)) = [] ∨
    (if x == some [45] then [45] else ([] : Str)) = [45] := by
  split
  · exact Or.inr rfl
  · exact Or.inl rfl

theorem getLast_snoc (D : Str) : ((D ++ [110]).getLast? == some 110) = true := by simp
theorem take_snoc (D : Str) : (D ++ [110]).take ((D ++ [110]).length - 1) = D := by simp

/-- On the groups of a lower-case spelling with at most 4300 digits, both `int(…, 10)` calls succeed. -/
theorem core_lin_ok (sg : Option Nat) (D : Str) (n : Option Nat) (T : Option (Str × Nat × Str × Str))
    (hok : (SAnB.lin sg D n T).ok) (hn110 : ∀ x, n = some x → x = 110)
    (hlen : digitsLe PyStr.maxStrDigits (.lin sg D n T)) :
    PyStr.int10 (coreStrs (sg.map fun x => [x]) (D ++ n.toList) (T.map fun q => [q.2.1]) (T.map fun q => q.2.2.2)).1 =
      .ok (parseInt (coreStrs (sg.map fun x => [x]) (D ++ n.toList) (T.map fun q => [q.2.1]) (T.map fun q => q.2.2.2)).1) ∧
    PyStr.int10 (coreStrs (sg.map fun x => [x]) (D ++ n.toList) (T.map fun q => [q.2.1]) (T.map fun q => q.2.2.2)).2.1 =
      .ok (parseInt (coreStrs (sg.map fun x => [x]) (D ++ n.toList) (T.map fun q => [q.2.1]) (T.map fun q => q.2.2.2)).2.1) := by
  obtain ⟨hsg, hD, hn, hne, hT⟩ := hok
  obtain ⟨hl1, hl2⟩ := hlen
  constructor
  · have hp := sign_pre (sg.map fun x => [x])
    cases n with
    | none =>
      have hD0 : D ≠ [] := by rcases hne with h | h; exact h; cases h
      have hl : (D.getLast? == some 110) = false := by
        rw [beq_eq_false_iff_ne]; exact digits_getLast_ne D hD 110 (by omega)
      have hh : (D.head? == some 110) = false := by
        rw [beq_eq_false_iff_ne]; exact digits_head_ne D hD 110 (by omega)
      simp only [coreStrs, Option.toList_none, List.append_nil, hl, hh, Bool.false_eq_true, if_false]
      exact int10_complete _ D hp hD hD0 hl1
    | some y =>
      obtain rfl := hn110 y rfl
      cases D with
      | nil =>
        simp only [coreStrs, Option.toList_some, List.nil_append, List.head?_cons, beq_self_eq_true, if_true]
        exact int10_complete _ [49] hp (by decide) (by decide) (by decide)
      | cons d ds =>
        have hd : (((d :: ds) ++ [110]).head? == some 110) = false := by
          have := digits_head_ne (d :: ds) hD 110 (by omega)
          simpa using this
        have hl : (((d :: ds) ++ [110]).getLast? == some 110) = true := getLast_snoc (d :: ds)
        have htk : ((d :: ds) ++ [110]).take (((d :: ds) ++ [110]).length - 1) = d :: ds := take_snoc (d :: ds)
        simp only [coreStrs, Option.toList_some, hd, hl, htk, Bool.false_eq_true, if_false, if_true]
        exact int10_complete _ (d :: ds) hp hD (by simp) hl1
  · cases T with
    | none => simp only [coreStrs, Option.map_none]; rfl
    | some q =>
      obtain ⟨g, s2, g', D2⟩ := q
      obtain ⟨_, _, _, _, hne2, hD2⟩ := hT
      have he : D2.isEmpty = false := by cases D2 with | nil => exact absurd rfl hne2 | cons _ _ => rfl
      simp only [coreStrs, Option.map_some, he, Bool.false_eq_true, if_false]
      exact int10_complete _ D2 (sign_pre _) hD2 hne2 (hl2 _ rfl)

theorem closed_of_ok {S1 S2 : Str} {v : Bool} {x y : Int} (h1 : PyStr.int10 S1 = .ok x) (h2 : PyStr.int10 S2 = .ok y) :
    PyStr.exceptValueError (do
        let x ← PyStr.int10 S1
        let y ← PyStr.int10 S2
        pure (x, y, v)) .selectorSyntaxError = .ok (x, y, v) := by
  rw [h1, h2]; rfl

theorem gen_lin_ok (sg : Option Nat) (D : Str) (n : Option Nat) (T : Option (Str × Nat × Str × Str))
    (hok : (SAnB.lin sg D n T).ok) (hn110 : ∀ x, n = some x → x = 110)
    (hlen : digitsLe PyStr.maxStrDigits (.lin sg D n T)) :
    ∃ r, genAnB pyFoldEnv (SAnB.lin sg D n T).render = .ok r := by
  obtain ⟨h1, h2, j, caps, hm, g1, g2, g3, g4⟩ := lin_groups sg D n T hok
  obtain ⟨i1, i2⟩ := core_lin_ok sg D n T hok hn110 hlen
  refine ⟨(parseInt (coreStrs (sg.map fun x => [x]) (D ++ n.toList) (T.map fun q => [q.2.1]) (T.map fun q => q.2.2.2)).1,
    parseInt (coreStrs (sg.map fun x => [x]) (D ++ n.toList) (T.map fun q => [q.2.1]) (T.map fun q => q.2.2.2)).2.1,
    (coreStrs (sg.map fun x => [x]) (D ++ n.toList) (T.map fun q => [q.2.1]) (T.map fun q => q.2.2.2)).2.2), ?_⟩
  unfold genAnB
  rw [hm]
  rw [anb_closed _ _ h1 h2 _ g2, g1, g3, g4]
  exact closed_of_ok i1 i2

/-- **Totality on the accepted language.**  For every spelling `x` of An+B the `nth` tokens accept (`x.ok`:
    `Refine/CompileNthRx.lean`) whose digit strings have at most 4300 digits, the generated block, run on the
    lower-cased text as `parse_pseudo_nth` runs it, returns a value: the `ValueError` / `AttributeError` /
    `TypeError` branches are not taken. -/
theorem gen_total (x : SAnB) (hok : x.ok) (hlen : digitsLe PyStr.maxStrDigits x) :
    ∃ r, genAnB pyFoldEnv (lower x.render) = .ok r := by
  cases x with
  | even m =>
    have hl : lower (mixCase m "even".toStr) = "even".toStr := SpellingLemmas.lower_mixCase m _ (by decide)
    exact ⟨(2, 0, true), by simp only [SAnB.render, hl, genAnB, anb_even]⟩
  | odd m =>
    have hl : lower (mixCase m "odd".toStr) = "odd".toStr := SpellingLemmas.lower_mixCase m _ (by decide)
    exact ⟨(2, 1, true), by simp only [SAnB.render, hl, genAnB, anb_odd]⟩
  | lin sg D n T =>
    obtain ⟨e, hok'⟩ := lower_lin sg D n T hok
    rw [e]
    refine gen_lin_ok sg D _ _ hok' ?_ ⟨hlen.1, ?_⟩
    · intro x hx
      cases n with
      | none => cases hx
      | some y => simp at hx; exact hx.symm
    · intro q hq
      cases T with
      | none => cases hq
      | some t =>
        obtain ⟨g, s2, g', D2⟩ := t
        simp only [lowerTail, Option.some.injEq] at hq
        subst hq
        exact hlen.2 (g, s2, g', D2) rfl

/-- **The generated block computes the CSS value.**  For every accepted spelling `x` with at most 4300 digits
    per digit string: `(a, b, var)` is `(A, B, True)` when the `An` term is present and `(B, 0, False)` for a bare
    `<integer>`, with `(A, B) = anbValue x` the CSS value of `x` (`Refine/C02ParseAnB.lean`). -/
theorem gen_anb_value (x : SAnB) (hok : x.ok) (hlen : digitsLe PyStr.maxStrDigits x) :
    genAnB pyFoldEnv (lower x.render) =
      .ok (if hasN x then ((anbValue x).1, (anbValue x).2, true) else ((anbValue x).2, 0, false)) := by
  obtain ⟨r, hr⟩ := gen_total x hok hlen
  have hs := gen_sound (penv Gen.builtinsRec []) rfl rfl _ r hr
  rw [parseAnB_text_eq Gen.builtinsRec [] x hok] at hs
  rw [hr]
  obtain ⟨a, b, v⟩ := r
  cases h : hasN x <;> simp only [h, if_true, Bool.false_eq_true, if_false, Prod.mk.injEq] at hs ⊢ <;>
    obtain ⟨ha, hv, hb⟩ := hs <;> subst ha hv hb <;> rfl

/-- The generated block and the hand-written model agree on every accepted spelling (and the generated block
    does not fail there). -/
theorem gen_eq_model (B : Builtins) (pat : Str) (x : SAnB) (hok : x.ok) (hlen : digitsLe PyStr.maxStrDigits x) :
    genAnB pyFoldEnv (lower x.render) =
      .ok ((parseAnB (penv B pat) (lower x.render)).1, (parseAnB (penv B pat) (lower x.render)).2.2,
        (parseAnB (penv B pat) (lower x.render)).2.1) := by
  obtain ⟨r, hr⟩ := gen_total x hok hlen
  rw [gen_sound (penv B pat) rfl rfl _ r hr, hr]

/-- **`parse_anb_value` for the generated block**: read the way `match_nth` reads the record
    (`idx = a * count + b if var else a`), the triple the generated block returns designates exactly the
    positions `{A·n + B | n ≥ 0}`. -/
theorem gen_designates (x : SAnB) (hok : x.ok) (hlen : digitsLe PyStr.maxStrDigits x) (pos : Nat) :
    ∃ a b var, genAnB pyFoldEnv (lower x.render) = .ok (a, b, var) ∧
      (Designates (a, var, b) pos ↔ ∃ n : Nat, (anbValue x).1 * (n : Int) + (anbValue x).2 = (pos : Int)) := by
  obtain ⟨r, hr⟩ := gen_total x hok hlen
  refine ⟨r.1, r.2.1, r.2.2, hr, ?_⟩
  have hs := gen_sound (penv Gen.builtinsRec []) rfl rfl _ r hr
  rw [← hs]
  exact parse_anb_value_text Gen.builtinsRec [] x hok pos

/-! ### Beyond 4300 digits: the generated block raises, the hand model does not -/

theorem int10_overflow (pre D : Str) (hpre : pre = [] ∨ pre = [45]) (hD : ∀ x ∈ D, isDigit x = true)
    (hlen : PyStr.maxStrDigits < D.length) : PyStr.int10 (pre ++ D) = .error .valueError := by
  have hl : decide (D.length ≤ PyStr.maxStrDigits) = false := by simp; omega
  rcases hpre with rfl | rfl
  · cases D with
    | nil => simp [PyStr.maxStrDigits] at hlen
    | cons d ds =>
      have hd := hD d (by simp)
      simp only [isDigit, Bool.and_eq_true, decide_eq_true_eq] at hd
      have h45 : d ≠ 45 := by omega
      have h43 : d ≠ 43 := by omega
      simp only [List.nil_append]
      unfold PyStr.int10
      split
      · rename_i e; injection e with e; exact absurd e h45
      · rename_i e; injection e with e; exact absurd e h43
      · simp only [hl, Bool.and_false, Bool.false_eq_true, if_false]
  · simp only [List.singleton_append, PyStr.int10, hl, Bool.and_false, Bool.false_eq_true, if_false]

/-- **Where the two differ.**  A spelling whose FIRST digit string has more than 4300 digits: the generated block
    returns `SelectorSyntaxError` (as the library does: `int()` raises `ValueError`, which `parse_pseudo_nth`
    converts), while the hand model `parseAnB` computes the value. -/
theorem gen_overflow (x : SAnB) (hok : x.ok) (sg : Option Nat) (D : Str) (n : Option Nat)
    (T : Option (Str × Nat × Str × Str)) (hx : x = .lin sg D n T) (hlen : PyStr.maxStrDigits < D.length) :
    genAnB pyFoldEnv (lower x.render) = .error .selectorSyntaxError := by
  subst hx
  obtain ⟨e, hok'⟩ := lower_lin sg D n T hok
  rw [e]
  obtain ⟨h1, h2, j, caps, hm, g1, g2, g3, g4⟩ := lin_groups sg D _ _ hok'
  obtain ⟨hsg, hD, hn, hne, hT⟩ := hok
  have hD0 : D ≠ [] := by intro h; subst h; simp [PyStr.maxStrDigits] at hlen
  have hS1 : (coreStrs (sg.map fun x => [x]) (D ++ (n.map fun _ => 110).toList) ((lowerTail T).map fun q => [q.2.1])
      ((lowerTail T).map fun q => q.2.2.2)).1 = (if (sg.map fun x => [x]) == some [45] then [45] else []) ++ D := by
    have hh : (D.head? == some 110) = false := by
      rw [beq_eq_false_iff_ne]; exact digits_head_ne D hD 110 (by omega)
    cases n with
    | none =>
      have hl : (D.getLast? == some 110) = false := by
        rw [beq_eq_false_iff_ne]; exact digits_getLast_ne D hD 110 (by omega)
      simp only [coreStrs, Option.map_none, Option.toList_none, List.append_nil, hl, hh, Bool.false_eq_true, if_false]
    | some y =>
      have hd : ((D ++ [110]).head? == some 110) = false := by
        cases D with
        | nil => exact absurd rfl hD0
        | cons d ds => simpa using hh
      simp only [coreStrs, Option.map_some, Option.toList_some, hd, getLast_snoc, take_snoc, Bool.false_eq_true,
        if_false, if_true]
  unfold genAnB
  rw [hm, anb_closed _ _ h1 h2 _ g2, g1, g3, g4, hS1, int10_overflow _ D (sign_pre _) hD hlen]
  rfl

/-! ### Non-vacuity: the generated block evaluated by the kernel -/

example : Gen.PyAnB.regex = Gen.lexicon.reNth.rx ∧ Gen.PyAnB.regexGroups = Gen.lexicon.reNth.groups := ⟨rfl, rfl⟩
example : Gen.PyAnB.groupsRead = ["s1", "a", "s2", "b"] := rfl

/-- the groups of `-n+3`, `2n`, `+5`, a failed match -/
def gEx (s1 a s2 b : Option String) : String → Option Str := fun n =>
  if n == "s1" then s1.map String.toStr else if n == "a" then a.map String.toStr
  else if n == "s2" then s2.map String.toStr else if n == "b" then b.map String.toStr else none

example : Gen.PyAnB.anb "-n+3".toStr (gEx (some "-") (some "n") (some "+") (some "3")) = .ok (-1, 3, true) := by decide
example : Gen.PyAnB.anb "2n".toStr (gEx none (some "2n") none none) = .ok (2, 0, true) := by decide
example : Gen.PyAnB.anb "+5".toStr (gEx (some "+") (some "5") none none) = .ok (5, 0, false) := by decide
example : Gen.PyAnB.anb "-007n-08".toStr (gEx (some "-") (some "007n") (some "-") (some "08")) = .ok (-7, -8, true) := by decide
example : Gen.PyAnB.anb "x".toStr (gEx none none none none) = .error .attributeError := by decide
/-- what the error branches are for: `int('-', 10)`, `int('', 10)` are `ValueError`s -/
example : PyStr.int10 "-".toStr = .error .valueError ∧ PyStr.int10 [] = .error .valueError ∧
    PyStr.int10 "n".toStr = .error .valueError ∧ PyStr.int10 "-12".toStr = .ok (-12) ∧ PyStr.int10 "+007".toStr = .ok 7 := by decide
/-- a group `a` the block cannot digest (it never comes out of `RE_NTH`): `SelectorSyntaxError` -/
example : Gen.PyAnB.anb "nn".toStr (gEx none (some "xn") none none) = .error .selectorSyntaxError := by decide

end C02Gen
end SoupVerif

#print axioms SoupVerif.C02Gen.anb_closed
#print axioms SoupVerif.C02Gen.gen_sound
#print axioms SoupVerif.C02Gen.gen_total
#print axioms SoupVerif.C02Gen.gen_anb_value
#print axioms SoupVerif.C02Gen.gen_eq_model
#print axioms SoupVerif.C02Gen.gen_designates
#print axioms SoupVerif.C02Gen.gen_overflow
