/-
  C13 at the level of the regular expressions of the SOURCE.

  `Properties/C13.lean` proves that `extended_language_filter` is RFC 4647 extended filtering for the
  hand-written wildcard strip `wildStripText`.  `Refine/Lang.lean` proves, for ALL strings, that
  `RE_WILD_STRIP.sub('-', RE_WILD_TAIL.sub('', range))` computed by the regex-engine model on the expressions
  REGENERATED from `css_match.py` (`wildStripRx`, the expression the driver runs) is the same function.
  Composed here: the end-to-end C13 statements about the regexes the code compiles.
-/
import SoupVerif.Properties.C13
import SoupVerif.Refine.Lang
namespace SoupVerif
namespace C13Rx
open LangLemmas

theorem wildStripRx_eq_text (s : Str) : wildStripRx s = wildStripText s := RefineLang.wildStripRx_eq_text s

/-- The two substitutions, run by the engine on the regenerated regexes, remove exactly the redundant
    wildcard subtags. -/
theorem wildStripRx_subtags (s : Str) : splitOn 45 (wildStripRx s) = Spec.stripWild (splitOn 45 s) :=
  RefineLang.wildStripRx_subtags s

/-- End to end: `extended_language_filter` with the regex strip is the declarative RFC 4647 match. -/
theorem extendedFilter_rx_eq_c13 (range tag : Str) (hne : ∀ x ∈ (splitOn 45 range).tail, x ≠ []) :
    Lang.extendedFilter wildStripRx range tag =
      Spec.c13Match ((splitOn 45 range).map lower) ((splitOn 45 tag).map lower) :=
  RefineLang.extendedFilter_wildStripRx_eq_c13 range tag hne

theorem filter_rx_case_insensitive (r r' t t' : Str) (hr : lower r = lower r') (ht : lower t = lower t') :
    Lang.extendedFilter wildStripRx r t = Lang.extendedFilter wildStripRx r' t' :=
  RefineLang.wildStripRx_case_insensitive r r' t t' hr ht

end C13Rx
end SoupVerif
