/-
  C12 (also C11 / C01) — WHICH ATTRIBUTES an attribute selector designates: the generator
  `CSSMatch.match_attribute_name`, TRANSLATED from the source (`Generated/PyAttrName.lean`: the prologue
  `prefixLookup`, the per-attribute decisions `designates` / `designatesPlain` of the two loops, and the frame
  `match_attribute_name`, over the dynamic values of `Model/MatchDyn.lean` / `Model/AttrNameDyn.lean`) and PROVED
  equal to the hand-written model the property theorems are about (`Model/Match.lean` `matchAttributeValues`,
  `Properties/C12Parse.lean` `designates`) — for all contexts, elements, names, prefixes and attributes.

  Python truthiness is the point: `if prefix:` (None and '' are falsy), `not ns` (None and '' are falsy),
  `namespace is None`, `(A) if not self.is_xml else (B)`.

    * `gen_prefixLookup`, `gen_prefixLookup_none`   the prologue, in closed form;
    * `gen_designates`            with namespace support: the prologue returns early exactly when nothing is designated,
                                  otherwise the decision of the first loop is `.bool (designates c p a x)`;
    * `gen_designates_plain`      without namespace support: the decision of the second loop, likewise;
    * `gen_match_attribute_name`  the whole generator yields `matchAttributeValues c e a p` and does not raise;
    * `values_eq_gen_selected`    `matchAttributeValues` = the values of the attributes the GENERATED decision
                                  selects, in order;
    * `gen_none_prefix`           a `None` prefix is the empty prefix;
    * `gen_attr_ns_values`, `gen_attr_ns_empty_values`, `gen_attr_ns_empty_values_eq_bare`,
      `gen_attr_ns_unmapped_values`, `gen_attr_any_values`, `gen_attr_bare_values`,
      `gen_attr_no_ns_support_values`: the C12 theorems, about the regenerated generator.

  HYPOTHESIS `KeyOk` — and a (known, documented) finding.  A key with a namespace but NO local name
  (`NamespacedAttribute('xmlns', None, uri)`, only API-built) makes the third decision call `util.lower(None)` in
  non-XML documents: the library raises `TypeError`, the hand model answers "not designated".
  `gen_designates_nameless_raises` proves the regenerated decision is `.err` there; everywhere else
  (`KeyOk`: XML document, or no namespace, or a local name) the two agree.
-/
import SoupVerif.Generated.PyAttrName
import SoupVerif.Properties.C12Parse
namespace SoupVerif.C12GenAttr
open SoupVerif SoupVerif.PyMatchSel SoupVerif.PyAttrName SoupVerif.Names

set_option linter.unusedSimpArgs false

/-- The key of the attribute does not make `util.lower(name)` raise: XML document (names are compared with
    `!=`), or a key without namespace (a plain `str`), or a key with a local name. -/
def KeyOk (c : Ctx) (x : Attr) : Prop := c.isXml = true ∨ x.kns = none ∨ x.kname.isSome = true

variable (c : Ctx)

/-! ### the prologue -/

theorem gen_prefixLookup (a : PV) (p : Str) :
    Gen.PyAttrName.prefixLookup c a (.str p) =
      if p = [] then .go .none
      else match c.nsGet p with
        | some u => .go (.str u)
        | none => if p = "*".toStr then .go .none else .ret := by
  unfold Gen.PyAttrName.prefixLookup
  by_cases hp : p = []
  · subst hp; simp [Pre.ite, PV.truthy]
  · have hpe : p.isEmpty = false := by cases p <;> simp_all
    by_cases hs : p = [42]
    · subst hs
      cases hu : c.nsGet [42] <;>
        simp [Pre.ite, PV.truthy, pyNsGet, PV.ofOptStr, pyAnd, pyIsNone, pyNe, PV.isErr, hu]
    · cases hu : c.nsGet p <;>
        simp [Pre.ite, PV.truthy, pyNsGet, PV.ofOptStr, pyAnd, pyIsNone, pyNe, PV.isErr, hu, hp, hs, hpe]

/-- `prefix = None`: no lookup. -/
theorem gen_prefixLookup_none (a : PV) : Gen.PyAttrName.prefixLookup c a .none = .go .none := by
  simp [Gen.PyAttrName.prefixLookup, Pre.ite, PV.truthy]

/-! ### the operators on the values that occur here -/

@[local simp] theorem not_bool (b : Bool) : pyNot (.bool b) = .bool (!b) := by cases b <;> rfl
@[local simp] theorem not_opt (o : Option Str) : pyNot (PV.ofOptStr o) = .bool (nsFalsy o) := by
  cases o <;> simp [pyNot, PV.ofOptStr, PV.truthy, nsFalsy]
@[local simp] theorem not_str (u : Str) : pyNot (.str u) = .bool u.isEmpty := by
  simp [pyNot, PV.truthy]
@[local simp] theorem and_bool (a b : Bool) : pyAnd (.bool a) (.bool b) = .bool (a && b) := by
  cases a <;> simp [pyAnd, PV.truthy]
@[local simp] theorem or_bool (a b : Bool) : pyOr (.bool a) (.bool b) = .bool (a || b) := by
  cases a <;> simp [pyOr, PV.truthy]
@[local simp] theorem eq_str (a b : Str) : pyEq (.str a) (.str b) = .bool (a == b) := by
  by_cases h : a = b <;> simp [pyEq, PV.isErr, h]
@[local simp] theorem ne_str (a b : Str) : pyNe (.str a) (.str b) = .bool (a != b) := by
  by_cases h : a = b <;> simp [pyNe, PV.isErr, h, bne]
@[local simp] theorem ne_opt (a b : Option Str) : pyNe (PV.ofOptStr a) (PV.ofOptStr b) = .bool (a != b) := by
  cases a <;> cases b <;> simp [pyNe, PV.isErr, PV.ofOptStr, bne]
@[local simp] theorem ne_opt_str (a : Option Str) (b : Str) : pyNe (PV.ofOptStr a) (.str b) = .bool (a != some b) :=
  ne_opt a (some b)
theorem ofOpt_some (u : Str) : PV.ofOptStr (some u) = .str u := rfl
theorem ofOpt_none : PV.ofOptStr none = .none := rfl
@[local simp] theorem isNone_str (u : Str) : pyIsNone (.str u) = .bool false := rfl
@[local simp] theorem isNone_none : pyIsNone .none = .bool true := rfl
@[local simp] theorem ne_str_none (a : Str) : pyNe (.str a) .none = .bool true := by simp [pyNe, PV.isErr]
@[local simp] theorem isNone_opt (o : Option Str) : pyIsNone (PV.ofOptStr o) = .bool o.isNone := by
  cases o <;> rfl
@[local simp] theorem lower_str (a : Str) : pyLower (.str a) = .str (lower a) := rfl
@[local simp] theorem ite_bool (b : Bool) (x y : PV) : PV.ite (.bool b) x y = if b then x else y := by
  cases b <;> simp [PV.ite, PV.truthy]
@[local simp] theorem ite_tf (p : Prop) [Decidable p] :
    (if p then PV.bool true else PV.bool false) = .bool (decide p) := by split <;> simp_all
@[local simp] theorem ite_ft (p : Prop) [Decidable p] :
    (if p then PV.bool false else PV.bool true) = .bool (!decide p) := by split <;> simp_all
theorem dec_beq (x y : Str) : decide (x = y) = (x == y) := by rw [Bool.eq_iff_iff]; simp
@[local simp] theorem isXml_bool : pyIsXml c = .bool c.isXml := rfl
theorem ofOptStr_some (u : Str) : PV.str u = PV.ofOptStr (some u) := rfl

/-! ### the per-attribute decisions -/

private theorem lower_bne (a b : Str) : (PV.str (lower a) != PV.str (lower b)) = !(lower a == lower b) := by
  cases h : lower a == lower b <;> simp_all [bne]

/-- The decision of the first loop with a given `ns` (what the prologue computed), in closed form. -/
theorem gen_designates_ns (a p : Str) (ns : Option Str) (x : Attr) (hk : KeyOk c x) :
    Gen.PyAttrName.designates c (.str a) (.str p) (PV.ofOptStr ns) (pyKey x) (pySplitNamespace x) =
      .bool (
        if (nsFalsy ns && !(p == "*".toStr)) || (p == "*".toStr && x.kns.isNone) then nameEq c a x.key
        else match x.kns with
          | none => false
          | some kn => if ns != some kn && !(p == "*".toStr) then false else localNameEq c a x) := by
  obtain ⟨key, kns, kname, val⟩ := x
  unfold Gen.PyAttrName.designates
  simp only [star_toStr, pyKey, pySplitNamespace]
  have hk' : c.isXml = true ∨ kns = none ∨ kname.isSome = true := hk
  cases kns with
  | none =>
    cases hx : c.isXml <;> cases hn : nsFalsy ns <;> cases hs : p == [42] <;>
      simp [nameEq, hx, hn, hs, bne, dec_beq]
  | some kn =>
    by_cases hne : ns = some kn
    · subst hne
      cases kname with
      | none =>
        have hx : c.isXml = true := by simpa using hk'
        cases hn : kn.isEmpty <;> cases hs : p == [42] <;>
          simp [nameEq, localNameEq, hx, hn, hs, bne, ofOpt_some, ofOpt_none, dec_beq, nsFalsy]
      | some nm =>
        cases hx : c.isXml <;> cases hn : kn.isEmpty <;> cases hs : p == [42] <;>
          simp [nameEq, localNameEq, hx, hn, hs, bne, ofOpt_some, ofOpt_none, dec_beq, nsFalsy]
    · cases kname with
      | none =>
        have hx : c.isXml = true := by simpa using hk'
        cases hn : nsFalsy ns <;> cases hs : p == [42] <;>
          simp [nameEq, localNameEq, hx, hn, hs, hne, bne, ofOpt_some, ofOpt_none, dec_beq]
      | some nm =>
        cases hx : c.isXml <;> cases hn : nsFalsy ns <;> cases hs : p == [42] <;>
          simp [nameEq, localNameEq, hx, hn, hs, hne, bne, ofOpt_some, ofOpt_none, dec_beq]

/-- The decision of the second loop. -/
theorem gen_designatesPlain (a : Str) (p : PV) (x : Attr) :
    Gen.PyAttrName.designatesPlain c (.str a) p (pyKey x) (pySplitNamespace x) = .bool (lower a == lower x.key) := by
  unfold Gen.PyAttrName.designatesPlain
  cases h : lower a == lower x.key <;> simp_all [pyKey, bne, dec_beq]

/-- The model's view of the prologue: `none` = early `return`, `some ns` = the loop runs with `ns`. -/
def nsOf (p : Str) : Option (Option Str) :=
  if p = [] then some none
  else match c.nsGet p with
    | some u => some (some u)
    | none => if p = "*".toStr then some none else none

theorem gen_prefixLookup_nsOf (a : PV) (p : Str) :
    Gen.PyAttrName.prefixLookup c a (.str p) =
      match nsOf c p with
      | none => .ret
      | some ns => .go (PV.ofOptStr ns) := by
  rw [gen_prefixLookup, nsOf]
  by_cases hp : p = []
  · simp [hp, PV.ofOptStr]
  · cases hu : c.nsGet p with
    | some u => simp [hp, PV.ofOptStr]
    | none => by_cases hs : p = [42] <;> simp [hp, hs, PV.ofOptStr]

/-- **The generated per-attribute decision = the hand model's `designates`** (documents with namespace support):
    the prologue returns early exactly when the prefix designates nothing, and otherwise the decision of the first
    loop, with the `ns` the prologue computed, is `designates c p a x` — and did not raise. -/
theorem gen_designates (a p : Str) (x : Attr) (h : c.supportsNamespaces = true) (hk : KeyOk c x) :
    match Gen.PyAttrName.prefixLookup c (.str a) (.str p) with
    | .ret => C12Parse.designates c p a x = false
    | .go ns => Gen.PyAttrName.designates c (.str a) (.str p) ns (pyKey x) (pySplitNamespace x) =
        .bool (C12Parse.designates c p a x)
    | .err => False := by
  rw [gen_prefixLookup_nsOf, nsOf]
  by_cases hp : p = []
  · subst hp
    simp only [if_true, gen_designates_ns c a [] none x hk]
    simp [C12Parse.designates, h, nsFalsy]
  · by_cases hs : p = "*".toStr
    · subst hs
      have hp' : ("*".toStr : Str) ≠ [] := hp
      cases hu : c.nsGet "*".toStr with
      | none =>
        simp only [hp', if_false, if_true, gen_designates_ns c a _ none x hk]
        cases hkn : x.kns <;> simp [C12Parse.designates, h, C12.inAnyNs, hkn]
      | some u =>
        simp only [hp', if_false, gen_designates_ns c a _ (some u) x hk]
        cases hkn : x.kns <;> simp [C12Parse.designates, h, C12.inAnyNs, hkn]
    · have hs' : (p == "*".toStr) = false := by simpa using hs
      have hs2 : ¬ p = [42] := by simpa using hs
      cases hu : c.nsGet p with
      | none => simp [hp, hs, hs2, C12Parse.designates, h, hu]
      | some u =>
        simp only [hp, if_false, gen_designates_ns c a p (some u) x hk, hs']
        by_cases hue : u = []
        · subst hue; simp [C12Parse.designates, h, hu, hp, hs, hs2, nsFalsy]
        · have hue' : u.isEmpty = false := by cases u <;> simp_all
          cases hkn : x.kns with
          | none => simp [C12Parse.designates, h, hu, hp, hs, hs2, hue, nsFalsy, hue', C12.inNs, hkn]
          | some kn =>
            have hkk' : (u = kn) = (kn = u) := propext eq_comm
            by_cases hkk : kn = u <;>
              simp [hkk', C12Parse.designates, h, hu, hp, hs, hs2, hue, nsFalsy, hue', C12.inNs, hkn, hkk, bne]

/-- Documents without namespace support: the decision of the second loop is `designates c p a x`. -/
theorem gen_designates_plain (a p : Str) (x : Attr) (h : c.supportsNamespaces = false) :
    Gen.PyAttrName.designatesPlain c (.str a) (.str p) (pyKey x) (pySplitNamespace x) =
      .bool (C12Parse.designates c p a x) := by
  rw [gen_designatesPlain]; simp [C12Parse.designates, h]

/-! ### the loops and the whole generator -/

/-- A loop whose body decides `g` on every item (and does not raise) yields the values of the items `g` selects,
    in order. -/
theorem pyYieldLoop_bool (f : Attr → PV) (g : Attr → Bool) (l : List Attr) (h : ∀ x ∈ l, f x = .bool (g x)) :
    pyYieldLoop f l = Yields.done ((l.filter g).map fun x => normalizeValue x.val) := by
  induction l with
  | nil => rfl
  | cons x rest ih =>
    have hx := h x (List.mem_cons_self)
    have ih' := ih (fun y hy => h y (List.mem_cons_of_mem _ hy))
    rw [pyYieldLoop, hx, ih']
    cases hg : g x <;> simp [PV.truthy, hg, Yields.done, List.filter_cons]

/-- Every key of the element is `KeyOk`. -/
def KeysOk (e : Elem) : Prop := ∀ x ∈ e.attrs, KeyOk c x

/-- **The regenerated generator yields what the hand model says, and does not raise**: the values of the
    attributes `designates` selects, in document order. -/
theorem gen_match_attribute_name_designates (e : Elem) (a p : Str) (hk : KeysOk c e) :
    Gen.PyAttrName.match_attribute_name c e (.str a) (.str p) =
      Yields.done ((e.attrs.filter (C12Parse.designates c p a)).map fun x => normalizeValue x.val) := by
  unfold Gen.PyAttrName.match_attribute_name
  cases h : c.supportsNamespaces with
  | false =>
    simp only [pySupportsNs, h, Yields.ite, PV.truthy, pyIterAttributes]
    exact pyYieldLoop_bool _ _ _ (fun x _ => gen_designates_plain c a p x h)
  | true =>
    simp only [pySupportsNs, h, Yields.ite, PV.truthy, pyIterAttributes, if_true]
    cases hpre : Gen.PyAttrName.prefixLookup c (.str a) (.str p) with
    | ret =>
      have hall : ∀ x ∈ e.attrs, C12Parse.designates c p a x = false := by
        intro x hx
        have := gen_designates c a p x h (hk x hx)
        rw [hpre] at this; exact this
      simp only [Pre.run]
      rw [List.filter_eq_nil_iff.mpr (by intro x hx; simp [hall x hx])]; rfl
    | go ns =>
      simp only [Pre.run]
      refine pyYieldLoop_bool _ _ _ (fun x hx => ?_)
      have := gen_designates c a p x h (hk x hx)
      rw [hpre] at this; exact this
    | err =>
      have hne := gen_prefixLookup_nsOf c (.str a) p
      rw [hpre] at hne
      cases hn : nsOf c p <;> simp [hn] at hne

/-- … i.e. `matchAttributeValues`, the function the C12 / C11 / C01 attribute theorems are about. -/
theorem gen_match_attribute_name (e : Elem) (a p : Str) (hk : KeysOk c e) :
    Gen.PyAttrName.match_attribute_name c e (.str a) (.str p) = Yields.done (matchAttributeValues c e a p) := by
  rw [gen_match_attribute_name_designates c e a p hk, C12Parse.values_eq_designated]

/-- `matchAttributeValues` = the values of the attributes the GENERATED decision selects (with the `ns` the
    generated prologue computed), in document order. -/
theorem values_eq_gen_selected (e : Elem) (a p : Str) (ns : PV) (h : c.supportsNamespaces = true)
    (hk : KeysOk c e) (hpre : Gen.PyAttrName.prefixLookup c (.str a) (.str p) = .go ns) :
    matchAttributeValues c e a p =
      (e.attrs.filter fun x =>
        (Gen.PyAttrName.designates c (.str a) (.str p) ns (pyKey x) (pySplitNamespace x)).truthy).map
        fun x => normalizeValue x.val := by
  rw [C12Parse.values_eq_designated]
  congr 1
  apply List.filter_congr
  intro x hx
  have := gen_designates c a p x h (hk x hx)
  rw [hpre] at this
  rw [this]; rfl

/-- … when the generated prologue returns early, nothing is yielded. -/
theorem values_nil_of_gen_ret (e : Elem) (a p : Str) (h : c.supportsNamespaces = true)
    (hk : KeysOk c e) (hpre : Gen.PyAttrName.prefixLookup c (.str a) (.str p) = .ret) :
    matchAttributeValues c e a p = [] := by
  have := gen_match_attribute_name c e a p hk
  unfold Gen.PyAttrName.match_attribute_name at this
  simp only [pySupportsNs, h, Yields.ite, PV.truthy, if_true, hpre, Pre.run, Yields.done] at this
  exact (Yields.mk.inj this).1.symm

/-- without namespace support: the values of the attributes the generated decision of the second loop selects. -/
theorem values_eq_gen_selected_plain (e : Elem) (a p : Str) (h : c.supportsNamespaces = false) :
    matchAttributeValues c e a p =
      (e.attrs.filter fun x =>
        (Gen.PyAttrName.designatesPlain c (.str a) (.str p) (pyKey x) (pySplitNamespace x)).truthy).map
        fun x => normalizeValue x.val := by
  rw [C12Parse.values_eq_designated]
  congr 1
  apply List.filter_congr
  intro x _
  rw [gen_designates_plain c a p x h]; rfl

/-! ### `prefix = None` is the empty prefix -/

theorem gen_none_prefix (e : Elem) (a : Str) :
    Gen.PyAttrName.match_attribute_name c e (.str a) .none = Gen.PyAttrName.match_attribute_name c e (.str a) (.str []) := by
  unfold Gen.PyAttrName.match_attribute_name
  have h1 : Gen.PyAttrName.prefixLookup c (.str a) (.str []) = .go .none := by
    rw [gen_prefixLookup]; simp
  rw [gen_prefixLookup_none, h1]
  have hd : ∀ ns k sp, Gen.PyAttrName.designates c (.str a) .none ns k sp =
      Gen.PyAttrName.designates c (.str a) (.str []) ns k sp := by
    intro ns k sp
    unfold Gen.PyAttrName.designates
    have e1 : pyNe .none (.str [42]) = pyNe (.str []) (.str [42]) := by decide
    have e2 : pyEq .none (.str [42]) = pyEq (.str []) (.str [42]) := by decide
    simp only [e1, e2]
  have hp : ∀ k sp, Gen.PyAttrName.designatesPlain c (.str a) .none k sp =
      Gen.PyAttrName.designatesPlain c (.str a) (.str []) k sp := by
    intro k sp; rfl
  simp only [hd, hp]

/-! ### the finding: a key with a namespace and no local name, non-XML document -/

/-- `util.lower(None)`: with `[*|a]` (or a prefix mapped to the key's namespace) the third decision raises for an
    attribute whose key has a namespace but no local name, in a non-XML document.  (The hand model says "not
    designated"; the real library raises `TypeError`: documented in DESIGN §7, only API-built keys.) -/
theorem gen_designates_nameless_raises (a key kn : Str) (v : PyVal) (ns : Option Str) (hx : c.isXml = false) :
    Gen.PyAttrName.designates c (.str a) (.str "*".toStr) (PV.ofOptStr ns) (pyKey ⟨key, some kn, none, v⟩)
      (pySplitNamespace ⟨key, some kn, none, v⟩) = .err := by
  unfold Gen.PyAttrName.designates
  have e1 : pyLower .none = .err := rfl
  have e2 : ∀ x, pyNe x .err = .err := by intro x; cases x <;> simp [pyNe, PV.isErr]
  have e3 : ∀ x y, PV.ite .err x y = .err := fun _ _ => rfl
  cases hn : nsFalsy ns <;>
    simp [pyKey, pySplitNamespace, hx, hn, ofOpt_some, ofOpt_none, e1, e2, e3]

/-! ### the C12 theorems, about the regenerated generator -/

variable (e : Elem) (hk : KeysOk c e)
include hk

/-- `[ns|a]`, `ns ↦ u ≠ ''`: ALL the attributes in namespace `u` with local name `a`, document order. -/
theorem gen_attr_ns_values (a p u : Str) (h : c.supportsNamespaces = true)
    (hp : p ≠ []) (hs : p ≠ "*".toStr) (hm : c.nsGet p = some u) (hu : u ≠ []) :
    Gen.PyAttrName.match_attribute_name c e (.str a) (.str p) =
      Yields.done ((e.attrs.filter (C12.inNs c a u)).map fun x => normalizeValue x.val) := by
  rw [gen_match_attribute_name c e a p hk, C12.attr_ns_values c e a p u h hp hs hm hu]

/-- `[p|a]`, `p ↦ ''`: the attributes whose FULL key text equals `a`. -/
theorem gen_attr_ns_empty_values (a p : Str) (h : c.supportsNamespaces = true)
    (hp : p ≠ []) (hs : p ≠ "*".toStr) (hm : c.nsGet p = some []) :
    Gen.PyAttrName.match_attribute_name c e (.str a) (.str p) =
      Yields.done ((e.attrs.filter (fun x => nameEq c a x.key)).map fun x => normalizeValue x.val) := by
  rw [gen_match_attribute_name c e a p hk, C12.attr_ns_empty_values c e a p h hp hs hm]

/-- … exactly what `[a]` / `[|a]` designate. -/
theorem gen_attr_ns_empty_values_eq_bare (a p : Str)
    (hp : p ≠ []) (hs : p ≠ "*".toStr) (hm : c.nsGet p = some []) :
    Gen.PyAttrName.match_attribute_name c e (.str a) (.str p) =
      Gen.PyAttrName.match_attribute_name c e (.str a) (.str []) := by
  rw [gen_match_attribute_name c e a p hk, gen_match_attribute_name c e a [] hk,
    C12.attr_ns_empty_values_eq_bare c e a p hp hs hm]

/-- An unmapped prefix designates nothing. -/
theorem gen_attr_ns_unmapped_values (a p : Str) (h : c.supportsNamespaces = true)
    (hp : p ≠ []) (hs : p ≠ "*".toStr) (hm : c.nsGet p = none) :
    Gen.PyAttrName.match_attribute_name c e (.str a) (.str p) = Yields.done [] := by
  rw [gen_match_attribute_name c e a p hk, C12.attr_ns_unmapped_values c e a p h hp hs hm]

/-- `[*|a]`: ALL the attributes with local name `a` in any namespace, and the attribute `a` in no namespace —
    whatever the prefix map says about `*`. -/
theorem gen_attr_any_values (a : Str) (h : c.supportsNamespaces = true) :
    Gen.PyAttrName.match_attribute_name c e (.str a) (.str "*".toStr) =
      Yields.done ((e.attrs.filter (C12.inAnyNs c a)).map fun x => normalizeValue x.val) := by
  rw [gen_match_attribute_name c e a _ hk, C12.attr_any_values c e a h]

/-- `[a]` and `[|a]`: the attributes whose FULL key text equals `a`. -/
theorem gen_attr_bare_values (a : Str) (h : c.supportsNamespaces = true) :
    Gen.PyAttrName.match_attribute_name c e (.str a) (.str []) =
      Yields.done ((e.attrs.filter (fun x => nameEq c a x.key)).map fun x => normalizeValue x.val) := by
  rw [gen_match_attribute_name c e a [] hk, C12.attr_bare_values c e a h]

omit hk in
/-- HTML without namespaces: the prefix is ignored, the whole key is compared case-insensitively (no hypothesis on
    the keys: the second loop never looks at `split_namespace`). -/
theorem gen_attr_no_ns_support_values (a p : Str) (h : c.supportsNamespaces = false) :
    Gen.PyAttrName.match_attribute_name c e (.str a) (.str p) =
      Yields.done ((e.attrs.filter (fun x => lower a == lower x.key)).map fun x => normalizeValue x.val) := by
  unfold Gen.PyAttrName.match_attribute_name
  simp only [pySupportsNs, h, Yields.ite, PV.truthy, pyIterAttributes]
  exact pyYieldLoop_bool _ _ _ (fun x _ => gen_designatesPlain c a (.str p) x)

end SoupVerif.C12GenAttr
